(* Lemmas about Codec/Runestone.v.
   Part A: totality of decipher (no Panic for any transaction with at most
           u32::MAX outputs; None exactly when no output starts OP_RETURN OP_13).
   Part B: round trip encipher -> decipher, bottom-up.
   Part C: flaw order. *)
From OrdV Require Import Base.Prelude Generated Codec.Varint Codec.Script Codec.Runestone
  Proofs.Varint_proofs Proofs.Script_proofs.
Require Import ZifyBool ZifyN Permutation.
Ltac Zify.zify_post_hook ::= Z.div_mod_to_equations.

(* ================= Part A: totality ================= *)

Definition starts_magic (s : list N) : Prop := exists r, s = OP_RETURN :: MAGIC_NUMBER :: r.

Lemma push_data_not_op size bs o r : push_data size bs <> SInstr (IOp o) r.
Proof.
  unfold push_data. destruct (take_opt size bs) as [[lb r1]|]; [|discriminate].
  destruct (take_opt (le_value lb) r1) as [[d r2]|]; discriminate.
Qed.

Lemma next_instr_op byte rest : OP_PUSHDATA4 < byte ->
  next_instr (byte :: rest) = SInstr (IOp byte) rest.
Proof.
  intros H. cbn [next_instr]. unfold OP_PUSHDATA4, OP_PUSHBYTES_75, OP_PUSHDATA1, OP_PUSHDATA2 in *.
  destruct (N.leb_spec byte 75); [lia|].
  destruct (N.eqb_spec byte 76); [lia|].
  destruct (N.eqb_spec byte 77); [lia|].
  destruct (N.eqb_spec byte 78); [lia|]. reflexivity.
Qed.

Lemma next_instr_push_only byte rest o r : byte <= OP_PUSHDATA4 ->
  next_instr (byte :: rest) <> SInstr (IOp o) r.
Proof.
  intros H. cbn [next_instr]. unfold OP_PUSHDATA4, OP_PUSHBYTES_75, OP_PUSHDATA1, OP_PUSHDATA2 in *.
  destruct (N.leb_spec byte 75).
  { destruct (take_opt byte rest) as [[d r1]|]; discriminate. }
  destruct (N.eqb_spec byte 76); [apply push_data_not_op|].
  destruct (N.eqb_spec byte 77); [apply push_data_not_op|].
  destruct (N.eqb_spec byte 78); [apply push_data_not_op|]. lia.
Qed.

Lemma next_instr_is_op bs o r : next_instr bs = SInstr (IOp o) r -> bs = o :: r /\ OP_PUSHDATA4 < o.
Proof.
  destruct bs as [|byte rest]; [discriminate|]. intros H.
  destruct (N.le_gt_cases byte OP_PUSHDATA4) as [Hle|Hgt].
  - exfalso. exact (next_instr_push_only _ _ _ _ Hle H).
  - rewrite next_instr_op in H by assumption. inversion H; subst. split; [reflexivity|assumption].
Qed.

Lemma script_payload_magic r :
  script_payload (OP_RETURN :: MAGIC_NUMBER :: r) = Some (collect (length r) r).
Proof.
  unfold script_payload.
  rewrite next_instr_op by (vm_compute; reflexivity). rewrite N.eqb_refl.
  rewrite next_instr_op by (vm_compute; reflexivity). rewrite N.eqb_refl. reflexivity.
Qed.

Lemma script_payload_Some s x : script_payload s = Some x -> starts_magic s.
Proof.
  unfold script_payload. destruct (next_instr s) as [| |[d|o1] r1] eqn:E1; try discriminate.
  destruct (N.eqb_spec o1 OP_RETURN) as [->|]; [|discriminate].
  destruct (next_instr r1) as [| |[d|o2] r2] eqn:E2; try discriminate.
  destruct (N.eqb_spec o2 MAGIC_NUMBER) as [->|]; [|discriminate]. intros _.
  apply next_instr_is_op in E1. apply next_instr_is_op in E2.
  destruct E1 as [-> _], E2 as [-> _]. exists r2. reflexivity.
Qed.

Lemma script_payload_None s : script_payload s = None <-> ~ starts_magic s.
Proof.
  split.
  - intros H [r ->]. rewrite script_payload_magic in H. discriminate.
  - intros H. destruct (script_payload s) eqn:E; [|reflexivity].
    exfalso. apply H. eapply script_payload_Some. exact E.
Qed.

Lemma collect_total : forall fuel bs, (length bs <= fuel)%nat -> exists p, collect fuel bs = Ok p.
Proof.
  induction fuel as [|f IH]; intros bs Hl.
  - destruct bs; [|cbn [length] in Hl; lia]. eexists. reflexivity.
  - cbn [collect]. destruct (next_instr bs) as [| |[d|o] rest] eqn:E; try (eexists; reflexivity).
    apply next_instr_shorter in E. destruct (IH rest ltac:(lia)) as [p Hp]. rewrite Hp.
    destruct p; eexists; reflexivity.
Qed.

Lemma payload_total outs : exists p, payload outs = Ok p.
Proof.
  induction outs as [|s rest IH]; [eexists; reflexivity|]. cbn [payload].
  destruct (script_payload s) as [r|] eqn:E; [|exact IH].
  unfold script_payload in E.
  destruct (next_instr s) as [| |[d|o1] r1]; try discriminate.
  destruct (N.eqb o1 OP_RETURN); [|discriminate].
  destruct (next_instr r1) as [| |[d|o2] r2]; try discriminate.
  destruct (N.eqb o2 MAGIC_NUMBER); [|discriminate]. inversion E; subst r.
  destruct (collect_total (length r2) r2 (le_n _)) as [p Hp]. rewrite Hp. eexists. reflexivity.
Qed.

Lemma payload_None outs : payload outs = Ok None <-> Forall (fun s => ~ starts_magic s) outs.
Proof.
  induction outs as [|s rest IH]; cbn [payload].
  - split; [constructor|reflexivity].
  - destruct (script_payload s) as [r|] eqn:E.
    + split.
      * intros H. destruct r as [p|e|t]; cbn [bind] in H; discriminate.
      * intros H. inversion H; subst. apply script_payload_Some in E. contradiction.
    + apply script_payload_None in E. rewrite IH. split.
      * intros H. constructor; assumption.
      * intros H. inversion H; assumption.
Qed.

Lemma integers_total : forall fuel bs, (length bs <= fuel)%nat -> exists r, integers fuel bs = Ok r.
Proof.
  induction fuel as [|f IH]; intros bs Hl.
  - destruct bs; [|cbn [length] in Hl; lia]. eexists. reflexivity.
  - destruct bs as [|b bs']; [eexists; reflexivity|]. cbn [integers].
    destruct (decode (b :: bs')) as [e|[n k]] eqn:E; [eexists; reflexivity|].
    apply decode_exact in E. destruct E as (j & -> & Hj & Hjl & _).
    rewrite Nnat.Nat2N.id.
    destruct (IH (skipn j (b :: bs'))) as [r Hr].
    { rewrite skipn_length. lia. }
    rewrite Hr. eexists. reflexivity.
Qed.

Lemma edict_from_integers_total n_out i a o : n_out <= U32_MAX ->
  exists e, edict_from_integers n_out i a o = Ok e.
Proof.
  intros H. unfold edict_from_integers. destruct (to_u32 o); [|eexists; reflexivity].
  destruct (N.ltb_spec U32_MAX n_out); [lia|].
  destruct (N.ltb n_out n); eexists; reflexivity.
Qed.

Lemma edicts_from_total n_out : n_out <= U32_MAX -> forall k ints i, (length ints <= k)%nat ->
  exists r, edicts_from n_out i ints = Ok r.
Proof.
  intros Hn. induction k as [|k IH]; intros ints i Hl.
  - destruct ints; [|cbn [length] in Hl; lia]. eexists. reflexivity.
  - destruct ints as [|b [|t [|a [|o rest]]]]; try (eexists; reflexivity).
    cbn [edicts_from]. destruct (id_next i b t) as [nx|]; [|eexists; reflexivity].
    destruct (edict_from_integers_total n_out nx a o Hn) as [e ->]. cbn [bind].
    destruct e as [e|]; [|eexists; reflexivity].
    destruct (IH rest nx) as [[es f] Hr]; [cbn [length] in Hl; lia|].
    rewrite Hr. eexists. reflexivity.
Qed.

Lemma from_integers_total n_out : n_out <= U32_MAX -> forall k ints, (length ints <= k)%nat ->
  exists m, from_integers n_out ints = Ok m.
Proof.
  intros Hn. induction k as [|k IH]; intros ints Hl.
  - destruct ints; [|cbn [length] in Hl; lia]. eexists. reflexivity.
  - destruct ints as [|tag rest]; [eexists; reflexivity|]. cbn [from_integers].
    destruct (N.eqb TAG_Body tag).
    + destruct (edicts_from_total n_out Hn (length rest) rest (mkId 0 0) (le_n _)) as [[es f] ->].
      eexists. reflexivity.
    + destruct rest as [|v rest']; [eexists; reflexivity|].
      destruct (IH rest') as [m ->]; [cbn [length] in Hl; lia|]. eexists. reflexivity.
Qed.

(* decipher never panics and never fails on a transaction with at most u32::MAX
   outputs; the result is None exactly when no output starts OP_RETURN OP_13 *)
Theorem decipher_total outs : len outs <= U32_MAX ->
  exists a, decipher outs = Ok a /\
    (a = None <-> Forall (fun s => ~ starts_magic s) outs).
Proof.
  intros Hn. unfold decipher. destruct (payload_total outs) as [p Hp].
  pose proof (payload_None outs) as HN. rewrite Hp in *. cbn [bind].
  destruct p as [[bs|f]|].
  - destruct (integers_total (length bs) bs (le_n _)) as [r ->]. cbn [bind].
    destruct r as [ints|].
    + destruct (from_integers_total _ Hn (length ints) ints (le_n _)) as [m ->]. cbn [bind].
      eexists. split; [reflexivity|]. split; [discriminate|].
      intros H. apply HN in H. discriminate.
    + eexists. split; [reflexivity|]. split; [discriminate|].
      intros H. apply HN in H. discriminate.
  - eexists. split; [reflexivity|]. split; [discriminate|].
    intros H. apply HN in H. discriminate.
  - eexists. split; [reflexivity|]. split; [intros _; apply HN; reflexivity|reflexivity].
Qed.

(* without any bound on the number of outputs the only possible Panic is the
   `u32::try_from(tx.output.len()).unwrap()` of Edict::from_integers *)
Lemma edicts_from_panic n_out : forall k ints i t, (length ints <= k)%nat ->
  edicts_from n_out i ints = Panic t -> t = PANIC_OUTPUTS_U32 /\ U32_MAX < n_out.
Proof.
  induction k as [|k IH]; intros ints i t Hl H.
  - destruct ints; [discriminate|cbn [length] in Hl; lia].
  - destruct ints as [|b [|t0 [|a [|o rest]]]]; try discriminate.
    cbn [edicts_from] in H. destruct (id_next i b t0) as [nx|]; [|discriminate].
    unfold edict_from_integers in H. destruct (to_u32 o); [|discriminate].
    destruct (N.ltb_spec U32_MAX n_out).
    + cbn [bind] in H. inversion H. split; [reflexivity|assumption].
    + destruct (N.ltb n_out n); cbn [bind] in H; [discriminate|].
      destruct (edicts_from n_out nx rest) as [[es f]|e|t'] eqn:E; cbn [bind] in H; try discriminate.
      inversion H; subst. eapply IH; [|exact E]. cbn [length] in Hl. lia.
Qed.

(* ================= Part B: round trip ================= *)

(* ---------- B1: the varint stream ---------- *)

Lemma integers_step fuel bs n k : bs <> [] -> decode bs = inr (n, k) ->
  integers (S fuel) bs =
  (do r <- integers fuel (skipn (N.to_nat k) bs);
   Ok (match r with Some l => Some (n :: l) | None => None end)).
Proof.
  intros Hne Hd. destruct bs as [|b bs']; [contradiction|]. cbn [integers]. rewrite Hd. reflexivity.
Qed.

Lemma integers_encode : forall ints fuel,
  Forall (fun n => n < P128) ints -> (length (flat_map encode ints) <= fuel)%nat ->
  integers fuel (flat_map encode ints) = Ok (Some ints).
Proof.
  induction ints as [|n ints IH]; intros fuel HF Hl.
  - destruct fuel; reflexivity.
  - inversion HF as [|? ? Hn HF']; subst. cbn [flat_map] in *.
    pose proof (encode_nonempty n) as Hne. rewrite app_length in Hl.
    destruct fuel as [|f]; [lia|].
    rewrite (integers_step f _ n (N.of_nat (length (encode n)))).
    + rewrite Nnat.Nat2N.id, skipn_app, skipn_all, Nat.sub_diag. cbn [app skipn].
      rewrite IH by (assumption || lia). reflexivity.
    + destruct (encode n); [cbn [length] in Hne; lia|discriminate].
    + apply decode_encode. assumption.
Qed.

(* ---------- B2: the script ---------- *)

Lemma push_chunks_ok cs : Forall (fun ch => len ch < 4294967296) cs -> exists s, push_chunks cs = Ok s.
Proof.
  induction cs as [|c r IH]; intros H; [eexists; reflexivity|].
  inversion H as [|? ? Hc Hr]; subst. cbn [push_chunks].
  destruct (N.leb_spec 4294967296 (len c)); [lia|].
  destruct (push_slice_ok c Hc) as [p ->]. destruct (IH Hr) as [s ->]. eexists. reflexivity.
Qed.

Lemma collect_push_chunks : forall cs s fuel,
  push_chunks cs = Ok s -> (length s <= fuel)%nat -> collect fuel s = Ok (Valid (concat cs)).
Proof.
  induction cs as [|c r IH]; intros s fuel H Hl.
  - inversion H; subst. destruct fuel; reflexivity.
  - cbn [push_chunks] in H. destruct (N.leb 4294967296 (len c)); [discriminate|].
    destruct (push_slice c) as [p|e|t] eqn:Ep; cbn [bind] in H; try discriminate.
    destruct (push_chunks r) as [rest|e|t] eqn:Er; cbn [bind] in H; try discriminate.
    inversion H; subst s.
    pose proof (next_instr_push_slice c p rest Ep) as Hn.
    pose proof (next_instr_shorter _ _ _ Hn) as Hs.
    destruct fuel as [|f]; [lia|]. cbn [collect]. rewrite Hn.
    rewrite (IH rest f eq_refl) by lia. reflexivity.
Qed.

Lemma payload_skip pre s post :
  Forall (fun s => ~ starts_magic s) pre ->
  payload (pre ++ s :: post) = payload (s :: post).
Proof.
  induction pre as [|x pre IH]; intros H; [reflexivity|].
  inversion H as [|? ? Hx Hp]; subst. cbn [app payload].
  apply script_payload_None in Hx. rewrite Hx. apply IH. assumption.
Qed.

(* ---------- B3: edicts ---------- *)

Fixpoint sorted_from (prev : RuneId) (es : list Edict) : Prop :=
  match es with
  | [] => True
  | e :: r => id_leb prev (id e) = true /\ sorted_from (id e) r
  end.

Lemma id_leb_total a b : id_leb a b = false -> id_leb b a = true.
Proof. unfold id_leb. lia. Qed.

Lemma id_leb_zero i : id_leb (mkId 0 0) i = true.
Proof. unfold id_leb. cbn [block tx]. lia. Qed.

Lemma insert_sorted : forall l prev e,
  id_leb prev (id e) = true -> sorted_from prev l -> sorted_from prev (insert_edict e l).
Proof.
  induction l as [|x r IH]; intros prev e Hp Hs; cbn [insert_edict].
  - cbn [sorted_from]. split; [assumption|exact I].
  - cbn [sorted_from] in Hs. destruct Hs as [Hx Hr].
    destruct (id_leb (id e) (id x)) eqn:E; cbn [sorted_from].
    + repeat split; assumption.
    + split; [assumption|]. apply IH; [apply id_leb_total; assumption|assumption].
Qed.

Lemma sort_sorted l : sorted_from (mkId 0 0) (sort_edicts l).
Proof.
  induction l as [|e r IH]; cbn [sort_edicts]; [exact I|].
  apply insert_sorted; [apply id_leb_zero|assumption].
Qed.

Lemma insert_Forall (P : Edict -> Prop) e l : P e -> Forall P l -> Forall P (insert_edict e l).
Proof.
  intros He. induction l as [|x r IH]; intros H; cbn [insert_edict].
  - constructor; [assumption|constructor].
  - inversion H; subst. destruct (id_leb (id e) (id x)).
    + constructor; assumption.
    + constructor; [assumption|apply IH; assumption].
Qed.

Lemma sort_Forall (P : Edict -> Prop) l : Forall P l -> Forall P (sort_edicts l).
Proof.
  induction l as [|e r IH]; intros H; cbn [sort_edicts]; [constructor|].
  inversion H; subst. apply insert_Forall; [assumption|apply IH; assumption].
Qed.

Lemma insert_length e l : length (insert_edict e l) = S (length l).
Proof.
  induction l as [|x r IH]; cbn [insert_edict]; [reflexivity|].
  destruct (id_leb (id e) (id x)); cbn [length]; [reflexivity|rewrite IH; reflexivity].
Qed.

Lemma sort_nonempty l : l <> [] -> sort_edicts l <> [].
Proof.
  destruct l as [|e r]; [contradiction|]. intros _ H. apply (f_equal (@length Edict)) in H.
  cbn [sort_edicts] in H. rewrite insert_length in H. discriminate.
Qed.

(* insertion sort is a stable sort: a permutation, and the edicts with any given
   id keep their relative order *)
Lemma insert_perm e l : Permutation (e :: l) (insert_edict e l).
Proof.
  induction l as [|x r IH]; cbn [insert_edict]; [apply Permutation_refl|].
  destruct (id_leb (id e) (id x)); [apply Permutation_refl|].
  eapply perm_trans; [apply perm_swap|].
  apply perm_skip. exact IH.
Qed.

Lemma sort_perm l : Permutation l (sort_edicts l).
Proof.
  induction l as [|e r IH]; cbn [sort_edicts]; [constructor|].
  eapply perm_trans; [apply perm_skip; exact IH|apply insert_perm].
Qed.

Definition id_eqb (a b : RuneId) : bool := andb (N.eqb (block a) (block b)) (N.eqb (tx a) (tx b)).
Definition with_id (i : RuneId) (l : list Edict) : list Edict := filter (fun e => id_eqb (id e) i) l.

Lemma insert_stable i e l :
  with_id i (insert_edict e l) = with_id i (e :: l).
Proof.
  induction l as [|x r IH]; cbn [insert_edict]; [reflexivity|].
  destruct (id_leb (id e) (id x)) eqn:E; [reflexivity|].
  unfold with_id in *. cbn [filter] in *. rewrite IH.
  destruct (id_eqb (id e) i) eqn:Ee; destruct (id_eqb (id x) i) eqn:Ex; try reflexivity.
  (* both have id i: then id_leb e x would be true *)
  exfalso. unfold id_eqb, id_leb in *. lia.
Qed.

Lemma sort_stable i l : with_id i (sort_edicts l) = with_id i l.
Proof.
  induction l as [|e r IH]; cbn [sort_edicts]; [reflexivity|].
  rewrite insert_stable. unfold with_id in *. cbn [filter]. rewrite IH. reflexivity.
Qed.

(* well-formedness of ids and edicts, as booleans (part of WF below) *)
Definition wf_id (i : RuneId) : bool :=
  andb (andb (N.leb (block i) U64_MAX) (N.leb (tx i) U32_MAX))
       (negb (andb (N.eqb (block i) 0) (N.ltb 0 (tx i)))).

Definition wf_edict (n_out : N) (e : Edict) : bool :=
  andb (andb (wf_id (id e)) (N.leb (amount e) U128_MAX))
       (andb (N.leb (output e) U32_MAX) (N.leb (output e) n_out)).

Lemma delta_next prev i :
  wf_id prev = true -> wf_id i = true -> id_leb prev i = true ->
  exists b t, id_delta prev i = Some (b, t) /\ id_next prev b t = Some i /\ b <= U64_MAX /\ t <= U32_MAX.
Proof.
  destruct prev as [pb pt], i as [ib it]. unfold wf_id, id_leb, id_delta, id_next. cbn [block tx].
  unfold U64_MAX, U32_MAX. intros Hp Hi Hle.
  destruct (N.ltb_spec ib pb); [lia|].
  destruct (N.eqb_spec (ib - pb) 0) as [E0|E0].
  - destruct (N.ltb_spec it pt); [lia|].
    exists (ib - pb), (it - pt). split; [reflexivity|].
    unfold to_u64, to_u32, checked_add, id_new, U64_MAX, U32_MAX. rewrite E0.
    change (N.eqb 0 0) with true. cbv iota.
    change (N.leb 0 18446744073709551615) with true. cbv iota.
    destruct (N.leb_spec (pb + 0) 18446744073709551615); [|lia].
    destruct (N.leb_spec (it - pt) 4294967295); [|lia].
    destruct (N.leb_spec (pt + (it - pt)) 4294967295); [|lia].
    replace (pb + 0) with ib by lia. replace (pt + (it - pt)) with it by lia.
    destruct (andb (N.eqb ib 0) (N.ltb 0 it)) eqn:Ev; [lia|].
    repeat split; lia.
  - exists (ib - pb), it. split; [reflexivity|].
    unfold to_u64, to_u32, checked_add, id_new, U64_MAX, U32_MAX.
    destruct (N.leb_spec (ib - pb) 18446744073709551615); [|lia].
    destruct (N.leb_spec (pb + (ib - pb)) 18446744073709551615); [|lia].
    destruct (N.eqb_spec (ib - pb) 0); [contradiction|].
    destruct (N.leb_spec it 4294967295); [|lia].
    replace (pb + (ib - pb)) with ib by lia.
    destruct (andb (N.eqb ib 0) (N.ltb 0 it)) eqn:Ev; [lia|].
    repeat split; lia.
Qed.

Lemma edicts_roundtrip n_out : n_out <= U32_MAX -> forall es prev,
  wf_id prev = true -> Forall (fun e => wf_edict n_out e = true) es -> sorted_from prev es ->
  exists body, enc_edicts prev es = Ok body /\
    edicts_from n_out prev body = Ok (es, None) /\
    Forall (fun n => n < P128) body.
Proof.
  intros Hn. induction es as [|e r IH]; intros prev Hp HF Hs.
  - exists []. repeat split; constructor.
  - inversion HF as [|? ? He HF']; subst. cbn [sorted_from] in Hs. destruct Hs as [Hle Hs].
    assert (Hwe := He). unfold wf_edict in He.
    apply andb_prop in He. destruct He as [He1 He2].
    apply andb_prop in He1. destruct He1 as [Hid Hamt].
    apply andb_prop in He2. destruct He2 as [Ho32 Hon].
    destruct (delta_next prev (id e) Hp Hid Hle) as (b & t & Hd & Hnx & Hb & Ht).
    destruct (IH (id e) Hid HF' Hs) as (body & Henc & Hdec & Hbound).
    exists (b :: t :: amount e :: output e :: body). cbn [enc_edicts]. rewrite Hd, Henc. cbn [bind].
    split; [reflexivity|]. split.
    + cbn [edicts_from]. rewrite Hnx. unfold edict_from_integers, to_u32. rewrite Ho32.
      destruct (N.ltb_spec U32_MAX n_out); [lia|].
      destruct (N.ltb_spec n_out (output e)); [lia|]. cbn [bind]. rewrite Hdec. cbn [bind].
      destruct e as [i a o]. reflexivity.
    + unfold P128, U64_MAX, U32_MAX, U128_MAX in *.
      repeat (constructor; [lia|]). assumption.
Qed.
(* ---------- B4: fields as a list of optional entries ---------- *)

Definition p_opt (t : N) (o : option N) : fields := match o with Some v => [(t, v)] | None => [] end.
Definition spec := list (N * option N).
Definition denote (sl : spec) : fields := flat_map (fun p => p_opt (fst p) (snd p)) sl.
Definition flat (fs : fields) : list N := flat_map (fun p => [fst p; snd p]) fs.

Fixpoint entry (t : N) (sl : spec) : option N :=
  match sl with [] => None | (t', o) :: r => if N.eqb t' t then o else entry t r end.
Fixpoint drop (t : N) (sl : spec) : spec :=
  match sl with [] => [] | (t', o) :: r => if N.eqb t' t then r else (t', o) :: drop t r end.
Fixpoint count (t : N) (sl : spec) : nat :=
  match sl with [] => O | (t', _) :: r => ((if N.eqb t' t then 1 else 0) + count t r)%nat end.

Lemma get_first_absent t sl : count t sl = O -> get_first t (denote sl) = None.
Proof.
  induction sl as [|[t' o] r IH]; intros H; [reflexivity|]. cbn [count] in H.
  destruct (N.eqb_spec t' t) as [->|Hne]; [lia|]. cbn [denote flat_map fst snd].
  destruct o as [v|]; cbn [p_opt app get_first].
  - destruct (N.eqb_spec t' t); [contradiction|]. apply IH. lia.
  - apply IH. lia.
Qed.

Lemma take1_cons_ne {T} t (w : N -> option T) t' v' l : t' <> t ->
  take1 t w ((t', v') :: l) = (fst (take1 t w l), (t', v') :: snd (take1 t w l)).
Proof.
  intros H. unfold take1. cbn [get_first remove_first].
  destruct (N.eqb_spec t' t); [contradiction|].
  destruct (get_first t l) as [v|]; [|reflexivity]. destruct (w v); reflexivity.
Qed.

Lemma take1_spec t (w : N -> option N) sl o sl' :
  (count t sl <= 1)%nat -> entry t sl = o -> drop t sl = sl' ->
  (forall v, o = Some v -> w v = Some v) ->
  take1 t w (denote sl) = (o, denote sl').
Proof.
  intros Hc <- <- Hw. induction sl as [|[t' o'] r IH]; [reflexivity|].
  cbn [count entry drop] in *. cbn [denote flat_map fst snd].
  destruct (N.eqb_spec t' t) as [->|Hne].
  - assert (H0 : get_first t (denote r) = None) by (apply get_first_absent; lia).
    destruct o' as [v|]; cbn [p_opt app].
    + unfold take1. cbn [get_first remove_first]. rewrite N.eqb_refl. rewrite (Hw v eq_refl). reflexivity.
    + unfold take1. fold (denote r). rewrite H0. reflexivity.
  - fold (denote r). specialize (IH ltac:(lia) Hw).
    destruct o' as [v'|]; cbn [p_opt app].
    + rewrite take1_cons_ne by assumption. rewrite IH. reflexivity.
    + exact IH.
Qed.

Lemma take2_here {T} t (w : N -> N -> option T) a b rest x : w a b = Some x ->
  take2 t w ((t, a) :: (t, b) :: rest) = (Some x, rest).
Proof.
  intros H. unfold take2. cbn [get_first remove_first]. rewrite !N.eqb_refl.
  cbn [get_first remove_first]. rewrite !N.eqb_refl. rewrite H. reflexivity.
Qed.

Lemma take2_absent {T} t (w : N -> N -> option T) sl : count t sl = O ->
  take2 t w (denote sl) = (None, denote sl).
Proof. intros H. unfold take2. rewrite get_first_absent by assumption. reflexivity. Qed.

Lemma flat_app a b : flat (a ++ b) = flat a ++ flat b.
Proof. unfold flat. apply flat_map_app. Qed.

Lemma flat_denote sl : flat (denote sl) = flat_map (fun p => enc_opt (fst p) (snd p)) sl.
Proof.
  induction sl as [|[t o] r IH]; [reflexivity|]. cbn [denote flat_map fst snd].
  fold (denote r). rewrite flat_app, IH. destruct o; reflexivity.
Qed.

Lemma from_integers_flat n_out tail m : from_integers n_out tail = Ok m -> forall fs,
  Forall (fun p => fst p <> TAG_Body) fs ->
  from_integers n_out (flat fs ++ tail) = Ok (mkMessage (m_flaw m) (m_edicts m) (fs ++ m_fields m)).
Proof.
  intros Hm. induction fs as [|[t v] r IH]; intros HF.
  - cbn [flat flat_map app]. rewrite Hm. destruct m; reflexivity.
  - inversion HF as [|? ? Ht HF']; subst. cbn [fst] in Ht.
    cbn [flat flat_map app fst snd from_integers]. fold (flat r).
    destruct (N.eqb_spec TAG_Body t) as [E|_]; [congruence|].
    rewrite (IH HF'). reflexivity.
Qed.

Lemma denote_no_body sl : Forall (fun p => fst p <> TAG_Body) sl ->
  Forall (fun p => fst p <> TAG_Body) (denote sl).
Proof.
  induction sl as [|[t o] r IH]; intros H; [constructor|]. inversion H; subst.
  cbn [denote flat_map fst snd]. fold (denote r). destruct o; cbn [p_opt app]; [constructor|]; auto.
Qed.

Lemma flat_denote_bound sl :
  Forall (fun p => fst p < P128 /\ forall v, snd p = Some v -> v < P128) sl ->
  Forall (fun n => n < P128) (flat (denote sl)).
Proof.
  induction sl as [|[t o] r IH]; intros H; [constructor|]. inversion H as [|? ? [Ht Hv] Hr]; subst.
  cbn [denote flat_map fst snd] in *. fold (denote r). rewrite flat_app. apply Forall_app. split; [|auto].
  destruct o as [v|]; cbn [p_opt flat flat_map app fst snd]; [|constructor].
  constructor; [assumption|]. constructor; [apply Hv; reflexivity|constructor].
Qed.

(* ---------- B5: well-formed runestones and the typed fields ---------- *)

Definition opt_all (p : N -> bool) (o : option N) : bool :=
  match o with Some v => p v | None => true end.
Definition u128b (v : N) : bool := N.leb v U128_MAX.
Definition u64b (v : N) : bool := N.leb v U64_MAX.

Definition wf_terms (t : Terms) : bool :=
  andb (andb (opt_all u128b (t_amount t)) (opt_all u128b (t_cap t)))
       (andb (andb (opt_all u64b (t_height_start t)) (opt_all u64b (t_height_end t)))
             (andb (opt_all u64b (t_offset_start t)) (opt_all u64b (t_offset_end t)))).

Definition wf_etching (e : Etching) : bool :=
  andb (andb (andb (opt_all (fun v => N.leb v MAX_DIVISIBILITY) (divisibility e)) (opt_all u128b (premine e)))
             (andb (opt_all u128b (rune e)) (opt_all (fun v => N.leb v MAX_SPACERS) (spacers e))))
       (andb (andb (opt_all is_char (symbol e)) (match terms e with Some t => wf_terms t | None => true end))
             (match supply e with Some _ => true | None => false end)).

(* WF n r: "what ord enciphers", for a transaction with n outputs.
   Type ranges (the Rust field types: u8/u32/u64/u128/char, RuneId) are part of
   it because model values are unbounded N. *)
Definition wf_runestone (n_out : N) (r : Runestone) : bool :=
  andb (andb (N.leb n_out U32_MAX) (forallb (wf_edict n_out) (edicts r)))
       (andb (match etching r with Some e => wf_etching e | None => true end)
             (andb (match mint r with Some i => wf_id i | None => true end)
                   (opt_all (fun p => N.ltb p n_out) (pointer r)))).

Definition spec_terms (t : Terms) : spec :=
  [(TAG_Amount, t_amount t); (TAG_Cap, t_cap t);
   (TAG_HeightStart, t_height_start t); (TAG_HeightEnd, t_height_end t);
   (TAG_OffsetStart, t_offset_start t); (TAG_OffsetEnd, t_offset_end t)].

Definition spec_etching (e : Etching) : spec :=
  (TAG_Flags, Some (etching_flags e)) :: (TAG_Rune, rune e) :: (TAG_Divisibility, divisibility e) ::
  (TAG_Spacers, spacers e) :: (TAG_Symbol, symbol e) :: (TAG_Premine, premine e) ::
  match terms e with Some t => spec_terms t | None => [] end.

Definition spec_fields (r : Runestone) : spec :=
  match etching r with Some e => spec_etching e | None => [] end ++
  match mint r with Some i => [(TAG_Mint, Some (block i)); (TAG_Mint, Some (tx i))] | None => [] end ++
  [(TAG_Pointer, pointer r)].

Lemma enc_fields_spec r : enc_fields r = flat (denote (spec_fields r)).
Proof.
  rewrite flat_denote. destruct r as [es et mt pt]. unfold enc_fields, spec_fields.
  cbn [etching mint pointer]. rewrite !flat_map_app.
  f_equal; [|f_equal].
  - destruct et as [e|]; [|reflexivity]. unfold enc_etching, spec_etching.
    cbn [flat_map fst snd enc_opt app]. do 7 f_equal.
    destruct (terms e) as [t|]; [|reflexivity]. unfold enc_terms, spec_terms.
    cbn [flat_map fst snd]. rewrite app_nil_r. reflexivity.
  - destruct mt as [i|]; reflexivity.
  - cbn [flat_map fst snd]. rewrite app_nil_r. reflexivity.
Qed.

Lemma w_any_ok o : forall v, o = Some v -> w_any v = Some v.
Proof. reflexivity. Qed.

Lemma w_divisibility_ok o : opt_all (fun v => N.leb v MAX_DIVISIBILITY) o = true ->
  forall v, o = Some v -> w_divisibility v = Some v.
Proof.
  intros H v ->. cbn [opt_all] in H. unfold w_divisibility, to_u8, U8_MAX, MAX_DIVISIBILITY in *.
  destruct (N.leb_spec v 255); [|lia]. rewrite H. reflexivity.
Qed.

Lemma w_spacers_ok o : opt_all (fun v => N.leb v MAX_SPACERS) o = true ->
  forall v, o = Some v -> w_spacers v = Some v.
Proof.
  intros H v ->. cbn [opt_all] in H. unfold w_spacers, to_u32.
  assert (Hc : MAX_SPACERS <= U32_MAX) by (apply N.leb_le; vm_compute; reflexivity).
  assert (Hv : v <= MAX_SPACERS) by (apply N.leb_le; exact H).
  destruct (N.leb_spec v U32_MAX) as [_|Hgt]; [rewrite H; reflexivity|].
  exfalso. apply (N.lt_irrefl v). eapply N.le_lt_trans; [|exact Hgt]. eapply N.le_trans; eassumption.
Qed.

Lemma w_symbol_ok o : opt_all is_char o = true -> forall v, o = Some v -> w_symbol v = Some v.
Proof.
  intros H v ->. cbn [opt_all] in H. unfold w_symbol, to_u32, U32_MAX.
  destruct (N.leb_spec v 4294967295); [rewrite H; reflexivity|]. unfold is_char in H. lia.
Qed.

Lemma to_u64_ok o : opt_all u64b o = true -> forall v, o = Some v -> to_u64 v = Some v.
Proof. intros H v ->. cbn [opt_all] in H. unfold to_u64. unfold u64b in H. rewrite H. reflexivity. Qed.

Lemma w_pointer_ok n o : n <= U32_MAX -> opt_all (fun p => N.ltb p n) o = true ->
  forall v, o = Some v -> w_pointer n v = Some v.
Proof.
  intros Hn H v ->. cbn [opt_all] in H. unfold w_pointer, to_u32.
  destruct (N.leb_spec v U32_MAX); [rewrite H; reflexivity|lia].
Qed.

Lemma w_mint_ok b t : wf_id (mkId b t) = true -> w_mint b t = Some (mkId b t).
Proof.
  unfold wf_id, w_mint, to_u64, to_u32, id_new. cbn [block tx]. intros H.
  destruct (N.leb_spec b U64_MAX); [|lia]. destruct (N.leb_spec t U32_MAX); [|lia].
  destruct (andb (N.eqb b 0) (N.ltb 0 t)); [lia|reflexivity].
Qed.

Lemma take2_spec_here {T} t t1 t2 (w : N -> N -> option T) a b sl x :
  t1 = t -> t2 = t -> w a b = Some x ->
  take2 t w (denote ((t1, Some a) :: (t2, Some b) :: sl)) = (Some x, denote sl).
Proof. intros -> -> H. cbn [denote flat_map p_opt fst snd app]. apply take2_here. exact H. Qed.

Ltac eval_flag :=
  match goal with
  | |- context [flag_take ?b ?f] =>
    let v := eval vm_compute in (flag_take b f) in change (flag_take b f) with v
  end.

Ltac t1 tac :=
  erewrite take1_spec; [cbv beta iota | cbv; lia | cbv; reflexivity | cbv; reflexivity | tac].

Lemma parse_message_spec n_out r es :
  wf_runestone n_out r = true ->
  parse_message n_out (mkMessage None es (denote (spec_fields r))) =
  mkParsed None (mkRunestone es (etching r) (mint r) (pointer r)) 0 [].
Proof.
  unfold wf_runestone. intros H.
  apply andb_prop in H. destruct H as [H1 H2].
  apply andb_prop in H1. destruct H1 as [Hn _]. apply N.leb_le in Hn.
  apply andb_prop in H2. destruct H2 as [Het H2].
  apply andb_prop in H2. destruct H2 as [Hmt Hpt].
  destruct r as [eds et mt pt]. cbn [etching mint pointer] in *.
  unfold parse_message. cbn [m_fields m_flaw m_edicts]. unfold spec_fields. cbn [etching mint pointer].
  destruct et as [[dv pm rn sp sy tm tb]|].
  - (* etching *)
    unfold wf_etching in Het. cbn [divisibility premine rune spacers symbol terms] in Het.
    apply andb_prop in Het. destruct Het as [Ha Hb].
    apply andb_prop in Ha. destruct Ha as [Ha1 Ha2].
    apply andb_prop in Ha1. destruct Ha1 as [Hdv Hpm].
    apply andb_prop in Ha2. destruct Ha2 as [Hrn Hsp].
    apply andb_prop in Hb. destruct Hb as [Hb1 Hsup].
    apply andb_prop in Hb1. destruct Hb1 as [Hsy Htm].
    unfold spec_etching. cbn [rune divisibility spacers symbol premine terms].
    destruct tm as [[am cp hs he os oe]|].
    + (* terms *)
      unfold wf_terms in Htm. cbn [t_amount t_cap t_height_start t_height_end t_offset_start t_offset_end] in Htm.
      apply andb_prop in Htm. destruct Htm as [Hc Hd].
      apply andb_prop in Hc. destruct Hc as [Ham Hcp].
      apply andb_prop in Hd. destruct Hd as [Hd1 Hd2].
      apply andb_prop in Hd1. destruct Hd1 as [Hhs Hhe].
      apply andb_prop in Hd2. destruct Hd2 as [Hos Hoe].
      unfold spec_terms. cbn [t_amount t_cap t_height_start t_height_end t_offset_start t_offset_end].
      destruct tb; destruct mt as [[mb mtx]|];
      match goal with |- context [etching_flags ?e] =>
        let v := eval vm_compute in (etching_flags e) in change (etching_flags e) with v end;
      cbn [app block tx];
      (t1 ltac:(apply w_any_ok)); cbn [default0]; eval_flag; cbv beta iota;
      unfold parse_etching;
      (t1 ltac:(apply w_divisibility_ok; assumption));
      (t1 ltac:(apply w_any_ok));
      (t1 ltac:(apply w_any_ok));
      (t1 ltac:(apply w_spacers_ok; assumption));
      (t1 ltac:(apply w_symbol_ok; assumption));
      eval_flag; cbv beta iota; unfold parse_terms;
      (t1 ltac:(apply w_any_ok));
      (t1 ltac:(apply to_u64_ok; assumption));
      (t1 ltac:(apply to_u64_ok; assumption));
      (t1 ltac:(apply w_any_ok));
      (t1 ltac:(apply to_u64_ok; assumption));
      (t1 ltac:(apply to_u64_ok; assumption));
      eval_flag; cbv beta iota.
      all: try (erewrite take2_spec_here; [cbv beta iota | reflexivity | reflexivity | apply w_mint_ok; exact Hmt]).
      all: try (rewrite take2_absent by (cbv; reflexivity); cbv beta iota).
      all: (t1 ltac:(apply w_pointer_ok; assumption)).
      all: destruct (supply _); [|discriminate]; reflexivity.
    + (* no terms *)
      destruct tb; destruct mt as [[mb mtx]|];
      match goal with |- context [etching_flags ?e] =>
        let v := eval vm_compute in (etching_flags e) in change (etching_flags e) with v end;
      cbn [app block tx];
      (t1 ltac:(apply w_any_ok)); cbn [default0]; eval_flag; cbv beta iota;
      unfold parse_etching;
      (t1 ltac:(apply w_divisibility_ok; assumption));
      (t1 ltac:(apply w_any_ok));
      (t1 ltac:(apply w_any_ok));
      (t1 ltac:(apply w_spacers_ok; assumption));
      (t1 ltac:(apply w_symbol_ok; assumption));
      eval_flag; cbv beta iota;
      eval_flag; cbv beta iota.
      all: try (erewrite take2_spec_here; [cbv beta iota | reflexivity | reflexivity | apply w_mint_ok; exact Hmt]).
      all: try (rewrite take2_absent by (cbv; reflexivity); cbv beta iota).
      all: (t1 ltac:(apply w_pointer_ok; assumption)).
      all: destruct (supply _); [|discriminate]; reflexivity.
  - (* no etching *)
    destruct mt as [[mb mtx]|]; cbn [app block tx];
    (t1 ltac:(apply w_any_ok)); cbn [default0]; eval_flag; cbv beta iota.
    all: try (erewrite take2_spec_here; [cbv beta iota | reflexivity | reflexivity | apply w_mint_ok; exact Hmt]).
    all: try (rewrite take2_absent by (cbv; reflexivity); cbv beta iota).
    all: (t1 ltac:(apply w_pointer_ok; assumption)).
    all: reflexivity.
Qed.

(* ---------- B6: the whole message, the whole script ---------- *)

Lemma lt_P128_of_le v c : v <= c -> c < P128 -> v < P128.
Proof. intros. eapply N.le_lt_trans; eassumption. Qed.

Lemma opt_all_bound (p : N -> bool) o :
  opt_all p o = true -> (forall v, p v = true -> v < P128) -> forall v, o = Some v -> v < P128.
Proof. intros H Hp v ->. apply Hp. exact H. Qed.

Lemma leb_bound c : c < P128 -> forall v, N.leb v c = true -> v < P128.
Proof. intros Hc v H. apply N.leb_le in H. eapply lt_P128_of_le; eassumption. Qed.

Lemma is_char_bound v : is_char v = true -> v < P128.
Proof.
  unfold is_char. intros H. apply orb_prop in H. destruct H as [H|H].
  - apply N.ltb_lt in H. eapply N.lt_trans; [exact H|vm_compute; reflexivity].
  - apply andb_prop in H. destruct H as [_ H]. revert H. apply leb_bound. vm_compute. reflexivity.
Qed.

Lemma etching_flags_bound e : etching_flags e < P128.
Proof. destruct e as [dv pm rn sp sy [t|] [|]]; vm_compute; reflexivity. Qed.

Ltac closed_lt := vm_compute; reflexivity.

Lemma spec_fields_bound n_out r : wf_runestone n_out r = true ->
  Forall (fun p => fst p < P128 /\ forall v, snd p = Some v -> v < P128) (spec_fields r).
Proof.
  unfold wf_runestone. intros H.
  apply andb_prop in H. destruct H as [H1 H2].
  apply andb_prop in H1. destruct H1 as [Hn _]. apply N.leb_le in Hn.
  apply andb_prop in H2. destruct H2 as [Het H2].
  apply andb_prop in H2. destruct H2 as [Hmt Hpt].
  destruct r as [eds et mt pt]. cbn [etching mint pointer] in *. unfold spec_fields. cbn [etching mint pointer].
  apply Forall_app. split; [|apply Forall_app; split].
  - destruct et as [e|]; [|constructor].
    unfold wf_etching in Het.
    apply andb_prop in Het. destruct Het as [Ha Hb].
    apply andb_prop in Ha. destruct Ha as [Ha1 Ha2].
    apply andb_prop in Ha1. destruct Ha1 as [Hdv Hpm].
    apply andb_prop in Ha2. destruct Ha2 as [Hrn Hsp].
    apply andb_prop in Hb. destruct Hb as [Hb1 Hsup].
    apply andb_prop in Hb1. destruct Hb1 as [Hsy Htm].
    unfold spec_etching.
    constructor; [split; [closed_lt|intros v E; inversion E; apply etching_flags_bound]|].
    constructor; [split; [closed_lt|apply (opt_all_bound _ _ Hrn); apply leb_bound; closed_lt]|].
    constructor; [split; [closed_lt|apply (opt_all_bound _ _ Hdv); apply leb_bound; closed_lt]|].
    constructor; [split; [closed_lt|apply (opt_all_bound _ _ Hsp); apply leb_bound; closed_lt]|].
    constructor; [split; [closed_lt|apply (opt_all_bound _ _ Hsy); apply is_char_bound]|].
    constructor; [split; [closed_lt|apply (opt_all_bound _ _ Hpm); apply leb_bound; closed_lt]|].
    destruct (terms e) as [t|]; [|constructor].
    unfold wf_terms in Htm.
    apply andb_prop in Htm. destruct Htm as [Hc Hd].
    apply andb_prop in Hc. destruct Hc as [Ham Hcp].
    apply andb_prop in Hd. destruct Hd as [Hd1 Hd2].
    apply andb_prop in Hd1. destruct Hd1 as [Hhs Hhe].
    apply andb_prop in Hd2. destruct Hd2 as [Hos Hoe].
    unfold spec_terms.
    constructor; [split; [closed_lt|apply (opt_all_bound _ _ Ham); apply leb_bound; closed_lt]|].
    constructor; [split; [closed_lt|apply (opt_all_bound _ _ Hcp); apply leb_bound; closed_lt]|].
    constructor; [split; [closed_lt|apply (opt_all_bound _ _ Hhs); apply leb_bound; closed_lt]|].
    constructor; [split; [closed_lt|apply (opt_all_bound _ _ Hhe); apply leb_bound; closed_lt]|].
    constructor; [split; [closed_lt|apply (opt_all_bound _ _ Hos); apply leb_bound; closed_lt]|].
    constructor; [split; [closed_lt|apply (opt_all_bound _ _ Hoe); apply leb_bound; closed_lt]|].
    constructor.
  - destruct mt as [[mb mtx]|]; [|constructor].
    unfold wf_id in Hmt. cbn [block tx] in *.
    apply andb_prop in Hmt. destruct Hmt as [Hm _].
    apply andb_prop in Hm. destruct Hm as [Hb Ht].
    constructor; [split; [closed_lt|intros v E; inversion E; subst; revert Hb; apply leb_bound; closed_lt]|].
    constructor; [split; [closed_lt|intros v E; inversion E; subst; revert Ht; apply leb_bound; closed_lt]|].
    constructor.
  - constructor; [|constructor]. split; [closed_lt|]. cbn [snd].
    apply (opt_all_bound _ _ Hpt). intros v Hv. apply N.ltb_lt in Hv.
    eapply N.lt_trans; [exact Hv|]. eapply N.le_lt_trans; [exact Hn|closed_lt].
Qed.

Lemma spec_fields_no_body r : Forall (fun p => fst p <> TAG_Body) (spec_fields r).
Proof.
  destruct r as [eds et mt pt]. unfold spec_fields. cbn [etching mint pointer].
  apply Forall_app. split; [|apply Forall_app; split].
  - destruct et as [e|]; [|constructor]. unfold spec_etching.
    do 6 (constructor; [discriminate|]). destruct (terms e); [|constructor].
    unfold spec_terms. do 6 (constructor; [discriminate|]). constructor.
  - destruct mt; [|constructor]. do 2 (constructor; [discriminate|]). constructor.
  - constructor; [discriminate|constructor].
Qed.

Definition sorted_runestone (r : Runestone) : Runestone :=
  mkRunestone (sort_edicts (edicts r)) (etching r) (mint r) (pointer r).

(* the integers written by encipher, and what from_integers makes of them *)
Lemma encipher_ints_roundtrip n_out r : wf_runestone n_out r = true ->
  exists ints, encipher_ints r = Ok ints /\ Forall (fun n => n < P128) ints /\
    from_integers n_out ints =
      Ok (mkMessage None (sort_edicts (edicts r)) (denote (spec_fields r))).
Proof.
  intros Hwf. pose proof (spec_fields_bound _ _ Hwf) as Hbound. apply flat_denote_bound in Hbound.
  pose proof (denote_no_body _ (spec_fields_no_body r)) as Hnb.
  assert (Hwf' := Hwf). unfold wf_runestone in Hwf'.
  apply andb_prop in Hwf'. destruct Hwf' as [H1 _].
  apply andb_prop in H1. destruct H1 as [Hn Hes]. apply N.leb_le in Hn.
  unfold encipher_ints. rewrite enc_fields_spec.
  destruct (edicts r) as [|e0 es0] eqn:Ees.
  - exists (flat (denote (spec_fields r))). split; [reflexivity|]. split; [assumption|].
    rewrite <- (app_nil_r (flat (denote (spec_fields r)))).
    rewrite (from_integers_flat n_out [] (mkMessage None [] []) eq_refl _ Hnb).
    cbn [m_flaw m_edicts m_fields sort_edicts]. rewrite app_nil_r. reflexivity.
  - rewrite <- Ees in *.
    assert (HF : Forall (fun e => wf_edict n_out e = true) (sort_edicts (edicts r))).
    { apply sort_Forall. apply Forall_forall. apply forallb_forall. exact Hes. }
    destruct (edicts_roundtrip n_out Hn (sort_edicts (edicts r)) (mkId 0 0) eq_refl HF (sort_sorted _))
      as (body & Henc & Hdec & Hb).
    rewrite Henc. cbn [bind]. eexists. split; [reflexivity|]. split.
    + apply Forall_app. split; [assumption|]. constructor; [closed_lt|assumption].
    + assert (Hm : from_integers n_out (TAG_Body :: body) = Ok (mkMessage None (sort_edicts (edicts r)) [])).
      { cbn [from_integers]. rewrite N.eqb_refl. rewrite Hdec. reflexivity. }
      rewrite (from_integers_flat n_out _ _ Hm _ Hnb).
      cbn [m_flaw m_edicts m_fields]. rewrite app_nil_r. reflexivity.
Qed.

(* what encipher writes is read back by payload, whatever precedes (outputs not
   starting OP_RETURN OP_13) and follows it *)
Lemma encipher_script ints : exists s,
  (do pushes <- push_chunks (chunks ENCIPHER_CHUNK (flat_map encode ints));
   Ok (OP_RETURN :: MAGIC_NUMBER :: pushes)) = Ok s /\
  forall pre post, Forall (fun s => ~ starts_magic s) pre ->
    payload (pre ++ s :: post) = Ok (Some (Valid (flat_map encode ints))).
Proof.
  set (pl := flat_map encode ints).
  destruct (chunks_spec ENCIPHER_CHUNK pl) as [Hcat Hch]; [closed_lt|].
  assert (Hlt : Forall (fun ch => len ch < 4294967296) (chunks ENCIPHER_CHUNK pl)).
  { eapply Forall_impl; [|exact Hch]. cbv beta. intros ch [_ Hle].
    eapply N.le_lt_trans; [exact Hle|closed_lt]. }
  destruct (push_chunks_ok _ Hlt) as [s' Hs']. rewrite Hs'. cbn [bind].
  eexists. split; [reflexivity|]. intros pre post Hpre.
  rewrite payload_skip by assumption. cbn [payload]. rewrite script_payload_magic.
  rewrite (collect_push_chunks _ _ _ Hs' (le_n _)). cbn [bind]. rewrite Hcat. reflexivity.
Qed.

Theorem decipher_encipher r pre post :
  wf_runestone (len pre + 1 + len post) r = true ->
  Forall (fun s => ~ starts_magic s) pre ->
  exists s, encipher r = Ok s /\
    decipher (pre ++ s :: post) = Ok (Some (ARunestone (sorted_runestone r))).
Proof.
  intros Hwf Hpre.
  destruct (encipher_ints_roundtrip _ _ Hwf) as (ints & Hi & Hb & Hm).
  destruct (encipher_script ints) as (s & Hs & Hp).
  exists s. unfold encipher. rewrite Hi. cbn [bind]. split; [exact Hs|].
  unfold decipher. rewrite (Hp pre post Hpre). cbn [bind].
  rewrite (integers_encode ints _ Hb (le_n _)). cbn [bind].
  replace (len (pre ++ s :: post)) with (len pre + 1 + len post)
    by (rewrite len_app, len_cons; lia).
  rewrite Hm. cbn [bind]. rewrite (parse_message_spec _ _ _ Hwf). reflexivity.
Qed.

(* encipher never panics on a runestone whose edict ids are in their types
   (the unwrap of `delta` cannot fail after sorting) *)
Lemma enc_edicts_no_panic : forall es prev, sorted_from prev es -> exists b, enc_edicts prev es = Ok b.
Proof.
  induction es as [|e r IH]; intros prev H; [eexists; reflexivity|].
  cbn [sorted_from] in H. destruct H as [Hle Hs]. cbn [enc_edicts].
  assert (Hd : exists bt, id_delta prev (id e) = Some bt).
  { unfold id_delta, id_leb in *. destruct (N.ltb_spec (block (id e)) (block prev)); [lia|].
    destruct (N.eqb_spec (block (id e) - block prev) 0); [|eexists; reflexivity].
    destruct (N.ltb_spec (tx (id e)) (tx prev)); [lia|eexists; reflexivity]. }
  destruct Hd as [[b t] ->]. destruct (IH _ Hs) as [body ->]. eexists. reflexivity.
Qed.

Theorem encipher_total r : exists s, encipher r = Ok s.
Proof.
  unfold encipher, encipher_ints.
  assert (Hi : exists ints, match edicts r with
                            | [] => Ok (enc_fields r)
                            | _ :: _ => do body <- enc_edicts (mkId 0 0) (sort_edicts (edicts r)); Ok (enc_fields r ++ TAG_Body :: body)
                            end = Ok ints).
  { destruct (edicts r) eqn:E; [eexists; reflexivity|]. rewrite <- E.
    destruct (enc_edicts_no_panic _ _ (sort_sorted (edicts r))) as [b ->]. eexists. reflexivity. }
  destruct Hi as [ints ->]. cbn [bind].
  destruct (encipher_script ints) as (s & Hs & _). exists s. exact Hs.
Qed.
(* ================= Part C: flaw order ================= *)

Definition first_some {A} (l : list (option A)) : option A :=
  fold_right (fun o acc => match o with Some x => Some x | None => acc end) None l.

(* how far deciphering gets: the stages of specification.md *)
Inductive Stage :=
| StNone                    (* no output starts OP_RETURN OP_13 *)
| StScript (f : Flaw)       (* payload: non-push opcode / invalid script *)
| StVarint                  (* the payload is not a sequence of varints *)
| StMessage (m : Message).  (* the untyped message, with its structural flaw if any *)

Definition stage (outs : list (list N)) : Res Stage :=
  do p <- payload outs;
  match p with
  | None => Ok StNone
  | Some (Invalid f) => Ok (StScript f)
  | Some (Valid bs) =>
    do r <- integers (length bs) bs;
    match r with
    | None => Ok StVarint
    | Some ints => do m <- from_integers (len outs) ints; Ok (StMessage m)
    end
  end.

(* the typed reading of a message, computed without looking at its flaw *)
Definition typed (n_out : N) (m : Message) : Parsed :=
  parse_message n_out (mkMessage None (m_edicts m) (m_fields m)).

Definition supply_overflows (r : Runestone) : bool :=
  match etching r with
  | Some e => match supply e with None => true | Some _ => false end
  | None => false
  end.

Definition when (b : bool) (f : Flaw) : option Flaw := if b then Some f else None.

(* every violation that exists in a message, in the documented order *)
Definition message_violations (n_out : N) (m : Message) : list (option Flaw) :=
  let p := typed n_out m in
  [ m_flaw m;
    when (supply_overflows (p_candidate p)) SupplyOverflow;
    when (negb (N.eqb (p_flags_left p) 0)) UnrecognizedFlag;
    when (has_even_tag (p_fields_left p)) UnrecognizedEvenTag ].

Lemma parse_message_flaw n_out m :
  parse_message n_out m =
  let p := typed n_out m in
  mkParsed (first_some (message_violations n_out m)) (p_candidate p) (p_flags_left p) (p_fields_left p).
Proof.
  unfold message_violations, typed, parse_message. cbn [m_flaw m_edicts m_fields].
  destruct (take1 TAG_Flags w_any (m_fields m)) as [fl fs].
  destruct (flag_take FLAG_Etching (default0 fl)) as [is_e flags].
  destruct (if is_e then let '(e, flags0, fs0) := parse_etching flags fs in (Some e, flags0, fs0)
            else (None, flags, fs)) as [[et flags'] fs'].
  destruct (take2 TAG_Mint w_mint fs') as [mt fs2].
  destruct (take1 TAG_Pointer (w_pointer n_out) fs2) as [pt fs3].
  cbv zeta. cbn [p_candidate p_flags_left p_fields_left etching first_some fold_right].
  unfold supply_overflows. cbn [etching].
  destruct (m_flaw m) as [f|]; [reflexivity|].
  unfold or_flaw, when.
  destruct (match et with Some e => match supply e with Some _ => false | None => true end | None => false end);
  destruct (negb (N.eqb flags' 0)); destruct (has_even_tag fs3); reflexivity.
Qed.

Lemma collect_flaw : forall fuel bs f, collect fuel bs = Ok (Invalid f) -> f = InvalidScript \/ f = Opcode.
Proof.
  induction fuel as [|k IH]; intros bs f H; cbn [collect] in H.
  - destruct (next_instr bs) as [| |[d|o] rest]; inversion H; auto.
  - destruct (next_instr bs) as [| |[d|o] rest]; try (inversion H; auto; fail).
    destruct (collect k rest) as [[p|g]|e|t] eqn:E; inversion H; subst. eapply IH. exact E.
Qed.

Lemma payload_flaw : forall outs f, payload outs = Ok (Some (Invalid f)) -> f = InvalidScript \/ f = Opcode.
Proof.
  induction outs as [|s rest IH]; intros f H; [discriminate|]. cbn [payload] in H.
  destruct (script_payload s) as [r|] eqn:E; [|apply IH; assumption].
  unfold script_payload in E.
  destruct (next_instr s) as [| |[d|o1] r1]; try discriminate.
  destruct (N.eqb o1 OP_RETURN); [|discriminate].
  destruct (next_instr r1) as [| |[d|o2] r2]; try discriminate.
  destruct (N.eqb o2 MAGIC_NUMBER); [|discriminate]. inversion E; subst r.
  destruct (collect (length r2) r2) as [p|e|t] eqn:Ec; cbn [bind] in H; try discriminate.
  inversion H; subst p. eapply collect_flaw. exact Ec.
Qed.

Definition rune_of (r : Runestone) : option N :=
  match etching r with Some e => rune e | None => None end.

(* The artifact is determined by the stage reached and, for a message, by the
   first violation in the documented order; a cenotaph produced at the message
   stage carries the rune name and the mint of the typed reading. *)
Theorem flaw_order outs : len outs <= U32_MAX ->
  exists st, stage outs = Ok st /\
  decipher outs = Ok
    match st with
    | StNone => None
    | StScript f => Some (cenotaph_of_flaw f)
    | StVarint => Some (cenotaph_of_flaw FVarint)
    | StMessage m =>
      let r := p_candidate (typed (len outs) m) in
      match first_some (message_violations (len outs) m) with
      | None => Some (ARunestone r)
      | Some f => Some (ACenotaph (mkCenotaph (rune_of r) (Some f) (mint r)))
      end
    end /\
  match st with StScript f => f = InvalidScript \/ f = Opcode | _ => True end.
Proof.
  intros Hn. unfold stage, decipher. destruct (payload_total outs) as [p Hp]. rewrite Hp. cbn [bind].
  destruct p as [[bs|f]|].
  - destruct (integers_total (length bs) bs (le_n _)) as [r ->]. cbn [bind].
    destruct r as [ints|].
    + destruct (from_integers_total _ Hn (length ints) ints (le_n _)) as [m ->]. cbn [bind].
      eexists. split; [reflexivity|]. split; [|exact I].
      rewrite parse_message_flaw. cbv zeta. unfold artifact_of, rune_of.
      cbn [p_flaw p_candidate].
      destruct (first_some (message_violations (len outs) m)); reflexivity.
    + eexists. split; [reflexivity|]. split; [reflexivity|exact I].
  - eexists. split; [reflexivity|]. split; [reflexivity|]. eapply payload_flaw. exact Hp.
  - eexists. split; [reflexivity|]. split; [reflexivity|exact I].
Qed.

(* ---- the message-structure flaw is the first error in stream order ---- *)

(* reading of the body: chunks of four integers from the left; the first chunk
   that is short / has a bad id / has a bad output stops the reading with its flaw *)
Inductive body_shape (n_out : N) : RuneId -> list N -> list Edict -> option Flaw -> Prop :=
| BS_end i : body_shape n_out i [] [] None
| BS_trailing i rest : (0 < length rest < 4)%nat -> body_shape n_out i rest [] (Some TrailingIntegers)
| BS_bad_id i b t a o rest : id_next i b t = None ->
    body_shape n_out i (b :: t :: a :: o :: rest) [] (Some EdictRuneId)
| BS_bad_output i b t a o rest nx : id_next i b t = Some nx -> (U32_MAX < o \/ n_out < o) ->
    body_shape n_out i (b :: t :: a :: o :: rest) [] (Some EdictOutput)
| BS_good i b t a o rest nx es f : id_next i b t = Some nx -> o <= U32_MAX -> o <= n_out ->
    body_shape n_out nx rest es f ->
    body_shape n_out i (b :: t :: a :: o :: rest) (mkEdict nx a o :: es) f.

Lemma edicts_from_shape n_out : n_out <= U32_MAX -> forall k ints i, (length ints <= k)%nat ->
  exists es f, edicts_from n_out i ints = Ok (es, f) /\ body_shape n_out i ints es f.
Proof.
  intros Hn. induction k as [|k IH]; intros ints i Hl.
  - destruct ints; [|cbn [length] in Hl; lia]. exists [], None. split; [reflexivity|constructor].
  - destruct ints as [|b [|t [|a [|o rest]]]].
    + exists [], None. split; [reflexivity|constructor].
    + exists [], (Some TrailingIntegers). split; [reflexivity|]. constructor. cbn [length]. lia.
    + exists [], (Some TrailingIntegers). split; [reflexivity|]. constructor. cbn [length]. lia.
    + exists [], (Some TrailingIntegers). split; [reflexivity|]. constructor. cbn [length]. lia.
    + cbn [edicts_from]. destruct (id_next i b t) as [nx|] eqn:En.
      2:{ exists [], (Some EdictRuneId). split; [reflexivity|]. constructor. assumption. }
      unfold edict_from_integers, to_u32.
      destruct (N.leb_spec o U32_MAX) as [Ho|Ho].
      2:{ exists [], (Some EdictOutput). split; [reflexivity|]. econstructor; [eassumption|]. left. lia. }
      destruct (N.ltb_spec U32_MAX n_out); [lia|].
      destruct (N.ltb_spec n_out o) as [Hlt|Hge].
      { exists [], (Some EdictOutput). split; [reflexivity|]. econstructor; [eassumption|]. right. lia. }
      cbn [bind]. destruct (IH rest nx) as (es & f & He & Hs); [cbn [length] in Hl; lia|].
      rewrite He. cbn [bind]. exists (mkEdict nx a o :: es), f. split; [reflexivity|].
      econstructor; eassumption.
Qed.

(* the shapes are mutually exclusive: the relation is functional *)
Lemma body_shape_fun n_out i ints es f : body_shape n_out i ints es f ->
  forall es' f', body_shape n_out i ints es' f' -> es' = es /\ f' = f.
Proof.
  induction 1 as [i|i rest Hl|i b t a o rest Hid|i b t a o rest nx Hid Ho|i b t a o rest nx es f Hid Ho1 Ho2 Hs IH];
    intros es' f' H'; inversion H'; subst; cbn [length] in *; try lia; try congruence; try (split; reflexivity);
    repeat match goal with
    | H1 : id_next ?i ?b ?t = Some ?x, H2 : id_next ?i ?b ?t = Some ?y |- _ =>
      rewrite H1 in H2; inversion H2; subst; clear H2
    end; try lia.
  match goal with H : body_shape _ _ rest _ _ |- _ => destruct (IH _ _ H) as [-> ->] end. split; reflexivity.
Qed.

(* reading of the whole integer sequence: tag/value pairs until a Body tag in
   tag position, a lone last tag is a truncated field *)
Inductive message_shape (n_out : N) : list N -> Message -> Prop :=
| MS_end : message_shape n_out [] (mkMessage None [] [])
| MS_body body es f : body_shape n_out (mkId 0 0) body es f ->
    message_shape n_out (TAG_Body :: body) (mkMessage f es [])
| MS_truncated tag : tag <> TAG_Body -> message_shape n_out [tag] (mkMessage (Some TruncatedField) [] [])
| MS_field tag value rest m : tag <> TAG_Body -> message_shape n_out rest m ->
    message_shape n_out (tag :: value :: rest) (mkMessage (m_flaw m) (m_edicts m) ((tag, value) :: m_fields m)).

Lemma from_integers_shape n_out : n_out <= U32_MAX -> forall k ints, (length ints <= k)%nat ->
  exists m, from_integers n_out ints = Ok m /\ message_shape n_out ints m.
Proof.
  intros Hn. induction k as [|k IH]; intros ints Hl.
  - destruct ints; [|cbn [length] in Hl; lia]. eexists. split; [reflexivity|constructor].
  - destruct ints as [|tag rest]; [eexists; split; [reflexivity|constructor]|].
    cbn [from_integers]. destruct (N.eqb_spec TAG_Body tag) as [<-|Hne].
    + destruct (edicts_from_shape n_out Hn (length rest) rest (mkId 0 0) (le_n _)) as (es & f & -> & Hs).
      cbn [bind]. eexists. split; [reflexivity|]. constructor. assumption.
    + destruct rest as [|v rest'].
      * eexists. split; [reflexivity|]. constructor. congruence.
      * destruct (IH rest') as (m & -> & Hm); [cbn [length] in Hl; lia|]. cbn [bind].
        eexists. split; [reflexivity|]. constructor; [congruence|assumption].
Qed.
(* ---- the script-stage flaw is the first error met reading instructions from the left ---- *)

(* a data push, declaratively: a direct push of len d bytes, or PUSHDATA1/2/4
   with a k-byte little-endian length (not necessarily minimal) *)
Definition is_push (bs d rest : list N) : Prop :=
  (len d <= OP_PUSHBYTES_75 /\ bs = len d :: d ++ rest) \/
  exists op k lb, ((op = OP_PUSHDATA1 /\ k = 1) \/ (op = OP_PUSHDATA2 /\ k = 2) \/ (op = OP_PUSHDATA4 /\ k = 4)) /\
    len lb = k /\ le_value lb = len d /\ bs = op :: lb ++ d ++ rest.

(* a push opcode whose length bytes or data run past the end of the script *)
Definition truncated_push (bs : list N) : Prop :=
  exists op rest, bs = op :: rest /\
  ((op <= OP_PUSHBYTES_75 /\ len rest < op) \/
   exists k, ((op = OP_PUSHDATA1 /\ k = 1) \/ (op = OP_PUSHDATA2 /\ k = 2) \/ (op = OP_PUSHDATA4 /\ k = 4)) /\
     (len rest < k \/ exists lb r, rest = lb ++ r /\ len lb = k /\ len r < le_value lb)).

Lemma push_data_cases k bs :
  match push_data k bs with
  | SEnd => False
  | SErr => len bs < k \/ exists lb r, bs = lb ++ r /\ len lb = k /\ len r < le_value lb
  | SInstr (IOp _) _ => False
  | SInstr (IPush d) rest => exists lb, len lb = k /\ le_value lb = len d /\ bs = lb ++ d ++ rest
  end.
Proof.
  unfold push_data. destruct (take_opt k bs) as [[lb r]|] eqn:E1.
  - apply take_opt_Some in E1. destruct E1 as [-> Hl].
    destruct (take_opt (le_value lb) r) as [[d r']|] eqn:E2.
    + apply take_opt_Some in E2. destruct E2 as [-> Hd]. exists lb. auto.
    + apply take_opt_None in E2. right. exists lb, r. auto.
  - apply take_opt_None in E1. left. assumption.
Qed.

Lemma next_instr_cases bs :
  match next_instr bs with
  | SEnd => bs = []
  | SErr => truncated_push bs
  | SInstr (IOp o) rest => bs = o :: rest /\ OP_PUSHDATA4 < o
  | SInstr (IPush d) rest => is_push bs d rest
  end.
Proof.
  destruct bs as [|byte rest]; [reflexivity|]. cbn [next_instr].
  destruct (N.leb_spec byte OP_PUSHBYTES_75) as [H75|H75].
  { destruct (take_opt byte rest) as [[d r]|] eqn:E.
    - apply take_opt_Some in E. destruct E as [-> Hl]. left. rewrite Hl. auto.
    - apply take_opt_None in E. exists byte, rest. split; [reflexivity|]. left. auto. }
  destruct (N.eqb_spec byte OP_PUSHDATA1) as [->|N1].
  { pose proof (push_data_cases 1 rest) as H. destruct (push_data 1 rest) as [| |[d|o] r]; try contradiction.
    - exists OP_PUSHDATA1, rest. split; [reflexivity|]. right. exists 1. auto.
    - destruct H as (lb & H1 & H2 & ->). right. exists OP_PUSHDATA1, 1, lb. auto 10. }
  destruct (N.eqb_spec byte OP_PUSHDATA2) as [->|N2].
  { pose proof (push_data_cases 2 rest) as H. destruct (push_data 2 rest) as [| |[d|o] r]; try contradiction.
    - exists OP_PUSHDATA2, rest. split; [reflexivity|]. right. exists 2. auto 10.
    - destruct H as (lb & H1 & H2 & ->). right. exists OP_PUSHDATA2, 2, lb. auto 10. }
  destruct (N.eqb_spec byte OP_PUSHDATA4) as [->|N4].
  { pose proof (push_data_cases 4 rest) as H. destruct (push_data 4 rest) as [| |[d|o] r]; try contradiction.
    - exists OP_PUSHDATA4, rest. split; [reflexivity|]. right. exists 4. auto 10.
    - destruct H as (lb & H1 & H2 & ->). right. exists OP_PUSHDATA4, 4, lb. auto 10. }
  split; [reflexivity|]. unfold OP_PUSHBYTES_75, OP_PUSHDATA1, OP_PUSHDATA2, OP_PUSHDATA4 in *. lia.
Qed.

(* what the loop of `payload` computes after OP_RETURN OP_13: pushes are
   concatenated from the left; the first non-push opcode gives Opcode, the first
   truncated push gives InvalidScript, whichever comes first *)
Inductive script_shape : list N -> Payload -> Prop :=
| SS_end : script_shape [] (Valid [])
| SS_opcode o rest : OP_PUSHDATA4 < o -> script_shape (o :: rest) (Invalid Opcode)
| SS_truncated bs : truncated_push bs -> script_shape bs (Invalid InvalidScript)
| SS_push_valid bs d rest p : is_push bs d rest -> script_shape rest (Valid p) ->
    script_shape bs (Valid (d ++ p))
| SS_push_invalid bs d rest f : is_push bs d rest -> script_shape rest (Invalid f) ->
    script_shape bs (Invalid f).

Lemma collect_shape : forall fuel bs, (length bs <= fuel)%nat ->
  exists p, collect fuel bs = Ok p /\ script_shape bs p.
Proof.
  induction fuel as [|f IH]; intros bs Hl.
  - destruct bs; [|cbn [length] in Hl; lia]. eexists. split; [reflexivity|constructor].
  - cbn [collect]. pose proof (next_instr_cases bs) as Hc.
    destruct (next_instr bs) as [| |[d|o] rest] eqn:E.
    + subst bs. eexists. split; [reflexivity|constructor].
    + eexists. split; [reflexivity|]. apply SS_truncated. assumption.
    + apply next_instr_shorter in E. destruct (IH rest ltac:(lia)) as (p & Hp & Hs). rewrite Hp.
      destruct p as [pl|fl]; eexists; (split; [reflexivity|]).
      * eapply SS_push_valid; eassumption.
      * eapply SS_push_invalid; eassumption.
    + destruct Hc as [-> Ho]. eexists. split; [reflexivity|]. constructor. assumption.
Qed.

(* the first output starting OP_RETURN OP_13 decides, later ones are ignored *)
Lemma payload_first pre r post : Forall (fun s => ~ starts_magic s) pre ->
  exists p, payload (pre ++ (OP_RETURN :: MAGIC_NUMBER :: r) :: post) = Ok (Some p) /\ script_shape r p.
Proof.
  intros Hpre. rewrite payload_skip by assumption. cbn [payload]. rewrite script_payload_magic.
  destruct (collect_shape (length r) r (le_n _)) as (p & -> & Hs). cbn [bind]. eauto.
Qed.
(* ================= Part D: WF is tight ================= *)
(* every runestone that decipher returns is well-formed and has sorted edicts,
   so enciphering it and deciphering again gives it back unchanged *)

Lemma integers_bound : forall fuel bs ints,
  integers fuel bs = Ok (Some ints) -> Forall (fun n => n < P128) ints.
Proof.
  induction fuel as [|f IH]; intros bs ints H.
  - destruct bs as [|b bs']; cbn [integers] in H; [inversion H; constructor|].
    destruct (decode (b :: bs')) as [e|[n k]]; discriminate.
  - destruct bs as [|b bs']; cbn [integers] in H; [inversion H; constructor|].
    destruct (decode (b :: bs')) as [e|[n k]] eqn:E; [discriminate|].
    destruct (integers f (skipn (N.to_nat k) (b :: bs'))) as [[l|]|e|t] eqn:Er; cbn [bind] in H; try discriminate.
    inversion H; subst. apply decode_exact in E. destruct E as (j & _ & _ & _ & _ & _ & _ & Hn).
    constructor; [assumption|]. eapply IH. exact Er.
Qed.

Lemma id_next_inv i b t nx : wf_id i = true -> id_next i b t = Some nx ->
  wf_id nx = true /\ id_leb i nx = true.
Proof.
  destruct i as [ib it]. unfold wf_id, id_next, to_u64, to_u32, checked_add, id_new, id_leb. cbn [block tx].
  intros Hi H.
  destruct (N.leb_spec b U64_MAX); [|discriminate].
  destruct (N.leb_spec (ib + b) U64_MAX); [|discriminate].
  destruct (N.eqb_spec b 0).
  - destruct (N.leb_spec t U32_MAX); [|discriminate].
    destruct (N.leb_spec (it + t) U32_MAX); [|discriminate].
    destruct (andb (N.eqb (ib + b) 0) (N.ltb 0 (it + t))) eqn:E; [discriminate|].
    inversion H; subst nx. cbn [block tx]. split; lia.
  - destruct (N.leb_spec t U32_MAX); [|discriminate].
    destruct (andb (N.eqb (ib + b) 0) (N.ltb 0 t)) eqn:E; [discriminate|].
    inversion H; subst nx. cbn [block tx]. split; lia.
Qed.

Lemma edicts_from_inv n_out : forall k ints i es f, (length ints <= k)%nat ->
  wf_id i = true -> Forall (fun n => n < P128) ints ->
  edicts_from n_out i ints = Ok (es, f) ->
  Forall (fun e => wf_edict n_out e = true) es /\ sorted_from i es.
Proof.
  induction k as [|k IH]; intros ints i es f Hl Hi HF H.
  - destruct ints; [|cbn [length] in Hl; lia]. inversion H; subst. split; [constructor|exact I].
  - destruct ints as [|b [|t [|a [|o rest]]]]; try (inversion H; subst; split; [constructor|exact I]).
    cbn [edicts_from] in H. destruct (id_next i b t) as [nx|] eqn:En.
    2:{ inversion H; subst. split; [constructor|exact I]. }
    destruct (id_next_inv _ _ _ _ Hi En) as [Hnx Hle].
    unfold edict_from_integers, to_u32 in H.
    destruct (N.leb_spec o U32_MAX) as [Ho|Ho].
    2:{ inversion H; subst. split; [constructor|exact I]. }
    destruct (N.ltb U32_MAX n_out); [discriminate|].
    destruct (N.ltb_spec n_out o) as [Hlt|Hge].
    { inversion H; subst. split; [constructor|exact I]. }
    cbn [bind] in H.
    destruct (edicts_from n_out nx rest) as [[es' f']|e|p] eqn:Er; cbn [bind] in H; try discriminate.
    inversion H; subst.
    inversion HF as [|? ? _ HF1]; subst. inversion HF1 as [|? ? _ HF2]; subst.
    inversion HF2 as [|? ? Ha HF3]; subst. inversion HF3 as [|? ? _ HF4]; subst.
    destruct (IH rest nx es' f ltac:(cbn [length] in Hl; lia) Hnx HF4 Er) as [IH1 IH2].
    split.
    + constructor; [|assumption]. unfold wf_edict. cbn [id amount output]. rewrite Hnx.
      unfold P128, U128_MAX in *. lia.
    + cbn [sorted_from id]. split; assumption.
Qed.

Definition vals_ok (fs : fields) : Prop := Forall (fun p => snd p < P128) fs.

Lemma from_integers_inv n_out : forall k ints m, (length ints <= k)%nat ->
  Forall (fun n => n < P128) ints -> from_integers n_out ints = Ok m ->
  vals_ok (m_fields m) /\ Forall (fun e => wf_edict n_out e = true) (m_edicts m) /\
  sorted_from (mkId 0 0) (m_edicts m).
Proof.
  induction k as [|k IH]; intros ints m Hl HF H.
  - destruct ints; [|cbn [length] in Hl; lia]. inversion H; subst. repeat split; constructor.
  - destruct ints as [|tag rest]; [inversion H; subst; repeat split; constructor|].
    cbn [from_integers] in H. inversion HF as [|? ? _ HF1]; subst.
    destruct (N.eqb TAG_Body tag).
    + destruct (edicts_from n_out (mkId 0 0) rest) as [[es f]|e|p] eqn:E; cbn [bind] in H; try discriminate.
      inversion H; subst. cbn [m_fields m_edicts].
      destruct (edicts_from_inv n_out (length rest) rest (mkId 0 0) _ _ (le_n _) eq_refl HF1 E) as [H1 H2].
      split; [constructor|]. split; assumption.
    + destruct rest as [|v rest']; [inversion H; subst; repeat split; constructor|].
      inversion HF1 as [|? ? Hv HF2]; subst.
      destruct (from_integers n_out rest') as [m'|e|p] eqn:E; cbn [bind] in H; try discriminate.
      inversion H; subst. cbn [m_fields m_edicts].
      destruct (IH rest' m' ltac:(cbn [length] in Hl; lia) HF2 E) as (H1 & H2 & H3).
      split; [constructor; assumption|]. split; assumption.
Qed.

Lemma get_first_ok t fs v : vals_ok fs -> get_first t fs = Some v -> v < P128.
Proof.
  induction fs as [|[t' v'] r IH]; intros Hok H; [discriminate|]. inversion Hok; subst.
  cbn [get_first] in H. destruct (N.eqb t' t); [inversion H; subst; assumption|auto].
Qed.

Lemma remove_first_ok t fs : vals_ok fs -> vals_ok (remove_first t fs).
Proof.
  induction fs as [|[t' v'] r IH]; intros Hok; [constructor|]. inversion Hok; subst.
  cbn [remove_first]. destruct (N.eqb t' t); [assumption|]. constructor; [assumption|apply IH; assumption].
Qed.

Definition from_value {T} (w : N -> option T) (o : option T) : Prop :=
  match o with Some x => exists v, v < P128 /\ w v = Some x | None => True end.

Lemma take1_inv {T} t (w : N -> option T) fs o fs' : vals_ok fs -> take1 t w fs = (o, fs') ->
  vals_ok fs' /\ from_value w o.
Proof.
  intros Hok H. unfold take1 in H. destruct (get_first t fs) as [v|] eqn:E.
  - destruct (w v) as [x|] eqn:Ew; inversion H; subst.
    + split; [apply remove_first_ok; assumption|]. exists v. split; [eapply get_first_ok; eassumption|assumption].
    + split; [assumption|exact I].
  - inversion H; subst. split; [assumption|exact I].
Qed.

Lemma take2_inv {T} t (w : N -> N -> option T) fs o fs' : vals_ok fs -> take2 t w fs = (o, fs') ->
  vals_ok fs' /\ match o with Some x => exists a b, w a b = Some x | None => True end.
Proof.
  intros Hok H. unfold take2 in H. destruct (get_first t fs) as [v0|]; [|inversion H; subst; auto].
  destruct (get_first t (remove_first t fs)) as [v1|]; [|inversion H; subst; auto].
  destruct (w v0 v1) as [x|] eqn:Ew; inversion H; subst; [|auto].
  split; [do 2 apply remove_first_ok; assumption|eauto].
Qed.

Lemma opt_all_from (w : N -> option N) (p : N -> bool) o :
  from_value w o -> (forall v x, v < P128 -> w v = Some x -> p x = true) -> opt_all p o = true.
Proof. destruct o as [x|]; [|reflexivity]. intros (v & Hv & Hw) Hp. eapply Hp; eassumption. Qed.

Lemma w_any_p v x : v < P128 -> w_any v = Some x -> u128b x = true.
Proof. unfold w_any, u128b, P128, U128_MAX. intros H E. inversion E; subst. lia. Qed.

Lemma to_u64_p v x : v < P128 -> to_u64 v = Some x -> u64b x = true.
Proof. unfold to_u64, u64b. intros _ E. destruct (N.leb v U64_MAX) eqn:L; inversion E; subst. assumption. Qed.

Lemma w_divisibility_p v x : v < P128 -> w_divisibility v = Some x -> N.leb x MAX_DIVISIBILITY = true.
Proof.
  unfold w_divisibility, to_u8. intros _ E. destruct (N.leb v U8_MAX); [|discriminate].
  destruct (N.leb v MAX_DIVISIBILITY) eqn:L; inversion E; subst. assumption.
Qed.

Lemma w_spacers_p v x : v < P128 -> w_spacers v = Some x -> N.leb x MAX_SPACERS = true.
Proof.
  unfold w_spacers, to_u32. intros _ E. destruct (N.leb v U32_MAX); [|discriminate].
  destruct (N.leb v MAX_SPACERS) eqn:L; inversion E; subst. assumption.
Qed.

Lemma w_symbol_p v x : v < P128 -> w_symbol v = Some x -> is_char x = true.
Proof.
  unfold w_symbol, to_u32. intros _ E. destruct (N.leb v U32_MAX); [|discriminate].
  destruct (is_char v) eqn:L; inversion E; subst. assumption.
Qed.

Lemma w_pointer_p n v x : v < P128 -> w_pointer n v = Some x -> N.ltb x n = true.
Proof.
  unfold w_pointer, to_u32. intros _ E. destruct (N.leb v U32_MAX); [|discriminate].
  destruct (N.ltb v n) eqn:L; inversion E; subst. assumption.
Qed.

Lemma w_mint_p a b i : w_mint a b = Some i -> wf_id i = true.
Proof.
  unfold w_mint, to_u64, to_u32, id_new, wf_id. intros E.
  destruct (N.leb_spec a U64_MAX); [|discriminate]. destruct (N.leb_spec b U32_MAX); [|discriminate].
  destruct (andb (N.eqb a 0) (N.ltb 0 b)) eqn:V; [discriminate|]. inversion E; subst. cbn [block tx]. lia.
Qed.

Lemma parse_terms_inv fs t fs' : vals_ok fs -> parse_terms fs = (t, fs') ->
  wf_terms t = true /\ vals_ok fs'.
Proof.
  intros H0 H. unfold parse_terms in H.
  destruct (take1 TAG_Cap w_any fs) as [cp f1] eqn:E1. destruct (take1_inv _ _ _ _ _ H0 E1) as [H1 V1].
  destruct (take1 TAG_HeightStart to_u64 f1) as [hs f2] eqn:E2. destruct (take1_inv _ _ _ _ _ H1 E2) as [H2 V2].
  destruct (take1 TAG_HeightEnd to_u64 f2) as [he f3] eqn:E3. destruct (take1_inv _ _ _ _ _ H2 E3) as [H3 V3].
  destruct (take1 TAG_Amount w_any f3) as [am f4] eqn:E4. destruct (take1_inv _ _ _ _ _ H3 E4) as [H4 V4].
  destruct (take1 TAG_OffsetStart to_u64 f4) as [os f5] eqn:E5. destruct (take1_inv _ _ _ _ _ H4 E5) as [H5 V5].
  destruct (take1 TAG_OffsetEnd to_u64 f5) as [oe f6] eqn:E6. destruct (take1_inv _ _ _ _ _ H5 E6) as [H6 V6].
  inversion H; subst. split; [|assumption]. unfold wf_terms.
  cbn [t_amount t_cap t_height_start t_height_end t_offset_start t_offset_end].
  rewrite (opt_all_from _ _ _ V4 w_any_p), (opt_all_from _ _ _ V1 w_any_p),
    (opt_all_from _ _ _ V2 to_u64_p), (opt_all_from _ _ _ V3 to_u64_p),
    (opt_all_from _ _ _ V5 to_u64_p), (opt_all_from _ _ _ V6 to_u64_p). reflexivity.
Qed.

(* wf_etching without the supply clause *)
Definition wf_etching_fields (e : Etching) : bool :=
  andb (andb (andb (opt_all (fun v => N.leb v MAX_DIVISIBILITY) (divisibility e)) (opt_all u128b (premine e)))
             (andb (opt_all u128b (rune e)) (opt_all (fun v => N.leb v MAX_SPACERS) (spacers e))))
       (andb (opt_all is_char (symbol e)) (match terms e with Some t => wf_terms t | None => true end)).

Lemma parse_etching_inv flags fs e flags' fs' : vals_ok fs -> parse_etching flags fs = (e, flags', fs') ->
  wf_etching_fields e = true /\ vals_ok fs'.
Proof.
  intros H0 H. unfold parse_etching in H.
  destruct (take1 TAG_Divisibility w_divisibility fs) as [dv f1] eqn:E1. destruct (take1_inv _ _ _ _ _ H0 E1) as [H1 V1].
  destruct (take1 TAG_Premine w_any f1) as [pm f2] eqn:E2. destruct (take1_inv _ _ _ _ _ H1 E2) as [H2 V2].
  destruct (take1 TAG_Rune w_any f2) as [rn f3] eqn:E3. destruct (take1_inv _ _ _ _ _ H2 E3) as [H3 V3].
  destruct (take1 TAG_Spacers w_spacers f3) as [sp f4] eqn:E4. destruct (take1_inv _ _ _ _ _ H3 E4) as [H4 V4].
  destruct (take1 TAG_Symbol w_symbol f4) as [sy f5] eqn:E5. destruct (take1_inv _ _ _ _ _ H4 E5) as [H5 V5].
  destruct (flag_take FLAG_Terms flags) as [ht fl1].
  assert (Ht : forall tm f6, (if ht then let '(t, fs0) := parse_terms f5 in (Some t, fs0) else (None, f5)) = (tm, f6) ->
               match tm with Some t => wf_terms t | None => true end = true /\ vals_ok f6).
  { intros tm f6 Et. destruct ht.
    - destruct (parse_terms f5) as [t f6'] eqn:Ep. inversion Et; subst.
      destruct (parse_terms_inv _ _ _ H5 Ep). auto.
    - inversion Et; subst. auto. }
  destruct (if ht then let '(t, fs0) := parse_terms f5 in (Some t, fs0) else (None, f5)) as [tm f6] eqn:Et.
  destruct (Ht _ _ eq_refl) as [Htm H6].
  destruct (flag_take FLAG_Turbo fl1) as [tb fl2]. inversion H; subst. split; [|assumption].
  unfold wf_etching_fields. cbn [divisibility premine rune spacers symbol terms].
  rewrite (opt_all_from _ _ _ V1 w_divisibility_p), (opt_all_from _ _ _ V2 w_any_p),
    (opt_all_from _ _ _ V3 w_any_p), (opt_all_from _ _ _ V4 w_spacers_p),
    (opt_all_from _ _ _ V5 w_symbol_p), Htm. reflexivity.
Qed.

Lemma or_flaw_None f c g : or_flaw f c g = None -> f = None /\ c = false.
Proof. destruct f; [discriminate|]. destruct c; [discriminate|]. auto. Qed.

Lemma parse_message_inv n_out m : vals_ok (m_fields m) ->
  p_flaw (parse_message n_out m) = None ->
  let r := p_candidate (parse_message n_out m) in
  m_flaw m = None /\ edicts r = m_edicts m /\
  match etching r with Some e => wf_etching e | None => true end = true /\
  match mint r with Some i => wf_id i | None => true end = true /\
  opt_all (fun p => N.ltb p n_out) (pointer r) = true.
Proof.
  intros H0. unfold parse_message.
  destruct (take1 TAG_Flags w_any (m_fields m)) as [fl f1] eqn:E1. destruct (take1_inv _ _ _ _ _ H0 E1) as [H1 _].
  destruct (flag_take FLAG_Etching (default0 fl)) as [is_e flags].
  assert (He : forall et fl' f2,
     (if is_e then let '(e, flags0, fs0) := parse_etching flags f1 in (Some e, flags0, fs0) else (None, flags, f1)) = (et, fl', f2) ->
     match et with Some e => wf_etching_fields e | None => true end = true /\ vals_ok f2).
  { intros et fl' f2 Ee. destruct is_e.
    - destruct (parse_etching flags f1) as [[e fl0] f0] eqn:Ep. inversion Ee; subst.
      destruct (parse_etching_inv _ _ _ _ _ H1 Ep). auto.
    - inversion Ee; subst. auto. }
  destruct (if is_e then let '(e, flags0, fs0) := parse_etching flags f1 in (Some e, flags0, fs0) else (None, flags, f1))
    as [[et fl'] f2] eqn:Ee.
  destruct (He _ _ _ eq_refl) as [Het H2].
  destruct (take2 TAG_Mint w_mint f2) as [mt f3] eqn:E3. destruct (take2_inv _ _ _ _ _ H2 E3) as [H3 V3].
  destruct (take1 TAG_Pointer (w_pointer n_out) f3) as [pt f4] eqn:E4. destruct (take1_inv _ _ _ _ _ H3 E4) as [H4 V4].
  cbn [p_flaw p_candidate edicts etching mint pointer]. intros Hf.
  apply or_flaw_None in Hf. destruct Hf as [Hf _].
  apply or_flaw_None in Hf. destruct Hf as [Hf _].
  apply or_flaw_None in Hf. destruct Hf as [Hf Hsup].
  split; [assumption|]. split; [reflexivity|]. split; [|split].
  - destruct et as [e|]; [|reflexivity]. unfold wf_etching. unfold wf_etching_fields in Het.
    apply andb_prop in Het. destruct Het as [Ha Hb]. rewrite Ha.
    apply andb_prop in Hb. destruct Hb as [Hb1 Hb2]. rewrite Hb1, Hb2.
    destruct (supply e); [reflexivity|discriminate].
  - destruct mt as [i|]; [|reflexivity]. destruct V3 as (a & b & Hw). eapply w_mint_p. exact Hw.
  - apply (opt_all_from _ _ _ V4). intros v x Hv. apply w_pointer_p. assumption.
Qed.

Lemma sorted_sort_id : forall l p, sorted_from p l -> sort_edicts l = l.
Proof.
  induction l as [|e r IH]; intros p H; [reflexivity|]. cbn [sorted_from] in H. destruct H as [_ Hr].
  cbn [sort_edicts]. rewrite (IH _ Hr). destruct r as [|x r']; [reflexivity|].
  cbn [sorted_from] in Hr. destruct Hr as [Hle _]. cbn [insert_edict]. rewrite Hle. reflexivity.
Qed.

(* every runestone returned by decipher is well-formed for that transaction and
   has its edicts sorted *)
Theorem decipher_wf outs r : len outs <= U32_MAX ->
  decipher outs = Ok (Some (ARunestone r)) ->
  wf_runestone (len outs) r = true /\ sort_edicts (edicts r) = edicts r.
Proof.
  intros Hn H. unfold decipher in H.
  destruct (payload outs) as [[[bs|f]|]|e|t]; cbn [bind] in H; try discriminate.
  destruct (integers (length bs) bs) as [[ints|]|e|t] eqn:Ei; cbn [bind] in H; try discriminate.
  destruct (from_integers (len outs) ints) as [m|e|t] eqn:Em; cbn [bind] in H; try discriminate.
  pose proof (integers_bound _ _ _ Ei) as Hb.
  destruct (from_integers_inv _ (length ints) ints m (le_n _) Hb Em) as (Hv & Hes & Hs).
  unfold artifact_of in H.
  destruct (p_flaw (parse_message (len outs) m)) eqn:Ef; [discriminate|].
  inversion H as [Hr]. clear H.
  destruct (parse_message_inv (len outs) m Hv Ef) as (_ & Hed & Het & Hmt & Hpt).
  rewrite Hr in *. split.
  - unfold wf_runestone. rewrite Het, Hmt, Hpt, Hed.
    replace (N.leb (len outs) U32_MAX) with true by (symmetry; apply N.leb_le; assumption).
    replace (forallb (wf_edict (len outs)) (m_edicts m)) with true; [reflexivity|].
    symmetry. apply forallb_forall. apply Forall_forall. exact Hes.
  - rewrite Hed. eapply sorted_sort_id. exact Hs.
Qed.
(* WF is also necessary for the round trip *)
Lemma forallb_sort (p : Edict -> bool) l : forallb p (sort_edicts l) = forallb p l.
Proof.
  destruct (forallb p l) eqn:E.
  - apply forallb_forall. intros x Hx. rewrite forallb_forall in E. apply E.
    eapply Permutation_in; [apply Permutation_sym; apply sort_perm|exact Hx].
  - destruct (forallb p (sort_edicts l)) eqn:E2; [|reflexivity].
    rewrite <- E. symmetry. apply forallb_forall. intros x Hx. rewrite forallb_forall in E2. apply E2.
    eapply Permutation_in; [apply sort_perm|exact Hx].
Qed.

Lemma wf_sorted n r : wf_runestone n (sorted_runestone r) = wf_runestone n r.
Proof. unfold wf_runestone, sorted_runestone. cbn [edicts etching mint pointer]. rewrite forallb_sort. reflexivity. Qed.

Theorem roundtrip_iff r pre post s :
  len pre + 1 + len post <= U32_MAX ->
  Forall (fun s => ~ starts_magic s) pre ->
  encipher r = Ok s ->
  (decipher (pre ++ s :: post) = Ok (Some (ARunestone (sorted_runestone r))) <->
   wf_runestone (len pre + 1 + len post) r = true).
Proof.
  intros Hn Hpre He. split.
  - intros Hd. assert (Hl : len (pre ++ s :: post) = len pre + 1 + len post) by (rewrite len_app, len_cons; lia).
    destruct (decipher_wf _ _ ltac:(rewrite Hl; exact Hn) Hd) as [Hwf _].
    rewrite Hl, wf_sorted in Hwf. exact Hwf.
  - intros Hwf. destruct (decipher_encipher r pre post Hwf Hpre) as (s' & He' & Hd).
    rewrite He in He'. inversion He'; subst. exact Hd.
Qed.

(* ================= Part E: the pair list implements HashMap<u128, VecDeque<u128>> ================= *)
(* abstraction: the queue of tag t in the pair list *)
Fixpoint queue (t : N) (fs : fields) : list N :=
  match fs with [] => [] | (t', v) :: r => if N.eqb t' t then v :: queue t r else queue t r end.

Definition nonempty (l : list N) : option (list N) := match l with [] => None | _ => Some l end.

(* q represents fs *)
Definition repr (q : qmap) (fs : fields) : Prop := forall t, q_get t q = nonempty (queue t fs).

Lemma q_get_set_same t l q : q_get t (q_set t l q) = Some l.
Proof.
  induction q as [|[t' l'] r IH]; cbn [q_set q_get]; [rewrite N.eqb_refl; reflexivity|].
  destruct (N.eqb_spec t' t) as [->|Hne]; cbn [q_get].
  - rewrite N.eqb_refl. reflexivity.
  - destruct (N.eqb_spec t' t); [contradiction|]. exact IH.
Qed.

Lemma q_get_set_other t u l q : u <> t -> q_get u (q_set t l q) = q_get u q.
Proof.
  intros Hne. induction q as [|[t' l'] r IH]; cbn [q_set q_get].
  - destruct (N.eqb_spec t u); [congruence|reflexivity].
  - destruct (N.eqb_spec t' t) as [->|Hn]; cbn [q_get].
    + destruct (N.eqb_spec t u); [congruence|reflexivity].
    + destruct (N.eqb t' u); [reflexivity|exact IH].
Qed.

Lemma q_get_remove_other t u q : u <> t -> q_get u (q_remove t q) = q_get u q.
Proof.
  intros Hne. induction q as [|[t' l'] r IH]; cbn [q_remove q_get]; [reflexivity|].
  destruct (N.eqb_spec t' t) as [->|Hn]; cbn [q_get].
  - destruct (N.eqb_spec t u); [congruence|reflexivity].
  - destruct (N.eqb t' u); [reflexivity|exact IH].
Qed.

(* keys are distinct *)
Fixpoint keys_distinct (q : qmap) : Prop :=
  match q with [] => True | (t, _) :: r => q_get t r = None /\ keys_distinct r end.

Lemma q_get_remove_same t q : keys_distinct q -> q_get t (q_remove t q) = None.
Proof.
  induction q as [|[t' l'] r IH]; intros H; cbn [q_remove q_get]; [reflexivity|].
  cbn [keys_distinct] in H. destruct H as [H1 H2].
  destruct (N.eqb_spec t' t) as [->|Hn]; [exact H1|]. cbn [q_get].
  destruct (N.eqb_spec t' t); [contradiction|]. apply IH. exact H2.
Qed.

Lemma keys_distinct_set t l q : keys_distinct q -> keys_distinct (q_set t l q).
Proof.
  induction q as [|[t' l'] r IH]; intros H; cbn [q_set]; [cbn; auto|].
  cbn [keys_distinct] in H. destruct H as [H1 H2].
  destruct (N.eqb_spec t' t) as [->|Hn]; cbn [keys_distinct]; [auto|].
  split; [|apply IH; exact H2]. rewrite q_get_set_other by assumption. exact H1.
Qed.

Lemma keys_distinct_remove t q : keys_distinct q -> keys_distinct (q_remove t q).
Proof.
  induction q as [|[t' l'] r IH]; intros H; cbn [q_remove]; [exact I|].
  cbn [keys_distinct] in H. destruct H as [H1 H2].
  destruct (N.eqb_spec t' t) as [->|Hn]; [exact H2|]. cbn [keys_distinct].
  split; [|apply IH; exact H2]. rewrite q_get_remove_other by assumption. exact H1.
Qed.

Lemma queue_app t a b : queue t (a ++ b) = queue t a ++ queue t b.
Proof.
  induction a as [|[t' v] r IH]; [reflexivity|]. cbn [app queue].
  destruct (N.eqb t' t); [cbn [app]; rewrite IH|]; auto.
Qed.

(* push_back of the code = appending the pair at the end of the stream *)
Lemma repr_push q fs t v : repr q fs -> repr (q_push t v q) (fs ++ [(t, v)]).
Proof.
  intros H u. rewrite queue_app. cbn [queue]. unfold q_push.
  destruct (N.eqb_spec t u) as [->|Hne].
  - rewrite (H u). destruct (queue u fs) as [|x l]; cbn [nonempty]; rewrite q_get_set_same.
    + reflexivity.
    + destruct (x :: l) eqn:E; [discriminate|]. cbn [app nonempty]. reflexivity.
  - rewrite app_nil_r. destruct (q_get t q); rewrite q_get_set_other by congruence; apply H.
Qed.

Lemma keys_distinct_push q t v : keys_distinct q -> keys_distinct (q_push t v q).
Proof. intros H. unfold q_push. destruct (q_get t q); apply keys_distinct_set; assumption. Qed.

Lemma get_first_queue t fs : get_first t fs = hd_error (queue t fs).
Proof.
  induction fs as [|[t' v] r IH]; [reflexivity|]. cbn [get_first queue].
  destruct (N.eqb t' t); [reflexivity|exact IH].
Qed.

Lemma queue_remove_same t fs : queue t (remove_first t fs) = tl (queue t fs).
Proof.
  induction fs as [|[t' v] r IH]; [reflexivity|]. cbn [remove_first queue].
  destruct (N.eqb_spec t' t) as [->|Hn]; [reflexivity|]. cbn [queue].
  destruct (N.eqb_spec t' t); [contradiction|exact IH].
Qed.

Lemma queue_remove_other t u fs : u <> t -> queue u (remove_first t fs) = queue u fs.
Proof.
  intros Hne. induction fs as [|[t' v] r IH]; [reflexivity|]. cbn [remove_first queue].
  destruct (N.eqb_spec t' t) as [->|Hn].
  - destruct (N.eqb_spec t u); [congruence|reflexivity].
  - cbn [queue]. destruct (N.eqb t' u); [rewrite IH|]; auto.
Qed.

Lemma repr_drained q fs t x rest : keys_distinct q -> repr q fs -> queue t fs = x :: rest ->
  repr (q_drained t rest q) (remove_first t fs) /\ keys_distinct (q_drained t rest q).
Proof.
  intros Hd H Hq. split.
  - intros u. destruct (N.eq_dec u t) as [->|Hne].
    + rewrite queue_remove_same, Hq. cbn [tl]. unfold q_drained. destruct rest as [|y r].
      * rewrite q_get_remove_same by assumption. reflexivity.
      * rewrite q_get_set_same. reflexivity.
    + rewrite queue_remove_other by assumption. unfold q_drained. destruct rest as [|y r].
      * rewrite q_get_remove_other by assumption. apply H.
      * rewrite q_get_set_other by assumption. apply H.
  - unfold q_drained. destruct rest; [apply keys_distinct_remove|apply keys_distinct_set]; assumption.
Qed.

(* Tag::take on the map and on the pair list return the same value and related stores *)
Lemma take1_refines {T} t (w : N -> option T) q fs : keys_distinct q -> repr q fs ->
  fst (q_take1 t w q) = fst (take1 t w fs) /\
  repr (snd (q_take1 t w q)) (snd (take1 t w fs)) /\ keys_distinct (snd (q_take1 t w q)).
Proof.
  intros Hd H. unfold q_take1, take1. rewrite get_first_queue, (H t).
  destruct (queue t fs) as [|v rest] eqn:Eq; cbn [nonempty hd_error]; [auto|].
  destruct (w v) as [x|]; cbn [fst snd]; [|auto].
  destruct (repr_drained q fs t v rest Hd H Eq). auto.
Qed.

Lemma take2_refines {T} t (w : N -> N -> option T) q fs : keys_distinct q -> repr q fs ->
  fst (q_take2 t w q) = fst (take2 t w fs) /\
  repr (snd (q_take2 t w q)) (snd (take2 t w fs)) /\ keys_distinct (snd (q_take2 t w q)).
Proof.
  intros Hd H. unfold q_take2, take2. rewrite !get_first_queue, queue_remove_same, (H t).
  destruct (queue t fs) as [|v0 [|v1 rest]] eqn:Eq; cbn [nonempty hd_error tl]; [auto|auto|].
  destruct (w v0 v1) as [x|]; cbn [fst snd]; [|auto].
  destruct (repr_drained q fs t v0 (v1 :: rest) Hd H Eq) as [R1 D1].
  assert (Eq2 : queue t (remove_first t fs) = v1 :: rest) by (rewrite queue_remove_same, Eq; reflexivity).
  assert (Hdr : q_drained t rest q = q_drained t rest (q_drained t (v1 :: rest) q)).
  { unfold q_drained at 3. cbn iota. unfold q_drained. destruct rest as [|y r].
    - clear. induction q as [|[t' l'] r IH]; cbn [q_set q_remove]; [rewrite N.eqb_refl; reflexivity|].
      destruct (N.eqb_spec t' t) as [->|Hn]; cbn [q_remove].
      + rewrite N.eqb_refl. reflexivity.
      + destruct (N.eqb_spec t' t); [contradiction|]. rewrite IH. reflexivity.
    - clear. induction q as [|[t' l'] r0 IH]; cbn [q_set]; [rewrite N.eqb_refl; reflexivity|].
      destruct (N.eqb_spec t' t) as [->|Hn]; cbn [q_set].
      + rewrite N.eqb_refl. reflexivity.
      + destruct (N.eqb_spec t' t); [contradiction|]. rewrite IH. reflexivity. }
  rewrite Hdr. split; [reflexivity|]. exact (repr_drained _ _ t v1 rest D1 R1 Eq2).
Qed.

Lemma q_get_in t q l : q_get t q = Some l -> In (t, l) q.
Proof.
  induction q as [|[t' l'] r IH]; cbn [q_get]; [discriminate|].
  destruct (N.eqb_spec t' t) as [->|Hn]; intros H; [inversion H; left; reflexivity|right; auto].
Qed.

Lemma in_q_get t l q : keys_distinct q -> In (t, l) q -> q_get t q = Some l.
Proof.
  induction q as [|[t' l'] r IH]; intros Hd Hin; [contradiction|]. cbn [keys_distinct] in Hd.
  destruct Hd as [H1 H2]. cbn [q_get]. destruct Hin as [E|Hin].
  - inversion E; subst. rewrite N.eqb_refl. reflexivity.
  - destruct (N.eqb_spec t' t) as [->|Hn]; [|auto].
    rewrite (IH H2 Hin) in H1. discriminate.
Qed.

Lemma queue_nonempty_in t fs : queue t fs <> [] <-> exists v, In (t, v) fs.
Proof.
  induction fs as [|[t' v'] r IH]; cbn [queue].
  - split; [congruence|intros [v []]].
  - destruct (N.eqb_spec t' t) as [->|Hn].
    + split; [intros _; exists v'; left; reflexivity|discriminate].
    + rewrite IH. split; intros [v Hv]; exists v; [right; assumption|].
      destruct Hv as [E|Hv]; [inversion E; congruence|assumption].
Qed.

Lemma has_even_refines q fs : keys_distinct q -> repr q fs -> q_has_even q = has_even_tag fs.
Proof.
  intros Hd H. unfold q_has_even, has_even_tag.
  destruct (existsb (fun p : N * N => N.eqb (fst p mod 2) 0) fs) eqn:E.
  - apply existsb_exists in E. destruct E as [[t v] [Hin Hev]]. apply existsb_exists.
    assert (Hq : queue t fs <> []) by (apply queue_nonempty_in; eauto).
    specialize (H t). destruct (queue t fs) as [|x l] eqn:Eq; [congruence|]. cbn [nonempty] in H.
    exists (t, x :: l). split; [apply q_get_in; assumption|exact Hev].
  - destruct (existsb (fun p : N * list N => N.eqb (fst p mod 2) 0) q) eqn:E2; [|reflexivity].
    apply existsb_exists in E2. destruct E2 as [[t l] [Hin Hev]].
    pose proof (in_q_get _ _ _ Hd Hin) as Hg. rewrite (H t) in Hg.
    assert (Hq : queue t fs <> []) by (destruct (queue t fs); [discriminate|discriminate]).
    apply queue_nonempty_in in Hq. destruct Hq as [v Hv].
    rewrite <- E. symmetry. apply existsb_exists. exists (t, v). split; assumption.
Qed.

Lemma repr_empty : repr [] [] /\ keys_distinct [].
Proof. split; [intros t; reflexivity|exact I]. Qed.

(* the model's parse_message is the generic one over the pair list *)
Lemma parse_message_generic n_out m :
  parse_message n_out m =
  let '(flaw, r, flags, fs) := g_parse fields (@take1) (@take2) has_even_tag n_out (m_flaw m) (m_edicts m) (m_fields m) in
  mkParsed flaw r flags fs.
Proof.
  unfold parse_message, g_parse, parse_etching, g_parse_etching, parse_terms, g_parse_terms.
  repeat match goal with |- context [let '(a, b) := ?X in _] => destruct X end; reflexivity.
Qed.

(* two field stores related by R, whose operations agree, give the same parse *)
Section GenericRel.
  Variables (F1 F2 : Type) (R : F1 -> F2 -> Prop).
  Variable ta1 : forall T : Type, N -> (N -> option T) -> F1 -> option T * F1.
  Variable ta2 : forall T : Type, N -> (N -> N -> option T) -> F1 -> option T * F1.
  Variable ea : F1 -> bool.
  Variable tb1 : forall T : Type, N -> (N -> option T) -> F2 -> option T * F2.
  Variable tb2 : forall T : Type, N -> (N -> N -> option T) -> F2 -> option T * F2.
  Variable eb : F2 -> bool.
  Hypothesis H1 : forall T t w a b, R a b ->
    fst (ta1 T t w a) = fst (tb1 T t w b) /\ R (snd (ta1 T t w a)) (snd (tb1 T t w b)).
  Hypothesis H2 : forall T t w a b, R a b ->
    fst (ta2 T t w a) = fst (tb2 T t w b) /\ R (snd (ta2 T t w a)) (snd (tb2 T t w b)).
  Hypothesis He : forall a b, R a b -> ea a = eb b.

  Ltac step1 t w a b HR R' :=
    let E := fresh "E" in
    destruct (H1 N t w a b HR) as [E R'];
    destruct (ta1 N t w a) as [? ?]; destruct (tb1 N t w b) as [? ?];
    cbn [fst snd] in E, R'; subst.

  Lemma g_parse_terms_rel a b : R a b ->
    fst (g_parse_terms F1 ta1 a) = fst (g_parse_terms F2 tb1 b) /\
    R (snd (g_parse_terms F1 ta1 a)) (snd (g_parse_terms F2 tb1 b)).
  Proof.
    intros HR. unfold g_parse_terms.
    step1 TAG_Cap w_any a b HR R1.
    match goal with HR : R ?a ?b |- context [ta1 N TAG_HeightStart to_u64 ?a] => step1 TAG_HeightStart to_u64 a b HR R2 end.
    match goal with HR : R ?a ?b |- context [ta1 N TAG_HeightEnd to_u64 ?a] => step1 TAG_HeightEnd to_u64 a b HR R3 end.
    match goal with HR : R ?a ?b |- context [ta1 N TAG_Amount w_any ?a] => step1 TAG_Amount w_any a b HR R4 end.
    match goal with HR : R ?a ?b |- context [ta1 N TAG_OffsetStart to_u64 ?a] => step1 TAG_OffsetStart to_u64 a b HR R5 end.
    match goal with HR : R ?a ?b |- context [ta1 N TAG_OffsetEnd to_u64 ?a] => step1 TAG_OffsetEnd to_u64 a b HR R6 end.
    cbn [fst snd]. split; [reflexivity|assumption].
  Qed.

  Lemma g_parse_etching_rel flags a b : R a b ->
    fst (g_parse_etching F1 ta1 flags a) = fst (g_parse_etching F2 tb1 flags b) /\
    R (snd (g_parse_etching F1 ta1 flags a)) (snd (g_parse_etching F2 tb1 flags b)).
  Proof.
    intros HR. unfold g_parse_etching.
    step1 TAG_Divisibility w_divisibility a b HR R1.
    match goal with HR : R ?a ?b |- context [ta1 N TAG_Premine w_any ?a] => step1 TAG_Premine w_any a b HR R2 end.
    match goal with HR : R ?a ?b |- context [ta1 N TAG_Rune w_any ?a] => step1 TAG_Rune w_any a b HR R3 end.
    match goal with HR : R ?a ?b |- context [ta1 N TAG_Spacers w_spacers ?a] => step1 TAG_Spacers w_spacers a b HR R4 end.
    match goal with HR : R ?a ?b |- context [ta1 N TAG_Symbol w_symbol ?a] => step1 TAG_Symbol w_symbol a b HR R5 end.
    destruct (flag_take FLAG_Terms flags) as [ht fl1].
    match goal with HR : R ?a ?b |- context [g_parse_terms F1 ta1 ?a] =>
      destruct (g_parse_terms_rel a b HR) as [Et Rt];
      destruct (g_parse_terms F1 ta1 a) as [t1 a6]; destruct (g_parse_terms F2 tb1 b) as [t2 b6];
      cbn [fst snd] in Et, Rt; subst t2 end.
    destruct (flag_take FLAG_Turbo fl1) as [tb fl2].
    destruct ht; cbn [fst snd]; (split; [reflexivity|assumption]).
  Qed.

  Lemma g_parse_rel n_out mflaw es a b : R a b ->
    fst (g_parse F1 ta1 ta2 ea n_out mflaw es a) = fst (g_parse F2 tb1 tb2 eb n_out mflaw es b) /\
    R (snd (g_parse F1 ta1 ta2 ea n_out mflaw es a)) (snd (g_parse F2 tb1 tb2 eb n_out mflaw es b)).
  Proof.
    intros HR. unfold g_parse.
    step1 TAG_Flags w_any a b HR R1.
    match goal with |- context [flag_take FLAG_Etching ?f] => destruct (flag_take FLAG_Etching f) as [is_e flags] end.
    match goal with HR : R ?a ?b |- context [g_parse_etching F1 ta1 flags ?a] =>
      destruct (g_parse_etching_rel flags a b HR) as [Ee Re];
      destruct (g_parse_etching F1 ta1 flags a) as [[e1 fa] a2]; destruct (g_parse_etching F2 tb1 flags b) as [[e2 fb] b2];
      cbn [fst snd] in Ee, Re; inversion Ee; subst e2 fb;
      assert (HR2 : R (if is_e then a2 else a) (if is_e then b2 else b)) by (destruct is_e; assumption)
    end.
    destruct is_e.
    - destruct (H2 RuneId TAG_Mint w_mint _ _ Re) as [Em Rm].
      destruct (ta2 RuneId TAG_Mint w_mint a2) as [? a3]; destruct (tb2 RuneId TAG_Mint w_mint b2) as [? b3].
      cbn [fst snd] in Em, Rm; subst.
      step1 TAG_Pointer (w_pointer n_out) a3 b3 Rm Rp.
      cbn [fst snd]. rewrite (He _ _ Rp). split; [reflexivity|assumption].
    - match goal with HR : R ?a ?b |- context [ta2 RuneId TAG_Mint w_mint ?a] =>
        destruct (H2 RuneId TAG_Mint w_mint a b HR) as [Em Rm];
        destruct (ta2 RuneId TAG_Mint w_mint a) as [? a3]; destruct (tb2 RuneId TAG_Mint w_mint b) as [? b3];
        cbn [fst snd] in Em, Rm; subst end.
      step1 TAG_Pointer (w_pointer n_out) a3 b3 Rm Rp.
      cbn [fst snd]. rewrite (He _ _ Rp). split; [reflexivity|assumption].
  Qed.
End GenericRel.


Definition rel (q : qmap) (fs : fields) : Prop := repr q fs /\ keys_distinct q.

Lemma from_integers_q_refines n_out : forall k ints q fs0, (length ints <= k)%nat -> rel q fs0 ->
  match from_integers n_out ints, from_integers_q n_out q ints with
  | Ok m, Ok (f, es, q') => f = m_flaw m /\ es = m_edicts m /\ rel q' (fs0 ++ m_fields m)
  | Err e, Err e' => e = e'
  | Panic t, Panic t' => t = t'
  | _, _ => False
  end.
Proof.
  induction k as [|k IH]; intros ints q fs0 Hl HR.
  - destruct ints; [|cbn [length] in Hl; lia]. cbn. rewrite app_nil_r. auto.
  - destruct ints as [|tag rest]; [cbn; rewrite app_nil_r; auto|].
    cbn [from_integers from_integers_q]. destruct (N.eqb TAG_Body tag).
    + destruct (edicts_from n_out (mkId 0 0) rest) as [[es f]|e|t]; cbn [bind m_flaw m_edicts m_fields];
        [rewrite app_nil_r; auto|reflexivity|reflexivity].
    + destruct rest as [|v rest']; [cbn [m_flaw m_edicts m_fields]; rewrite app_nil_r; auto|].
      assert (HR' : rel (q_push tag v q) (fs0 ++ [(tag, v)])).
      { destruct HR as [Hr Hd]. split; [apply repr_push; assumption|apply keys_distinct_push; assumption]. }
      specialize (IH rest' (q_push tag v q) (fs0 ++ [(tag, v)]) ltac:(cbn [length] in Hl; lia) HR').
      destruct (from_integers n_out rest') as [m|e|t]; cbn [bind];
        destruct (from_integers_q n_out (q_push tag v q) rest') as [[[f es] q']|e'|t']; try contradiction; try assumption.
      cbn [m_flaw m_edicts m_fields]. destruct IH as (-> & -> & Hrel). rewrite <- app_assoc in Hrel. auto.
Qed.


Theorem decipher_q_eq outs : decipher_q outs = decipher outs.
Proof.
  unfold decipher_q, decipher. destruct (payload outs) as [[[bs|f]|]|e|t]; cbn [bind]; try reflexivity.
  destruct (integers (length bs) bs) as [[ints|]|e|t]; cbn [bind]; try reflexivity.
  pose proof (from_integers_q_refines (len outs) (length ints) ints [] [] (le_n _) repr_empty) as H.
  destruct (from_integers (len outs) ints) as [m|e|t];
    destruct (from_integers_q (len outs) [] ints) as [[[f es] q]|e'|t']; try contradiction; cbn [bind]; try congruence.
  destruct H as (-> & -> & Hrel). cbn [app] in Hrel.
  rewrite parse_message_generic.
  pose proof (g_parse_rel qmap fields rel (@q_take1) (@q_take2) q_has_even (@take1) (@take2) has_even_tag) as G.
  assert (G1 : forall T t w a b, rel a b ->
     fst (@q_take1 T t w a) = fst (@take1 T t w b) /\ rel (snd (@q_take1 T t w a)) (snd (@take1 T t w b))).
  { intros T t w a b [Hr Hd]. destruct (take1_refines t w a b Hd Hr) as (A & B & C). split; [assumption|split; assumption]. }
  assert (G2 : forall T t w a b, rel a b ->
     fst (@q_take2 T t w a) = fst (@take2 T t w b) /\ rel (snd (@q_take2 T t w a)) (snd (@take2 T t w b))).
  { intros T t w a b [Hr Hd]. destruct (take2_refines t w a b Hd Hr) as (A & B & C). split; [assumption|split; assumption]. }
  assert (G3 : forall a b, rel a b -> q_has_even a = has_even_tag b).
  { intros a b [Hr Hd]. apply has_even_refines; assumption. }
  specialize (G G1 G2 G3 (len outs) (m_flaw m) (m_edicts m) q (m_fields m) Hrel). destruct G as [Ge _].
  destruct (g_parse qmap (@q_take1) (@q_take2) q_has_even (len outs) (m_flaw m) (m_edicts m) q) as [[[fl1 r1] fg1] q1].
  destruct (g_parse fields (@take1) (@take2) has_even_tag (len outs) (m_flaw m) (m_edicts m) (m_fields m)) as [[[fl2 r2] fg2] q2].
  cbn [fst] in Ge. inversion Ge; subst. reflexivity.
Qed.
