(* Lemmas about Codec/Runestone.v.
   Part A: totality of decipher (no Panic for any transaction with at most
           u32::MAX outputs; None exactly when no output starts OP_RETURN OP_13).
   Part B: round trip encipher -> decipher, bottom-up.
   Part C: flaw order. *)
From OrdV Require Import Base.Prelude Generated Codec.Varint Codec.Script Codec.Runestone
  Proofs.Varint_proofs Proofs.Script_proofs.
Require Import ZifyBool ZifyN.
Ltac Zify.zify_post_hook ::= Z.div_mod_to_equations.

(* ================= Part A: totality ================= *)

Definition starts_magic (s : list N) : Prop := exists r, s = OP_RETURN :: MAGIC_NUMBER :: r.

Lemma push_data_not_op size bs o r : push_data size bs <> SInstr (IOp o) r.
Proof.
  unfold push_data. destruct (take_opt size bs) as [[lb r1]|]; [|discriminate].
  destruct (take_opt (le_value lb) r1) as [[d r2]|]; discriminate.
Qed.

Lemma next_instr_op byte rest : OP_PUSHDATA4 < byte ->
  next_instr (byte :: rest) = SInstr (IOp byte) rest.
Proof.
  intros H. cbn [next_instr]. unfold OP_PUSHDATA4, OP_PUSHBYTES_75, OP_PUSHDATA1, OP_PUSHDATA2 in *.
  destruct (N.leb_spec byte 75); [lia|].
  destruct (N.eqb_spec byte 76); [lia|].
  destruct (N.eqb_spec byte 77); [lia|].
  destruct (N.eqb_spec byte 78); [lia|]. reflexivity.
Qed.

Lemma next_instr_push_only byte rest o r : byte <= OP_PUSHDATA4 ->
  next_instr (byte :: rest) <> SInstr (IOp o) r.
Proof.
  intros H. cbn [next_instr]. unfold OP_PUSHDATA4, OP_PUSHBYTES_75, OP_PUSHDATA1, OP_PUSHDATA2 in *.
  destruct (N.leb_spec byte 75).
  { destruct (take_opt byte rest) as [[d r1]|]; discriminate. }
  destruct (N.eqb_spec byte 76); [apply push_data_not_op|].
  destruct (N.eqb_spec byte 77); [apply push_data_not_op|].
  destruct (N.eqb_spec byte 78); [apply push_data_not_op|]. lia.
Qed.

Lemma next_instr_is_op bs o r : next_instr bs = SInstr (IOp o) r -> bs = o :: r /\ OP_PUSHDATA4 < o.
Proof.
  destruct bs as [|byte rest]; [discriminate|]. intros H.
  destruct (N.le_gt_cases byte OP_PUSHDATA4) as [Hle|Hgt].
  - exfalso. exact (next_instr_push_only _ _ _ _ Hle H).
  - rewrite next_instr_op in H by assumption. inversion H; subst. split; [reflexivity|assumption].
Qed.

Lemma script_payload_magic r :
  script_payload (OP_RETURN :: MAGIC_NUMBER :: r) = Some (collect (length r) r).
Proof.
  unfold script_payload.
  rewrite next_instr_op by (vm_compute; reflexivity). rewrite N.eqb_refl.
  rewrite next_instr_op by (vm_compute; reflexivity). rewrite N.eqb_refl. reflexivity.
Qed.

Lemma script_payload_Some s x : script_payload s = Some x -> starts_magic s.
Proof.
  unfold script_payload. destruct (next_instr s) as [| |[d|o1] r1] eqn:E1; try discriminate.
  destruct (N.eqb_spec o1 OP_RETURN) as [->|]; [|discriminate].
  destruct (next_instr r1) as [| |[d|o2] r2] eqn:E2; try discriminate.
  destruct (N.eqb_spec o2 MAGIC_NUMBER) as [->|]; [|discriminate]. intros _.
  apply next_instr_is_op in E1. apply next_instr_is_op in E2.
  destruct E1 as [-> _], E2 as [-> _]. exists r2. reflexivity.
Qed.

Lemma script_payload_None s : script_payload s = None <-> ~ starts_magic s.
Proof.
  split.
  - intros H [r ->]. rewrite script_payload_magic in H. discriminate.
  - intros H. destruct (script_payload s) eqn:E; [|reflexivity].
    exfalso. apply H. eapply script_payload_Some. exact E.
Qed.

Lemma collect_total : forall fuel bs, (length bs <= fuel)%nat -> exists p, collect fuel bs = Ok p.
Proof.
  induction fuel as [|f IH]; intros bs Hl.
  - destruct bs; [|cbn [length] in Hl; lia]. eexists. reflexivity.
  - cbn [collect]. destruct (next_instr bs) as [| |[d|o] rest] eqn:E; try (eexists; reflexivity).
    apply next_instr_shorter in E. destruct (IH rest ltac:(lia)) as [p Hp]. rewrite Hp.
    destruct p; eexists; reflexivity.
Qed.

Lemma payload_total outs : exists p, payload outs = Ok p.
Proof.
  induction outs as [|s rest IH]; [eexists; reflexivity|]. cbn [payload].
  destruct (script_payload s) as [r|] eqn:E; [|exact IH].
  unfold script_payload in E.
  destruct (next_instr s) as [| |[d|o1] r1]; try discriminate.
  destruct (N.eqb o1 OP_RETURN); [|discriminate].
  destruct (next_instr r1) as [| |[d|o2] r2]; try discriminate.
  destruct (N.eqb o2 MAGIC_NUMBER); [|discriminate]. inversion E; subst r.
  destruct (collect_total (length r2) r2 (le_n _)) as [p Hp]. rewrite Hp. eexists. reflexivity.
Qed.

Lemma payload_None outs : payload outs = Ok None <-> Forall (fun s => ~ starts_magic s) outs.
Proof.
  induction outs as [|s rest IH]; cbn [payload].
  - split; [constructor|reflexivity].
  - destruct (script_payload s) as [r|] eqn:E.
    + split.
      * intros H. destruct r as [p|e|t]; cbn [bind] in H; discriminate.
      * intros H. inversion H; subst. apply script_payload_Some in E. contradiction.
    + apply script_payload_None in E. rewrite IH. split.
      * intros H. constructor; assumption.
      * intros H. inversion H; assumption.
Qed.

Lemma integers_total : forall fuel bs, (length bs <= fuel)%nat -> exists r, integers fuel bs = Ok r.
Proof.
  induction fuel as [|f IH]; intros bs Hl.
  - destruct bs; [|cbn [length] in Hl; lia]. eexists. reflexivity.
  - destruct bs as [|b bs']; [eexists; reflexivity|]. cbn [integers].
    destruct (decode (b :: bs')) as [e|[n k]] eqn:E; [eexists; reflexivity|].
    apply decode_exact in E. destruct E as (j & -> & Hj & Hjl & _).
    rewrite Nnat.Nat2N.id.
    destruct (IH (skipn j (b :: bs'))) as [r Hr].
    { rewrite skipn_length. lia. }
    rewrite Hr. eexists. reflexivity.
Qed.

Lemma edict_from_integers_total n_out i a o : n_out <= U32_MAX ->
  exists e, edict_from_integers n_out i a o = Ok e.
Proof.
  intros H. unfold edict_from_integers. destruct (to_u32 o); [|eexists; reflexivity].
  destruct (N.ltb_spec U32_MAX n_out); [lia|].
  destruct (N.ltb n_out n); eexists; reflexivity.
Qed.

Lemma edicts_from_total n_out : n_out <= U32_MAX -> forall k ints i, (length ints <= k)%nat ->
  exists r, edicts_from n_out i ints = Ok r.
Proof.
  intros Hn. induction k as [|k IH]; intros ints i Hl.
  - destruct ints; [|cbn [length] in Hl; lia]. eexists. reflexivity.
  - destruct ints as [|b [|t [|a [|o rest]]]]; try (eexists; reflexivity).
    cbn [edicts_from]. destruct (id_next i b t) as [nx|]; [|eexists; reflexivity].
    destruct (edict_from_integers_total n_out nx a o Hn) as [e ->]. cbn [bind].
    destruct e as [e|]; [|eexists; reflexivity].
    destruct (IH rest nx) as [[es f] Hr]; [cbn [length] in Hl; lia|].
    rewrite Hr. eexists. reflexivity.
Qed.

Lemma from_integers_total n_out : n_out <= U32_MAX -> forall k ints, (length ints <= k)%nat ->
  exists m, from_integers n_out ints = Ok m.
Proof.
  intros Hn. induction k as [|k IH]; intros ints Hl.
  - destruct ints; [|cbn [length] in Hl; lia]. eexists. reflexivity.
  - destruct ints as [|tag rest]; [eexists; reflexivity|]. cbn [from_integers].
    destruct (N.eqb TAG_Body tag).
    + destruct (edicts_from_total n_out Hn (length rest) rest (mkId 0 0) (le_n _)) as [[es f] ->].
      eexists. reflexivity.
    + destruct rest as [|v rest']; [eexists; reflexivity|].
      destruct (IH rest') as [m ->]; [cbn [length] in Hl; lia|]. eexists. reflexivity.
Qed.

(* decipher never panics and never fails on a transaction with at most u32::MAX
   outputs; the result is None exactly when no output starts OP_RETURN OP_13 *)
Theorem decipher_total outs : len outs <= U32_MAX ->
  exists a, decipher outs = Ok a /\
    (a = None <-> Forall (fun s => ~ starts_magic s) outs).
Proof.
  intros Hn. unfold decipher. destruct (payload_total outs) as [p Hp].
  pose proof (payload_None outs) as HN. rewrite Hp in *. cbn [bind].
  destruct p as [[bs|f]|].
  - destruct (integers_total (length bs) bs (le_n _)) as [r ->]. cbn [bind].
    destruct r as [ints|].
    + destruct (from_integers_total _ Hn (length ints) ints (le_n _)) as [m ->]. cbn [bind].
      eexists. split; [reflexivity|]. split; [discriminate|].
      intros H. apply HN in H. discriminate.
    + eexists. split; [reflexivity|]. split; [discriminate|].
      intros H. apply HN in H. discriminate.
  - eexists. split; [reflexivity|]. split; [discriminate|].
    intros H. apply HN in H. discriminate.
  - eexists. split; [reflexivity|]. split; [intros _; apply HN; reflexivity|reflexivity].
Qed.

(* without any bound on the number of outputs the only possible Panic is the
   `u32::try_from(tx.output.len()).unwrap()` of Edict::from_integers *)
Lemma edicts_from_panic n_out : forall k ints i t, (length ints <= k)%nat ->
  edicts_from n_out i ints = Panic t -> t = PANIC_OUTPUTS_U32 /\ U32_MAX < n_out.
Proof.
  induction k as [|k IH]; intros ints i t Hl H.
  - destruct ints; [discriminate|cbn [length] in Hl; lia].
  - destruct ints as [|b [|t0 [|a [|o rest]]]]; try discriminate.
    cbn [edicts_from] in H. destruct (id_next i b t0) as [nx|]; [|discriminate].
    unfold edict_from_integers in H. destruct (to_u32 o); [|discriminate].
    destruct (N.ltb_spec U32_MAX n_out).
    + cbn [bind] in H. inversion H. split; [reflexivity|assumption].
    + destruct (N.ltb n_out n); cbn [bind] in H; [discriminate|].
      destruct (edicts_from n_out nx rest) as [[es f]|e|t'] eqn:E; cbn [bind] in H; try discriminate.
      inversion H; subst. eapply IH; [|exact E]. cbn [length] in Hl. lia.
Qed.
