(* Lemmas about the sat-numbering model Ord/Sat.v (C29). *)
From OrdV Require Import Base.Prelude Generated Ord.Sat.
Require Import ZifyBool ZifyN.
Ltac Zify.zify_post_hook ::= Z.div_mod_to_equations.

(* ---------- the table ---------- *)

(* Specification of the subsidy, independent of the epoch table: 50 coins halved
   (integer shift) once per SUBSIDY_HALVING_INTERVAL blocks. *)
Definition subsidy (h : N) : N :=
  N.shiftr (50 * 100000000) (h / 210000).

(* cumulative sums of one epoch's worth of subsidies, epoch by epoch *)
Fixpoint cumulative (k : nat) (e : N) (acc : N) : list N :=
  match k with
  | O => []
  | S k' => acc :: cumulative k' (e + 1) (acc + 210000 * N.shiftr (50 * 100000000) e)
  end.

Lemma starting_sats_cumulative : STARTING_SATS = cumulative 34 0 0.
Proof. vm_compute. reflexivity. Qed.
