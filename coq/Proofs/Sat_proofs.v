(* Lemmas about the sat-numbering model Ord/Sat.v (C29). *)
From OrdV Require Import Base.Prelude Generated Ord.Sat.
Require Import ZifyBool ZifyN.
Ltac Zify.zify_post_hook ::= Z.div_mod_to_equations.

(* ---------- finite universal statements by complete enumeration ---------- *)

Fixpoint all_below (k : nat) (P : N -> bool) : bool :=
  match k with O => true | S k' => P (N.of_nat k') && all_below k' P end.

Lemma all_below_spec : forall k P, all_below k P = true ->
  forall e, e < N.of_nat k -> P e = true.
Proof.
  induction k as [|k IH]; intros P H e He; [lia|].
  cbn [all_below] in H. apply andb_true_iff in H. destruct H as [H1 H2].
  destruct (N.eq_dec e (N.of_nat k)) as [->|Hne]; [exact H1|].
  apply IH; [exact H2|lia].
Qed.

(* ---------- the subsidy and the table ---------- *)

(* Specification of the subsidy, independent of the epoch table: 50 coins halved
   (integer shift) once per 210000 blocks. *)
Definition subsidy (h : N) : N := N.shiftr 5000000000 (h / 210000).

(* cumulative sums of one epoch's worth of subsidies, epoch by epoch *)
Fixpoint cumulative (k : nat) (e : N) (acc : N) : list N :=
  match k with
  | O => []
  | S k' => acc :: cumulative k' (e + 1) (acc + 210000 * N.shiftr 5000000000 e)
  end.

Lemma starting_sats_cumulative : STARTING_SATS = cumulative 34 0 0.
Proof. vm_compute. reflexivity. Qed.

Lemma SHI_val : SUBSIDY_HALVING_INTERVAL = 210000. Proof. reflexivity. Qed.
Lemma DCI_val : DIFFCHANGE_INTERVAL = 2016. Proof. reflexivity. Qed.
Lemma CE_val : CYCLE_EPOCHS = 6. Proof. reflexivity. Qed.
Lemma SUPPLY_val : SAT_SUPPLY = 2099999997690000. Proof. reflexivity. Qed.

Lemma epoch_subsidy_post : forall e, 33 <= e -> epoch_subsidy e = 0.
Proof.
  intros e H. unfold epoch_subsidy. change FIRST_POST_SUBSIDY with 33.
  destruct (N.ltb_spec e 33); [lia|reflexivity].
Qed.

Lemma epoch_starting_sat_post : forall e, 33 <= e -> epoch_starting_sat e = SAT_SUPPLY.
Proof.
  intros e H. unfold epoch_starting_sat. change (N.of_nat (length STARTING_SATS)) with 34.
  destruct (N.ltb_spec e 34); [|reflexivity].
  assert (e = 33) as -> by lia. reflexivity.
Qed.

Lemma epoch_subsidy_shift : forall e, epoch_subsidy e = N.shiftr 5000000000 e.
Proof.
  intros e. unfold epoch_subsidy. change FIRST_POST_SUBSIDY with 33.
  change (INITIAL_SUBSIDY_COINS * COIN_VALUE) with 5000000000.
  destruct (N.ltb_spec e 33); [reflexivity|].
  rewrite N.shiftr_div_pow2. symmetry. apply N.div_small.
  apply N.lt_le_trans with (2 ^ 33); [reflexivity|].
  apply N.pow_le_mono_r; lia.
Qed.

Lemma height_subsidy_spec : forall h, height_subsidy h = subsidy h.
Proof. intros h. unfold height_subsidy, epoch_of_height, subsidy. apply epoch_subsidy_shift. Qed.

(* table step: the next epoch starts 210000 subsidies later, and the subsidy is positive *)
Definition step_ok (e : N) : bool :=
  (epoch_starting_sat (e + 1) =? epoch_starting_sat e + 210000 * epoch_subsidy e)
  && (0 <? epoch_subsidy e).

Lemma table_step : forall e, e < 33 ->
  epoch_starting_sat (e + 1) = epoch_starting_sat e + 210000 * epoch_subsidy e /\ 0 < epoch_subsidy e.
Proof.
  intros e H.
  assert (A : step_ok e = true) by (apply (all_below_spec 33); [vm_compute; reflexivity|exact H]).
  unfold step_ok in A. apply andb_true_iff in A. destruct A as [A B].
  split; [apply N.eqb_eq; exact A|apply N.ltb_lt; exact B].
Qed.

Lemma table_step_all : forall e,
  epoch_starting_sat (e + 1) = epoch_starting_sat e + 210000 * epoch_subsidy e.
Proof.
  intros e. destruct (N.lt_ge_cases e 33) as [H|H]; [apply table_step; exact H|].
  rewrite !epoch_starting_sat_post, epoch_subsidy_post by lia. lia.
Qed.

Lemma table_mono_step : forall e, epoch_starting_sat e <= epoch_starting_sat (e + 1).
Proof. intros e. rewrite table_step_all. lia. Qed.

Lemma table_mono : forall a b, a <= b -> epoch_starting_sat a <= epoch_starting_sat b.
Proof.
  intros a b H. replace b with (a + (b - a)) by lia.
  generalize (b - a). intros d. induction d as [|d IH] using N.peano_ind.
  - rewrite N.add_0_r. lia.
  - replace (a + N.succ d) with ((a + d) + 1) by lia.
    pose proof (table_mono_step (a + d)). lia.
Qed.

Lemma table_0 : epoch_starting_sat 0 = 0. Proof. reflexivity. Qed.
Lemma table_33 : epoch_starting_sat 33 = SAT_SUPPLY. Proof. reflexivity. Qed.

(* ---------- Epoch::from(Sat): the if-chain picks the table interval containing the sat ---------- *)

Ltac eval_table :=
  repeat match goal with
  | |- context [nth (N.to_nat ?i) STARTING_SATS 0] =>
    let v := eval vm_compute in (nth (N.to_nat i) STARTING_SATS 0) in
    change (nth (N.to_nat i) STARTING_SATS 0) with v
  end.

Definition in_epoch (n e : N) : Prop :=
  e <= 33 /\ epoch_starting_sat e <= n /\ (e < 33 -> n < epoch_starting_sat (e + 1)) /\
  (e = 33 -> SAT_SUPPLY <= n).

Ltac eval_starts :=
  repeat match goal with
  | |- context [epoch_starting_sat ?c] =>
    let v := eval vm_compute in (epoch_starting_sat c) in
    change (epoch_starting_sat c) with v
  end.

Lemma epoch_of_sat_spec : forall n, in_epoch n (epoch_of_sat n).
Proof.
  intros n. unfold epoch_of_sat, EPOCH_CHAIN_INDEX, EPOCH_CHAIN_EPOCH, EPOCH_CHAIN_ELSE.
  cbn [epoch_chain]. eval_table.
  repeat (match goal with |- context [if n <? ?c then _ else _] =>
            destruct (N.ltb_spec n c);
            [unfold in_epoch; change SAT_SUPPLY with 2099999997690000; eval_starts; lia|] end).
  unfold in_epoch; change SAT_SUPPLY with 2099999997690000; eval_starts; lia.
Qed.

(* Sat::epoch_position never underflows *)
Lemma epoch_start_le : forall n, epoch_starting_sat (epoch_of_sat n) <= n.
Proof. intros n. apply (epoch_of_sat_spec n). Qed.

Lemma epoch_of_sat_lt33 : forall n, n < SAT_SUPPLY -> epoch_of_sat n < 33.
Proof.
  intros n H. destruct (epoch_of_sat_spec n) as (A & _ & _ & D).
  destruct (N.eq_dec (epoch_of_sat n) 33) as [E|E]; [specialize (D E); lia|lia].
Qed.

Lemma epoch_of_sat_post : forall n, SAT_SUPPLY <= n -> epoch_of_sat n = 33.
Proof.
  intros n H. destruct (epoch_of_sat_spec n) as (A & _ & C & _).
  destruct (N.eq_dec (epoch_of_sat n) 33) as [E|E]; [exact E|].
  assert (L : epoch_of_sat n < 33) by lia. specialize (C L).
  pose proof (table_mono (epoch_of_sat n + 1) 33 ltac:(lia)) as M. rewrite table_33 in M. lia.
Qed.

Lemma epoch_unique : forall n e, e < 33 ->
  epoch_starting_sat e <= n < epoch_starting_sat (e + 1) -> epoch_of_sat n = e.
Proof.
  intros n e He [Hlo Hhi].
  destruct (epoch_of_sat_spec n) as (A & B & C & D).
  destruct (N.lt_trichotomy (epoch_of_sat n) e) as [L|[L|L]]; [|exact L|].
  - specialize (C ltac:(lia)). pose proof (table_mono (epoch_of_sat n + 1) e ltac:(lia)). lia.
  - pose proof (table_mono (e + 1) (epoch_of_sat n) ltac:(lia)). lia.
Qed.

(* ---------- heights ---------- *)

Definition LAST_SUBSIDY_HEIGHTS : N := 6930000.   (* 33 * 210000: heights 0 .. 6929999 carry a subsidy *)

Lemma height_subsidy_pos_iff : forall h, 0 < height_subsidy h <-> h < 6930000.
Proof.
  intros h. unfold height_subsidy, epoch_of_height. rewrite SHI_val. split; intros H.
  - destruct (N.lt_ge_cases (h / 210000) 33) as [L|L]; [lia|].
    rewrite epoch_subsidy_post in H by exact L. lia.
  - apply table_step. lia.
Qed.

(* consecutive numbering: block h+1 starts where block h ends *)
Lemma height_starting_sat_succ : forall h,
  height_starting_sat (h + 1) = height_starting_sat h + height_subsidy h.
Proof.
  intros h. unfold height_starting_sat, height_subsidy, epoch_of_height. rewrite SHI_val.
  set (e := h / 210000).
  destruct (N.eq_dec (h mod 210000) 209999) as [E|E].
  - assert (E1 : (h + 1) / 210000 = e + 1) by (unfold e; lia).
    rewrite E1, table_step_all.
    replace (h + 1 - (e + 1) * 210000) with 0 by (unfold e; lia).
    replace (h - e * 210000) with 209999 by (unfold e; lia).
    lia.
  - assert (E1 : (h + 1) / 210000 = e) by (unfold e; lia).
    rewrite E1.
    replace (h + 1 - e * 210000) with (h - e * 210000 + 1) by (unfold e; lia).
    lia.
Qed.

Lemma height_starting_sat_0 : height_starting_sat 0 = 0.
Proof. reflexivity. Qed.

Lemma height_starting_sat_mono : forall a b, a <= b -> height_starting_sat a <= height_starting_sat b.
Proof.
  intros a b H. replace b with (a + (b - a)) by lia.
  generalize (b - a). intros d. induction d as [|d IH] using N.peano_ind.
  - rewrite N.add_0_r. lia.
  - replace (a + N.succ d) with ((a + d) + 1) by lia.
    rewrite height_starting_sat_succ. lia.
Qed.

Lemma height_starting_sat_last : height_starting_sat 6930000 = SAT_SUPPLY.
Proof. reflexivity. Qed.

Lemma height_starting_sat_post : forall h, 6930000 <= h -> height_starting_sat h = SAT_SUPPLY.
Proof.
  intros h H. unfold height_starting_sat, epoch_of_height. rewrite SHI_val.
  rewrite epoch_starting_sat_post, epoch_subsidy_post by lia. lia.
Qed.

(* the cumulative-sum reading: first sat of block h = sum of the subsidies of blocks 0 .. h-1 *)
Definition sum_below (f : N -> N) (b : N) : N :=
  N.peano_rect (fun _ => N) 0 (fun k acc => acc + f k) b.

Lemma sum_below_0 : forall f, sum_below f 0 = 0.
Proof. reflexivity. Qed.

Lemma sum_below_succ : forall f b, sum_below f (b + 1) = sum_below f b + f b.
Proof. intros f b. unfold sum_below. rewrite N.add_1_r, N.peano_rect_succ. reflexivity. Qed.

Lemma height_starting_sat_sum : forall h, height_starting_sat h = sum_below subsidy h.
Proof.
  intros h. induction h as [|h IH] using N.peano_ind; [reflexivity|].
  rewrite <- N.add_1_r, height_starting_sat_succ, sum_below_succ, IH, height_subsidy_spec. reflexivity.
Qed.

(* ---------- (height, offset) <-> sat ---------- *)

Definition sat_of (h o : N) : N := height_starting_sat h + o.

(* every sat below the supply is the o-th sat of exactly the block Sat::height reports *)
Lemma sat_decompose : forall n, n < SAT_SUPPLY ->
  exists h o, sat_height n = Ok h /\ sat_third n = Ok o /\
    h < 6930000 /\ o < height_subsidy h /\ n = sat_of h o /\
    epoch_of_sat n = h / 210000.
Proof.
  intros n Hn.
  pose proof (epoch_of_sat_lt33 n Hn) as He.
  destruct (epoch_of_sat_spec n) as (_ & Hlo & Hhi & _). specialize (Hhi He).
  destruct (table_step _ He) as [Hstep Hpos]. rewrite Hstep in Hhi.
  unfold sat_height, sat_third, sat_epoch_position, epoch_starting_height. rewrite SHI_val.
  set (e := epoch_of_sat n) in *. set (s := epoch_subsidy e) in *. set (S := epoch_starting_sat e) in *.
  assert (Hq : (n - S) / s < 210000) by (apply N.div_lt_upper_bound; lia).
  pose proof (N.div_mod' (n - S) s) as Hdm.
  pose proof (N.mod_lt (n - S) s ltac:(lia)) as Hml.
  set (q := (n - S) / s) in *. set (t := (n - S) mod s) in *.
  change U32_MAX with 4294967295.
  destruct (N.leb_spec (e * 210000) 4294967295) as [_|X]; [|lia].
  cbn [bind].
  destruct (N.eqb_spec s 0) as [X|_]; [lia|].
  destruct (N.ltb_spec 4294967295 q) as [X|_]; [lia|].
  destruct (N.ltb_spec 4294967295 (e * 210000 + q)) as [X|_]; [lia|].
  exists (e * 210000 + q), t.
  assert (Ediv : (e * 210000 + q) / 210000 = e) by lia.
  repeat split; try reflexivity.
  - lia.
  - unfold height_subsidy, epoch_of_height. rewrite SHI_val, Ediv. exact Hml.
  - unfold sat_of, height_starting_sat, epoch_of_height. rewrite SHI_val, Ediv.
    fold s. fold S. replace (e * 210000 + q - e * 210000) with q by lia. nia.
  - symmetry. exact Ediv.
Qed.

(* conversely every (height, offset below the subsidy) is a sat below the supply whose
   height and third are that pair *)
Lemma sat_of_inverse : forall h o, o < height_subsidy h ->
  sat_of h o < SAT_SUPPLY /\ sat_height (sat_of h o) = Ok h /\ sat_third (sat_of h o) = Ok o.
Proof.
  intros h o Ho.
  assert (Hh : h < 6930000) by (apply height_subsidy_pos_iff; lia).
  assert (Hlt : sat_of h o < SAT_SUPPLY).
  { unfold sat_of. pose proof (height_starting_sat_succ h) as A.
    pose proof (height_starting_sat_mono (h + 1) 6930000 ltac:(lia)) as B.
    rewrite height_starting_sat_last in B. lia. }
  split; [exact Hlt|].
  destruct (sat_decompose _ Hlt) as (h' & o' & H1 & H2 & H3 & H4 & H5 & _).
  (* two decompositions of the same sat agree *)
  assert (h' = h /\ o' = o) as [-> ->].
  { unfold sat_of in H5.
    destruct (N.lt_trichotomy h' h) as [L|[L|L]].
    - pose proof (height_starting_sat_succ h') as A.
      pose proof (height_starting_sat_mono (h' + 1) h ltac:(lia)). lia.
    - subst h'. lia.
    - pose proof (height_starting_sat_succ h) as A.
      pose proof (height_starting_sat_mono (h + 1) h' ltac:(lia)). lia. }
  split; assumption.
Qed.

(* strictly increasing in (height, offset) lexicographically: mining order *)
Lemma sat_of_lex_mono : forall h o h' o',
  o < height_subsidy h -> o' < height_subsidy h' ->
  (h < h' \/ (h = h' /\ o < o')) -> sat_of h o < sat_of h' o'.
Proof.
  intros h o h' o' Ho Ho' [L|[-> L]]; unfold sat_of; [|lia].
  pose proof (height_starting_sat_succ h) as A.
  pose proof (height_starting_sat_mono (h + 1) h' ltac:(lia)). lia.
Qed.

Lemma sat_of_injective : forall h o h' o',
  o < height_subsidy h -> o' < height_subsidy h' ->
  sat_of h o = sat_of h' o' -> h = h' /\ o = o'.
Proof.
  intros h o h' o' Ho Ho' E.
  destruct (sat_of_inverse h o Ho) as (_ & A & B).
  destruct (sat_of_inverse h' o' Ho') as (_ & A' & B').
  rewrite E in A, B. rewrite A in A'. rewrite B in B'. inversion A'. inversion B'. split; reflexivity.
Qed.

(* beyond the supply the methods that divide by the subsidy panic *)
Lemma sat_height_beyond : forall n, SAT_SUPPLY <= n -> sat_height n = Panic 1 /\ sat_third n = Panic 4.
Proof.
  intros n H. unfold sat_height, sat_third. rewrite (epoch_of_sat_post n H). split; reflexivity.
Qed.

(* ---------- derived attributes as functions of (height, offset) ---------- *)

Definition rarity_spec (h o : N) : N :=
  if negb (o =? 0) then R_COMMON
  else if h =? 0 then R_MYTHIC
  else if h mod 1260000 =? 0 then R_LEGENDARY
  else if h mod 210000 =? 0 then R_EPIC
  else if h mod 2016 =? 0 then R_RARE
  else R_UNCOMMON.

Lemma rarity_of_degree_spec : forall h o,
  rarity_of_degree (mkDegree (h / 1260000) (h mod 210000) (h mod 2016) o) = rarity_spec h o.
Proof.
  intros h o. unfold rarity_of_degree, rarity_spec, is0. cbn [d_hour d_minute d_second d_third].
  destruct (N.eqb_spec o 0) as [->|Ho]; cbn [negb].
  - rewrite !andb_true_r.
    destruct (N.eqb_spec h 0) as [->|Hh]; [reflexivity|].
    destruct (N.eqb_spec (h mod 1260000) 0) as [A|A].
    + replace (h mod 210000) with 0 by lia. replace (h mod 2016) with 0 by lia.
      cbn [andb]. rewrite N.eqb_refl. rewrite andb_true_r.
      destruct (N.eqb_spec (h / 1260000) 0); [lia|reflexivity].
    + destruct (N.eqb_spec (h mod 210000) 0) as [B|B].
      * destruct (N.eqb_spec (h mod 2016) 0) as [C|C]; [exfalso; lia|].
        cbn [andb]. rewrite !andb_false_r. reflexivity.
      * cbn [andb]. rewrite !andb_false_r. cbn [andb].
        destruct (N.eqb_spec (h mod 2016) 0); reflexivity.
  - rewrite !andb_false_r. reflexivity.
Qed.

Lemma sat_attributes : forall n h o, sat_height n = Ok h -> sat_third n = Ok o ->
  sat_decimal n = Ok (h, o) /\
  sat_degree n = Ok (mkDegree (h / 1260000) (h mod 210000) (h mod 2016) o) /\
  sat_period n = Ok (h / 2016) /\
  sat_rarity n = Ok (rarity_spec h o).
Proof.
  intros n h o Hh Ho. unfold sat_decimal, sat_rarity, sat_degree, sat_period. rewrite Hh, Ho. cbn [bind].
  rewrite SHI_val, DCI_val, CE_val. change (6 * 210000) with 1260000.
  rewrite rarity_of_degree_spec. repeat split; reflexivity.
Qed.

Lemma sat_cycle_spec : forall n h, epoch_of_sat n = h / 210000 -> sat_cycle n = h / 1260000.
Proof. intros n h E. unfold sat_cycle. rewrite E, CE_val. lia. Qed.
