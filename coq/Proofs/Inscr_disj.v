(* No sat twice, mid-block: for every state of the inscription indexer model between two transactions of a block
   (sat index on), no sat occurs twice in the sat ranges of the UTXO table + the ranges still owed to the coinbase
   + the lost ranges of the block.  With it the disjointness hypothesis [Disj] of C06_sat_level_except is discharged
   for every transaction of a valid chain (the states are those of the ghost log [chain_log] of Inscr_c07c). *)
From OrdV Require Import Base.Prelude Generated Index.Inscr Proofs.Inscr_tables Proofs.Inscr_proofs
  Proofs.Inscr_c07 Proofs.Inscr_c07c Proofs.Inscr_c04 Proofs.Inscr_c04off Proofs.Inscr_c03 Proofs.Inscr_sats Proofs.Inscr_satinv
  Proofs.Inscr_c06 Proofs.Inscr_c06b Proofs.Inscr_bridge.
From OrdV Require Index.SatIndex Proofs.SatIndex_proofs Proofs.SatIndex_partition.
From Coq Require Import Permutation ZifyBool ZifyN.

Module S := SatIndex.
Module SQ := SatIndex_proofs.
Module SP := SatIndex_partition.

Notation cnt := SP.cnt.

Definition usatsM (U : list (outpoint * uentry)) : list N := flat_map (fun kv => S.flatten (u_ranges (snd kv))) U.

Lemma usatsM_app : forall a b, usatsM (a ++ b) = usatsM a ++ usatsM b.
Proof. intros. unfold usatsM. apply flat_map_app. Qed.

Lemma usatsM_cons : forall k u r, usatsM ((k, u) :: r) = S.flatten (u_ranges u) ++ usatsM r.
Proof. reflexivity. Qed.

Lemma tset_cnt_le : forall k u U x,
  (cnt (usatsM (tset pair_eqb k u U)) x <= cnt (usatsM U) x + cnt (S.flatten (u_ranges u)) x)%nat.
Proof.
  intros k u U x. induction U as [|[k' v'] r IH]; cbn [tset].
  - rewrite usatsM_cons. cbn [usatsM flat_map]. rewrite SP.cnt_app. lia.
  - destruct (pair_eqb k k').
    + rewrite !usatsM_cons, !SP.cnt_app. lia.
    + rewrite !usatsM_cons, !SP.cnt_app. lia.
Qed.

Lemma tset_cnt_ext : forall k u U extra x,
  u_ranges u = u_ranges (entry_at k U) ++ extra ->
  cnt (usatsM (tset pair_eqb k u U)) x = (cnt (usatsM U) x + cnt (S.flatten extra) x)%nat.
Proof.
  intros k u U extra x. induction U as [|[k' v'] r IH]; intro H; cbn [tset].
  - rewrite usatsM_cons. cbn [usatsM flat_map]. rewrite H. unfold entry_at. cbn [tget empty_entry u_ranges app].
    rewrite SP.cnt_app. lia.
  - unfold entry_at in H. cbn [tget] in H. destruct (pair_eqb k k') eqn:Q.
    + rewrite !usatsM_cons, !SP.cnt_app, H, SQ.flatten_app, SP.cnt_app. lia.
    + rewrite !usatsM_cons, !SP.cnt_app. rewrite IH by exact H. lia.
Qed.

Lemma push_insc_cnt : forall op s off U x, cnt (usatsM (push_insc op s off U)) x = cnt (usatsM U) x.
Proof.
  intros op s off U x. unfold push_insc. rewrite (tset_cnt_ext op _ U [] x).
  - cbn. lia.
  - cbn [u_ranges]. unfold entry_at. rewrite app_nil_r. reflexivity.
Qed.

(* ---- what update_inscription_location leaves alone *)

Record same_sats (b b' : bst) : Prop := {
  ss_keys : NoDup (map fst (s_utxo (b_st b))) -> NoDup (map fst (s_utxo (b_st b')));
  ss_cnt : forall x, cnt (usatsM (s_utxo (b_st b'))) x = cnt (usatsM (s_utxo (b_st b))) x;
  ss_cb : b_cb_ranges b' = b_cb_ranges b;
  ss_lost : b_lost_ranges b' = b_lost_ranges b
}.

Lemma same_sats_refl : forall b, same_sats b b.
Proof. intro b. split; auto. Qed.

Lemma same_sats_trans : forall a b c, same_sats a b -> same_sats b c -> same_sats a c.
Proof. intros a b c [A1 A2 A3 A4] [B1 B2 B3 B4]. split; [auto | intro x; rewrite B2; apply A2 | congruence | congruence]. Qed.

Lemma step_same_sats : forall h rg f sp o b b', update_location h rg f sp o b = Ok b' -> same_sats b b'.
Proof.
  intros h rg f sp o b b' H. destruct (update_utxo_shape _ _ _ _ _ _ _ H) as (op & s & off & U & _).
  assert (AUX : same_aux b b').
  { destruct (f_origin f) as [c fee hid ps re ub vi|seq] eqn:Ho.
    - destruct (update_new_shape _ _ _ _ _ _ _ _ _ _ _ _ _ _ Ho H) as (e & [_ _ _ _ _ _ _ _ _ _ _ A]). exact A.
    - destruct (update_old_shape _ _ _ _ _ _ _ _ Ho H) as (_ & _ & _ & _ & _ & _ & A & _). exact A. }
  destruct AUX as (_ & _ & _ & A4 & A5 & _). split; auto.
  - intro ND. rewrite U. unfold push_insc. apply NoDup_keys_tset. exact ND.
  - intro x. rewrite U. apply push_insc_cnt.
Qed.

Lemma apply_locs_same_sats : forall h rg locs b b', apply_locs h rg locs b = Ok b' -> same_sats b b'.
Proof.
  intros h rg locs. induction locs as [|[[[op off] f] o] r IH]; intros b b' H; cbn [apply_locs] in H.
  - inv H. apply same_sats_refl.
  - dbind H. eapply same_sats_trans; [eapply step_same_sats; eauto | eapply IH; eauto].
Qed.

Lemma apply_lost_same_sats : forall h rg ov l b b', apply_lost h rg ov l b = Ok b' -> same_sats b b'.
Proof.
  intros h rg ov l. induction l as [|f r IH]; intros b b' H; cbn [apply_lost] in H.
  - inv H. apply same_sats_refl.
  - dbind H. dbind H. eapply same_sats_trans; [eapply step_same_sats; eauto | eapply IH; eauto].
Qed.

Lemma index_inscriptions_same_sats : forall cfg h t ents rg b b',
  index_inscriptions cfg h t ents rg b = Ok b' -> same_sats b b'.
Proof.
  intros cfg h t ents rg b b' H. unfold index_inscriptions in H. dbind H. destruct a as [F tiv].
  destruct (tx_is_coinbase t).
  - destruct (assign _ _ _ _ _) as [[locs rest] ov]. dbind H. dbind H. dbind H. inv H.
    pose proof (apply_locs_same_sats _ _ _ _ _ E0) as [A1 A2 A3 A4]. pose proof (apply_lost_same_sats _ _ _ _ _ _ E1) as [B1 B2 B3 B4].
    cbn [set_flot b_st b_cb_ranges b_lost_ranges] in *.
    split; cbn [b_st b_cb_ranges b_lost_ranges]; [auto | intro x; rewrite B2; apply A2 | congruence | congruence].
  - destruct (assign _ _ _ _ _) as [[locs rest] ov]. dbind H. dbind H. dbind H. inv H.
    pose proof (apply_locs_same_sats _ _ _ _ _ E0) as [A1 A2 A3 A4].
    split; cbn [b_st b_cb_ranges b_lost_ranges]; auto.
Qed.

(* ---- inputs, outputs *)

Lemma take_inputs_cnt : forall ins U ents U' x,
  NoDup (map fst U) -> take_inputs ins U = Ok (ents, U') ->
  NoDup (map fst U') /\
  cnt (usatsM U) x = (cnt (S.flatten (concat (map u_ranges ents))) x + cnt (usatsM U') x)%nat.
Proof.
  intros ins. induction ins as [|p r IH]; intros U ents U' x ND H; cbn [take_inputs] in H.
  - inv H. split; auto.
  - destruct (tgP p U) as [u|] eqn:E; [|discriminate]. dbind H. destruct a as [us U2]. inv H.
    destruct (tdel_split p u U ND E) as (a & b & A & B).
    destruct (IH _ _ _ x (NoDup_keys_tdel p U ND) E0) as (N2 & C). split; auto.
    cbn [map concat]. rewrite SQ.flatten_app, SP.cnt_app, <- Nat.add_assoc, <- C, B, A.
    rewrite !usatsM_app, usatsM_cons, !SP.cnt_app. lia.
Qed.

Lemma put_outputs_cnt_le : forall cfg txid outs vout rs U x,
  c_sats cfg = true -> NoDup (map fst U) ->
  NoDup (map fst (put_outputs cfg txid vout outs rs U)) /\
  (cnt (usatsM (put_outputs cfg txid vout outs rs U)) x <= cnt (usatsM U) x + cnt (S.flatten (concat rs)) x)%nat.
Proof.
  intros cfg txid outs. induction outs as [|o r IH]; intros vout rs U x HS ND; cbn [put_outputs].
  - split; auto. lia.
  - rewrite HS. destruct (IH (vout + 1) (tl rs) (tset pair_eqb (txid, vout) (mkU 0 (hd [] rs) []) U) x HS (NoDup_keys_tset _ _ _ ND)) as [A B].
    split; auto. pose proof (tset_cnt_le (txid, vout) (mkU 0 (hd [] rs) []) U x) as C. cbn [u_ranges] in C.
    destruct rs as [|e es]; cbn [hd tl concat] in *.
    + cbn [S.flatten flat_map] in *. rewrite ?SP.cnt_nil in *. lia.
    + rewrite SQ.flatten_app, SP.cnt_app. lia.
Qed.

Lemma split_sats_cnt : forall outs input per_out lft x,
  split_sats outs input = Ok (per_out, lft) ->
  cnt (S.flatten input) x = (cnt (S.flatten (concat per_out)) x + cnt (S.flatten lft) x)%nat.
Proof.
  intros outs input per_out lft x H. destruct (split_sats_eq _ _ _ _ 0 0 H) as (w & A).
  destruct (SQ.split_fifo _ _ _ _ _ _ _ A) as [F _]. rewrite <- F, SP.cnt_app. reflexivity.
Qed.

(* the sats a block state accounts for *)
Definition sigma (b : bst) (x : N) : nat :=
  (cnt (usatsM (s_utxo (b_st b))) x + cnt (S.flatten (b_cb_ranges b)) x + cnt (S.flatten (b_lost_ranges b)) x)%nat.

(* a non-coinbase transaction creates no sat *)
Lemma index_tx_sigma : forall cfg h insc t b b',
  c_sats cfg = true -> NoDup (map fst (s_utxo (b_st b))) ->
  index_tx cfg h insc false t b = Ok b' ->
  NoDup (map fst (s_utxo (b_st b'))) /\ forall x, (sigma b' x <= sigma b x)%nat.
Proof.
  intros cfg h insc t b b' HS ND H. unfold index_tx in H. rewrite HS in H.
  dbind H. destruct a as [ents utxo1]. dbind H. destruct a as [[per_out in_ranges] b1].
  dbind E0. destruct a as [po lft]. inv E0.
  match type of H with context [index_inscriptions _ _ _ _ _ ?B] => set (b2 := B) in * end.
  assert (G : NoDup (map fst (s_utxo (b_st b2))) /\ forall x, (sigma b2 x <= sigma b x)%nat).
  { split.
    - subst b2. cbn. destruct (take_inputs_cnt _ _ _ _ 0 ND E) as [N1 _].
      apply (put_outputs_cnt_le cfg (t_id t) (t_outs t) 0 per_out utxo1 0 HS N1).
    - intro x. subst b2. unfold sigma. cbn [b_st set_st with_utxo s_utxo b_cb_ranges b_lost_ranges].
      destruct (take_inputs_cnt _ _ _ _ x ND E) as [N1 C1].
      destruct (put_outputs_cnt_le cfg (t_id t) (t_outs t) 0 per_out utxo1 x HS N1) as [_ C2].
      pose proof (split_sats_cnt _ _ _ _ x E1) as C3.
      rewrite SQ.flatten_app, SP.cnt_app. lia. }
  destruct G as [G1 G2]. destruct insc.
  - pose proof (index_inscriptions_same_sats _ _ _ _ _ _ _ H) as [A1 A2 A3 A4]. split; auto.
    intro x. unfold sigma. rewrite A2, A3, A4. apply G2.
  - inv H. split; auto.
Qed.

(* ---- the coinbase and the end of the block *)

Lemma index_tx_cb_sigma : forall cfg h insc t b b',
  c_sats cfg = true -> NoDup (map fst (s_utxo (b_st b))) ->
  index_tx cfg h insc true t b = Ok b' ->
  NoDup (map fst (s_utxo (b_st b'))) /\
  forall x, (cnt (usatsM (s_utxo (b_st b'))) x + cnt (S.flatten (b_lost_ranges b')) x <= sigma b x)%nat.
Proof.
  intros cfg h insc t b b' HS ND H. unfold index_tx in H. rewrite HS in H. cbn [bind] in H.
  dbind H. destruct a as [[per_out in_ranges] b1]. dbind E. destruct a as [po lft]. inv E.
  match type of H with context [index_inscriptions _ _ _ _ _ ?B] => set (b2 := B) in * end.
  assert (G : NoDup (map fst (s_utxo (b_st b2))) /\
              forall x, (cnt (usatsM (s_utxo (b_st b2))) x + cnt (S.flatten (b_lost_ranges b2)) x <= sigma b x)%nat).
  { split.
    - subst b2. cbn. apply (put_outputs_cnt_le cfg (t_id t) (t_outs t) 0 per_out _ 0 HS ND).
    - intro x. subst b2. unfold sigma. cbn [b_st set_st with_utxo s_utxo b_cb_ranges b_lost_ranges].
      destruct (put_outputs_cnt_le cfg (t_id t) (t_outs t) 0 per_out (s_utxo (b_st b)) x HS ND) as [_ C2].
      pose proof (split_sats_cnt _ _ _ _ x E0) as C3.
      rewrite SQ.flatten_app, SP.cnt_app. lia. }
  destruct G as [G1 G2]. destruct insc.
  - pose proof (index_inscriptions_same_sats _ _ _ _ _ _ _ H) as [A1 A2 A3 A4]. split; auto.
    intro x. rewrite A2, A4. apply G2.
  - inv H. split; auto.
Qed.

(* first sat of a block of the first epoch *)
Definition SS (h : N) : N := h * (50 * COIN_VALUE).

Definition below (x bound : N) : nat := if x <? bound then 1%nat else 0%nat.

Record NSs (h : N) (st : state) : Prop := {
  ns_keys : NoDup (map fst (s_utxo st));
  ns_cnt : forall x, (cnt (usatsM (s_utxo st)) x <= below x (SS h))%nat
}.

Record NM (h : N) (b : bst) : Prop := {
  nm_keys : NoDup (map fst (s_utxo (b_st b)));
  nm_cnt : forall x, (sigma b x <= below x (SS (h + 1)))%nat
}.

Lemma below_mono : forall x a b, a <= b -> (below x a <= below x b)%nat.
Proof. intros x a b H. unfold below. destruct (N.ltb_spec x a), (N.ltb_spec x b); lia. Qed.

Definition within (s e x : N) : nat := if (s <=? x) && (x <? e) then 1%nat else 0%nat.

Lemma cnt_flat1 : forall s e x, (cnt (S.flatten [(s, e)]) x <= within s e x)%nat.
Proof.
  intros s e x. cbn [S.flatten flat_map]. rewrite app_nil_r. unfold S.flat1, within. cbn [fst snd].
  destruct ((s <=? x) && (x <? e)) eqn:Q.
  - apply NoDup_count_occ. apply SQ.nseq_NoDup.
  - assert (Hn : ~ In x (S.nseq s (N.to_nat (e - s)))) by (rewrite SQ.nseq_In; lia).
    unfold cnt. rewrite (proj1 (count_occ_not_In N.eq_dec _ _) Hn). lia.
Qed.

Lemma block_start_nm : forall cfg h st b0,
  c_sats cfg = true -> NSs h st -> block_start cfg h st = Ok b0 -> NM h b0.
Proof.
  intros cfg h st b0 HS [K C] H. unfold block_start in H. rewrite HS in H. dbind H. rename a into cb. inv H.
  split; cbn [b_st]; auto. intro x. unfold sigma. cbn [b_st b_cb_ranges b_lost_ranges S.flatten flat_map].
  rewrite SP.cnt_nil. specialize (C x).
  destruct (0 <? subsidy h) eqn:Q.
  - dbind E. inv E. unfold starting_sat in E0. destruct (N.ltb_spec h SUBSIDY_HALVING_INTERVAL) as [Hh|Hh]; [|discriminate]. inv E0.
    assert (Hsub : subsidy h = 50 * COIN_VALUE).
    { unfold subsidy. rewrite N.div_small by exact Hh. cbn. reflexivity. }
    pose proof (cnt_flat1 (h * (50 * COIN_VALUE)) (h * (50 * COIN_VALUE) + subsidy h) x) as F.
    change (S.flatten [(h * (50 * COIN_VALUE), h * (50 * COIN_VALUE) + subsidy h)])
      with (S.flat1 (h * (50 * COIN_VALUE), h * (50 * COIN_VALUE) + subsidy h) ++ []) in F.
    rewrite app_nil_r in F. cbn [S.flatten flat_map]. rewrite app_nil_r.
    unfold below, SS, within in *. rewrite Hsub in *.
    destruct (N.ltb_spec x (h * (50 * COIN_VALUE))), (N.ltb_spec x ((h + 1) * (50 * COIN_VALUE)));
      destruct ((h * (50 * COIN_VALUE) <=? x) && (x <? h * (50 * COIN_VALUE) + 50 * COIN_VALUE)) eqn:R; lia.
  - inv E. cbn [S.flatten flat_map]. rewrite SP.cnt_nil.
    pose proof (below_mono x (SS h) (SS (h + 1))) as M. unfold SS in *. lia.
Qed.

Lemma block_end_nss : forall h st b2 lost hl,
  NoDup (map fst (s_utxo (b_st b2))) ->
  (forall x, (cnt (usatsM (s_utxo (b_st b2))) x + cnt (S.flatten (b_lost_ranges b2)) x <= below x (SS (h + 1)))%nat) ->
  NSs (h + 1)
    (mkSt match b_lost_ranges b2 with
          | [] => s_utxo (b_st b2)
          | lr => let e := match tgP null_op (s_utxo (b_st b2)) with Some e => e | None => empty_entry end in
                  tset pair_eqb null_op (mkU (u_value e) (u_ranges e ++ lr) (u_insc e)) (s_utxo (b_st b2))
          end
          (s_entries st) (s_id2seq st) (s_num2seq st) (s_sat2seq st) (s_children st) (s_coll st) (s_latest st)
          hl (s_blessed st) (s_cursed st) (s_unbound st) lost).
Proof.
  intros h st b2 lost hl ND C. split; cbn [s_utxo].
  - destruct (b_lost_ranges b2); auto. apply NoDup_keys_tset. exact ND.
  - intro x. specialize (C x). destruct (b_lost_ranges b2) as [|p l] eqn:LR.
    + cbn [S.flatten flat_map] in C. rewrite SP.cnt_nil in C. lia.
    + cbv zeta. rewrite (tset_cnt_ext null_op _ (s_utxo (b_st b2)) (p :: l) x); [lia|].
      cbn [u_ranges]. unfold entry_at. reflexivity.
Qed.

Lemma NSs_ext : forall h st st', s_utxo st' = s_utxo st -> NSs h st -> NSs h st'.
Proof. intros h st st' E [A B]. split; rewrite E; auto. Qed.

(* ---- the log *)

Lemma index_tx_nm : forall cfg h insc t b b',
  c_sats cfg = true -> NM h b -> index_tx cfg h insc false t b = Ok b' -> NM h b'.
Proof.
  intros cfg h insc t b b' HS [K C] H. destruct (index_tx_sigma cfg h insc t b b' HS K H) as [K' C'].
  split; auto. intro x. specialize (C x). specialize (C' x). lia.
Qed.

Lemma index_txs_nm : forall cfg h insc l b b',
  c_sats cfg = true -> NM h b -> index_txs cfg h insc l b = Ok b' -> NM h b'.
Proof.
  intros cfg h insc l. induction l as [|t r IH]; intros b b' HS HN H; cbn [index_txs] in H.
  - inv H. exact HN.
  - dbind H. eapply IH; [exact HS| |exact H]. eapply index_tx_nm; eauto.
Qed.

Lemma txs_log_nm : forall cfg h insc l b,
  c_sats cfg = true -> NM h b -> forall x, In x (txs_log cfg h insc l b) -> NM h (snd x).
Proof.
  intros cfg h insc l. induction l as [|t r IH]; intros b HS HN x Hx; cbn [txs_log] in Hx; [destruct Hx|].
  destruct Hx as [<-|Hx]; [exact HN|].
  destruct (index_tx cfg h insc false t b) as [b'| |] eqn:E; try destruct Hx.
  eapply (IH b'); eauto. eapply index_tx_nm; eauto.
Qed.

Lemma block_log_nm : forall cfg h blk st,
  c_sats cfg = true -> NSs h st -> forall x, In x (block_log cfg h blk st) -> NM h (snd x).
Proof.
  intros cfg h blk st HS HN x Hx. unfold block_log in Hx.
  destruct (block_start cfg h st) as [b0| |] eqn:E0; try destruct Hx.
  pose proof (block_start_nm _ _ _ _ HS HN E0) as N0.
  apply in_app_or in Hx. destruct Hx as [Hx|Hx].
  - eapply txs_log_nm; eauto.
  - destruct blk as [|t0 r]; [destruct Hx|].
    destruct (index_txs cfg h (c_first cfg <=? h) (tl (t0 :: r)) b0) as [b1| |] eqn:E1; try destruct Hx.
    + subst x. cbn [snd]. eapply index_txs_nm; eauto.
    + destruct H.
Qed.

Lemma index_block_nss : forall cfg h blk st st',
  c_sats cfg = true -> NSs h st -> index_block cfg h blk st = Ok st' -> NSs (h + 1) st'.
Proof.
  intros cfg h blk st st' HS HN H.
  assert (E0 : exists b0, block_start cfg h st = Ok b0 /\
     exists b1, index_txs cfg h (c_first cfg <=? h) (tl blk) b0 = Ok b1 /\
     exists b2, (match blk with [] => Ok b1 | t0 :: _ => index_tx cfg h (c_first cfg <=? h) true t0 b1 end) = Ok b2 /\
       s_utxo st' = match b_lost_ranges b2 with
          | [] => s_utxo (b_st b2)
          | lr => let e := match tgP null_op (s_utxo (b_st b2)) with Some e => e | None => empty_entry end in
                  tset pair_eqb null_op (mkU (u_value e) (u_ranges e ++ lr) (u_insc e)) (s_utxo (b_st b2))
          end).
  { unfold index_block in H. unfold block_start. dbind H. rename a into cb. cbn [bind]. eexists. split; [reflexivity|].
    dbind H. rename a into b1. exists b1. split; [first [exact E0 | reflexivity]|]. dbind H. rename a into b2. exists b2. split; [first [exact E1 | reflexivity]|].
    inv H. reflexivity. }
  destruct E0 as (b0 & B0 & b1 & B1 & b2 & B2 & EU).
  pose proof (block_start_nm _ _ _ _ HS HN B0) as N0.
  pose proof (index_txs_nm _ _ _ _ _ _ HS N0 B1) as [K1 C1].
  assert (G : NoDup (map fst (s_utxo (b_st b2))) /\
     forall x, (cnt (usatsM (s_utxo (b_st b2))) x + cnt (S.flatten (b_lost_ranges b2)) x <= below x (SS (h + 1)))%nat).
  { destruct blk as [|t0 r].
    - inv B2. split; auto. intro x. specialize (C1 x). unfold sigma in C1. lia.
    - destruct (index_tx_cb_sigma _ _ _ _ _ _ HS K1 B2) as [K2 C2]. split; auto.
      intro x. specialize (C1 x). specialize (C2 x). lia. }
  destruct G as [G1 G2].
  eapply NSs_ext; [|exact (block_end_nss h (b_st b2) b2 0 [] G1 G2)]. cbn [s_utxo]. exact EU.
Qed.

Theorem chain_log_nm : forall cfg c h st,
  c_sats cfg = true -> NSs h st ->
  forall x, In x (chain_log cfg h c st) -> exists h', NM h' (snd x).
Proof.
  intros cfg c. induction c as [|blk r IH]; intros h st HS HN x Hx; cbn [chain_log] in Hx; [destruct Hx|].
  apply in_app_or in Hx. destruct Hx as [Hx|Hx].
  - exists h. eapply block_log_nm; eauto.
  - destruct (index_block cfg h blk st) as [st'| |] eqn:E; try destruct Hx.
    eapply (IH (h + 1) st'); eauto. eapply index_block_nss; eauto.
Qed.

Lemma NSs_empty : NSs 0 empty_state.
Proof. split; cbn; [constructor|]. intro x. unfold below. destruct (x <? SS 0); lia. Qed.

(* ---- from "no sat twice" to the disjointness C06 needs *)

Lemma in_flatten_nth : forall rs j q n, nth_error rs j = Some q -> in_range n q -> In n (S.flatten rs).
Proof.
  intros rs j q n Hn [A B]. unfold S.flatten. apply in_flat_map. exists q. split; [eapply nth_error_In; eauto|].
  unfold S.flat1. rewrite SQ.nseq_In. lia.
Qed.

Lemma nodup_disj : forall rs, NoDup (S.flatten rs) -> Disj rs.
Proof.
  intros rs. induction rs as [|r rest IH]; intros ND i j p q n Hi Hj Hp Hq; [destruct i; discriminate|].
  rewrite SQ.flatten_cons in ND. apply NoDup_app_iff in ND. destruct ND as (N1 & N2 & N3).
  destruct i as [|i'], j as [|j']; cbn [nth_error] in Hi, Hj.
  - reflexivity.
  - exfalso. inv Hi. apply (N3 n).
    + destruct Hp as [A B]. unfold S.flat1. rewrite SQ.nseq_In. lia.
    + eapply in_flatten_nth; eauto.
  - exfalso. inv Hj. apply (N3 n).
    + destruct Hq as [A B]. unfold S.flat1. rewrite SQ.nseq_In. lia.
    + eapply in_flatten_nth; eauto.
  - f_equal. eapply IH; eauto.
Qed.

Theorem inputs_disjoint : forall h b ins ents U1,
  NM h b -> take_inputs ins (s_utxo (b_st b)) = Ok (ents, U1) -> Disj (concat (map u_ranges ents)).
Proof.
  intros h b ins ents U1 [K C] H. apply nodup_disj. apply (NoDup_count_occ N.eq_dec). intro x.
  destruct (take_inputs_cnt _ _ _ _ x K H) as [_ Q]. specialize (C x). unfold sigma, below in C.
  fold (cnt (S.flatten (concat (map u_ranges ents))) x). destruct (x <? SS (h + 1)); lia.
Qed.

(* ---- the sat invariant of C03 at every logged state *)

Definition EK (b : bst) : Prop :=
  EntInv (s_entries (b_st b)) (s_utxo (b_st b)) [] /\ KeyU (s_entries (b_st b)) (s_utxo (b_st b)).

(* the logged transaction is a non-coinbase transaction satisfying tx_ok3, or the coinbase *)
Definition TK (t : tx) : Prop := tx_ok3 t \/ tx_cb t.

Section EKLog.
Variable cfg : config.
Hypothesis HS : c_sats cfg = true.

Lemma SI_EK : forall b, SI cfg b -> b_lost_ranges b = [] -> EK b.
Proof. intros b [D E K F C O] L. rewrite L in E. split; auto. Qed.

Lemma txs_log_ek_insc : forall h l b,
  SI cfg b -> b_lost_ranges b = [] -> NullR (s_utxo (b_st b)) (b_lost b) -> Forall tx_ok3 l ->
  forall x, In x (txs_log cfg h true l b) -> EK (snd x) /\ TK (fst x).
Proof.
  intros h l. induction l as [|t r IH]; intros b HI HL HN HF x Hx; cbn [txs_log] in Hx; [destruct Hx|].
  apply Forall_cons_iff in HF. destruct HF as [F1 F2].
  destruct Hx as [<-|Hx]; [split; [apply SI_EK; auto | left; exact F1]|].
  destruct (index_tx cfg h true false t b) as [b'| |] eqn:E; try destruct Hx.
  destruct F1 as (P1 & P2 & P3).
  destruct (index_tx_sat_plain cfg HS h t b b' HI HL HN P1 P2 P3 E) as (I1 & L1 & N1 & _).
  eapply (IH b'); eauto.
Qed.

Lemma txs_log_ek_noinsc : forall h l b L,
  EK b -> NullR (s_utxo (b_st b)) L -> Forall tx_ok3 l ->
  forall x, In x (txs_log cfg h false l b) -> EK (snd x) /\ TK (fst x).
Proof.
  intros h l. induction l as [|t r IH]; intros b L HE HN HF x Hx; cbn [txs_log] in Hx; [destruct Hx|].
  apply Forall_cons_iff in HF. destruct HF as [F1 F2].
  destruct Hx as [<-|Hx]; [split; [exact HE | left; exact F1]|].
  destruct (index_tx cfg h false false t b) as [b'| |] eqn:E; try destruct Hx.
  destruct F1 as (P1 & P2 & P3). destruct HE as [HE HK].
  destruct (index_tx_noinsc_sat cfg HS h false t b b' L HE HK HN (fun _ => P1) P3 E) as (_ & _ & A3 & A4 & A5).
  eapply (IH b' L); eauto. split; auto.
Qed.

Lemma block_log_ek : forall h blk st,
  SIs cfg st -> block_ok3 blk ->
  forall x, In x (block_log cfg h blk st) -> EK (snd x) /\ TK (fst x).
Proof.
  intros h blk st [SD SE SK SO SN] BO x Hx. unfold block_log in Hx.
  destruct (block_start cfg h st) as [b0| |] eqn:E0; try destruct Hx.
  unfold block_start in E0. rewrite HS in E0. dbind E0. rename a into cb. inv E0.
  match type of Hx with context [txs_log _ _ _ _ ?B] => set (b0 := B) in * end.
  assert (HC0 : ranges_size cb = subsidy h).
  { destruct (0 <? subsidy h) eqn:Q.
    - dbind E. inv E. cbn. lia.
    - inv E. cbn. symmetry. destruct (N.ltb_spec 0 (subsidy h)); [discriminate|lia]. }
  assert (HF : Forall tx_ok3 (tl blk)).
  { destruct blk as [|t0 r]; [constructor|]. destruct BO as [_ B3]. exact B3. }
  destruct (c_first cfg <=? h) eqn:INS.
  - assert (I0 : SI cfg b0) by (subst b0; split; cbn; auto; intros f s []).
    assert (L0 : b_lost_ranges b0 = []) by reflexivity.
    assert (N0 : NullR (s_utxo (b_st b0)) (b_lost b0)) by (subst b0; exact SN).
    apply in_app_or in Hx. destruct Hx as [Hx|Hx].
    + eapply txs_log_ek_insc; eauto.
    + destruct blk as [|t0 r]; [destruct Hx|]. destruct BO as [[B1 B2] B3]. cbn [tl] in *.
      destruct (index_txs cfg h true r b0) as [b1| |] eqn:E1; try destruct Hx.
      * subst x. cbn [fst snd]. destruct (index_txs_sat cfg HS h r b0 b1 I0 L0 N0 B3 E1) as (I1 & L1 & _).
        split; [apply SI_EK; auto | right; exact B1].
      * destruct H.
  - assert (E0' : EK b0) by (subst b0; split; cbn; auto).
    assert (N0 : NullR (s_utxo (b_st b0)) (s_lost st)) by (subst b0; exact SN).
    apply in_app_or in Hx. destruct Hx as [Hx|Hx].
    + eapply txs_log_ek_noinsc; eauto.
    + destruct blk as [|t0 r]; [destruct Hx|]. destruct BO as [[B1 B2] B3]. cbn [tl] in *.
      destruct (index_txs cfg h false r b0) as [b1| |] eqn:E1; try destruct Hx.
      * subst x. cbn [fst snd]. destruct E0' as [X Y].
        destruct (index_txs_noinsc_sat cfg HS h r b0 b1 _ X Y N0 B3 E1) as (_ & _ & A3 & A4 & _).
        split; [split; auto | right; exact B1].
      * destruct H.
Qed.

Theorem chain_log_ek : forall c h st,
  SIs cfg st -> Forall block_ok3 c ->
  forall x, In x (chain_log cfg h c st) -> EK (snd x) /\ TK (fst x).
Proof.
  intros c. induction c as [|blk r IH]; intros h st HI BO x Hx; cbn [chain_log] in Hx; [destruct Hx|].
  apply Forall_cons_iff in BO. destruct BO as [B1 B2].
  apply in_app_or in Hx. destruct Hx as [Hx|Hx].
  - eapply block_log_ek; eauto.
  - destruct (index_block cfg h blk st) as [st'| |] eqn:E; try destruct Hx.
    eapply (IH (h + 1) st'); eauto. eapply index_block_sat; eauto.
Qed.
End EKLog.

(* what C06_sat_level_except assumed, for every logged transaction of a chain whose blocks are a coinbase (null
   inputs, non-zero txid) followed by non-coinbase transactions with real inputs and non-zero txids *)
Theorem sat_level_premises : forall cfg c t b,
  c_sats cfg = true -> Forall block_ok3 c ->
  In (t, b) (chain_log cfg 0 c empty_state) -> tx_plain t ->
  EntInv (s_entries (b_st b)) (s_utxo (b_st b)) [] /\ KeyU (s_entries (b_st b)) (s_utxo (b_st b)) /\
  ins_real t /\
  forall ents U1, take_inputs (t_ins t) (s_utxo (b_st b)) = Ok (ents, U1) -> Disj (concat (map u_ranges ents)).
Proof.
  intros cfg c t b HS BO Hin HP.
  destruct (chain_log_ek cfg HS c 0 empty_state (SIs_empty cfg HS) BO (t, b) Hin) as [[E K] T]. cbn [fst snd] in *.
  destruct (chain_log_nm cfg c 0 empty_state HS NSs_empty (t, b) Hin) as (h' & NMb). cbn [snd] in NMb.
  split; [exact E|]. split; [exact K|]. split.
  - destruct T as [(_ & R & _)|CB]; [exact R|]. exfalso.
    pose proof (cb_is_coinbase t CB) as Q. rewrite (plain_not_coinbase t HP) in Q. discriminate.
  - intros ents U1 H. eapply inputs_disjoint; eauto.
Qed.

(* the log misses no transaction of a chain the model indexes *)
Lemma txs_log_complete : forall cfg h insc l b b',
  index_txs cfg h insc l b = Ok b' -> forall t, In t l -> exists bk, In (t, bk) (txs_log cfg h insc l b).
Proof.
  intros cfg h insc l. induction l as [|t0 r IH]; intros b b' H t Ht; [destruct Ht|].
  cbn [index_txs] in H. dbind H. cbn [txs_log]. rewrite E. destruct Ht as [<-|Ht].
  - exists b. left. reflexivity.
  - destruct (IH _ _ H t Ht) as (bk & Hb). exists bk. right. exact Hb.
Qed.

Lemma chain_log_complete : forall cfg c h st st',
  index_chain cfg h c st = Ok st' ->
  forall blk t, In blk c -> In t blk -> exists b, In (t, b) (chain_log cfg h c st).
Proof.
  intros cfg c. induction c as [|blk0 r IH]; intros h st st' H blk t Hb Ht; [destruct Hb|].
  cbn [index_chain] in H. dbind H. cbn [chain_log]. rewrite E. destruct Hb as [<-|Hb].
  - unfold index_block in E. unfold block_log, block_start. dbind E. cbn [bind]. dbind E. rename a1 into b1. dbind E.
    destruct blk0 as [|t0 r0]; [destruct Ht|]. cbn [tl] in *. destruct Ht as [<-|Ht].
    + exists b1. apply in_or_app. left. apply in_or_app. right.
      match goal with Hq : index_txs _ _ _ _ _ = Ok b1 |- _ => rewrite Hq end. left. reflexivity.
    + destruct (txs_log_complete _ _ _ _ _ _ E1 t Ht) as (bk & Hk). exists bk. apply in_or_app. left. apply in_or_app. left. exact Hk.
  - destruct (IH _ _ _ H blk t Hb Ht) as (b & Hk). exists b. apply in_or_app. right. exact Hk.
Qed.
