(* C06: the reinscription flag of index_inscriptions is exactly "some flotsam EARLIER IN THE LIST has the
   same offset"; the curse chain on a clean first envelope. *)
From OrdV Require Import Base.Prelude Generated Index.Inscr Proofs.Inscr_tables Proofs.Inscr_proofs.
From Coq Require Import ZifyBool ZifyN.

Definition f_reinscr (f : flotsam) : bool :=
  match f_origin f with ONew _ _ _ _ re _ _ => re | OOld _ => false end.
Definition f_vindicated (f : flotsam) : bool :=
  match f_origin f with ONew _ _ _ _ _ _ vi => vi | OOld _ => false end.

Definition earlier_at (l : list flotsam) (i : nat) (o : N) : Prop :=
  exists j g, (j < i)%nat /\ nth_error l j = Some g /\ f_offset g = o.

(* inscribed_offsets holds exactly the offsets of the floating inscriptions so far *)
Definition IOk (fl : list flotsam) (io : list (N * (iid * N))) : Prop :=
  forall o, tgN o io <> None <-> exists g, In g fl /\ f_offset g = o.

(* every new inscription so far is flagged iff an earlier list element has its offset *)
Definition RI (fl : list flotsam) : Prop :=
  forall i f, nth_error fl i = Some f -> is_new f = true ->
    (f_reinscr f = true <-> earlier_at fl i (f_offset f)).

Lemma io_bump_keys : forall o id m o', tgN o' (io_bump o id m) <> None <-> o' = o \/ tgN o' m <> None.
Proof.
  intros o id m o'. unfold io_bump.
  destruct (tgN o m) as [[id0 c]|] eqn:E; rewrite tgN_set; destruct (N.eqb_spec o' o) as [->|Hne].
  - split; [intros _; left; reflexivity | discriminate].
  - split; [right; auto | intros [?|?]; [contradiction|auto]].
  - split; [intros _; left; reflexivity | discriminate].
  - split; [right; auto | intros [?|?]; [contradiction|auto]].
Qed.

Lemma IOk_snoc : forall fl io x id, IOk fl io -> IOk (fl ++ [x]) (io_bump (f_offset x) id io).
Proof.
  intros fl io x id H o. unfold IOk in H. rewrite io_bump_keys, H. split.
  - intros [->|(g & G1 & G2)]; [exists x | exists g]; split; auto; apply in_or_app; cbn; auto.
  - intros (g & G1 & G2). apply in_app_or in G1. destruct G1 as [G1|[G1|[]]]; [right; eauto | left; subst; auto].
Qed.

Lemma earlier_at_snoc : forall fl x i o, (i <= length fl)%nat -> earlier_at (fl ++ [x]) i o <-> earlier_at fl i o.
Proof.
  intros fl x i o Hi. unfold earlier_at. split; intros (j & g & J1 & J2 & J3); exists j, g; repeat split; auto.
  - rewrite nth_error_app1 in J2; auto. lia.
  - rewrite nth_error_app1; auto. lia.
Qed.

Lemma RI_snoc_old : forall fl x, RI fl -> is_new x = false -> RI (fl ++ [x]).
Proof.
  intros fl x H Hx i f Hi Hn. destruct (Nat.lt_ge_cases i (length fl)) as [L|L].
  - rewrite nth_error_app1 in Hi by auto. rewrite earlier_at_snoc by lia. auto.
  - rewrite nth_error_app2 in Hi by auto. destruct (i - length fl)%nat as [|k] eqn:K; cbn in Hi.
    + inv Hi. congruence.
    + destruct k; discriminate.
Qed.

Lemma RI_snoc_new : forall fl io x, RI fl -> IOk fl io ->
  f_reinscr x = is_some (tgN (f_offset x) io) -> RI (fl ++ [x]).
Proof.
  intros fl io x H HIO Hx i f Hi Hn. destruct (Nat.lt_ge_cases i (length fl)) as [L|L].
  - rewrite nth_error_app1 in Hi by auto. rewrite earlier_at_snoc by lia. auto.
  - rewrite nth_error_app2 in Hi by auto. destruct (i - length fl)%nat as [|k] eqn:K; cbn in Hi.
    + inv Hi. assert (i = length fl) by lia. subst i. rewrite earlier_at_snoc by lia. rewrite Hx.
      assert (Q : is_some (tgN (f_offset f) io) = true <-> tgN (f_offset f) io <> None).
      { destruct (tgN (f_offset f) io); cbn; split; auto; try discriminate; try congruence. }
      unfold IOk in HIO. rewrite Q, HIO. unfold earlier_at. split.
      * intros (g & G1 & G2). apply In_nth_error in G1. destruct G1 as (j & G1). exists j, g. repeat split; auto.
        apply nth_error_Some. congruence.
      * intros (j & g & J1 & J2 & J3). exists g. split; auto. eapply nth_error_In; eauto.
    + destruct k; discriminate.
Qed.

Lemma olds_ri : forall ents base l acc io fl io',
  RI acc -> IOk acc io -> olds ents base l acc io = Ok (fl, io') -> RI fl /\ IOk fl io'.
Proof.
  intros ents base l. induction l as [|[seq off] r IH]; intros acc io fl io' H1 H2 H; cbn [olds] in H.
  - inv H. auto.
  - destruct (tgN seq ents) as [e|]; [|discriminate]. eapply IH; [| |exact H].
    + apply RI_snoc_old; auto.
    + exact (IOk_snoc acc io (mkF (i_id e) (base + off) (OOld seq)) (i_id e) H2).
Qed.

Lemma news_ri : forall st txid jubilant tov offset iv l a a',
  RI (a_float a) -> IOk (a_float a) (a_io a) ->
  news st txid jubilant tov offset iv l a = Ok a' -> RI (a_float a') /\ IOk (a_float a') (a_io a').
Proof.
  intros st txid jubilant tov offset iv l. induction l as [|v r IH]; intros a a' H1 H2 H; cbn [news] in H.
  - inv H. auto.
  - dbind H. eapply IH; [| |exact H]; cbn [a_float a_io].
    + eapply RI_snoc_new; eauto.
    + match goal with |- IOk (_ ++ [?x]) _ => exact (IOk_snoc _ _ x _ H2) end.
Qed.

Lemma inputs_loop_ri : forall cfg st txid height jubilant tov ins idx ents envs a a',
  RI (a_float a) -> IOk (a_float a) (a_io a) ->
  inputs_loop cfg st txid height jubilant tov ins idx ents envs a = Ok a' ->
  RI (a_float a') /\ IOk (a_float a') (a_io a').
Proof.
  intros cfg st txid height jubilant tov ins. induction ins as [|prev r IH]; intros idx ents envs a a' H1 H2 H; cbn [inputs_loop] in H.
  - inv H. auto.
  - destruct (is_null prev).
    + eapply IH; [| |exact H]; auto.
    + destruct (nth_error ents (N.to_nat idx)) as [u|]; [|discriminate].
      dbind H. destruct a0 as [fl io]. destruct (span_input idx envs) as [mine rest].
      dbind H. destruct (olds_ri _ _ _ _ _ _ _ H1 H2 E) as [R1 R2].
      apply news_ri in E0; cbn [a_float a_io]; auto. destruct E0 as [R3 R4]. eapply IH; eauto.
Qed.

Lemma fix_new_reinscr : forall p fee f, f_reinscr (fix_new p fee f) = f_reinscr f.
Proof. intros. unfold fix_new, f_reinscr. destruct (f_origin f) eqn:E; cbn; rewrite ?E; auto. Qed.

Lemma RI_map_fix : forall p fee l, RI l -> RI (map (fix_new p fee) l).
Proof.
  intros p fee l H i f Hi Hn. rewrite nth_error_map in Hi. destruct (nth_error l i) as [g|] eqn:G; [|discriminate].
  cbn in Hi. inv Hi. destruct (fix_new_props p fee g) as (_ & B & _ & D). rewrite B in Hn.
  rewrite fix_new_reinscr, D, (H i g G Hn). unfold earlier_at. split; intros (j & x & J1 & J2 & J3).
  - exists j, (fix_new p fee x). rewrite nth_error_map, J2. destruct (fix_new_props p fee x) as (_ & _ & _ & D'). rewrite D'. auto.
  - rewrite nth_error_map in J2. destruct (nth_error l j) as [y|] eqn:Y; [|discriminate]. cbn in J2. inv J2.
    destruct (fix_new_props p fee y) as (_ & _ & _ & D'). rewrite D' in *. exists j, y. auto.
Qed.

(* the flag of every new inscription of a transaction, exactly *)
Theorem reinscription_flag_exact : forall cfg st h t ents F tiv,
  floating_of cfg st h t ents = Ok (F, tiv) -> RI F.
Proof.
  intros cfg st h t ents F tiv H. unfold floating_of in H. dbind H. dbind H. inv H.
  apply RI_map_fix. eapply inputs_loop_ri in E; [apply E| |].
  - intros i f Hi. destruct i; discriminate.
  - intro o. cbn. split; [congruence | intros (g & [] & _)].
Qed.

(* ---- the clean first envelope *)

Definition clean (v : envelope) : bool :=
  (v_input v =? 0) && (v_offset v =? 0) && negb (v_ptr_field v) && negb (is_some (v_ptr v)) &&
  negb (v_pushnum v) && negb (v_stutter v) && negb (v_dup v) && negb (v_incomplete v) && negb (v_uneven v).

Lemma clean_first : forall st txid jubilant tov offset iv v a a',
  clean v = true -> iv <> 0 ->
  IOk (a_float a) (a_io a) -> (forall g, In g (a_float a) -> f_offset g <> offset) ->
  news st txid jubilant tov offset iv [v] a = Ok a' ->
  exists f, a_float a' = a_float a ++ [f] /\ is_new f = true /\ f_offset f = offset /\
            f_cursed f = false /\ f_vindicated f = false /\ f_reinscr f = false /\
            (match f_origin f with ONew _ _ _ _ _ ub _ => ub = false | OOld _ => False end).
Proof.
  intros st txid jubilant tov offset iv v a a' Hc Hiv HIO Hno H.
  unfold clean in Hc. repeat (apply andb_true_iff in Hc; destruct Hc as [Hc ?]).
  assert (Hnone : tgN offset (a_io a) = None).
  { destruct (tgN offset (a_io a)) eqn:E; auto. exfalso.
    assert (Q : tgN offset (a_io a) <> None) by congruence. apply HIO in Q. destruct Q as (g & G1 & G2).
    exact (Hno g G1 G2). }
  cbn [news] in H.
  assert (Hcurse : curse_of st v offset (a_io a) = Ok None).
  { unfold curse_of. rewrite Hnone.
    destruct (v_uneven v); [discriminate|]. destruct (v_dup v); [discriminate|].
    destruct (v_incomplete v); [discriminate|]. rewrite Hc. cbn [negb].
    match goal with Q : (v_offset v =? 0) = true |- _ => rewrite Q end. cbn [negb].
    destruct (v_ptr_field v); [discriminate|]. destruct (v_pushnum v); [discriminate|].
    destruct (v_stutter v); [discriminate|]. reflexivity. }
  rewrite Hcurse in H. cbn [bind] in H. destruct (v_ptr v); [discriminate|]. inv H. cbn [a_float].
  eexists. split; [reflexivity|]. cbn. rewrite Hnone. cbn.
  destruct (v_uneven v); [discriminate|]. destruct (N.eqb_spec iv 0); [contradiction|]. repeat split; auto.
Qed.

(* ---- the charm is the flag *)

Lemma charm_bits : forall c re o nl ub vi : bool,
  let charms := set_if vi CHARM_VINDICATED (set_if ub CHARM_UNBOUND (set_if nl CHARM_LOST (set_if o CHARM_BURNED
                 (set_if re CHARM_REINSCRIPTION (set_if c CHARM_CURSED 0))))) in
  has CHARM_REINSCRIPTION charms = re /\ has CHARM_CURSED charms = c /\ has CHARM_VINDICATED charms = vi /\
  has CHARM_UNBOUND charms = ub /\ has CHARM_BURNED charms = o /\ has CHARM_LOST charms = nl.
Proof. intros c re o nl ub vi. destruct c, re, o, nl, ub, vi; vm_compute; repeat split. Qed.

Lemma new_entry_charms : forall h rg f sp o b b' c fee hid ps re ub vi,
  f_origin f = ONew c fee hid ps re ub vi ->
  update_location h rg f sp o b = Ok b' ->
  exists e, tgN (b_next b) (s_entries (b_st b')) = Some e /\ i_id e = f_id f /\
    has CHARM_REINSCRIPTION (i_charms e) = re /\ has CHARM_CURSED (i_charms e) = c /\
    has CHARM_VINDICATED (i_charms e) = vi /\ has CHARM_UNBOUND (i_charms e) = ub /\
    has CHARM_BURNED (i_charms e) = o /\ has CHARM_LOST (i_charms e) = is_null (fst sp) /\
    ((i_number e < 0)%Z <-> c = true).
Proof.
  intros h rg f sp o b b' c fee hid ps re ub vi Ho H.
  unfold update_location in H. rewrite Ho in H.
  dbind H. destruct a as [[number bl] cu]. dbind H. dbind H. destruct a0 as [st1 pseqs].
  apply link_parents_core in E1. destruct E1 as (L1 & _).
  assert (Hn : (number < 0)%Z <-> c = true).
  { destruct c.
    - destruct (b_cursed b <? I32_LIMIT); inv E. split; auto. intros _. lia.
    - destruct (b_blessed b <? I32_LIMIT); inv E. split; [lia|discriminate]. }
  destruct (charm_bits c re o (is_null (fst sp)) ub vi) as (C1 & C2 & C3 & C4 & C5 & C6).
  destruct ub; inv H; cbn [b_st s_entries]; rewrite tgN_set, N.eqb_refl; eexists; (split; [reflexivity|]);
    cbn [i_id i_charms i_number]; repeat split; auto; apply Hn.
Qed.
