(* Exactly which reorganisations the repaired Index::update recovers from. *)
From OrdV Require Import Base.Prelude Index.Sched Proofs.Sched_proofs.
Require Import ZifyBool ZifyN.

(* length of the longest common prefix *)
Fixpoint lcp (a b : list N) : nat :=
  match a, b with
  | x :: a', y :: b' => if N.eqb x y then S (lcp a' b') else O
  | _, _ => O
  end.

Lemma lcp_le_l a : forall b, (lcp a b <= length a)%nat.
Proof. induction a as [|x a IH]; intros [|y b]; cbn [lcp length]; try lia.
  destruct (N.eqb x y); [specialize (IH b)|]; lia. Qed.

Lemma lcp_le_r a : forall b, (lcp a b <= length b)%nat.
Proof. induction a as [|x a IH]; intros [|y b]; cbn [lcp length]; try lia.
  destruct (N.eqb x y); [specialize (IH b)|]; lia. Qed.

Lemma firstn_le_lcp a : forall b k, (k <= lcp a b)%nat -> firstn k a = firstn k b.
Proof.
  induction a as [|x a IH]; intros [|y b] k Hk; cbn [lcp] in Hk.
  - reflexivity.
  - assert (k = 0)%nat as -> by lia. reflexivity.
  - assert (k = 0)%nat as -> by lia. reflexivity.
  - destruct (N.eqb_spec x y) as [->|Hne].
    + destruct k as [|k]; [reflexivity|]. cbn [firstn]. f_equal. apply IH. lia.
    + assert (k = 0)%nat as -> by lia. reflexivity.
Qed.

Lemma firstn_eq_le_lcp a : forall b k, (k <= length a)%nat -> (k <= length b)%nat ->
  firstn k a = firstn k b -> (k <= lcp a b)%nat.
Proof.
  induction a as [|x a IH]; intros [|y b] k Ha Hb H; cbn [length] in *; try lia.
  destruct k as [|k]; [lia|]. cbn [firstn] in H. inversion H; subst.
  cbn [lcp]. rewrite N.eqb_refl.
  assert (k <= lcp a b)%nat; [apply IH; [lia|lia|assumption]|lia].
Qed.

Section Exact.
  Variable p : params.
  Variable idx nodec : list N.
  Let h := len idx.
  Let l := N.of_nat (lcp idx nodec).
  Hypothesis Hl1 : 1 <= l.            (* same genesis *)
  Hypothesis Hlh : l < h.             (* the index holds blocks that the node abandoned *)
  Hypothesis Hlen : h < len nodec.    (* the node offers a block beyond the index *)

  Definition match_at (d : N) : bool :=
    opt_hash_eqb (if d <=? h then hash_at idx (h - d) else tip_hash idx) (hash_at nodec (h - d)).

  Lemma match_at_iff d : 1 <= d -> d <= h -> (match_at d = true <-> h - d + 1 <= l).
  Proof.
    intros Hd Hdh. unfold match_at.
    destruct (N.leb_spec d h) as [_|]; [|lia].
    rewrite hash_at_lt by (unfold h in *; lia).
    pose proof (lcp_le_l idx nodec) as L1. pose proof (lcp_le_r idx nodec) as L2.
    split.
    - destruct (hash_at nodec (h - d)) as [nh|] eqn:Hn; [|discriminate].
      apply hash_at_some in Hn. destruct Hn as [Hnl ->].
      cbn [opt_hash_eqb]. intros E. apply list_N_eqb_spec in E.
      apply firstn_eq_le_lcp in E; unfold h, l, len in *; lia.
    - intros Hle. rewrite hash_at_lt by (unfold h, l, len in *; lia).
      cbn [opt_hash_eqb]. apply list_N_eqb_spec. apply firstn_le_lcp. unfold h, l, len in *. lia.
  Qed.

  Lemma depth_search_exact maxd : forall fuel depth,
    1 <= depth -> depth <= h - l + 1 -> (N.to_nat maxd <= fuel + N.to_nat depth)%nat ->
    depth_search fuel idx nodec h depth maxd =
      if h - l + 1 <? maxd then Recoverable h (h - l + 1) else Unrecoverable.
  Proof.
    induction fuel as [|f IH]; intros depth Hd1 Hd2 Hf; cbn [depth_search].
    - destruct (N.ltb_spec (h - l + 1) maxd); [lia|reflexivity].
    - destruct (N.ltb_spec depth maxd) as [Hlt|Hge].
      + fold (match_at depth).
        destruct (match_at depth) eqn:E.
        * apply match_at_iff in E; [|lia|lia].
          assert (depth = h - l + 1) as -> by lia.
          destruct (N.ltb_spec (h - l + 1) maxd); [reflexivity|lia].
        * assert (depth <> h - l + 1).
          { intros ->. assert (match_at (h - l + 1) = true); [|congruence].
            apply match_at_iff; lia. }
          apply IH; lia.
      + destruct (N.ltb_spec (h - l + 1) maxd); [lia|reflexivity].
  Qed.

  Lemma detect_exact :
    detect p idx nodec h =
      let maxd := (maxsp p - 1) * interval p + h mod interval p in
      if h - l + 1 <? maxd then Recoverable h (h - l + 1) else Unrecoverable.
  Proof.
    unfold detect.
    destruct (N.eqb_spec h 0) as [|_]; [lia|].
    rewrite hash_at_lt by (unfold h; lia).
    rewrite hash_at_lt by lia.
    cbn [opt_hash_eqb].
    destruct (list_N_eqb _ _) eqn:E.
    - exfalso. apply list_N_eqb_spec in E.
      apply firstn_eq_le_lcp in E; unfold h, l, len in *; try lia.
    - cbv zeta. apply depth_search_exact; lia.
  Qed.
End Exact.

(* For a reachable store whose indexed blocks fork from the node's longer best
   chain after l >= 1 common blocks, the repaired update returns Ok (with exactly
   the node's chain indexed) if and only if the fork is within the depth bound of
   detect_reorg AND the oldest retained savepoint holds at most the l common
   blocks; in every other case it reports Unrecoverable. *)
Theorem update_fixed_recovers_iff p nd st fuel o st' flag tr :
  params_ok p -> fixed p = true -> Inv st -> (2 <= fuel)%nat ->
  let b := blocks (cur st) in
  let l := N.of_nat (lcp b (chain nd)) in
  1 <= l -> l < len b -> len b < len (chain nd) ->
  update fuel p nd st [] = (o, st', flag, tr) ->
  let recoverable :=
    (len b - l + 1 <? (maxsp p - 1) * interval p + len b mod interval p) &&
    match sps st with
    | [] => false
    | (_, snap) :: _ => len (blocks snap) <=? l
    end in
  (recoverable = true -> o = UOk /\ blocks (cur st') = chain nd) /\
  (recoverable = false -> o = UUnrecoverable /\ st' = st /\ flag = true).
Proof.
  intros Hp Hf HI Hfuel b l Hl1 Hlh Hlen H recoverable.
  pose proof (detect_exact p b (chain nd) Hl1 Hlh Hlen) as De. cbv zeta in De. fold l in De.
  destruct fuel as [|fuel]; [lia|].
  rewrite update_S in H.
  destruct (pass_cases' p nd st HI) as [[E Hle]|[(r & Hr & Hlt & Hd & E)|(st1 & t1 & E & Hpre & _)]].
  - fold b in Hle. lia.
  - rewrite E in H. fold b in Hd. rewrite De in Hd.
    unfold recoverable.
    destruct (N.ltb_spec (len b - l + 1) ((maxsp p - 1) * interval p + len b mod interval p)) as [Hin|Hout].
    + subst r. cbn [andb].
      unfold handle_reorg in H. rewrite Hf in H. cbn [andb] in H.
      destruct (sps st) as [|[id snap] rest] eqn:Es.
      * inversion H; subst. split; [discriminate|]. intros _. repeat split; reflexivity.
      * replace (len b - (len b - l + 1) + 1) with l in H by lia.
        destruct (N.ltb_spec l (len (blocks snap))) as [Hpast|Hfit].
        -- inversion H; subst. destruct (N.leb_spec (len (blocks snap)) l); [lia|].
           split; [discriminate|]. intros _. repeat split; reflexivity.
        -- destruct (N.leb_spec (len (blocks snap)) l); [|lia].
           split; [|discriminate]. intros _.
           set (st2 := mkS (mkDb (blocks snap) (last_sp snap) (commits snap + 1) (wtx_starts snap))
                           [(id, snap)] (next_id st)) in H.
           assert (HI2: Inv st2).
           { unfold Inv. cbn. constructor; [apply prefix_refl|constructor]. }
           assert (Hp2: prefix (blocks (cur st2)) (chain nd)).
           { cbn [st2 cur blocks].
             unfold Inv in HI. rewrite Es in HI. inversion HI as [|? ? Hsnap _]; subst. cbn [snd] in Hsnap.
             rewrite (prefix_firstn _ _ Hsnap). fold b.
             rewrite (firstn_le_lcp b (chain nd)) by (unfold l, len in *; lia).
             apply firstn_prefix. }
           eapply resume_after_crash_tr; try eassumption. lia.
    + subst r. cbn [andb]. inversion H; subst.
      split; [discriminate|]. intros _. repeat split; reflexivity.
  - exfalso. fold b in Hpre.
    assert (length b <= lcp b (chain nd))%nat.
    { apply firstn_eq_le_lcp; [lia|apply prefix_length; assumption|].
      rewrite firstn_all. symmetry. rewrite <- (prefix_firstn _ _ Hpre). reflexivity. }
    unfold l, len in *. lia.
Qed.
