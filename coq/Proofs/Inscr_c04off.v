(* C04, offsets: every (sequence number, offset) pair stored with a real output has offset < value. *)
From OrdV Require Import Base.Prelude Generated Index.Inscr Proofs.Inscr_tables Proofs.Inscr_proofs
  Proofs.Inscr_c07 Proofs.Inscr_c04 Proofs.Inscr_c03 Proofs.Inscr_sats.
From Coq Require Import Permutation Sorting.Sorted ZifyBool ZifyN.

Section Off.
Variable cfg : config.

Definition entry_ok (u : uentry) : Prop := Forall (fun so => snd so < total_value cfg u) (u_insc u).
Definition Off (U : list (outpoint * uentry)) : Prop :=
  forall op u, In (op, u) U -> fst op <> 0 -> entry_ok u.

Lemma In_tset : forall {V} k (v : V) U x, In x (tset pair_eqb k v U) -> x = (k, v) \/ In x U.
Proof.
  intros V k v U. induction U as [|[k' v'] r IH]; intros x H; cbn [tset] in H.
  - destruct H as [H|[]]; auto.
  - destruct (pair_eqb k k'); destruct H as [H|H]; cbn; auto. destruct (IH x H); auto.
Qed.

Lemma Off_tdel : forall k U, Off U -> Off (tdel pair_eqb k U).
Proof. intros k U H op u Hin. unfold tdel in Hin. apply filter_In in Hin. destruct Hin. eapply H; eauto. Qed.

Lemma take_inputs_off : forall ins U ents U', Off U -> take_inputs ins U = Ok (ents, U') -> Off U'.
Proof.
  intros ins. induction ins as [|p r IH]; intros U ents U' HO H; cbn [take_inputs] in H.
  - inv H. auto.
  - destruct (tgP p U); [|discriminate]. dbind H. destruct a as [us U2]. inv H. eapply IH; [|exact E]. apply Off_tdel. auto.
Qed.

Lemma put_outputs_off : forall txid outs vout rs U, Off U -> Off (put_outputs cfg txid vout outs rs U).
Proof.
  intros txid outs. induction outs as [|o r IH]; intros vout rs U HO; cbn [put_outputs]; auto.
  apply IH. intros op u Hin Hne. apply In_tset in Hin. destruct Hin as [Hin|Hin]; [|eapply HO; eauto].
  inv Hin. unfold entry_ok. destruct (c_sats cfg); constructor.
Qed.

Lemma push_insc_off : forall op s off U,
  Off U -> (fst op = 0 \/ exists u, tgP op U = Some u /\ off < total_value cfg u) -> Off (push_insc op s off U).
Proof.
  intros op s off U HO Hc op' u' Hin Hne. unfold push_insc in Hin. apply In_tset in Hin. destruct Hin as [Hin|Hin]; [|eapply HO; eauto].
  inv Hin. destruct Hc as [Hc|(u & Hu & Hlt)]; [contradiction|]. rewrite Hu. unfold entry_ok. cbn [u_insc].
  apply Forall_app. split.
  - assert (Hold : entry_ok u).
    { apply (HO op u); auto. eapply tget_In; [exact pair_eqb_eq | exact Hu]. }
    unfold entry_ok, total_value in *. cbn [u_value u_ranges]. exact Hold.
  - constructor; [|constructor]. unfold total_value in *. cbn [snd u_value u_ranges]. exact Hlt.
Qed.

(* the entries inserted for the outputs of the transaction are still there with their value *)
Definition OutsOk (txid : N) (outs : list txout) (U : list (outpoint * uentry)) : Prop :=
  forall k o, nth_error outs k = Some o -> exists u, tgP (txid, N.of_nat k) U = Some u /\ total_value cfg u = o_value o.

Lemma push_insc_lookup : forall op s off U k u,
  tgP k U = Some u -> exists u', tgP k (push_insc op s off U) = Some u' /\ total_value cfg u' = total_value cfg u.
Proof.
  intros op s off U k u H. unfold push_insc. rewrite tgP_set. destruct (pair_eqb k op) eqn:E.
  - apply pair_eqb_eq in E. subst. rewrite H. eexists. split; [reflexivity|]. reflexivity.
  - eauto.
Qed.

Lemma OutsOk_push : forall txid outs op s off U, OutsOk txid outs U -> OutsOk txid outs (push_insc op s off U).
Proof.
  intros txid outs op s off U H k o Hk. destruct (H k o Hk) as (u & A & B).
  destruct (push_insc_lookup op s off U _ _ A) as (u' & A' & B'). exists u'. split; auto. congruence.
Qed.

Lemma put_outputs_other : forall txid outs vout rs U v, v < vout ->
  tgP (txid, v) (put_outputs cfg txid vout outs rs U) = tgP (txid, v) U.
Proof.
  intros txid outs. induction outs as [|o r IH]; intros vout rs U v Hv; cbn [put_outputs]; auto.
  rewrite IH by lia. rewrite tgP_set. rewrite pair_eqb_false; auto. intro Hc. inv Hc. lia.
Qed.

Lemma put_outputs_lookup : forall txid outs vout rs U k o,
  nth_error outs k = Some o ->
  tgP (txid, vout + N.of_nat k) (put_outputs cfg txid vout outs rs U) =
    Some (if c_sats cfg then mkU 0 (nth k rs []) [] else mkU (o_value o) [] []).
Proof.
  intros txid outs. induction outs as [|o0 r IH]; intros vout rs U k o Hk; [destruct k; discriminate|].
  cbn [put_outputs]. destruct k as [|k'].
  - cbn in Hk. inv Hk. rewrite N.add_0_r. rewrite put_outputs_other by lia. rewrite tgP_set, pair_eqb_refl.
    destruct rs; reflexivity.
  - cbn [nth_error] in Hk. replace (vout + N.of_nat (S k')) with (vout + 1 + N.of_nat k') by lia.
    rewrite (IH _ _ _ _ _ Hk). destruct rs; cbn [tl nth]; [destruct k'|]; reflexivity.
Qed.
End Off.

Definition target_ok (cfg : config) (U : list (outpoint * uentry)) (sp : outpoint * N) : Prop :=
  fst (fst sp) = 0 \/ exists u, tgP (fst sp) U = Some u /\ snd sp < total_value cfg u.

Lemma step_off : forall cfg h rg f sp o b b',
  Off cfg (s_utxo (b_st b)) -> target_ok cfg (s_utxo (b_st b)) sp ->
  update_location h rg f sp o b = Ok b' -> Off cfg (s_utxo (b_st b')).
Proof.
  intros cfg h rg f sp o b b' HO HT H.
  destruct (update_utxo_shape _ _ _ _ _ _ _ H) as (op & s & off & U & Hc). rewrite U. apply push_insc_off; auto.
  destruct Hc as [(seq & _ & _ & _ & Q)|(_ & _ & _ & [Q|Q])].
  - rewrite <- Q in HT. exact HT.
  - rewrite <- Q in HT. exact HT.
  - subst op. left. reflexivity.
Qed.

Lemma step_outsok : forall cfg h rg f sp o b b' txid outs,
  OutsOk cfg txid outs (s_utxo (b_st b)) -> update_location h rg f sp o b = Ok b' ->
  OutsOk cfg txid outs (s_utxo (b_st b')).
Proof.
  intros cfg h rg f sp o b b' txid outs HK H.
  destruct (update_utxo_shape _ _ _ _ _ _ _ H) as (op & s & off & U & _). rewrite U. apply OutsOk_push. auto.
Qed.

Lemma apply_locs_off : forall cfg h rg txid outs locs b b',
  Off cfg (s_utxo (b_st b)) -> OutsOk cfg txid outs (s_utxo (b_st b)) ->
  Forall (located txid 0 0 outs) locs ->
  apply_locs h rg locs b = Ok b' -> Off cfg (s_utxo (b_st b')).
Proof.
  intros cfg h rg txid outs locs. induction locs as [|[[[op off] f] o] r IH]; intros b b' HO HK HL H; cbn [apply_locs] in H.
  - inv H. auto.
  - dbind H. apply Forall_cons_iff in HL. destruct HL as [HL1 HL2].
    eapply IH; [| |exact HL2|exact H].
    + eapply step_off; eauto. destruct HL1 as (k & o' & K1 & K2 & K3 & K4 & K5). cbn [fst snd loc_flot] in *.
      right. destruct (HK k o' K1) as (u & U1 & U2). exists u. rewrite K2, N.add_0_l. split; auto.
      cbn [fst snd]. rewrite K4, U2. unfold out_start in *. lia.
    + eapply step_outsok; eauto.
Qed.

Lemma apply_lost_off : forall cfg h rg ov l b b',
  Off cfg (s_utxo (b_st b)) -> apply_lost h rg ov l b = Ok b' -> Off cfg (s_utxo (b_st b')).
Proof.
  intros cfg h rg ov l. induction l as [|f r IH]; intros b b' HO H; cbn [apply_lost] in H.
  - inv H. auto.
  - dbind H. dbind H. eapply IH; [|exact H]. eapply step_off; eauto. left. reflexivity.
Qed.

Lemma index_inscriptions_off : forall cfg h t ents rg b b',
  Off cfg (s_utxo (b_st b)) -> OutsOk cfg (t_id t) (t_outs t) (s_utxo (b_st b)) ->
  index_inscriptions cfg h t ents rg b = Ok b' -> Off cfg (s_utxo (b_st b')).
Proof.
  intros cfg h t ents rg b b' HO HK H. unfold index_inscriptions in H. dbind H. destruct a as [F tiv].
  destruct (tx_is_coinbase t).
  - destruct (assign (t_id t) 0 0 (t_outs t) (sort_by f_offset (F ++ b_flot b))) as [[locs rest] ov] eqn:EA.
    assert (HL : Forall (located (t_id t) 0 0 (t_outs t)) locs).
    { eapply (assign_spec _ _ _ _ _ _ _ _ (sort_by_sorted f_offset (F ++ b_flot b))); [|exact EA].
      apply Forall_forall. intros. lia. }
    dbind H. rename a into b1. dbind H. dbind H. inv H. cbn [b_st].
    eapply apply_lost_off; [|exact E1]. eapply apply_locs_off; [| |exact HL|exact E0]; auto.
  - destruct (assign (t_id t) 0 0 (t_outs t) (sort_by f_offset F)) as [[locs rest] ov] eqn:EA.
    assert (HL : Forall (located (t_id t) 0 0 (t_outs t)) locs).
    { eapply (assign_spec _ _ _ _ _ _ _ _ (sort_by_sorted f_offset F)); [|exact EA].
      apply Forall_forall. intros. lia. }
    dbind H. rename a into b1. dbind H. dbind H. inv H. cbn [b_st].
    eapply apply_locs_off; [| |exact HL|exact E0]; auto.
Qed.

Lemma nth_error_nth_d : forall {A} (l : list A) k d x, nth_error l k = Some x -> nth k l d = x.
Proof. intros A l. induction l; intros [|k] d x H; cbn in *; try discriminate; [inv H; auto | eauto]. Qed.

Lemma index_tx_off : forall cfg h insc (first : bool) t b b',
  Off cfg (s_utxo (b_st b)) -> index_tx cfg h insc first t b = Ok b' -> Off cfg (s_utxo (b_st b')).
Proof.
  intros cfg h insc first t b b' HO H. unfold index_tx in H.
  dbind H. destruct a as [ents utxo1]. dbind H. destruct a as [[per_out in_ranges] b1].
  assert (O1 : Off cfg utxo1).
  { destruct first; [inv E; auto | eapply take_inputs_off; eauto]. }
  assert (HK : OutsOk cfg (t_id t) (t_outs t) (put_outputs cfg (t_id t) 0 (t_outs t) per_out utxo1)).
  { intros k o Hk. rewrite <- (N.add_0_l (N.of_nat k)). rewrite (put_outputs_lookup cfg _ _ _ _ _ _ _ Hk).
    eexists. split; [reflexivity|]. unfold total_value. destruct (c_sats cfg) eqn:S; cbn [u_value u_ranges]; auto.
    dbind E0. destruct a as [po lft]. assert (po = per_out) by (destruct first; inv E0; reflexivity). subst po.
    destruct (split_sats_spec _ _ _ _ E1) as [A _]. destruct (A k o Hk) as (m & M1 & M2 & _).
    rewrite (nth_error_nth_d _ _ [] _ M1). exact M2. }
  match type of H with (if insc then index_inscriptions _ _ _ _ _ ?B else _) = _ => set (b2 := B) in * end.
  assert (O2 : Off cfg (s_utxo (b_st b2))).
  { subst b2. unfold set_st, with_utxo. cbn [b_st s_utxo]. apply put_outputs_off. exact O1. }
  destruct insc.
  - eapply index_inscriptions_off; [exact O2| |exact H]. subst b2. unfold set_st, with_utxo. cbn [b_st s_utxo]. exact HK.
  - inv H. exact O2.
Qed.

Lemma index_txs_off : forall cfg h insc l b b',
  Off cfg (s_utxo (b_st b)) -> index_txs cfg h insc l b = Ok b' -> Off cfg (s_utxo (b_st b')).
Proof.
  intros cfg h insc l. induction l as [|t r IH]; intros b b' HO H; cbn [index_txs] in H.
  - inv H. auto.
  - dbind H. eapply IH; [|exact H]. eapply index_tx_off; eauto.
Qed.

Lemma index_block_off : forall cfg h blk st st', Off cfg (s_utxo st) -> index_block cfg h blk st = Ok st' -> Off cfg (s_utxo st').
Proof.
  intros cfg h blk st st' HO H. unfold index_block in H. dbind H. dbind H. dbind H. inv H. cbn [s_utxo].
  assert (O1 : Off cfg (s_utxo (b_st a0))) by (eapply index_txs_off; [|exact E0]; exact HO).
  assert (O2 : Off cfg (s_utxo (b_st a1))).
  { destruct blk as [|t0 r]; [inv E1; exact O1 | eapply index_tx_off; eauto]. }
  destruct (b_lost_ranges a1); auto.
  intros op u Hin Hne. apply In_tset in Hin. destruct Hin as [Hin|Hin]; [|eapply O2; eauto]. inv Hin. cbn in Hne. congruence.
Qed.

Theorem offsets_invariant : forall cfg c h st st',
  Off cfg (s_utxo st) -> index_chain cfg h c st = Ok st' -> Off cfg (s_utxo st').
Proof.
  intros cfg c. induction c as [|blk r IH]; intros h st st' HO H; cbn [index_chain] in H.
  - inv H. auto.
  - dbind H. eapply IH; [|exact H]. eapply index_block_off; eauto.
Qed.
