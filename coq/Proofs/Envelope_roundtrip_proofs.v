(* Lemmas about Codec/Envelope.v (C27), part 3: parse_payload on the pushes of a built
   inscription, and the builder -> parser round trip. *)
From OrdV Require Import Base.Prelude Generated Codec.EnvScript Codec.Envelope
  Proofs.Envelope_proofs Proofs.Envelope_build_proofs.
Require Import ZifyBool ZifyN.

(* chunked fields holding an empty value are not written at all (zero chunks) *)
Definition norm (o : option bytes) : option bytes :=
  match o with Some [] => None | x => x end.

(* duplicate_field as the parser computes it on a built envelope: some key carries more than
   one value, i.e. more than one parent, or metadata / properties spanning several chunks *)
Definition dup_of (i : inscription) : bool :=
  orb (1 <? length (i_parents i))%nat
      (orb (1 <? length (chunks_opt (i_metadata i)))%nat (1 <? length (chunks_opt (i_properties i)))%nat).

Definition parsed_of (i : inscription) : inscription :=
  mk_insc (i_body i) (i_content_encoding i) (i_content_type i) (i_delegate i) (dup_of i) false
          (norm (i_metadata i)) (i_metaprotocol i) (i_parents i) (i_pointer i) (norm (i_properties i))
          (i_property_encoding i) (i_rune i) false.

Ltac closed_beq :=
  repeat match goal with
  | |- context [bytes_eqb ?a ?b] =>
    let v := eval vm_compute in (bytes_eqb a b) in
    match v with
    | true => change (bytes_eqb a b) with true
    | false => change (bytes_eqb a b) with false
    end
  end.

Ltac chase :=
  repeat match goal with
  | H : forall k, fget k ?m = _ |- context [fget _ ?m] => rewrite H
  end; closed_beq; cbv iota.

Lemma hd_error_opt_list o : hd_error (opt_list o) = o.
Proof. destruct o; reflexivity. Qed.

Lemma length_opt_list o : (length (opt_list o) <= 1)%nat.
Proof. destruct o; cbn [opt_list length]; lia. Qed.

Lemma norm_chunks o :
  (if is_nil (chunks_opt o) then None else Some (concat (chunks_opt o))) = norm o.
Proof.
  destruct o as [v|]; [|reflexivity]. cbn [chunks_opt norm].
  destruct v as [|x v]; [reflexivity|].
  destruct (chunks CHUNK (x :: v)) as [|c cs] eqn:E.
  - apply chunks_nil_iff in E. discriminate.
  - cbn [is_nil]. rewrite <- E. rewrite concat_chunks by apply chunk_pos. reflexivity.
Qed.

Lemma insc_pairs_keys i : Forall (fun kv => fst kv <> []) (insc_pairs i).
Proof.
  unfold insc_pairs. rewrite !Forall_app. unfold seg.
  repeat split; apply Forall_forall; intros kv Hin; apply in_map_iff in Hin;
    destruct Hin as [v [<- _]]; cbn [fst]; discriminate.
Qed.

Section Fields.
  Variable i : inscription.
  Let P := insc_pairs i.

  Lemma vals_P k : vals k P =
    (if bytes_eqb k [TAG_CONTENT_TYPE] then opt_list (i_content_type i) else []) ++
    (if bytes_eqb k [TAG_CONTENT_ENCODING] then opt_list (i_content_encoding i) else []) ++
    (if bytes_eqb k [TAG_METAPROTOCOL] then opt_list (i_metaprotocol i) else []) ++
    (if bytes_eqb k [TAG_PARENT] then i_parents i else []) ++
    (if bytes_eqb k [TAG_DELEGATE] then opt_list (i_delegate i) else []) ++
    (if bytes_eqb k [TAG_POINTER] then opt_list (i_pointer i) else []) ++
    (if bytes_eqb k [TAG_METADATA] then chunks_opt (i_metadata i) else []) ++
    (if bytes_eqb k [TAG_RUNE] then opt_list (i_rune i) else []) ++
    (if bytes_eqb k [TAG_PROPERTIES] then chunks_opt (i_properties i) else []) ++
    (if bytes_eqb k [TAG_PROPERTY_ENCODING] then opt_list (i_property_encoding i) else []).
  Proof. unfold P, insc_pairs. rewrite !vals_app, !vals_seg. reflexivity. Qed.

  Ltac val_tac := rewrite vals_P; closed_beq; cbv iota; cbn [app]; rewrite ?app_nil_r; reflexivity.

  Lemma V_ct : vals [TAG_CONTENT_TYPE] P = opt_list (i_content_type i). Proof. val_tac. Qed.
  Lemma V_ce : vals [TAG_CONTENT_ENCODING] P = opt_list (i_content_encoding i). Proof. val_tac. Qed.
  Lemma V_mp : vals [TAG_METAPROTOCOL] P = opt_list (i_metaprotocol i). Proof. val_tac. Qed.
  Lemma V_pa : vals [TAG_PARENT] P = i_parents i. Proof. val_tac. Qed.
  Lemma V_dg : vals [TAG_DELEGATE] P = opt_list (i_delegate i). Proof. val_tac. Qed.
  Lemma V_pt : vals [TAG_POINTER] P = opt_list (i_pointer i). Proof. val_tac. Qed.
  Lemma V_md : vals [TAG_METADATA] P = chunks_opt (i_metadata i). Proof. val_tac. Qed.
  Lemma V_rn : vals [TAG_RUNE] P = opt_list (i_rune i). Proof. val_tac. Qed.
  Lemma V_pr : vals [TAG_PROPERTIES] P = chunks_opt (i_properties i). Proof. val_tac. Qed.
  Lemma V_pe : vals [TAG_PROPERTY_ENCODING] P = opt_list (i_property_encoding i). Proof. val_tac. Qed.

  (* which keys can carry more than one value *)
  Lemma dup_P : (exists k, (1 < length (vals k P))%nat) <-> dup_of i = true.
  Proof.
    unfold dup_of. split.
    - intros [k Hl]. rewrite vals_P in Hl.
      repeat match type of Hl with
      | context [bytes_eqb k ?t] =>
        let B := fresh "B" in
        destruct (bytes_eqb k t) eqn:B;
        [apply bytes_eqb_eq in B; subst k;
         repeat match type of Hl with
         | context [bytes_eqb ?a ?b] =>
           let v := eval vm_compute in (bytes_eqb a b) in
           match v with
           | true => change (bytes_eqb a b) with true in Hl
           | false => change (bytes_eqb a b) with false in Hl
           end
         end|]
      end; cbv iota in Hl; cbn [app] in Hl; rewrite ?app_nil_r in Hl;
      try (exfalso; match type of Hl with
                    | context [opt_list ?o] => pose proof (length_opt_list o); lia
                    | _ => cbn [length] in Hl; lia
                    end).
      + apply Nat.ltb_lt in Hl. rewrite Hl. reflexivity.
      + apply Nat.ltb_lt in Hl. rewrite Hl. rewrite !orb_true_r. reflexivity.
      + apply Nat.ltb_lt in Hl. rewrite Hl. rewrite !orb_true_r. reflexivity.
    - intros H. apply orb_true_iff in H. destruct H as [H|H]; [|apply orb_true_iff in H; destruct H as [H|H]];
        apply Nat.ltb_lt in H.
      + exists [TAG_PARENT]. rewrite V_pa. exact H.
      + exists [TAG_METADATA]. rewrite V_md. exact H.
      + exists [TAG_PROPERTIES]. rewrite V_pr. exact H.
  Qed.

  Lemma parse_fields :
    parse_payload (flat P ++ body_payload (i_body i)) = parsed_of i.
  Proof.
    destruct tag_chunked_vals as [C1 [C2 [C3 [C4 [C5 [C6 [C7 [C8 C9]]]]]]]].
    unfold parse_payload.
    rewrite split_body_flat by apply insc_pairs_keys.
    rewrite split_body_payload. cbn [fst snd]. rewrite app_nil_r, pairs_of_flat.
    assert (G0 : forall k, fget k (build_fields P) = nonempty (vals k P)) by (intros; apply fget_build).
    (* the ten takes, in the order of the code *)
    destruct (take TAG_CONTENT_ENCODING (build_fields P)) as [x1 m1] eqn:E1.
    assert (F1 : fget [TAG_CONTENT_ENCODING] (build_fields P) = nonempty (vals [TAG_CONTENT_ENCODING] P)) by (chase; reflexivity).
    destruct (take_single_ok _ _ _ _ _ C2 E1 F1) as [X1 G1]; [rewrite V_ce; apply length_opt_list|]. clear F1.
    destruct (take TAG_CONTENT_TYPE m1) as [x2 m2] eqn:E2.
    assert (F2 : fget [TAG_CONTENT_TYPE] m1 = nonempty (vals [TAG_CONTENT_TYPE] P)) by (chase; reflexivity).
    destruct (take_single_ok _ _ _ _ _ C1 E2 F2) as [X2 G2]; [rewrite V_ct; apply length_opt_list|]. clear F2.
    destruct (take TAG_DELEGATE m2) as [x3 m3] eqn:E3.
    assert (F3 : fget [TAG_DELEGATE] m2 = nonempty (vals [TAG_DELEGATE] P)) by (chase; reflexivity).
    destruct (take_single_ok _ _ _ _ _ C4 E3 F3) as [X3 G3]; [rewrite V_dg; apply length_opt_list|]. clear F3.
    destruct (take TAG_METADATA m3) as [x4 m4] eqn:E4.
    assert (F4 : fget [TAG_METADATA] m3 = nonempty (vals [TAG_METADATA] P)) by (chase; reflexivity).
    destruct (take_chunked_ok _ _ _ _ _ C6 E4 F4) as [X4 G4]. clear F4.
    destruct (take TAG_METAPROTOCOL m4) as [x5 m5] eqn:E5.
    assert (F5 : fget [TAG_METAPROTOCOL] m4 = nonempty (vals [TAG_METAPROTOCOL] P)) by (chase; reflexivity).
    destruct (take_single_ok _ _ _ _ _ C3 E5 F5) as [X5 G5]; [rewrite V_mp; apply length_opt_list|]. clear F5.
    destruct (take_array TAG_PARENT m5) as [x6 m6] eqn:E6.
    assert (F6 : fget [TAG_PARENT] m5 = nonempty (vals [TAG_PARENT] P)) by (chase; reflexivity).
    destruct (take_array_ok _ _ _ _ _ E6 F6) as [X6 G6]. clear F6.
    destruct (take TAG_POINTER m6) as [x7 m7] eqn:E7.
    assert (F7 : fget [TAG_POINTER] m6 = nonempty (vals [TAG_POINTER] P)) by (chase; reflexivity).
    destruct (take_single_ok _ _ _ _ _ C5 E7 F7) as [X7 G7]; [rewrite V_pt; apply length_opt_list|]. clear F7.
    destruct (take TAG_PROPERTIES m7) as [x8 m8] eqn:E8.
    assert (F8 : fget [TAG_PROPERTIES] m7 = nonempty (vals [TAG_PROPERTIES] P)) by (chase; reflexivity).
    destruct (take_chunked_ok _ _ _ _ _ C8 E8 F8) as [X8 G8]. clear F8.
    destruct (take TAG_PROPERTY_ENCODING m8) as [x9 m9] eqn:E9.
    assert (F9 : fget [TAG_PROPERTY_ENCODING] m8 = nonempty (vals [TAG_PROPERTY_ENCODING] P)) by (chase; reflexivity).
    destruct (take_single_ok _ _ _ _ _ C9 E9 F9) as [X9 G9]; [rewrite V_pe; apply length_opt_list|]. clear F9.
    destruct (take TAG_RUNE m9) as [x10 m10] eqn:E10.
    assert (F10 : fget [TAG_RUNE] m9 = nonempty (vals [TAG_RUNE] P)) by (chase; reflexivity).
    destruct (take_single_ok _ _ _ _ _ C7 E10 F10) as [X10 G10]; [rewrite V_rn; apply length_opt_list|]. clear F10.
    (* nothing is left in the map *)
    assert (M10 : m10 = []).
    { apply fget_none_nil. intros k. rewrite G10, G9, G8, G7, G6, G5, G4, G3, G2, G1, G0, vals_P.
      destruct (bytes_eqb k [TAG_RUNE]); [reflexivity|].
      destruct (bytes_eqb k [TAG_PROPERTY_ENCODING]); [reflexivity|].
      destruct (bytes_eqb k [TAG_PROPERTIES]); [reflexivity|].
      destruct (bytes_eqb k [TAG_POINTER]); [reflexivity|].
      destruct (bytes_eqb k [TAG_PARENT]); [reflexivity|].
      destruct (bytes_eqb k [TAG_METAPROTOCOL]); [reflexivity|].
      destruct (bytes_eqb k [TAG_METADATA]); [reflexivity|].
      destruct (bytes_eqb k [TAG_DELEGATE]); [reflexivity|].
      destruct (bytes_eqb k [TAG_CONTENT_TYPE]); [reflexivity|].
      destruct (bytes_eqb k [TAG_CONTENT_ENCODING]); [reflexivity|].
      reflexivity. }
    subst m10. cbn [existsb].
    subst x1 x2 x3 x4 x5 x6 x7 x8 x9 x10.
    rewrite V_ce, V_ct, V_dg, V_md, V_mp, V_pa, V_pt, V_pr, V_pe, V_rn.
    rewrite !hd_error_opt_list, !norm_chunks.
    unfold parsed_of. f_equal.
    - destruct (i_body i) as [b|]; [|reflexivity]. cbn [option_map]. rewrite concat_chunks by apply chunk_pos. reflexivity.
    - apply eq_true_iff_eq. rewrite dup_build. apply dup_P.
  Qed.
End Fields.

Lemma parse_payload_of i : parse_payload (payload_of i) = parsed_of i.
Proof. unfold payload_of. apply parse_fields. Qed.

(* ================================================================== numbering and the round trip *)

Fixpoint expect_envs (input offset : N) (is : list inscription) : list penv :=
  match is with
  | [] => []
  | i :: r => mk_penv input offset (parsed_of i) false false :: expect_envs input (offset + 1) r
  end.

Lemma number_built is : forall input offset,
  input <= U32_MAX -> offset + lenN is <= U32_MAX + 1 ->
  number_envs input offset (map (fun i => mk_raw (payload_of i) false false) is) = Ok (expect_envs input offset is).
Proof.
  induction is as [|i r IH]; intros input offset Hi Ho; [reflexivity|].
  unfold lenN in Ho. cbn [length] in Ho. cbn [map number_envs expect_envs].
  destruct (N.ltb_spec U32_MAX input); [lia|].
  destruct (N.ltb_spec U32_MAX offset); [lia|].
  rewrite IH by (unfold lenN; lia). cbn [bind re_payload re_pushnum re_stutter].
  rewrite parse_payload_of. reflexivity.
Qed.

(* The reveal script built for inscriptions [is] after a prefix [pre] (any script without an
   empty push, e.g. `<key> OP_CHECKSIG`), found by the tapscript rule in witness [w] of input
   number [input], parses to exactly one envelope per inscription, in order, with offsets
   0, 1, 2, …, the same content fields and the computed flags. *)
Lemma parse_build input w pre pi is script :
  input <= U32_MAX -> lenN is <= U32_MAX + 1 ->
  decode_script pre = Some pi -> Forall (fun x => is_empty_push x = false) pi ->
  batch_reveal_script pre is = Ok script ->
  tapscript w = Some script ->
  input_envelopes input w = Ok (expect_envs input 0 is).
Proof.
  intros Hi Hn Hp Hpi Hb Ht. unfold input_envelopes. rewrite Ht. unfold from_tapscript.
  rewrite (batch_decode pre pi is script Hp Hb).
  rewrite (run_prefix pi Hpi), run_batch. apply number_built; [exact Hi|lia].
Qed.

Lemma from_transaction_single w : from_transaction [w] = input_envelopes 0 w.
Proof.
  unfold from_transaction. cbn [from_transaction_at]. destruct (input_envelopes 0 w); cbn [bind]; try reflexivity.
  rewrite app_nil_r. reflexivity.
Qed.

(* the witness shapes the tapscript rule reads the script from *)
Lemma tapscript_two script cb : starts_with_annex cb = false -> tapscript [script; cb] = Some script.
Proof. intros H. unfold tapscript. cbn [rev app]. rewrite H. reflexivity. Qed.

Lemma tapscript_annex script cb annex : starts_with_annex annex = true -> tapscript [script; cb; annex] = Some script.
Proof. intros H. unfold tapscript. cbn [rev app]. rewrite H. reflexivity. Qed.

Lemma tapscript_key_path e : tapscript [e] = None.
Proof. reflexivity. Qed.

(* ---- the builder does not panic on values shorter than 2^32 bytes *)

Definition small (v : bytes) : Prop := lenN v <= U32_MAX.
Definition small_opt (o : option bytes) : Prop := match o with Some v => small v | None => True end.

Lemma push_r_ok d : small d -> exists b, push_r d = Ok b.
Proof. intros H. unfold push_r. destruct (push_slice_some d H) as [p ->]. eexists; reflexivity. Qed.

Lemma push_pair_ok t v : small v -> exists b, push_pair t v = Ok b.
Proof.
  intros H. unfold push_pair. destruct (push_r_ok [t]) as [a ->]; [unfold small, lenN, U32_MAX; cbn; lia|].
  destruct (push_r_ok v H) as [b ->]. cbn [bind]. eexists; reflexivity.
Qed.

Lemma concat_r_map_ok {A} (f : A -> Res bytes) l :
  Forall (fun x => exists b, f x = Ok b) l -> exists b, concat_r (map f l) = Ok b.
Proof.
  induction 1 as [|x l [b Hb] _ [c Hc]]; cbn [map concat_r]; [eexists; reflexivity|].
  rewrite Hb, Hc. cbn [bind]. eexists; reflexivity.
Qed.

Lemma chunks_fuel_small {A} n f : forall l : list A, (0 < n)%nat ->
  Forall (fun c => (length c <= n)%nat) (chunks_fuel f n l).
Proof.
  induction f as [|f IH]; intros l Hn; cbn [chunks_fuel]; [constructor|].
  destruct l as [|x l]; [constructor|]. constructor; [rewrite firstn_length; lia|apply IH; exact Hn].
Qed.

Lemma chunks_small v : Forall small (chunks CHUNK v).
Proof.
  pose proof (chunks_fuel_small CHUNK (length v) v chunk_pos) as H. unfold chunks.
  eapply Forall_impl; [|exact H]. intros c Hc. unfold small, lenN, U32_MAX.
  cbv beta in Hc. change CHUNK with 520%nat in Hc. lia.
Qed.

Definition buildable (i : inscription) : Prop :=
  small_opt (i_content_type i) /\ small_opt (i_content_encoding i) /\ small_opt (i_metaprotocol i) /\
  Forall small (i_parents i) /\ small_opt (i_delegate i) /\ small_opt (i_pointer i) /\
  small_opt (i_rune i) /\ small_opt (i_property_encoding i).

Lemma tag_append_ok t o : (tag_chunked t = false -> small_opt o) -> exists b, tag_append t o = Ok b.
Proof.
  intros H. unfold tag_append. destruct o as [v|]; [|eexists; reflexivity].
  destruct (tag_chunked t).
  - apply concat_r_map_ok. eapply Forall_impl; [|apply chunks_small]. intros c Hc. apply push_pair_ok. exact Hc.
  - apply push_pair_ok. apply H. reflexivity.
Qed.

Lemma reveal_script_ok i : buildable i -> exists s, reveal_script i = Ok s.
Proof.
  destruct tag_chunked_vals as [C1 [C2 [C3 [C4 [C5 [C6 [C7 [C8 C9]]]]]]]].
  intros [B1 [B2 [B3 [B4 [B5 [B6 [B7 B8]]]]]]]. unfold reveal_script.
  destruct (push_r_ok PROTOCOL_ID) as [hd ->]; [vm_compute; discriminate|]. cbn [bind].
  destruct (tag_append_ok TAG_CONTENT_TYPE (i_content_type i)) as [a1 A1]; [intros _; exact B1|].
  destruct (tag_append_ok TAG_CONTENT_ENCODING (i_content_encoding i)) as [a2 A2]; [intros _; exact B2|].
  destruct (tag_append_ok TAG_METAPROTOCOL (i_metaprotocol i)) as [a3 A3]; [intros _; exact B3|].
  assert (exists a4, tag_append_array TAG_PARENT (i_parents i) = Ok a4) as [a4 A4].
  { unfold tag_append_array. apply concat_r_map_ok. eapply Forall_impl; [|exact B4]. intros v Hv. apply push_pair_ok. exact Hv. }
  destruct (tag_append_ok TAG_DELEGATE (i_delegate i)) as [a5 A5]; [intros _; exact B5|].
  destruct (tag_append_ok TAG_POINTER (i_pointer i)) as [a6 A6]; [intros _; exact B6|].
  destruct (tag_append_ok TAG_METADATA (i_metadata i)) as [a7 A7]; [rewrite C6; discriminate|].
  destruct (tag_append_ok TAG_RUNE (i_rune i)) as [a8 A8]; [intros _; exact B7|].
  destruct (tag_append_ok TAG_PROPERTIES (i_properties i)) as [a9 A9]; [rewrite C8; discriminate|].
  destruct (tag_append_ok TAG_PROPERTY_ENCODING (i_property_encoding i)) as [a10 A10]; [intros _; exact B8|].
  assert (exists a11, append_body (i_body i) = Ok a11) as [a11 A11].
  { unfold append_body. destruct (i_body i) as [bd|]; [|eexists; reflexivity].
    destruct (push_r_ok []) as [t ->]; [unfold small, lenN, U32_MAX; cbn; lia|]. cbn [bind].
    destruct (concat_r_map_ok push_r (chunks CHUNK bd)) as [c ->].
    - eapply Forall_impl; [|apply chunks_small]. intros c Hc. apply push_r_ok. exact Hc.
    - cbn [bind]. eexists; reflexivity. }
  cbn [concat_r]. rewrite A1, A2, A3, A4, A5, A6, A7, A8, A9, A10, A11. cbn [bind]. eexists; reflexivity.
Qed.

Lemma batch_ok pre is : Forall buildable is -> exists s, batch_reveal_script pre is = Ok s.
Proof.
  intros H. unfold batch_reveal_script.
  destruct (concat_r_map_ok reveal_script is) as [c ->].
  - eapply Forall_impl; [|exact H]. intros i Hi. apply reveal_script_ok. exact Hi.
  - cbn [bind]. eexists; reflexivity.
Qed.
