(* Lemmas about the rune indexer model: basics (association lists, Res monad), mint terms (C10). *)
From OrdV Require Import Base.Prelude Generated Index.Runes.
Require Import ZifyBool ZifyN.

(* ------------------------------------------------------------------ Res monad *)
Lemma bind_ok {A B} (r : Res A) (f : A -> Res B) b :
  bind r f = Ok b -> exists a, r = Ok a /\ f a = Ok b.
Proof. destruct r; cbn; intros H; try discriminate. eauto. Qed.

Ltac inv_ok :=
  repeat match goal with
  | H : Ok _ = Ok _ |- _ => injection H; clear H; intros; subst
  | H : (_, _) = (_, _) |- _ => injection H; clear H; intros; subst
  | H : Panic _ = Ok _ |- _ => discriminate H
  | H : Err _ = Ok _ |- _ => discriminate H
  | H : bind _ _ = Ok _ |- _ =>
    let a := fresh "a" in let Ha := fresh "Hb" in
    apply bind_ok in H; destruct H as [a [Ha H]]
  end.

Tactic Notation "bind_inv" hyp(H) "as" simple_intropattern(x) ident(Hx) :=
  apply bind_ok in H; destruct H as [x [Hx H]].
Ltac ok_inj :=
  repeat match goal with
  | H : Ok _ = Ok _ |- _ => injection H; clear H; intros; subst
  | H : (_, _) = (_, _) |- _ => injection H; clear H; intros; subst
  | H : Panic _ = Ok _ |- _ => discriminate H
  | H : Err _ = Ok _ |- _ => discriminate H
  end.

(* ------------------------------------------------------------------ keys *)
Lemma id_eqb_eq a b : id_eqb a b = true <-> a = b.
Proof.
  destruct a as [a1 a2], b as [b1 b2]. unfold id_eqb; cbn [fst snd].
  rewrite andb_true_iff, !N.eqb_eq. split; [intros [-> ->]; reflexivity|intros H; injection H; auto].
Qed.
Lemma id_eqb_refl a : id_eqb a a = true.
Proof. apply id_eqb_eq; reflexivity. Qed.
Lemma id_eqb_neq a b : id_eqb a b = false <-> a <> b.
Proof.
  split; intros H.
  - intros ->. rewrite id_eqb_refl in H. discriminate.
  - destruct (id_eqb a b) eqn:E; [apply id_eqb_eq in E; contradiction|reflexivity].
Qed.
Lemma op_eqb_eq a b : op_eqb a b = true <-> a = b.
Proof. exact (id_eqb_eq a b). Qed.

Section AssocLemmas.
  Context {K V : Type} (eqb : K -> K -> bool).
  Hypothesis eqb_eq : forall a b, eqb a b = true <-> a = b.

  Lemma eqb_refl' a : eqb a a = true.
  Proof. apply eqb_eq; reflexivity. Qed.

  Lemma alookup_aupd (k k' : K) (v : V) l :
    alookup eqb k' (aupd eqb k v l) = if eqb k' k then Some v else alookup eqb k' l.
  Proof.
    induction l as [|[k1 v1] l IH]; cbn [aupd alookup].
    - destruct (eqb k' k); reflexivity.
    - destruct (eqb k k1) eqn:E1; cbn [alookup].
      + apply eqb_eq in E1; subst k1. destruct (eqb k' k); reflexivity.
      + destruct (eqb k' k1) eqn:E2.
        * apply eqb_eq in E2; subst k1.
          destruct (eqb k' k) eqn:E3; [|reflexivity].
          apply eqb_eq in E3; subst k'. rewrite eqb_refl' in E1. discriminate.
        * exact IH.
  Qed.

  Lemma alookup_aremove_other (k k' : K) (l : list (K * V)) :
    eqb k' k = false -> alookup eqb k' (aremove eqb k l) = alookup eqb k' l.
  Proof.
    intros Hne. induction l as [|[k1 v1] l IH]; cbn [aremove alookup]; [reflexivity|].
    destruct (eqb k k1) eqn:E1; cbn [alookup].
    - apply eqb_eq in E1; subst k1. rewrite Hne. reflexivity.
    - rewrite IH. reflexivity.
  Qed.

  Lemma alookup_In (k : K) (v : V) l : alookup eqb k l = Some v -> In (k, v) l.
  Proof.
    induction l as [|[k1 v1] l IH]; cbn [alookup]; [discriminate|].
    destruct (eqb k k1) eqn:E.
    - apply eqb_eq in E; subst. intros H; injection H as ->. left; reflexivity.
    - intros H; right; auto.
  Qed.

  Lemma length_aupd (k : K) (v : V) l :
    length (aupd eqb k v l) = match alookup eqb k l with Some _ => length l | None => S (length l) end.
  Proof.
    induction l as [|[k1 v1] l IH]; cbn [aupd alookup length]; [reflexivity|].
    destruct (eqb k k1); cbn [length]; [reflexivity|]. rewrite IH. destruct (alookup eqb k l); reflexivity.
  Qed.
End AssocLemmas.

Lemma getd_aupd r r' v m : getd r' (aupd id_eqb r v m) = if id_eqb r' r then v else getd r' m.
Proof. unfold getd. rewrite (alookup_aupd id_eqb id_eqb_eq). destruct (id_eqb r' r); reflexivity. Qed.

Lemma lot_add_ok a b c : lot_add a b = Ok c -> c = a + b /\ a + b <= U128_MAX.
Proof. unfold lot_add. destruct (N.leb_spec (a + b) U128_MAX); intros H'; inv_ok. split; [reflexivity|assumption]. Qed.
Lemma lot_sub_ok a b c : lot_sub a b = Ok c -> c = a - b /\ b <= a.
Proof. unfold lot_sub. destruct (N.leb_spec b a); intros H'; inv_ok. split; [reflexivity|assumption]. Qed.

Lemma add_to_ok r v m m' : add_to r v m = Ok m' ->
  m' = aupd id_eqb r (getd r m + v) m /\ getd r m + v <= U128_MAX.
Proof.
  unfold add_to. intros H. inv_ok. apply lot_add_ok in Hb. destruct Hb as [-> Hle]. split; [reflexivity|assumption].
Qed.

Lemma getd_add_to r v m m' r' : add_to r v m = Ok m' ->
  getd r' m' = if id_eqb r' r then getd r m + v else getd r' m.
Proof. intros H. apply add_to_ok in H. destruct H as [-> _]. apply getd_aupd. Qed.

(* ================================================================== C10: mint terms *)

(* the window conditions of the statement, spelled out on the terms *)
Definition started (e : entry) (t : terms) (h : N) : Prop :=
  (forall a, t_h0 t = Some a -> a <= h) /\
  (forall o, t_o0 t = Some o -> N.min (e_block e + o) U64_MAX <= h).
Definition not_ended (e : entry) (t : terms) (h : N) : Prop :=
  (forall a, t_h1 t = Some a -> h < a) /\
  (forall o, t_o1 t = Some o -> h < N.min (e_block e + o) U64_MAX).

Lemma start_err_none e t h : e_terms e = Some t -> (start_err e h = None <-> started e t h).
Proof.
  intros Ht. unfold start_err, e_start, started, rel_of, sat_add64. rewrite Ht.
  destruct (t_o0 t) as [o|], (t_h0 t) as [a|]; cbn [opt_combine].
  - destruct (N.ltb_spec h (N.max (N.min (e_block e + o) U64_MAX) a)); split; try discriminate.
    + intros [H1 H2]. specialize (H1 a eq_refl). specialize (H2 o eq_refl). lia.
    + intros _. split; intros x Hx; injection Hx as <-; lia.
    + reflexivity.
  - destruct (N.ltb_spec h (N.min (e_block e + o) U64_MAX)); split; try discriminate.
    + intros [_ H2]. specialize (H2 o eq_refl). lia.
    + intros _. split; intros x Hx; [discriminate|injection Hx as <-; lia].
    + reflexivity.
  - destruct (N.ltb_spec h a); split; try discriminate.
    + intros [H1 _]. specialize (H1 a eq_refl). lia.
    + intros _. split; intros x Hx; [injection Hx as <-; lia|discriminate].
    + reflexivity.
  - split; [|reflexivity]. intros _. split; intros x Hx; discriminate.
Qed.

Lemma end_err_none e t h : e_terms e = Some t -> (end_err e h = None <-> not_ended e t h).
Proof.
  intros Ht. unfold end_err, e_end, not_ended, rel_of, sat_add64. rewrite Ht.
  destruct (t_o1 t) as [o|], (t_h1 t) as [a|]; cbn [opt_combine].
  - destruct (N.leb_spec (N.min (N.min (e_block e + o) U64_MAX) a) h); split; try discriminate.
    + intros [H1 H2]. specialize (H1 a eq_refl). specialize (H2 o eq_refl). lia.
    + intros _. split; intros x Hx; injection Hx as <-; lia.
    + reflexivity.
  - destruct (N.leb_spec (N.min (e_block e + o) U64_MAX) h); split; try discriminate.
    + intros [_ H2]. specialize (H2 o eq_refl). lia.
    + intros _. split; intros x Hx; [discriminate|injection Hx as <-; lia].
    + reflexivity.
  - destruct (N.leb_spec a h); split; try discriminate.
    + intros [H1 _]. specialize (H1 a eq_refl). lia.
    + intros _. split; intros x Hx; [injection Hx as <-; lia|discriminate].
    + reflexivity.
  - split; [|reflexivity]. intros _. split; intros x Hx; discriminate.
Qed.

Lemma mintable_iff e h a :
  mintable e h = inr a <->
  exists t, e_terms e = Some t /\ started e t h /\ not_ended e t h /\
            e_mints e < odef (t_cap t) /\ a = odef (t_amount t).
Proof.
  unfold mintable. destruct (e_terms e) as [t|] eqn:Ht.
  - pose proof (start_err_none e t h Ht) as Hs. pose proof (end_err_none e t h Ht) as He.
    destruct (start_err e h) as [x|].
    + split; [discriminate|]. intros [t' [Ht' [S _]]]. injection Ht' as <-.
      apply Hs in S. discriminate.
    + destruct (end_err e h) as [x|].
      * split; [discriminate|]. intros [t' [Ht' [_ [E _]]]]. injection Ht' as <-.
        apply He in E. discriminate.
      * destruct (N.leb_spec (odef (t_cap t)) (e_mints e)) as [Hc|Hc].
        -- split; [discriminate|]. intros [t' [Ht' [_ [_ [C _]]]]]. injection Ht' as <-. lia.
        -- split.
           ++ intros H; injection H as <-. exists t. repeat split; try (apply Hs; reflexivity); try (apply He; reflexivity); assumption.
           ++ intros [t' [Ht' [_ [_ [_ ->]]]]]. injection Ht' as <-. reflexivity.
  - split; [discriminate|]. intros [t [Ht' _]]. discriminate.
Qed.

(* every error is the first failing condition *)
Lemma mintable_err e h err :
  mintable e h = inl err ->
  match err with
  | Unmintable => e_terms e = None
  | MStart s => e_start e = Some s /\ h < s
  | MEnd x => e_end e = Some x /\ x <= h
  | MCap c => c = cap_of e /\ c <= e_mints e
  end.
Proof.
  unfold mintable, cap_of, start_err, end_err. destruct (e_terms e) as [t|] eqn:Ht.
  2:{ intros Q; injection Q as <-. reflexivity. }
  destruct (e_start e) as [s|]; [destruct (N.ltb_spec h s) as [L|L]; [intros Q; injection Q as <-; auto|]|];
  (destruct (e_end e) as [x|]; [destruct (N.leb_spec x h) as [L2|L2]; [intros Q; injection Q as <-; auto|]|]);
  (destruct (N.leb_spec (odef (t_cap t)) (e_mints e)) as [L3|L3]; intros Q; [injection Q as <-; auto|discriminate]).
Qed.

(* ---------- RuneUpdater::mint ---------- *)
Lemma mint_spec height es r es' am :
  mint height es r = Ok (es', am) ->
  match alookup id_eqb r es with
  | None => es' = es /\ am = None
  | Some e =>
    match mintable e height with
    | inl _ => es' = es /\ am = None
    | inr a => es' = aupd id_eqb r (set_mints e (e_mints e + 1)) es /\ am = Some a
    end
  end.
Proof.
  unfold mint. destruct (alookup id_eqb r es) as [e|].
  - destruct (mintable e height) as [err|a].
    + intros H; inv_ok. auto.
    + destruct (N.leb_spec (e_mints e + 1) U128_MAX); intros H'; inv_ok. auto.
  - intros H; inv_ok. auto.
Qed.

(* a mint of an id that has no entry (not yet etched, or etched later in the block / in this very
   transaction: create_rune_entry runs after mint) changes nothing *)
Lemma mint_unknown height es r : alookup id_eqb r es = None -> mint height es r = Ok (es, None).
Proof. unfold mint. intros ->. reflexivity. Qed.

(* per-entry invariant *)
Definition mints_le_cap (e : entry) : Prop := e_mints e <= cap_of e.
Definition entries_ok (P : entry -> Prop) (es : etable) : Prop :=
  forall r e, alookup id_eqb r es = Some e -> P e.

Lemma entries_ok_aupd P r e es : entries_ok P es -> P e -> entries_ok P (aupd id_eqb r e es).
Proof.
  intros H He r' e'. rewrite (alookup_aupd id_eqb id_eqb_eq). destruct (id_eqb r' r).
  - intros H'; injection H' as <-. exact He.
  - apply H.
Qed.

Lemma mint_mints_le_cap height es r es' am :
  mint height es r = Ok (es', am) -> entries_ok mints_le_cap es -> entries_ok mints_le_cap es'.
Proof.
  intros H Hok. apply mint_spec in H. destruct (alookup id_eqb r es) as [e|] eqn:El.
  - destruct (mintable e height) as [err|a] eqn:Em.
    + destruct H as [-> _]. exact Hok.
    + destruct H as [-> _]. apply entries_ok_aupd; [exact Hok|].
      apply mintable_iff in Em. destruct Em as [t [Ht [_ [_ [Hc _]]]]].
      unfold mints_le_cap, cap_of, set_mints; cbn. rewrite Ht. lia.
  - destruct H as [-> _]. exact Hok.
Qed.

(* ---------- frame facts: which tables each phase touches ---------- *)
Lemma mint_phase_frame height st un art st' un' :
  mint_phase height st un art = Ok (st', un') ->
  s_balances st' = s_balances st /\ s_rune_to_id st' = s_rune_to_id st /\
  s_tx_to_rune st' = s_tx_to_rune st /\ s_runes st' = s_runes st /\ s_reserved st' = s_reserved st.
Proof.
  unfold mint_phase. destruct (art_mint art) as [r|]; [|intros Q; ok_inj; auto 6].
  intros Q. bind_inv Q as [es am] Hm. destruct am as [a|]; [bind_inv Q as un3 Hadd|]; ok_inj; cbn; auto 6.
Qed.

Lemma etched_frame height txi minimum st tx art st' et :
  etched height txi minimum st tx art = Ok (st', et) ->
  s_entries st' = s_entries st /\ s_balances st' = s_balances st /\ s_rune_to_id st' = s_rune_to_id st /\
  s_tx_to_rune st' = s_tx_to_rune st /\ s_runes st' = s_runes st.
Proof.
  unfold etched. destruct (art_etching_rune art) as [[rune|]|]; [| |intros Q; ok_inj; auto 6].
  - destruct (_ || _); [intros Q; ok_inj; auto 6|]. intros Q. bind_inv Q as c Hc. destruct c; ok_inj; auto 6.
  - destruct (_ <=? _); [|discriminate]. intros Q. bind_inv Q as res Hres. ok_inj. cbn. auto 6.
Qed.

(* ---------- a per-entry invariant is preserved by everything the indexer does ---------- *)
Section PerEntry.
  Variable P : entry -> Prop.
  Hypothesis P_mint : forall e h a, P e -> mintable e h = inr a -> P (set_mints e (e_mints e + 1)).
  Hypothesis P_new : forall art txid r rune number time, P (new_entry art txid r rune number time).
  Hypothesis P_burn : forall e b, P e -> P (set_burned e b).

  Lemma mint_entries_ok height es r es' am :
    mint height es r = Ok (es', am) -> entries_ok P es -> entries_ok P es'.
  Proof.
    intros H Hok. apply mint_spec in H. destruct (alookup id_eqb r es) as [e|] eqn:El.
    - destruct (mintable e height) as [err|a] eqn:Em; destruct H as [-> _]; [exact Hok|].
      apply entries_ok_aupd; [exact Hok|]. eapply P_mint; [eapply Hok; exact El|exact Em].
    - destruct H as [-> _]. exact Hok.
  Qed.

  Lemma art_phase_entries_ok height time minimum txi st tx un al st' un' al' :
    art_phase height time minimum txi st tx un al = Ok (st', un', al') ->
    entries_ok P (s_entries st) -> entries_ok P (s_entries st').
  Proof.
    unfold art_phase. destruct (tx_art tx) as [art|]; [|intros Q; ok_inj; auto].
    intros Q Hok.
    bind_inv Q as [st1 un1] Hmint. bind_inv Q as [st2 et] Het. bind_inv Q as [un2 al2] Hed.
    bind_inv Q as st3 Hcr. ok_inj.
    assert (H1 : entries_ok P (s_entries st1)).
    { unfold mint_phase in Hmint. destruct (art_mint art) as [r|]; [|ok_inj; exact Hok].
      bind_inv Hmint as [es am] Hm. pose proof (mint_entries_ok _ _ _ _ _ Hm Hok) as Hes.
      destruct am; [bind_inv Hmint as un3 Hadd|]; ok_inj; exact Hes. }
    apply etched_frame in Het. destruct Het as [E2 _].
    unfold create_phase in Hcr. destruct et as [[r rune]|]; [|ok_inj; rewrite E2; exact H1].
    unfold create_rune_entry in Hcr. destruct (_ <=? _); [|discriminate]. ok_inj. cbn.
    apply entries_ok_aupd; [rewrite E2; exact H1|apply P_new].
  Qed.

  Lemma index_runes_entries_ok height time minimum txi u tx u' :
    index_runes height time minimum txi u tx = Ok u' ->
    entries_ok P (s_entries (u_st u)) -> entries_ok P (s_entries (u_st u')).
  Proof.
    unfold index_runes. intros Q Hok.
    bind_inv Q as [bt un] Hun. bind_inv Q as [[st1 un1] al1] Hart. bind_inv Q as [al2 burned] Hdef.
    bind_inv Q as [bt2 burned2] Hst. bind_inv Q as ub Hp. ok_inj. cbn.
    eapply art_phase_entries_ok; [exact Hart|]. cbn. exact Hok.
  Qed.

  Lemma index_txs_entries_ok height time minimum txs : forall txi u u',
    index_txs height time minimum txi u txs = Ok u' ->
    entries_ok P (s_entries (u_st u)) -> entries_ok P (s_entries (u_st u')).
  Proof.
    induction txs as [|tx txs IH]; intros txi u u' Q Hok; cbn [index_txs] in Q; [ok_inj; exact Hok|].
    bind_inv Q as u1 H1. eapply IH; [exact Q|]. eapply index_runes_entries_ok; eassumption.
  Qed.

  Lemma update_burned_entries_ok bl : forall es es',
    update_burned bl es = Ok es' -> entries_ok P es -> entries_ok P es'.
  Proof.
    induction bl as [|[r b] bl IH]; intros es es' Q Hok; cbn [update_burned] in Q; [ok_inj; exact Hok|].
    destruct (alookup id_eqb r es) as [e|] eqn:El; [|discriminate].
    destruct (_ <=? _); [|discriminate].
    eapply IH; [exact Q|]. apply entries_ok_aupd; [exact Hok|]. apply P_burn. eapply Hok; exact El.
  Qed.

  Lemma index_block_entries_ok first height st b st' :
    index_block first height st b = Ok st' ->
    entries_ok P (s_entries st) -> entries_ok P (s_entries st').
  Proof.
    unfold index_block. destruct (height <? first); intros Q Hok; [ok_inj; exact Hok|].
    bind_inv Q as u1 Htx. bind_inv Q as es1 Hup. ok_inj. cbn.
    eapply update_burned_entries_ok; [exact Hup|].
    eapply index_txs_entries_ok; [exact Htx|]. exact Hok.
  Qed.

  Lemma index_chain_entries_ok first bs : forall height st sts,
    index_chain first height st bs = Ok sts ->
    entries_ok P (s_entries st) -> Forall (fun s => entries_ok P (s_entries s)) sts.
  Proof.
    induction bs as [|b bs IH]; intros height st sts Q Hok; cbn [index_chain] in Q; [ok_inj; constructor|].
    bind_inv Q as st1 Hblk. bind_inv Q as rest Hrest. ok_inj.
    pose proof (index_block_entries_ok _ _ _ _ _ Hblk Hok) as H1.
    constructor; [exact H1|]. eapply IH; eassumption.
  Qed.
End PerEntry.

Lemma entries_ok_empty P : entries_ok P [].
Proof. intros r e H. discriminate. Qed.

(* C10: the mint count never exceeds the cap, in every state of every indexed chain *)
Lemma chain_mints_le_cap first height st bs sts :
  index_chain first height st bs = Ok sts ->
  entries_ok mints_le_cap (s_entries st) ->
  Forall (fun s => entries_ok mints_le_cap (s_entries s)) sts.
Proof.
  apply index_chain_entries_ok.
  - intros e h a He Hm. apply mintable_iff in Hm. destruct Hm as [t [Ht [_ [_ [Hc _]]]]].
    unfold mints_le_cap, cap_of, set_mints; cbn. rewrite Ht. lia.
  - intros art txid r rune number time. unfold mints_le_cap, new_entry.
    destruct art as [eds [et|] m p|et m]; cbn; lia.
  - intros e b He. exact He.
Qed.

(* ---------- a mint of a rune that has no entry at that point is a no-op ---------- *)
Definition art_set_mint (a : artifact) (m : option id) : artifact :=
  match a with Runestone e et _ p => Runestone e et m p | Cenotaph et _ => Cenotaph et m end.
Definition tx_set_art (tx : txm) (a : option artifact) : txm :=
  mkTx (tx_id tx) (tx_ins tx) (tx_outs tx) a.

Lemma set_entries_same st : set_entries st (s_entries st) = st.
Proof. destruct st; reflexivity. Qed.

Lemma index_runes_mint_unknown_noop height time minimum txi u tx art r :
  tx_art tx = Some art -> art_mint art = Some r ->
  alookup id_eqb r (s_entries (u_st u)) = None ->
  index_runes height time minimum txi u tx =
  index_runes height time minimum txi u (tx_set_art tx (Some (art_set_mint art None))).
Proof.
  intros Ha Hm Hn. unfold index_runes. cbn [tx_set_art tx_ins tx_outs tx_id tx_art]. rewrite Ha.
  destruct (unallocated (tx_ins tx) (s_balances (u_st u)) []) as [[bt un]|e|t]; cbn [bind]; try reflexivity.
  assert (E : art_phase height time minimum txi (set_balances (u_st u) bt) tx un (repeat [] (length (tx_outs tx))) =
              art_phase height time minimum txi (set_balances (u_st u) bt)
                (mkTx (tx_id tx) (tx_ins tx) (tx_outs tx) (Some (art_set_mint art None))) un
                (repeat [] (length (tx_outs tx)))).
  { unfold art_phase. cbn [tx_art tx_ins tx_outs tx_id]. rewrite Ha.
    unfold mint_phase. rewrite Hm.
    replace (art_mint (art_set_mint art None)) with (@None id) by (destruct art; reflexivity).
    rewrite mint_unknown by (cbn; exact Hn). cbn [bind].
    rewrite set_entries_same.
    destruct art as [eds et m p|et m]; cbn [art_set_mint]; reflexivity. }
  rewrite E. destruct art as [eds et m p|et m]; reflexivity.
Qed.

(* ---------- RuneUpdater::etched, characterised ---------- *)
Lemma etched_spec height txi minimum st tx art st' et :
  etched height txi minimum st tx art = Ok (st', et) ->
  match art_etching_rune art with
  | None => st' = st /\ et = None
  | Some (Some rune) =>
    st' = st /\
    ((et = None /\
      (rune < minimum \/ RU_RESERVED <= rune \/ alookup N.eqb rune (s_rune_to_id st) <> None \/
       tx_commits height (commitment rune) (tx_ins tx) = Ok false)) \/
     (et = Some ((height, txi), rune) /\ minimum <= rune /\ rune < RU_RESERVED /\
      alookup N.eqb rune (s_rune_to_id st) = None /\
      tx_commits height (commitment rune) (tx_ins tx) = Ok true))
  | Some None =>
    st' = set_reserved st (s_reserved st + 1) /\
    exists res, reserved_name height txi = Ok res /\ et = Some ((height, txi), res)
  end.
Proof.
  unfold etched. destruct (art_etching_rune art) as [[rune|]|].
  - destruct (N.ltb_spec rune minimum) as [L1|L1]; cbn [orb].
    { intros Q; ok_inj. split; [reflexivity|]. left. split; [reflexivity|]. left; exact L1. }
    destruct (N.leb_spec RU_RESERVED rune) as [L2|L2]; cbn [orb].
    { intros Q; ok_inj. split; [reflexivity|]. left. split; [reflexivity|]. right; left; exact L2. }
    destruct (alookup N.eqb rune (s_rune_to_id st)) as [x|] eqn:L3; cbn [is_some].
    { intros Q; ok_inj. split; [reflexivity|]. left. split; [reflexivity|]. right; right; left. discriminate. }
    intros Q. bind_inv Q as c Hc. destruct c; ok_inj; (split; [reflexivity|]).
    + right. auto 6.
    + left. split; [reflexivity|]. right; right; right. exact Hc.
  - destruct (_ <=? _); [|discriminate]. intros Q. bind_inv Q as res Hres. ok_inj.
    split; [reflexivity|]. exists res. auto.
  - intros Q; ok_inj. auto.
Qed.

Lemma etched_id height txi minimum st tx art st' r rune :
  etched height txi minimum st tx art = Ok (st', Some (r, rune)) -> r = (height, txi).
Proof.
  intros Q. apply etched_spec in Q. destruct (art_etching_rune art) as [[rn|]|].
  - destruct Q as [_ [[Q _]|[Q _]]]; [discriminate|]. injection Q as <- _. reflexivity.
  - destruct Q as [_ [res [_ Q]]]. injection Q as <- _. reflexivity.
  - destruct Q as [_ Q]. discriminate.
Qed.
