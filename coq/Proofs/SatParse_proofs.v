(* Totality and soundness of the Sat text parsers and RuneId::from_str (C31). *)
From OrdV Require Import Base.Prelude Generated Ord.Decimal Ord.Rune Ord.SatParse Ord.TextParse
  Proofs.Decimal_proofs Proofs.DecimalParse_proofs.
Require Import ZifyBool ZifyN.
Ltac Zify.zify_post_hook ::= Z.div_mod_to_equations.

(* ------------------------------------------------------------ constants *)
Lemma SHI_val : SHI = 210000. Proof. reflexivity. Qed.
Lemma DCI_val : DCI = 2016. Proof. reflexivity. Qed.
Lemma CE_val : CYCLE_EPOCHS = 6. Proof. reflexivity. Qed.
Lemma HI_val : HALVING_INCREMENT = 336. Proof. reflexivity. Qed.
Lemma SUPPLY_val : SUPPLY = 2099999997690000. Proof. reflexivity. Qed.

(* ------------------------------------------------------------ pint *)
Lemma pint_ok bound s v : pint bound s = Ok v -> uint_lit s v /\ v < bound.
Proof.
  unfold pint. destruct (parse_uint bound s) eqn:P; try discriminate.
  intro Heq. injection Heq as <-. exact (parse_uint_ok _ _ _ P).
Qed.

Lemma pint_total bound s t : pint bound s <> Panic t.
Proof.
  unfold pint. destruct (parse_uint bound s) eqn:P; try discriminate.
  exfalso. exact (parse_uint_total _ _ _ P).
Qed.

(* ------------------------------------------------------------ sats of a block are in range *)
Definition epoch_ok (e : nat) : bool :=
  epoch_starting_sat (N.of_nat e) + SHI * epoch_subsidy (N.of_nat e) <=? SUPPLY.

Lemma epochs_ok : forallb epoch_ok (seq 0 33) = true.
Proof. vm_compute. reflexivity. Qed.

Lemma FPS_val : TXT_FIRST_POST_SUBSIDY = 33. Proof. reflexivity. Qed.

Lemma block_in_range h o : o < height_subsidy h -> height_starting_sat h + o < SUPPLY.
Proof.
  unfold height_subsidy, height_starting_sat, height_epoch. cbv zeta. set (e := h / SHI).
  intro H. unfold epoch_subsidy in H. rewrite FPS_val in H.
  destruct (N.ltb_spec e 33) as [E|E]; [|lia].
  pose proof epochs_ok as A. rewrite forallb_forall in A.
  specialize (A (N.to_nat e)). unfold epoch_ok in A. rewrite N2Nat.id in A.
  assert (I : In (N.to_nat e) (seq 0 33)) by (apply in_seq; lia). specialize (A I).
  assert (R : h - e * SHI < SHI) by (unfold e; rewrite SHI_val; lia).
  unfold epoch_subsidy at 1. rewrite FPS_val. destruct (N.ltb_spec e 33); [|lia].
  set (sub := N.shiftr (50 * COIN_VALUE) e) in *.
  assert (epoch_subsidy e = sub).
  { unfold epoch_subsidy. rewrite FPS_val. destruct (N.ltb_spec e 33); [reflexivity|lia]. }
  rewrite H1 in A. nia.
Qed.

(* ------------------------------------------------------------ name *)
Definition nameval_acc (x : N) (s : list N) : N := fold_left (fun v c => v * 26 + (c - 97) + 1) s x.
(* bijective base-26 value of a lower-case name, 'a' = 1 *)
Definition nameval (s : list N) : N := nameval_acc 0 s.

Lemma name_loop_spec : forall s x y, x <= SUPPLY -> name_loop x s = Ok y ->
  forallb is_lower s = true /\ y = nameval_acc x s /\ y <= SUPPLY.
Proof.
  induction s as [|c r IH]; intros x y Hx H.
  - cbn in H. injection H as <-. cbn. auto.
  - cbn [name_loop] in H. destruct (is_lower c) eqn:L; [|discriminate].
    destruct (N.leb_spec P64 (x * 26 + c)); [discriminate|].
    destruct (N.ltb_spec SUPPLY (x * 26 + c - 97 + 1)) as [|B]; [discriminate|].
    destruct (IH _ _ B H) as (A1 & A2 & A3). cbn [forallb]. rewrite L, A1. split; [reflexivity|].
    split; [|exact A3]. rewrite A2. unfold nameval_acc. cbn [fold_left]. f_equal.
    unfold is_lower in L. lia.
Qed.

Lemma name_loop_total : forall s x t, x <= SUPPLY -> name_loop x s <> Panic t.
Proof.
  induction s as [|c r IH]; intros x t Hx; cbn [name_loop]; [discriminate|].
  destruct (is_lower c) eqn:L; [|discriminate].
  destruct (N.leb_spec P64 (x * 26 + c)) as [B|B].
  - exfalso. unfold is_lower in L. rewrite SUPPLY_val in Hx. unfold P64 in B. lia.
  - destruct (N.ltb_spec SUPPLY (x * 26 + c - 97 + 1)); [discriminate|]. apply IH. assumption.
Qed.

Definition name_denotes (s : list N) (n : N) : Prop :=
  forallb is_lower s = true /\ n + nameval s = SUPPLY.

Lemma from_name_sound s n : from_name s = Ok n -> name_denotes s n.
Proof.
  unfold from_name. destruct (name_loop 0 s) as [x| |] eqn:E; cbn [bind]; try discriminate.
  intro Heq. injection Heq as <-. destruct (name_loop_spec s 0 x ltac:(rewrite SUPPLY_val; lia) E) as (A & B & C).
  split; [exact A|]. unfold nameval. rewrite <- B. lia.
Qed.

(* ------------------------------------------------------------ decimal *)
Definition sat_at (h o n : N) : Prop := o < height_subsidy h /\ n = height_starting_sat h + o.

Definition decimal_denotes (s : list N) (n : N) : Prop :=
  exists hs os h o, s = hs ++ C_DOT :: os /\ uint_lit hs h /\ uint_lit os o /\ sat_at h o n.

Lemma from_decimal_sound s n : from_decimal s = Ok n -> decimal_denotes s n.
Proof.
  unfold from_decimal. destruct (split_once C_DOT s) as [[hs os]|] eqn:SP; [|discriminate].
  destruct (split_once_some _ _ _ _ SP) as [-> _].
  destruct (pint P32 hs) as [h| |] eqn:PH; cbn [bind]; try discriminate.
  destruct (pint P64 os) as [o| |] eqn:PO; cbn [bind]; try discriminate.
  destruct (N.leb_spec (height_subsidy h) o); [discriminate|]. intro Heq. injection Heq as <-.
  exists hs, os, h, o. destruct (pint_ok _ _ _ PH), (pint_ok _ _ _ PO). repeat split; assumption.
Qed.

(* ------------------------------------------------------------ degree *)
Definition degree_denotes (s : list N) (n : N) : Prop :=
  exists cs es ps tl C E P B h,
    s = cs ++ C_DEGREE :: es ++ C_MINUTE :: ps ++ C_SECOND :: tl /\
    uint_lit cs C /\ uint_lit es E /\ uint_lit ps P /\
    ((tl = [] /\ B = 0) \/ exists bs, tl = bs ++ [C_THIRD] /\ uint_lit bs B) /\
    h / (SHI * CYCLE_EPOCHS) = C /\ h mod SHI = E /\ h mod DCI = P /\ sat_at h B n.

Lemma degree_arith C E P : E < 210000 -> P < 2016 -> (P + 1260000 - E) mod 336 = 0 ->
  let k := (P + 1260000 - E) mod 2016 / 336 in
  let h := (C * 6 + k) * 210000 + E in
  h / 1260000 = C /\ h mod 210000 = E /\ h mod 2016 = P.
Proof. intros HE HP HR k h. unfold h, k. lia. Qed.

Lemma from_degree_sound s n : from_degree s = Ok n -> degree_denotes s n.
Proof.
  unfold from_degree.
  destruct (split_once C_DEGREE s) as [[cs r1]|] eqn:S1; [|discriminate].
  destruct (split_once_some _ _ _ _ S1) as [-> _].
  destruct (pint P32 cs) as [C| |] eqn:PC; cbn [bind]; try discriminate.
  destruct (split_once C_MINUTE r1) as [[es r2]|] eqn:S2; [|discriminate].
  destruct (split_once_some _ _ _ _ S2) as [-> _].
  destruct (pint P32 es) as [E| |] eqn:PE; cbn [bind]; try discriminate.
  destruct (N.leb_spec SHI E) as [|HE]; [discriminate|].
  destruct (split_once C_SECOND r2) as [[ps r3]|] eqn:S3; [|discriminate].
  destruct (split_once_some _ _ _ _ S3) as [-> _].
  destruct (pint P32 ps) as [P| |] eqn:PP; cbn [bind]; try discriminate.
  destruct (N.leb_spec DCI P) as [|HP]; [discriminate|]. cbv zeta.
  rewrite SHI_val, DCI_val, CE_val, HI_val in *.
  change (210000 * 6) with 1260000.
  destruct (N.eqb_spec ((P + 1260000 - E) mod 336) 0) as [HR|]; cbn [negb]; [|discriminate].
  destruct (N.leb_spec P32 (C * 6)); [discriminate|].
  destruct (N.leb_spec P32 (C * 6 + (P + 1260000 - E) mod 2016 / 336)); [discriminate|].
  destruct (N.leb_spec P32 ((C * 6 + (P + 1260000 - E) mod 2016 / 336) * 210000)); [discriminate|].
  destruct (N.leb_spec P32 ((C * 6 + (P + 1260000 - E) mod 2016 / 336) * 210000 + E)); [discriminate|].
  destruct (degree_arith C E P HE HP HR) as (A1 & A2 & A3). cbv zeta in A1, A2, A3.
  set (h := (C * 6 + (P + 1260000 - E) mod 2016 / 336) * 210000 + E) in *.
  destruct (pint_ok _ _ _ PC) as [LC _], (pint_ok _ _ _ PE) as [LE _], (pint_ok _ _ _ PP) as [LP _].
  destruct (split_once C_THIRD r3) as [[bs r4]|] eqn:S4.
  - destruct (split_once_some _ _ _ _ S4) as [-> _].
    destruct (pint P64 bs) as [B| |] eqn:PB; cbn [bind]; try discriminate.
    destruct r4 as [|x r4]; cbn [is_nil negb]; [|discriminate].
    destruct (N.leb_spec (height_subsidy h) B); [discriminate|]. intro Heq. injection Heq as <-.
    destruct (pint_ok _ _ _ PB) as [LB _].
    exists cs, es, ps, (bs ++ [C_THIRD]), C, E, P, B, h.
    rewrite SHI_val, DCI_val, CE_val. change (210000 * 6) with 1260000.
    repeat split; try assumption. right. exists bs. auto.
  - cbn [bind]. destruct r3 as [|x r3]; cbn [is_nil negb]; [|discriminate].
    destruct (N.leb_spec (height_subsidy h) 0); [discriminate|]. intro Heq. injection Heq as <-.
    exists cs, es, ps, [], C, E, P, 0, h.
    rewrite SHI_val, DCI_val, CE_val. change (210000 * 6) with 1260000.
    repeat split; try assumption. left. auto.
Qed.

(* ------------------------------------------------------------ percentile *)
(* f64 is not modelled: an accepted percentile is one whose text (before the final '%') Rust's
   f64 parser reads as a finite number that is not negative, and the result is the supplied
   rounding n = (x / 100 * LAST).round(), in range. *)
Definition percentile_denotes (fc : fclass) (s : list N) (n : N) : Prop :=
  last_char s = Some C_PERCENT /\ fc = FVal n /\ n <= LAST.

Lemma from_percentile_sound fc s n : from_percentile fc s = Ok n -> percentile_denotes fc s n.
Proof.
  unfold from_percentile, percentile_denotes. destruct (last_char s) as [c|]; [|discriminate].
  destruct (N.eqb_spec c C_PERCENT) as [->|]; cbn [negb]; [|discriminate].
  destruct fc as [| | | |m]; try discriminate.
  destruct (N.ltb_spec LAST m); [discriminate|]. intro Heq. injection Heq as <-. auto.
Qed.

(* ------------------------------------------------------------ Sat::from_str *)
Definition integer_denotes (s : list N) (n : N) : Prop := uint_lit s n.

Definition sat_denotes (fc : fclass) (s : list N) (n : N) : Prop :=
  if existsb is_lower s then name_denotes s n
  else if contains C_DEGREE s then degree_denotes s n
  else if contains C_PERCENT s then percentile_denotes fc s n
  else if contains C_DOT s then decimal_denotes s n
  else integer_denotes s n.

Lemma sat_from_str_sound fc s n : sat_from_str fc s = Ok n -> sat_denotes fc s n /\ n <= LAST.
Proof.
  unfold sat_from_str, sat_denotes. unfold LAST. rewrite SUPPLY_val.
  destruct (existsb is_lower s) eqn:L.
  - intro Heq. pose proof (from_name_sound _ _ Heq) as D. split; [exact D|].
    destruct D as [D1 D2]. rewrite SUPPLY_val in D2.
    assert (1 <= nameval s).
    { destruct s as [|c r]; [discriminate|]. unfold nameval, nameval_acc. cbn [fold_left].
      assert (G : forall l x, x <= fold_left (fun v c0 => v * 26 + (c0 - 97) + 1) l x).
      { induction l as [|a l IH]; intro x; cbn [fold_left]; [lia|]. specialize (IH (x * 26 + (a - 97) + 1)). lia. }
      specialize (G r (0 * 26 + (c - 97) + 1)). lia. }
    lia.
  - destruct (contains C_DEGREE s).
    + intro Heq. pose proof (from_degree_sound _ _ Heq) as D. split; [exact D|].
      destruct D as (cs & es & ps & tl & C & E & P & B & h & _ & _ & _ & _ & _ & _ & _ & _ & [S1 S2]).
      pose proof (block_in_range h B S1) as BR. rewrite SUPPLY_val in BR. lia.
    + destruct (contains C_PERCENT s).
      * intro Heq. pose proof (from_percentile_sound _ _ _ Heq) as D. split; [exact D|].
        destruct D as (_ & _ & D). unfold LAST in D. rewrite SUPPLY_val in D. exact D.
      * destruct (contains C_DOT s).
        -- intro Heq. pose proof (from_decimal_sound _ _ Heq) as D. split; [exact D|].
           destruct D as (hs & os & h & o & _ & _ & _ & [S1 S2]).
           pose proof (block_in_range h o S1) as BR. rewrite SUPPLY_val in BR. lia.
        -- destruct (pint P64 s) as [m| |] eqn:PI; cbn [bind]; try discriminate.
           change (2099999997690000 - 1) with 2099999997689999.
           destruct (N.ltb_spec 2099999997689999 m); [discriminate|]. intro Heq. injection Heq as <-.
           split; [exact (proj1 (pint_ok _ _ _ PI))|lia].
Qed.

Lemma from_degree_total s t : from_degree s <> Panic t.
Proof.
  unfold from_degree.
  destruct (split_once C_DEGREE s) as [[cs r1]|]; [|discriminate].
  destruct (pint P32 cs) eqn:PC; cbn [bind]; try discriminate; [|exfalso; exact (pint_total _ _ _ PC)].
  destruct (split_once C_MINUTE r1) as [[es r2]|]; [|discriminate].
  destruct (pint P32 es) eqn:PE; cbn [bind]; try discriminate; [|exfalso; exact (pint_total _ _ _ PE)].
  destruct (_ <=? _); [discriminate|].
  destruct (split_once C_SECOND r2) as [[ps r3]|]; [|discriminate].
  destruct (pint P32 ps) eqn:PP; cbn [bind]; try discriminate; [|exfalso; exact (pint_total _ _ _ PP)].
  destruct (_ <=? _); [discriminate|]. cbv zeta.
  destruct (negb _); [discriminate|].
  destruct (_ <=? _); [discriminate|]. destruct (_ <=? _); [discriminate|].
  destruct (_ <=? _); [discriminate|]. destruct (_ <=? _); [discriminate|].
  destruct (split_once C_THIRD r3) as [[bs r4]|].
  - destruct (pint P64 bs) eqn:PB; cbn [bind]; try discriminate; [|exfalso; exact (pint_total _ _ _ PB)].
    destruct (negb _); [discriminate|]. destruct (_ <=? _); discriminate.
  - cbn [bind]. destruct (negb _); [discriminate|]. destruct (_ <=? _); discriminate.
Qed.

Lemma sat_from_str_total fc s t : sat_from_str fc s <> Panic t.
Proof.
  unfold sat_from_str. destruct (existsb is_lower s).
  - unfold from_name. destruct (name_loop 0 s) eqn:E; cbn [bind]; try discriminate.
    exfalso. exact (name_loop_total s 0 _ ltac:(rewrite SUPPLY_val; lia) E).
  - destruct (contains C_DEGREE s); [apply from_degree_total|].
    destruct (contains C_PERCENT s).
    + unfold from_percentile. destruct (last_char s); [|discriminate].
      destruct (negb _); [discriminate|]. destruct fc; try discriminate.
      destruct (_ <? _); discriminate.
    + destruct (contains C_DOT s).
      * unfold from_decimal. destruct (split_once C_DOT s) as [[hs os]|]; [|discriminate].
        destruct (pint P32 hs) eqn:PH; cbn [bind]; try discriminate; [|exfalso; exact (pint_total _ _ _ PH)].
        destruct (pint P64 os) eqn:PO; cbn [bind]; try discriminate; [|exfalso; exact (pint_total _ _ _ PO)].
        destruct (_ <=? _); discriminate.
      * destruct (pint P64 s) eqn:PI; cbn [bind]; try discriminate; [|exfalso; exact (pint_total _ _ _ PI)].
        destruct (_ <? _); discriminate.
Qed.

(* ------------------------------------------------------------ RuneId *)
Definition rune_id_denotes (s : list N) (b t : N) : Prop :=
  exists hs is_, s = hs ++ C_COLON :: is_ /\ ~ In C_COLON hs /\ uint_lit hs b /\ uint_lit is_ t.

Lemma rune_id_sound s b t : rune_id_from_str s = Ok (b, t) ->
  rune_id_denotes s b t /\ b < P64 /\ t < P32.
Proof.
  unfold rune_id_from_str. destruct (split_once C_COLON s) as [[hs is_]|] eqn:SP; [|discriminate].
  destruct (split_once_some _ _ _ _ SP) as [-> Hn].
  destruct (parse_uint P64 hs) as [b'| |] eqn:PB; try discriminate.
  destruct (parse_uint P32 is_) as [t'| |] eqn:PT; try discriminate.
  intro Heq. injection Heq as <- <-.
  destruct (parse_uint_ok _ _ _ PB), (parse_uint_ok _ _ _ PT).
  split; [exists hs, is_; auto|auto].
Qed.

Lemma rune_id_total s t : rune_id_from_str s <> Panic t.
Proof.
  unfold rune_id_from_str. destruct (split_once C_COLON s) as [[hs is_]|]; [|discriminate].
  destruct (parse_uint P64 hs) eqn:PB; try discriminate.
  - destruct (parse_uint P32 is_) eqn:PT; try discriminate. exfalso. exact (parse_uint_total _ _ _ PT).
  - exfalso. exact (parse_uint_total _ _ _ PB).
Qed.
