(* Lemmas for C24: the acceptance rule of Wallet/Offer.v is exactly the
   conjunction of the advertised clauses. *)
From OrdV Require Import Base.Prelude Wallet.Offer.
Require Import Lia.

Definition signed_ok (s : sigdata) : Prop :=
  match s with SScript _ | SWitness _ => True | _ => False end.

(* The clauses checked before anything is signed. [i] is the seller input. *)
Definition PreClauses (ins : list pin) (amount want : N) (bc : Z) (i : nat) : Prop :=
  exists p info,
    nth_error ins i = Some p /\ owned p = Some info /\
    (* exactly one input spends a wallet output *)
    (forall j q, nth_error ins j = Some q -> owned q <> None -> j = i) /\
    (* that output holds no runes (as far as the server can tell) ... *)
    (o_runes info = None \/ o_runes info = Some []) /\
    (* ... and exactly the named inscription *)
    o_insc info = Some [want] /\
    (* the wallet's balance changes by exactly the named amount *)
    amount <= I64_MAX /\ bc = Z.of_N amount /\
    (* the seller input is unsigned, every other input is already signed *)
    pre p = SNone /\
    (forall j q, nth_error ins j = Some q -> j <> i -> signed_ok (pre q)).

(* The clauses on the finalized transaction. *)
Definition PostClauses (ins : list pin) (post : list sigdata) (i : nat) : Prop :=
  length post = length ins /\
  (forall j n, nth_error post j = Some n -> n <> SBoth) /\
  (exists n, nth_error post i = Some n /\ n <> SNone) /\
  (* the other signatures are unchanged *)
  (forall j q n, j <> i -> nth_error ins j = Some q -> nth_error post j = Some n -> n = pre q).

(* ------------------------------------------------------------ outgoing *)

Lemma outgoing_In : forall ins k j info,
  In (j, info) (outgoing k ins) ->
  (k <= j)%nat /\ exists p, nth_error ins (j - k) = Some p /\ owned p = Some info.
Proof.
  induction ins as [|p r IH]; intros k j info H; cbn [outgoing] in H.
  - destruct H.
  - destruct (owned p) as [inf|] eqn:Ho.
    + destruct H as [H|H].
      * inversion H; subst. split; [lia|]. exists p. rewrite Nat.sub_diag. auto.
      * apply IH in H. destruct H as [Hk [q [Hn Hq]]]. split; [lia|].
        exists q. replace (j - k)%nat with (S (j - S k)) by lia. auto.
    + apply IH in H. destruct H as [Hk [q [Hn Hq]]]. split; [lia|].
      exists q. replace (j - k)%nat with (S (j - S k)) by lia. auto.
Qed.

Lemma In_outgoing : forall ins k j p info,
  nth_error ins j = Some p -> owned p = Some info -> In ((k + j)%nat, info) (outgoing k ins).
Proof.
  induction ins as [|p0 r IH]; intros k j p info Hn Ho.
  - destruct j; discriminate.
  - cbn [outgoing]. destruct j as [|j]; cbn [nth_error] in Hn.
    + inversion Hn; subst. rewrite Ho. left. f_equal. lia.
    + specialize (IH (S k) j p info Hn Ho). replace (k + S j)%nat with (S k + j)%nat by lia.
      destruct (owned p0); [right|]; exact IH.
Qed.

Lemma outgoing_nil : forall ins k,
  (forall j q, nth_error ins j = Some q -> owned q = None) -> outgoing k ins = [].
Proof.
  induction ins as [|p r IH]; intros k H; cbn [outgoing]; [reflexivity|].
  rewrite (H 0%nat p eq_refl). apply IH. intros j q Hq. exact (H (S j) q Hq).
Qed.

Lemma outgoing_single : forall ins k i p info,
  nth_error ins i = Some p -> owned p = Some info ->
  (forall j q, nth_error ins j = Some q -> owned q <> None -> j = i) ->
  outgoing k ins = [((k + i)%nat, info)].
Proof.
  induction ins as [|p0 r IH]; intros k i p info Hn Ho Hu.
  - destruct i; discriminate.
  - cbn [outgoing]. destruct i as [|i]; cbn [nth_error] in Hn.
    + inversion Hn; subst. rewrite Ho. rewrite Nat.add_0_r. f_equal.
      apply outgoing_nil. intros j q Hq.
      destruct (owned q) eqn:Hoq; [|reflexivity].
      assert (S j = 0)%nat by (apply (Hu (S j) q Hq); congruence). discriminate.
    + destruct (owned p0) eqn:Ho0.
      * assert (0 = S i)%nat by (apply (Hu 0%nat p0 eq_refl); congruence). discriminate.
      * replace (k + S i)%nat with (S k + i)%nat by lia.
        apply (IH (S k) i p info Hn Ho). intros j q Hq Hoq.
        assert (S j = S i) by (apply (Hu (S j) q Hq Hoq)). lia.
Qed.

(* ------------------------------------------------------------ signature loops *)

Lemma check_pre_None : forall sigs k index,
  check_pre k index sigs = None <->
  (forall j s, nth_error sigs j = Some s ->
     if Nat.eqb (k + j) index then s = SNone else s <> SNone).
Proof.
  induction sigs as [|s r IH]; intros k index; cbn [check_pre].
  - split; [|reflexivity]. intros _ j s H. destruct j; discriminate.
  - split.
    + intros H j s0 Hj. destruct j as [|j]; cbn [nth_error] in Hj.
      * inversion Hj; subst. rewrite Nat.add_0_r.
        destruct (Nat.eqb k index); destruct s0; cbn [is_none] in H; try discriminate; congruence.
      * replace (k + S j)%nat with (S k + j)%nat by lia.
        assert (Hr : check_pre (S k) index r = None).
        { destruct (Nat.eqb k index); destruct (is_none s); try discriminate; exact H. }
        exact (proj1 (IH (S k) index) Hr j s0 Hj).
    + intros H. pose proof (H 0%nat s eq_refl) as H0. rewrite Nat.add_0_r in H0.
      assert (Hr : check_pre (S k) index r = None).
      { apply IH. intros j s0 Hj. replace (S k + j)%nat with (k + S j)%nat by lia.
        exact (H (S j) s0 Hj). }
      destruct (Nat.eqb k index).
      * subst s. exact Hr.
      * destruct s; cbn [is_none]; try exact Hr. congruence.
Qed.

Lemma sig_eqb_eq : forall a b, sig_eqb a b = true -> a = b.
Proof.
  intros [|x|x|] [|y|y|]; cbn [sig_eqb]; intros H; try discriminate; try reflexivity;
    apply N.eqb_eq in H; subst; reflexivity.
Qed.

Lemma sig_eqb_refl : forall a, a <> SBoth -> sig_eqb a a = true.
Proof.
  intros [|x|x|] H; cbn [sig_eqb]; try reflexivity; try apply N.eqb_refl. congruence.
Qed.

Lemma check_post_None : forall olds news k index, length olds = length news ->
  (check_post k index olds news = None <->
   (forall j o n, nth_error olds j = Some o -> nth_error news j = Some n ->
      if Nat.eqb (k + j) index then n <> SNone else sig_eqb o n = true)).
Proof.
  induction olds as [|o r IH]; intros news k index Hl; destruct news as [|n news];
    try discriminate; cbn [check_post].
  - split; [|reflexivity]. intros _ j o n H. destruct j; discriminate.
  - assert (Hl' : length r = length news) by (cbn in Hl; lia). split.
    + intros H j o0 n0 Ho Hn. destruct j as [|j]; cbn [nth_error] in Ho, Hn.
      * inversion Ho; inversion Hn; subst. rewrite Nat.add_0_r.
        destruct (Nat.eqb k index).
        -- destruct n0; cbn [is_none] in H; try discriminate; congruence.
        -- destruct (sig_eqb o0 n0); [reflexivity|discriminate].
      * replace (k + S j)%nat with (S k + j)%nat by lia.
        assert (Hr : check_post (S k) index r news = None).
        { destruct (Nat.eqb k index); [destruct (is_none n)|destruct (sig_eqb o n)];
            try discriminate; exact H. }
        exact (proj1 (IH news (S k) index Hl') Hr j o0 n0 Ho Hn).
    + intros H. pose proof (H 0%nat o n eq_refl eq_refl) as H0. rewrite Nat.add_0_r in H0.
      assert (Hr : check_post (S k) index r news = None).
      { apply (IH news (S k) index Hl'). intros j o0 n0 Ho Hn.
        replace (S k + j)%nat with (k + S j)%nat by lia. exact (H (S j) o0 n0 Ho Hn). }
      destruct (Nat.eqb k index).
      * destruct n; cbn [is_none]; try exact Hr. congruence.
      * rewrite H0. exact Hr.
Qed.

Lemma existsb_is_both_false : forall l,
  existsb is_both l = false <-> (forall j s, nth_error l j = Some s -> s <> SBoth).
Proof.
  induction l as [|a l IH]; cbn [existsb].
  - split; [|reflexivity]. intros _ j s H. destruct j; discriminate.
  - rewrite orb_false_iff, IH. split.
    + intros [Ha Hl] j s Hj. destruct j as [|j]; cbn [nth_error] in Hj.
      * inversion Hj; subst. destruct s; cbn in Ha; congruence.
      * exact (Hl j s Hj).
    + intros H. split.
      * pose proof (H 0%nat a eq_refl). destruct a; cbn; congruence.
      * intros j s Hj. exact (H (S j) s Hj).
Qed.

Lemma nth_error_map_pre : forall ins j s,
  nth_error (map pre ins) j = Some s <-> exists q, nth_error ins j = Some q /\ pre q = s.
Proof.
  intros ins j s. rewrite nth_error_map. destruct (nth_error ins j) as [q|]; cbn.
  - split; [intros H; inversion H; eauto|intros [q' [H1 H2]]; inversion H1; subst; reflexivity].
  - split; [discriminate|intros [q' [H1 _]]; discriminate].
Qed.

(* ------------------------------------------------------------ prechecks *)

Theorem prechecks_ok_iff : forall ins amount want bc i,
  prechecks ins amount want bc = inr i <-> PreClauses ins amount want bc i.
Proof.
  intros ins amount want bc i. unfold prechecks. split.
  - destruct (outgoing 0 ins) as [|[idx info] [|x l]] eqn:Hout; try discriminate.
    destruct (match o_runes info with Some (_ :: _) => false | _ => true end) eqn:Hrm;
      try discriminate.
    assert (Hru : o_runes info = None \/ o_runes info = Some []).
    { destruct (o_runes info) as [[|ru rus]|]; [right; reflexivity|discriminate|left; reflexivity]. }
    clear Hrm.
    destruct (o_insc info) as [[|ic [|ic2 ics]]|] eqn:Hic; try discriminate.
    destruct (N.eqb_spec ic want) as [Heq|]; cbn [negb]; try discriminate.
    destruct (N.ltb_spec I64_MAX amount) as [|Ham]; try discriminate.
    destruct (Z.eqb_spec bc (Z.of_N amount)) as [Hbc|]; cbn [negb]; try discriminate.
    destruct (existsb is_both (map pre ins)) eqn:Hboth; try discriminate.
    destruct (check_pre 0 idx (map pre ins)) eqn:Hpre; try discriminate.
    intros H; inversion H; subst i; clear H.
    assert (Hin : In (idx, info) (outgoing 0 ins)) by (rewrite Hout; left; reflexivity).
    apply outgoing_In in Hin. destruct Hin as [_ [p [Hp Hop]]]. rewrite Nat.sub_0_r in Hp.
    exists p, info.
    split; [exact Hp|]. split; [exact Hop|].
    split.
    { intros j q Hq Hoq. destruct (owned q) as [inf|] eqn:Ho; [|congruence].
      pose proof (In_outgoing ins 0 j q inf Hq Ho) as Hi. rewrite Hout in Hi.
      destruct Hi as [Hi|[]]. inversion Hi. reflexivity. }
    split; [exact Hru|]. split; [rewrite <- Heq; exact Hic|].
    split; [exact Ham|]. split; [exact Hbc|].
    split.
    { pose proof (proj1 (check_pre_None _ _ _) Hpre idx (pre p)) as Hs.
      rewrite Nat.eqb_refl in Hs. apply Hs. apply nth_error_map_pre. eauto. }
    intros j q Hq Hne.
    pose proof (proj1 (check_pre_None _ _ _) Hpre j (pre q)) as Hs.
    assert (Hm : nth_error (map pre ins) j = Some (pre q)) by (apply nth_error_map_pre; eauto).
    specialize (Hs Hm). cbn [Nat.add] in Hs.
    destruct (Nat.eqb_spec j idx); [contradiction|].
    pose proof (proj1 (existsb_is_both_false _) Hboth j (pre q) Hm) as Hb.
    destruct (pre q); cbn; auto.
  - intros [p [info [Hp [Hop [Huniq [Hru [Hic [Ham [Hbc [Hpre Hoth]]]]]]]]]].
    rewrite (outgoing_single ins 0 i p info Hp Hop Huniq). cbn [Nat.add].
    assert (Hr : match o_runes info with Some (_ :: _) => false | _ => true end = true)
      by (destruct Hru as [Hr|Hr]; rewrite Hr; reflexivity).
    rewrite Hr, Hic, N.eqb_refl. cbn [negb].
    destruct (N.ltb_spec I64_MAX amount) as [Hlt|_]; [lia|].
    subst bc. rewrite Z.eqb_refl. cbn [negb].
    assert (Hboth : existsb is_both (map pre ins) = false).
    { apply existsb_is_both_false. intros j s Hj. apply nth_error_map_pre in Hj.
      destruct Hj as [q [Hq Hs]]. subst s. destruct (Nat.eq_dec j i) as [->|Hne].
      - rewrite Hp in Hq. inversion Hq; subst. rewrite Hpre. discriminate.
      - pose proof (Hoth j q Hq Hne) as Hs. destruct (pre q); cbn in Hs; try contradiction; discriminate. }
    rewrite Hboth.
    assert (Hc : check_pre 0 i (map pre ins) = None).
    { apply check_pre_None. intros j s Hj. apply nth_error_map_pre in Hj.
      destruct Hj as [q [Hq Hs]]. subst s. cbn [Nat.add].
      destruct (Nat.eqb_spec j i) as [->|Hne].
      - rewrite Hp in Hq. inversion Hq; subst. exact Hpre.
      - pose proof (Hoth j q Hq Hne) as Hs. destruct (pre q); cbn in Hs; try contradiction; discriminate. }
    rewrite Hc. reflexivity.
Qed.

(* ------------------------------------------------------------ accept *)

Theorem accept_signed_iff : forall ins amount want bc post,
  accept ins amount want bc false post = Signed <->
  exists i, PreClauses ins amount want bc i /\ PostClauses ins post i.
Proof.
  intros ins amount want bc post. unfold accept. split.
  - destruct (prechecks ins amount want bc) as [r|i] eqn:Hpc; [discriminate|].
    destruct (Nat.eqb_spec (length post) (length ins)) as [Hlen|]; cbn [negb]; [|discriminate].
    destruct (existsb is_both post) eqn:Hboth; [discriminate|].
    destruct (check_post 0 i (map pre ins) post) eqn:Hpost; [discriminate|]. intros _.
    exists i. pose proof (proj1 (prechecks_ok_iff _ _ _ _ _) Hpc) as HP. split; [exact HP|].
    assert (Hl : length (map pre ins) = length post) by (rewrite map_length; lia).
    pose proof (proj1 (check_post_None _ _ 0 i Hl) Hpost) as HC.
    destruct HP as [p [info [Hp _]]].
    unfold PostClauses. repeat split.
    + exact Hlen.
    + exact (proj1 (existsb_is_both_false _) Hboth).
    + assert (Hi : (i < length post)%nat) by (rewrite Hlen; apply nth_error_Some; congruence).
      destruct (nth_error post i) as [n|] eqn:Hn; [|apply nth_error_None in Hn; lia].
      exists n. split; [reflexivity|].
      pose proof (HC i (pre p) n) as H. cbn [Nat.add] in H. rewrite Nat.eqb_refl in H.
      apply H; [apply nth_error_map_pre; eauto|exact Hn].
    + intros j q n Hne Hq Hn. pose proof (HC j (pre q) n) as H. cbn [Nat.add] in H.
      destruct (Nat.eqb_spec j i); [contradiction|].
      symmetry. apply sig_eqb_eq. apply H; [apply nth_error_map_pre; eauto|exact Hn].
  - intros [i [HP [Hlen [Hnb [[n [Hn Hnn]] Hsame]]]]].
    rewrite (proj2 (prechecks_ok_iff _ _ _ _ _) HP).
    rewrite Hlen, Nat.eqb_refl. cbn [negb].
    rewrite (proj2 (existsb_is_both_false _) Hnb).
    assert (Hl : length (map pre ins) = length post) by (rewrite map_length; lia).
    assert (Hc : check_post 0 i (map pre ins) post = None).
    { apply (check_post_None _ _ 0 i Hl). intros j o n0 Ho Hn0. cbn [Nat.add].
      apply nth_error_map_pre in Ho. destruct Ho as [q [Hq Ho]]. subst o.
      destruct (Nat.eqb_spec j i) as [->|Hne].
      - rewrite Hn in Hn0. inversion Hn0; subst. exact Hnn.
      - rewrite (Hsame j q n0 Hne Hq Hn0). apply sig_eqb_refl.
        destruct HP as [p [info [_ [_ [_ [_ [_ [_ [_ [_ Hoth]]]]]]]]]].
        pose proof (Hoth j q Hq Hne) as Hs. destruct (pre q); cbn in Hs; try contradiction; discriminate. }
    rewrite Hc. reflexivity.
Qed.

Theorem accept_dry_iff : forall ins amount want bc post,
  accept ins amount want bc true post = DryOk <-> exists i, PreClauses ins amount want bc i.
Proof.
  intros. unfold accept. split.
  - destruct (prechecks ins amount want bc) as [r|i] eqn:Hpc; [discriminate|]. intros _.
    exists i. apply prechecks_ok_iff. exact Hpc.
  - intros [i HP]. rewrite (proj2 (prechecks_ok_iff _ _ _ _ _) HP). reflexivity.
Qed.

(* the verdict is never Signed in a dry run, never DryOk otherwise *)
Lemma accept_dry_never_signs : forall ins amount want bc post,
  accept ins amount want bc true post <> Signed.
Proof. intros. unfold accept. destruct (prechecks ins amount want bc); discriminate. Qed.

Lemma accept_total : forall ins amount want bc post,
  accept ins amount want bc false post = Signed \/
  exists r, accept ins amount want bc false post = Reject r.
Proof.
  intros. unfold accept. destruct (prechecks ins amount want bc); [right; eauto|].
  destruct (negb _); [right; eauto|]. destruct (existsb _ _); [right; eauto|].
  destruct (check_post _ _ _ _); [right; eauto|left; reflexivity].
Qed.

Theorem accept_reject_complete : forall ins amount want bc post,
  ~ (exists i, PreClauses ins amount want bc i /\ PostClauses ins post i) ->
  exists r, accept ins amount want bc false post = Reject r.
Proof.
  intros ins amount want bc post H.
  destruct (accept_total ins amount want bc post) as [Hs|Hr]; [|exact Hr].
  exfalso. apply H. apply accept_signed_iff. exact Hs.
Qed.
