(* Lemmas for C36: settings precedence over the generated field tables. *)
From OrdV Require Import Base.Prelude Base.Wire Generated Server.Settings.

Definition NF : nat := 27.

Lemma nth_map3 {A B C D} (f : A -> B -> C -> D) da db dc dd :
  forall a b c i, (i < length a)%nat -> (i < length b)%nat -> (i < length c)%nat ->
  nth i (map3 f a b c) dd = f (nth i a da) (nth i b db) (nth i c dc).
Proof.
  induction a as [|x a IH]; intros b c i Ha Hb Hc; [cbn in Ha; lia|].
  destruct b as [|y b]; [cbn in Hb; lia|]. destruct c as [|z c]; [cbn in Hc; lia|].
  destruct i as [|i]; [reflexivity|]. cbn [map3 nth]. apply IH; cbn in *; lia.
Qed.

Lemma nth_map2 {A B C} (f : A -> B -> C) da db dc :
  forall a b i, (i < length a)%nat -> (i < length b)%nat ->
  nth i (map2 f a b) dc = f (nth i a da) (nth i b db).
Proof.
  induction a as [|x a IH]; intros b i Ha Hb; [cbn in Ha; lia|].
  destruct b as [|y b]; [cbn in Hb; lia|].
  destruct i as [|i]; [reflexivity|]. cbn [map2 nth]. apply IH; cbn in *; lia.
Qed.

Lemma length_map3 {A B C D} (f : A -> B -> C -> D) n :
  forall a b c, length a = n -> length b = n -> length c = n -> length (map3 f a b c) = n.
Proof.
  induction n as [|n IH]; intros a b c Ha Hb Hc.
  - destruct a; [reflexivity|discriminate].
  - destruct a as [|x a]; [discriminate|]. destruct b as [|y b]; [discriminate|]. destruct c as [|z c]; [discriminate|].
    cbn [map3 length]. f_equal. apply IH; cbn in *; lia.
Qed.

Lemma length_map2 {A B C} (f : A -> B -> C) n :
  forall a b, length a = n -> length b = n -> length (map2 f a b) = n.
Proof.
  induction n as [|n IH]; intros a b Ha Hb.
  - destruct a; [reflexivity|discriminate].
  - destruct a as [|x a]; [discriminate|]. destruct b as [|y b]; [discriminate|].
    cbn [map2 length]. f_equal. apply IH; cbn in *; lia.
Qed.

(* ---------------- facts about the generated tables ---------------- *)
Lemma tables_length :
  length SETTINGS_KIND = NF /\ length SETTINGS_OR = NF /\ length SETTINGS_FROM_OPTIONS = NF /\
  length SETTINGS_FROM_ENV = NF /\ length SETTINGS_DEFAULT_KIND = NF /\ length SETTINGS_DEFAULT_CONST = NF /\
  SETTINGS_FIELD_COUNT = N.of_nat NF.
Proof. repeat split; reflexivity. Qed.

(* every line of Settings::or uses the combinator of its field's type:
   Option -> self.x.or(source.x), bool -> ||, set -> union *)
Lemma table_or i : (i < NF)%nat -> nth i SETTINGS_OR 9 = nth i SETTINGS_KIND 9.
Proof. intros H. unfold NF in H. do 27 (destruct i as [|i]; [reflexivity|]). lia. Qed.

(* every field is read from its ORD_ variable with the reader of its type *)
Lemma table_env i : (i < NF)%nat -> nth i SETTINGS_FROM_ENV 9 = nth i SETTINGS_KIND 9 + 1.
Proof. intros H. unfold NF in H. do 27 (destruct i as [|i]; [reflexivity|]). lia. Qed.

Lemma table_merge_order : SETTINGS_MERGE_ORDER = [0; 1; 2].
Proof. reflexivity. Qed.

(* ---------------- per-field behaviour ---------------- *)
Definition first_some (l : list (option N)) : option N := fold_right or_opt None l.

Section Merge.
  Variables (fl : list bool) (flags config : settings) (env : list (option N)).
  Hypothesis Lf : length flags = NF.
  Hypothesis Le : length env = NF.
  Hypothesis Lc : length config = NF.
  Variable i : nat.
  Hypothesis Hi : (i < NF)%nat.

  (* what each source supplies for field i *)
  Definition src_flag : fval := from_options_field fl (nth i SETTINGS_FROM_OPTIONS 9) (nth i flags fempty).
  Definition src_env : fval := from_env_field (nth i SETTINGS_FROM_ENV 9) (nth i env None).
  Definition src_config : fval := nth i config fempty.

  Let o := from_options fl flags.
  Let e := from_env env.

  Lemma nth_from_options : nth i o fempty = src_flag.
  Proof.
    unfold o, from_options, src_flag. apply nth_map2; [|rewrite Lf; exact Hi].
    destruct tables_length as (_ & _ & L & _). rewrite L. exact Hi.
  Qed.

  Lemma nth_from_env : nth i e fempty = src_env.
  Proof.
    unfold e, from_env, src_env. apply nth_map2; [|rewrite Le; exact Hi].
    destruct tables_length as (_ & _ & _ & L & _). rewrite L. exact Hi.
  Qed.

  Lemma length_o : length o = NF.
  Proof. unfold o, from_options. apply length_map2; [apply tables_length|exact Lf]. Qed.
  Lemma length_e : length e = NF.
  Proof. unfold e, from_env. apply length_map2; [apply tables_length|exact Le]. Qed.

  Lemma nth_merge_sources :
    nth i (merge_sources o e config) fempty =
      or_field (nth i SETTINGS_OR 9) (or_field (nth i SETTINGS_OR 9) src_flag src_env) src_config.
  Proof.
    unfold merge_sources. rewrite table_merge_order. cbn [source_of]. unfold settings_or.
    destruct tables_length as (_ & LO & _).
    rewrite (nth_map3 or_field 9 fempty fempty fempty);
      [|rewrite LO; exact Hi| |rewrite Lc; exact Hi].
    2:{ rewrite (length_map3 or_field NF); [exact Hi|exact LO|exact length_o|exact length_e]. }
    rewrite (nth_map3 or_field 9 fempty fempty fempty);
      [|rewrite LO; exact Hi|rewrite length_o; exact Hi|rewrite length_e; exact Hi].
    now rewrite nth_from_options, nth_from_env.
  Qed.

  Lemma length_merge_sources : length (merge_sources o e config) = NF.
  Proof.
    unfold merge_sources. rewrite table_merge_order. cbn [source_of]. unfold settings_or.
    destruct tables_length as (_ & LO & _).
    apply length_map3; [exact LO| |exact Lc]. apply length_map3; [exact LO|exact length_o|exact length_e].
  Qed.

  (* Option fields: the first source that has a value wins, in the order flag, environment, config *)
  Theorem merged_option : nth i SETTINGS_KIND 9 = 0 ->
    f_opt (nth i (merge_sources o e config) fempty) = first_some [f_opt src_flag; f_opt src_env; f_opt src_config].
  Proof.
    intros K. rewrite nth_merge_sources, (table_or i Hi), K.
    destruct src_flag as [[a1 b1] s1], src_env as [[a2 b2] s2], src_config as [[a3 b3] s3].
    cbn [or_field f_opt fst snd first_some fold_right]. destruct a1, a2, a3; reflexivity.
  Qed.

  (* switches: on iff some source sets it *)
  Theorem merged_bool : nth i SETTINGS_KIND 9 = 1 ->
    f_bool (nth i (merge_sources o e config) fempty) = f_bool src_flag || f_bool src_env || f_bool src_config.
  Proof.
    intros K. rewrite nth_merge_sources, (table_or i Hi), K.
    destruct src_flag as [[a1 b1] s1], src_env as [[a2 b2] s2], src_config as [[a3 b3] s3].
    reflexivity.
  Qed.

  (* sets: the union of all sources *)
  Theorem merged_set : nth i SETTINGS_KIND 9 = 2 ->
    f_set (nth i (merge_sources o e config) fempty) = f_set src_flag ++ f_set src_env ++ f_set src_config.
  Proof.
    intros K. rewrite nth_merge_sources, (table_or i Hi), K.
    destruct src_flag as [[a1 b1] s1], src_env as [[a2 b2] s2], src_config as [[a3 b3] s3].
    cbn [or_field f_set snd]. now rewrite app_assoc.
  Qed.

  (* defaults apply last and only to the option slot *)
  Definition with_default (kind const : N) (o : option N) : option N :=
    match kind with
    | 1 => Some (match o with Some x => x | None => const end)
    | 2 => None
    | 3 => Some (match o with Some x => x | None => 0 end)
    | _ => o
    end.

  Lemma nth_or_defaults s : length s = NF ->
    let v := nth i (or_defaults s) fempty in
    f_opt v = with_default (nth i SETTINGS_DEFAULT_KIND 9) (nth i SETTINGS_DEFAULT_CONST 9) (f_opt (nth i s fempty)) /\
    f_bool v = f_bool (nth i s fempty) /\ f_set v = f_set (nth i s fempty).
  Proof.
    intros Ls. cbv zeta. unfold or_defaults.
    destruct tables_length as (_ & _ & _ & _ & LK & LC & _).
    rewrite (nth_map3 default_field 9 9 fempty); [|rewrite LK; exact Hi|rewrite LC; exact Hi|rewrite Ls; exact Hi].
    destruct (nth i s fempty) as [[a b] t]. unfold default_field, with_default.
    destruct (nth i SETTINGS_DEFAULT_KIND 9) as [|[[q|q|]|[q|q|]|]]; repeat split; reflexivity.
  Qed.

  Definition resolved : fval := nth i (or_defaults (merge_sources o e config)) fempty.

  Theorem resolved_option : nth i SETTINGS_KIND 9 = 0 ->
    f_opt resolved = with_default (nth i SETTINGS_DEFAULT_KIND 9) (nth i SETTINGS_DEFAULT_CONST 9)
                       (first_some [f_opt src_flag; f_opt src_env; f_opt src_config]).
  Proof.
    intros K. unfold resolved. destruct (nth_or_defaults _ length_merge_sources) as (E & _ & _).
    rewrite E. now rewrite merged_option.
  Qed.

  Theorem resolved_bool : nth i SETTINGS_KIND 9 = 1 ->
    f_bool resolved = f_bool src_flag || f_bool src_env || f_bool src_config.
  Proof.
    intros K. unfold resolved. destruct (nth_or_defaults _ length_merge_sources) as (_ & E & _).
    rewrite E. now apply merged_bool.
  Qed.

  Theorem resolved_set : nth i SETTINGS_KIND 9 = 2 ->
    forall x, In x (f_set resolved) <-> In x (f_set src_flag) \/ In x (f_set src_env) \/ In x (f_set src_config).
  Proof.
    intros K x. unfold resolved. destruct (nth_or_defaults _ length_merge_sources) as (_ & _ & E).
    rewrite E, merged_set by exact K. rewrite !in_app_iff. tauto.
  Qed.
End Merge.

(* the chain switches are consulted in the order of the generated table; --chain comes last *)
Lemma chain_of_flags_first tbl fl : forall pre k ch post,
  tbl = pre ++ (k, ch) :: post ->
  (forall k' ch', In (k', ch') pre -> nth (N.to_nat k') fl false = false) ->
  nth (N.to_nat k) fl false = true ->
  chain_of_flags tbl fl = Some ch.
Proof.
  intros pre. revert tbl. induction pre as [|[k0 c0] pre IH]; intros tbl k ch post -> Hpre Hk.
  - cbn [app chain_of_flags]. now rewrite Hk.
  - cbn [app chain_of_flags]. rewrite (Hpre k0 c0) by now left.
    eapply IH; [reflexivity| |exact Hk]. intros k' ch' Hin. apply (Hpre k' ch'). now right.
Qed.

Lemma chain_of_flags_none tbl fl :
  (forall k ch, In (k, ch) tbl -> nth (N.to_nat k) fl false = false) -> chain_of_flags tbl fl = None.
Proof.
  induction tbl as [|[k c] tbl IH]; intros H; [reflexivity|].
  cbn [chain_of_flags]. rewrite (H k c) by now left. apply IH. intros k' ch' Hin. apply (H k' ch'). now right.
Qed.
Lemma flag_env_config_default : forall fl flags config env i,
  length flags = NF -> length env = NF -> length config = NF -> (i < NF)%nat ->
  nth i SETTINGS_KIND 9 = 0 -> nth i SETTINGS_DEFAULT_KIND 9 <> 2 ->
  let r := f_opt (resolved fl flags config env i) in
  (forall v, f_opt (src_flag fl flags i) = Some v -> r = Some v) /\
  (f_opt (src_flag fl flags i) = None -> forall v, f_opt (src_env env i) = Some v -> r = Some v) /\
  (f_opt (src_flag fl flags i) = None -> f_opt (src_env env i) = None ->
   forall v, f_opt (src_config config i) = Some v -> r = Some v) /\
  (f_opt (src_flag fl flags i) = None -> f_opt (src_env env i) = None -> f_opt (src_config config i) = None ->
   r = with_default (nth i SETTINGS_DEFAULT_KIND 9) (nth i SETTINGS_DEFAULT_CONST 9) None).
Proof.
  intros fl flags config env i Lf Le Lc Hi K D r. unfold r.
  rewrite (resolved_option fl flags config env Lf Le Lc i Hi K).
  assert (W : forall v, with_default (nth i SETTINGS_DEFAULT_KIND 9) (nth i SETTINGS_DEFAULT_CONST 9) (Some v) = Some v).
  { intros v. unfold with_default. destruct (nth i SETTINGS_DEFAULT_KIND 9) as [|[[q|q|]|[q|q|]|]]; try reflexivity.
    now contradiction D. }
  repeat split.
  - intros v E. rewrite E. cbn [first_some fold_right or_opt]. apply W.
  - intros E1 v E2. rewrite E1, E2. cbn [first_some fold_right or_opt]. apply W.
  - intros E1 E2 v E3. rewrite E1, E2, E3. cbn [first_some fold_right or_opt]. apply W.
  - intros E1 E2 E3. now rewrite E1, E2, E3.
Qed.

