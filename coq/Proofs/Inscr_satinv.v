(* C03, sat level: in every reachable state (sat index on) a bound inscription's recorded sat is the sat found
   at its recorded offset in the sat ranges of the output that holds it. *)
From OrdV Require Import Base.Prelude Generated Index.Inscr Proofs.Inscr_tables Proofs.Inscr_proofs
  Proofs.Inscr_c07 Proofs.Inscr_c04 Proofs.Inscr_c03 Proofs.Inscr_sats Proofs.Inscr_c04off.
From Coq Require Import Permutation Sorting.Sorted ZifyBool ZifyN.

(* ---- sizes *)

Lemma take_sats_size : forall fuel remaining rs acc mine rest,
  take_sats fuel remaining rs acc = Ok (mine, rest) -> ranges_size rs = remaining + ranges_size rest.
Proof.
  intros fuel. induction fuel as [|fu IH]; intros remaining rs acc mine rest H; cbn [take_sats] in H.
  - destruct (N.eqb_spec remaining 0); [|discriminate]. inv H. lia.
  - destruct (N.eqb_spec remaining 0); [inv H; lia|].
    destruct rs as [|[s e] r]; [discriminate|]. destruct (N.ltb_spec remaining (e - s)).
    + inv H. cbn [ranges_size fold_right fst snd]. fold (ranges_size r). lia.
    + apply IH in H. cbn [ranges_size fold_right fst snd]. fold (ranges_size r). lia.
Qed.

Lemma split_sats_size : forall outs rs per_out lft,
  split_sats outs rs = Ok (per_out, lft) -> ranges_size rs = sum_values outs + ranges_size lft.
Proof.
  intros outs. induction outs as [|o r IH]; intros rs per_out lft H; cbn [split_sats] in H.
  - inv H. cbn. lia.
  - dbind H. destruct a as [mine rest]. dbind H. destruct a as [others l2]. inv H.
    apply take_sats_size in E. apply IH in E0. cbn [sum_values fold_right]. fold (sum_values r). lia.
Qed.

Lemma ranges_size_concat : forall (l : list uentry),
  ranges_size (concat (map u_ranges l)) = fold_right (fun u a => ranges_size (u_ranges u) + a) 0 l.
Proof.
  induction l as [|u r IH]; cbn [map concat fold_right]; [reflexivity|]. rewrite ranges_size_app, IH. reflexivity.
Qed.

(* ---- where an old flotsam of a transaction comes from *)

Definition in_start (cfg : config) (base : N) (cur : list uentry) (i : nat) : N :=
  base + fold_right (fun u a => total_value cfg u + a) 0 (firstn i cur).

Lemma inputs_loop_old_src : forall cfg st txid height jubilant tov ins idx pre cur envs a a',
  length pre = N.to_nat idx -> length cur = length ins ->
  forallb (fun p => negb (is_null p)) ins = true ->
  inputs_loop cfg st txid height jubilant tov ins idx (pre ++ cur) envs a = Ok a' ->
  a_tiv a' = in_start cfg (a_tiv a) cur (length cur) /\
  forall f seq, In f (a_float a') -> f_origin f = OOld seq ->
    In f (a_float a) \/
    exists i u off, nth_error cur i = Some u /\ In (seq, off) (u_insc u) /\
      f_offset f = in_start cfg (a_tiv a) cur i + off.
Proof.
  intros cfg st txid height jubilant tov ins. induction ins as [|prev r IH]; intros idx pre cur envs a a' L1 L2 NN H; cbn [inputs_loop] in H.
  - inv H. destruct cur; [|discriminate]. unfold in_start. cbn. split; [lia|auto].
  - cbn [forallb] in NN. apply andb_true_iff in NN. destruct NN as [N1 N2].
    destruct (is_null prev); [discriminate|]. destruct cur as [|u cur']; [discriminate|].
    assert (Hn : nth_error (pre ++ u :: cur') (N.to_nat idx) = Some u).
    { rewrite nth_error_app2 by lia. rewrite <- L1, Nat.sub_diag. reflexivity. }
    rewrite Hn in H. dbind H. destruct a0 as [fl io]. destruct (span_input idx envs) as [mine rest].
    dbind H. rename a0 into a1.
    replace (pre ++ u :: cur') with ((pre ++ [u]) ++ cur') in H by (rewrite <- app_assoc; reflexivity).
    apply IH in H; [| rewrite app_length; cbn; lia | cbn in L2; lia | exact N2].
    destruct H as [T H]. destruct (news_offsets _ _ _ _ _ _ _ _ _ E0) as [T1 Hnews]. cbn [a_tiv a_float] in *.
    split.
    + rewrite T, T1. unfold in_start. cbn [length firstn fold_right]. lia.
    + intros f seq Hf Ho. destruct (H f seq Hf Ho) as [Hin|(i & u' & off & A & B & C)].
      * destruct (Hnews f Hin) as [Hin2|(Hn' & _)]; [|unfold is_new in Hn'; rewrite Ho in Hn'; discriminate].
        destruct (olds_offsets _ _ _ _ _ _ _ E f Hin2) as [Hin3|(s & off & A & B & C)]; auto.
        right. exists 0%nat, u, off. rewrite Ho in B. inv B. cbn [nth_error]. split; auto. split.
        -- eapply Permutation_in; [apply sort_by_perm|]. exact A.
        -- unfold in_start. cbn. lia.
      * right. exists (S i), u', off. cbn [nth_error]. split; auto. split; auto.
        rewrite C, T1. unfold in_start. cbn [firstn fold_right]. lia.
Qed.
