(* C03, sat level: in every reachable state (sat index on) a bound inscription's recorded sat is the sat found
   at its recorded offset in the sat ranges of the output that holds it. *)
From OrdV Require Import Base.Prelude Generated Index.Inscr Proofs.Inscr_tables Proofs.Inscr_proofs
  Proofs.Inscr_c07 Proofs.Inscr_c04 Proofs.Inscr_c03 Proofs.Inscr_sats Proofs.Inscr_c04off.
From Coq Require Import Permutation Sorting.Sorted ZifyBool ZifyN.

(* ---- sizes *)

Lemma take_sats_size : forall fuel remaining rs acc mine rest,
  take_sats fuel remaining rs acc = Ok (mine, rest) -> ranges_size rs = remaining + ranges_size rest.
Proof.
  intros fuel. induction fuel as [|fu IH]; intros remaining rs acc mine rest H; cbn [take_sats] in H.
  - destruct (N.eqb_spec remaining 0); [|discriminate]. inv H. lia.
  - destruct (N.eqb_spec remaining 0); [inv H; lia|].
    destruct rs as [|[s e] r]; [discriminate|]. destruct (N.ltb_spec remaining (e - s)).
    + inv H. cbn [ranges_size fold_right fst snd]. fold (ranges_size r). lia.
    + apply IH in H. cbn [ranges_size fold_right fst snd]. fold (ranges_size r). lia.
Qed.

Lemma split_sats_size : forall outs rs per_out lft,
  split_sats outs rs = Ok (per_out, lft) -> ranges_size rs = sum_values outs + ranges_size lft.
Proof.
  intros outs. induction outs as [|o r IH]; intros rs per_out lft H; cbn [split_sats] in H.
  - inv H. cbn. lia.
  - dbind H. destruct a as [mine rest]. dbind H. destruct a as [others l2]. inv H.
    apply take_sats_size in E. apply IH in E0. cbn [sum_values fold_right]. fold (sum_values r). lia.
Qed.

Lemma ranges_size_concat : forall (l : list uentry),
  ranges_size (concat (map u_ranges l)) = fold_right (fun u a => ranges_size (u_ranges u) + a) 0 l.
Proof.
  induction l as [|u r IH]; cbn [map concat fold_right]; [reflexivity|]. rewrite ranges_size_app, IH. reflexivity.
Qed.

(* ---- where an old flotsam of a transaction comes from *)

Definition in_start (cfg : config) (base : N) (cur : list uentry) (i : nat) : N :=
  base + fold_right (fun u a => total_value cfg u + a) 0 (firstn i cur).

Lemma inputs_loop_old_src : forall cfg st txid height jubilant tov ins idx pre cur envs a a',
  length pre = N.to_nat idx -> length cur = length ins ->
  forallb (fun p => negb (is_null p)) ins = true ->
  inputs_loop cfg st txid height jubilant tov ins idx (pre ++ cur) envs a = Ok a' ->
  a_tiv a' = in_start cfg (a_tiv a) cur (length cur) /\
  forall f seq, In f (a_float a') -> f_origin f = OOld seq ->
    In f (a_float a) \/
    exists i u off, nth_error cur i = Some u /\ In (seq, off) (u_insc u) /\
      f_offset f = in_start cfg (a_tiv a) cur i + off.
Proof.
  intros cfg st txid height jubilant tov ins. induction ins as [|prev r IH]; intros idx pre cur envs a a' L1 L2 NN H; cbn [inputs_loop] in H.
  - inv H. destruct cur; [|discriminate]. unfold in_start. cbn. split; [lia|auto].
  - cbn [forallb] in NN. apply andb_true_iff in NN. destruct NN as [N1 N2].
    destruct (is_null prev); [discriminate|]. destruct cur as [|u cur']; [discriminate|].
    assert (Hn : nth_error (pre ++ u :: cur') (N.to_nat idx) = Some u).
    { rewrite nth_error_app2 by lia. rewrite <- L1, Nat.sub_diag. reflexivity. }
    rewrite Hn in H. dbind H. destruct a0 as [fl io]. destruct (span_input idx envs) as [mine rest].
    dbind H. rename a0 into a1.
    replace (pre ++ u :: cur') with ((pre ++ [u]) ++ cur') in H by (rewrite <- app_assoc; reflexivity).
    apply IH in H; [| rewrite app_length; cbn; lia | cbn in L2; lia | exact N2].
    destruct H as [T H]. destruct (news_offsets _ _ _ _ _ _ _ _ _ E0) as [T1 Hnews]. cbn [a_tiv a_float] in *.
    split.
    + rewrite T, T1. unfold in_start. cbn [length firstn fold_right]. lia.
    + intros f seq Hf Ho. destruct (H f seq Hf Ho) as [Hin|(i & u' & off & A & B & C)].
      * destruct (Hnews f Hin) as [Hin2|(Hn' & _)]; [|unfold is_new in Hn'; rewrite Ho in Hn'; discriminate].
        destruct (olds_offsets _ _ _ _ _ _ _ E f Hin2) as [Hin3|(s & off & A & B & C)]; auto.
        right. exists 0%nat, u, off. rewrite Ho in B. inv B. cbn [nth_error]. split; auto. split.
        -- eapply Permutation_in; [apply sort_by_perm|]. exact A.
        -- unfold in_start. cbn. lia.
      * right. exists (S i), u', off. cbn [nth_error]. split; auto. split; auto.
        rewrite C, T1. unfold in_start. cbn [firstn fold_right]. lia.
Qed.

(* ---- the invariant *)

Definition sat_at (E : list (N * ientry)) (rs : list (N * N)) (s off : N) : Prop :=
  forall e n, tgN s E = Some e -> i_sat e = Some n -> calc_sat_in rs 0 off = Ok n.

Definition eranges (lostr : list (N * N)) (op : outpoint) (u : uentry) : list (N * N) :=
  if is_null op then u_ranges u ++ lostr else u_ranges u.

Definition entry_at (op : outpoint) (U : list (outpoint * uentry)) : uentry :=
  match tgP op U with Some e => e | None => empty_entry end.

Definition EntInv (E : list (N * ientry)) (U : list (outpoint * uentry)) (lostr : list (N * N)) : Prop :=
  forall op u, tgP op U = Some u -> op <> unbound_op ->
    forall s off, In (s, off) (u_insc u) -> sat_at E (eranges lostr op u) s off.

Definition KeyU (E : list (N * ientry)) (U : list (outpoint * uentry)) : Prop :=
  forall op u s off, tgP op U = Some u -> In (s, off) (u_insc u) -> tgN s E <> None.

(* entries only grow, and an existing entry keeps its sat *)
Definition Ext (E E' : list (N * ientry)) : Prop :=
  forall s e, tgN s E = Some e -> exists e', tgN s E' = Some e' /\ i_sat e' = i_sat e.

Lemma sat_at_ext : forall E E' rs s off, Ext E E' -> tgN s E <> None -> sat_at E rs s off -> sat_at E' rs s off.
Proof.
  intros E E' rs s off HX Hk H e' n He' Hn. destruct (tgN s E) as [e|] eqn:Q; [|congruence].
  destruct (HX s e Q) as (e2 & A & B). rewrite He' in A. inv A. apply (H e n); auto. congruence.
Qed.

Lemma new_sat_shape : forall h rs f sp o b b' c fee hid ps re ub vi,
  f_origin f = ONew c fee hid ps re ub vi ->
  update_location h (Some rs) f sp o b = Ok b' ->
  exists e, s_entries (b_st b') = tset N.eqb (b_next b) e (s_entries (b_st b)) /\
    (ub = true -> i_sat e = None) /\
    (forall n, i_sat e = Some n -> calc_sat_in rs 0 (f_offset f) = Ok n).
Proof.
  intros h rs f sp o b b' c fee hid ps re ub vi Ho H.
  unfold update_location in H. rewrite Ho in H.
  dbind H. destruct a as [[number bl] cu]. dbind H. rename a into sat. dbind H. destruct a as [st1 pseqs].
  apply link_parents_core in E1. destruct E1 as (L1 & _). cbn [s_entries] in L1.
  assert (Hs : (ub = true -> sat = None) /\ (forall n, sat = Some n -> calc_sat_in rs 0 (f_offset f) = Ok n)).
  { destruct ub; [inv E0; split; auto; discriminate|]. split; [discriminate|].
    cbn in E0. destruct (calc_sat_in rs 0 (f_offset f)) eqn:Q; cbn in E0; inv E0. intros n Hn. inv Hn. reflexivity. }
  destruct ub; inv H; cbn [b_st s_entries]; rewrite L1; eexists; (split; [reflexivity|]); cbn [i_sat]; exact Hs.
Qed.

Lemma Ext_step : forall h rg f sp o b b',
  DomIff (b_next b) (s_entries (b_st b)) ->
  update_location h rg f sp o b = Ok b' -> Ext (s_entries (b_st b)) (s_entries (b_st b')).
Proof.
  intros h rg f sp o b b' D H s e He. destruct (f_origin f) as [c fee hid ps re ub vi|seq] eqn:Ho.
  - destruct (update_new_shape _ _ _ _ _ _ _ _ _ _ _ _ _ _ Ho H) as (e0 & [S1 S2 S3 S4 S5 _ _ _ _ _ _ _]).
    rewrite S5. exists e. rewrite tgN_set. destruct (N.eqb_spec s (b_next b)); auto.
    subst. exfalso. assert (b_next b < b_next b) by (apply D; congruence). lia.
  - destruct (update_old_shape _ _ _ _ _ _ _ _ Ho H) as (_ & _ & _ & _ & _ & _ & _ & [O8|(e0 & He0 & O8)]); rewrite O8; eauto.
    rewrite tgN_set. destruct (N.eqb_spec s seq); eauto. subst. rewrite He0 in He. inv He. eexists. split; [reflexivity|]. reflexivity.
Qed.

Lemma tg_push : forall op s off U op' u',
  tgP op' (push_insc op s off U) = Some u' ->
  (tgP op' U = Some u' /\ op' <> op) \/
  (op' = op /\ u_ranges u' = u_ranges (entry_at op U) /\
   forall p, In p (u_insc u') -> p = (s, off) \/ (In p (u_insc (entry_at op U)) /\ (tgP op U <> None))).
Proof.
  intros op s off U op' u' H. unfold push_insc in H. rewrite tgP_set in H. destruct (pair_eqb op' op) eqn:Q.
  - apply pair_eqb_eq in Q. subst op'. inv H. right. unfold entry_at. split; auto. split; auto. cbn [u_insc]. intros p Hp.
    apply in_app_or in Hp. destruct Hp as [Hp|[Hp|[]]]; auto. right. split; auto.
    destruct (tgP op U); [discriminate|]. cbn in Hp. contradiction.
  - left. split; auto. intro. subst. rewrite pair_eqb_refl in Q. discriminate.
Qed.

(* one application of update_inscription_location *)
Lemma step_sat : forall h rs f sp o b b' lostr,
  DomIff (b_next b) (s_entries (b_st b)) ->
  EntInv (s_entries (b_st b)) (s_utxo (b_st b)) lostr -> KeyU (s_entries (b_st b)) (s_utxo (b_st b)) ->
  (forall s, f_origin f = OOld s -> tgN s (s_entries (b_st b)) <> None /\ sat_at (s_entries (b_st b)) rs s (f_offset f)) ->
  (fst sp <> unbound_op -> forall n, calc_sat_in rs 0 (f_offset f) = Ok n ->
     calc_sat_in (eranges lostr (fst sp) (entry_at (fst sp) (s_utxo (b_st b)))) 0 (snd sp) = Ok n) ->
  update_location h (Some rs) f sp o b = Ok b' ->
  EntInv (s_entries (b_st b')) (s_utxo (b_st b')) lostr /\ KeyU (s_entries (b_st b')) (s_utxo (b_st b')).
Proof.
  intros h rs f sp o b b' lostr D HE HK FS TS H.
  pose proof (Ext_step _ _ _ _ _ _ _ D H) as HX.
  destruct (update_utxo_shape _ _ _ _ _ _ _ H) as (op & s & off & U & Hc). rewrite U.
  assert (Hkey : forall x, tgN x (s_entries (b_st b)) <> None -> tgN x (s_entries (b_st b')) <> None).
  { intros x Hx. destruct (tgN x (s_entries (b_st b))) as [e|] eqn:Q; [|congruence]. destruct (HX x e Q) as (e' & A & _). congruence. }
  assert (Hnew : tgN s (s_entries (b_st b')) <> None /\
                 (op <> unbound_op -> sat_at (s_entries (b_st b')) (eranges lostr op (entry_at op (s_utxo (b_st b)))) s off)).
  { destruct Hc as [(seq & A1 & A2 & A3 & A4)|(A1 & A2 & A3 & A4)].
    - subst s. destruct (FS seq A1) as [F1 F2]. split; auto. intro Hne. inv A4. cbn [fst snd] in TS.
      intros e n He Hn. apply TS; auto. destruct (tgN seq (s_entries (b_st b))) as [e0|] eqn:Q; [|congruence].
      destruct (HX seq e0 Q) as (e' & B1 & B2). rewrite He in B1. inv B1. apply (F2 e0 n); auto. congruence.
    - unfold is_new in A1. destruct (f_origin f) as [c fee hid ps re ub vi|] eqn:Ho; [|discriminate].
      destruct (new_sat_shape _ _ _ _ _ _ _ _ _ _ _ _ _ _ Ho H) as (e0 & N1 & N2 & N3). subst s.
      split; [rewrite N1, tgN_set, N.eqb_refl; discriminate|].
      intros Hne e n He Hn. rewrite N1, tgN_set, N.eqb_refl in He. inv He.
      destruct A4 as [A4|A4]; [|contradiction]. inv A4. cbn [fst snd] in TS. apply TS; auto. }
  destruct Hnew as [Hn1 Hn2]. split.
  - intros op' u' Hin Hne s' off' Hp. apply tg_push in Hin. destruct Hin as [[Hin _]|(-> & R & Hps)].
    + eapply sat_at_ext; [exact HX | eapply HK; eauto | eapply HE; eauto].
    + assert (Q : eranges lostr op u' = eranges lostr op (entry_at op (s_utxo (b_st b)))) by (unfold eranges; rewrite R; reflexivity).
      rewrite Q. destruct (Hps _ Hp) as [Hq|[Hq Hq2]].
      * inv Hq. apply Hn2. exact Hne.
      * unfold entry_at in *. destruct (tgP op (s_utxo (b_st b))) as [e0|] eqn:T; [|congruence].
        eapply sat_at_ext; [exact HX | eapply HK; eauto | eapply HE; eauto].
  - intros op' u' s' off' Hin Hp. apply tg_push in Hin. destruct Hin as [[Hin _]|(-> & R & Hps)].
    + apply Hkey. eapply HK; eauto.
    + destruct (Hps _ Hp) as [Hq|[Hq Hq2]].
      * inv Hq. exact Hn1.
      * unfold entry_at in *. destruct (tgP op (s_utxo (b_st b))) as [e0|] eqn:T; [|congruence].
        apply Hkey. eapply (HK op e0); eauto.
Qed.

(* ---- lists of flotsam *)

Definition FlInv (E : list (N * ientry)) (rs : list (N * N)) (l : list flotsam) : Prop :=
  forall f s, In f l -> f_origin f = OOld s -> tgN s E <> None /\ sat_at E rs s (f_offset f).

Lemma Ext_refl : forall E, Ext E E.
Proof. intros E s e H. eauto. Qed.

Lemma Ext_trans : forall A B C, Ext A B -> Ext B C -> Ext A C.
Proof.
  intros A B C H1 H2 s e He. destruct (H1 s e He) as (e1 & X1 & Y1). destruct (H2 s e1 X1) as (e2 & X2 & Y2).
  exists e2. split; auto. congruence.
Qed.

Lemma Ext_key : forall E E' s, Ext E E' -> tgN s E <> None -> tgN s E' <> None.
Proof.
  intros E E' s HX H. destruct (tgN s E) as [e|] eqn:Q; [|congruence]. destruct (HX s e Q) as (e' & A & _). congruence.
Qed.

Lemma FlInv_ext : forall E E' rs l, Ext E E' -> FlInv E rs l -> FlInv E' rs l.
Proof.
  intros E E' rs l HX H f s Hf Ho. destruct (H f s Hf Ho) as [A B]. split; [eapply Ext_key; eauto|].
  eapply sat_at_ext; eauto.
Qed.

Definition OutsR (txid : N) (outs : list txout) (per_out : list (list (N * N))) (U : list (outpoint * uentry)) : Prop :=
  forall k o, nth_error outs k = Some o ->
    exists u, tgP (txid, N.of_nat k) U = Some u /\ u_ranges u = nth k per_out [].

Lemma entry_at_push_ranges : forall op s off U k,
  u_ranges (entry_at k (push_insc op s off U)) = u_ranges (entry_at k U).
Proof.
  intros op s off U k. unfold entry_at, push_insc. rewrite tgP_set. destruct (pair_eqb k op) eqn:E; auto.
  apply pair_eqb_eq in E. subst. destruct (tgP op U); reflexivity.
Qed.

Lemma OutsR_push : forall txid outs per_out op s off U,
  OutsR txid outs per_out U -> OutsR txid outs per_out (push_insc op s off U).
Proof.
  intros txid outs per_out op s off U H k o Hk. destruct (H k o Hk) as (u & A & B).
  pose proof (entry_at_push_ranges op s off U (txid, N.of_nat k)) as Q. unfold entry_at in Q at 2. rewrite A in Q.
  unfold entry_at in Q. destruct (tgP (txid, N.of_nat k) (push_insc op s off U)) as [u'|] eqn:T.
  - exists u'. split; auto. congruence.
  - exfalso. unfold push_insc in T. rewrite tgP_set in T. destruct (pair_eqb (txid, N.of_nat k) op); congruence.
Qed.

Lemma is_null_real : forall txid v, txid <> 0 -> is_null (txid, v) = false.
Proof.
  intros txid v H. unfold is_null, pair_eqb, null_op. cbn [fst snd]. destruct (N.eqb_spec txid 0); [contradiction|reflexivity].
Qed.

Lemma apply_locs_sat : forall h rs txid outs per_out lft lostr locs b b',
  txid <> 0 -> split_sats outs rs = Ok (per_out, lft) ->
  DomIff (b_next b) (s_entries (b_st b)) ->
  EntInv (s_entries (b_st b)) (s_utxo (b_st b)) lostr -> KeyU (s_entries (b_st b)) (s_utxo (b_st b)) ->
  FlInv (s_entries (b_st b)) rs (map loc_flot locs) ->
  OutsR txid outs per_out (s_utxo (b_st b)) ->
  Forall (located txid 0 0 outs) locs ->
  apply_locs h (Some rs) locs b = Ok b' ->
  DomIff (b_next b') (s_entries (b_st b')) /\
  EntInv (s_entries (b_st b')) (s_utxo (b_st b')) lostr /\ KeyU (s_entries (b_st b')) (s_utxo (b_st b')) /\
  Ext (s_entries (b_st b)) (s_entries (b_st b')) /\ OutsR txid outs per_out (s_utxo (b_st b')).
Proof.
  intros h rs txid outs per_out lft lostr locs. induction locs as [|[[[op off] f] o] r IH]; intros b b' Hz HSp D HE HK HF HO HL H; cbn [apply_locs] in H.
  - inv H. split; [exact D|]. split; [exact HE|]. split; [exact HK|]. split; [apply Ext_refl|exact HO].
  - dbind H. rename a into b1. apply Forall_cons_iff in HL. destruct HL as [HL1 HL2]. cbn [map loc_flot fst snd] in HF.
    destruct HL1 as (k & o' & K1 & K2 & K3 & K4 & K5). cbn [fst snd loc_flot] in *.
    assert (S1 : EntInv (s_entries (b_st b1)) (s_utxo (b_st b1)) lostr /\ KeyU (s_entries (b_st b1)) (s_utxo (b_st b1))).
    { eapply step_sat; [exact D|exact HE|exact HK| | |exact E].
      - intros s Ho. apply (HF f s); auto. left. reflexivity.
      - cbn [fst snd]. intros _ n Hn. subst op. rewrite N.add_0_l. unfold eranges. rewrite (is_null_real _ _ Hz).
        destruct (HO k o' K1) as (u & U1 & U2). unfold entry_at. rewrite U1, U2.
        destruct (split_sats_spec _ _ _ _ HSp) as [A _]. destruct (A k o' K1) as (m & M1 & M2 & M3).
        rewrite (nth_error_nth_d _ _ [] _ M1). rewrite K4. unfold out_start in *. rewrite N.add_0_l in *.
        rewrite M3; auto. }
    destruct S1 as [E1 K1'].
    pose proof (Ext_step _ _ _ _ _ _ _ D E) as X1.
    pose proof (step_dom _ _ _ _ _ _ _ E D) as D1.
    assert (O1 : OutsR txid outs per_out (s_utxo (b_st b1))).
    { destruct (update_utxo_shape _ _ _ _ _ _ _ E) as (op2 & s2 & off2 & U & _). rewrite U. apply OutsR_push. exact HO. }
    destruct (IH b1 b' Hz HSp D1 E1 K1') as (A & B & C & X & O); auto.
    { eapply FlInv_ext; [exact X1|]. intros g s Hg. apply HF. right. exact Hg. }
    split; [exact A|]. split; [exact B|]. split; [exact C|]. split; [eapply Ext_trans; eauto|exact O].
Qed.

Definition NullR (U : list (outpoint * uentry)) (L : N) : Prop := ranges_size (u_ranges (entry_at null_op U)) = L.

Lemma apply_lost_sat : forall h rs ov lft l b b',
  (forall g, ov <= g -> calc_sat_in lft 0 (g - ov) = calc_sat_in rs 0 g) ->
  Forall (fun f => ov <= f_offset f) l ->
  DomIff (b_next b) (s_entries (b_st b)) ->
  EntInv (s_entries (b_st b)) (s_utxo (b_st b)) lft -> KeyU (s_entries (b_st b)) (s_utxo (b_st b)) ->
  FlInv (s_entries (b_st b)) rs l ->
  NullR (s_utxo (b_st b)) (b_lost b) ->
  apply_lost h (Some rs) ov l b = Ok b' ->
  DomIff (b_next b') (s_entries (b_st b')) /\
  EntInv (s_entries (b_st b')) (s_utxo (b_st b')) lft /\ KeyU (s_entries (b_st b')) (s_utxo (b_st b')) /\
  Ext (s_entries (b_st b)) (s_entries (b_st b')).
Proof.
  intros h rs ov lft l. induction l as [|f r IH]; intros b b' HLf HGe D HE HK HF HN H; cbn [apply_lost] in H.
  - inv H. split; [exact D|]. split; [exact HE|]. split; [exact HK|]. apply Ext_refl.
  - dbind H. rename a into off. dbind H. rename a into b1. apply Forall_cons_iff in HGe. destruct HGe as [G1 G2].
    assert (Hoff : off = b_lost b + f_offset f - ov).
    { unfold csub in E. destruct (ov <=? b_lost b + f_offset f); inv E. reflexivity. }
    assert (S1 : EntInv (s_entries (b_st b1)) (s_utxo (b_st b1)) lft /\ KeyU (s_entries (b_st b1)) (s_utxo (b_st b1))).
    { eapply step_sat; [exact D|exact HE|exact HK| | |exact E0].
      - intros s Ho. apply (HF f s); auto. left. reflexivity.
      - cbn [fst snd]. intros _ n Hn. unfold eranges. change (is_null null_op) with true. cbv iota.
        unfold NullR in HN. rewrite calc_app_ge by lia. rewrite N.add_0_l, HN.
        assert (X : calc_sat_in lft (b_lost b) off = calc_sat_in lft 0 (f_offset f - ov)).
        { rewrite <- (calc_shift lft 0 (f_offset f - ov) (b_lost b)). f_equal; lia. }
        rewrite X, (HLf _ G1). exact Hn. }
    destruct S1 as [E1 K1].
    pose proof (Ext_step _ _ _ _ _ _ _ D E0) as X1.
    pose proof (step_dom _ _ _ _ _ _ _ E0 D) as D1.
    assert (N1 : NullR (s_utxo (b_st b1)) (b_lost b1)).
    { destruct (update_utxo_shape _ _ _ _ _ _ _ E0) as (op2 & s2 & off2 & U & _). unfold NullR. rewrite U, entry_at_push_ranges.
      assert (Hl : b_lost b1 = b_lost b).
      { destruct (f_origin f) eqn:Ho.
        - destruct (update_new_shape _ _ _ _ _ _ _ _ _ _ _ _ _ _ Ho E0) as (e0 & [_ _ _ _ _ _ _ _ _ _ _ (_ & _ & Q & _)]). exact Q.
        - destruct (update_old_shape _ _ _ _ _ _ _ _ Ho E0) as (_ & _ & _ & _ & _ & _ & (_ & _ & Q & _) & _). exact Q. }
      rewrite Hl. exact HN. }
    destruct (IH b1 b' HLf G2 D1 E1 K1) as (A & B & C & X); auto.
    { eapply FlInv_ext; [exact X1|]. intros g s Hg. apply HF. right. exact Hg. }
    split; [exact A|]. split; [exact B|]. split; [exact C|]. eapply Ext_trans; eauto.
Qed.

(* ---- helpers for one transaction *)

Lemma calc_mono : forall r x o g n, calc_sat_in r o g = Ok n -> calc_sat_in (r ++ x) o g = Ok n.
Proof.
  intros r. induction r as [|[s e] t IH]; intros x o g n H; cbn [calc_sat_in app] in *; [discriminate|].
  destruct (g <? o + (e - s)); auto.
Qed.

Lemma sat_at_mono : forall E r x s off, sat_at E r s off -> sat_at E (r ++ x) s off.
Proof. intros E r x s off H e n He Hn. apply calc_mono. eapply H; eauto. Qed.

Definition sizes_before (ents : list uentry) (i : nat) : N :=
  fold_right (fun u a => ranges_size (u_ranges u) + a) 0 (firstn i ents).

Lemma calc_concat : forall ents i u off n,
  nth_error ents i = Some u -> calc_sat_in (u_ranges u) 0 off = Ok n ->
  calc_sat_in (concat (map u_ranges ents)) 0 (sizes_before ents i + off) = Ok n.
Proof.
  intros ents. induction ents as [|u0 r IH]; intros i u off n Hn Hc; [destruct i; discriminate|].
  cbn [map concat]. destruct i as [|i'].
  - cbn in Hn. inv Hn. unfold sizes_before. cbn [firstn fold_right]. rewrite N.add_0_l. apply calc_mono. exact Hc.
  - cbn [nth_error] in Hn. unfold sizes_before. cbn [firstn fold_right]. fold (sizes_before r i').
    rewrite calc_app_ge by lia.
    replace (ranges_size (u_ranges u0) + sizes_before r i' + off) with (sizes_before r i' + off + ranges_size (u_ranges u0)) by lia.
    rewrite calc_shift. eapply IH; eauto.
Qed.

Lemma take_inputs_tg : forall ins U ents U',
  take_inputs ins U = Ok (ents, U') ->
  Forall2 (fun p u => tgP p U = Some u) ins ents /\
  (forall op u, tgP op U' = Some u -> tgP op U = Some u) /\
  (forall op, ~ In op ins -> tgP op U' = tgP op U).
Proof.
  intros ins. induction ins as [|p r IH]; intros U ents U' H; cbn [take_inputs] in H.
  - inv H. repeat split; auto.
  - destruct (tgP p U) as [u|] eqn:E; [|discriminate]. dbind H. destruct a as [us U2]. inv H.
    destruct (IH _ _ _ E0) as (A & B & C).
    assert (Hd : forall op u0, tgP op (tdel pair_eqb p U) = Some u0 -> tgP op U = Some u0 /\ op <> p).
    { intros op u0 Hq. assert (op <> p).
      { intro. subst. rewrite (tget_tdel_same pair_eqb) in Hq. discriminate. }
      rewrite (tget_tdel_other pair_eqb pair_eqb_eq) in Hq by auto. auto. }
    repeat split.
    + constructor; auto. clear -A Hd. induction A; constructor; auto. apply Hd in H. tauto.
    + intros op u0 Hq. apply B in Hq. apply Hd in Hq. tauto.
    + intros op Hn. rewrite C by (intro; apply Hn; right; auto).
      apply (tget_tdel_other pair_eqb pair_eqb_eq). intro. subst. apply Hn. left. reflexivity.
Qed.

Lemma put_outputs_tg : forall cfg txid outs vout rs U op u,
  tgP op (put_outputs cfg txid vout outs rs U) = Some u ->
  (fst op = txid /\ u_insc u = []) \/ tgP op U = Some u.
Proof.
  intros cfg txid outs. induction outs as [|o r IH]; intros vout rs U op u H; cbn [put_outputs] in H; auto.
  apply IH in H. destruct H as [H|H]; auto. rewrite tgP_set in H. destruct (pair_eqb op (txid, vout)) eqn:Q; auto.
  apply pair_eqb_eq in Q. subst op. inv H. left. split; auto. destruct (c_sats cfg); reflexivity.
Qed.

Lemma put_outputs_tg_other : forall cfg txid outs vout rs U op,
  fst op <> txid -> tgP op (put_outputs cfg txid vout outs rs U) = tgP op U.
Proof.
  intros cfg txid outs. induction outs as [|o r IH]; intros vout rs U op H; cbn [put_outputs]; auto.
  rewrite IH by auto. rewrite tgP_set. rewrite pair_eqb_false; auto. intro. subst. apply H. reflexivity.
Qed.

Lemma EntInv_mono : forall E U l, EntInv E U [] -> EntInv E U l.
Proof.
  intros E U l H op u Hu Hne s off Hp. specialize (H op u Hu Hne s off Hp). unfold eranges in *.
  destruct (is_null op); auto. rewrite app_nil_r in H. apply sat_at_mono. exact H.
Qed.

Lemma apply_locs_nullr : forall h rg locs b b' L,
  NullR (s_utxo (b_st b)) L -> apply_locs h rg locs b = Ok b' -> NullR (s_utxo (b_st b')) L /\ b_lost b' = b_lost b.
Proof.
  intros h rg locs. induction locs as [|[[[op off] f] o] r IH]; intros b b' L HN H; cbn [apply_locs] in H.
  - inv H. auto.
  - dbind H. assert (Q : NullR (s_utxo (b_st a)) L /\ b_lost a = b_lost b).
    { destruct (update_utxo_shape _ _ _ _ _ _ _ E) as (op2 & s2 & off2 & U & _). unfold NullR. rewrite U, entry_at_push_ranges.
      split; auto. destruct (f_origin f) eqn:Ho.
      - destruct (update_new_shape _ _ _ _ _ _ _ _ _ _ _ _ _ _ Ho E) as (e0 & [_ _ _ _ _ _ _ _ _ _ _ (_ & _ & Q & _)]). exact Q.
      - destruct (update_old_shape _ _ _ _ _ _ _ _ Ho E) as (_ & _ & _ & _ & _ & _ & (_ & _ & Q & _) & _). exact Q. }
    destruct Q as [Q1 Q2]. destruct (IH _ _ _ Q1 H) as [A B]. split; auto. congruence.
Qed.

Lemma apply_locs_aux : forall h rg locs b b', apply_locs h rg locs b = Ok b' -> same_aux b b'.
Proof.
  intros h rg locs. induction locs as [|[[[op off] f] o] r IH]; intros b b' H; cbn [apply_locs] in H.
  - inv H. apply same_aux_refl.
  - dbind H. eapply same_aux_trans; [|eapply IH; eauto]. destruct (f_origin f) eqn:Ho.
    + destruct (update_new_shape _ _ _ _ _ _ _ _ _ _ _ _ _ _ Ho E) as (e0 & [_ _ _ _ _ _ _ _ _ _ _ Q]). exact Q.
    + destruct (update_old_shape _ _ _ _ _ _ _ _ Ho E) as (_ & _ & _ & _ & _ & _ & Q & _). exact Q.
Qed.

Lemma apply_lost_aux : forall h rg ov l b b', apply_lost h rg ov l b = Ok b' -> same_aux b b'.
Proof.
  intros h rg ov l. induction l as [|f r IH]; intros b b' H; cbn [apply_lost] in H.
  - inv H. apply same_aux_refl.
  - dbind H. dbind H. eapply same_aux_trans; [|eapply IH; eauto]. destruct (f_origin f) eqn:Ho.
    + destruct (update_new_shape _ _ _ _ _ _ _ _ _ _ _ _ _ _ Ho E0) as (e0 & [_ _ _ _ _ _ _ _ _ _ _ Q]). exact Q.
    + destruct (update_old_shape _ _ _ _ _ _ _ _ Ho E0) as (_ & _ & _ & _ & _ & _ & Q & _). exact Q.
Qed.

Lemma floating_of_old_src : forall cfg st h t ents F tiv,
  tx_plain t -> length ents = length (t_ins t) ->
  floating_of cfg st h t ents = Ok (F, tiv) ->
  tiv = in_start cfg 0 ents (length ents) /\
  forall f seq, In f F -> f_origin f = OOld seq ->
    exists i u off, nth_error ents i = Some u /\ In (seq, off) (u_insc u) /\ f_offset f = in_start cfg 0 ents i + off.
Proof.
  intros cfg st h t ents F tiv HP HL H. unfold floating_of in H. dbind H. dbind H. inv H.
  apply (inputs_loop_old_src _ _ _ _ _ _ _ 0 [] ents) in E; auto. cbn [a_tiv a_float] in E. destruct E as [T Hs]. split; auto.
  intros f seq Hf Ho. apply in_map_iff in Hf. destruct Hf as (g & G1 & G2).
  assert (Hg : f_origin g = OOld seq /\ f_offset g = f_offset f).
  { subst f. unfold fix_new in *. destruct (f_origin g) eqn:Q; cbn in Ho; [discriminate|]. rewrite Q in Ho. auto. }
  destruct Hg as [Hg1 Hg2]. destruct (Hs g seq G2 Hg1) as [[]|(i & u & off & A & B & C)].
  exists i, u, off. repeat split; auto. congruence.
Qed.

Section SatTx.
Variable cfg : config.
Hypothesis HS : c_sats cfg = true.

Record SI (b : bst) : Prop := {
  si_dom : DomIff (b_next b) (s_entries (b_st b));
  si_ent : EntInv (s_entries (b_st b)) (s_utxo (b_st b)) (b_lost_ranges b);
  si_key : KeyU (s_entries (b_st b)) (s_utxo (b_st b));
  si_fl : FlInv (s_entries (b_st b)) (b_cb_ranges b) (b_flot b);
  si_cb : ranges_size (b_cb_ranges b) = b_reward b;
  si_off : Off cfg (s_utxo (b_st b))
}.

Definition ins_real (t : tx) : Prop := Forall (fun p => fst p <> 0) (t_ins t).

Lemma tv_size : forall u, total_value cfg u = ranges_size (u_ranges u).
Proof. intro u. unfold total_value. rewrite HS. reflexivity. Qed.

Lemma in_start_sizes : forall ents i, in_start cfg 0 ents i = sizes_before ents i.
Proof.
  intros ents i. unfold in_start, sizes_before. rewrite N.add_0_l. generalize (firstn i ents). intro l.
  induction l as [|u r IH]; cbn [fold_right]; [reflexivity|]. rewrite IH, tv_size. reflexivity.
Qed.

Lemma Forall2_nth : forall {A B} (P : A -> B -> Prop) l1 l2 i b,
  Forall2 P l1 l2 -> nth_error l2 i = Some b -> exists a, nth_error l1 i = Some a /\ P a b.
Proof.
  intros A B P l1 l2 i b H. revert i. induction H; intros [|i] Hn; cbn in *; try discriminate.
  - inv Hn. eauto.
  - eauto.
Qed.

Lemma Forall2_In_r : forall {A B} (P : A -> B -> Prop) l1 l2 b,
  Forall2 P l1 l2 -> In b l2 -> exists a, In a l1 /\ P a b.
Proof.
  intros A B P l1 l2 b H. induction H; intros Hin; [destruct Hin|]. destruct Hin as [<-|Hin].
  - exists x. split; [left|]; auto.
  - destruct (IHForall2 Hin) as (a & A1 & A2). exists a. split; [right|]; auto.
Qed.

Lemma index_tx_sat_plain : forall h t b b',
  SI b -> b_lost_ranges b = [] -> NullR (s_utxo (b_st b)) (b_lost b) ->
  tx_plain t -> ins_real t -> t_id t <> 0 ->
  index_tx cfg h true false t b = Ok b' ->
  SI b' /\ b_lost_ranges b' = [] /\ NullR (s_utxo (b_st b')) (b_lost b') /\ b_lost b' = b_lost b.
Proof.
  intros h t b b' [D HE HK HF HC HO] HLR HN HP HR Hz H.
  pose proof (index_tx_off cfg _ _ _ _ _ _ HO H) as HOff'.
  unfold index_tx in H. rewrite HS in H.
  dbind H. destruct a as [ents utxo1]. rename E into ET.
  dbind H. destruct a as [[per_out in_ranges] b1]. dbind E. destruct a as [po lft]. inv E. rename E0 into ESp.
  set (input := concat (map u_ranges ents)) in *.
  destruct (take_inputs_tg _ _ _ _ ET) as (T1 & T2 & T3).
  pose proof (take_inputs_length _ _ _ _ ET) as TL.
  unfold index_inscriptions in H. dbind H. destruct a as [F tiv]. rename E into EF.
  rewrite (plain_not_coinbase t HP) in H. cbn [set_st b_st b_flot b_reward b_lost b_next b_cb_ranges b_lost_ranges] in *.
  destruct (assign (t_id t) 0 0 (t_outs t) (sort_by f_offset F)) as [[locs rest] ov] eqn:EA.
  dbind H. rename a into b3. rename E into EL. dbind H. rename a into rest'. rename E into ER. dbind H. rename a into d. inv H.
  (* facts about the inputs *)
  assert (Hin : forall i u, nth_error ents i = Some u ->
            (forall s off, In (s, off) (u_insc u) ->
               tgN s (s_entries (b_st b)) <> None /\ sat_at (s_entries (b_st b)) (u_ranges u) s off)).
  { intros i u Hi s off Hp. destruct (Forall2_nth _ _ _ _ _ T1 Hi) as (p & P1 & P2).
    assert (Pin : In p (t_ins t)) by (eapply nth_error_In; eauto).
    assert (Pnn : is_null p = false).
    { unfold tx_plain in HP. rewrite forallb_forall in HP. specialize (HP p Pin). destruct (is_null p); [discriminate|reflexivity]. }
    assert (Pnu : p <> unbound_op).
    { unfold ins_real in HR. rewrite Forall_forall in HR. specialize (HR p Pin). intro. subst. apply HR. reflexivity. }
    split; [eapply HK; eauto|]. specialize (HE p u P2 Pnu s off Hp). unfold eranges in HE. rewrite Pnn in HE. exact HE. }
  destruct (floating_of_old_src _ _ _ _ _ _ _ HP TL EF) as [Htiv Hsrc].
  assert (FF : FlInv (s_entries (b_st b)) input F).
  { intros f s Hf Ho. destruct (Hsrc f s Hf Ho) as (i & u & off & A & B & C). destruct (Hin i u A s off B) as [K1 K2].
    split; auto. intros e n He Hn. rewrite C, in_start_sizes. subst input. eapply calc_concat; eauto. }
  (* outputs *)
  set (utxo2 := put_outputs cfg (t_id t) 0 (t_outs t) per_out utxo1) in *.
  assert (E2 : EntInv (s_entries (b_st b)) utxo2 []).
  { intros op u Hu Hne s off Hp. apply put_outputs_tg in Hu. destruct Hu as [[_ Hu]|Hu]; [rewrite Hu in Hp; destruct Hp|].
    rewrite HLR in HE. eapply HE; eauto. }
  assert (K2 : KeyU (s_entries (b_st b)) utxo2).
  { intros op u s off Hu Hp. apply put_outputs_tg in Hu. destruct Hu as [[_ Hu]|Hu]; [rewrite Hu in Hp; destruct Hp|]. eapply HK; eauto. }
  assert (O2 : OutsR (t_id t) (t_outs t) per_out utxo2).
  { intros k o Hk. subst utxo2. rewrite <- (N.add_0_l (N.of_nat k)). rewrite (put_outputs_lookup cfg _ _ _ _ _ _ _ Hk), HS.
    eexists. split; reflexivity. }
  pose proof (assign_split _ _ _ _ _ _ _ _ EA) as ESplit.
  assert (AS0 : Forall (fun f => 0 <= f_offset f) (sort_by f_offset F)) by (apply Forall_forall; intros; lia).
  destruct (assign_spec (t_id t) (t_outs t) 0 0 (sort_by f_offset F) locs rest ov (sort_by_sorted f_offset F) AS0 EA) as (Hov & Hrest & HL).
  assert (Fall : FlInv (s_entries (b_st b)) input (map loc_flot locs ++ rest)).
  { rewrite <- ESplit. intros f s Hf. apply FF. eapply Permutation_in; [apply sort_by_perm|exact Hf]. }
  pose proof EL as EL2.
  eapply (apply_locs_sat h input (t_id t) (t_outs t) per_out lft [] locs) in EL2;
    [ | exact Hz | exact ESp | exact D | exact E2 | exact K2
      | intros f s Hf; apply Fall; apply in_or_app; left; exact Hf | exact O2 | exact HL ].
  destruct EL2 as (D3 & E3 & K3 & X3 & O3). cbn [set_st b_st s_entries with_utxo] in X3.
  pose proof (apply_locs_aux _ _ _ _ _ EL) as (A1 & A2 & A3 & A4 & A5 & _).
  cbn [set_st b_st b_flot b_reward b_lost b_next b_cb_ranges b_lost_ranges] in A1, A2, A3, A4, A5.
  destruct (split_sats_spec _ _ _ _ ESp) as [_ HLf].
  split; [|split; [|split]]; [| | |cbn [b_lost]; exact A3].
  - split; cbn [b_st b_next b_flot b_cb_ranges b_lost_ranges b_reward]; auto.
    + rewrite A5, HLR. exact E3.
    + rewrite A1, A4. intros f s Hf Ho. apply in_app_or in Hf. destruct Hf as [Hf|Hf].
      * destruct (HF f s Hf Ho) as [Q1 Q2]. split; [eapply Ext_key; eauto|].
        apply sat_at_mono. eapply sat_at_ext; eauto.
      * destruct (Forall2_In_r _ _ _ _ (rebase_offsets _ _ _ _ ER) Hf) as (g & G1 & G2 & G3 & G4).
        rewrite G3 in Ho. destruct (Fall g s) as [Q1 Q2]; [apply in_or_app; auto|exact Ho|].
        split; [eapply Ext_key; eauto|]. intros e n He Hn.
        assert (Hg : ov <= f_offset g) by (rewrite Forall_forall in Hrest; auto).
        assert (Hc : calc_sat_in input 0 (f_offset g) = Ok n) by (eapply (sat_at_ext _ _ _ _ _ X3 Q1 Q2); eauto).
        rewrite Hov, N.add_0_l in *. rewrite <- (HLf _ Hg) in Hc.
        rewrite A2 in G4. rewrite calc_app_ge by (rewrite HC; lia). rewrite N.add_0_l, HC.
        rewrite <- Hc, <- (calc_shift lft 0 (f_offset g - sum_values (t_outs t)) (b_reward b)).
        f_equal; lia.
    + rewrite A4, A2, ranges_size_app, HC.
      pose proof (split_sats_size _ _ _ _ ESp) as SZ. unfold csub in E.
      match type of E with (if ?c then _ else _) = _ => destruct c eqn:Q; inv E end.
      assert (Hti : in_start cfg 0 ents (length ents) = ranges_size input).
      { rewrite in_start_sizes. subst input. rewrite ranges_size_concat. unfold sizes_before. rewrite firstn_all. reflexivity. }
      rewrite ?N.add_0_l in *. lia.
  - cbn [b_lost_ranges]. rewrite A5. exact HLR.
  - cbn [b_st b_lost].
    assert (N2 : NullR utxo2 (b_lost b)).
    { unfold NullR, entry_at in *. subst utxo2. rewrite put_outputs_tg_other by (cbn; auto).
      rewrite T3; auto. intro Hin0. unfold tx_plain in HP. rewrite forallb_forall in HP. specialize (HP _ Hin0). discriminate. }
    pose proof EL as EL3. eapply apply_locs_nullr in EL3; [|cbn [set_st b_st s_utxo with_utxo]; exact N2].
    destruct EL3 as [N3 N4]. cbn [set_st b_lost] in N4. rewrite N4. exact N3.
Qed.

Lemma index_tx_sat_cb : forall h t b b',
  SI b -> b_lost_ranges b = [] -> NullR (s_utxo (b_st b)) (b_lost b) ->
  tx_cb t -> t_id t <> 0 ->
  index_tx cfg h true true t b = Ok b' ->
  DomIff (b_next b') (s_entries (b_st b')) /\
  EntInv (s_entries (b_st b')) (s_utxo (b_st b')) (b_lost_ranges b') /\
  KeyU (s_entries (b_st b')) (s_utxo (b_st b')) /\ Off cfg (s_utxo (b_st b')) /\
  NullR (s_utxo (b_st b')) (b_lost b).
Proof.
  intros h t b b' [D HE HK HF HC HO] HLR HN HCB Hz H.
  pose proof (index_tx_off cfg _ _ _ _ _ _ HO H) as HOff'.
  unfold index_tx in H. rewrite HS in H. cbn [bind] in H.
  dbind H. destruct a as [[per_out in_ranges] b1]. dbind E. destruct a as [po lft]. inv E. rename E0 into ESp.
  set (input := b_cb_ranges b) in *.
  unfold index_inscriptions in H. dbind H. destruct a as [F tiv]. rename E into EF.
  apply floating_of_olds_cb in EF; auto. subst F.
  rewrite (cb_is_coinbase t HCB) in H. cbn [app set_st set_flot b_st b_flot b_reward b_lost b_next b_cb_ranges b_lost_ranges] in *.
  rewrite HLR in *. cbn [app] in *.
  destruct (assign (t_id t) 0 0 (t_outs t) (sort_by f_offset (b_flot b))) as [[locs rest] ov] eqn:EA.
  dbind H. rename a into b3. rename E into EL. dbind H. rename a into b4. rename E into ELo. dbind H. inv H.
  set (utxo2 := put_outputs cfg (t_id t) 0 (t_outs t) per_out (s_utxo (b_st b))) in *.
  assert (E2 : EntInv (s_entries (b_st b)) utxo2 lft).
  { intros op u Hu Hne s off Hp. apply put_outputs_tg in Hu. destruct Hu as [[_ Hu]|Hu]; [rewrite Hu in Hp; destruct Hp|].
    eapply EntInv_mono; eauto. }
  assert (K2 : KeyU (s_entries (b_st b)) utxo2).
  { intros op u s off Hu Hp. apply put_outputs_tg in Hu. destruct Hu as [[_ Hu]|Hu]; [rewrite Hu in Hp; destruct Hp|]. eapply HK; eauto. }
  assert (O2 : OutsR (t_id t) (t_outs t) per_out utxo2).
  { intros k o Hk. subst utxo2. rewrite <- (N.add_0_l (N.of_nat k)). rewrite (put_outputs_lookup cfg _ _ _ _ _ _ _ Hk), HS.
    eexists. split; reflexivity. }
  pose proof (assign_split _ _ _ _ _ _ _ _ EA) as ESplit.
  assert (AS0 : Forall (fun f => 0 <= f_offset f) (sort_by f_offset (b_flot b))) by (apply Forall_forall; intros; lia).
  destruct (assign_spec (t_id t) (t_outs t) 0 0 _ locs rest ov (sort_by_sorted f_offset (b_flot b)) AS0 EA) as (Hov & Hrest & HL).
  assert (Fall : FlInv (s_entries (b_st b)) input (map loc_flot locs ++ rest)).
  { rewrite <- ESplit. intros f s Hf. apply HF. eapply Permutation_in; [apply sort_by_perm|exact Hf]. }
  pose proof EL as EL2.
  eapply (apply_locs_sat h input (t_id t) (t_outs t) per_out lft lft locs) in EL2;
    [ | exact Hz | exact ESp | exact D | exact E2 | exact K2
      | intros f s Hf; apply Fall; apply in_or_app; left; exact Hf | exact O2 | exact HL ].
  destruct EL2 as (D3 & E3 & K3 & X3 & O3). cbn [set_st b_st s_entries with_utxo] in X3.
  assert (N2 : NullR utxo2 (b_lost b)).
  { unfold NullR, entry_at in *. subst utxo2. rewrite put_outputs_tg_other by (cbn; auto). exact HN. }
  pose proof EL as EL3. eapply apply_locs_nullr in EL3; [|cbn [set_st b_st s_utxo with_utxo]; exact N2].
  destruct EL3 as [N3 N4]. cbn [set_st b_lost] in N4.
  destruct (split_sats_spec _ _ _ _ ESp) as [_ HLf]. rewrite Hov, N.add_0_l in *.
  pose proof ELo as EL4.
  eapply (apply_lost_sat h input (sum_values (t_outs t)) lft rest) in EL4;
    [ | exact HLf | exact Hrest | exact D3 | exact E3 | exact K3
      | eapply FlInv_ext; [exact X3|]; intros f s Hf; apply Fall; apply in_or_app; right; exact Hf
      | rewrite N4; exact N3 ].
  destruct EL4 as (D4 & E4 & K4 & X4).
  pose proof (apply_locs_aux _ _ _ _ _ EL) as (_ & _ & _ & _ & A5 & _).
  pose proof (apply_lost_aux _ _ _ _ _ _ ELo) as (_ & _ & B3 & _ & B5 & _).
  cbn [set_st b_lost_ranges] in A5.
  cbn [b_st b_next b_lost_ranges]. rewrite B5, A5.
  split; [exact D4|]. split; [exact E4|]. split; [exact K4|]. split; [exact HOff'|].
  (* the null entry keeps its ranges *)
  clear -ELo N3 N4. revert b3 b4 ELo N3 N4. induction rest as [|f r IH]; intros b3 b4 ELo N3 N4; cbn [apply_lost] in ELo.
  - inv ELo. exact N3.
  - dbind ELo. dbind ELo. eapply (IH a0 b4 ELo).
    + destruct (update_utxo_shape _ _ _ _ _ _ _ E0) as (op2 & s2 & off2 & U & _). unfold NullR. rewrite U, entry_at_push_ranges. exact N3.
    + destruct (f_origin f) eqn:Ho.
      * destruct (update_new_shape _ _ _ _ _ _ _ _ _ _ _ _ _ _ Ho E0) as (e0 & [_ _ _ _ _ _ _ _ _ _ _ (_ & _ & Q & _)]). congruence.
      * destruct (update_old_shape _ _ _ _ _ _ _ _ Ho E0) as (_ & _ & _ & _ & _ & _ & (_ & _ & Q & _) & _). congruence.
Qed.
End SatTx.

(* ---- blocks and chains (sat index on, inscriptions indexed from height 0) *)

Section SatChain.
Variable cfg : config.
Hypothesis HS : c_sats cfg = true.

Definition tx_ok3 (t : tx) : Prop := tx_plain t /\ ins_real t /\ t_id t <> 0.
Definition block_ok3 (blk : block) : Prop :=
  match blk with [] => True | t0 :: r => (tx_cb t0 /\ t_id t0 <> 0) /\ Forall tx_ok3 r end.

Record SIs (st : state) : Prop := {
  ss_dom : DomIff (next_seq_of (s_entries st)) (s_entries st);
  ss_ent : EntInv (s_entries st) (s_utxo st) [];
  ss_key : KeyU (s_entries st) (s_utxo st);
  ss_off : Off cfg (s_utxo st);
  ss_null : NullR (s_utxo st) (s_lost st)
}.

Lemma index_txs_sat : forall h l b b',
  SI cfg b -> b_lost_ranges b = [] -> NullR (s_utxo (b_st b)) (b_lost b) -> Forall tx_ok3 l ->
  index_txs cfg h true l b = Ok b' ->
  SI cfg b' /\ b_lost_ranges b' = [] /\ NullR (s_utxo (b_st b')) (b_lost b') /\ b_lost b' = b_lost b.
Proof.
  intros h l. induction l as [|t r IH]; intros b b' HI HL HN HF H; cbn [index_txs] in H.
  - inv H. auto.
  - dbind H. apply Forall_cons_iff in HF. destruct HF as [(F1 & F2 & F3) HF2].
    destruct (index_tx_sat_plain cfg HS h t b a HI HL HN F1 F2 F3 E) as (I1 & L1 & N1 & Hl).
    destruct (IH _ _ I1 L1 N1 HF2 H) as (I2 & L2 & N2 & Q2).
    split; [exact I2|]. split; [exact L2|]. split; [exact N2|]. rewrite Q2. exact Hl.
Qed.

Lemma index_tx_noinsc_sat : forall h (first : bool) t b b' L,
  EntInv (s_entries (b_st b)) (s_utxo (b_st b)) [] -> KeyU (s_entries (b_st b)) (s_utxo (b_st b)) ->
  NullR (s_utxo (b_st b)) L -> (first = false -> tx_plain t) -> t_id t <> 0 ->
  index_tx cfg h false first t b = Ok b' ->
  s_entries (b_st b') = s_entries (b_st b) /\ b_next b' = b_next b /\
  EntInv (s_entries (b_st b')) (s_utxo (b_st b')) [] /\ KeyU (s_entries (b_st b')) (s_utxo (b_st b')) /\
  NullR (s_utxo (b_st b')) L.
Proof.
  intros h first t b b' L HE HK HN HP Hz H. unfold index_tx in H. rewrite HS in H.
  dbind H. destruct a as [ents utxo1]. rename E into ET.
  dbind H. destruct a as [[per_out in_ranges] b1]. dbind E. destruct a as [po lft]. inv H.
  assert (Hb1 : b_st b1 = b_st b /\ b_next b1 = b_next b) by (destruct first; inv E; auto).
  destruct Hb1 as [Q1 Q2]. unfold set_st, with_utxo. cbn [b_st b_next s_entries s_utxo]. rewrite Q2.
  assert (HT : (forall op u, tgP op utxo1 = Some u -> tgP op (s_utxo (b_st b)) = Some u) /\
               tgP null_op utxo1 = tgP null_op (s_utxo (b_st b))).
  { destruct first.
    - inv ET. auto.
    - destruct (take_inputs_tg _ _ _ _ ET) as (_ & T2 & T3). split; auto. apply T3.
      intro Hin0. specialize (HP eq_refl). unfold tx_plain in HP. rewrite forallb_forall in HP. specialize (HP _ Hin0). discriminate. }
  destruct HT as [T2 T3].
  split; [reflexivity|]. split; [reflexivity|]. split; [|split].
  - intros op u Hu Hne s off Hp. apply put_outputs_tg in Hu. destruct Hu as [[_ Hu]|Hu]; [rewrite Hu in Hp; destruct Hp|]. eapply HE; eauto.
  - intros op u s off Hu Hp. apply put_outputs_tg in Hu. destruct Hu as [[_ Hu]|Hu]; [rewrite Hu in Hp; destruct Hp|]. eapply HK; eauto.
  - unfold NullR, entry_at in *. rewrite put_outputs_tg_other by (cbn; auto). rewrite T3. exact HN.
Qed.

Lemma index_txs_noinsc_sat : forall h l b b' L,
  EntInv (s_entries (b_st b)) (s_utxo (b_st b)) [] -> KeyU (s_entries (b_st b)) (s_utxo (b_st b)) ->
  NullR (s_utxo (b_st b)) L -> Forall tx_ok3 l ->
  index_txs cfg h false l b = Ok b' ->
  s_entries (b_st b') = s_entries (b_st b) /\ b_next b' = b_next b /\
  EntInv (s_entries (b_st b')) (s_utxo (b_st b')) [] /\ KeyU (s_entries (b_st b')) (s_utxo (b_st b')) /\
  NullR (s_utxo (b_st b')) L.
Proof.
  intros h l. induction l as [|t r IH]; intros b b' L HE HK HN HF H; cbn [index_txs] in H.
  - inv H. auto.
  - dbind H. apply Forall_cons_iff in HF. destruct HF as [(F1 & F2 & F3) HF2].
    destruct (index_tx_noinsc_sat h false t b a L HE HK HN (fun _ => F1) F3 E) as (A1 & A2 & A3 & A4 & A5).
    destruct (IH _ _ _ A3 A4 A5 HF2 H) as (B1 & B2 & B3 & B4 & B5).
    split; [congruence|]. split; [congruence|]. auto.
Qed.

Lemma subsidy_zero : forall h, (0 <? subsidy h) = false -> subsidy h = 0.
Proof. intros h H. destruct (N.ltb_spec 0 (subsidy h)); [discriminate|lia]. Qed.

Lemma index_block_sat : forall h blk st st',
  SIs st -> block_ok3 blk -> index_block cfg h blk st = Ok st' -> SIs st'.
Proof.
  intros h blk st st' [SD SE SK SO SN] BO H.
  pose proof (index_block_off cfg _ _ _ _ SO H) as HOff'.
  unfold index_block in H. rewrite HS in H.
  dbind H. rename a into cb. dbind H. rename a into b1. dbind H. rename a into b2. inv H.
  match type of E0 with index_txs _ _ _ _ ?B = _ => set (b0 := B) in * end.
  assert (HC0 : ranges_size cb = subsidy h).
  { destruct (0 <? subsidy h) eqn:Q.
    - dbind E. inv E. cbn. lia.
    - inv E. cbn. symmetry. apply subsidy_zero. exact Q. }
  assert (HX : DomIff (b_next b2) (s_entries (b_st b2)) /\
               EntInv (s_entries (b_st b2)) (s_utxo (b_st b2)) (b_lost_ranges b2) /\
               KeyU (s_entries (b_st b2)) (s_utxo (b_st b2)) /\ NullR (s_utxo (b_st b2)) (s_lost st)).
  { destruct (c_first cfg <=? h) eqn:INS.
    - assert (I0 : SI cfg b0).
      { subst b0. split; cbn; auto. intros f s []. }
      destruct blk as [|t0 r].
      + cbn [tl] in E0. cbn in E0. inv E0. inv E1. subst b0. cbn. auto.
      + cbn [tl] in E0. destruct BO as [[B1 B2] B3].
        destruct (index_txs_sat h r b0 b1 I0) as (I1 & L1 & N1 & Q1); auto.
        destruct (index_tx_sat_cb cfg HS h t0 b1 b2 I1 L1 N1 B1 B2 E1) as (D2 & E2 & K2 & _ & N2).
        rewrite Q1 in N2. subst b0. cbn [b_lost] in N2. auto.
    - assert (HE0 : EntInv (s_entries (b_st b0)) (s_utxo (b_st b0)) []) by (subst b0; exact SE).
      assert (HK0 : KeyU (s_entries (b_st b0)) (s_utxo (b_st b0))) by (subst b0; exact SK).
      assert (HN0 : NullR (s_utxo (b_st b0)) (s_lost st)) by (subst b0; exact SN).
      assert (Fin : s_entries (b_st b2) = s_entries st /\ b_next b2 = next_seq_of (s_entries st) /\
                    EntInv (s_entries (b_st b2)) (s_utxo (b_st b2)) [] /\ KeyU (s_entries (b_st b2)) (s_utxo (b_st b2)) /\
                    NullR (s_utxo (b_st b2)) (s_lost st)).
      { destruct blk as [|t0 r].
        - cbn [tl] in E0. cbn in E0. inv E0. inv E1. subst b0. cbn. auto.
        - cbn [tl] in E0. destruct BO as [[B1 B2] B3].
          destruct (index_txs_noinsc_sat h r b0 b1 _ HE0 HK0 HN0 B3 E0) as (A1 & A2 & A3 & A4 & A5).
          assert (HPf : true = false -> tx_plain t0) by discriminate.
          destruct (index_tx_noinsc_sat h true t0 b1 b2 _ A3 A4 A5 HPf B2 E1) as (C1 & C2 & C3 & C4 & C5).
          subst b0. cbn [b_st b_next] in *. split; [congruence|]. split; [congruence|]. auto. }
      destruct Fin as (F1 & F2 & F3 & F4 & F5). rewrite F1, F2 in *. split; [exact SD|]. split; [|auto].
      rewrite <- F1. apply EntInv_mono. rewrite F1. exact F3. }
  destruct HX as (D2 & E2 & K2 & N2).
  assert (Hnx : next_seq_of (s_entries (b_st b2)) = b_next b2) by (apply next_seq_of_dom; exact D2).
  split; cbn [s_entries s_utxo s_lost]; rewrite ?Hnx; auto.
  - (* EntInv *)
    destruct (b_lost_ranges b2) as [|p l] eqn:LR; [exact E2|].
    intros op u Hu Hne s off Hp. rewrite tgP_set in Hu. destruct (pair_eqb op null_op) eqn:Q.
    + apply pair_eqb_eq in Q. subst op. inv Hu. cbn [u_insc] in Hp. unfold eranges. change (is_null null_op) with true. cbv iota.
      cbn [u_ranges]. rewrite app_nil_r.
      destruct (tgP null_op (s_utxo (b_st b2))) as [e0|] eqn:T; [|cbn in Hp; contradiction].
      specialize (E2 null_op e0 T Hne s off Hp). unfold eranges in E2. change (is_null null_op) with true in E2. exact E2.
    + specialize (E2 op u Hu Hne s off Hp). unfold eranges in *.
      assert (Hnn : is_null op = false) by (unfold is_null; exact Q). rewrite Hnn in *. exact E2.
  - (* KeyU *)
    destruct (b_lost_ranges b2) as [|p l] eqn:LR; [exact K2|].
    intros op u s off Hu Hp. rewrite tgP_set in Hu. destruct (pair_eqb op null_op) eqn:Q.
    + apply pair_eqb_eq in Q. subst op. inv Hu. cbn [u_insc] in Hp.
      destruct (tgP null_op (s_utxo (b_st b2))) as [e0|] eqn:T; [|cbn in Hp; contradiction]. eapply K2; eauto.
    + eapply K2; eauto.
  - (* NullR *)
    unfold NullR in *. destruct (b_lost_ranges b2) as [|p l] eqn:LR.
    + cbn. rewrite N.add_0_r. exact N2.
    + unfold entry_at at 1. rewrite tgP_set, pair_eqb_refl. cbn [u_ranges]. rewrite ranges_size_app.
      unfold entry_at in N2. rewrite N2. reflexivity.
Qed.

Lemma index_chain_sat : forall c h st st',
  SIs st -> Forall block_ok3 c -> index_chain cfg h c st = Ok st' -> SIs st'.
Proof.
  intros c. induction c as [|blk r IH]; intros h st st' HI BO H; cbn [index_chain] in H.
  - inv H. exact HI.
  - dbind H. apply Forall_cons_iff in BO. destruct BO as [B1 B2].
    eapply IH; [|exact B2|exact H]. eapply index_block_sat; eauto.
Qed.

Lemma SIs_empty : SIs empty_state.
Proof.
  split; cbn.
  - intro s. split; [intro H; exfalso; apply H; reflexivity | lia].
  - intros op u Hu. discriminate.
  - intros op u s off Hu. discriminate.
  - intros op u [].
  - reflexivity.
Qed.

Theorem sat_invariant : forall c st,
  Forall block_ok3 c -> index_chain cfg 0 c empty_state = Ok st ->
  forall op u, tget pair_eqb op (s_utxo st) = Some u -> op <> unbound_op ->
  forall s off, In (s, off) (u_insc u) ->
  forall e n, tget N.eqb s (s_entries st) = Some e -> i_sat e = Some n ->
    calc_sat_in (u_ranges u) 0 off = Ok n.
Proof.
  intros c st BO H op u Hu Hne s off Hp e n He Hn.
  destruct (index_chain_sat c 0 empty_state st SIs_empty BO H) as [_ SE _ _ _].
  specialize (SE op u Hu Hne s off Hp e n He Hn). unfold eranges in SE. destruct (is_null op); auto.
  rewrite app_nil_r in SE. exact SE.
Qed.
End SatChain.
