(* C03, sat level: in every reachable state (sat index on) a bound inscription's recorded sat is the sat found
   at its recorded offset in the sat ranges of the output that holds it. *)
From OrdV Require Import Base.Prelude Generated Index.Inscr Proofs.Inscr_tables Proofs.Inscr_proofs
  Proofs.Inscr_c07 Proofs.Inscr_c04 Proofs.Inscr_c03 Proofs.Inscr_sats Proofs.Inscr_c04off.
From Coq Require Import Permutation Sorting.Sorted ZifyBool ZifyN.

(* ---- sizes *)

Lemma take_sats_size : forall fuel remaining rs acc mine rest,
  take_sats fuel remaining rs acc = Ok (mine, rest) -> ranges_size rs = remaining + ranges_size rest.
Proof.
  intros fuel. induction fuel as [|fu IH]; intros remaining rs acc mine rest H; cbn [take_sats] in H.
  - destruct (N.eqb_spec remaining 0); [|discriminate]. inv H. lia.
  - destruct (N.eqb_spec remaining 0); [inv H; lia|].
    destruct rs as [|[s e] r]; [discriminate|]. destruct (N.ltb_spec remaining (e - s)).
    + inv H. cbn [ranges_size fold_right fst snd]. fold (ranges_size r). lia.
    + apply IH in H. cbn [ranges_size fold_right fst snd]. fold (ranges_size r). lia.
Qed.

Lemma split_sats_size : forall outs rs per_out lft,
  split_sats outs rs = Ok (per_out, lft) -> ranges_size rs = sum_values outs + ranges_size lft.
Proof.
  intros outs. induction outs as [|o r IH]; intros rs per_out lft H; cbn [split_sats] in H.
  - inv H. cbn. lia.
  - dbind H. destruct a as [mine rest]. dbind H. destruct a as [others l2]. inv H.
    apply take_sats_size in E. apply IH in E0. cbn [sum_values fold_right]. fold (sum_values r). lia.
Qed.

Lemma ranges_size_concat : forall (l : list uentry),
  ranges_size (concat (map u_ranges l)) = fold_right (fun u a => ranges_size (u_ranges u) + a) 0 l.
Proof.
  induction l as [|u r IH]; cbn [map concat fold_right]; [reflexivity|]. rewrite ranges_size_app, IH. reflexivity.
Qed.

(* ---- where an old flotsam of a transaction comes from *)

Definition in_start (cfg : config) (base : N) (cur : list uentry) (i : nat) : N :=
  base + fold_right (fun u a => total_value cfg u + a) 0 (firstn i cur).

Lemma inputs_loop_old_src : forall cfg st txid height jubilant tov ins idx pre cur envs a a',
  length pre = N.to_nat idx -> length cur = length ins ->
  forallb (fun p => negb (is_null p)) ins = true ->
  inputs_loop cfg st txid height jubilant tov ins idx (pre ++ cur) envs a = Ok a' ->
  a_tiv a' = in_start cfg (a_tiv a) cur (length cur) /\
  forall f seq, In f (a_float a') -> f_origin f = OOld seq ->
    In f (a_float a) \/
    exists i u off, nth_error cur i = Some u /\ In (seq, off) (u_insc u) /\
      f_offset f = in_start cfg (a_tiv a) cur i + off.
Proof.
  intros cfg st txid height jubilant tov ins. induction ins as [|prev r IH]; intros idx pre cur envs a a' L1 L2 NN H; cbn [inputs_loop] in H.
  - inv H. destruct cur; [|discriminate]. unfold in_start. cbn. split; [lia|auto].
  - cbn [forallb] in NN. apply andb_true_iff in NN. destruct NN as [N1 N2].
    destruct (is_null prev); [discriminate|]. destruct cur as [|u cur']; [discriminate|].
    assert (Hn : nth_error (pre ++ u :: cur') (N.to_nat idx) = Some u).
    { rewrite nth_error_app2 by lia. rewrite <- L1, Nat.sub_diag. reflexivity. }
    rewrite Hn in H. dbind H. destruct a0 as [fl io]. destruct (span_input idx envs) as [mine rest].
    dbind H. rename a0 into a1.
    replace (pre ++ u :: cur') with ((pre ++ [u]) ++ cur') in H by (rewrite <- app_assoc; reflexivity).
    apply IH in H; [| rewrite app_length; cbn; lia | cbn in L2; lia | exact N2].
    destruct H as [T H]. destruct (news_offsets _ _ _ _ _ _ _ _ _ E0) as [T1 Hnews]. cbn [a_tiv a_float] in *.
    split.
    + rewrite T, T1. unfold in_start. cbn [length firstn fold_right]. lia.
    + intros f seq Hf Ho. destruct (H f seq Hf Ho) as [Hin|(i & u' & off & A & B & C)].
      * destruct (Hnews f Hin) as [Hin2|(Hn' & _)]; [|unfold is_new in Hn'; rewrite Ho in Hn'; discriminate].
        destruct (olds_offsets _ _ _ _ _ _ _ E f Hin2) as [Hin3|(s & off & A & B & C)]; auto.
        right. exists 0%nat, u, off. rewrite Ho in B. inv B. cbn [nth_error]. split; auto. split.
        -- eapply Permutation_in; [apply sort_by_perm|]. exact A.
        -- unfold in_start. cbn. lia.
      * right. exists (S i), u', off. cbn [nth_error]. split; auto. split; auto.
        rewrite C, T1. unfold in_start. cbn [firstn fold_right]. lia.
Qed.

(* ---- the invariant *)

Definition sat_at (E : list (N * ientry)) (rs : list (N * N)) (s off : N) : Prop :=
  forall e n, tgN s E = Some e -> i_sat e = Some n -> calc_sat_in rs 0 off = Ok n.

Definition eranges (lostr : list (N * N)) (op : outpoint) (u : uentry) : list (N * N) :=
  if is_null op then u_ranges u ++ lostr else u_ranges u.

Definition entry_at (op : outpoint) (U : list (outpoint * uentry)) : uentry :=
  match tgP op U with Some e => e | None => empty_entry end.

Definition EntInv (E : list (N * ientry)) (U : list (outpoint * uentry)) (lostr : list (N * N)) : Prop :=
  forall op u, In (op, u) U -> op <> unbound_op ->
    forall s off, In (s, off) (u_insc u) -> sat_at E (eranges lostr op u) s off.

Definition KeyU (E : list (N * ientry)) (U : list (outpoint * uentry)) : Prop :=
  forall op u s off, In (op, u) U -> In (s, off) (u_insc u) -> tgN s E <> None.

(* entries only grow, and an existing entry keeps its sat *)
Definition Ext (E E' : list (N * ientry)) : Prop :=
  forall s e, tgN s E = Some e -> exists e', tgN s E' = Some e' /\ i_sat e' = i_sat e.

Lemma sat_at_ext : forall E E' rs s off, Ext E E' -> tgN s E <> None -> sat_at E rs s off -> sat_at E' rs s off.
Proof.
  intros E E' rs s off HX Hk H e' n He' Hn. destruct (tgN s E) as [e|] eqn:Q; [|congruence].
  destruct (HX s e Q) as (e2 & A & B). rewrite He' in A. inv A. apply (H e n); auto. congruence.
Qed.

Lemma new_sat_shape : forall h rs f sp o b b' c fee hid ps re ub vi,
  f_origin f = ONew c fee hid ps re ub vi ->
  update_location h (Some rs) f sp o b = Ok b' ->
  exists e, s_entries (b_st b') = tset N.eqb (b_next b) e (s_entries (b_st b)) /\
    (ub = true -> i_sat e = None) /\
    (forall n, i_sat e = Some n -> calc_sat_in rs 0 (f_offset f) = Ok n).
Proof.
  intros h rs f sp o b b' c fee hid ps re ub vi Ho H.
  unfold update_location in H. rewrite Ho in H.
  dbind H. destruct a as [[number bl] cu]. dbind H. rename a into sat. dbind H. destruct a as [st1 pseqs].
  apply link_parents_core in E1. destruct E1 as (L1 & _). cbn [s_entries] in L1.
  assert (Hs : (ub = true -> sat = None) /\ (forall n, sat = Some n -> calc_sat_in rs 0 (f_offset f) = Ok n)).
  { destruct ub; [inv E0; split; auto; discriminate|]. split; [discriminate|].
    cbn in E0. destruct (calc_sat_in rs 0 (f_offset f)) eqn:Q; cbn in E0; inv E0. intros n Hn. inv Hn. reflexivity. }
  destruct ub; inv H; cbn [b_st s_entries]; rewrite L1; eexists; (split; [reflexivity|]); cbn [i_sat]; exact Hs.
Qed.

Lemma Ext_step : forall h rg f sp o b b',
  DomIff (b_next b) (s_entries (b_st b)) ->
  update_location h rg f sp o b = Ok b' -> Ext (s_entries (b_st b)) (s_entries (b_st b')).
Proof.
  intros h rg f sp o b b' D H s e He. destruct (f_origin f) as [c fee hid ps re ub vi|seq] eqn:Ho.
  - destruct (update_new_shape _ _ _ _ _ _ _ _ _ _ _ _ _ _ Ho H) as (e0 & [S1 S2 S3 S4 S5 _ _ _ _ _ _ _]).
    rewrite S5. exists e. rewrite tgN_set. destruct (N.eqb_spec s (b_next b)); auto.
    subst. exfalso. assert (b_next b < b_next b) by (apply D; congruence). lia.
  - destruct (update_old_shape _ _ _ _ _ _ _ _ Ho H) as (_ & _ & _ & _ & _ & _ & _ & [O8|(e0 & He0 & O8)]); rewrite O8; eauto.
    rewrite tgN_set. destruct (N.eqb_spec s seq); eauto. subst. rewrite He0 in He. inv He. eexists. split; [reflexivity|]. reflexivity.
Qed.

Lemma In_push : forall op s off U op' u',
  In (op', u') (push_insc op s off U) ->
  In (op', u') U \/
  (op' = op /\ u_ranges u' = u_ranges (entry_at op U) /\
   forall p, In p (u_insc u') -> p = (s, off) \/ (In p (u_insc (entry_at op U)) /\ (tgP op U <> None))).
Proof.
  intros op s off U op' u' H. unfold push_insc in H. apply In_tset in H. destruct H as [H|H]; auto.
  inv H. right. unfold entry_at. split; auto. split; auto. cbn [u_insc]. intros p Hp.
  apply in_app_or in Hp. destruct Hp as [Hp|[Hp|[]]]; auto. right. split; auto.
  destruct (tgP op U); [discriminate|]. cbn in Hp. contradiction.
Qed.

(* one application of update_inscription_location *)
Lemma step_sat : forall h rs f sp o b b' lostr,
  DomIff (b_next b) (s_entries (b_st b)) ->
  EntInv (s_entries (b_st b)) (s_utxo (b_st b)) lostr -> KeyU (s_entries (b_st b)) (s_utxo (b_st b)) ->
  (forall s, f_origin f = OOld s -> tgN s (s_entries (b_st b)) <> None /\ sat_at (s_entries (b_st b)) rs s (f_offset f)) ->
  (fst sp <> unbound_op -> forall n, calc_sat_in rs 0 (f_offset f) = Ok n ->
     calc_sat_in (eranges lostr (fst sp) (entry_at (fst sp) (s_utxo (b_st b)))) 0 (snd sp) = Ok n) ->
  update_location h (Some rs) f sp o b = Ok b' ->
  EntInv (s_entries (b_st b')) (s_utxo (b_st b')) lostr /\ KeyU (s_entries (b_st b')) (s_utxo (b_st b')).
Proof.
  intros h rs f sp o b b' lostr D HE HK FS TS H.
  pose proof (Ext_step _ _ _ _ _ _ _ D H) as HX.
  destruct (update_utxo_shape _ _ _ _ _ _ _ H) as (op & s & off & U & Hc). rewrite U.
  assert (Hkey : forall x, tgN x (s_entries (b_st b)) <> None -> tgN x (s_entries (b_st b')) <> None).
  { intros x Hx. destruct (tgN x (s_entries (b_st b))) as [e|] eqn:Q; [|congruence]. destruct (HX x e Q) as (e' & A & _). congruence. }
  assert (Hnew : tgN s (s_entries (b_st b')) <> None /\
                 (op <> unbound_op -> sat_at (s_entries (b_st b')) (eranges lostr op (entry_at op (s_utxo (b_st b)))) s off)).
  { destruct Hc as [(seq & A1 & A2 & A3 & A4)|(A1 & A2 & A3 & A4)].
    - subst s. destruct (FS seq A1) as [F1 F2]. split; auto. intro Hne. inv A4. cbn [fst snd] in TS.
      intros e n He Hn. apply TS; auto. destruct (tgN seq (s_entries (b_st b))) as [e0|] eqn:Q; [|congruence].
      destruct (HX seq e0 Q) as (e' & B1 & B2). rewrite He in B1. inv B1. apply (F2 e0 n); auto. congruence.
    - unfold is_new in A1. destruct (f_origin f) as [c fee hid ps re ub vi|] eqn:Ho; [|discriminate].
      destruct (new_sat_shape _ _ _ _ _ _ _ _ _ _ _ _ _ _ Ho H) as (e0 & N1 & N2 & N3). subst s.
      split; [rewrite N1, tgN_set, N.eqb_refl; discriminate|].
      intros Hne e n He Hn. rewrite N1, tgN_set, N.eqb_refl in He. inv He.
      destruct A4 as [A4|A4]; [|contradiction]. inv A4. cbn [fst snd] in TS. apply TS; auto. }
  destruct Hnew as [Hn1 Hn2]. split.
  - intros op' u' Hin Hne s' off' Hp. apply In_push in Hin. destruct Hin as [Hin|(-> & R & Hps)].
    + eapply sat_at_ext; [exact HX | eapply HK; eauto | eapply HE; eauto].
    + assert (Q : eranges lostr op u' = eranges lostr op (entry_at op (s_utxo (b_st b)))) by (unfold eranges; rewrite R; reflexivity).
      rewrite Q. destruct (Hps _ Hp) as [Hq|[Hq Hq2]].
      * inv Hq. apply Hn2. exact Hne.
      * unfold entry_at in *. destruct (tgP op (s_utxo (b_st b))) as [e0|] eqn:T; [|congruence].
        assert (Hin0 : In (op, e0) (s_utxo (b_st b))) by (eapply tget_In; [exact pair_eqb_eq|exact T]).
        eapply sat_at_ext; [exact HX | eapply HK; eauto | eapply HE; eauto].
  - intros op' u' s' off' Hin Hp. apply In_push in Hin. destruct Hin as [Hin|(-> & R & Hps)].
    + apply Hkey. eapply HK; eauto.
    + destruct (Hps _ Hp) as [Hq|[Hq Hq2]].
      * inv Hq. exact Hn1.
      * unfold entry_at in *. destruct (tgP op (s_utxo (b_st b))) as [e0|] eqn:T; [|congruence].
        apply Hkey. eapply (HK op e0); eauto. eapply tget_In; [exact pair_eqb_eq|exact T].
Qed.
