(* Allocation lemmas for the rune indexer model: sums over balance maps, conservation through
   every phase of index_runes (C08), behaviour of cenotaphs (C09, C10). *)
From OrdV Require Import Base.Prelude Generated Index.Runes Proofs.Runes_proofs.
Require Import ZifyBool ZifyN.

(* ------------------------------------------------------------------ sums *)
(* total held for rune r in a map (all bindings; maps built by the model have one per key) *)
Fixpoint msum (r : id) (m : bmap) : N :=
  match m with
  | [] => 0
  | (k, v) :: m' => (if id_eqb r k then v else 0) + msum r m'
  end.
Definition asum (r : id) (al : alloc) : N := fold_right (fun m s => msum r m + s) 0 al.
Definition tsum (r : id) (bt : btable) : N := fold_right (fun x s => msum r (snd x) + s) 0 bt.

Lemma getd_le_msum r m : getd r m <= msum r m.
Proof.
  induction m as [|[k v] m IH]; unfold getd in *; cbn [alookup msum]; [lia|].
  destruct (id_eqb r k); lia.
Qed.

Lemma getd_cons r k v m : getd r ((k, v) :: m) = if id_eqb r k then v else getd r m.
Proof. unfold getd; cbn [alookup]. destruct (id_eqb r k); reflexivity. Qed.

Lemma msum_aupd r r' v m :
  msum r' (aupd id_eqb r v m) + (if id_eqb r' r then getd r m else 0) =
  msum r' m + (if id_eqb r' r then v else 0).
Proof.
  induction m as [|[k v1] m IH]; cbn [aupd msum].
  - unfold getd; cbn. destruct (id_eqb r' r); lia.
  - rewrite getd_cons. destruct (id_eqb r k) eqn:E; cbn [msum].
    + apply id_eqb_eq in E; subst k. destruct (id_eqb r' r); lia.
    + destruct (id_eqb r' k); destruct (id_eqb r' r); lia.
Qed.

Lemma add_to_msum r v m m' r' : add_to r v m = Ok m' ->
  msum r' m' = msum r' m + (if id_eqb r' r then v else 0).
Proof.
  intros H. apply add_to_ok in H. destruct H as [-> _].
  pose proof (msum_aupd r r' (getd r m + v) m) as E. destruct (id_eqb r' r); lia.
Qed.

Lemma add_all_msum r l : forall un un', add_all l un = Ok un' -> msum r un' = msum r un + msum r l.
Proof.
  induction l as [|[k v] l IH]; intros un un' Q; cbn [add_all] in Q; [ok_inj; cbn; lia|].
  bind_inv Q as un1 H1. apply IH in Q. rewrite Q. rewrite (add_to_msum _ _ _ _ r H1). cbn [msum]. lia.
Qed.

Lemma tsum_aremove r k l : forall bt, alookup op_eqb k bt = Some l ->
  tsum r (aremove op_eqb k bt) + msum r l = tsum r bt.
Proof.
  induction bt as [|[k1 m1] bt IH]; cbn [alookup aremove]; [discriminate|].
  destruct (op_eqb k k1); cbn [tsum fold_right snd].
  - intros Q; injection Q as ->. fold (tsum r bt). lia.
  - intros Q. fold (tsum r bt). fold (tsum r (aremove op_eqb k bt)). specialize (IH Q). lia.
Qed.

Lemma tsum_aupd_fresh r k m : forall bt, alookup op_eqb k bt = None ->
  tsum r (aupd op_eqb k m bt) = tsum r bt + msum r m.
Proof.
  induction bt as [|[k1 m1] bt IH]; cbn [alookup aupd]; [intros _; cbn; lia|].
  destruct (op_eqb k k1); [discriminate|]. intros Q. cbn [tsum fold_right snd].
  fold (tsum r bt). fold (tsum r (aupd op_eqb k m bt)). rewrite (IH Q). lia.
Qed.

Lemma unallocated_msum r ins : forall bt un bt' un',
  unallocated ins bt un = Ok (bt', un') -> tsum r bt' + msum r un' = tsum r bt + msum r un.
Proof.
  induction ins as [|i ins IH]; intros bt un bt' un' Q; cbn [unallocated] in Q; [ok_inj; reflexivity|].
  destruct (alookup op_eqb (in_txid i, in_vout i) bt) as [l|] eqn:El.
  - bind_inv Q as un1 H1. apply IH in Q. rewrite Q.
    rewrite (add_all_msum r _ _ _ H1). pose proof (tsum_aremove r _ _ _ El). lia.
  - apply IH in Q. exact Q.
Qed.

(* ---------- alloc vectors ---------- *)
Lemma length_set_nth {A} (x : A) : forall n l, length (set_nth n x l) = length l.
Proof. induction n; destruct l; cbn; auto. Qed.

Lemma nth_set_nth {A} (x d : A) : forall n k l, (n < length l)%nat ->
  nth k (set_nth n x l) d = if Nat.eqb k n then x else nth k l d.
Proof.
  induction n; destruct l; cbn [length set_nth]; intros H; try lia.
  - destruct k; reflexivity.
  - destruct k; cbn [nth Nat.eqb]; [reflexivity|]. apply IHn. lia.
Qed.

Lemma asum_set_nth r m' : forall n al, (n < length al)%nat ->
  asum r (set_nth n m' al) + msum r (nth n al []) = asum r al + msum r m'.
Proof.
  induction n; destruct al as [|m al]; cbn [length set_nth nth asum fold_right]; intros H; try lia.
  fold (asum r al). fold (asum r (set_nth n m' al)). specialize (IHn al ltac:(lia)). lia.
Qed.

Lemma asum_repeat r n : asum r (repeat [] n) = 0.
Proof. induction n; cbn; auto. Qed.

Lemma asum_ge_nth r : forall n al, msum r (nth n al []) <= asum r al.
Proof.
  induction n; destruct al as [|m al]; cbn [nth asum fold_right msum]; try lia.
  fold (asum r al). specialize (IHn al). lia.
Qed.

(* ---------- allocate and the edict loop conserve unallocated + allocated ---------- *)
Lemma allocate_conserve r un al amt o un' al' r' :
  allocate r un al amt o = Ok (un', al') -> (N.to_nat o < length al)%nat ->
  msum r' un' + asum r' al' = msum r' un + asum r' al /\ length al' = length al.
Proof.
  unfold allocate. destruct (0 <? amt); [|intros Q _; ok_inj; auto].
  intros Q Ho. bind_inv Q as b Hsub. bind_inv Q as m Hadd. ok_inj.
  apply lot_sub_ok in Hsub. destruct Hsub as [-> Hle].
  pose proof (add_to_msum _ _ _ _ r' Hadd) as E1.
  pose proof (msum_aupd r r' (getd r un - amt) un) as E2.
  pose proof (asum_set_nth r' m _ al Ho) as E3.
  pose proof (getd_le_msum r un) as E4.
  rewrite length_set_nth. split; [|reflexivity].
  destruct (id_eqb r' r) eqn:E.
  - apply id_eqb_eq in E; subst r'. lia.
  - lia.
Qed.

Lemma destinations_bound outs : forall i o, In o (destinations outs i) -> i <= o < i + N.of_nat (length outs).
Proof.
  induction outs as [|b outs IH]; intros i o; cbn [destinations length]; [contradiction|].
  destruct b.
  - intros H. apply IH in H. lia.
  - intros [<-|H]; [lia|]. apply IH in H. lia.
Qed.

Definition in_range (n : nat) (dests : list N) : Prop := forall o, In o dests -> (N.to_nat o < n)%nat.

Lemma destinations_in_range outs : in_range (length outs) (destinations outs 0).
Proof. intros o H. apply destinations_bound in H. lia. Qed.

Lemma split_even_conserve r r' amount remainder dests : forall i un al un' al',
  split_even r un al amount remainder i dests = Ok (un', al') -> in_range (length al) dests ->
  msum r' un' + asum r' al' = msum r' un + asum r' al /\ length al' = length al.
Proof.
  induction dests as [|o ds IH]; intros i un al un' al' Q Hr; cbn [split_even] in Q; [ok_inj; auto|].
  bind_inv Q as a Ha. bind_inv Q as [un1 al1] H1.
  apply (allocate_conserve _ _ _ _ _ _ _ r') in H1; [|apply Hr; left; reflexivity].
  destruct H1 as [E1 L1]. apply IH in Q; [|intros x Hx; rewrite L1; apply Hr; right; exact Hx].
  destruct Q as [E2 L2]. split; lia.
Qed.

Lemma split_fixed_conserve r r' amount dests : forall un al un' al',
  split_fixed r un al amount dests = Ok (un', al') -> in_range (length al) dests ->
  msum r' un' + asum r' al' = msum r' un + asum r' al /\ length al' = length al.
Proof.
  induction dests as [|o ds IH]; intros un al un' al' Q Hr; cbn [split_fixed] in Q; [ok_inj; auto|].
  bind_inv Q as [un1 al1] H1.
  apply (allocate_conserve _ _ _ _ _ _ _ r') in H1; [|apply Hr; left; reflexivity].
  destruct H1 as [E1 L1]. apply IH in Q; [|intros x Hx; rewrite L1; apply Hr; right; exact Hx].
  destruct Q as [E2 L2]. split; lia.
Qed.

Lemma apply_edict_conserve outs etched_id un al e un' al' r' :
  apply_edict outs etched_id un al e = Ok (un', al') -> length al = length outs ->
  msum r' un' + asum r' al' = msum r' un + asum r' al /\ length al' = length al.
Proof.
  unfold apply_edict. intros Q L.
  destruct (N.ltb_spec (N.of_nat (length outs)) (ed_output e)) as [Hgt|Hle]; [discriminate|].
  destruct (if id_eqb (ed_id e) (0, 0) then etched_id else Some (ed_id e)) as [r|]; [|ok_inj; auto].
  destruct (alookup id_eqb r un) as [balance|]; [|ok_inj; auto].
  destruct (N.eqb_spec (ed_output e) (N.of_nat (length outs))) as [Heq|Hne].
  - pose proof (destinations_in_range outs) as Hr. rewrite <- L in Hr.
    destruct (destinations outs 0) as [|d ds] eqn:Ed; [ok_inj; auto|].
    destruct (ed_amount e =? 0).
    + eapply split_even_conserve; eassumption.
    + eapply split_fixed_conserve; eassumption.
  - eapply allocate_conserve; [exact Q|]. lia.
Qed.

Lemma apply_edicts_conserve outs etched_id r' es : forall un al un' al',
  apply_edicts outs etched_id un al es = Ok (un', al') -> length al = length outs ->
  msum r' un' + asum r' al' = msum r' un + asum r' al /\ length al' = length al.
Proof.
  induction es as [|e es IH]; intros un al un' al' Q L; cbn [apply_edicts] in Q; [ok_inj; auto|].
  bind_inv Q as [un1 al1] H1. apply (apply_edict_conserve _ _ _ _ _ _ _ r') in H1; [|exact L].
  destruct H1 as [E1 L1]. apply IH in Q; [|lia]. destruct Q as [E2 L2]. split; lia.
Qed.

(* ---------- finalisation ---------- *)
Lemma pour_msum r nz m : forall acc acc', pour nz m acc = Ok acc' -> msum r acc' = msum r acc + msum r m.
Proof.
  induction m as [|[k v] m IH]; intros acc acc' Q; cbn [pour] in Q; [ok_inj; cbn; lia|].
  destruct (nz && (v =? 0)) eqn:Ez.
  - apply IH in Q. rewrite Q. cbn [msum].
    apply andb_true_iff in Ez. destruct Ez as [_ Ez]. apply N.eqb_eq in Ez. subst v.
    destruct (id_eqb r k); lia.
  - bind_inv Q as acc1 H1. apply IH in Q. rewrite Q, (add_to_msum _ _ _ _ r H1). cbn [msum]. lia.
Qed.

Lemma first_non_opreturn_bound outs : forall i v, first_non_opreturn outs i = Some v ->
  i <= v < i + N.of_nat (length outs).
Proof.
  induction outs as [|b outs IH]; intros i v; cbn [first_non_opreturn length]; [discriminate|].
  destruct b; [intros H; apply IH in H; lia|intros H; injection H as <-; lia].
Qed.

Lemma default_phase_conserve outs art un al al' burned r :
  default_phase outs art un al = Ok (al', burned) -> length al = length outs ->
  asum r al' + msum r burned = asum r al + msum r un /\ length al' = length al.
Proof.
  intros Q L. unfold default_phase in Q.
  assert (Hgen : forall pointer,
    (do vout <- match pointer with
                | Some p => if p <? N.of_nat (length outs) then Ok (Some p) else Panic P_POINTER
                | None => Ok (first_non_opreturn outs 0) end;
     match vout with
     | Some v => do m <- pour true un (nth (N.to_nat v) al []); Ok (set_nth (N.to_nat v) m al, [])
     | None => do b <- pour true un []; Ok (al, b) end) = Ok (al', burned) ->
    asum r al' + msum r burned = asum r al + msum r un /\ length al' = length al).
  { intros pointer Q'. bind_inv Q' as vout Hv.
    assert (Hb : forall v, vout = Some v -> (N.to_nat v < length al)%nat).
    { intros v ->. destruct pointer as [p|].
      - destruct (N.ltb_spec p (N.of_nat (length outs))); [ok_inj; lia|discriminate].
      - injection Hv as Hv. apply first_non_opreturn_bound in Hv. lia. }
    destruct vout as [v|].
    - bind_inv Q' as m Hm. ok_inj. rewrite length_set_nth. split; [|reflexivity].
      pose proof (pour_msum r _ _ _ _ Hm) as E1.
      pose proof (asum_set_nth r m _ al (Hb v eq_refl)) as E2. cbn [msum]. lia.
    - bind_inv Q' as b Hm. ok_inj. pose proof (pour_msum r _ _ _ _ Hm) as E1. cbn [msum] in E1. split; [lia|reflexivity]. }
  destruct art as [[eds et m p|et m]|].
  - apply (Hgen p) in Q. exact Q.
  - bind_inv Q as b Hm. ok_inj. pose proof (pour_msum r _ _ _ _ Hm) as E1. cbn [msum] in E1. split; [lia|reflexivity].
  - apply (Hgen None) in Q. exact Q.
Qed.

(* storing: fresh outpoints receive the non-OP_RETURN allocations, the rest is burned *)
Lemma store_outputs_conserve r txid : forall outs al vout bt burned bt' burned',
  store_outputs txid outs al vout bt burned = Ok (bt', burned') ->
  length al = length outs ->
  (forall v, vout <= v -> alookup op_eqb (txid, v) bt = None) ->
  tsum r bt' + msum r burned' = tsum r bt + msum r burned + asum r al.
Proof.
  induction outs as [|opret outs IH]; intros al vout bt burned bt' burned' Q L Hf;
    destruct al as [|m al]; cbn [length] in L; try discriminate; cbn [store_outputs] in Q.
  - ok_inj. cbn. lia.
  - cbn [asum fold_right]. fold (asum r al).
    assert (Hf' : forall bt1, (forall k, op_eqb k (txid, vout) = false -> alookup op_eqb k bt1 = alookup op_eqb k bt) ->
                  forall v, vout + 1 <= v -> alookup op_eqb (txid, v) bt1 = None).
    { intros bt1 Hsame v Hv. rewrite Hsame; [apply Hf; lia|].
      destruct (op_eqb (txid, v) (txid, vout)) eqn:E; [|reflexivity].
      apply op_eqb_eq in E. injection E as E. lia. }
    destruct m as [|kv m].
    + apply IH in Q; [cbn [msum]; lia|lia|]. apply Hf'. auto.
    + destruct opret.
      * bind_inv Q as b1 Hp. apply IH in Q; [|lia|apply Hf'; auto].
        rewrite (pour_msum r _ _ _ _ Hp) in Q. lia.
      * apply IH in Q; [|lia|].
        -- rewrite tsum_aupd_fresh in Q by (apply Hf; lia). lia.
        -- apply Hf'. intros k Hk. rewrite (alookup_aupd op_eqb op_eqb_eq). rewrite Hk. reflexivity.
Qed.

Lemma store_outputs_empty txid : forall outs vout bt burned,
  store_outputs txid outs (repeat [] (length outs)) vout bt burned = Ok (bt, burned).
Proof. induction outs as [|o outs IH]; intros; cbn [length repeat store_outputs]; [reflexivity|apply IH]. Qed.

(* ---------- C10: cenotaph mint ---------- *)
Lemma cenotaph_mint height time minimum txi u tx et r e a u' :
  tx_art tx = Some (Cenotaph et (Some r)) ->
  alookup id_eqb r (s_entries (u_st u)) = Some e -> mintable e height = inr a ->
  alookup id_eqb (height, txi) (s_entries (u_st u)) = None ->
  index_runes height time minimum txi u tx = Ok u' ->
  exists bt un,
    unallocated (tx_ins tx) (s_balances (u_st u)) [] = Ok (bt, un) /\
    (exists e', alookup id_eqb r (s_entries (u_st u')) = Some e' /\ e_mints e' = e_mints e + 1) /\
    s_balances (u_st u') = bt /\
    forall r', msum r' (u_burned u') = msum r' (u_burned u) + msum r' un + (if id_eqb r' r then a else 0).
Proof.
  intros Ha Hl Hm Hfresh Q. unfold index_runes in Q. rewrite Ha in Q.
  bind_inv Q as [bt un] Hun. exists bt, un. split; [exact Hun|].
  bind_inv Q as [[st1 un1] al1] Hart. bind_inv Q as [al2 burned] Hdef.
  bind_inv Q as [bt2 burned2] Hst. bind_inv Q as ub Hp. ok_inj. cbn [u_st u_burned].
  unfold art_phase in Hart. rewrite Ha in Hart.
  bind_inv Hart as [st2 un2] Hmint. bind_inv Hart as [st3 et3] Het. bind_inv Hart as [un4 al4] Hed.
  bind_inv Hart as st5 Hcr. ok_inj.
  cbn [edict_phase] in Hed. ok_inj.
  unfold mint_phase in Hmint. cbn [art_mint] in Hmint.
  bind_inv Hmint as [es am] Hmi. apply mint_spec in Hmi. cbn [set_balances s_entries] in Hmi.
  rewrite Hl, Hm in Hmi. destruct Hmi as [-> ->]. bind_inv Hmint as un3 Hadd. ok_inj.
  pose proof (etched_frame _ _ _ _ _ _ _ _ Het) as [E1 [E2 _]]. cbn in E1, E2.
  (* default phase: everything burned *)
  cbn [default_phase] in Hdef. bind_inv Hdef as b Hb. ok_inj.
  rewrite store_outputs_empty in Hst. ok_inj.
  assert (Hent : exists e', alookup id_eqb r (s_entries st1) = Some e' /\ e_mints e' = e_mints e + 1).
  { unfold create_phase in Hcr. destruct et3 as [[r3 rune3]|].
    - assert (r3 = (height, txi)) as -> by (eapply etched_id; exact Het).
      unfold create_rune_entry in Hcr. destruct (_ <=? _); [|discriminate]. ok_inj. cbn [s_entries].
      rewrite (alookup_aupd id_eqb id_eqb_eq). rewrite E1.
      destruct (id_eqb r (height, txi)) eqn:E.
      + apply id_eqb_eq in E. subst r. rewrite Hfresh in Hl. discriminate.
      + rewrite (alookup_aupd id_eqb id_eqb_eq), id_eqb_refl. eexists; split; [reflexivity|]. reflexivity.
    - ok_inj. rewrite E1. rewrite (alookup_aupd id_eqb id_eqb_eq), id_eqb_refl.
      eexists; split; [reflexivity|]. reflexivity. }
  split; [exact Hent|]. split.
  - unfold create_phase in Hcr. destruct et3 as [[r3 rune3]|]; [|ok_inj; try rewrite E2; reflexivity].
    unfold create_rune_entry in Hcr. destruct (_ <=? _); [|discriminate]. ok_inj. cbn. try rewrite E2. reflexivity.
  - intros r'. rewrite (pour_msum r' _ _ _ _ Hp), (pour_msum r' _ _ _ _ Hb).
    rewrite (add_to_msum _ _ _ _ r' Hadd). cbn [msum]. lia.
Qed.
