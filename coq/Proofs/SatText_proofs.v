(* C30: print-then-parse round trips of the exact sat notations (model Ord/SatText.v). *)
From OrdV Require Import Base.Prelude Generated Ord.Sat Ord.SatText Proofs.Sat_proofs.
Require Import ZifyBool ZifyN.
Ltac Zify.zify_post_hook ::= Z.div_mod_to_equations.

(* ---------- decimal digits ---------- *)

Definition plain (s : str) : Prop := Forall (fun c => is_digit c = true) s.

Lemma digits_le_plain : forall f n, plain (digits_le f n).
Proof.
  induction f as [|f IH]; intros n; cbn [digits_le]; [constructor|].
  constructor.
  - unfold is_digit. pose proof (N.mod_lt n 10 ltac:(lia)). lia.
  - destruct (n / 10 =? 0); [constructor|apply IH].
Qed.

Lemma show_uint_plain : forall n, plain (show_uint n).
Proof. intros n. unfold show_uint, plain. apply Forall_rev. apply digits_le_plain. Qed.

Lemma show_uint_nonempty : forall n, show_uint n <> [].
Proof.
  intros n. unfold show_uint. cbn [digits_le]. intros H.
  apply (f_equal (@length N)) in H. rewrite rev_length in H. cbn [length] in H. discriminate.
Qed.

Lemma parse_digits_app : forall max s1 s2 acc,
  parse_digits max (s1 ++ s2) acc =
  match parse_digits max s1 acc with Some v => parse_digits max s2 v | None => None end.
Proof.
  intros max s1. induction s1 as [|c r IH]; intros s2 acc; [reflexivity|].
  cbn [app parse_digits]. destruct (is_digit c); [|reflexivity].
  destruct (max <? acc * 10 + (c - 48)); [reflexivity|apply IH].
Qed.

Lemma parse_one : forall max acc d, d < 10 -> acc * 10 + d <= max ->
  parse_digits max [48 + d] acc = Some (acc * 10 + d).
Proof.
  intros max acc d Hd Hm. cbn [parse_digits].
  assert (E : is_digit (48 + d) = true) by (unfold is_digit; lia). rewrite E.
  replace (48 + d - 48) with d by lia.
  destruct (N.ltb_spec max (acc * 10 + d)); [lia|reflexivity].
Qed.

Lemma parse_show_le : forall f n max, n < 2 ^ N.of_nat f -> n <= max ->
  parse_digits max (rev (digits_le (S f) n)) 0 = Some n.
Proof.
  induction f as [|f IH]; intros n max Hn Hmax.
  - change (2 ^ N.of_nat 0) with 1 in Hn. assert (n = 0) as -> by lia.
    cbn [digits_le]. change (0 / 10 =? 0) with true. cbn [rev app].
    change (0 mod 10) with 0. apply (parse_one max 0 0); lia.
  - rewrite Nat2N.inj_succ, N.pow_succ_r' in Hn.
    change (digits_le (S (S f)) n) with
      ((48 + n mod 10) :: (if n / 10 =? 0 then [] else digits_le (S f) (n / 10))).
    pose proof (N.mod_lt n 10 ltac:(lia)) as Hmod.
    destruct (N.eqb_spec (n / 10) 0) as [E|E].
    + cbn [rev app]. rewrite (parse_one max 0 (n mod 10)) by lia. f_equal. lia.
    + cbn [rev]. rewrite parse_digits_app.
      rewrite (IH (n / 10) max) by lia.
      rewrite (parse_one max (n / 10) (n mod 10)) by lia. f_equal. lia.
Qed.

Lemma parse_digits_show : forall n max, n <= max -> parse_digits max (show_uint n) 0 = Some n.
Proof.
  intros n max H. unfold show_uint. apply parse_show_le; [|exact H].
  rewrite N2Nat.id. apply N.size_gt.
Qed.

Lemma parse_uint_plain : forall max s, s <> [] -> plain s -> parse_uint max s = parse_digits max s 0.
Proof.
  intros max s Hne Hp. destruct s as [|c r]; [contradiction|].
  inversion Hp as [|? ? Hc _]. subst.
  assert (A : (c =? 43) = false /\ (c =? 45) = false) by (unfold is_digit in Hc; lia).
  destruct A as [A B]. unfold parse_uint. rewrite A, B. destruct r; reflexivity.
Qed.

(* Display then FromStr of an unsigned integer that fits the type *)
Lemma parse_show : forall n max, n <= max -> parse_uint max (show_uint n) = Some n.
Proof.
  intros n max H. rewrite parse_uint_plain; [apply parse_digits_show; exact H| |].
  - apply show_uint_nonempty.
  - apply show_uint_plain.
Qed.

(* ---------- separators ---------- *)

Lemma split_once_plain : forall c ds rest, plain ds -> is_digit c = false ->
  split_once c (ds ++ c :: rest) = Some (ds, rest).
Proof.
  intros c ds rest Hp Hc. induction Hp as [|x r Hx Hr IH].
  - cbn [app split_once]. rewrite N.eqb_refl. reflexivity.
  - cbn [app split_once]. destruct (N.eqb_spec x c) as [->|_]; [congruence|].
    rewrite IH. reflexivity.
Qed.

Lemma existsb_plain : forall p s, (forall x, is_digit x = true -> p x = false) -> plain s ->
  existsb p s = false.
Proof.
  intros p s Hp Hs. induction Hs as [|x r Hx Hr IH]; [reflexivity|].
  cbn [existsb]. rewrite (Hp x Hx), IH. reflexivity.
Qed.

Lemma lower_plain : forall s, plain s -> existsb is_lower s = false.
Proof.
  intros s. apply existsb_plain. intros x Hx. unfold is_digit in Hx. unfold is_lower. lia.
Qed.

Lemma contains_plain : forall c s, is_digit c = false -> plain s -> contains c s = false.
Proof.
  intros c s Hc. apply existsb_plain. intros x Hx.
  destruct (N.eqb_spec c x) as [->|]; [congruence|reflexivity].
Qed.

Lemma contains_app : forall c a b, contains c (a ++ b) = contains c a || contains c b.
Proof. intros. apply existsb_app. Qed.

Lemma contains_cons : forall c x r, contains c (x :: r) = (c =? x) || contains c r.
Proof. reflexivity. Qed.

(* ---------- integer notation ---------- *)

Lemma integer_roundtrip : forall n, n < SAT_SUPPLY -> sat_from_str (show_sat n) = Ok n.
Proof.
  intros n Hn. unfold sat_from_str, sat_from_str_with, show_sat.
  pose proof (show_uint_plain n) as P.
  rewrite (lower_plain _ P).
  rewrite (contains_plain C_DEGREE _ ltac:(reflexivity) P), (contains_plain C_PERCENT _ ltac:(reflexivity) P),
    (contains_plain C_PERIOD _ ltac:(reflexivity) P).
  unfold from_integer. rewrite parse_show by (change SAT_SUPPLY with 2099999997690000 in Hn; change U64_MAX with 18446744073709551615; lia).
  destruct (N.ltb_spec (SAT_SUPPLY - 1) n); [lia|reflexivity].
Qed.

(* ---------- decimal notation ---------- *)

Lemma decimal_roundtrip : forall n, n < SAT_SUPPLY ->
  exists d, sat_decimal n = Ok d /\ sat_from_str (show_decimal d) = Ok n.
Proof.
  intros n Hn. destruct (sat_decompose n Hn) as (h & o & Hh & Ho & Hlt & Hsub & Hn' & _).
  destruct (sat_attributes n h o Hh Ho) as (Hd & _). exists (h, o). split; [exact Hd|].
  unfold show_decimal. cbn [fst snd].
  pose proof (show_uint_plain h) as Ph. pose proof (show_uint_plain o) as Po.
  unfold sat_from_str, sat_from_str_with.
  rewrite !existsb_app, (lower_plain _ Ph), (lower_plain _ Po).
  change (existsb is_lower [C_PERIOD]) with false. cbn [orb].
  rewrite !contains_app.
  rewrite !(contains_plain C_DEGREE _ ltac:(reflexivity) Ph), !(contains_plain C_DEGREE _ ltac:(reflexivity) Po).
  change (contains C_DEGREE [C_PERIOD]) with false. cbn [orb].
  rewrite !(contains_plain C_PERCENT _ ltac:(reflexivity) Ph), !(contains_plain C_PERCENT _ ltac:(reflexivity) Po).
  change (contains C_PERCENT [C_PERIOD]) with false. cbn [orb].
  change (contains C_PERIOD [C_PERIOD]) with true. cbn [orb]. rewrite orb_true_r.
  unfold from_decimal. cbn [app].
  rewrite (split_once_plain C_PERIOD _ _ Ph ltac:(reflexivity)).
  assert (Ob : o < SAT_SUPPLY) by (unfold sat_of in Hn'; lia).
  rewrite parse_show by (change U32_MAX with 4294967295; lia).
  rewrite parse_show by (change SAT_SUPPLY with 2099999997690000 in Ob; change U64_MAX with 18446744073709551615; lia).
  destruct (N.leb_spec (height_subsidy h) o); [lia|].
  unfold sat_of in Hn'. rewrite Hn'. reflexivity.
Qed.

(* ---------- degree notation ---------- *)

Lemma degree_arith : forall h, h < 6930000 ->
  (h mod 2016 + 1260000 - h mod 210000) mod 336 = 0 /\
  (h / 1260000 * 6 + (h mod 2016 + 1260000 - h mod 210000) mod 2016 / 336) * 210000 + h mod 210000 = h.
Proof. intros h H. split; lia. Qed.

Lemma from_degree_show : forall h o, h < 6930000 -> o < height_subsidy h -> o < SAT_SUPPLY ->
  from_degree (show_degree (mkDegree (h / 1260000) (h mod 210000) (h mod 2016) o)) =
  Ok (height_starting_sat h + o).
Proof.
  intros h o Hh Ho Ob. unfold show_degree. cbn [d_hour d_minute d_second d_third].
  pose proof (show_uint_plain (h / 1260000)) as P1. pose proof (show_uint_plain (h mod 210000)) as P2.
  pose proof (show_uint_plain (h mod 2016)) as P3. pose proof (show_uint_plain o) as P4.
  destruct (degree_arith h Hh) as [A1 A2].
  unfold from_degree. cbn [app].
  rewrite (split_once_plain C_DEGREE _ _ P1 ltac:(reflexivity)).
  rewrite parse_show by (change U32_MAX with 4294967295; lia).
  rewrite (split_once_plain C_MINUTE _ _ P2 ltac:(reflexivity)).
  rewrite parse_show by (change U32_MAX with 4294967295; lia).
  rewrite SHI_val, DCI_val, CE_val.
  destruct (N.leb_spec 210000 (h mod 210000)) as [X|_]; [lia|].
  rewrite (split_once_plain C_SECOND _ _ P3 ltac:(reflexivity)).
  rewrite parse_show by (change U32_MAX with 4294967295; lia).
  destruct (N.leb_spec 2016 (h mod 2016)) as [X|_]; [lia|].
  change U32_MAX with 4294967295.
  change (210000 * 6) with 1260000. change HALVING_INCREMENT with 336.
  unfold is_multiple_of. change (336 =? 0) with false. cbv iota. rewrite A1. change (0 =? 0) with true. cbn [negb].
  cbv zeta.
  destruct (N.ltb_spec 4294967295 (h / 1260000 * 6)) as [X|_]; [lia|].
  rewrite A2.
  set (ep := h / 1260000 * 6 + (h mod 2016 + 1260000 - h mod 210000) mod 2016 / 336) in *.
  destruct (N.ltb_spec 4294967295 ep) as [X|_]; [lia|].
  destruct (N.ltb_spec 4294967295 (ep * 210000)) as [X|_]; [lia|].
  destruct (N.ltb_spec 4294967295 h) as [X|_]; [lia|].
  rewrite (split_once_plain C_THIRD _ [] P4 ltac:(reflexivity)).
  rewrite parse_show by (change SAT_SUPPLY with 2099999997690000 in Ob; change U64_MAX with 18446744073709551615; lia).
  cbn [is_empty negb].
  destruct (N.leb_spec (height_subsidy h) o); [lia|reflexivity].
Qed.

Lemma degree_roundtrip : forall n, n < SAT_SUPPLY ->
  exists d, sat_degree n = Ok d /\ sat_from_str (show_degree d) = Ok n.
Proof.
  intros n Hn. destruct (sat_decompose n Hn) as (h & o & Hh & Ho & Hlt & Hsub & Hn' & _).
  destruct (sat_attributes n h o Hh Ho) as (_ & Hd & _).
  exists (mkDegree (h / 1260000) (h mod 210000) (h mod 2016) o). split; [exact Hd|].
  assert (Ob : o < SAT_SUPPLY) by (unfold sat_of in Hn'; lia).
  unfold sat_from_str, sat_from_str_with.
  rewrite from_degree_show by assumption.
  unfold show_degree. cbn [d_hour d_minute d_second d_third].
  pose proof (show_uint_plain (h / 1260000)) as P1. pose proof (show_uint_plain (h mod 210000)) as P2.
  pose proof (show_uint_plain (h mod 2016)) as P3. pose proof (show_uint_plain o) as P4.
  rewrite !existsb_app, (lower_plain _ P1), (lower_plain _ P2), (lower_plain _ P3), (lower_plain _ P4).
  change (existsb is_lower [C_DEGREE]) with false. change (existsb is_lower [C_MINUTE]) with false.
  change (existsb is_lower [C_SECOND]) with false. change (existsb is_lower [C_THIRD]) with false.
  cbn [orb].
  rewrite contains_app. change (contains C_DEGREE ([C_DEGREE] ++ _)) with true at 1.
  rewrite orb_true_r. unfold sat_of in Hn'. rewrite Hn'. reflexivity.
Qed.

(* ---------- name notation: bijective base 26 ---------- *)

Definition alpha_ok (k : N) : bool := nth (N.to_nat k) NAME_ALPHABET 0 =? 97 + k.
Lemma alphabet_nth : forall k, k < 26 -> nth (N.to_nat k) NAME_ALPHABET 0 = 97 + k.
Proof.
  intros k H. apply N.eqb_eq. apply (all_below_spec 26 alpha_ok); [vm_compute; reflexivity|exact H].
Qed.

Lemma from_name_acc_app : forall s1 s2 x,
  from_name_acc (s1 ++ s2) x =
  match from_name_acc s1 x with Ok v => from_name_acc s2 v | Err e => Err e | Panic t => Panic t end.
Proof.
  induction s1 as [|c r IH]; intros s2 x; [reflexivity|].
  cbn [app from_name_acc]. destruct (is_lower c); [|reflexivity].
  destruct (SAT_SUPPLY <? x * 26 + c - 97 + 1); [reflexivity|apply IH].
Qed.

Lemma name_le_lower : forall f x, Forall (fun c => is_lower c = true) (name_le f x).
Proof.
  induction f as [|f IH]; intros x; cbn [name_le]; [constructor|].
  destruct (0 <? x); [|constructor]. constructor; [|apply IH].
  pose proof (N.mod_lt (x - 1) 26 ltac:(lia)) as H. rewrite alphabet_nth by exact H.
  unfold is_lower. lia.
Qed.

Lemma from_name_le : forall f x, x < 2 ^ N.of_nat f -> x <= SAT_SUPPLY ->
  from_name_acc (rev (name_le (S f) x)) 0 = Ok x.
Proof.
  induction f as [|f IH]; intros x Hx Hs.
  - change (2 ^ N.of_nat 0) with 1 in Hx. assert (x = 0) as -> by lia. reflexivity.
  - rewrite Nat2N.inj_succ, N.pow_succ_r' in Hx.
    change (name_le (S (S f)) x) with
      (if 0 <? x then nth (N.to_nat ((x - 1) mod 26)) NAME_ALPHABET 0 :: name_le (S f) ((x - 1) / 26) else []).
    destruct (N.ltb_spec 0 x) as [Hp|Hz]; [|assert (x = 0) as -> by lia; reflexivity].
    pose proof (N.mod_lt (x - 1) 26 ltac:(lia)) as Hm. rewrite alphabet_nth by exact Hm.
    cbn [rev]. rewrite from_name_acc_app. rewrite IH by lia.
    cbn [from_name_acc].
    assert (L : is_lower (97 + (x - 1) mod 26) = true) by (unfold is_lower; lia). rewrite L.
    replace ((x - 1) / 26 * 26 + (97 + (x - 1) mod 26) - 97 + 1) with x by lia.
    destruct (N.ltb_spec SAT_SUPPLY x); [lia|reflexivity].
Qed.

Lemma name_roundtrip : forall n, n < SAT_SUPPLY ->
  exists s, sat_name n = Ok s /\ sat_from_str s = Ok n.
Proof.
  intros n Hn. unfold sat_name. destruct (N.ltb_spec SAT_SUPPLY n) as [X|_]; [lia|].
  cbv zeta. set (x := SAT_SUPPLY - n).
  exists (rev (name_le (S (N.to_nat (N.size x))) x)). split; [reflexivity|].
  unfold sat_from_str, sat_from_str_with.
  assert (E : existsb is_lower (rev (name_le (S (N.to_nat (N.size x))) x)) = true).
  { cbn [name_le]. destruct (N.ltb_spec 0 x) as [_|X]; [|unfold x in X; lia].
    cbn [rev]. rewrite existsb_app. cbn [existsb].
    pose proof (N.mod_lt (x - 1) 26 ltac:(lia)) as Hm. rewrite alphabet_nth by exact Hm.
    assert (L : is_lower (97 + (x - 1) mod 26) = true) by (unfold is_lower; lia). rewrite L.
    rewrite orb_true_r. reflexivity. }
  rewrite E. unfold from_name. rewrite from_name_le.
  - cbn [bind]. f_equal. unfold x. lia.
  - rewrite N2Nat.id. apply N.size_gt.
  - unfold x. lia.
Qed.
