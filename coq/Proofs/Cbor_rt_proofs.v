(* Lemmas about Codec/Cbor.v (C28), part 2: decoders invert the encoders. *)
From OrdV Require Import Base.Prelude Generated Codec.EnvScript Codec.Envelope Codec.Cbor
  Proofs.Envelope_proofs Proofs.Envelope_build_proofs.
Require Import ZifyBool ZifyN.
Ltac Zify.zify_post_hook ::= Z.div_mod_to_equations.

Definition P64 : N := 18446744073709551616.

Lemma first_byte m a : a < 32 -> (m * 32 + a) / 32 = m /\ (m * 32 + a) mod 32 = a.
Proof. intros. lia. Qed.

Lemma dec_head_enc m n rest : n < P64 -> dec_head (enc_head m n ++ rest) = Some (m, n, rest).
Proof.
  intros Hn. unfold P64 in Hn. unfold enc_head. cbv zeta.
  destruct (N.ltb_spec n 24) as [H1|H1].
  { cbn [app dec_head]. destruct (first_byte m n) as [-> ->]; [lia|].
    destruct (N.ltb_spec n 24); [reflexivity|lia]. }
  destruct (N.ltb_spec n 256) as [H2|H2].
  { cbn [app dec_head]. destruct (first_byte m 24) as [-> ->]; [lia|]. reflexivity. }
  destruct (N.ltb_spec n 65536) as [H3|H3].
  { cbn [app dec_head]. destruct (first_byte m 25) as [-> ->]; [lia|].
    change (25 <? 24) with false. change (25 =? 24) with false. change (25 =? 25) with true. cbv iota.
    f_equal. f_equal. f_equal. lia. }
  destruct (N.ltb_spec n 4294967296) as [H4|H4].
  { cbn [app dec_head]. destruct (first_byte m 26) as [-> ->]; [lia|].
    change (26 <? 24) with false. change (26 =? 24) with false. change (26 =? 25) with false.
    change (26 =? 26) with true. cbv iota. f_equal. f_equal. f_equal. lia. }
  cbn [app dec_head]. destruct (first_byte m 27) as [-> ->]; [lia|].
  change (27 <? 24) with false. change (27 =? 24) with false. change (27 =? 25) with false.
  change (27 =? 26) with false. change (27 =? 27) with true. cbv iota. f_equal. f_equal. f_equal. lia.
Qed.

(* first byte of a head *)
Lemma enc_head_first m n : exists b tl, enc_head m n = b :: tl /\ m * 32 <= b < m * 32 + 32.
Proof.
  unfold enc_head. cbv zeta.
  destruct (N.ltb_spec n 24); [eexists; eexists; split; [reflexivity|lia]|].
  destruct (n <? 256); [eexists; eexists; split; [reflexivity|lia]|].
  destruct (n <? 65536); [eexists; eexists; split; [reflexivity|lia]|].
  destruct (n <? 4294967296); eexists; eexists; (split; [reflexivity|lia]).
Qed.

Lemma take_slice_prefix s rest : take_slice (lenN s) (s ++ rest) = Some (s, rest).
Proof. apply (take_slice_app _ _ _ _ rest (take_slice_exact s)). Qed.

Lemma dec_text_enc M s rest : lenN s < P64 ->
  dec_text M (enc_head M (lenN s) ++ s ++ rest) = Some (s, rest).
Proof.
  intros H. unfold dec_text. rewrite dec_head_enc by exact H. rewrite N.eqb_refl. apply take_slice_prefix.
Qed.

Lemma dec_str_enc s rest : lenN s < P64 -> dec_str (enc_str s ++ rest) = Some (s, rest).
Proof. intros H. unfold dec_str, enc_str. rewrite <- app_assoc. apply dec_text_enc. exact H. Qed.

Lemma dec_bstr_enc s rest : lenN s < P64 -> dec_bstr (enc_bstr s ++ rest) = Some (s, rest).
Proof. intros H. unfold dec_bstr, enc_bstr. rewrite <- app_assoc. apply dec_text_enc. exact H. Qed.

(* ------------------------------------------------------------------ traits *)

Definition wf_trait (t : trait) : Prop :=
  match t with
  | TInt z => (- 9223372036854775808 <= z <= 9223372036854775807)%Z
  | TStr s => lenN s < P64
  | _ => True
  end.

Definition dec_trait_tail (s : bytes) : option (trait * bytes) :=
  match dec_head s with
  | Some (m, n, r') =>
    if m =? 0 then (if n <=? I64_MAX then Some (TInt (Z.of_N n), r') else None)
    else if m =? 1 then (if n <=? I64_MAX then Some (TInt (-1 - Z.of_N n), r') else None)
    else if m =? 3 then
      match take_slice n r' with Some (d, r'') => Some (TStr d, r'') | None => None end
    else None
  | None => None
  end.

Lemma dec_trait_head m n rest : m <= 3 -> dec_trait (enc_head m n ++ rest) = dec_trait_tail (enc_head m n ++ rest).
Proof.
  intros Hm. destruct (enc_head_first m n) as [b [tl [E B]]]. rewrite E. cbn [app].
  unfold dec_trait, CBOR_FALSE, CBOR_TRUE, CBOR_NULL.
  destruct (N.eqb_spec b 244); [lia|]. destruct (N.eqb_spec b 245); [lia|]. destruct (N.eqb_spec b 246); [lia|].
  reflexivity.
Qed.

Lemma dec_trait_enc t rest : wf_trait t -> dec_trait (enc_trait t ++ rest) = Some (t, rest).
Proof.
  intros W. destruct t as [b|z| |s]; cbn [enc_trait].
  - destruct b; reflexivity.
  - cbn [wf_trait] in W. destruct (Z.leb_spec 0 z) as [Hz|Hz].
    + rewrite dec_trait_head by lia. unfold dec_trait_tail.
      rewrite dec_head_enc by (unfold P64; lia). change (0 =? 0) with true. cbv iota.
      unfold I64_MAX. destruct (N.leb_spec (Z.to_N z) 9223372036854775807); [|lia].
      rewrite Z2N.id by lia. reflexivity.
    + rewrite dec_trait_head by lia. unfold dec_trait_tail.
      rewrite dec_head_enc by (unfold P64; lia). change (1 =? 0) with false. change (1 =? 1) with true. cbv iota.
      unfold I64_MAX. destruct (N.leb_spec (Z.to_N (-1 - z)) 9223372036854775807); [|lia].
      rewrite Z2N.id by lia. f_equal. f_equal. f_equal. lia.
  - reflexivity.
  - cbn [wf_trait] in W. unfold enc_str. rewrite <- app_assoc.
    rewrite dec_trait_head by lia. unfold dec_trait_tail.
    rewrite dec_head_enc by exact W. change (3 =? 0) with false. change (3 =? 1) with false. change (3 =? 3) with true.
    cbv iota. rewrite take_slice_prefix. reflexivity.
Qed.

Definition wf_entry (nt : bytes * trait) : Prop := lenN (fst nt) < P64 /\ wf_trait (snd nt).

Lemma dec_entries_enc l : forall seen rest,
  Forall wf_entry l -> NoDup (map fst l) -> (forall n, In n seen -> ~ In n (map fst l)) ->
  dec_entries (length l) seen (flat_map enc_entry l ++ rest) = Some (l, rest).
Proof.
  induction l as [|[name t] l IH]; intros seen rest HW HN HS; [reflexivity|].
  inversion HW as [|? ? [W1 W2] HW']; subst. cbn [map fst] in HN. inversion HN as [|? ? Hnot HN']; subst.
  cbn [length flat_map dec_entries]. unfold enc_entry at 1. cbn [fst snd] in *.
  rewrite <- !app_assoc. rewrite dec_str_enc by exact W1.
  destruct (existsb (bytes_eqb name) seen) eqn:E.
  { exfalso. apply existsb_exists in E. destruct E as [x [Hin Hx]]. apply bytes_eqb_eq in Hx. subst x.
    apply (HS name Hin). left. reflexivity. }
  rewrite dec_trait_enc by exact W2.
  rewrite IH; [reflexivity|exact HW'|exact HN'|].
  intros n [<-|Hin]; [exact Hnot|]. intros Hn. apply (HS n Hin). right. exact Hn.
Qed.

Lemma enc_head_nonempty m n : (1 <= length (enc_head m n))%nat.
Proof. destruct (enc_head_first m n) as [b [tl [-> _]]]. cbn [length]. lia. Qed.

Lemma flat_map_length_ge {A} (f : A -> bytes) l : (forall x, (1 <= length (f x))%nat) ->
  (length l <= length (flat_map f l))%nat.
Proof.
  intros Hf. induction l as [|x l IH]; [cbn; lia|]. cbn [flat_map length]. rewrite app_length.
  specialize (Hf x). lia.
Qed.

Lemma enc_entry_nonempty nt : (1 <= length (enc_entry nt))%nat.
Proof. unfold enc_entry, enc_str. rewrite !app_length. pose proof (enc_head_nonempty 3 (lenN (fst nt))). lia. Qed.

Definition wf_traits (l : list (bytes * trait)) : Prop :=
  Forall wf_entry l /\ NoDup (map fst l) /\ lenN l < P64.

Lemma dec_traits_enc l rest : wf_traits l -> dec_traits (enc_traits l ++ rest) = Some (l, rest).
Proof.
  intros [HW [HN HL]]. unfold dec_traits, enc_traits. rewrite <- app_assoc.
  rewrite dec_head_enc by exact HL. change (5 =? 5) with true. cbn [andb].
  unfold count_ok. destruct (N.leb_spec (lenN l) (lenN (flat_map enc_entry l ++ rest))) as [_|H].
  - unfold lenN at 1. rewrite Nat2N.id. apply dec_entries_enc; [exact HW|exact HN|intros n []].
  - exfalso. unfold lenN in H. rewrite app_length in H.
    pose proof (flat_map_length_ge enc_entry l enc_entry_nonempty). lia.
Qed.
