(* Lemmas about decimal amounts (C34): Pile display parses back; to_integer characterised;
   Decimal::from_str is total and sound. *)
From OrdV Require Import Base.Prelude Ord.Decimal.
Require Import ZifyBool ZifyN.
Ltac Zify.zify_post_hook ::= Z.div_mod_to_equations.

(* ------------------------------------------------------------ digit strings *)
Lemma dec_val_acc_app : forall s t acc, dec_val_acc acc (s ++ t) = dec_val_acc (dec_val_acc acc s) t.
Proof. induction s as [|c r IH]; intros t acc; cbn [app dec_val_acc]; [reflexivity|apply IH]. Qed.

Lemma dec_val_acc_shift : forall s acc,
  dec_val_acc acc s = acc * 10 ^ N.of_nat (length s) + dec_val_acc 0 s.
Proof.
  induction s as [|c r IH]; intro acc.
  - cbn [length dec_val_acc]. change (N.of_nat 0) with 0. rewrite N.pow_0_r. lia.
  - cbn [length dec_val_acc]. rewrite (IH (acc * 10 + (c - 48))), (IH (0 * 10 + (c - 48))).
    rewrite Nat2N.inj_succ, N.pow_succ_r'. lia.
Qed.

Lemma dec_val_zeros k s : dec_val (repeat C_ZERO k ++ s) = dec_val s.
Proof.
  unfold dec_val. induction k as [|k IH]; [reflexivity|].
  cbn [repeat app dec_val_acc]. change (0 * 10 + (C_ZERO - 48)) with 0. exact IH.
Qed.

Lemma forallb_digit_app a b : forallb is_digit (a ++ b) = forallb is_digit a && forallb is_digit b.
Proof. apply forallb_app. Qed.

Lemma forallb_digit_zeros k : forallb is_digit (repeat C_ZERO k) = true.
Proof. induction k; [reflexivity|cbn [repeat forallb]; rewrite IHk; reflexivity]. Qed.

(* ------------------------------------------------------------ show_uint *)
Record digits_of (n : N) (ds : list N) : Prop := {
  d_digits : forallb is_digit ds = true;
  d_val : forall a, dec_val_acc a ds = a * 10 ^ N.of_nat (length ds) + n;
  d_bound : n < 10 ^ N.of_nat (length ds);
  d_tight : length ds = 1%nat \/ 10 ^ (N.of_nat (length ds) - 1) <= n;
  d_last : exists ds0, ds = ds0 ++ [48 + n mod 10]
}.

Lemma digits_acc_spec : forall f n acc, n < 2 ^ N.of_nat f ->
  exists ds, digits_acc (S f) n acc = ds ++ acc /\ digits_of n ds.
Proof.
  induction f as [|f IH]; intros n acc H.
  - cbn in H. assert (n = 0) by lia. subst. exists [48]. split; [reflexivity|].
    constructor.
    + reflexivity.
    + intro a. cbn [dec_val_acc length]. change (N.of_nat 1) with 1. lia.
    + reflexivity.
    + left; reflexivity.
    + exists []. reflexivity.
  - cbn [digits_acc]. destruct (N.ltb_spec n 10) as [A|A].
    + exists [48 + n]. split; [reflexivity|]. constructor; cbn [length].
      * cbn [forallb]. unfold is_digit. lia.
      * intro a. cbn [dec_val_acc]. change (N.of_nat 1) with 1. lia.
      * change (N.of_nat 1) with 1. lia.
      * left; reflexivity.
      * exists []. cbn [app]. f_equal. f_equal. lia.
    + rewrite Nat2N.inj_succ, N.pow_succ_r' in H.
      destruct (IH (n / 10) ((48 + n mod 10) :: acc) ltac:(lia)) as (ds & E & HS).
      exists (ds ++ [48 + n mod 10]). split.
      * cbn [digits_acc] in E |- *. rewrite <- app_assoc. exact E.
      * destruct HS as [S1 S2 S3 S4 S5]. constructor.
        -- rewrite forallb_digit_app, S1. cbn [forallb]. unfold is_digit. lia.
        -- intro a. rewrite dec_val_acc_app, S2. cbn [dec_val_acc]. rewrite app_length. cbn [length].
           rewrite Nat.add_1_r, Nat2N.inj_succ, N.pow_succ_r'. lia.
        -- rewrite app_length. cbn [length]. rewrite Nat.add_1_r, Nat2N.inj_succ, N.pow_succ_r'. lia.
        -- right. rewrite app_length. cbn [length]. rewrite Nat.add_1_r, Nat2N.inj_succ.
           replace (N.succ (N.of_nat (length ds)) - 1) with (N.of_nat (length ds)) by lia.
           destruct S4 as [L1|L2].
           ++ rewrite L1. change (10 ^ N.of_nat 1) with 10. lia.
           ++ assert (1 <= N.of_nat (length ds)).
              { destruct ds; [destruct S5 as [x Hx]; destruct x; discriminate|cbn [length]; lia]. }
              replace (N.of_nat (length ds)) with (N.succ (N.of_nat (length ds) - 1)) by lia.
              rewrite N.pow_succ_r'. lia.
        -- exists ds. reflexivity.
Qed.

Lemma show_uint_spec n : digits_of n (show_uint n).
Proof.
  unfold show_uint.
  destruct (digits_acc_spec (N.to_nat (N.size n)) n []) as (ds & E & HS).
  - rewrite N2Nat.id. apply N.size_gt.
  - rewrite E, app_nil_r. exact HS.
Qed.

Lemma digits_of_val n ds : digits_of n ds -> dec_val ds = n.
Proof. intros [_ V _ _ _]. unfold dec_val. rewrite V. lia. Qed.

Lemma digits_of_nonempty n ds : digits_of n ds -> ds <> [].
Proof. intros [_ _ _ _ [x Hx]] E. subst. destruct x; discriminate. Qed.

Lemma digits_of_length n ds w : digits_of n ds -> (1 <= w)%nat -> n < 10 ^ N.of_nat w -> (length ds <= w)%nat.
Proof.
  intros [_ _ _ T _] Hw Hn. destruct T as [L1|L2]; [lia|].
  destruct (Nat.le_gt_cases (length ds) w) as [|G]; [assumption|exfalso].
  assert (10 ^ N.of_nat w <= 10 ^ (N.of_nat (length ds) - 1)) by (apply N.pow_le_mono_r; lia). lia.
Qed.

(* ------------------------------------------------------------ split_once *)
Lemma split_once_none c s : ~ In c s -> split_once c s = None.
Proof.
  induction s as [|x r IH]; intro H; [reflexivity|]. cbn [split_once].
  destruct (N.eqb_spec x c) as [->|NE]; [exfalso; apply H; left; reflexivity|].
  rewrite IH; [reflexivity|]. intro I. apply H. right. exact I.
Qed.

Lemma split_once_app c a b : ~ In c a -> split_once c (a ++ c :: b) = Some (a, b).
Proof.
  induction a as [|x r IH]; intro H; cbn [app split_once].
  - rewrite N.eqb_refl. reflexivity.
  - destruct (N.eqb_spec x c) as [->|NE]; [exfalso; apply H; left; reflexivity|].
    rewrite IH; [reflexivity|]. intro I. apply H. right. exact I.
Qed.

Lemma digits_no_char c s : forallb is_digit s = true -> is_digit c = false -> ~ In c s.
Proof.
  intros H Hc I. rewrite forallb_forall in H. specialize (H c I). congruence.
Qed.

(* ------------------------------------------------------------ parse_uint on digit strings *)
Lemma parse_uint_digits bound s : s <> [] -> forallb is_digit s = true ->
  parse_uint bound s = if dec_val s <? bound then Ok (dec_val s) else Err E_PARSEINT.
Proof.
  intros Hne Hd. unfold parse_uint. destruct s as [|c r]; [congruence|].
  destruct (N.eqb_spec c C_PLUS) as [->|_]; [cbn in Hd; discriminate|].
  rewrite Hd. reflexivity.
Qed.

Lemma is_nil_false {A} (l : list A) : l <> [] -> is_nil l = false.
Proof. destruct l; [congruence|reflexivity]. Qed.

(* ------------------------------------------------------------ trailing zeros *)
Lemma trailing_zero_chars_last s c : c <> C_ZERO -> trailing_zero_chars (s ++ [c]) = 0%nat.
Proof.
  intro H. unfold trailing_zero_chars. rewrite rev_app_distr. cbn [rev app count_leading_zero_chars].
  destruct (N.eqb_spec c C_ZERO); [congruence|reflexivity].
Qed.

(* ------------------------------------------------------------ strip_zeros *)
Lemma strip_zeros_spec : forall fuel fr w, 0 < fr -> fr < 10 ^ N.of_nat w -> (w <= fuel)%nat ->
  let '(fr', w') := strip_zeros fuel fr w in
  fr' mod 10 <> 0 /\ 0 < fr' /\ fr' < 10 ^ N.of_nat w' /\ (1 <= w' <= w)%nat /\
  fr = fr' * 10 ^ N.of_nat (w - w').
Proof.
  induction fuel as [|f IH]; intros fr w Hpos Hlt Hw.
  - assert (w = 0%nat) by lia. subst. cbn in Hlt. lia.
  - cbn [strip_zeros]. destruct (N.eqb_spec (fr mod 10) 0) as [Z|NZ].
    + assert (W1 : (1 <= w)%nat).
      { destruct w; [cbn in Hlt; lia|lia]. }
      assert (Hlt' : fr / 10 < 10 ^ N.of_nat (w - 1)).
      { replace (N.of_nat w) with (N.succ (N.of_nat (w - 1))) in Hlt by lia.
        rewrite N.pow_succ_r' in Hlt. lia. }
      specialize (IH (fr / 10) (w - 1)%nat ltac:(lia) Hlt' ltac:(lia)).
      destruct (strip_zeros f (fr / 10) (w - 1)) as [fr' w'].
      destruct IH as (A & B & C & D & E). repeat split; try assumption; try lia.
      replace (w - w')%nat with (S (w - 1 - w'))%nat by lia.
      rewrite Nat2N.inj_succ, N.pow_succ_r'. lia.
    + assert (W1 : (1 <= w)%nat).
      { destruct w; [cbn in Hlt; lia|lia]. }
      repeat split; try assumption; try lia.
      rewrite Nat.sub_diag. change (N.of_nat 0) with 0. rewrite N.pow_0_r. lia.
Qed.

(* ------------------------------------------------------------ powers of ten *)
Lemma pow10_38 : 10 ^ 38 < P128.
Proof. vm_compute. reflexivity. Qed.

Lemma pow10_39 : P128 <= 10 ^ 39.
Proof. vm_compute. discriminate. Qed.

Lemma pow10_le_38 d : d <= 38 -> 10 ^ d < P128.
Proof.
  intro H. assert (10 ^ d <= 10 ^ 38) by (apply N.pow_le_mono_r; lia). pose proof pow10_38. lia.
Qed.

Lemma pow10_pos k : 0 < 10 ^ k.
Proof. apply N.neq_0_lt_0, N.pow_nonzero. lia. Qed.

(* ------------------------------------------------------------ to_integer characterised *)
Lemma to_integer_spec value scale d : d <= 38 ->
  to_integer value scale d =
    if d <? scale then Err E_PRECISION
    else if value * 10 ^ (d - scale) <? P128 then Ok (value * 10 ^ (d - scale))
    else Err E_AMOUNT.
Proof.
  intro H. unfold to_integer. destruct (N.ltb_spec d scale); [reflexivity|]. cbv zeta.
  pose proof (pow10_le_38 (d - scale) ltac:(lia)).
  destruct (N.leb_spec P128 (10 ^ (d - scale))); [lia|].
  destruct (N.leb_spec P128 (value * 10 ^ (d - scale))), (N.ltb_spec (value * 10 ^ (d - scale)) P128);
    try reflexivity; lia.
Qed.

Lemma to_integer_total value scale d t : to_integer value scale d <> Panic t.
Proof.
  unfold to_integer. destruct (_ <? _); [discriminate|]. cbv zeta.
  destruct (_ <=? _); [discriminate|]. destruct (_ <=? _); discriminate.
Qed.

(* ------------------------------------------------------------ Pile display parses back *)
Lemma pile_roundtrip a d : a < P128 -> d <= 38 ->
  exists num v sc, pile_number a d = Ok num /\ dec_from_str num = Ok (v, sc) /\
    to_integer v sc d = Ok a /\ sc <= d /\ v * 10 ^ (d - sc) = a.
Proof.
  intros Ha Hd. unfold pile_number. pose proof (pow10_le_38 d Hd) as Hp.
  destruct (N.leb_spec P128 (10 ^ d)) as [Z|_]; [lia|]. cbv zeta.
  pose proof (pow10_pos d) as Hpos.
  set (whole := a / 10 ^ d). set (fractional := a mod 10 ^ d).
  assert (Ea : a = whole * 10 ^ d + fractional).
  { unfold whole, fractional. pose proof (N.div_mod a (10 ^ d) ltac:(lia)). lia. }
  assert (Hfr : fractional < 10 ^ d) by (unfold fractional; apply N.mod_lt; lia).
  pose proof (show_uint_spec whole) as Sw.
  assert (Hw : whole < P128).
  { unfold whole. pose proof (N.div_le_upper_bound a (10 ^ d) a ltac:(lia) ltac:(nia)). lia. }
  destruct (N.eqb_spec fractional 0) as [F0|FN].
  - (* integer only *)
    exists (show_uint whole), whole, 0. split; [reflexivity|].
    assert (P : dec_from_str (show_uint whole) = Ok (whole, 0)).
    { unfold dec_from_str. rewrite split_once_none.
      - rewrite parse_uint_digits; [|exact (digits_of_nonempty _ _ Sw)|exact (d_digits _ _ Sw)].
        rewrite (digits_of_val _ _ Sw). destruct (N.ltb_spec whole P128); [reflexivity|lia].
      - apply digits_no_char; [exact (d_digits _ _ Sw)|reflexivity]. }
    split; [exact P|]. rewrite to_integer_spec by exact Hd.
    destruct (N.ltb_spec d 0); [lia|]. rewrite N.sub_0_r.
    replace (whole * 10 ^ d) with a by lia.
    destruct (N.ltb_spec a P128); [|lia]. repeat split; lia.
  - (* with a fractional part *)
    pose proof (strip_zeros_spec (N.to_nat d) fractional (N.to_nat d) ltac:(lia)
                  ltac:(rewrite N2Nat.id; exact Hfr) ltac:(lia)) as SZ.
    destruct (strip_zeros (N.to_nat d) fractional (N.to_nat d)) as [fr w].
    destruct SZ as (Z1 & Z2 & Z3 & Z4 & Z5).
    pose proof (show_uint_spec fr) as Sf.
    set (F := pad_zeros w (show_uint fr)).
    assert (Flen : length F = w).
    { unfold F, pad_zeros. rewrite app_length, repeat_length.
      pose proof (digits_of_length fr _ w Sf ltac:(lia) Z3). lia. }
    assert (Fdig : forallb is_digit F = true).
    { unfold F, pad_zeros. rewrite forallb_digit_app, forallb_digit_zeros, (d_digits _ _ Sf). reflexivity. }
    assert (Fval : dec_val F = fr).
    { unfold F, pad_zeros. rewrite dec_val_zeros. exact (digits_of_val _ _ Sf). }
    assert (Ftz : trailing_zero_chars F = 0%nat).
    { destruct (d_last _ _ Sf) as [ds0 E]. unfold F, pad_zeros. rewrite E, app_assoc.
      apply trailing_zero_chars_last. unfold C_ZERO. lia. }
    assert (Fne : F <> []).
    { intro E. rewrite E in Flen. cbn in Flen. lia. }
    set (wN := N.of_nat w) in *.
    assert (WN : 1 <= wN <= d) by (unfold wN; lia).
    exists (show_uint whole ++ [C_DOT] ++ F), (whole * 10 ^ wN + fr), wN.
    split; [reflexivity|].
    assert (Ek : 10 ^ d = 10 ^ wN * 10 ^ (d - wN)).
    { rewrite <- N.pow_add_r. f_equal. lia. }
    assert (Efr : fractional = fr * 10 ^ (d - wN)).
    { rewrite Z5. f_equal. f_equal. unfold wN. lia. }
    pose proof (pow10_pos (d - wN)) as Hk. pose proof (pow10_pos wN) as Hwn.
    assert (Hv : (whole * 10 ^ wN + fr) * 10 ^ (d - wN) = a).
    { rewrite N.mul_add_distr_r, <- N.mul_assoc, <- Ek. lia. }
    assert (Hvb : whole * 10 ^ wN + fr < P128) by nia.
    assert (P : dec_from_str (show_uint whole ++ [C_DOT] ++ F) = Ok (whole * 10 ^ wN + fr, wN)).
    { unfold dec_from_str. cbn [app].
      rewrite split_once_app by (apply digits_no_char; [exact (d_digits _ _ Sw)|reflexivity]).
      pose proof (digits_of_nonempty _ _ Sw) as Wne.
      rewrite (is_nil_false _ Wne). cbn [andb].
      unfold int_part. rewrite (is_nil_false _ Wne).
      rewrite parse_uint_digits; [|exact Wne|exact (d_digits _ _ Sw)].
      rewrite (digits_of_val _ _ Sw). destruct (N.ltb_spec whole P128); [|lia]. cbn [bind].
      unfold frac_part. rewrite (is_nil_false _ Fne).
      rewrite Fdig. cbn [negb]. rewrite Ftz, Flen. change (N.of_nat 0) with 0.
      rewrite N.sub_0_r, N.pow_0_r.
      rewrite parse_uint_digits by assumption. rewrite Fval.
      assert (fr < P128) by nia.
      destruct (N.ltb_spec fr P128); [|lia]. cbn [bind].
      destruct (N.leb_spec P128 1) as [Z|_]; [unfold P128 in Z; lia|].
      fold wN. destruct (N.ltb_spec 255 wN); [lia|]. cbn [bind]. rewrite N.div_1_r.
      pose proof (pow10_le_38 wN ltac:(lia)).
      destruct (N.leb_spec P128 (10 ^ wN)); [lia|].
      destruct (N.leb_spec P128 (whole * 10 ^ wN)); [lia|].
      destruct (N.leb_spec P128 (whole * 10 ^ wN + fr)); [lia|]. reflexivity. }
    split; [exact P|]. rewrite to_integer_spec by exact Hd.
    destruct (N.ltb_spec d wN); [lia|]. rewrite Hv.
    destruct (N.ltb_spec a P128); [|lia]. repeat split; lia.
Qed.
