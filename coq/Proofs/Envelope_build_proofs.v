(* Lemmas about Codec/Envelope.v (C27), part 2: the reveal script built by the model of
   append_reveal_script_to_builder decodes to the expected instruction list, the envelope
   automaton reads it as one envelope per inscription, and the field map returns the fields. *)
From OrdV Require Import Base.Prelude Generated Codec.EnvScript Codec.Envelope Proofs.Envelope_proofs.
Require Import ZifyBool ZifyN.
Ltac Zify.zify_post_hook ::= Z.div_mod_to_equations.

(* ================================================================== script decoding *)

Lemma decode_fuel_mono f : forall s l, decode_fuel f s = Some l -> forall g, (f <= g)%nat -> decode_fuel g s = Some l.
Proof.
  induction f as [|f IH]; intros [|byte rest] l H g Hg; cbn [decode_fuel] in H.
  - destruct g; exact H.
  - discriminate.
  - destruct g; exact H.
  - destruct g as [|g]; [lia|]. cbn [decode_fuel].
    destruct (next_instr byte rest) as [[i r]|]; [|discriminate].
    destruct (decode_fuel f r) as [l'|] eqn:E; [|discriminate].
    rewrite (IH r l' E g) by lia. exact H.
Qed.

Lemma take_slice_app n s d r b : take_slice n s = Some (d, r) -> take_slice n (s ++ b) = Some (d, r ++ b).
Proof.
  unfold take_slice, lenN. destruct (N.leb_spec n (N.of_nat (length s))) as [H|]; [|discriminate].
  intros E. injection E as <- <-. rewrite app_length.
  destruct (N.leb_spec n (N.of_nat (length s + length b))) as [|H2]; [|lia].
  assert (N.to_nat n <= length s)%nat by lia.
  rewrite firstn_app, skipn_app.
  replace (N.to_nat n - length s)%nat with 0%nat by lia. cbn [firstn skipn]. rewrite app_nil_r. reflexivity.
Qed.

Lemma read_uint_app k s n r b : read_uint k s = Some (n, r) -> read_uint k (s ++ b) = Some (n, r ++ b).
Proof.
  destruct k as [|[|[|[|[|k]]]]]; destruct s as [|a0 [|b0 [|c0 [|d0 s]]]]; cbn [read_uint app]; intros H;
    try discriminate; injection H as <- <-; reflexivity.
Qed.

Lemma next_instr_app byte rest i r b :
  next_instr byte rest = Some (i, r) -> next_instr byte (rest ++ b) = Some (i, r ++ b).
Proof.
  unfold next_instr.
  assert (G : forall k, match read_uint k rest with
      | Some (n, r0) => match take_slice n r0 with Some (d, r') => Some (IPush d, r') | None => None end
      | None => None end = Some (i, r) ->
      match read_uint k (rest ++ b) with
      | Some (n, r0) => match take_slice n r0 with Some (d, r') => Some (IPush d, r') | None => None end
      | None => None end = Some (i, r ++ b)).
  { intros k. destruct (read_uint k rest) as [[n r0]|] eqn:E; [|discriminate].
    destruct (take_slice n r0) as [[d r']|] eqn:E2; [|discriminate].
    intros H; injection H as <- <-.
    rewrite (read_uint_app _ _ _ _ b E), (take_slice_app _ _ _ _ b E2). reflexivity. }
  destruct (byte <? OP_PUSHDATA1).
  - destruct (take_slice byte rest) as [[d r']|] eqn:E; [|discriminate].
    intros H; injection H as <- <-. rewrite (take_slice_app _ _ _ _ b E). reflexivity.
  - destruct (byte =? OP_PUSHDATA1); [apply G|].
    destruct (byte =? OP_PUSHDATA2); [apply G|].
    destruct (byte =? OP_PUSHDATA4); [apply G|].
    intros H; injection H as <- <-. reflexivity.
Qed.

Lemma decode_fuel_app f : forall a ia, decode_fuel f a = Some ia ->
  forall g b ib, decode_fuel g b = Some ib -> decode_fuel (f + g) (a ++ b) = Some (ia ++ ib).
Proof.
  induction f as [|f IH]; intros [|byte rest] ia H g b ib Hb; cbn [decode_fuel] in H.
  - injection H as <-. cbn [app plus]. exact Hb.
  - discriminate.
  - injection H as <-. cbn [app]. apply (decode_fuel_mono g b ib Hb). lia.
  - destruct (next_instr byte rest) as [[i r]|] eqn:E; [|discriminate].
    destruct (decode_fuel f r) as [l'|] eqn:E2; [|discriminate].
    injection H as <-. cbn [app plus decode_fuel].
    rewrite (next_instr_app _ _ _ _ b E). rewrite (IH r l' E2 g b ib Hb). reflexivity.
Qed.

Lemma decode_app a b ia ib :
  decode_script a = Some ia -> decode_script b = Some ib -> decode_script (a ++ b) = Some (ia ++ ib).
Proof.
  unfold decode_script. intros Ha Hb. rewrite app_length. apply decode_fuel_app; assumption.
Qed.

Lemma decode_nil : decode_script [] = Some [].
Proof. reflexivity. Qed.

(* a non-push opcode byte *)
Lemma decode_op op : OP_PUSHDATA4 < op -> decode_script [op] = Some [IOp op].
Proof.
  intros H. unfold decode_script. cbn [length decode_fuel]. unfold next_instr, OP_PUSHDATA1, OP_PUSHDATA2, OP_PUSHDATA4 in *.
  destruct (N.ltb_spec op 76); [lia|].
  destruct (N.eqb_spec op 76); [lia|]. destruct (N.eqb_spec op 77); [lia|]. destruct (N.eqb_spec op 78); [lia|].
  reflexivity.
Qed.

Lemma take_slice_exact d : take_slice (lenN d) d = Some (d, []).
Proof.
  unfold take_slice, lenN. rewrite N.leb_refl, Nat2N.id, firstn_all, skipn_all. reflexivity.
Qed.

(* what push_slice writes decodes to one PushBytes instruction *)
Lemma decode_push d p : push_slice d = Some p -> decode_script p = Some [IPush d].
Proof.
  unfold push_slice, push_prefix. set (n := lenN d).
  assert (T : take_slice n d = Some (d, [])) by apply take_slice_exact.
  unfold OP_PUSHDATA1, OP_PUSHDATA2, OP_PUSHDATA4.
  destruct (N.ltb_spec n 76) as [H1|H1].
  { intros H; injection H as <-. unfold decode_script. cbn [app length decode_fuel].
    unfold next_instr, OP_PUSHDATA1. destruct (N.ltb_spec n 76); [|lia]. rewrite T.
    destruct (length d); reflexivity. }
  destruct (N.ltb_spec n 256) as [H2|H2].
  { intros H; injection H as <-. unfold decode_script. cbn [app length decode_fuel].
    unfold next_instr, OP_PUSHDATA1. cbn [read_uint]. change (76 <? 76) with false. change (76 =? 76) with true.
    cbv iota. rewrite T. destruct (length d); reflexivity. }
  destruct (N.ltb_spec n 65536) as [H3|H3].
  { intros H; injection H as <-. unfold decode_script. cbn [app length decode_fuel].
    unfold next_instr, OP_PUSHDATA1, OP_PUSHDATA2. cbn [read_uint].
    change (77 <? 76) with false. change (77 =? 76) with false. change (77 =? 77) with true. cbv iota.
    replace (n mod 256 + 256 * (n / 256)) with n by lia. rewrite T. destruct (length d); reflexivity. }
  destruct (N.ltb_spec n 4294967296) as [H4|H4]; [|discriminate].
  intros H; injection H as <-. unfold decode_script. cbn [app length decode_fuel].
  unfold next_instr, OP_PUSHDATA1, OP_PUSHDATA2, OP_PUSHDATA4. cbn [read_uint].
  change (78 <? 76) with false. change (78 =? 76) with false. change (78 =? 77) with false.
  change (78 =? 78) with true. cbv iota.
  replace (n mod 256 + 256 * ((n / 256) mod 256) + 65536 * ((n / 65536) mod 256) + 16777216 * (n / 16777216)) with n by lia.
  rewrite T. destruct (length d); reflexivity.
Qed.

Lemma push_slice_some d : lenN d <= U32_MAX -> exists p, push_slice d = Some p.
Proof.
  intros H. unfold push_slice, push_prefix, U32_MAX in *.
  destruct (lenN d <? OP_PUSHDATA1); [eexists; reflexivity|].
  destruct (lenN d <? 256); [eexists; reflexivity|].
  destruct (lenN d <? 65536); [eexists; reflexivity|].
  destruct (N.ltb_spec (lenN d) 4294967296); [eexists; reflexivity|lia].
Qed.

Lemma decode_push_r d b : push_r d = Ok b -> decode_script b = Some [IPush d].
Proof.
  unfold push_r. destruct (push_slice d) as [p|] eqn:E; [|discriminate].
  intros H; injection H as <-. apply decode_push. exact E.
Qed.

Lemma decode_push_pair t v b : push_pair t v = Ok b -> decode_script b = Some [IPush [t]; IPush v].
Proof.
  unfold push_pair. destruct (push_r [t]) as [a| |] eqn:Ea; cbn [bind]; try discriminate.
  destruct (push_r v) as [c| |] eqn:Ec; cbn [bind]; try discriminate.
  intros H; injection H as <-.
  change [IPush [t]; IPush v] with ([IPush [t]] ++ [IPush v]).
  apply decode_app; apply decode_push_r; assumption.
Qed.

Lemma concat_r_decode rs : forall iss b,
  Forall2 (fun r is => forall x, r = Ok x -> decode_script x = Some is) rs iss ->
  concat_r rs = Ok b -> decode_script b = Some (concat iss).
Proof.
  induction rs as [|r rs IH]; intros iss b HF H.
  - inversion HF; subst. cbn in H. injection H as <-. reflexivity.
  - inversion HF as [|? is0 ? iss' H1 H2]; subst. cbn [concat_r] in H.
    destruct r as [a| |]; cbn [bind] in H; try discriminate.
    destruct (concat_r rs) as [c| |] eqn:Ec; cbn [bind] in H; try discriminate.
    injection H as <-. cbn [concat]. apply decode_app; [apply H1; reflexivity|].
    apply (IH iss' c H2 eq_refl).
Qed.

Lemma concat_r_map_decode {A} (f : A -> Res bytes) (g : A -> list instr) (l : list A) b :
  (forall x y, f x = Ok y -> decode_script y = Some (g x)) ->
  concat_r (map f l) = Ok b -> decode_script b = Some (flat_map g l).
Proof.
  intros Hf H. rewrite flat_map_concat_map. apply (concat_r_decode (map f l)); [|exact H].
  clear H. induction l as [|x l IH]; cbn [map]; constructor; [apply Hf|exact IH].
Qed.

(* ================================================================== what the builder pushes *)

Definition seg (t : N) (vs : list bytes) : list (bytes * bytes) := map (fun v => ([t], v)) vs.
Definition flat (ps : list (bytes * bytes)) : list bytes := flat_map (fun kv => [fst kv; snd kv]) ps.
Definition opt_list (o : option bytes) : list bytes := match o with Some v => [v] | None => [] end.
Definition chunks_opt (o : option bytes) : list bytes := match o with Some v => chunks CHUNK v | None => [] end.

(* the (tag, value) pushes of one inscription, in builder order *)
Definition insc_pairs (i : inscription) : list (bytes * bytes) :=
  seg TAG_CONTENT_TYPE (opt_list (i_content_type i)) ++
  seg TAG_CONTENT_ENCODING (opt_list (i_content_encoding i)) ++
  seg TAG_METAPROTOCOL (opt_list (i_metaprotocol i)) ++
  seg TAG_PARENT (i_parents i) ++
  seg TAG_DELEGATE (opt_list (i_delegate i)) ++
  seg TAG_POINTER (opt_list (i_pointer i)) ++
  seg TAG_METADATA (chunks_opt (i_metadata i)) ++
  seg TAG_RUNE (opt_list (i_rune i)) ++
  seg TAG_PROPERTIES (chunks_opt (i_properties i)) ++
  seg TAG_PROPERTY_ENCODING (opt_list (i_property_encoding i)).

Definition body_payload (body : option bytes) : list bytes :=
  match body with None => [] | Some b => [] :: chunks CHUNK b end.

Definition payload_of (i : inscription) : list bytes := flat (insc_pairs i) ++ body_payload (i_body i).

Definition reveal_instrs (i : inscription) : list instr :=
  IPush [] :: IOp OP_IF :: IPush PROTOCOL_ID :: map IPush (payload_of i) ++ [IOp OP_ENDIF].

Lemma flat_app a b : flat (a ++ b) = flat a ++ flat b.
Proof. unfold flat. apply flat_map_app. Qed.

Lemma seg_instrs t vs : flat_map (fun v => [IPush [t]; IPush v]) vs = map IPush (flat (seg t vs)).
Proof. induction vs as [|v vs IH]; [reflexivity|]. cbn [flat_map seg map flat app fst snd]. rewrite IH. reflexivity. Qed.

Lemma decode_tag_append_single t v b : tag_chunked t = false ->
  tag_append t v = Ok b -> decode_script b = Some (map IPush (flat (seg t (opt_list v)))).
Proof.
  intros Hc. unfold tag_append. destruct v as [v|].
  - rewrite Hc. intros H. apply decode_push_pair in H. exact H.
  - intros H; injection H as <-. reflexivity.
Qed.

Lemma decode_tag_append_chunked t v b : tag_chunked t = true ->
  tag_append t v = Ok b -> decode_script b = Some (map IPush (flat (seg t (chunks_opt v)))).
Proof.
  intros Hc. unfold tag_append. destruct v as [v|].
  - rewrite Hc. intros H. rewrite <- seg_instrs.
    apply (concat_r_map_decode (push_pair t) (fun v => [IPush [t]; IPush v]) _ b); [|exact H].
    intros x y. apply decode_push_pair.
  - intros H; injection H as <-. reflexivity.
Qed.

Lemma decode_tag_append_array t vs b :
  tag_append_array t vs = Ok b -> decode_script b = Some (map IPush (flat (seg t vs))).
Proof.
  unfold tag_append_array. intros H. rewrite <- seg_instrs.
  apply (concat_r_map_decode (push_pair t) (fun v => [IPush [t]; IPush v]) _ b); [|exact H].
  intros x y. apply decode_push_pair.
Qed.

Lemma flat_map_single {A B} (f : A -> B) l : flat_map (fun v => [f v]) l = map f l.
Proof. induction l as [|x l IH]; [reflexivity|]. cbn [flat_map map app]. rewrite IH. reflexivity. Qed.

Lemma decode_append_body body b :
  append_body body = Ok b -> decode_script b = Some (map IPush (body_payload body)).
Proof.
  unfold append_body. destruct body as [bd|].
  - destruct (push_r []) as [a| |] eqn:Ea; cbn [bind]; try discriminate.
    destruct (concat_r (map push_r (chunks CHUNK bd))) as [c| |] eqn:Ec; cbn [bind]; try discriminate.
    intros H; injection H as <-. cbn [body_payload map].
    change (IPush [] :: map IPush (chunks CHUNK bd)) with ([IPush []] ++ map IPush (chunks CHUNK bd)).
    apply decode_app; [apply decode_push_r; exact Ea|].
    replace (map IPush (chunks CHUNK bd)) with (flat_map (fun v => [IPush v]) (chunks CHUNK bd)).
    + apply (concat_r_map_decode push_r (fun v => [IPush v]) _ c); [|exact Ec]. intros x y. apply decode_push_r.
    + apply flat_map_single.
  - intros H; injection H as <-. reflexivity.
Qed.

Lemma tag_chunked_vals :
  tag_chunked TAG_CONTENT_TYPE = false /\ tag_chunked TAG_CONTENT_ENCODING = false /\
  tag_chunked TAG_METAPROTOCOL = false /\ tag_chunked TAG_DELEGATE = false /\
  tag_chunked TAG_POINTER = false /\ tag_chunked TAG_METADATA = true /\ tag_chunked TAG_RUNE = false /\
  tag_chunked TAG_PROPERTIES = true /\ tag_chunked TAG_PROPERTY_ENCODING = false.
Proof. vm_compute. repeat split. Qed.

Lemma reveal_decode i s : reveal_script i = Ok s -> decode_script s = Some (reveal_instrs i).
Proof.
  destruct tag_chunked_vals as [C1 [C2 [C3 [C4 [C5 [C6 [C7 [C8 C9]]]]]]]].
  unfold reveal_script.
  destruct (push_r PROTOCOL_ID) as [hd| |] eqn:Eh; cbn [bind]; try discriminate.
  match goal with |- context [concat_r ?l] => destruct (concat_r l) as [fs| |] eqn:Ef end; cbn [bind]; try discriminate.
  intros H; injection H as <-.
  unfold reveal_instrs.
  change (IPush [] :: IOp OP_IF :: IPush PROTOCOL_ID :: map IPush (payload_of i) ++ [IOp OP_ENDIF])
    with ([IPush []; IOp OP_IF] ++ [IPush PROTOCOL_ID] ++ map IPush (payload_of i) ++ [IOp OP_ENDIF]).
  change (decode_script ([0; OP_IF] ++ hd ++ fs ++ [OP_ENDIF]) =
    Some ([IPush []; IOp OP_IF] ++ [IPush PROTOCOL_ID] ++ map IPush (payload_of i) ++ [IOp OP_ENDIF])).
  apply decode_app; [reflexivity|].
  apply decode_app; [apply decode_push_r; exact Eh|].
  apply decode_app; [|reflexivity].
  unfold payload_of, insc_pairs. rewrite !flat_app, !map_app.
  assert (D : decode_script fs = Some (concat [
      map IPush (flat (seg TAG_CONTENT_TYPE (opt_list (i_content_type i))));
      map IPush (flat (seg TAG_CONTENT_ENCODING (opt_list (i_content_encoding i))));
      map IPush (flat (seg TAG_METAPROTOCOL (opt_list (i_metaprotocol i))));
      map IPush (flat (seg TAG_PARENT (i_parents i)));
      map IPush (flat (seg TAG_DELEGATE (opt_list (i_delegate i))));
      map IPush (flat (seg TAG_POINTER (opt_list (i_pointer i))));
      map IPush (flat (seg TAG_METADATA (chunks_opt (i_metadata i))));
      map IPush (flat (seg TAG_RUNE (opt_list (i_rune i))));
      map IPush (flat (seg TAG_PROPERTIES (chunks_opt (i_properties i))));
      map IPush (flat (seg TAG_PROPERTY_ENCODING (opt_list (i_property_encoding i))));
      map IPush (body_payload (i_body i))])).
  { eapply concat_r_decode; [|exact Ef]. repeat constructor.
    + intros x. apply decode_tag_append_single. exact C1.
    + intros x. apply decode_tag_append_single. exact C2.
    + intros x. apply decode_tag_append_single. exact C3.
    + intros x. apply decode_tag_append_array.
    + intros x. apply decode_tag_append_single. exact C4.
    + intros x. apply decode_tag_append_single. exact C5.
    + intros x. apply decode_tag_append_chunked. exact C6.
    + intros x. apply decode_tag_append_single. exact C7.
    + intros x. apply decode_tag_append_chunked. exact C8.
    + intros x. apply decode_tag_append_single. exact C9.
    + intros x. apply decode_append_body. }
  cbn [concat] in D. rewrite app_nil_r in D. rewrite <- !app_assoc. exact D.
Qed.

Lemma batch_decode pre pi is s :
  decode_script pre = Some pi -> batch_reveal_script pre is = Ok s ->
  decode_script s = Some (pi ++ flat_map reveal_instrs is).
Proof.
  intros Hp. unfold batch_reveal_script.
  destruct (concat_r (map reveal_script is)) as [c| |] eqn:Ec; cbn [bind]; try discriminate.
  intros H; injection H as <-. apply decode_app; [exact Hp|].
  apply (concat_r_map_decode reveal_script reveal_instrs is c); [|exact Ec].
  intros x y. apply reveal_decode.
Qed.

(* ================================================================== the automaton on built scripts *)

Lemma run_env_pushes ds : forall s pn acc rest,
  run_auto (SEnv s pn acc) (map IPush ds ++ IOp OP_ENDIF :: rest) =
  mk_raw (rev acc ++ ds) pn s :: run_auto (SOut s) rest.
Proof.
  induction ds as [|d ds IH]; intros s pn acc rest.
  - cbn [map app run_auto step]. rewrite N.eqb_refl. rewrite app_nil_r. reflexivity.
  - cbn [map app run_auto step]. rewrite IH. cbn [rev]. rewrite <- app_assoc. reflexivity.
Qed.

Lemma run_reveal i s rest :
  run_auto (SOut s) (reveal_instrs i ++ rest) = mk_raw (payload_of i) false s :: run_auto (SOut s) rest.
Proof.
  unfold reveal_instrs. cbn [app run_auto step is_empty_push is_op].
  rewrite N.eqb_refl. cbn [run_auto step is_push_of]. rewrite bytes_eqb_refl.
  rewrite <- app_assoc. cbn [app]. rewrite run_env_pushes. reflexivity.
Qed.

Lemma run_batch is : forall s,
  run_auto (SOut s) (flat_map reveal_instrs is) = map (fun i => mk_raw (payload_of i) false s) is.
Proof.
  induction is as [|i is IH]; intros s; [reflexivity|].
  cbn [flat_map map]. rewrite run_reveal. f_equal. apply IH.
Qed.

(* a prefix without empty pushes leaves the automaton in its initial state *)
Lemma run_prefix pi : Forall (fun i => is_empty_push i = false) pi ->
  forall rest, run_auto (SOut false) (pi ++ rest) = run_auto (SOut false) rest.
Proof.
  induction 1 as [|i pi Hi _ IH]; intros rest; [reflexivity|].
  cbn [app run_auto step]. rewrite Hi. apply IH.
Qed.

(* ================================================================== chunks *)

Lemma chunks_fuel_concat {A} n f : forall l : list A, (0 < n)%nat -> (length l <= f)%nat ->
  concat (chunks_fuel f n l) = l.
Proof.
  induction f as [|f IH]; intros l Hn Hl.
  - destruct l; [reflexivity|cbn [length] in Hl; lia].
  - destruct l as [|x l]; [reflexivity|]. cbn [chunks_fuel concat].
    rewrite IH; [apply firstn_skipn|exact Hn|].
    rewrite skipn_length. cbn [length] in *. lia.
Qed.

Lemma concat_chunks {A} n (l : list A) : (0 < n)%nat -> concat (chunks n l) = l.
Proof. intros Hn. apply chunks_fuel_concat; [exact Hn|lia]. Qed.

Lemma chunks_nil_iff {A} n (l : list A) : chunks n l = [] <-> l = [].
Proof.
  unfold chunks. destruct l as [|x l]; cbn [length chunks_fuel]; split; intros H; try reflexivity; discriminate.
Qed.

Lemma chunk_pos : (0 < CHUNK)%nat.
Proof. vm_compute. lia. Qed.

(* more than one chunk exactly when the value is longer than one chunk *)
Lemma chunks_fuel_nil {A} f n : @chunks_fuel A f n [] = [].
Proof. destruct f; reflexivity. Qed.

Lemma chunks_many {A} n (l : list A) : (0 < n)%nat ->
  ((1 <? length (chunks n l))%nat = (n <? length l)%nat).
Proof.
  intros Hn. unfold chunks. destruct l as [|x l].
  - cbn [length chunks_fuel]. destruct n; reflexivity.
  - cbn [length chunks_fuel].
    pose proof (skipn_length n (x :: l)) as SL. cbn [length] in SL.
    destruct (skipn n (x :: l)) as [|y r] eqn:E; cbn [length] in SL.
    + rewrite chunks_fuel_nil. cbn [length]. symmetry. apply Nat.ltb_ge. lia.
    + destruct (length l) as [|k] eqn:El; [lia|]. cbn [chunks_fuel length].
      symmetry. apply Nat.ltb_lt. lia.
Qed.

(* ================================================================== body split and pairing *)

Lemma split_body_flat ps tail :
  Forall (fun kv => fst kv <> []) ps ->
  split_body (flat ps ++ tail) =
  (flat ps ++ fst (split_body tail), snd (split_body tail)).
Proof.
  induction 1 as [|[k v] ps Hk _ IH].
  - cbn [flat flat_map app]. destruct (split_body tail); reflexivity.
  - cbn [flat flat_map app fst snd] in *. destruct k as [|k0 k]; [congruence|].
    cbn [split_body is_nil]. fold (flat ps). rewrite IH. reflexivity.
Qed.

Lemma split_body_payload b : split_body (body_payload b) = ([], option_map (fun _ => match b with Some x => chunks CHUNK x | None => [] end) b).
Proof. destruct b; reflexivity. Qed.

Lemma pairs_of_flat ps : pairs_of (flat ps) = (ps, false).
Proof.
  induction ps as [|[k v] ps IH]; [reflexivity|].
  cbn [flat flat_map app fst snd]. fold (flat ps). cbn [pairs_of]. rewrite IH. reflexivity.
Qed.

(* ================================================================== the fields map *)

Definition vals (k : bytes) (ps : list (bytes * bytes)) : list bytes :=
  map snd (filter (fun kv => bytes_eqb k (fst kv)) ps).
Definition nonempty {A} (l : list A) : option (list A) := if is_nil l then None else Some l.

Lemma vals_app k a b : vals k (a ++ b) = vals k a ++ vals k b.
Proof. unfold vals. rewrite filter_app, map_app. reflexivity. Qed.

Lemma vals_seg k t vs : vals k (seg t vs) = if bytes_eqb k [t] then vs else [].
Proof.
  unfold vals, seg. induction vs as [|v vs IH]; cbn [map filter fst].
  - destruct (bytes_eqb k [t]); reflexivity.
  - destruct (bytes_eqb k [t]) eqn:E; cbn [map snd]; rewrite IH; reflexivity.
Qed.

Lemma fget_fpush k k' v m :
  fget k (fpush k' v m) =
  if bytes_eqb k k' then Some (match fget k m with Some vs => vs ++ [v] | None => [v] end) else fget k m.
Proof.
  induction m as [|[k0 vs0] r IH]; cbn [fpush fget].
  - destruct (bytes_eqb k k'); reflexivity.
  - destruct (bytes_eqb k' k0) eqn:E1; cbn [fget].
    + apply bytes_eqb_eq in E1. subst k0.
      destruct (bytes_eqb k k') eqn:E2; reflexivity.
    + destruct (bytes_eqb k k0) eqn:E2.
      * apply bytes_eqb_eq in E2. subst k0.
        destruct (bytes_eqb k k') eqn:E3; [|reflexivity].
        apply bytes_eqb_eq in E3. subst k'. rewrite bytes_eqb_refl in E1. discriminate.
      * exact IH.
Qed.

Lemma vals_cons k k' v ps :
  vals k ((k', v) :: ps) = if bytes_eqb k k' then v :: vals k ps else vals k ps.
Proof. unfold vals. cbn [filter fst]. destruct (bytes_eqb k k'); reflexivity. Qed.

Lemma fget_fold ps : forall m k,
  fget k (fold_left (fun m kv => fpush (fst kv) (snd kv) m) ps m) =
  match fget k m with Some vs => Some (vs ++ vals k ps) | None => nonempty (vals k ps) end.
Proof.
  induction ps as [|[k' v] ps IH]; intros m k; cbn [fold_left fst snd].
  - unfold vals. cbn. destruct (fget k m); [rewrite app_nil_r|]; reflexivity.
  - rewrite IH, fget_fpush, vals_cons.
    destruct (bytes_eqb k k') eqn:E.
    + destruct (fget k m) as [vs|]; [rewrite <- app_assoc|]; reflexivity.
    + reflexivity.
Qed.

Lemma fget_build k ps : fget k (build_fields ps) = nonempty (vals k ps).
Proof. unfold build_fields. rewrite fget_fold. reflexivity. Qed.

Lemma fget_fremove k k' m : fget k (fremove k' m) = if bytes_eqb k k' then None else fget k m.
Proof.
  induction m as [|[k0 vs0] r IH]; cbn [fremove fget].
  - destruct (bytes_eqb k k'); reflexivity.
  - destruct (bytes_eqb k' k0) eqn:E1.
    + apply bytes_eqb_eq in E1. subst k0. rewrite IH. destruct (bytes_eqb k k'); reflexivity.
    + cbn [fget]. destruct (bytes_eqb k k0) eqn:E2; [|exact IH].
      apply bytes_eqb_eq in E2. subst k0.
      destruct (bytes_eqb k k') eqn:E3; [|reflexivity].
      apply bytes_eqb_eq in E3. subst k'. rewrite bytes_eqb_refl in E1. discriminate.
Qed.

Lemma fget_none_nil m : (forall k, fget k m = None) -> m = [].
Proof.
  destruct m as [|[k vs] r]; [reflexivity|]. intros H. specialize (H k). cbn [fget] in H.
  rewrite bytes_eqb_refl in H. discriminate.
Qed.

(* keys of a built map are pairwise distinct *)
Lemma fpush_keys k v m :
  map fst (fpush k v m) = if existsb (bytes_eqb k) (map fst m) then map fst m else map fst m ++ [k].
Proof.
  induction m as [|[k0 vs0] r IH]; [reflexivity|]. cbn [fpush map fst existsb].
  destruct (bytes_eqb k k0); cbn [orb map fst]; [reflexivity|]. rewrite IH.
  destruct (existsb (bytes_eqb k) (map fst r)); reflexivity.
Qed.

Lemma NoDup_snoc {A} (l : list A) k : NoDup l -> ~ In k l -> NoDup (l ++ [k]).
Proof.
  induction 1 as [|x l Hx Hl IH]; intros Hk; cbn [app].
  - constructor; [intros []|constructor].
  - constructor.
    + intros Hin. apply in_app_or in Hin. destruct Hin as [Hin|[E|[]]]; [contradiction|].
      subst. apply Hk. left. reflexivity.
    + apply IH. intros Hin. apply Hk. right. exact Hin.
Qed.

Lemma fpush_nodup k v m : NoDup (map fst m) -> NoDup (map fst (fpush k v m)).
Proof.
  intros H. rewrite fpush_keys. destruct (existsb (bytes_eqb k) (map fst m)) eqn:E; [exact H|].
  apply NoDup_snoc; [exact H|]. intros Hin. assert (existsb (bytes_eqb k) (map fst m) = true).
  { apply existsb_exists. exists k. split; [exact Hin|apply bytes_eqb_refl]. }
  congruence.
Qed.

Lemma build_nodup ps : forall m, NoDup (map fst m) ->
  NoDup (map fst (fold_left (fun m kv => fpush (fst kv) (snd kv) m) ps m)).
Proof.
  induction ps as [|kv ps IH]; intros m H; [exact H|]. cbn [fold_left]. apply IH. apply fpush_nodup. exact H.
Qed.

Lemma in_fget m : NoDup (map fst m) -> forall k vs, In (k, vs) m -> fget k m = Some vs.
Proof.
  induction m as [|[k0 vs0] r IH]; intros Hn k vs Hin; [contradiction|].
  cbn [map fst] in Hn. inversion Hn as [|? ? Hnot Hr]; subst. cbn [fget].
  destruct Hin as [E|Hin].
  - injection E as -> ->. rewrite bytes_eqb_refl. reflexivity.
  - destruct (bytes_eqb k k0) eqn:E.
    + apply bytes_eqb_eq in E. subst k0. exfalso. apply Hnot.
      change k with (fst (k, vs)). apply in_map. exact Hin.
    + apply IH; assumption.
Qed.

Lemma fget_in m : forall k vs, fget k m = Some vs -> In (k, vs) m.
Proof.
  induction m as [|[k0 vs0] r IH]; intros k vs H; [discriminate|]. cbn [fget] in H.
  destruct (bytes_eqb k k0) eqn:E.
  - apply bytes_eqb_eq in E. subst k0. injection H as ->. left. reflexivity.
  - right. apply IH. exact H.
Qed.

(* duplicate_field of a built map: some key carries more than one value *)
Lemma dup_build ps :
  existsb (fun kv => (1 <? length (snd kv))%nat) (build_fields ps) = true <->
  exists k, (1 < length (vals k ps))%nat.
Proof.
  assert (Hn : NoDup (map fst (build_fields ps))) by (apply build_nodup; constructor).
  rewrite existsb_exists. split.
  - intros [[k vs] [Hin Hl]]. exists k. cbn [snd] in Hl.
    apply (in_fget _ Hn) in Hin. rewrite fget_build in Hin. unfold nonempty in Hin.
    destruct (vals k ps) as [|x r]; cbn [is_nil] in Hin; [discriminate|]. injection Hin as <-.
    apply Nat.ltb_lt in Hl. exact Hl.
  - intros [k Hl]. exists (k, vals k ps). split.
    + apply fget_in. rewrite fget_build. unfold nonempty.
      destruct (vals k ps) as [|x r]; [cbn [length] in Hl; lia|reflexivity].
    + cbn [snd]. apply Nat.ltb_lt. exact Hl.
Qed.

(* ---- Tag::take / take_array in terms of fget *)

Lemma take_single_ok t m x m' vs : tag_chunked t = false ->
  take t m = (x, m') -> fget [t] m = nonempty vs -> (length vs <= 1)%nat ->
  x = hd_error vs /\ forall k, fget k m' = if bytes_eqb k [t] then None else fget k m.
Proof.
  intros Hc. unfold take. rewrite Hc. intros H Hg Hl. rewrite Hg in H. unfold nonempty in H.
  destruct vs as [|v [|w r]]; cbn [is_nil] in H; [| |cbn [length] in Hl; lia].
  - injection H as <- <-. split; [reflexivity|]. intros k.
    destruct (bytes_eqb k [t]) eqn:E; [|reflexivity]. apply bytes_eqb_eq in E. subst k.
    rewrite Hg. reflexivity.
  - injection H as <- <-. split; [reflexivity|]. intros k. apply fget_fremove.
Qed.

Lemma take_chunked_ok t m x m' vs : tag_chunked t = true ->
  take t m = (x, m') -> fget [t] m = nonempty vs ->
  x = (if is_nil vs then None else Some (concat vs)) /\
  forall k, fget k m' = if bytes_eqb k [t] then None else fget k m.
Proof.
  intros Hc. unfold take. rewrite Hc. intros H Hg. rewrite Hg in H. unfold nonempty in H.
  destruct vs as [|v r]; cbn [is_nil] in H.
  - injection H as <- <-. split; [reflexivity|]. intros k.
    destruct (bytes_eqb k [t]) eqn:E; [|reflexivity]. apply bytes_eqb_eq in E. subst k.
    rewrite Hg. reflexivity.
  - injection H as <- <-. split; [reflexivity|]. intros k. apply fget_fremove.
Qed.

Lemma take_array_ok t m x m' vs :
  take_array t m = (x, m') -> fget [t] m = nonempty vs ->
  x = vs /\ forall k, fget k m' = if bytes_eqb k [t] then None else fget k m.
Proof.
  unfold take_array. intros H Hg. rewrite Hg in H. unfold nonempty in H.
  destruct vs as [|v r]; cbn [is_nil] in H.
  - injection H as <- <-. split; [reflexivity|]. intros k.
    destruct (bytes_eqb k [t]) eqn:E; [|reflexivity]. apply bytes_eqb_eq in E. subst k.
    rewrite Hg. reflexivity.
  - injection H as <- <-. split; [reflexivity|]. intros k. apply fget_fremove.
Qed.
