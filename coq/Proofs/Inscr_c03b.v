(* C03: an output that a transaction neither spends nor creates keeps its entry (so the location of the
   inscriptions it holds changes only when it is spent). *)
From OrdV Require Import Base.Prelude Generated Index.Inscr Proofs.Inscr_tables Proofs.Inscr_proofs
  Proofs.Inscr_c07 Proofs.Inscr_c04 Proofs.Inscr_c03 Proofs.Inscr_satinv.
From Coq Require Import ZifyBool ZifyN.

Lemma tg_push_other : forall op s off U k, k <> op -> tgP k (push_insc op s off U) = tgP k U.
Proof. intros op s off U k H. unfold push_insc. rewrite tgP_set, pair_eqb_false; auto. Qed.

Lemma step_other : forall h rg f sp o b b' k,
  update_location h rg f sp o b = Ok b' -> k <> fst sp -> k <> unbound_op ->
  tgP k (s_utxo (b_st b')) = tgP k (s_utxo (b_st b)).
Proof.
  intros h rg f sp o b b' k H H1 H2.
  destruct (update_utxo_shape _ _ _ _ _ _ _ H) as (op & s & off & U & Hc). rewrite U. apply tg_push_other.
  destruct Hc as [(seq & _ & _ & _ & Q)|(_ & _ & _ & [Q|Q])].
  - intro Hk. apply H1. rewrite <- Q. cbn. exact Hk.
  - intro Hk. apply H1. rewrite <- Q. cbn. exact Hk.
  - subst op. exact H2.
Qed.

Lemma apply_locs_other : forall h rg txid locs b b' k,
  Forall (fun loc => fst (fst (fst (fst loc))) = txid) locs ->
  apply_locs h rg locs b = Ok b' -> fst k <> txid -> k <> unbound_op ->
  tgP k (s_utxo (b_st b')) = tgP k (s_utxo (b_st b)).
Proof.
  intros h rg txid locs. induction locs as [|[[[op off] f] o] r IH]; intros b b' k HO H H1 H2; cbn [apply_locs] in H.
  - inv H. reflexivity.
  - dbind H. apply Forall_cons_iff in HO. destruct HO as [HO1 HO2]. cbn in HO1.
    rewrite (IH _ _ _ HO2 H H1 H2). eapply step_other; eauto. cbn [fst]. intro Hk. apply H1. rewrite Hk. exact HO1.
Qed.

Lemma apply_lost_other : forall h rg ov l b b' k,
  apply_lost h rg ov l b = Ok b' -> k <> null_op -> k <> unbound_op ->
  tgP k (s_utxo (b_st b')) = tgP k (s_utxo (b_st b)).
Proof.
  intros h rg ov l. induction l as [|f r IH]; intros b b' k H H1 H2; cbn [apply_lost] in H.
  - inv H. reflexivity.
  - dbind H. dbind H. rewrite (IH _ _ _ H H1 H2). eapply step_other; eauto.
Qed.

Theorem untouched_outputs : forall cfg h insc first t b b' k,
  index_tx cfg h insc first t b = Ok b' ->
  ~ In k (t_ins t) -> fst k <> t_id t -> fst k <> 0 ->
  tgP k (s_utxo (b_st b')) = tgP k (s_utxo (b_st b)).
Proof.
  intros cfg h insc first t b b' k H Hin Hid Hz.
  assert (Hnu : k <> null_op) by (intro; subst; apply Hz; reflexivity).
  assert (Hub : k <> unbound_op) by (intro; subst; apply Hz; reflexivity).
  unfold index_tx in H. dbind H. destruct a as [ents utxo1]. rename E into ET. dbind H. destruct a as [[per_out in_ranges] b1].
  assert (Hb1 : b_st b1 = b_st b /\ b_flot b1 = b_flot b).
  { destruct (c_sats cfg).
    - dbind E. destruct a as [po lft]. destruct first; inv E; cbn; auto.
    - inv E. auto. }
  destruct Hb1 as [Q1 Q3].
  assert (T : tgP k utxo1 = tgP k (s_utxo (b_st b))).
  { destruct first; [inv ET; reflexivity|]. destruct (take_inputs_tg _ _ _ _ ET) as (_ & _ & T3). apply T3. exact Hin. }
  assert (P : tgP k (put_outputs cfg (t_id t) 0 (t_outs t) per_out utxo1) = tgP k (s_utxo (b_st b))).
  { rewrite put_outputs_tg_other by exact Hid. exact T. }
  destruct insc; [|inv H; unfold set_st, with_utxo; cbn [b_st s_utxo]; exact P].
  unfold index_inscriptions in H. dbind H. destruct a as [F tiv]. cbn [set_st b_st b_flot] in *.
  destruct (tx_is_coinbase t).
  - destruct (assign _ _ _ _ _) as [[locs rest] ov] eqn:EA. pose proof (assign_ops _ _ _ _ _ _ _ _ EA) as HO.
    dbind H. dbind H. dbind H. inv H. cbn [b_st].
    rewrite (apply_lost_other _ _ _ _ _ _ _ E2 Hnu Hub). rewrite (apply_locs_other _ _ _ _ _ _ _ HO E1 Hid Hub).
    cbn [set_flot b_st with_utxo s_utxo]. exact P.
  - destruct (assign _ _ _ _ _) as [[locs rest] ov] eqn:EA. pose proof (assign_ops _ _ _ _ _ _ _ _ EA) as HO.
    dbind H. dbind H. dbind H. inv H. cbn [b_st].
    rewrite (apply_locs_other _ _ _ _ _ _ _ HO E1 Hid Hub). cbn [b_st with_utxo s_utxo]. exact P.
Qed.
