(* Lemmas about Codec/Script.v: the instruction decoder reads back what
   push_slice wrote, every instruction consumes at least one byte, chunks. *)
From OrdV Require Import Base.Prelude Generated Codec.Script.
Require Import ZifyBool ZifyN.
Ltac Zify.zify_post_hook ::= Z.div_mod_to_equations.

Lemma len_nil {A} : @len A [] = 0.
Proof. reflexivity. Qed.

Lemma len_cons {A} (x : A) l : len (x :: l) = len l + 1.
Proof. unfold len. cbn [length]. lia. Qed.

Lemma len_app {A} (a b : list A) : len (a ++ b) = len a + len b.
Proof. unfold len. rewrite app_length. lia. Qed.

(* ---------- take_opt ---------- *)

Lemma take_opt_0 {A} (l : list A) : take_opt 0 l = Some ([], l).
Proof. destruct l; reflexivity. Qed.

Lemma take_opt_cons {A} n (x : A) l : n <> 0 ->
  take_opt n (x :: l) =
  match take_opt (n - 1) l with Some (a, b) => Some (x :: a, b) | None => None end.
Proof.
  intros H. cbn [take_opt]. destruct (N.eqb_spec n 0); [contradiction|reflexivity].
Qed.

Lemma take_opt_nil {A} n : n <> 0 -> @take_opt A n [] = None.
Proof. intros H. cbn [take_opt]. destruct (N.eqb_spec n 0); [contradiction|reflexivity]. Qed.

Lemma take_opt_app {A} (a b : list A) : take_opt (len a) (a ++ b) = Some (a, b).
Proof.
  induction a as [|x a IH]; cbn [app].
  - rewrite len_nil. apply take_opt_0.
  - rewrite len_cons, take_opt_cons by lia.
    replace (len a + 1 - 1) with (len a) by lia. rewrite IH. reflexivity.
Qed.

Lemma take_opt_Some {A} : forall (l : list A) n a b,
  take_opt n l = Some (a, b) -> l = a ++ b /\ len a = n.
Proof.
  induction l as [|x l IH]; intros n a b H.
  - destruct (N.eq_dec n 0) as [->|Hn].
    + rewrite take_opt_0 in H. inversion H. split; reflexivity.
    + rewrite take_opt_nil in H by assumption. discriminate.
  - destruct (N.eq_dec n 0) as [->|Hn].
    + rewrite take_opt_0 in H. inversion H. split; reflexivity.
    + rewrite take_opt_cons in H by assumption.
      destruct (take_opt (n - 1) l) as [[a' b']|] eqn:E; [|discriminate].
      inversion H; subst. destruct (IH _ _ _ E) as [-> Hl].
      split; [reflexivity|]. rewrite len_cons. lia.
Qed.

Lemma take_opt_None {A} : forall (l : list A) n, take_opt n l = None -> len l < n.
Proof.
  induction l as [|x l IH]; intros n H.
  - destruct (N.eq_dec n 0) as [->|Hn]; [rewrite take_opt_0 in H; discriminate|].
    rewrite len_nil. lia.
  - destruct (N.eq_dec n 0) as [->|Hn]; [rewrite take_opt_0 in H; discriminate|].
    rewrite take_opt_cons in H by assumption.
    destruct (take_opt (n - 1) l) as [[a' b']|] eqn:E; [discriminate|].
    apply IH in E. rewrite len_cons. lia.
Qed.

(* ---------- split_at ---------- *)

Lemma split_at_0 {A} (l : list A) : split_at 0 l = ([], l).
Proof. destruct l; reflexivity. Qed.

Lemma split_at_cons {A} n (x : A) l : n <> 0 ->
  split_at n (x :: l) = let (a, b) := split_at (n - 1) l in (x :: a, b).
Proof. intros H. cbn [split_at]. destruct (N.eqb_spec n 0); [contradiction|reflexivity]. Qed.

Lemma split_at_spec {A} : forall (l : list A) n a b,
  split_at n l = (a, b) -> l = a ++ b /\ len a = N.min n (len l).
Proof.
  induction l as [|x l IH]; intros n a b H.
  - assert (a = [] /\ b = []) as [-> ->].
    { cbn [split_at] in H. destruct (N.eqb n 0); inversion H; split; reflexivity. }
    split; [reflexivity|]. rewrite len_nil. lia.
  - destruct (N.eq_dec n 0) as [->|Hn].
    + rewrite split_at_0 in H. inversion H; subst. split; [reflexivity|]. rewrite len_nil. lia.
    + rewrite split_at_cons in H by assumption.
      destruct (split_at (n - 1) l) as [a' b'] eqn:E. inversion H; subst.
      destruct (IH _ _ _ E) as [-> Hl]. split; [reflexivity|].
      rewrite !len_cons, Hl, len_app. lia.
Qed.

(* ---------- every instruction consumes at least one byte ---------- *)

Lemma push_data_shorter size bs i rest :
  push_data size bs = SInstr i rest -> (length rest <= length bs)%nat.
Proof.
  unfold push_data. intros H.
  destruct (take_opt size bs) as [[lb r]|] eqn:E1; [|discriminate].
  destruct (take_opt (le_value lb) r) as [[d r']|] eqn:E2; [|discriminate].
  inversion H; subst.
  apply take_opt_Some in E1. destruct E1 as [-> _].
  apply take_opt_Some in E2. destruct E2 as [-> _].
  rewrite !app_length. lia.
Qed.

Lemma next_instr_shorter bs i rest :
  next_instr bs = SInstr i rest -> (length rest < length bs)%nat.
Proof.
  destruct bs as [|byte r]; [discriminate|]. cbn [next_instr length].
  destruct (N.leb byte OP_PUSHBYTES_75).
  - destruct (take_opt byte r) as [[d r']|] eqn:E; [|discriminate].
    intros H. inversion H; subst. apply take_opt_Some in E. destruct E as [-> _].
    rewrite app_length. lia.
  - destruct (N.eqb byte OP_PUSHDATA1); [intros H; apply push_data_shorter in H; lia|].
    destruct (N.eqb byte OP_PUSHDATA2); [intros H; apply push_data_shorter in H; lia|].
    destruct (N.eqb byte OP_PUSHDATA4); [intros H; apply push_data_shorter in H; lia|].
    intros H. inversion H; subst. lia.
Qed.

(* ---------- push_slice is read back by next_instr ---------- *)

Lemma push_data_app lb d rest :
  le_value lb = len d ->
  push_data (len lb) (lb ++ d ++ rest) = SInstr (IPush d) rest.
Proof.
  intros H. unfold push_data. rewrite take_opt_app, H, take_opt_app. reflexivity.
Qed.

Lemma next_instr_push_slice d s rest :
  push_slice d = Ok s -> next_instr (s ++ rest) = SInstr (IPush d) rest.
Proof.
  unfold push_slice. set (n := len d).
  destruct (N.ltb_spec n OP_PUSHDATA1) as [H1|H1].
  { intros H. inversion H; subst s. cbn [app next_instr].
    replace (N.leb n OP_PUSHBYTES_75) with true by (unfold OP_PUSHDATA1, OP_PUSHBYTES_75 in *; lia).
    unfold n. rewrite take_opt_app. reflexivity. }
  assert (Hn75 : N.leb n OP_PUSHBYTES_75 = false) by (unfold OP_PUSHDATA1, OP_PUSHBYTES_75 in *; lia).
  destruct (N.ltb_spec n 256) as [H2|H2].
  { intros H. inversion H; subst s. cbn [app next_instr].
    change (N.leb OP_PUSHDATA1 OP_PUSHBYTES_75) with false.
    change (N.eqb OP_PUSHDATA1 OP_PUSHDATA1) with true. cbv iota.
    change (n :: d ++ rest) with ([n] ++ d ++ rest).
    apply (push_data_app [n]). cbn [le_value]. lia. }
  destruct (N.ltb_spec n 65536) as [H3|H3].
  { intros H. inversion H; subst s. cbn [app next_instr].
    change (N.leb OP_PUSHDATA2 OP_PUSHBYTES_75) with false.
    change (N.eqb OP_PUSHDATA2 OP_PUSHDATA1) with false.
    change (N.eqb OP_PUSHDATA2 OP_PUSHDATA2) with true. cbv iota.
    change (n mod 256 :: n / 256 :: d ++ rest) with ([n mod 256; n / 256] ++ d ++ rest).
    apply (push_data_app [n mod 256; n / 256]). cbn [le_value]. fold n. lia. }
  destruct (N.ltb_spec n 4294967296) as [H4|H4]; [|discriminate].
  intros H. inversion H; subst s. cbn [app next_instr].
  change (N.leb OP_PUSHDATA4 OP_PUSHBYTES_75) with false.
  change (N.eqb OP_PUSHDATA4 OP_PUSHDATA1) with false.
  change (N.eqb OP_PUSHDATA4 OP_PUSHDATA2) with false.
  change (N.eqb OP_PUSHDATA4 OP_PUSHDATA4) with true. cbv iota.
  change (n mod 256 :: (n / 256) mod 256 :: (n / 65536) mod 256 :: n / 16777216 :: d ++ rest)
    with ([n mod 256; (n / 256) mod 256; (n / 65536) mod 256; n / 16777216] ++ d ++ rest).
  apply (push_data_app [n mod 256; (n / 256) mod 256; (n / 65536) mod 256; n / 16777216]).
  cbn [le_value]. fold n. lia.
Qed.

Lemma push_slice_ok d : len d < 4294967296 -> exists s, push_slice d = Ok s.
Proof.
  intros H. unfold push_slice.
  destruct (N.ltb (len d) OP_PUSHDATA1); [eexists; reflexivity|].
  destruct (N.ltb (len d) 256); [eexists; reflexivity|].
  destruct (N.ltb (len d) 65536); [eexists; reflexivity|].
  destruct (N.ltb_spec (len d) 4294967296); [eexists; reflexivity|lia].
Qed.

(* ---------- chunks ---------- *)

Lemma chunks_fuel_spec {A} c : 0 < c -> forall fuel (l : list A), (length l <= fuel)%nat ->
  concat (chunks_fuel fuel c l) = l /\
  Forall (fun ch => 0 < len ch <= c) (chunks_fuel fuel c l).
Proof.
  intros Hc. induction fuel as [|f IH]; intros l Hl.
  - destruct l; [split; [reflexivity|constructor]|cbn [length] in Hl; lia].
  - destruct l as [|x l]; [split; [reflexivity|constructor]|].
    cbn [chunks_fuel]. destruct (split_at c (x :: l)) as [a b] eqn:E.
    destruct (split_at_spec _ _ _ _ E) as [Hab Hlen].
    assert (Ha : 0 < len a <= c) by (rewrite Hlen, len_cons; lia).
    assert (Hb : (length b <= f)%nat).
    { apply (f_equal (@length A)) in Hab. rewrite app_length in Hab. cbn [length] in Hab, Hl.
      unfold len in Ha. lia. }
    destruct (IH b Hb) as [IH1 IH2]. split.
    + cbn [concat]. rewrite IH1. symmetry. exact Hab.
    + constructor; assumption.
Qed.

Lemma chunks_spec {A} c (l : list A) : 0 < c ->
  concat (chunks c l) = l /\ Forall (fun ch => 0 < len ch <= c) (chunks c l).
Proof. intros Hc. apply chunks_fuel_spec; [assumption|lia]. Qed.
