(* C07: parent/child tables.  Self-contained invariant (does not need distinct txids). *)
From OrdV Require Import Base.Prelude Generated Index.Inscr Proofs.Inscr_tables Proofs.Inscr_proofs.
From Coq Require Import Permutation ZifyBool ZifyN.

Lemma mm_insert_In : forall p l x, In x (mm_insert p l) <-> x = p \/ In x l.
Proof.
  intros p l x. unfold mm_insert, mm_mem. destruct (existsb (pair_eqb p) l) eqn:E.
  - apply existsb_exists in E. destruct E as (y & Y1 & Y2). apply pair_eqb_eq in Y2. subst y.
    split; auto. intros [->|H]; auto.
  - rewrite in_app_iff. cbn. split; [intros [H|[H|[]]]; auto | intros [H|H]; auto].
Qed.

Lemma mm_remove_In : forall p l x, In x (mm_remove p l) <-> In x l /\ x <> p.
Proof.
  intros p l x. unfold mm_remove. rewrite filter_In. split; intros [H1 H2]; split; auto.
  - intro. subst. rewrite pair_eqb_refl in H2. discriminate.
  - rewrite pair_eqb_false; auto.
Qed.

Definition parents_of (f : flotsam) : list iid :=
  match f_origin f with ONew _ _ _ ps _ _ _ => ps | OOld _ => [] end.

Section Q7.
Variables (E : list (N * ientry)) (I : list (iid * N)) (Ch Co La : list (N * N)).

Record Q7core : Prop := {
  q_vals : forall i s, tgP i I = Some s -> tgN s E <> None;
  q_inj : forall i1 i2 s, tgP i1 I = Some s -> tgP i2 I = Some s -> i1 = i2;
  q_par : forall c e, tgN c E = Some e -> NoDup (i_parents e) /\ forall p, In p (i_parents e) -> In (p, c) Ch;
  q_coll1 : forall p c, tgN p Co = Some c ->
     In (p, c) Ch /\ (forall c', In (p, c') Ch -> c' <= c) /\ exists pe, tgN p E = Some pe /\ i_hidden pe = false;
  q_coll2 : forall p c, In (p, c) Ch -> exists pe, tgN p E = Some pe /\ (i_hidden pe = false -> tgN p Co <> None);
  q_latest : forall c p, In (c, p) La <-> tgN p Co = Some c
}.

(* while the parents of the new inscription [seq] are being linked: [acc] are the parents recorded so far *)
Record Mid (seq : N) (acc : list N) : Prop := {
  m_core : Q7core;
  m_dom : forall s e, tgN s E = Some e -> s < seq;
  m_child : forall p c, In (p, c) Ch -> p < c /\ ((exists e, tgN c E = Some e /\ In p (i_parents e)) \/ (c = seq /\ In p acc));
  m_acc : forall p, In p acc -> In (p, seq) Ch /\ tgN p E <> None;
  m_nodup : NoDup acc
}.

Definition Q7 : Prop :=
  Q7core /\ forall p c, In (p, c) Ch -> p < c /\ exists e, tgN c E = Some e /\ In p (i_parents e).
End Q7.

Definition Q7s (st : state) : Prop :=
  Q7 (s_entries st) (s_id2seq st) (s_children st) (s_coll st) (s_latest st).
Definition Mids (seq : N) (st : state) (acc : list N) : Prop :=
  Mid (s_entries st) (s_id2seq st) (s_children st) (s_coll st) (s_latest st) seq acc.
Definition Dom (nx : N) (E : list (N * ientry)) : Prop := forall s e, tgN s E = Some e -> s < nx.

Lemma link_parents_mid : forall seq ps st acc st' acc',
  link_parents seq ps st acc = Ok (st', acc') ->
  Mids seq st acc -> NoDup ps ->
  (forall id p, In id ps -> tgP id (s_id2seq st) = Some p -> ~ In p acc) ->
  Mids seq st' acc' /\
  (forall p, In p acc' -> In p acc \/ exists id, In id ps /\ tgP id (s_id2seq st) = Some p) /\
  (forall p, In p acc -> In p acc') /\
  (forall x, In x (s_children st') -> In x (s_children st) \/ (snd x = seq /\ In (fst x) acc')) /\
  s_entries st' = s_entries st /\ s_id2seq st' = s_id2seq st.
Proof.
  intros seq ps. induction ps as [|id r IH]; intros st acc st' acc' H HM ND DJ; cbn [link_parents] in H.
  - inv H. split; [exact HM|]. split; [auto|]. split; [auto|]. split; [auto|]. auto.
  - inv ND. destruct (tgP id (s_id2seq st)) as [pseq|] eqn:E1.
    2:{ destruct (IH _ _ _ _ H HM H3) as (A & B & C & D & F1 & F2).
        - intros id' p Hi Hp. apply (DJ id' p); [right|]; auto.
        - split; [exact A|]. split; [|auto]. intros p Hp. destruct (B p Hp) as [?|(i & I1 & I2)]; auto. right. exists i. split; [right|]; auto. }
    destruct (tgN pseq (s_entries st)) as [pe|] eqn:E2; [|discriminate].
    set (st2 := mkSt (s_utxo st) (s_entries st) (s_id2seq st) (s_num2seq st) (s_sat2seq st)
                     (mm_insert (pseq, seq) (s_children st))
                     (if i_hidden pe then s_coll st else tset N.eqb pseq seq (s_coll st))
                     (if i_hidden pe then s_latest st
                      else mm_insert (seq, pseq)
                             match tgN pseq (s_coll st) with
                             | Some old => mm_remove (old, pseq) (s_latest st)
                             | None => s_latest st
                             end)
                     (s_h2last st) (s_blessed st) (s_cursed st) (s_unbound st) (s_lost st)).
    set (acc2 := acc ++ [pseq]).
    assert (H' : link_parents seq r st2 acc2 = Ok (st', acc')) by (subst st2 acc2; destruct (i_hidden pe); exact H).
    clear H. rename H' into H.
    assert (HE : s_entries st2 = s_entries st /\ s_id2seq st2 = s_id2seq st).
    { subst st2. cbn. auto. }
    destruct HE as [HE HI].
    assert (HM2 : Mids seq st2 acc2).
    { destruct HM as [[QV QI QP C1 C2 QL] MD MC MA MN].
      assert (Hlt : pseq < seq) by (eapply MD; eauto).
      assert (Hnew : ~ In pseq acc) by (apply (DJ id pseq); [left|]; auto).
      assert (HCh : forall x, In x (s_children st2) <-> x = (pseq, seq) \/ In x (s_children st)).
      { intro x. subst st2. cbn [s_children]. apply mm_insert_In. }
      unfold Mids. rewrite HE, HI. split.
      - (* core *)
        split; auto.
        + intros c e He. destruct (QP c e He) as [A B]. split; auto. intros p Hp. apply HCh. right. auto.
        + (* coll1 *)
          intros p c Hc. subst st2. destruct (i_hidden pe) eqn:Hh; cbn [s_coll s_children] in *.
          * destruct (C1 p c Hc) as (A & B & pe' & P1 & P2). split; [apply mm_insert_In; auto|]. split; [|eauto].
            intros c' Hc'. apply mm_insert_In in Hc'. destruct Hc' as [Hc'|Hc']; auto.
            inv Hc'. rewrite E2 in P1. inv P1. congruence.
          * rewrite tgN_set in Hc. destruct (N.eqb_spec p pseq) as [->|Hne].
            -- inv Hc. split; [apply mm_insert_In; auto|]. split; [|eauto].
               intros c' Hc'. apply mm_insert_In in Hc'. destruct Hc' as [Hc'|Hc']; [inv Hc'; lia|].
               destruct (MC _ _ Hc') as [_ [(e & X1 & _)|[-> _]]]; [|lia]. specialize (MD _ _ X1). lia.
            -- destruct (C1 p c Hc) as (A & B & P). split; [apply mm_insert_In; auto|]. split; auto.
               intros c' Hc'. apply mm_insert_In in Hc'. destruct Hc' as [Hc'|Hc']; auto. inv Hc'. contradiction.
        + (* coll2 *)
          intros p c Hc. apply HCh in Hc. subst st2. destruct (i_hidden pe) eqn:Hh; cbn [s_coll] in *.
          * destruct Hc as [Hc|Hc]; [inv Hc; exists pe; split; auto; congruence | eauto].
          * destruct Hc as [Hc|Hc].
            -- inv Hc. exists pe. split; auto. intros _. rewrite tgN_set, N.eqb_refl. discriminate.
            -- destruct (C2 p c Hc) as (pe' & P1 & P2). exists pe'. split; auto. intro Hh'.
               rewrite tgN_set. destruct (N.eqb_spec p pseq); [discriminate | auto].
        + (* latest *)
          intros c p. subst st2. destruct (i_hidden pe) eqn:Hh; cbn [s_coll s_latest] in *; [apply QL|].
          rewrite tgN_set, mm_insert_In.
          destruct (tgN pseq (s_coll st)) as [old|] eqn:Eo.
          * rewrite mm_remove_In, QL. destruct (N.eqb_spec p pseq) as [->|Hne].
            -- split.
               ++ intros [Hx|[Hx Hy]]; [inv Hx; auto|]. rewrite Eo in Hx. inv Hx. congruence.
               ++ intro Hx. inv Hx. auto.
            -- split.
               ++ intros [Hx|[Hx Hy]]; [inv Hx; congruence | auto].
               ++ intro Hx. right. split; auto. intro Hy. inv Hy. congruence.
          * rewrite QL. destruct (N.eqb_spec p pseq) as [->|Hne].
            -- split.
               ++ intros [Hx|Hx]; [inv Hx; auto | congruence].
               ++ intro Hx. inv Hx. auto.
            -- split.
               ++ intros [Hx|Hx]; [inv Hx; congruence | auto].
               ++ auto.
      - exact MD.
      - intros p c Hc. apply HCh in Hc. destruct Hc as [Hc|Hc].
        + inv Hc. split; auto. right. split; auto. subst acc2. apply in_or_app. right. left. reflexivity.
        + destruct (MC _ _ Hc) as [A [B|[B1 B2]]]; split; auto. right. split; auto. subst acc2. apply in_or_app. auto.
      - intros p Hp. subst acc2. apply in_app_or in Hp. destruct Hp as [Hp|[Hp|[]]].
        + destruct (MA p Hp). split; auto. apply HCh. auto.
        + subst p. split; [apply HCh; auto | congruence].
      - subst acc2. apply NoDup_snoc; auto. }
    destruct (IH _ _ _ _ H HM2 H3) as (A & B & C & D & F1 & F2).
    + rewrite HI. intros id' p Hi Hp Hin. subst acc2. apply in_app_or in Hin. destruct Hin as [Hin|[Hin|[]]].
      * eapply DJ; [right; exact Hi | exact Hp | exact Hin].
      * subst p. destruct HM as [[_ QI _ _ _ _] _ _ _ _]. assert (id' = id) by (eapply QI; eauto). subst. contradiction.
    + split; auto. split; [|split; [|split; [|split; congruence]]].
      * intros p Hp. destruct (B p Hp) as [Hq|(i & I1 & I2)].
        -- subst acc2. apply in_app_or in Hq. destruct Hq as [Hq|[Hq|[]]]; auto. subst. right. exists id. split; [left|]; auto.
        -- right. exists i. rewrite HI in I2. split; [right|]; auto.
      * intros p Hp. apply C. subst acc2. apply in_or_app. auto.
      * intros x Hx. destruct (D x Hx) as [Hy|Hy]; auto. subst st2. cbn [s_children] in Hy.
        apply mm_insert_In in Hy. destruct Hy as [->|Hy]; auto. right. cbn. split; auto.
        apply C. subst acc2. apply in_or_app. right. left. reflexivity.
Qed.

Definition Q7b (b : bst) : Prop := Q7s (b_st b) /\ Dom (b_next b) (s_entries (b_st b)).

Lemma Q7_touch : forall E I Ch Co La s e e',
  Q7 E I Ch Co La -> tgN s E = Some e -> i_parents e' = i_parents e -> i_hidden e' = i_hidden e ->
  Q7 (tset N.eqb s e' E) I Ch Co La.
Proof.
  intros E I Ch Co La s e e' [[QV QI QP C1 C2 QL] QC] Hs Hp Hh.
  assert (G : forall c x, tgN c (tset N.eqb s e' E) = Some x ->
              exists y, tgN c E = Some y /\ i_parents x = i_parents y /\ i_hidden x = i_hidden y).
  { intros c x. rewrite tgN_set. destruct (N.eqb_spec c s); intro Hx; [inv Hx; eauto | eauto]. }
  assert (G2 : forall c y, tgN c E = Some y ->
              exists x, tgN c (tset N.eqb s e' E) = Some x /\ i_parents x = i_parents y /\ i_hidden x = i_hidden y).
  { intros c y Hy. rewrite tgN_set. destruct (N.eqb_spec c s); [subst; rewrite Hs in Hy; inv Hy; eauto | eauto]. }
  split; [split|]; auto.
  - intros i s0 Hi. specialize (QV _ _ Hi). destruct (tgN s0 E) as [y|] eqn:Y; [|congruence].
    destruct (G2 _ _ Y) as (x & X & _). congruence.
  - intros c x Hx. destruct (G _ _ Hx) as (y & Y & P & _). rewrite P. eauto.
  - intros p c Hc. destruct (C1 p c Hc) as (A & B & pe & P1 & P2). split; auto. split; auto.
    destruct (G2 _ _ P1) as (x & X & _ & H'). exists x. split; auto. congruence.
  - intros p c Hc. destruct (C2 p c Hc) as (pe & P1 & P2). destruct (G2 _ _ P1) as (x & X & _ & H').
    exists x. split; auto. intro. apply P2. congruence.
  - intros p c Hc. destruct (QC p c Hc) as (A & y & Y & P). split; auto.
    destruct (G2 _ _ Y) as (x & X & P' & _). exists x. split; auto. congruence.
Qed.

(* one application of update_inscription_location; the new child/parent pairs all come from the
   (filtered) parents of the flotsam *)
Lemma step_q7 : forall h rg f sp o b b',
  Q7b b -> NoDup (parents_of f) -> update_location h rg f sp o b = Ok b' ->
  Q7b b' /\
  (forall p c, In (p, c) (s_children (b_st b')) ->
     In (p, c) (s_children (b_st b)) \/
     (c = b_next b /\ is_new f = true /\ exists id, In id (parents_of f) /\ tgP id (s_id2seq (b_st b)) = Some p)).
Proof.
  intros h rg f sp o b b' [HQ HD] HN H.
  destruct (f_origin f) as [c fee hid ps re ub vi|seq] eqn:Ho.
  - unfold parents_of in *. rewrite Ho in *.
    assert (Hnew : is_new f = true) by (unfold is_new; rewrite Ho; reflexivity).
    unfold update_location in H. rewrite Ho in H.
    dbind H. destruct a as [[number bl] cu]. dbind H. dbind H. destruct a0 as [st1 pseqs].
    set (seq := b_next b) in *.
    match type of E1 with link_parents _ _ ?S _ = _ => set (st0 := S) in * end.
    assert (HM0 : Mids seq st0 []).
    { destruct HQ as [QC QCh]. subst st0. split; cbn [s_entries s_id2seq s_children s_coll s_latest]; auto.
      - intros p c0 Hc. destruct (QCh p c0 Hc) as (A & B). split; auto.
      - intros p [].
      - constructor. }
    assert (DJ0 : forall id p, In id ps -> tgP id (s_id2seq st0) = Some p -> ~ In p (@nil N)) by (intros id p _ _ []).
    apply (link_parents_mid _ _ _ _ _ _ E1 HM0 HN) in DJ0. rename DJ0 into E2. subst st0.
    cbn [s_entries s_id2seq s_children] in E2.
    destruct E2 as ([[QV QI QP C1 C2 QL] MD MC MA MN] & B1 & _ & B3 & B4 & B5).
    assert (Q' : Q7b (mkB (mkSt (push_insc (fst (if ub then (unbound_op, b_unb b) else sp)) seq
                                          (snd (if ub then (unbound_op, b_unb b) else sp)) (s_utxo st1))
                                (tset N.eqb seq (mkI (set_if vi CHARM_VINDICATED (set_if ub CHARM_UNBOUND
                                   (set_if (is_null (fst sp)) CHARM_LOST (set_if o CHARM_BURNED
                                   (set_if re CHARM_REINSCRIPTION (set_if c CHARM_CURSED 0))))))
                                   fee h hid (f_id f) number pseqs a seq) (s_entries st1))
                                (tset pair_eqb (f_id f) seq (s_id2seq st1))
                                (s_num2seq st1) (s_sat2seq st1) (s_children st1) (s_coll st1) (s_latest st1)
                                (s_h2last st1) (s_blessed st1) (s_cursed st1) (s_unbound st1) (s_lost st1))
                          (b_flot b) (b_reward b) (b_lost b) bl cu (if ub then b_unb b + 1 else b_unb b) (seq + 1)
                          (b_cb_ranges b) (b_lost_ranges b))).
    { unfold Q7b, Q7s. cbn [b_st b_next s_entries s_id2seq s_children s_coll s_latest]. rewrite B4, B5 in *.
      set (e := mkI _ fee h hid (f_id f) number pseqs a seq).
      assert (Hkey : forall s x, tgN s (s_entries (b_st b)) = Some x -> tgN s (tset N.eqb seq e (s_entries (b_st b))) = Some x).
      { intros s x Hx. rewrite tgN_set. destruct (N.eqb_spec s seq); auto. subst. specialize (MD _ _ Hx). lia. }
      split; [split; [split|]|].
      - intros i s. rewrite tgP_set. destruct (pair_eqb i (f_id f)).
        + intro Hx. inv Hx. rewrite tgN_set, N.eqb_refl. discriminate.
        + intro Hx. specialize (QV _ _ Hx). destruct (tgN s (s_entries (b_st b))) eqn:Y; [|congruence].
          rewrite (Hkey _ _ Y). discriminate.
      - intros i1 i2 s. rewrite !tgP_set. destruct (pair_eqb i1 (f_id f)) eqn:P1; destruct (pair_eqb i2 (f_id f)) eqn:P2.
        + apply pair_eqb_eq in P1, P2. congruence.
        + intros X Y. inv X. exfalso. specialize (QV _ _ Y). destruct (tgN seq (s_entries (b_st b))) eqn:Z; [|congruence].
          specialize (MD _ _ Z). lia.
        + intros X Y. inv Y. exfalso. specialize (QV _ _ X). destruct (tgN seq (s_entries (b_st b))) eqn:Z; [|congruence].
          specialize (MD _ _ Z). lia.
        + apply QI.
      - intros c0 x. rewrite tgN_set. destruct (N.eqb_spec c0 seq).
        + intro Hx. inv Hx. cbn [i_parents]. split; auto. intros p Hp. apply MA. auto.
        + apply QP.
      - intros p c0 Hc. destruct (C1 p c0 Hc) as (A & B & pe & P1 & P2). split; auto. split; auto. exists pe. split; auto.
      - intros p c0 Hc. destruct (C2 p c0 Hc) as (pe & P1 & P2). exists pe. split; auto.
      - exact QL.
      - intros p c0 Hc. destruct (MC p c0 Hc) as (A & [(x & X1 & X2)|(X1 & X2)]); split; auto.
        + exists x. split; auto.
        + subst c0. exists e. rewrite tgN_set, N.eqb_refl. split; auto.
      - intros s x. rewrite tgN_set. destruct (N.eqb_spec s seq); [lia|]. intro Hx. specialize (MD _ _ Hx). lia. }
    destruct ub; inv H; (split; [exact Q'|]); cbn [b_st s_children]; intros p c0 Hc;
      (destruct (B3 _ Hc) as [Hx|[Hx Hy]]; [left; exact Hx|]); cbn [fst snd] in *; right; repeat split; auto;
      (destruct (B1 p Hy) as [[]|(id & I1 & I2)]); exists id; auto.
  - destruct (update_old_shape _ _ _ _ _ _ _ _ Ho H) as (O1 & O2 & O3 & O4 & O5 & O6 & O7 & O8).
    assert (Hch : s_children (b_st b') = s_children (b_st b) /\ s_coll (b_st b') = s_coll (b_st b) /\
                  s_latest (b_st b') = s_latest (b_st b)).
    { unfold update_location in H. rewrite Ho in H. dbind H. inv H. cbn.
      destruct o; [destruct (tgN seq (s_entries (b_st b))); [|discriminate]|]; inv E; cbn; auto. }
    destruct Hch as (H1 & H2 & H3).
    split.
    + unfold Q7b, Q7s. rewrite O1, O3, H1, H2, H3. destruct O8 as [O8|(e & He & O8)]; rewrite O8; [split; auto|].
      split.
      * eapply Q7_touch; eauto.
      * intros s x. rewrite tgN_set. destruct (N.eqb_spec s seq); [subst; intros _; eapply HD; eauto | apply HD].
    + intros p c Hc. rewrite H1 in Hc. auto.
Qed.


(* ------------------------------------------------------------------ threading through a chain *)

Definition fl_nd (l : list flotsam) : Prop := forall f, In f l -> NoDup (parents_of f).

Lemma mem_iff : forall p l, existsb (pair_eqb p) l = true <-> In p l.
Proof.
  intros p l. rewrite existsb_exists. split.
  - intros (x & X1 & X2). apply pair_eqb_eq in X2. subst. auto.
  - intro H. exists p. split; auto. apply pair_eqb_refl.
Qed.

Lemma retain_spec : forall pot l seen,
  NoDup (retain_parents pot seen l) /\
  forall x, In x (retain_parents pot seen l) -> In x pot /\ ~ In x seen /\ In x l.
Proof.
  intros pot l. induction l as [|p r IH]; intro seen; cbn [retain_parents].
  - split; [constructor | intros x []].
  - destruct (existsb (pair_eqb p) seen) eqn:E1.
    + destruct (IH seen) as [A B]. split; auto. intros x Hx. destruct (B x Hx) as (X1 & X2 & X3). repeat split; auto. right. auto.
    + assert (Hns : ~ In p seen) by (intro Hc; apply mem_iff in Hc; congruence).
      destruct (IH (p :: seen)) as [A B]. destruct (existsb (pair_eqb p) pot) eqn:E2.
      * split.
        -- constructor; auto. intro Hx. destruct (B p Hx) as (_ & X2 & _). apply X2. left. reflexivity.
        -- intros x [Hx|Hx].
           ++ subst. apply mem_iff in E2. repeat split; auto. left. reflexivity.
           ++ destruct (B x Hx) as (X1 & X2 & X3). repeat split; auto. intro Hc. apply X2. right. auto. right. auto.
      * split; auto. intros x Hx. destruct (B x Hx) as (X1 & X2 & X3). repeat split; auto.
        intro Hc. apply X2. right. auto. right. auto.
Qed.

Lemma fix_new_parents : forall pot fee f,
  NoDup (parents_of (fix_new pot fee f)) /\ forall x, In x (parents_of (fix_new pot fee f)) -> In x pot /\ In x (parents_of f).
Proof.
  intros pot fee f. unfold fix_new, parents_of. destruct (f_origin f) eqn:E; cbn [f_origin]; rewrite ?E.
  - destruct (retain_spec pot parents []) as [A B]. split; auto. intros x Hx. destruct (B x Hx) as (X1 & _ & X3). auto.
  - split; [constructor | intros x []].
Qed.

Lemma map_f_id_fix : forall pot fee l, map f_id (map (fix_new pot fee) l) = map f_id l.
Proof.
  intros. rewrite map_map. apply map_ext. intro f. destruct (fix_new_props pot fee f) as (A & _). exact A.
Qed.

(* parents survive the filter only if they are among the floating inscriptions of the transaction *)
Lemma floating_of_parents : forall cfg st h t ents F tiv,
  floating_of cfg st h t ents = Ok (F, tiv) ->
  fl_nd F /\ forall f id, In f F -> In id (parents_of f) -> In id (map f_id F).
Proof.
  intros cfg st h t ents F tiv H. unfold floating_of in H. dbind H. dbind H. inv H. split.
  - intros f Hf. apply in_map_iff in Hf. destruct Hf as (g & <- & _). apply fix_new_parents.
  - intros f id Hf Hid. apply in_map_iff in Hf. destruct Hf as (g & <- & _). rewrite map_f_id_fix.
    apply fix_new_parents in Hid. tauto.
Qed.

Lemma rebase_nd : forall reward ov l l', rebase reward ov l = Ok l' -> fl_nd l -> fl_nd l'.
Proof.
  intros reward ov l. induction l as [|f r IH]; intros l' H HN; cbn [rebase] in H.
  - inv H. exact HN.
  - dbind H. dbind H. inv H. intros g [Hg|Hg].
    + subst g. unfold parents_of. cbn [f_origin]. apply (HN f). left. reflexivity.
    + eapply IH; eauto. intros x Hx. apply HN. right. auto.
Qed.

Lemma apply_locs_q7 : forall h rg locs b b',
  Q7b b -> fl_nd (map loc_flot locs) -> apply_locs h rg locs b = Ok b' -> Q7b b'.
Proof.
  intros h rg locs. induction locs as [|[[[op off] f] o] r IH]; intros b b' HQ HN H; cbn [apply_locs] in H.
  - inv H. auto.
  - dbind H. eapply IH; [| |exact H].
    + eapply step_q7; eauto. apply HN. left. reflexivity.
    + intros g Hg. apply HN. right. auto.
Qed.

Lemma apply_lost_q7 : forall h rg ov l b b',
  Q7b b -> fl_nd l -> apply_lost h rg ov l b = Ok b' -> Q7b b'.
Proof.
  intros h rg ov l. induction l as [|f r IH]; intros b b' HQ HN H; cbn [apply_lost] in H.
  - inv H. auto.
  - dbind H. dbind H. eapply IH; [| |exact H].
    + eapply step_q7; eauto. apply HN. left. reflexivity.
    + intros g Hg. apply HN. right. auto.
Qed.

Lemma apply_locs_flot : forall h rg locs b b', apply_locs h rg locs b = Ok b' -> b_flot b' = b_flot b.
Proof.
  intros h rg locs. induction locs as [|[[[op off] f] o] r IH]; intros b b' H; cbn [apply_locs] in H.
  - inv H. auto.
  - dbind H. rewrite (IH _ _ H). unfold update_location in E. destruct (f_origin f).
    + dbind E. destruct a0 as [[x y] z]. dbind E. dbind E. destruct a1. destruct unbound; inv E; reflexivity.
    + dbind E. inv E. reflexivity.
Qed.

Lemma apply_lost_flot : forall h rg ov l b b', apply_lost h rg ov l b = Ok b' -> b_flot b' = b_flot b.
Proof.
  intros h rg ov l. induction l as [|f r IH]; intros b b' H; cbn [apply_lost] in H.
  - inv H. auto.
  - dbind H. dbind H. rewrite (IH _ _ H). unfold update_location in E0. destruct (f_origin f).
    + dbind E0. destruct a1 as [[x y] z]. dbind E0. dbind E0. destruct a2. destruct unbound; inv E0; reflexivity.
    + dbind E0. inv E0. reflexivity.
Qed.

Lemma index_inscriptions_q7 : forall cfg h t ents rg b b',
  Q7b b -> fl_nd (b_flot b) -> index_inscriptions cfg h t ents rg b = Ok b' -> Q7b b' /\ fl_nd (b_flot b').
Proof.
  intros cfg h t ents rg b b' HQ HN H. unfold index_inscriptions in H. dbind H. destruct a as [F tiv].
  destruct (floating_of_parents _ _ _ _ _ _ _ E) as [FN _]. clear E.
  destruct (tx_is_coinbase t).
  - destruct (assign (t_id t) 0 0 (t_outs t) (sort_by f_offset (F ++ b_flot b))) as [[locs rest] ov] eqn:EA.
    apply assign_split in EA.
    assert (HA : fl_nd (map loc_flot locs ++ rest)).
    { rewrite <- EA. intros f Hf. eapply Permutation_in in Hf; [|apply sort_by_perm].
      apply in_app_or in Hf. destruct Hf; auto. }
    dbind H. dbind H. dbind H. inv H.
    assert (Q1 : Q7b a) by (eapply apply_locs_q7; [| |exact E]; [exact HQ | intros f Hf; apply HA; apply in_or_app; auto]).
    assert (Q2 : Q7b a0) by (eapply apply_lost_q7; [| |exact E0]; [exact Q1 | intros f Hf; apply HA; apply in_or_app; auto]).
    split; [exact Q2|]. cbn [b_flot]. rewrite (apply_lost_flot _ _ _ _ _ _ E0), (apply_locs_flot _ _ _ _ _ E). cbn. intros f [].
  - destruct (assign (t_id t) 0 0 (t_outs t) (sort_by f_offset F)) as [[locs rest] ov] eqn:EA.
    apply assign_split in EA.
    assert (HA : fl_nd (map loc_flot locs ++ rest)).
    { rewrite <- EA. intros f Hf. eapply Permutation_in in Hf; [|apply sort_by_perm]. auto. }
    dbind H. dbind H. dbind H. inv H.
    assert (Q1 : Q7b a) by (eapply apply_locs_q7; [| |exact E]; [exact HQ | intros f Hf; apply HA; apply in_or_app; auto]).
    split; [exact Q1|]. cbn [b_flot]. rewrite (apply_locs_flot _ _ _ _ _ E).
    intros f Hf. apply in_app_or in Hf. destruct Hf as [Hf|Hf]; auto.
    eapply rebase_nd; eauto. intros g Hg. apply HA. apply in_or_app. auto.
Qed.

Lemma index_tx_q7 : forall cfg h insc first t b b',
  Q7b b -> fl_nd (b_flot b) -> index_tx cfg h insc first t b = Ok b' -> Q7b b' /\ fl_nd (b_flot b').
Proof.
  intros cfg h insc first t b b' HQ HN H. unfold index_tx in H.
  dbind H. destruct a as [ents utxo1]. dbind H. destruct a as [[per_out in_ranges] b1].
  assert (Hb1 : b_st b1 = b_st b /\ b_next b1 = b_next b /\ b_flot b1 = b_flot b).
  { destruct (c_sats cfg).
    - dbind E0. destruct a as [po lft]. destruct first; inv E0; cbn; auto.
    - inv E0. auto. }
  destruct Hb1 as (Q1 & Q2 & Q3).
  match type of H with (if insc then index_inscriptions _ _ _ _ _ ?B else _) = _ => set (b2 := B) in * end.
  assert (HB2 : Q7b b2 /\ fl_nd (b_flot b2)).
  { subst b2. unfold Q7b, Q7s, set_st, with_utxo. cbn. rewrite Q2, Q3. destruct HQ. auto. }
  destruct HB2 as [HB2 HN2]. destruct insc.
  - eapply index_inscriptions_q7; eauto.
  - inv H. split; assumption.
Qed.

Lemma index_txs_q7 : forall cfg h insc l b b',
  Q7b b -> fl_nd (b_flot b) -> index_txs cfg h insc l b = Ok b' -> Q7b b' /\ fl_nd (b_flot b').
Proof.
  intros cfg h insc l. induction l as [|t r IH]; intros b b' HQ HN H; cbn [index_txs] in H.
  - inv H. auto.
  - dbind H. destruct (index_tx_q7 _ _ _ _ _ _ _ HQ HN E) as [A B]. eauto.
Qed.

Lemma index_block_q7 : forall cfg h blk st st', Q7s st -> index_block cfg h blk st = Ok st' -> Q7s st'.
Proof.
  intros cfg h blk st st' HQ H. unfold index_block in H.
  dbind H. dbind H. dbind H. inv H.
  match type of E0 with index_txs _ _ _ _ ?B = _ => set (b0 := B) in * end.
  assert (HB0 : Q7b b0 /\ fl_nd (b_flot b0)).
  { subst b0. split; [split|]; cbn; auto.
    - intros s e He. unfold next_seq_of. destruct (s_entries st) as [|kv r] eqn:EE; [discriminate|]. rewrite <- EE in *.
      assert (Hk : In s (map fst (s_entries st))) by (apply (tget_keys N.eqb N.eqb_eq); congruence).
      apply maxkey_ge in Hk. lia.
    - intros f []. }
  destruct HB0 as [B0 N0]. destruct (index_txs_q7 _ _ _ _ _ _ B0 N0 E0) as [B1 N1].
  assert (HB2 : Q7b a1).
  { destruct blk as [|t0 r]; [inv E1; auto|]. eapply index_tx_q7; eauto. }
  destruct HB2 as [HB2 _]. unfold Q7s in *. cbn [s_entries s_id2seq s_children s_coll s_latest]. exact HB2.
Qed.

Lemma index_chain_q7 : forall cfg c h st st', Q7s st -> index_chain cfg h c st = Ok st' -> Q7s st'.
Proof.
  intros cfg c. induction c as [|blk r IH]; intros h st st' HQ H; cbn [index_chain] in H.
  - inv H. auto.
  - dbind H. eapply IH; [|exact H]. eapply index_block_q7; eauto.
Qed.

Lemma Q7s_empty : Q7s empty_state.
Proof.
  unfold Q7s. cbn. split; [split|]; cbn; try (intros; discriminate); try (intros ? ? []).
  intros c p. split; [intros [] | discriminate].
Qed.

Theorem provenance_invariant : forall cfg c st, index_chain cfg 0 c empty_state = Ok st -> Q7s st.
Proof. intros cfg c st H. eapply index_chain_q7; [apply Q7s_empty | exact H]. Qed.
