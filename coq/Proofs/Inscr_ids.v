(* C05, ids: the new inscriptions of a transaction get the indices 0, 1, 2, ... in envelope order. *)
From OrdV Require Import Base.Prelude Generated Index.Inscr Proofs.Inscr_tables Proofs.Inscr_proofs Proofs.Inscr_c07 Proofs.Inscr_c04.
From Coq Require Import ZifyBool ZifyN.

Definition ids_from (txid : N) (n : nat) : list iid := map (fun k => (txid, N.of_nat k)) (seq 0 n).

Definition AI (txid : N) (a : facc) : Prop :=
  new_ids (a_float a) = ids_from txid (length (new_ids (a_float a))) /\
  a_idc a = N.of_nat (length (new_ids (a_float a))).

Lemma news_ai : forall st txid jubilant tov offset iv l a a',
  AI txid a -> news st txid jubilant tov offset iv l a = Ok a' -> AI txid a'.
Proof.
  intros st txid jubilant tov offset iv l. induction l as [|v r IH]; intros a a' HA H; cbn [news] in H.
  - inv H. exact HA.
  - dbind H. eapply IH; [|exact H]. destruct HA as [A1 A2]. unfold AI. cbn [a_float a_idc].
    rewrite new_ids_app. unfold new_ids at 2 4 6. cbn [filter is_new f_origin map f_id].
    rewrite app_length. cbn [length]. rewrite Nat.add_1_r. split.
    + unfold ids_from. rewrite seq_S, map_app. cbn [map Nat.add]. fold (ids_from txid (length (new_ids (a_float a)))).
      rewrite <- A1, A2. reflexivity.
    + rewrite A2. lia.
Qed.

Lemma inputs_loop_ai : forall cfg st txid height jubilant tov ins idx ents envs a a',
  AI txid a -> inputs_loop cfg st txid height jubilant tov ins idx ents envs a = Ok a' -> AI txid a'.
Proof.
  intros cfg st txid height jubilant tov ins. induction ins as [|prev r IH]; intros idx ents envs a a' HA H; cbn [inputs_loop] in H.
  - inv H. exact HA.
  - destruct (is_null prev).
    + eapply IH; [|exact H]. exact HA.
    + destruct (nth_error ents (N.to_nat idx)) as [u|]; [|discriminate].
      dbind H. destruct a0 as [fl io]. destruct (span_input idx envs) as [mine rest].
      dbind H. eapply IH; [|exact H]. eapply news_ai; [|exact E0].
      apply olds_spec in E. destruct E as (extra & -> & F). destruct HA as [A1 A2]. unfold AI. cbn [a_float a_idc].
      rewrite new_ids_app, (new_ids_old _ F), app_nil_r. auto.
Qed.

Theorem ids_in_order : forall cfg st h t ents F tiv,
  floating_of cfg st h t ents = Ok (F, tiv) -> new_ids F = ids_from (t_id t) (length (new_ids F)).
Proof.
  intros cfg st h t ents F tiv H. unfold floating_of in H. dbind H. dbind H. inv H.
  rewrite new_ids_fix. apply inputs_loop_ai with (txid := t_id t) in E; [apply E|].
  split; reflexivity.
Qed.

Theorem ids_count : forall cfg st h t ents F tiv,
  tx_plain t -> length ents = length (t_ins t) -> envs_ok t ->
  floating_of cfg st h t ents = Ok (F, tiv) -> length (new_ids F) = length (t_envs t).
Proof.
  intros cfg st h t ents F tiv HP HL HE H. pose proof (floating_of_count_plain _ _ _ _ _ _ _ HP HL HE H) as Q.
  unfold nnew in Q. lia.
Qed.
