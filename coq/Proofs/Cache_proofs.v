(* The write-back cache of the updater refines a single map: whatever the
   placement of commits, reads return the same values and the final table is
   the same. *)
From OrdV Require Import Base.Prelude Index.Cache.

Section CacheProofs.
  Variable E A : Type.
  Variable merged : E -> E -> E.
  Variable empty : E.
  Variable special : N -> bool.
  (* laws of UtxoEntryBuf::merged on the entries of special outpoints
     (concatenation of ranges and of inscription lists, empty script) *)
  Hypothesis merged_assoc : forall a b c, merged (merged a b) c = merged a (merged b c).
  Hypothesis merged_empty_l : forall a, merged empty a = a.

  Notation prog := (prog E A).
  Notation cstate := (cstate E A).
  Notation sstate := (sstate E A).
  Notation exec_c := (exec_c E A merged empty).
  Notation exec_s := (exec_s E A merged empty).
  Notation flush := (flush E A merged special).
  Notation run_c := (run_c E A merged empty special).
  Notation run_s := (run_s E A merged empty).
  Notation wf := (wf E A special).
  Notation table := (table E A).
  Notation cache := (cache E A).
  Notation caux := (caux E A).
  Notation smap := (smap E A).
  Notation saux := (saux E A).
  Notation upd := (upd E).

  (* what the table and the cache together stand for *)
  Definition view (s : cstate) : N -> option E :=
    fun o => match cache s o with
             | Some c => if special o
                         then match table s o with Some t => Some (merged t c) | None => Some c end
                         else Some c
             | None => table s o
             end.

  (* a real output is never in the cache and in the table at once *)
  Definition disj (c : cstate) : Prop :=
    forall o e, special o = false -> cache c o = Some e -> table c o = None.

  Definition R (c : cstate) (s : sstate) : Prop :=
    caux c = saux s /\ (forall o, view c o = smap s o) /\ disj c.

  Lemma upd_same m o v : upd m o v o = v.
  Proof. unfold Cache.upd. rewrite N.eqb_refl. reflexivity. Qed.

  Lemma upd_other m o v x : x <> o -> upd m o v x = m x.
  Proof. unfold Cache.upd. intros H. destruct (N.eqb_spec x o); [contradiction|reflexivity]. Qed.

  Lemma exec_sim : forall pr c s s', wf pr -> R c s -> exec_s pr s = Some s' -> R (exec_c pr c) s'.
  Proof.
    induction pr as [|o k IH|o k IH|o e k IH|o e k IH|f k IH]; intros c s s' Hwf (Ha & Hv & Hd);
      cbn [Cache.exec_c Cache.exec_s].
    - intros H. inversion H; subst. repeat split; assumption.
    - (* Take *)
      destruct Hwf as [Hsp Hk].
      pose proof (Hv o) as Ho. unfold view in Ho. rewrite Hsp in Ho.
      destruct (cache c o) as [e|] eqn:Ec.
      + rewrite <- Ho. apply IH; [apply Hk|]. split; [exact Ha|]. split.
        * intros x. unfold view. cbn [Cache.cache Cache.table Cache.smap].
          destruct (N.eq_dec x o) as [->|Hne].
          -- rewrite !upd_same. apply (Hd o e Hsp Ec).
          -- rewrite !upd_other by assumption. apply Hv.
        * intros x e' Hx. cbn [Cache.cache Cache.table].
          destruct (N.eq_dec x o) as [->|Hne]; [rewrite upd_same; discriminate|].
          rewrite upd_other by assumption. apply Hd; assumption.
      + destruct (table c o) as [e|] eqn:Et.
        * rewrite <- Ho. apply IH; [apply Hk|]. split; [exact Ha|]. split.
          -- intros x. unfold view. cbn [Cache.cache Cache.table Cache.smap].
             destruct (N.eq_dec x o) as [->|Hne].
             ++ rewrite Ec, !upd_same. reflexivity.
             ++ rewrite !upd_other by assumption. apply Hv.
          -- intros x e' Hx. cbn [Cache.cache Cache.table]. intros Hc.
             destruct (N.eq_dec x o) as [->|Hne]; [apply upd_same|].
             rewrite upd_other by assumption. eapply Hd; eassumption.
        * rewrite <- Ho. apply IH; [apply Hk|]. repeat split; assumption.
    - (* Mem *)
      destruct Hwf as [Hsp Hk].
      pose proof (Hv o) as Ho. unfold view in Ho. rewrite Hsp in Ho.
      replace (match smap s o with Some _ => true | None => false end)
        with (match cache c o with Some _ => true
              | None => match table c o with Some _ => true | None => false end end).
      2:{ rewrite <- Ho. destruct (cache c o); reflexivity. }
      apply IH; [apply Hk|]. repeat split; assumption.
    - (* Put *)
      destruct Hwf as [Hsp Hk].
      pose proof (Hv o) as Ho. unfold view in Ho. rewrite Hsp in Ho.
      destruct (smap s o) as [old|] eqn:Es; [discriminate|].
      assert (Hc: cache c o = None) by (destruct (cache c o); [discriminate|reflexivity]).
      assert (Ht: table c o = None) by (rewrite Hc in Ho; exact Ho).
      apply IH; [exact Hk|]. split; [exact Ha|]. split.
      + intros x. unfold view. cbn [Cache.cache Cache.table Cache.smap].
        destruct (N.eq_dec x o) as [->|Hne].
        * rewrite !upd_same, Hsp. reflexivity.
        * rewrite !upd_other by assumption. apply Hv.
      + intros x e' Hx. cbn [Cache.cache Cache.table].
        destruct (N.eq_dec x o) as [->|Hne]; [intros _; exact Ht|].
        rewrite upd_other by assumption. apply Hd; assumption.
    - (* Append *)
      destruct Hwf as [Hsp Hk].
      pose proof (Hv o) as Ho. unfold view in Ho. rewrite Hsp in Ho.
      apply IH; [exact Hk|]. split; [exact Ha|]. split.
      + intros x. unfold view. cbn [Cache.cache Cache.table Cache.smap].
        destruct (N.eq_dec x o) as [->|Hne].
        * rewrite !upd_same, Hsp. rewrite <- Ho.
          destruct (cache c o) as [cc|]; destruct (table c o) as [t|];
            rewrite ?merged_assoc, ?merged_empty_l; reflexivity.
        * rewrite !upd_other by assumption. apply Hv.
      + intros x e' Hx. cbn [Cache.cache Cache.table].
        destruct (N.eq_dec x o) as [->|Hne]; [congruence|].
        rewrite upd_other by assumption. apply Hd; assumption.
    - (* AuxStep *)
      rewrite Ha. apply IH; [apply Hwf|]. repeat split; assumption.
  Qed.

  Lemma flush_R c s : R c s -> R (flush c) s.
  Proof.
    intros (Ha & Hv & Hd). split; [exact Ha|]. split.
    - intros o. unfold view, Cache.flush. cbn [Cache.cache Cache.table]. apply Hv.
    - intros o e _ H. cbn [Cache.cache Cache.flush] in H. discriminate.
  Qed.

  Lemma flush_table c s : R c s -> forall o, table (flush c) o = smap s o.
  Proof. intros (_ & Hv & _) o. apply Hv. Qed.

  (* the list of blocks of a schedule *)
  Definition progs (bs : list (prog * bool)) : list prog := List.map fst bs.

  Lemma run_sim : forall bs c s s',
    Forall (fun b => wf (fst b)) bs -> R c s -> run_s (progs bs) s = Some s' ->
    caux (run_c bs c) = saux s' /\ forall o, table (run_c bs c) o = smap s' o.
  Proof.
    induction bs as [|[pr cm] bs IH]; intros c s s' Hwf HR; cbn [Cache.run_c Cache.run_s progs List.map fst].
    - intros H. inversion H; subst. split; [apply (flush_R _ _ HR)|apply (flush_table _ _ HR)].
    - inversion Hwf as [|? ? Hw Hws]; subst. cbn [fst] in Hw.
      destruct (exec_s pr s) as [s1|] eqn:Es; [|discriminate].
      intros H. pose proof (exec_sim pr c s s1 Hw HR Es) as HR1.
      apply (IH _ s1 s'); [assumption| |exact H].
      destruct cm; [apply flush_R|]; assumption.
  Qed.

  (* Schedule independence of the UTXO store and of every directly written
     table: two runs of the same blocks with different commit placements end
     in the same state. *)
  Theorem schedule_independent : forall bs1 bs2 c0 s0 s',
    progs bs1 = progs bs2 ->
    Forall (fun b => wf (fst b)) bs1 -> Forall (fun b => wf (fst b)) bs2 ->
    R c0 s0 -> run_s (progs bs1) s0 = Some s' ->
    caux (run_c bs1 c0) = caux (run_c bs2 c0) /\
    forall o, table (run_c bs1 c0) o = table (run_c bs2 c0) o.
  Proof.
    intros bs1 bs2 c0 s0 s' Hp H1 H2 HR Hs.
    pose proof (run_sim bs1 c0 s0 s' H1 HR Hs) as [A1 T1].
    rewrite Hp in Hs.
    pose proof (run_sim bs2 c0 s0 s' H2 HR Hs) as [A2 T2].
    split; [congruence|]. intros o. rewrite T1, T2. reflexivity.
  Qed.
End CacheProofs.
