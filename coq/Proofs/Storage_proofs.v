(* Lemmas for C35: storage encodings read back what was written. *)
From OrdV Require Import Base.Prelude Base.Wire Codec.Varint Codec.Storage Proofs.Bits Proofs.Varint_proofs.
Require Import ZifyBool ZifyN.
Ltac Zify.zify_post_hook ::= Z.div_mod_to_equations.

Definition byte (b : N) : Prop := b < 256.
Definition bytes (l : list N) : Prop := Forall byte l.

(* ---------------- little-endian byte strings ---------------- *)
Lemma le_bytes_length k : forall n, length (le_bytes k n) = k.
Proof. induction k as [|k IH]; intros n; cbn [le_bytes length]; [reflexivity|]. now rewrite IH. Qed.

Lemma le_bytes_bytes k : forall n, bytes (le_bytes k n).
Proof.
  induction k as [|k IH]; intros n; cbn [le_bytes]; constructor; [|apply IH].
  unfold byte. apply N.mod_lt. lia.
Qed.

Lemma pow8_succ k : 2 ^ (8 * N.of_nat (S k)) = 256 * 2 ^ (8 * N.of_nat k).
Proof.
  rewrite Nat2N.inj_succ. replace (8 * N.succ (N.of_nat k)) with (8 + 8 * N.of_nat k) by lia.
  rewrite N.pow_add_r. reflexivity.
Qed.

Lemma pow8_pos k : 2 ^ (8 * N.of_nat k) <> 0.
Proof. apply N.pow_nonzero. lia. Qed.

Lemma le_value_le_bytes k : forall n, le_value (le_bytes k n) = n mod 2 ^ (8 * N.of_nat k).
Proof.
  induction k as [|k IH]; intros n.
  - cbn [le_bytes le_value]. change (2 ^ (8 * N.of_nat 0)) with 1. now rewrite N.mod_1_r.
  - cbn [le_bytes le_value]. rewrite IH, pow8_succ.
    rewrite N.mod_mul_r; [reflexivity|lia|apply pow8_pos].
Qed.

Lemma le_value_bound bs : bytes bs -> le_value bs < 2 ^ (8 * N.of_nat (length bs)).
Proof.
  induction 1 as [|b r Hb Hr IH]; [cbn; lia|].
  cbn [le_value length]. rewrite pow8_succ. unfold byte in Hb. lia.
Qed.

Lemma le_bytes_le_value bs : bytes bs -> le_bytes (length bs) (le_value bs) = bs.
Proof.
  induction 1 as [|b r Hb Hr IH]; [reflexivity|].
  cbn [le_value length le_bytes]. unfold byte in Hb.
  replace ((b + 256 * le_value r) mod 256) with b by lia.
  replace ((b + 256 * le_value r) / 256) with (le_value r) by lia.
  now rewrite IH.
Qed.

Lemma le_value_small k n : n < 2 ^ (8 * N.of_nat k) -> le_value (le_bytes k n) = n.
Proof. intros H. rewrite le_value_le_bytes. now apply N.mod_small. Qed.

Lemma le_value_app a : forall b, le_value (a ++ b) = le_value a + 2 ^ (8 * N.of_nat (length a)) * le_value b.
Proof.
  induction a as [|x a IH]; intros b.
  - cbn [app le_value length]. change (2 ^ (8 * N.of_nat 0)) with 1. lia.
  - cbn [app le_value length]. rewrite IH, pow8_succ. lia.
Qed.

Lemma le_value_app_zeros a z : Forall (fun x => x = 0) z -> le_value (a ++ z) = le_value a.
Proof.
  intros Hz. rewrite le_value_app.
  assert (E : le_value z = 0).
  { induction Hz as [|x z Hx _ IH]; [reflexivity|]. cbn [le_value]. lia. }
  rewrite E. lia.
Qed.

Lemma firstn_le_bytes j : forall k n, firstn j (le_bytes (j + k) n) = le_bytes j n.
Proof.
  induction j as [|j IH]; intros k n; [reflexivity|].
  cbn [Nat.add le_bytes firstn]. now rewrite IH.
Qed.

Lemma bytes_app a b : bytes a -> bytes b -> bytes (a ++ b).
Proof. intros. apply Forall_app. now split. Qed.

Lemma In_firstn' {A} (x : A) n : forall l, In x (firstn n l) -> In x l.
Proof.
  induction n as [|n IH]; intros l H; [destruct H|].
  destruct l as [|y l]; [exact H|]. destruct H as [H|H]; [now left|right; now apply IH].
Qed.

Lemma bytes_firstn n l : bytes l -> bytes (firstn n l).
Proof. unfold bytes. rewrite !Forall_forall. intros H x Hx. apply H. eapply In_firstn'; eauto. Qed.

Lemma In_skipn {A} (x : A) n : forall l, In x (skipn n l) -> In x l.
Proof.
  induction n as [|n IH]; intros l H; [exact H|].
  destruct l as [|y l]; [exact H|]. right. now apply IH.
Qed.

Lemma bytes_skipn n l : bytes l -> bytes (skipn n l).
Proof. unfold bytes. rewrite !Forall_forall. intros H x Hx. apply H. eapply In_skipn; eauto. Qed.

(* ---------------- SatRange ---------------- *)
Definition P51 : N := 2251799813685248.
Definition P37 : N := 137438953472.
Definition P33 : N := 8589934592.
Definition P88 : N := 309485009821345068724781056.

Lemma P51_eq : P51 = 2 ^ 51. Proof. reflexivity. Qed.
Lemma P37_eq : P37 = 2 ^ 37. Proof. reflexivity. Qed.
Lemma P33_eq : P33 = 2 ^ 33. Proof. reflexivity. Qed.
Lemma P88_eq : P88 = 2 ^ 88. Proof. reflexivity. Qed.

(* what load computes on the 11 low bytes of any n: the low 51 bits and the next 37 bits *)
Lemma sat_range_load_le n :
  sat_range_load (le_bytes 11 n) = Ok (n mod P51, n mod P51 + (n / P51) mod P37).
Proof.
  cbn [le_bytes]. unfold sat_range_load.
  set (m := n / 256 / 256 / 256 / 256 / 256 / 256).
  change [n mod 256; n / 256 mod 256; n / 256 / 256 mod 256; n / 256 / 256 / 256 mod 256;
          n / 256 / 256 / 256 / 256 mod 256; n / 256 / 256 / 256 / 256 / 256 mod 256;
          m mod 256; 0] with (le_bytes 7 n ++ [0]).
  change [m mod 256; m / 256 mod 256; m / 256 / 256 mod 256; m / 256 / 256 / 256 mod 256;
          m / 256 / 256 / 256 / 256 mod 256; 0; 0; 0] with (le_bytes 5 m ++ [0; 0; 0]).
  rewrite !le_value_app_zeros by (repeat constructor).
  rewrite !le_value_le_bytes, land_ones_mod, N.shiftr_div_pow2.
  change (2 ^ (8 * N.of_nat 7)) with 72057594037927936.
  change (2 ^ (8 * N.of_nat 5)) with 1099511627776.
  change (2 ^ 51) with 2251799813685248. change (2 ^ 3) with 8.
  assert (Em : m = n / 281474976710656).
  { unfold m. rewrite !N.div_div by lia. reflexivity. }
  clearbody m. unfold P51, P37.
  assert (E1 : (n mod 72057594037927936) mod 2251799813685248 = n mod 2251799813685248) by lia.
  assert (E2 : m mod 1099511627776 / 8 = (n / 2251799813685248) mod 137438953472) by lia.
  rewrite E1, E2. reflexivity.
Qed.

Lemma sat_range_store_ok a b : a < P51 -> a <= b ->
  sat_range_store (a, b) = Ok (le_bytes 11 (a + (b - a) * P51)).
Proof.
  intros Ha Hab. unfold sat_range_store.
  destruct (N.ltb_spec b a) as [H|_]; [lia|].
  rewrite lor_shiftl_add by exact Ha.
  change 16%nat with (11 + 5)%nat. rewrite firstn_le_bytes. reflexivity.
Qed.

Theorem sat_range_roundtrip a b : a < P51 -> a <= b -> b - a < P37 ->
  exists v, sat_range_store (a, b) = Ok v /\ length v = 11%nat /\ bytes v /\
            sat_range_load v = Ok (a, b).
Proof.
  intros Ha Hab Hd. exists (le_bytes 11 (a + (b - a) * P51)).
  split; [now apply sat_range_store_ok|]. split; [apply le_bytes_length|].
  split; [apply le_bytes_bytes|].
  rewrite sat_range_load_le. unfold P51, P37 in *. f_equal. f_equal; lia.
Qed.

(* ---------------- rune balances ---------------- *)
Definition valid_balance (x : balance) : Prop :=
  let '((block, tx), bal) := x in block <= U64_MAX /\ tx <= U32_MAX /\ bal < P128.

Lemma skipn_length_app {A} (a b : list A) : skipn (length a) (a ++ b) = b.
Proof. induction a as [|x a IH]; [reflexivity|exact IH]. Qed.

Lemma decode_rune_balance_encode x rest : valid_balance x ->
  decode_rune_balance (encode_rune_balance x ++ rest) =
    Ok (x, N.of_nat (length (encode_rune_balance x))).
Proof.
  destruct x as [[block tx] bal]. intros (Hb & Ht & Ha).
  unfold decode_rune_balance, encode_rune_balance.
  assert (Hb' : block < P128) by (unfold U64_MAX, P128 in *; lia).
  assert (Ht' : tx < P128) by (unfold U32_MAX, P128 in *; lia).
  rewrite <- !app_assoc.
  rewrite (decode_encode block _ Hb').
  rewrite Nat2N.id, skipn_length_app.
  rewrite (decode_encode tx _ Ht').
  destruct (N.ltb_spec U64_MAX block) as [H|_]; [lia|].
  destruct (N.ltb_spec U32_MAX tx) as [H|_]; [lia|].
  rewrite N2Nat.inj_add, !Nat2N.id.
  replace (skipn (length (encode block) + length (encode tx)) (encode block ++ encode tx ++ encode bal ++ rest))
    with (encode bal ++ rest).
  2:{ rewrite app_assoc. rewrite <- app_length. now rewrite skipn_length_app. }
  rewrite (decode_encode bal _ Ha).
  rewrite !app_length. f_equal. f_equal. lia.
Qed.

Lemma encode_rune_balance_nonempty x : encode_rune_balance x <> [].
Proof.
  destruct x as [[block tx] bal]. unfold encode_rune_balance.
  pose proof (encode_nonempty block) as H. destruct (encode block); [cbn in H; lia|discriminate].
Qed.

Lemma decode_rune_balances_encode l : Forall valid_balance l ->
  forall fuel, (length l <= fuel)%nat ->
  decode_rune_balances fuel (encode_rune_balances l) = Ok l.
Proof.
  induction 1 as [|x l Hx Hl IH]; intros fuel Hf.
  - destruct fuel; reflexivity.
  - destruct fuel as [|f]; [cbn in Hf; lia|].
    unfold encode_rune_balances. cbn [flat_map]. fold (encode_rune_balances l).
    pose proof (encode_rune_balance_nonempty x) as Hne.
    destruct (encode_rune_balance x ++ encode_rune_balances l) as [|y ys] eqn:E.
    { destruct (encode_rune_balance x); [congruence|discriminate]. }
    cbn [decode_rune_balances]. rewrite <- E.
    rewrite (decode_rune_balance_encode x _ Hx).
    rewrite Nat2N.id, skipn_length_app.
    rewrite IH by (cbn in Hf; lia). reflexivity.
Qed.

Lemma encode_rune_balances_length l : (length l <= length (encode_rune_balances l))%nat.
Proof.
  induction l as [|x l IH]; [cbn; lia|].
  unfold encode_rune_balances. cbn [flat_map length]. fold (encode_rune_balances l).
  rewrite app_length. pose proof (encode_rune_balance_nonempty x) as Hne.
  destruct (encode_rune_balance x); [congruence|cbn [length]; lia].
Qed.

Theorem rune_balances_roundtrip l : Forall valid_balance l ->
  decode_rune_balances (length (encode_rune_balances l)) (encode_rune_balances l) = Ok l.
Proof. intros H. apply decode_rune_balances_encode; [exact H|apply encode_rune_balances_length]. Qed.

(* ---------------- ids, outpoints, satpoints, header ---------------- *)
Definition txid_ok (t : list N) : Prop := length t = 32%nat /\ bytes t.

Lemma le_bytes_le_value' k bs : length bs = k -> bytes bs -> le_bytes k (le_value bs) = bs.
Proof. intros <-. apply le_bytes_le_value. Qed.

Lemma firstn_length_app {A} (a b : list A) : firstn (length a) (a ++ b) = a.
Proof. rewrite firstn_app, Nat.sub_diag, firstn_all. cbn [firstn]. apply app_nil_r. Qed.

Lemma firstn_app_l {A} k (a b : list A) : length a = k -> firstn k (a ++ b) = a.
Proof. intros <-. apply firstn_length_app. Qed.

Lemma skipn_app_l {A} k (a b : list A) : length a = k -> skipn k (a ++ b) = b.
Proof. intros <-. apply skipn_length_app. Qed.

Lemma skipn_add_app {A} (a : list A) n b : skipn (length a + n) (a ++ b) = skipn n b.
Proof. induction a as [|x a IH]; [reflexivity|exact IH]. Qed.

Lemma skipn_app_add {A} k n (a b : list A) : length a = k -> skipn (k + n) (a ++ b) = skipn n b.
Proof. intros <-. apply skipn_add_app. Qed.

Lemma le4_small x : x <= U32_MAX -> le_value (le_bytes 4 x) = x.
Proof.
  intros Hx. apply le_value_small. change (2 ^ (8 * N.of_nat 4)) with 4294967296. unfold U32_MAX in Hx. lia.
Qed.

Lemma le8_small x : x <= U64_MAX -> le_value (le_bytes 8 x) = x.
Proof.
  intros Hx. apply le_value_small. change (2 ^ (8 * N.of_nat 8)) with 18446744073709551616.
  unfold U64_MAX in Hx. lia.
Qed.

Lemma le16_small x : x < P128 -> le_value (le_bytes 16 x) = x.
Proof. intros Hx. apply le_value_small. exact Hx. Qed.

Lemma halves_roundtrip t : txid_ok t -> txid_of_halves (txid_halves t) = t.
Proof.
  intros [Hl Hb]. unfold txid_of_halves, txid_halves. cbn [fst snd].
  rewrite (le_bytes_le_value' 16 (firstn 16 t)); [|rewrite firstn_length; lia|now apply bytes_firstn].
  rewrite (le_bytes_le_value' 16 (skipn 16 t)); [|rewrite skipn_length; lia|now apply bytes_skipn].
  apply firstn_skipn.
Qed.

Lemma halves_roundtrip' p : fst p < P128 -> snd p < P128 -> txid_halves (txid_of_halves p) = p.
Proof.
  destruct p as [h t]. cbn [fst snd]. intros Hh Ht. unfold txid_of_halves, txid_halves. cbn [fst snd].
  rewrite (firstn_app_l 16), (skipn_app_l 16) by apply le_bytes_length.
  now rewrite !le16_small.
Qed.

Lemma halves_ok p : txid_ok (txid_of_halves p).
Proof.
  split; [unfold txid_of_halves; now rewrite app_length, !le_bytes_length|].
  apply bytes_app; apply le_bytes_bytes.
Qed.

Theorem inscription_id_roundtrip txid index : txid_ok txid ->
  inscription_id_load (inscription_id_store (txid, index)) = (txid, index).
Proof.
  intros H. unfold inscription_id_load, inscription_id_store.
  pose proof (halves_roundtrip txid H) as E. unfold txid_of_halves, txid_halves in E. cbn [fst snd] in E.
  now rewrite E.
Qed.

Theorem inscription_id_value_roundtrip h t i : h < P128 -> t < P128 ->
  inscription_id_store (inscription_id_load (h, t, i)) = (h, t, i) /\
  txid_ok (fst (inscription_id_load (h, t, i))).
Proof.
  intros Hh Ht. unfold inscription_id_load, inscription_id_store.
  split; [|exact (halves_ok (h, t))].
  rewrite (firstn_app_l 16), (skipn_app_l 16) by apply le_bytes_length.
  now rewrite !le16_small.
Qed.

Theorem outpoint_roundtrip txid vout : txid_ok txid -> vout <= U32_MAX ->
  length (outpoint_store (txid, vout)) = 36%nat /\ bytes (outpoint_store (txid, vout)) /\
  outpoint_load (outpoint_store (txid, vout)) = (txid, vout).
Proof.
  intros [Hl Hb] Hv. unfold outpoint_store, outpoint_load.
  split; [rewrite app_length, le_bytes_length; lia|].
  split; [apply bytes_app; [exact Hb|apply le_bytes_bytes]|].
  rewrite (firstn_app_l 32), (skipn_app_l 32) by exact Hl.
  now rewrite le4_small.
Qed.

Theorem outpoint_value_roundtrip v : length v = 36%nat -> bytes v ->
  outpoint_store (outpoint_load v) = v.
Proof.
  intros Hl Hb. unfold outpoint_store, outpoint_load.
  rewrite (le_bytes_le_value' 4 (skipn 32 v)); [|rewrite skipn_length; lia|now apply bytes_skipn].
  apply firstn_skipn.
Qed.

Theorem satpoint_roundtrip txid vout offset : txid_ok txid -> vout <= U32_MAX -> offset <= U64_MAX ->
  length (satpoint_store ((txid, vout), offset)) = 44%nat /\
  bytes (satpoint_store ((txid, vout), offset)) /\
  satpoint_load (satpoint_store ((txid, vout), offset)) = ((txid, vout), offset).
Proof.
  intros Ht Hv Ho. destruct (outpoint_roundtrip txid vout Ht Hv) as (L & B & E).
  unfold satpoint_store, satpoint_load.
  split; [rewrite app_length, le_bytes_length, L; reflexivity|].
  split; [apply bytes_app; [exact B|apply le_bytes_bytes]|].
  rewrite (firstn_app_l 36), (skipn_app_l 36) by exact L.
  now rewrite E, le8_small.
Qed.

Theorem satpoint_value_roundtrip v : length v = 44%nat -> bytes v ->
  satpoint_store (satpoint_load v) = v.
Proof.
  intros Hl Hb. unfold satpoint_store, satpoint_load.
  destruct (outpoint_load (firstn 36 v)) as [t o] eqn:E.
  assert (E' : outpoint_store (t, o) = firstn 36 v).
  { rewrite <- E. apply outpoint_value_roundtrip; [rewrite firstn_length; lia|now apply bytes_firstn]. }
  rewrite E'.
  rewrite (le_bytes_le_value' 8 (skipn 36 v)); [|rewrite skipn_length; lia|now apply bytes_skipn].
  apply firstn_skipn.
Qed.

Definition header_ok (h : header) : Prop :=
  let '(version, prev, merkle, time, bits, nonce) := h in
  version <= U32_MAX /\ txid_ok prev /\ txid_ok merkle /\ time <= U32_MAX /\ bits <= U32_MAX /\ nonce <= U32_MAX.

Theorem header_roundtrip h : header_ok h ->
  length (header_store h) = 80%nat /\ header_load (header_store h) = h.
Proof.
  destruct h as [[[[[version prev] merkle] time] bits] nonce].
  intros (Hv & [Lp Bp] & [Lm Bm] & Ht & Hb & Hn).
  unfold header_store, header_load.
  split; [rewrite !app_length, !le_bytes_length, Lp, Lm; reflexivity|].
  pose proof (le_bytes_length 4 version) as L4.
  pose proof (le_bytes_length 4 time) as L4t.
  pose proof (le_bytes_length 4 bits) as L4b.
  pose proof (le_bytes_length 4 nonce) as L4n.
  change 76%nat with (4 + (32 + (32 + (4 + 4))))%nat.
  change 72%nat with (4 + (32 + (32 + 4)))%nat.
  change 68%nat with (4 + (32 + 32))%nat.
  change 36%nat with (4 + 32)%nat.
  rewrite (firstn_app_l 4) by exact L4. rewrite (skipn_app_l 4) by exact L4.
  rewrite (firstn_app_l 32) by exact Lp.
  rewrite (skipn_app_add 4) by exact L4.
  rewrite (skipn_app_l 32) by exact Lp. rewrite (firstn_app_l 32) by exact Lm.
  rewrite (skipn_app_add 4) by exact L4. rewrite (skipn_app_add 32) by exact Lp.
  rewrite (skipn_app_l 32) by exact Lm. rewrite (firstn_app_l 4) by exact L4t.
  rewrite (skipn_app_add 4) by exact L4. rewrite (skipn_app_add 32) by exact Lp.
  rewrite (skipn_app_add 32) by exact Lm. rewrite (skipn_app_l 4) by exact L4t.
  rewrite (firstn_app_l 4) by exact L4b.
  rewrite (skipn_app_add 4) by exact L4. rewrite (skipn_app_add 32) by exact Lp.
  rewrite (skipn_app_add 32) by exact Lm. rewrite (skipn_app_add 4) by exact L4t.
  rewrite (skipn_app_l 4) by exact L4b.
  rewrite <- (app_nil_r (le_bytes 4 nonce)). rewrite (firstn_app_l 4) by exact L4n.
  now rewrite !le4_small.
Qed.

(* ---------------- entries ---------------- *)
Theorem rune_entry_roundtrip e : txid_ok (re_etching e) ->
  rune_entry_load (rune_entry_store e) = e.
Proof.
  intros H. destruct e as [b bu d et m n p r s sy t ti tu]. cbn [re_etching] in H.
  unfold rune_entry_store, rune_entry_load.
  cbn [re_block re_burned re_divisibility re_etching re_mints re_number re_premine re_rune
       re_spacers re_symbol re_terms re_timestamp re_turbo].
  rewrite (halves_roundtrip et H). destruct t; reflexivity.
Qed.

Theorem rune_entry_value_roundtrip (v : rune_entry_value) :
  let '(_, _, _, etching, _, _, _, _, _, _, _, _) := v in
  fst etching < P128 -> snd etching < P128 ->
  rune_entry_store (rune_entry_load v) = v /\ txid_ok (re_etching (rune_entry_load v)).
Proof.
  destruct v as [[[[[[[[[[[b bu] d] et] m] n] p] [r s]] sy] t] ti] tu].
  intros H1 H2. unfold rune_entry_store, rune_entry_load.
  cbn [re_block re_burned re_divisibility re_etching re_mints re_number re_premine re_rune
       re_spacers re_symbol re_terms re_timestamp re_turbo].
  rewrite (halves_roundtrip' et H1 H2). split; [destruct t; reflexivity|apply halves_ok].
Qed.

Theorem inscription_entry_roundtrip e : txid_ok (fst (ie_id e)) ->
  inscription_entry_load (inscription_entry_store e) = e.
Proof.
  intros H. destruct e as [c f h hi [txid index] n p s sq t]. cbn [ie_id fst] in H.
  unfold inscription_entry_store, inscription_entry_load.
  cbn [ie_charms ie_fee ie_height ie_hidden ie_id ie_number ie_parents ie_sat ie_sequence ie_timestamp].
  rewrite (inscription_id_roundtrip txid index H). destruct s; reflexivity.
Qed.

Theorem inscription_entry_value_roundtrip (v : inscription_entry_value) :
  let '(_, _, _, _, id, _, _, _, _, _) := v in
  let '(h, t, _) := id in
  h < P128 -> t < P128 ->
  inscription_entry_store (inscription_entry_load v) = v.
Proof.
  destruct v as [[[[[[[[[c f] h] hi] [[i0 i1] i2]] n] p] s] sq] t].
  intros H1 H2. unfold inscription_entry_store, inscription_entry_load.
  cbn [ie_charms ie_fee ie_height ie_hidden ie_id ie_number ie_parents ie_sat ie_sequence ie_timestamp].
  destruct (inscription_id_value_roundtrip i0 i1 i2 H1 H2) as [E _]. rewrite E.
  destruct s; reflexivity.
Qed.
