(* Lemmas for C35: storage encodings read back what was written. *)
From OrdV Require Import Base.Prelude Base.Wire Codec.Varint Codec.Storage Proofs.Bits Proofs.Varint_proofs.
Require Import ZifyBool ZifyN.
Ltac Zify.zify_post_hook ::= Z.div_mod_to_equations.

Definition byte (b : N) : Prop := b < 256.
Definition bytes (l : list N) : Prop := Forall byte l.

(* ---------------- little-endian byte strings ---------------- *)
Lemma le_bytes_length k : forall n, length (le_bytes k n) = k.
Proof. induction k as [|k IH]; intros n; cbn [le_bytes length]; [reflexivity|]. now rewrite IH. Qed.

Lemma le_bytes_bytes k : forall n, bytes (le_bytes k n).
Proof.
  induction k as [|k IH]; intros n; cbn [le_bytes]; constructor; [|apply IH].
  unfold byte. apply N.mod_lt. lia.
Qed.

Lemma pow8_succ k : 2 ^ (8 * N.of_nat (S k)) = 256 * 2 ^ (8 * N.of_nat k).
Proof.
  rewrite Nat2N.inj_succ. replace (8 * N.succ (N.of_nat k)) with (8 + 8 * N.of_nat k) by lia.
  rewrite N.pow_add_r. reflexivity.
Qed.

Lemma pow8_pos k : 2 ^ (8 * N.of_nat k) <> 0.
Proof. apply N.pow_nonzero. lia. Qed.

Lemma le_value_le_bytes k : forall n, le_value (le_bytes k n) = n mod 2 ^ (8 * N.of_nat k).
Proof.
  induction k as [|k IH]; intros n.
  - cbn [le_bytes le_value]. change (2 ^ (8 * N.of_nat 0)) with 1. now rewrite N.mod_1_r.
  - cbn [le_bytes le_value]. rewrite IH, pow8_succ.
    rewrite N.mod_mul_r; [reflexivity|lia|apply pow8_pos].
Qed.

Lemma le_value_bound bs : bytes bs -> le_value bs < 2 ^ (8 * N.of_nat (length bs)).
Proof.
  induction 1 as [|b r Hb Hr IH]; [cbn; lia|].
  cbn [le_value length]. rewrite pow8_succ. unfold byte in Hb. lia.
Qed.

Lemma le_bytes_le_value bs : bytes bs -> le_bytes (length bs) (le_value bs) = bs.
Proof.
  induction 1 as [|b r Hb Hr IH]; [reflexivity|].
  cbn [le_value length le_bytes]. unfold byte in Hb.
  replace ((b + 256 * le_value r) mod 256) with b by lia.
  replace ((b + 256 * le_value r) / 256) with (le_value r) by lia.
  now rewrite IH.
Qed.

Lemma le_value_small k n : n < 2 ^ (8 * N.of_nat k) -> le_value (le_bytes k n) = n.
Proof. intros H. rewrite le_value_le_bytes. now apply N.mod_small. Qed.

Lemma le_value_app a : forall b, le_value (a ++ b) = le_value a + 2 ^ (8 * N.of_nat (length a)) * le_value b.
Proof.
  induction a as [|x a IH]; intros b.
  - cbn [app le_value length]. change (2 ^ (8 * N.of_nat 0)) with 1. lia.
  - cbn [app le_value length]. rewrite IH, pow8_succ. lia.
Qed.

Lemma le_value_app_zeros a z : Forall (fun x => x = 0) z -> le_value (a ++ z) = le_value a.
Proof.
  intros Hz. rewrite le_value_app.
  assert (E : le_value z = 0).
  { induction Hz as [|x z Hx _ IH]; [reflexivity|]. cbn [le_value]. lia. }
  rewrite E. lia.
Qed.

Lemma firstn_le_bytes j : forall k n, firstn j (le_bytes (j + k) n) = le_bytes j n.
Proof.
  induction j as [|j IH]; intros k n; [reflexivity|].
  cbn [Nat.add le_bytes firstn]. now rewrite IH.
Qed.

Lemma bytes_app a b : bytes a -> bytes b -> bytes (a ++ b).
Proof. intros. apply Forall_app. now split. Qed.

Lemma In_firstn' {A} (x : A) n : forall l, In x (firstn n l) -> In x l.
Proof.
  induction n as [|n IH]; intros l H; [destruct H|].
  destruct l as [|y l]; [exact H|]. destruct H as [H|H]; [now left|right; now apply IH].
Qed.

Lemma bytes_firstn n l : bytes l -> bytes (firstn n l).
Proof. unfold bytes. rewrite !Forall_forall. intros H x Hx. apply H. eapply In_firstn'; eauto. Qed.

Lemma In_skipn {A} (x : A) n : forall l, In x (skipn n l) -> In x l.
Proof.
  induction n as [|n IH]; intros l H; [exact H|].
  destruct l as [|y l]; [exact H|]. right. now apply IH.
Qed.

Lemma bytes_skipn n l : bytes l -> bytes (skipn n l).
Proof. unfold bytes. rewrite !Forall_forall. intros H x Hx. apply H. eapply In_skipn; eauto. Qed.

(* ---------------- SatRange ---------------- *)
Definition P51 : N := 2251799813685248.
Definition P37 : N := 137438953472.
Definition P33 : N := 8589934592.
Definition P88 : N := 309485009821345068724781056.

Lemma P51_eq : P51 = 2 ^ 51. Proof. reflexivity. Qed.
Lemma P37_eq : P37 = 2 ^ 37. Proof. reflexivity. Qed.
Lemma P33_eq : P33 = 2 ^ 33. Proof. reflexivity. Qed.
Lemma P88_eq : P88 = 2 ^ 88. Proof. reflexivity. Qed.

(* what load computes on the 11 low bytes of any n: the low 51 bits and the next 37 bits *)
Lemma sat_range_load_le n :
  sat_range_load (le_bytes 11 n) = Ok (n mod P51, n mod P51 + (n / P51) mod P37).
Proof.
  cbn [le_bytes]. unfold sat_range_load.
  set (m := n / 256 / 256 / 256 / 256 / 256 / 256).
  change [n mod 256; n / 256 mod 256; n / 256 / 256 mod 256; n / 256 / 256 / 256 mod 256;
          n / 256 / 256 / 256 / 256 mod 256; n / 256 / 256 / 256 / 256 / 256 mod 256;
          m mod 256; 0] with (le_bytes 7 n ++ [0]).
  change [m mod 256; m / 256 mod 256; m / 256 / 256 mod 256; m / 256 / 256 / 256 mod 256;
          m / 256 / 256 / 256 / 256 mod 256; 0; 0; 0] with (le_bytes 5 m ++ [0; 0; 0]).
  rewrite !le_value_app_zeros by (repeat constructor).
  rewrite !le_value_le_bytes, land_ones_mod, N.shiftr_div_pow2.
  change (2 ^ (8 * N.of_nat 7)) with 72057594037927936.
  change (2 ^ (8 * N.of_nat 5)) with 1099511627776.
  change (2 ^ 51) with 2251799813685248. change (2 ^ 3) with 8.
  assert (Em : m = n / 281474976710656).
  { unfold m. rewrite !N.div_div by lia. reflexivity. }
  clearbody m. unfold P51, P37.
  assert (E1 : (n mod 72057594037927936) mod 2251799813685248 = n mod 2251799813685248) by lia.
  assert (E2 : m mod 1099511627776 / 8 = (n / 2251799813685248) mod 137438953472) by lia.
  rewrite E1, E2. reflexivity.
Qed.

Lemma sat_range_store_ok a b : a < P51 -> a <= b ->
  sat_range_store (a, b) = Ok (le_bytes 11 (a + (b - a) * P51)).
Proof.
  intros Ha Hab. unfold sat_range_store.
  destruct (N.ltb_spec b a) as [H|_]; [lia|].
  rewrite lor_shiftl_add by exact Ha.
  change 16%nat with (11 + 5)%nat. rewrite firstn_le_bytes. reflexivity.
Qed.

Theorem sat_range_roundtrip a b : a < P51 -> a <= b -> b - a < P37 ->
  exists v, sat_range_store (a, b) = Ok v /\ length v = 11%nat /\ bytes v /\
            sat_range_load v = Ok (a, b).
Proof.
  intros Ha Hab Hd. exists (le_bytes 11 (a + (b - a) * P51)).
  split; [now apply sat_range_store_ok|]. split; [apply le_bytes_length|].
  split; [apply le_bytes_bytes|].
  rewrite sat_range_load_le. unfold P51, P37 in *. f_equal. f_equal; lia.
Qed.

(* ---------------- rune balances ---------------- *)
Definition valid_balance (x : balance) : Prop :=
  let '((block, tx), bal) := x in block <= U64_MAX /\ tx <= U32_MAX /\ bal < P128.

Lemma skipn_length_app {A} (a b : list A) : skipn (length a) (a ++ b) = b.
Proof. induction a as [|x a IH]; [reflexivity|exact IH]. Qed.

Lemma decode_rune_balance_encode x rest : valid_balance x ->
  decode_rune_balance (encode_rune_balance x ++ rest) =
    Ok (x, N.of_nat (length (encode_rune_balance x))).
Proof.
  destruct x as [[block tx] bal]. intros (Hb & Ht & Ha).
  unfold decode_rune_balance, encode_rune_balance.
  assert (Hb' : block < P128) by (unfold U64_MAX, P128 in *; lia).
  assert (Ht' : tx < P128) by (unfold U32_MAX, P128 in *; lia).
  rewrite <- !app_assoc.
  rewrite (decode_encode block _ Hb').
  rewrite Nat2N.id, skipn_length_app.
  rewrite (decode_encode tx _ Ht').
  destruct (N.ltb_spec U64_MAX block) as [H|_]; [lia|].
  destruct (N.ltb_spec U32_MAX tx) as [H|_]; [lia|].
  rewrite N2Nat.inj_add, !Nat2N.id.
  replace (skipn (length (encode block) + length (encode tx)) (encode block ++ encode tx ++ encode bal ++ rest))
    with (encode bal ++ rest).
  2:{ rewrite app_assoc. rewrite <- app_length. now rewrite skipn_length_app. }
  rewrite (decode_encode bal _ Ha).
  rewrite !app_length. f_equal. f_equal. lia.
Qed.

Lemma encode_rune_balance_nonempty x : encode_rune_balance x <> [].
Proof.
  destruct x as [[block tx] bal]. unfold encode_rune_balance.
  pose proof (encode_nonempty block) as H. destruct (encode block); [cbn in H; lia|discriminate].
Qed.

Lemma decode_rune_balances_encode l : Forall valid_balance l ->
  forall fuel, (length l <= fuel)%nat ->
  decode_rune_balances fuel (encode_rune_balances l) = Ok l.
Proof.
  induction 1 as [|x l Hx Hl IH]; intros fuel Hf.
  - destruct fuel; reflexivity.
  - destruct fuel as [|f]; [cbn in Hf; lia|].
    unfold encode_rune_balances. cbn [flat_map]. fold (encode_rune_balances l).
    pose proof (encode_rune_balance_nonempty x) as Hne.
    destruct (encode_rune_balance x ++ encode_rune_balances l) as [|y ys] eqn:E.
    { destruct (encode_rune_balance x); [congruence|discriminate]. }
    cbn [decode_rune_balances]. rewrite <- E.
    rewrite (decode_rune_balance_encode x _ Hx).
    rewrite Nat2N.id, skipn_length_app.
    rewrite IH by (cbn in Hf; lia). reflexivity.
Qed.

Lemma encode_rune_balances_length l : (length l <= length (encode_rune_balances l))%nat.
Proof.
  induction l as [|x l IH]; [cbn; lia|].
  unfold encode_rune_balances. cbn [flat_map length]. fold (encode_rune_balances l).
  rewrite app_length. pose proof (encode_rune_balance_nonempty x) as Hne.
  destruct (encode_rune_balance x); [congruence|cbn [length]; lia].
Qed.

Theorem rune_balances_roundtrip l : Forall valid_balance l ->
  decode_rune_balances (length (encode_rune_balances l)) (encode_rune_balances l) = Ok l.
Proof. intros H. apply decode_rune_balances_encode; [exact H|apply encode_rune_balances_length]. Qed.

(* ---------------- ids, outpoints, satpoints, header ---------------- *)
Definition txid_ok (t : list N) : Prop := length t = 32%nat /\ bytes t.

Lemma le_bytes_le_value' k bs : length bs = k -> bytes bs -> le_bytes k (le_value bs) = bs.
Proof. intros <-. apply le_bytes_le_value. Qed.

Lemma firstn_length_app {A} (a b : list A) : firstn (length a) (a ++ b) = a.
Proof. rewrite firstn_app, Nat.sub_diag, firstn_all. cbn [firstn]. apply app_nil_r. Qed.

Lemma firstn_app_l {A} k (a b : list A) : length a = k -> firstn k (a ++ b) = a.
Proof. intros <-. apply firstn_length_app. Qed.

Lemma skipn_app_l {A} k (a b : list A) : length a = k -> skipn k (a ++ b) = b.
Proof. intros <-. apply skipn_length_app. Qed.

Lemma skipn_add_app {A} (a : list A) n b : skipn (length a + n) (a ++ b) = skipn n b.
Proof. induction a as [|x a IH]; [reflexivity|exact IH]. Qed.

Lemma skipn_app_add {A} k n (a b : list A) : length a = k -> skipn (k + n) (a ++ b) = skipn n b.
Proof. intros <-. apply skipn_add_app. Qed.

Lemma le4_small x : x <= U32_MAX -> le_value (le_bytes 4 x) = x.
Proof.
  intros Hx. apply le_value_small. change (2 ^ (8 * N.of_nat 4)) with 4294967296. unfold U32_MAX in Hx. lia.
Qed.

Lemma le8_small x : x <= U64_MAX -> le_value (le_bytes 8 x) = x.
Proof.
  intros Hx. apply le_value_small. change (2 ^ (8 * N.of_nat 8)) with 18446744073709551616.
  unfold U64_MAX in Hx. lia.
Qed.

Lemma le16_small x : x < P128 -> le_value (le_bytes 16 x) = x.
Proof. intros Hx. apply le_value_small. exact Hx. Qed.

Lemma halves_roundtrip t : txid_ok t -> txid_of_halves (txid_halves t) = t.
Proof.
  intros [Hl Hb]. unfold txid_of_halves, txid_halves. cbn [fst snd].
  rewrite (le_bytes_le_value' 16 (firstn 16 t)); [|rewrite firstn_length; lia|now apply bytes_firstn].
  rewrite (le_bytes_le_value' 16 (skipn 16 t)); [|rewrite skipn_length; lia|now apply bytes_skipn].
  apply firstn_skipn.
Qed.

Lemma halves_roundtrip' p : fst p < P128 -> snd p < P128 -> txid_halves (txid_of_halves p) = p.
Proof.
  destruct p as [h t]. cbn [fst snd]. intros Hh Ht. unfold txid_of_halves, txid_halves. cbn [fst snd].
  rewrite (firstn_app_l 16), (skipn_app_l 16) by apply le_bytes_length.
  now rewrite !le16_small.
Qed.

Lemma halves_ok p : txid_ok (txid_of_halves p).
Proof.
  split; [unfold txid_of_halves; now rewrite app_length, !le_bytes_length|].
  apply bytes_app; apply le_bytes_bytes.
Qed.

Theorem inscription_id_roundtrip txid index : txid_ok txid ->
  inscription_id_load (inscription_id_store (txid, index)) = (txid, index).
Proof.
  intros H. unfold inscription_id_load, inscription_id_store.
  pose proof (halves_roundtrip txid H) as E. unfold txid_of_halves, txid_halves in E. cbn [fst snd] in E.
  now rewrite E.
Qed.

Theorem inscription_id_value_roundtrip h t i : h < P128 -> t < P128 ->
  inscription_id_store (inscription_id_load (h, t, i)) = (h, t, i) /\
  txid_ok (fst (inscription_id_load (h, t, i))).
Proof.
  intros Hh Ht. unfold inscription_id_load, inscription_id_store.
  split; [|exact (halves_ok (h, t))].
  rewrite (firstn_app_l 16), (skipn_app_l 16) by apply le_bytes_length.
  now rewrite !le16_small.
Qed.

Theorem outpoint_roundtrip txid vout : txid_ok txid -> vout <= U32_MAX ->
  length (outpoint_store (txid, vout)) = 36%nat /\ bytes (outpoint_store (txid, vout)) /\
  outpoint_load (outpoint_store (txid, vout)) = (txid, vout).
Proof.
  intros [Hl Hb] Hv. unfold outpoint_store, outpoint_load.
  split; [rewrite app_length, le_bytes_length; lia|].
  split; [apply bytes_app; [exact Hb|apply le_bytes_bytes]|].
  rewrite (firstn_app_l 32), (skipn_app_l 32) by exact Hl.
  now rewrite le4_small.
Qed.

Theorem outpoint_value_roundtrip v : length v = 36%nat -> bytes v ->
  outpoint_store (outpoint_load v) = v.
Proof.
  intros Hl Hb. unfold outpoint_store, outpoint_load.
  rewrite (le_bytes_le_value' 4 (skipn 32 v)); [|rewrite skipn_length; lia|now apply bytes_skipn].
  apply firstn_skipn.
Qed.

Theorem satpoint_roundtrip txid vout offset : txid_ok txid -> vout <= U32_MAX -> offset <= U64_MAX ->
  length (satpoint_store ((txid, vout), offset)) = 44%nat /\
  bytes (satpoint_store ((txid, vout), offset)) /\
  satpoint_load (satpoint_store ((txid, vout), offset)) = ((txid, vout), offset).
Proof.
  intros Ht Hv Ho. destruct (outpoint_roundtrip txid vout Ht Hv) as (L & B & E).
  unfold satpoint_store, satpoint_load.
  split; [rewrite app_length, le_bytes_length, L; reflexivity|].
  split; [apply bytes_app; [exact B|apply le_bytes_bytes]|].
  rewrite (firstn_app_l 36), (skipn_app_l 36) by exact L.
  now rewrite E, le8_small.
Qed.

Theorem satpoint_value_roundtrip v : length v = 44%nat -> bytes v ->
  satpoint_store (satpoint_load v) = v.
Proof.
  intros Hl Hb. unfold satpoint_store, satpoint_load.
  destruct (outpoint_load (firstn 36 v)) as [t o] eqn:E.
  assert (E' : outpoint_store (t, o) = firstn 36 v).
  { rewrite <- E. apply outpoint_value_roundtrip; [rewrite firstn_length; lia|now apply bytes_firstn]. }
  rewrite E'.
  rewrite (le_bytes_le_value' 8 (skipn 36 v)); [|rewrite skipn_length; lia|now apply bytes_skipn].
  apply firstn_skipn.
Qed.

Definition header_ok (h : header) : Prop :=
  let '(version, prev, merkle, time, bits, nonce) := h in
  version <= U32_MAX /\ txid_ok prev /\ txid_ok merkle /\ time <= U32_MAX /\ bits <= U32_MAX /\ nonce <= U32_MAX.

Theorem header_roundtrip h : header_ok h ->
  length (header_store h) = 80%nat /\ header_load (header_store h) = h.
Proof.
  destruct h as [[[[[version prev] merkle] time] bits] nonce].
  intros (Hv & [Lp Bp] & [Lm Bm] & Ht & Hb & Hn).
  unfold header_store, header_load.
  split; [rewrite !app_length, !le_bytes_length, Lp, Lm; reflexivity|].
  pose proof (le_bytes_length 4 version) as L4.
  pose proof (le_bytes_length 4 time) as L4t.
  pose proof (le_bytes_length 4 bits) as L4b.
  pose proof (le_bytes_length 4 nonce) as L4n.
  change 76%nat with (4 + (32 + (32 + (4 + 4))))%nat.
  change 72%nat with (4 + (32 + (32 + 4)))%nat.
  change 68%nat with (4 + (32 + 32))%nat.
  change 36%nat with (4 + 32)%nat.
  rewrite (firstn_app_l 4) by exact L4. rewrite (skipn_app_l 4) by exact L4.
  rewrite (firstn_app_l 32) by exact Lp.
  rewrite (skipn_app_add 4) by exact L4.
  rewrite (skipn_app_l 32) by exact Lp. rewrite (firstn_app_l 32) by exact Lm.
  rewrite (skipn_app_add 4) by exact L4. rewrite (skipn_app_add 32) by exact Lp.
  rewrite (skipn_app_l 32) by exact Lm. rewrite (firstn_app_l 4) by exact L4t.
  rewrite (skipn_app_add 4) by exact L4. rewrite (skipn_app_add 32) by exact Lp.
  rewrite (skipn_app_add 32) by exact Lm. rewrite (skipn_app_l 4) by exact L4t.
  rewrite (firstn_app_l 4) by exact L4b.
  rewrite (skipn_app_add 4) by exact L4. rewrite (skipn_app_add 32) by exact Lp.
  rewrite (skipn_app_add 32) by exact Lm. rewrite (skipn_app_add 4) by exact L4t.
  rewrite (skipn_app_l 4) by exact L4b.
  rewrite <- (app_nil_r (le_bytes 4 nonce)). rewrite (firstn_app_l 4) by exact L4n.
  now rewrite !le4_small.
Qed.

(* ---------------- entries ---------------- *)
Theorem rune_entry_roundtrip e : txid_ok (re_etching e) ->
  rune_entry_load (rune_entry_store e) = e.
Proof.
  intros H. destruct e as [b bu d et m n p r s sy t ti tu]. cbn [re_etching] in H.
  unfold rune_entry_store, rune_entry_load.
  cbn [re_block re_burned re_divisibility re_etching re_mints re_number re_premine re_rune
       re_spacers re_symbol re_terms re_timestamp re_turbo].
  rewrite (halves_roundtrip et H). destruct t; reflexivity.
Qed.

Theorem rune_entry_value_roundtrip (v : rune_entry_value) :
  let '(_, _, _, etching, _, _, _, _, _, _, _, _) := v in
  fst etching < P128 -> snd etching < P128 ->
  rune_entry_store (rune_entry_load v) = v /\ txid_ok (re_etching (rune_entry_load v)).
Proof.
  destruct v as [[[[[[[[[[[b bu] d] et] m] n] p] [r s]] sy] t] ti] tu].
  intros H1 H2. unfold rune_entry_store, rune_entry_load.
  cbn [re_block re_burned re_divisibility re_etching re_mints re_number re_premine re_rune
       re_spacers re_symbol re_terms re_timestamp re_turbo].
  rewrite (halves_roundtrip' et H1 H2). split; [destruct t; reflexivity|apply halves_ok].
Qed.

Theorem inscription_entry_roundtrip e : txid_ok (fst (ie_id e)) ->
  inscription_entry_load (inscription_entry_store e) = e.
Proof.
  intros H. destruct e as [c f h hi [txid index] n p s sq t]. cbn [ie_id fst] in H.
  unfold inscription_entry_store, inscription_entry_load.
  cbn [ie_charms ie_fee ie_height ie_hidden ie_id ie_number ie_parents ie_sat ie_sequence ie_timestamp].
  rewrite (inscription_id_roundtrip txid index H). destruct s; reflexivity.
Qed.

Theorem inscription_entry_value_roundtrip (v : inscription_entry_value) :
  let '(_, _, _, _, id, _, _, _, _, _) := v in
  let '(h, t, _) := id in
  h < P128 -> t < P128 ->
  inscription_entry_store (inscription_entry_load v) = v.
Proof.
  destruct v as [[[[[[[[[c f] h] hi] [[i0 i1] i2]] n] p] s] sq] t].
  intros H1 H2. unfold inscription_entry_store, inscription_entry_load.
  cbn [ie_charms ie_fee ie_height ie_hidden ie_id ie_number ie_parents ie_sat ie_sequence ie_timestamp].
  destruct (inscription_id_value_roundtrip i0 i1 i2 H1 H2) as [E _]. rewrite E.
  destruct s; reflexivity.
Qed.

(* ---------------- UTXO entries ---------------- *)
Definition range_ok (r : N * N) : Prop := fst r < P51 /\ fst r <= snd r /\ snd r - fst r < P37.
Definition range_bytes (r : N * N) : list N := le_bytes 11 (fst r + (snd r - fst r) * P51).
Definition ranges_raw (l : list (N * N)) : list N := flat_map range_bytes l.
Definition count {A} (l : list A) : N := N.of_nat (length l).

Lemma len_app a b : len (a ++ b) = len a + len b.
Proof. unfold len. rewrite app_length. lia. Qed.

Lemma ranges_raw_len l : len (ranges_raw l) = 11 * count l.
Proof.
  induction l as [|r l IH]; [reflexivity|].
  unfold ranges_raw. cbn [flat_map]. fold (ranges_raw l). rewrite len_app, IH.
  unfold range_bytes, len, count. rewrite le_bytes_length. cbn [length]. lia.
Qed.

Lemma ranges_raw_app a b : ranges_raw (a ++ b) = ranges_raw a ++ ranges_raw b.
Proof. apply flat_map_app. Qed.

Lemma store_ranges_ok l : Forall range_ok l -> store_ranges l = Ok (ranges_raw l).
Proof.
  induction 1 as [|[a b] l (Ha & Hab & Hd) Hl IH]; [reflexivity|]. cbn [fst snd] in *.
  cbn [store_ranges]. rewrite (sat_range_store_ok a b Ha Hab). cbn [bind]. rewrite IH. reflexivity.
Qed.

Lemma load_ranges_raw l : Forall range_ok l -> forall fuel, (length l <= fuel)%nat ->
  load_ranges fuel (ranges_raw l) = Ok l.
Proof.
  induction 1 as [|[a b] l (Ha & Hab & Hd) Hl IH]; intros fuel Hf; cbn [fst snd] in *.
  - destruct fuel; [reflexivity|]. cbn [load_ranges]. reflexivity.
  - destruct fuel as [|f]; [cbn in Hf; lia|]. cbn [load_ranges].
    unfold ranges_raw. cbn [flat_map]. fold (ranges_raw l).
    assert (L : length (range_bytes (a, b)) = 11%nat) by apply le_bytes_length.
    rewrite len_app. unfold len at 1. rewrite L.
    destruct (N.ltb_spec (N.of_nat 11 + len (ranges_raw l)) 11) as [H|_]; [lia|].
    rewrite (firstn_app_l 11) by exact L. rewrite (skipn_app_l 11) by exact L.
    unfold range_bytes at 1. cbn [fst snd]. rewrite sat_range_load_le.
    replace ((a + (b - a) * P51) mod P51) with a by (unfold P51 in *; lia).
    replace ((a + (b - a) * P51) / P51 mod P37) with (b - a) by (unfold P51, P37 in *; lia).
    replace (a + (b - a)) with b by lia.
    cbn [bind]. rewrite IH by (cbn in Hf; lia). reflexivity.
Qed.

Lemma ranges_of_raw l : Forall range_ok l -> ranges_of (ranges_raw l) = Ok l.
Proof.
  intros H. unfold ranges_of. apply load_ranges_raw; [exact H|].
  pose proof (ranges_raw_len l) as E. unfold len, count in E. lia.
Qed.

(* inscriptions *)
Definition ins_ok (p : N * N) : Prop := fst p <= U32_MAX /\ snd p <= U64_MAX.
Definition ins_bytes (p : N * N) : list N := le_bytes 4 (fst p) ++ encode (snd p).
Definition ins_raw (l : list (N * N)) : list N := flat_map ins_bytes l.

Lemma ins_raw_app a b : ins_raw (a ++ b) = ins_raw a ++ ins_raw b.
Proof. apply flat_map_app. Qed.

Lemma decode_unwrap_encode n rest : n < P128 ->
  decode_unwrap (encode n ++ rest) = Ok (n, len (encode n)).
Proof. intros H. unfold decode_unwrap. rewrite (decode_encode n rest H). reflexivity. Qed.

Lemma parse_ins_raw l : Forall ins_ok l -> forall fuel, (length l <= fuel)%nat ->
  parse_inscription_list fuel (ins_raw l) = Ok l.
Proof.
  induction 1 as [|[s o] l [Hs Ho] Hl IH]; intros fuel Hf; cbn [fst snd] in *.
  - destruct fuel; reflexivity.
  - destruct fuel as [|f]; [cbn in Hf; lia|].
    unfold ins_raw. cbn [flat_map]. fold (ins_raw l). unfold ins_bytes at 1. cbn [fst snd].
    rewrite <- app_assoc.
    assert (L : length (le_bytes 4 s) = 4%nat) by apply le_bytes_length.
    destruct (le_bytes 4 s ++ encode o ++ ins_raw l) as [|y ys] eqn:E.
    { destruct (le_bytes 4 s); [discriminate L|discriminate E]. }
    cbn [parse_inscription_list]. rewrite <- E.
    rewrite len_app. unfold len at 1. rewrite L.
    destruct (N.ltb_spec (N.of_nat 4 + len (encode o ++ ins_raw l)) 4) as [H|_]; [lia|].
    rewrite (firstn_app_l 4) by exact L. rewrite (skipn_app_l 4) by exact L.
    rewrite (le4_small s Hs).
    rewrite decode_unwrap_encode by (unfold U64_MAX, P128 in *; lia). cbn [bind].
    destruct (N.ltb_spec U64_MAX o) as [H|_]; [lia|].
    unfold len. rewrite Nat2N.id. rewrite <- L at 1. rewrite skipn_add_app, skipn_length_app.
    rewrite IH by (cbn in Hf; lia). reflexivity.
Qed.

Lemma ins_raw_length l : (length l <= length (ins_raw l))%nat.
Proof.
  induction l as [|p l IH]; [cbn; lia|].
  unfold ins_raw. cbn [flat_map]. fold (ins_raw l). unfold ins_bytes at 1.
  cbn [length]. rewrite !app_length, le_bytes_length. lia.
Qed.

(* the byte layout of an entry *)
Definition sats_part (c : cfg) (raw : list N) (value : N) : list N :=
  if index_sats c then encode (len raw / 11) ++ raw else encode value.
Definition script_part (c : cfg) (script : list N) : list N :=
  if index_addresses c then encode (len script) ++ script else [].
Definition layout (c : cfg) (raw : list N) (value : N) (script ins : list N) : list N :=
  sats_part c raw value ++ script_part c script ++ ins.

(* builder calls that only append [raw] in state Valid *)
Definition appends (c : cfg) (ops : list uop) (raw : list N) : Prop :=
  forall vec, push_all c (vec, Valid) ops = Ok (vec ++ raw, Valid).

Lemma appends_nil c : appends c [] [].
Proof. intros vec. cbn [push_all]. now rewrite app_nil_r. Qed.

Lemma appends_inscriptions c l : index_inscriptions c = true ->
  appends c (map (fun p => OpInscription (fst p) (snd p)) l) (ins_raw l).
Proof.
  intros Hc. induction l as [|[s o] l IH]; intros vec; [apply appends_nil|].
  cbn [map push_all push fst snd]. rewrite Hc. cbn [negb advance_state ustate_eqb bind].
  rewrite IH. unfold ins_raw at 2. cbn [flat_map]. fold (ins_raw l). unfold ins_bytes. cbn [fst snd].
  now rewrite <- !app_assoc.
Qed.

Lemma appends_raw2 c a b : index_inscriptions c = true ->
  appends c [OpInscriptions a; OpInscriptions b] (a ++ b).
Proof.
  intros Hc vec. cbn [push_all push]. rewrite Hc. cbn [negb advance_state ustate_eqb bind push_all push].
  rewrite ?Hc. cbn [negb advance_state ustate_eqb bind push_all].
  now rewrite <- app_assoc.
Qed.

Lemma build_layout c raw k value script ops ins :
  len raw = 11 * k -> appends c ops ins ->
  build_ops c ((if index_sats c then [OpSatRanges raw] else [OpValue value]) ++
               (if index_addresses c then [OpScript script] else []) ++ ops)
  = Ok (layout c raw value script ins).
Proof.
  intros Hk Hops. unfold build_ops, layout, sats_part, script_part, ubuf_new.
  assert (D : len raw / 11 * 11 =? len raw = true) by (rewrite Hk; lia).
  destruct (index_sats c) eqn:Es; destruct (index_addresses c) eqn:Ea;
    repeat (progress (cbn [app push_all push negb advance_state ustate_eqb bind]; rewrite ?Es, ?Ea, ?D));
    rewrite Hops; cbn [bind as_ref ustate_eqb]; rewrite <- ?app_assoc; reflexivity.
Qed.

Lemma slice_mid a m r : slice (a ++ m ++ r) (len a) (len a + len m) = Ok m.
Proof.
  unfold slice. rewrite !len_app.
  destruct (N.ltb_spec (len a + len m) (len a)) as [H|_]; [lia|].
  destruct (N.ltb_spec (len a + (len m + len r)) (len a + len m)) as [H|_]; [lia|].
  cbn [orb]. replace (len a + len m - len a) with (len m) by lia.
  unfold len. rewrite !Nat2N.id, skipn_length_app, firstn_length_app. reflexivity.
Qed.

Lemma skipn_len1 a r : skipn (N.to_nat (len a)) (a ++ r) = r.
Proof. unfold len. rewrite Nat2N.id. apply skipn_length_app. Qed.

Lemma skipn_len2 a b r : skipn (N.to_nat (len a + len b)) (a ++ b ++ r) = r.
Proof. rewrite <- len_app, app_assoc. apply skipn_len1. Qed.

Lemma parse_layout c raw k value script ins :
  len raw = 11 * k -> k <= U64_MAX ->
  (index_sats c = false -> value <= U64_MAX) -> (index_addresses c = true -> len script <= U64_MAX) ->
  parse c (layout c raw value script ins) =
    Ok {| p_ranges := if index_sats c then Some raw else None;
          p_value := if index_sats c then 0 else value;
          p_script := if index_addresses c then Some script else None;
          p_inscriptions := if index_inscriptions c then Some ins else None |}.
Proof.
  intros Hk Hku Hv Hs. unfold parse, layout, sats_part, script_part.
  assert (Ek : len raw / 11 = k) by (rewrite Hk; lia).
  assert (Pk : k < P128) by (unfold U64_MAX, P128 in *; lia).
  destruct (index_sats c) eqn:Es; destruct (index_addresses c) eqn:Ea; rewrite ?Ek;
    try (specialize (Hv eq_refl); assert (Pv : value < P128) by (unfold U64_MAX, P128 in *; lia));
    try (specialize (Hs eq_refl); assert (Ps : len script < P128) by (unfold U64_MAX, P128 in *; lia)).
  - (* sats, addresses *)
    rewrite <- !app_assoc. rewrite decode_unwrap_encode by exact Pk. cbn [bind].
    destruct (N.ltb_spec U64_MAX k) as [H|_]; [lia|].
    replace (k * 11) with (len raw) by lia. rewrite slice_mid. cbn [bind].
    rewrite skipn_len2.
    rewrite decode_unwrap_encode by exact Ps. cbn [bind].
    destruct (N.ltb_spec U64_MAX (len script)) as [H|_]; [lia|].
    replace (encode k ++ raw ++ encode (len script) ++ script ++ ins)
      with ((encode k ++ raw ++ encode (len script)) ++ script ++ ins) by (now rewrite <- !app_assoc).
    replace (len (encode k) + len raw + len (encode (len script))) with (len (encode k ++ raw ++ encode (len script)))
      by (rewrite !len_app; lia).
    rewrite slice_mid. cbn [bind].
    rewrite skipn_len2.
    reflexivity.
  - (* sats only *)
    cbn [app]. rewrite <- ?app_assoc. rewrite decode_unwrap_encode by exact Pk. cbn [bind].
    destruct (N.ltb_spec U64_MAX k) as [H|_]; [lia|].
    replace (k * 11) with (len raw) by lia. rewrite slice_mid. cbn [bind].
    rewrite skipn_len2.
    reflexivity.
  - (* value, addresses *)
    rewrite <- !app_assoc. rewrite decode_unwrap_encode by exact Pv. cbn [bind].
    destruct (N.ltb_spec U64_MAX value) as [H|_]; [lia|]. cbn [bind].
    rewrite skipn_len1.
    rewrite decode_unwrap_encode by exact Ps. cbn [bind].
    destruct (N.ltb_spec U64_MAX (len script)) as [H|_]; [lia|].
    replace (encode value ++ encode (len script) ++ script ++ ins)
      with ((encode value ++ encode (len script)) ++ script ++ ins) by (now rewrite <- !app_assoc).
    replace (len (encode value) + len (encode (len script))) with (len (encode value ++ encode (len script)))
      by (rewrite !len_app; lia).
    rewrite slice_mid. cbn [bind].
    rewrite skipn_len2.
    reflexivity.
  - (* value only *)
    cbn [app]. rewrite <- ?app_assoc. rewrite decode_unwrap_encode by exact Pv. cbn [bind].
    destruct (N.ltb_spec U64_MAX value) as [H|_]; [lia|]. cbn [bind].
    rewrite skipn_len1. reflexivity.
Qed.

Fixpoint total (l : list (N * N)) : N :=
  match l with [] => 0 | (a, b) :: r => (b - a) + total r end.

Lemma sum_ranges_total l : forall acc, acc + total l <= U64_MAX -> sum_ranges acc l = Ok (acc + total l).
Proof.
  induction l as [|[a b] l IH]; intros acc H; cbn [sum_ranges total] in *.
  - f_equal. lia.
  - destruct (N.ltb_spec U64_MAX (acc + (b - a))) as [H1|_]; [lia|].
    rewrite IH by lia. f_equal. lia.
Qed.

Lemma total_app a b : total (a ++ b) = total a + total b.
Proof. induction a as [|[x y] a IH]; cbn [app total]; [reflexivity|]. rewrite IH. lia. Qed.

(* well-formed logical content under a configuration: components that the configuration does
   not store are empty; sizes fit the machine types *)
Definition wf (c : cfg) (e : utxo) : Prop :=
  Forall range_ok (u_ranges e) /\ count (u_ranges e) <= U64_MAX /\
  (if index_sats c then u_value e = total (u_ranges e) else u_ranges e = []) /\ u_value e <= U64_MAX /\
  (if index_addresses c then len (u_script e) <= U64_MAX else u_script e = []) /\
  (if index_inscriptions c then Forall ins_ok (u_inscriptions e) else u_inscriptions e = []).

Definition entry_layout (c : cfg) (e : utxo) : list N :=
  layout c (ranges_raw (u_ranges e)) (u_value e) (u_script e)
         (if index_inscriptions c then ins_raw (u_inscriptions e) else []).

Lemma write_entry_layout c e : wf c e -> write_entry c e = Ok (entry_layout c e).
Proof.
  intros (Hr & Hc & _ & _ & _ & _). unfold write_entry, entry_layout.
  rewrite (store_ranges_ok _ Hr). cbn [bind]. unfold entry_ops.
  apply (build_layout c _ (count (u_ranges e))); [apply ranges_raw_len|].
  destruct (index_inscriptions c) eqn:Ei; [now apply appends_inscriptions|apply appends_nil].
Qed.

Lemma read_entry_layout c e : wf c e -> read_entry c (entry_layout c e) = Ok e.
Proof.
  intros (Hr & Hc & Hv & Hvu & Hs & Hi). destruct e as [l value script il]. cbn [u_ranges u_value u_script u_inscriptions] in *.
  unfold read_entry, entry_layout. cbn [u_ranges u_value u_script u_inscriptions].
  rewrite (parse_layout c _ (count l)); [|apply ranges_raw_len|exact Hc|intros _; exact Hvu|].
  2:{ intros Ea. now rewrite Ea in Hs. }
  cbn [bind]. unfold total_value. cbn [p_ranges p_value p_script p_inscriptions].
  destruct (index_sats c) eqn:Es.
  - rewrite (ranges_of_raw l Hr). cbn [bind].
    rewrite (sum_ranges_total l 0) by lia. cbn [bind]. replace (0 + total l) with value by lia.
    destruct (index_inscriptions c) eqn:Ei; destruct (index_addresses c) eqn:Ea; subst; cbn [bind];
      try (rewrite parse_ins_raw by (try exact Hi; apply ins_raw_length)); reflexivity.
  - cbn [bind]. subst l.
    destruct (index_inscriptions c) eqn:Ei; destruct (index_addresses c) eqn:Ea; subst; cbn [bind];
      try (rewrite parse_ins_raw by (try exact Hi; apply ins_raw_length)); reflexivity.
Qed.

Theorem utxo_entry_roundtrip c e : wf c e ->
  exists bs, write_entry c e = Ok bs /\ read_entry c bs = Ok e.
Proof.
  intros H. exists (entry_layout c e). split; [now apply write_entry_layout|now apply read_entry_layout].
Qed.

Lemma layout_value_irrelevant c raw v1 v2 s i : index_sats c = true -> layout c raw v1 s i = layout c raw v2 s i.
Proof. intros H. unfold layout, sats_part. now rewrite H. Qed.

Definition merged_entry (ea eb : utxo) : utxo :=
  {| u_ranges := u_ranges ea ++ u_ranges eb; u_value := u_value ea + u_value eb; u_script := [];
     u_inscriptions := u_inscriptions ea ++ u_inscriptions eb |}.

(* operands the updater merges: the lost-sats and unbound-inscriptions pseudo-outputs carry no
   script and, without the sat index, no value *)
Definition mergeable (c : cfg) (ea eb : utxo) : Prop :=
  wf c ea /\ wf c eb /\ u_script ea = [] /\ u_script eb = [] /\
  (index_sats c = false -> u_value ea = 0 /\ u_value eb = 0) /\
  u_value ea + u_value eb <= U64_MAX /\ count (u_ranges ea) + count (u_ranges eb) <= U64_MAX.

Lemma merged_wf c ea eb : mergeable c ea eb -> wf c (merged_entry ea eb).
Proof.
  intros ((Hra & Hca & Hva & Hua & Hsa & Hia) & (Hrb & Hcb & Hvb & Hub & Hsb & Hib) & Sa & Sb & Hz & Hsum & Hcnt).
  unfold wf, merged_entry. cbn [u_ranges u_value u_script u_inscriptions].
  split; [apply Forall_app; now split|].
  split; [unfold count in *; rewrite app_length; lia|].
  split.
  { destruct (index_sats c); [rewrite total_app; lia|]. now rewrite Hva, Hvb. }
  split; [exact Hsum|].
  split; [destruct (index_addresses c); [cbn; unfold U64_MAX; lia|reflexivity]|].
  destruct (index_inscriptions c); [apply Forall_app; now split|]. now rewrite Hia, Hib.
Qed.

Lemma merged_layout c ea eb : mergeable c ea eb ->
  merged c (entry_layout c ea) (entry_layout c eb) = Ok (entry_layout c (merged_entry ea eb)).
Proof.
  intros M. pose proof M as ((Hra & Hca & Hva & Hua & Hsa & Hia) & (Hrb & Hcb & Hvb & Hub & Hsb & Hib) & Sa & Sb & Hz & Hsum & Hcnt).
  unfold merged, entry_layout.
  rewrite (parse_layout c _ (count (u_ranges ea))); [|apply ranges_raw_len|exact Hca|intros _; exact Hua|].
  2:{ intros Ea. now rewrite Ea in Hsa. }
  cbn [bind].
  rewrite (parse_layout c _ (count (u_ranges eb))); [|apply ranges_raw_len|exact Hcb|intros _; exact Hub|].
  2:{ intros Ea. now rewrite Ea in Hsb. }
  cbn [bind]. unfold total_value. cbn [p_ranges p_value p_script p_inscriptions].
  unfold merged_entry. cbn [u_ranges u_value u_script u_inscriptions].
  rewrite Sa, Sb.
  pose proof (build_layout c (ranges_raw (u_ranges ea) ++ ranges_raw (u_ranges eb))
                (count (u_ranges ea) + count (u_ranges eb)) 0 []
                (if index_inscriptions c then [OpInscriptions (ins_raw (u_inscriptions ea)); OpInscriptions (ins_raw (u_inscriptions eb))] else [])
                (if index_inscriptions c then ins_raw (u_inscriptions ea) ++ ins_raw (u_inscriptions eb) else [])) as B.
  assert (HL : len (ranges_raw (u_ranges ea) ++ ranges_raw (u_ranges eb)) = 11 * (count (u_ranges ea) + count (u_ranges eb))).
  { rewrite len_app, !ranges_raw_len. lia. }
  assert (B' := B HL). clear B.
  assert (Happ : appends c
     (if index_inscriptions c then [OpInscriptions (ins_raw (u_inscriptions ea)); OpInscriptions (ins_raw (u_inscriptions eb))] else [])
     (if index_inscriptions c then ins_raw (u_inscriptions ea) ++ ins_raw (u_inscriptions eb) else [])).
  { destruct (index_inscriptions c) eqn:Ei; [now apply appends_raw2|apply appends_nil]. }
  specialize (B' Happ). clear Happ.
  rewrite ranges_raw_app, ins_raw_app.
  destruct (index_sats c) eqn:Es.
  - cbn [bind].
    replace (layout c (ranges_raw (u_ranges ea) ++ ranges_raw (u_ranges eb)) (u_value ea + u_value eb) [] 
              (if index_inscriptions c then ins_raw (u_inscriptions ea) ++ ins_raw (u_inscriptions eb) else []))
      with (layout c (ranges_raw (u_ranges ea) ++ ranges_raw (u_ranges eb)) 0 [] 
              (if index_inscriptions c then ins_raw (u_inscriptions ea) ++ ins_raw (u_inscriptions eb) else []))
      by (now apply layout_value_irrelevant).
    rewrite <- B'.
    destruct (index_addresses c) eqn:Ea; destruct (index_inscriptions c) eqn:Ei; cbn [bind is_nil negb app]; reflexivity.
  - destruct (Hz eq_refl) as [Za Zb]. rewrite Za, Zb. cbn [bind].
    change (0 =? 0) with true. cbn [negb bind]. change (0 + 0) with 0.
    rewrite <- B'.
    destruct (index_addresses c) eqn:Ea; destruct (index_inscriptions c) eqn:Ei; cbn [bind is_nil negb app]; reflexivity.
Qed.

Theorem merged_keeps_both c ea eb : mergeable c ea eb ->
  exists a b m, write_entry c ea = Ok a /\ write_entry c eb = Ok b /\ merged c a b = Ok m /\
                read_entry c m = Ok (merged_entry ea eb).
Proof.
  intros M. pose proof M as (Wa & Wb & _).
  exists (entry_layout c ea), (entry_layout c eb), (entry_layout c (merged_entry ea eb)).
  split; [now apply write_entry_layout|]. split; [now apply write_entry_layout|].
  split; [now apply merged_layout|]. apply read_entry_layout. now apply merged_wf.
Qed.

(* UtxoEntryBuf::empty is the entry with no content *)
Lemma empty_layout c : utxo_empty c = Ok (entry_layout c {| u_ranges := []; u_value := 0; u_script := []; u_inscriptions := [] |}).
Proof.
  unfold utxo_empty, entry_layout. cbn [u_ranges u_value u_script u_inscriptions].
  pose proof (build_layout c [] 0 0 [] [] [] eq_refl (appends_nil c)) as B.
  rewrite app_nil_r in B. rewrite B. unfold ranges_raw, ins_raw. cbn [flat_map].
  destruct (index_inscriptions c); reflexivity.
Qed.

(* the packing uses all 88 bits: every 11-byte value is the image of exactly the range it loads to *)
Theorem sat_range_value_roundtrip v : length v = 11%nat -> bytes v ->
  exists r, sat_range_load v = Ok r /\ range_ok r /\ sat_range_store r = Ok v.
Proof.
  intros Hl Hb.
  pose proof (le_bytes_le_value' 11 v Hl Hb) as E.
  pose proof (le_value_bound v Hb) as B. rewrite Hl in B. change (2 ^ (8 * N.of_nat 11)) with P88 in B.
  set (n := le_value v) in *.
  exists (n mod P51, n mod P51 + (n / P51) mod P37).
  split; [rewrite <- E; apply sat_range_load_le|].
  assert (H1 : n mod P51 < P51) by (unfold P51; lia).
  assert (H2 : n mod P51 + (n / P51) mod P37 - n mod P51 = (n / P51) mod P37)
    by (generalize (n mod P51), ((n / P51) mod P37); intros; lia).
  split.
  { unfold range_ok. cbn [fst snd]. rewrite H2. split; [exact H1|]. split; [generalize (n mod P51), ((n / P51) mod P37); intros; lia|unfold P37; lia]. }
  rewrite sat_range_store_ok by (try exact H1; generalize (n mod P51), ((n / P51) mod P37); intros; lia). rewrite H2.
  replace (n mod P51 + (n / P51) mod P37 * P51) with n by (unfold P51, P37, P88 in *; lia).
  now rewrite E.
Qed.
