(* C37, rune half: replaying the emitted events reproduces the model state's view. *)
From OrdV Require Import Base.Prelude Generated Index.Runes Index.Events Proofs.Runes_proofs
  Proofs.Runes_alloc Proofs.Runes_supply Proofs.Runes_shape.
Require Import ZifyBool ZifyN.

(* ================================================================== index_runes_ev projects to index_runes *)
Definition rmap {A B} (f : A -> B) (r : Res A) : Res B :=
  match r with Ok a => Ok (f a) | Err e => Err e | Panic t => Panic t end.

Lemma mint_phase_ev_fst height st un art :
  mint_phase height st un art = rmap (fun x => (fst (fst x), snd (fst x))) (mint_phase_ev height st un art).
Proof.
  unfold mint_phase, mint_phase_ev. destruct (art_mint art) as [r|]; [|reflexivity].
  destruct (mint height (s_entries st) r) as [[es [a|]]|e|t]; cbn [bind rmap]; try reflexivity.
  destruct (add_to r a un); reflexivity.
Qed.

Lemma art_phase_ev_fst height time minimum txi st tx un al :
  art_phase height time minimum txi st tx un al =
  rmap (fun x => (fst (fst (fst x)), snd (fst (fst x)), snd (fst x))) (art_phase_ev height time minimum txi st tx un al).
Proof.
  unfold art_phase, art_phase_ev. destruct (tx_art tx) as [art|]; [|reflexivity].
  rewrite mint_phase_ev_fst. destruct (mint_phase_ev height st un art) as [[[st1 un1] ev1]|e|t]; cbn [bind rmap fst snd]; try reflexivity.
  destruct (etched height txi minimum st1 tx art) as [[st2 et]|e|t]; cbn [bind]; try reflexivity.
  destruct (edict_phase (tx_outs tx) art et un1 al) as [[un2 al2]|e|t]; cbn [bind]; try reflexivity.
  destruct (create_phase time st2 (tx_id tx) art et); reflexivity.
Qed.

Lemma index_runes_ev_fst height time minimum txi u tx :
  index_runes height time minimum txi u tx = rmap fst (index_runes_ev height time minimum txi u tx).
Proof.
  unfold index_runes, index_runes_ev.
  destruct (unallocated (tx_ins tx) (s_balances (u_st u)) []) as [[bt un]|e|t]; cbn [bind rmap]; try reflexivity.
  rewrite art_phase_ev_fst.
  destruct (art_phase_ev height time minimum txi (set_balances (u_st u) bt) tx un (repeat [] (length (tx_outs tx))))
    as [[[[st1 un1] al1] ev1]|e|t]; cbn [bind rmap fst snd]; try reflexivity.
  destruct (default_phase (tx_outs tx) (tx_art tx) un1 al1) as [[al2 burned]|e|t]; cbn [bind]; try reflexivity.
  destruct (store_outputs (tx_id tx) (tx_outs tx) al2 0 (s_balances st1) burned) as [[bt2 burned2]|e|t]; cbn [bind]; try reflexivity.
  destruct (pour false burned2 (u_burned u)); reflexivity.
Qed.

Lemma index_runes_ev_ok height time minimum txi u tx u' evs :
  index_runes_ev height time minimum txi u tx = Ok (u', evs) -> index_runes height time minimum txi u tx = Ok u'.
Proof. intros H. rewrite index_runes_ev_fst, H. reflexivity. Qed.

Lemma index_txs_ev_ok height time minimum txs : forall txi u u' evs,
  index_txs_ev height time minimum txi u txs = Ok (u', evs) -> index_txs height time minimum txi u txs = Ok u'.
Proof.
  induction txs as [|tx txs IH]; intros txi u u' evs Q; cbn [index_txs_ev index_txs] in *; [ok_inj; reflexivity|].
  bind_inv Q as [u1 ev] H1. bind_inv Q as [u2 evs2] H2. ok_inj.
  rewrite (index_runes_ev_ok _ _ _ _ _ _ _ _ H1). cbn [bind]. eapply IH; exact H2.
Qed.

(* ================================================================== key-uniqueness of the working maps *)
Definition nodupk (m : bmap) : Prop := NoDup (map fst m).

Lemma alookup_none_keys r : forall m : bmap, alookup id_eqb r m = None <-> ~ In r (map fst m).
Proof.
  induction m as [|[k v] m IH]; cbn [alookup map fst In]; [tauto|].
  destruct (id_eqb r k) eqn:E.
  - apply id_eqb_eq in E. subst k. split; [discriminate|intros H; exfalso; apply H; left; reflexivity].
  - apply id_eqb_neq in E. rewrite IH. split; [intros H [H1|H1]; [congruence|contradiction]|tauto].
Qed.

Lemma keys_aupd r v : forall m : bmap,
  map fst (aupd id_eqb r v m) = match alookup id_eqb r m with Some _ => map fst m | None => map fst m ++ [r] end.
Proof.
  induction m as [|[k x] m IH]; cbn [aupd alookup map fst app]; [reflexivity|].
  destruct (id_eqb r k) eqn:E; cbn [map fst].
  - apply id_eqb_eq in E. subst k. reflexivity.
  - rewrite IH. destruct (alookup id_eqb r m); reflexivity.
Qed.

Lemma NoDup_snoc {A} (l : list A) x : NoDup l -> ~ In x l -> NoDup (l ++ [x]).
Proof.
  induction l as [|a l IH]; cbn; intros H Hn; [constructor; [intros []|constructor]|].
  inversion H; subst. constructor.
  - intros Hin. apply in_app_or in Hin. destruct Hin as [Hin|[Hin|[]]]; [contradiction|]. subst. apply Hn. left. reflexivity.
  - apply IH; [assumption|]. intros Hin. apply Hn. right. exact Hin.
Qed.

Lemma nodupk_aupd r v m : nodupk m -> nodupk (aupd id_eqb r v m).
Proof.
  unfold nodupk. intros H. rewrite keys_aupd. destruct (alookup id_eqb r m) eqn:E; [exact H|].
  apply alookup_none_keys in E. apply NoDup_snoc; assumption.
Qed.

Lemma nodupk_nil : nodupk [].
Proof. constructor. Qed.

Lemma msum_notin r : forall m : bmap, ~ In r (map fst m) -> msum r m = 0.
Proof.
  induction m as [|[k v] m IH]; cbn [map fst In msum]; [reflexivity|]. intros H.
  destruct (id_eqb r k) eqn:E; [apply id_eqb_eq in E; subst k; exfalso; apply H; left; reflexivity|].
  rewrite IH by tauto. reflexivity.
Qed.

Lemma getd_msum r : forall m, nodupk m -> getd r m = msum r m.
Proof.
  induction m as [|[k v] m IH]; intros H; [reflexivity|]. rewrite getd_cons. cbn [msum].
  inversion H; subst. destruct (id_eqb r k) eqn:E.
  - apply id_eqb_eq in E. subst k. rewrite msum_notin by assumption. lia.
  - rewrite IH by assumption. lia.
Qed.

Lemma add_to_nodupk r v m m' : add_to r v m = Ok m' -> nodupk m -> nodupk m'.
Proof. intros Q H. apply add_to_ok in Q. destruct Q as [-> _]. apply nodupk_aupd. exact H. Qed.

Lemma allocate_nodupk r un al amt o un' al' :
  allocate r un al amt o = Ok (un', al') -> Forall nodupk al -> Forall nodupk al'.
Proof.
  unfold allocate. destruct (0 <? amt); [|intros Q; ok_inj; auto].
  intros Q Hal. bind_inv Q as b Hsub. bind_inv Q as m Hadd. ok_inj.
  apply Forall_set_nth; [exact Hal|]. eapply add_to_nodupk; [exact Hadd|].
  apply Forall_nth_default; [exact nodupk_nil|exact Hal].
Qed.

Lemma split_even_nodupk r amount remainder dests : forall i un al un' al',
  split_even r un al amount remainder i dests = Ok (un', al') -> Forall nodupk al -> Forall nodupk al'.
Proof.
  induction dests as [|o ds IH]; intros i un al un' al' Q Hal; cbn [split_even] in Q; [ok_inj; auto|].
  bind_inv Q as a Ha. bind_inv Q as [un1 al1] H1. eapply IH; [exact Q|]. eapply allocate_nodupk; eassumption.
Qed.

Lemma split_fixed_nodupk r amount dests : forall un al un' al',
  split_fixed r un al amount dests = Ok (un', al') -> Forall nodupk al -> Forall nodupk al'.
Proof.
  induction dests as [|o ds IH]; intros un al un' al' Q Hal; cbn [split_fixed] in Q; [ok_inj; auto|].
  bind_inv Q as [un1 al1] H1. eapply IH; [exact Q|]. eapply allocate_nodupk; eassumption.
Qed.

Lemma apply_edict_nodupk outs etched_id un al e un' al' :
  apply_edict outs etched_id un al e = Ok (un', al') -> Forall nodupk al -> Forall nodupk al'.
Proof.
  unfold apply_edict. intros Q Hal.
  destruct (_ <? ed_output e); [discriminate|].
  destruct (if id_eqb (ed_id e) (0, 0) then etched_id else Some (ed_id e)) as [r|]; [|ok_inj; auto].
  destruct (alookup id_eqb r un) as [balance|]; [|ok_inj; auto].
  destruct (ed_output e =? _).
  - destruct (destinations outs 0) as [|d ds]; [ok_inj; auto|].
    destruct (ed_amount e =? 0); [eapply split_even_nodupk|eapply split_fixed_nodupk]; eassumption.
  - eapply allocate_nodupk; eassumption.
Qed.

Lemma apply_edicts_nodupk outs etched_id es : forall un al un' al',
  apply_edicts outs etched_id un al es = Ok (un', al') -> Forall nodupk al -> Forall nodupk al'.
Proof.
  induction es as [|e es IH]; intros un al un' al' Q Hal; cbn [apply_edicts] in Q; [ok_inj; auto|].
  bind_inv Q as [un1 al1] H1. eapply IH; [exact Q|]. eapply apply_edict_nodupk; eassumption.
Qed.

Lemma pour_nodupk nz m : forall acc acc', pour nz m acc = Ok acc' -> nodupk acc -> nodupk acc'.
Proof.
  induction m as [|[k v] m IH]; intros acc acc' Q H; cbn [pour] in Q; [ok_inj; auto|].
  destruct (nz && (v =? 0)); [eapply IH; eassumption|].
  bind_inv Q as acc1 H1. eapply IH; [exact Q|]. eapply add_to_nodupk; eassumption.
Qed.

Lemma default_phase_nodupk outs art un al al' burned :
  default_phase outs art un al = Ok (al', burned) -> Forall nodupk al -> Forall nodupk al' /\ nodupk burned.
Proof.
  intros Q Hal. unfold default_phase in Q.
  assert (Hgen : forall (vr : Res (option N)),
    (do vout <- vr;
     match vout with
     | Some v => do m <- pour true un (nth (N.to_nat v) al []); Ok (set_nth (N.to_nat v) m al, [])
     | None => do b <- pour true un []; Ok (al, b) end) = Ok (al', burned) -> Forall nodupk al' /\ nodupk burned).
  { intros vr Q'. bind_inv Q' as vout Hv. destruct vout as [v|].
    - bind_inv Q' as m Hm. ok_inj. split; [|exact nodupk_nil]. apply Forall_set_nth; [exact Hal|].
      eapply pour_nodupk; [exact Hm|]. apply Forall_nth_default; [exact nodupk_nil|exact Hal].
    - bind_inv Q' as b Hm. ok_inj. split; [exact Hal|]. eapply pour_nodupk; [exact Hm|exact nodupk_nil]. }
  destruct art as [[eds et m p|et m]|].
  - eapply Hgen; exact Q.
  - bind_inv Q as b Hm. ok_inj. split; [exact Hal|]. eapply pour_nodupk; [exact Hm|exact nodupk_nil].
  - eapply Hgen; exact Q.
Qed.

Lemma store_outputs_burned_nodupk txid : forall outs al vout bt burned bt' burned',
  store_outputs txid outs al vout bt burned = Ok (bt', burned') -> nodupk burned -> nodupk burned'.
Proof.
  induction outs as [|opret outs IH]; intros al vout bt burned bt' burned' Q H;
    destruct al as [|m al]; cbn [store_outputs] in Q; try (ok_inj; exact H).
  destruct m as [|kv m]; [eapply IH; eassumption|]. destruct opret.
  - bind_inv Q as b1 Hp. eapply IH; [exact Q|]. eapply pour_nodupk; eassumption.
  - eapply IH; eassumption.
Qed.

(* ================================================================== replay, component-wise *)
Definition ids_step (x : list (id * N)) (e : event) := match e with EvEtched r t => aupd id_eqb r t x | _ => x end.
Definition mints_step (x : bmap) (e : event) := match e with EvMinted r _ => credit r 1 x | _ => x end.
Definition burned_step (x : bmap) (e : event) := match e with EvBurned r a => credit r a x | _ => x end.
Definition bal_step (x : btable) (e : event) :=
  match e with EvTransferred t o r a => aupd op_eqb (t, o) (credit r a (lookupd (t, o) x)) x | _ => x end.

Lemma replay_components evs : forall v,
  fold_left replay_event evs v =
  mkView (fold_left ids_step evs (v_ids v)) (fold_left mints_step evs (v_mints v))
         (fold_left burned_step evs (v_burned v)) (fold_left bal_step evs (v_bal v)).
Proof.
  induction evs as [|e evs IH]; intros v; cbn [fold_left]; [destruct v; reflexivity|].
  rewrite IH. destruct e; reflexivity.
Qed.

Definition is_transfer (e : event) := match e with EvTransferred _ _ _ _ => True | _ => False end.
Definition is_burned (e : event) := match e with EvBurned _ _ => True | _ => False end.

Lemma fold_id {A} (f : A -> event -> A) (P : event -> Prop) evs :
  Forall P evs -> (forall x e, P e -> f x e = x) -> forall x, fold_left f evs x = x.
Proof. intros HF Hid. induction HF as [|e evs He _ IH]; intros x; cbn [fold_left]; [reflexivity|]. rewrite Hid by exact He. apply IH. Qed.

Lemma transfer_events_all txid : forall outs al vout, Forall is_transfer (transfer_events txid outs al vout).
Proof.
  induction outs as [|o outs IH]; intros al vout; destruct al as [|m al]; cbn [transfer_events]; try constructor.
  apply Forall_app. split; [|apply IH]. destruct o; [constructor|]. apply Forall_forall. intros e He.
  apply in_map_iff in He. destruct He as [x [<- _]]. exact I.
Qed.

Lemma burned_events_all b : Forall is_burned (burned_events b).
Proof. unfold burned_events. apply Forall_forall. intros e He. apply in_map_iff in He. destruct He as [x [<- _]]. exact I. Qed.

(* ---------- sums under sorting and crediting ---------- *)
Lemma msum_sinsert r x : forall l, msum r (sinsert by_id x l) = msum r [x] + msum r l.
Proof.
  induction l as [|y l IH]; cbn [sinsert]; [destruct x; cbn [msum]; lia|]. destruct (by_id y x); [|destruct x, y; cbn [msum]; lia].
  destruct x as [kx vx], y as [ky vy]. cbn [msum] in *. rewrite IH. cbn [msum]. lia.
Qed.
Lemma msum_isort r : forall m, msum r (isort by_id m) = msum r m.
Proof.
  induction m as [|x m IH]; [reflexivity|]. unfold isort in *. cbn [fold_right]. rewrite msum_sinsert, IH.
  destruct x as [k v]. cbn [msum]. lia.
Qed.

Definition credits (l : bmap) (m0 : bmap) : bmap := fold_left (fun m x => credit (fst x) (snd x) m) l m0.

Lemma getd_credit r r' a m : getd r' (credit r a m) = getd r' m + (if id_eqb r' r then a else 0).
Proof.
  unfold credit. rewrite getd_aupd. destruct (id_eqb r' r) eqn:E; [apply id_eqb_eq in E; subst; lia|lia].
Qed.

Lemma getd_credits r : forall l m0, getd r (credits l m0) = getd r m0 + msum r l.
Proof.
  induction l as [|[k v] l IH]; intros m0; cbn [credits fold_left msum fst snd]; [lia|].
  fold (credits l (credit k v m0)). rewrite IH, getd_credit. lia.
Qed.

Lemma burned_step_events b : forall x r,
  getd r (fold_left burned_step (burned_events b) x) = getd r x + msum r b.
Proof.
  unfold burned_events. intros x r. rewrite <- (msum_isort r b). generalize (isort by_id b) as l. clear b.
  intros l. revert x. induction l as [|[k v] l IH]; intros x; cbn [map fold_left burned_step fst snd msum]; [lia|].
  rewrite IH, getd_credit. lia.
Qed.

(* ---------- balance tables: positional relation between the replayed table and the state's ---------- *)
Definition ext_eq (a b : bmap) : Prop := forall r, getd r a = getd r b.
Definition bal_rel (vb bt : btable) : Prop :=
  Forall2 (fun x y => fst x = fst y /\ ext_eq (snd x) (snd y)) vb bt.

Lemma bal_rel_lookup k : forall vb bt, bal_rel vb bt ->
  match alookup op_eqb k vb, alookup op_eqb k bt with
  | Some a, Some b => ext_eq a b
  | None, None => True
  | _, _ => False
  end.
Proof.
  intros vb bt H. induction H as [|[k1 a] [k2 b] vb bt [Hk He] _ IH]; cbn [alookup]; [exact I|].
  cbn [fst snd] in Hk, He. subst k2. destruct (op_eqb k k1); [exact He|exact IH].
Qed.

Lemma bal_rel_aremove k : forall vb bt, bal_rel vb bt -> bal_rel (aremove op_eqb k vb) (aremove op_eqb k bt).
Proof.
  intros vb bt H. induction H as [|[k1 a] [k2 b] vb bt [Hk He] Hr IH]; cbn [aremove]; [constructor|].
  cbn [fst snd] in Hk, He. subst k2. destruct (op_eqb k k1); [exact Hr|]. constructor; [split; [reflexivity|exact He]|exact IH].
Qed.

Lemma bal_rel_aupd k a b : forall vb bt, bal_rel vb bt -> ext_eq a b -> bal_rel (aupd op_eqb k a vb) (aupd op_eqb k b bt).
Proof.
  intros vb bt H Hab. induction H as [|[k1 a1] [k2 b1] vb bt [Hk He] Hr IH]; cbn [aupd].
  - constructor; [split; [reflexivity|exact Hab]|constructor].
  - cbn [fst snd] in Hk, He. subst k2. destruct (op_eqb k k1).
    + constructor; [split; [reflexivity|exact Hab]|exact Hr].
    + constructor; [split; [reflexivity|exact He]|exact IH].
Qed.

Lemma aremove_absent {V} (k : outpoint) : forall (l : list (outpoint * V)), alookup op_eqb k l = None -> aremove op_eqb k l = l.
Proof.
  induction l as [|[k1 v1] l IH]; cbn [alookup aremove]; [reflexivity|].
  destruct (op_eqb k k1); [discriminate|]. intros H. rewrite IH by exact H. reflexivity.
Qed.

Lemma unallocated_drop ins : forall bt un bt' un',
  unallocated ins bt un = Ok (bt', un') -> bt' = drop_inputs ins bt.
Proof.
  induction ins as [|i ins IH]; intros bt un bt' un' Q; cbn [unallocated drop_inputs fold_left] in *; [ok_inj; reflexivity|].
  destruct (alookup op_eqb (in_txid i, in_vout i) bt) as [l|] eqn:El.
  - bind_inv Q as un1 H1. apply IH in Q. exact Q.
  - rewrite (aremove_absent _ _ El). apply IH in Q. exact Q.
Qed.

Lemma bal_rel_drop ins : forall vb bt, bal_rel vb bt -> bal_rel (drop_inputs ins vb) (drop_inputs ins bt).
Proof.
  induction ins as [|i ins IH]; intros vb bt H; cbn [drop_inputs fold_left]; [exact H|].
  apply IH. apply bal_rel_aremove. exact H.
Qed.

Lemma aupd_aupd {V} (k : outpoint) (x y : V) : forall l, aupd op_eqb k x (aupd op_eqb k y l) = aupd op_eqb k x l.
Proof.
  induction l as [|[k1 v1] l IH]; cbn [aupd].
  - rewrite (proj2 (op_eqb_eq k k) eq_refl). reflexivity.
  - destruct (op_eqb k k1) eqn:E; cbn [aupd].
    + rewrite (proj2 (op_eqb_eq k k) eq_refl). reflexivity.
    + rewrite E, IH. reflexivity.
Qed.

Lemma lookupd_aupd k y bt : lookupd k (aupd op_eqb k y bt) = y.
Proof. unfold lookupd. rewrite (alookup_aupd op_eqb op_eqb_eq), (proj2 (op_eqb_eq k k) eq_refl). reflexivity. Qed.

(* the transfer events of one output *)
Lemma bal_step_output t o : forall l vb,
  fold_left bal_step (map (fun x => EvTransferred t o (fst x) (snd x)) l) vb =
  match l with [] => vb | _ :: _ => aupd op_eqb (t, o) (credits l (lookupd (t, o) vb)) vb end.
Proof.
  induction l as [|[k v] l IH]; intros vb; [reflexivity|].
  cbn [map fold_left bal_step fst snd]. rewrite IH. destruct l as [|y l]; [reflexivity|].
  rewrite lookupd_aupd, aupd_aupd. reflexivity.
Qed.

Lemma isort_nil_iff (m : bmap) : isort by_id m = [] -> m = [].
Proof. destruct m as [|x m]; [reflexivity|]. unfold isort. cbn [fold_right]. destruct (fold_right (sinsert by_id) [] m); cbn; [discriminate|]. destruct (by_id p x); discriminate. Qed.

(* storing the outputs vs replaying their transfer events *)
Lemma store_outputs_replay txid : forall outs al vout bt burned bt' burned' vb,
  store_outputs txid outs al vout bt burned = Ok (bt', burned') ->
  Forall nodupk al -> bal_rel vb bt ->
  (forall v, vout <= v -> alookup op_eqb (txid, v) bt = None) ->
  bal_rel (fold_left bal_step (transfer_events txid outs al vout) vb) bt'.
Proof.
  induction outs as [|opret outs IH]; intros al vout bt burned bt' burned' vb Q Hal Hrel Hf;
    destruct al as [|m al]; cbn [store_outputs transfer_events] in *; try (ok_inj; exact Hrel).
  assert (Hal' : Forall nodupk al) by (inversion Hal; assumption).
  assert (Hm : nodupk m) by (inversion Hal; assumption).
  rewrite fold_left_app.
  assert (Hf' : forall bt1, (forall k, op_eqb k (txid, vout) = false -> alookup op_eqb k bt1 = alookup op_eqb k bt) ->
                forall v, vout + 1 <= v -> alookup op_eqb (txid, v) bt1 = None).
  { intros bt1 Hsame v Hv. rewrite Hsame; [apply Hf; lia|].
    destruct (op_eqb (txid, v) (txid, vout)) eqn:E; [|reflexivity].
    apply op_eqb_eq in E. injection E as E. lia. }
  destruct m as [|kv m].
  - replace (fold_left bal_step (if opret then [] else map _ (isort by_id [])) vb) with vb by (destruct opret; reflexivity).
    eapply IH; [exact Q|exact Hal'|exact Hrel|apply Hf'; auto].
  - destruct opret.
    + bind_inv Q as b1 Hp. cbn [fold_left]. eapply IH; [exact Q|exact Hal'|exact Hrel|apply Hf'; auto].
    + rewrite bal_step_output.
      destruct (isort by_id (kv :: m)) as [|y l] eqn:Es; [apply isort_nil_iff in Es; discriminate|].
      eapply IH; [exact Q|exact Hal'| |].
      * apply bal_rel_aupd; [exact Hrel|]. intros r. rewrite getd_credits.
        pose proof (bal_rel_lookup (txid, vout) _ _ Hrel) as Hl. rewrite (Hf vout ltac:(lia)) in Hl.
        unfold lookupd. destruct (alookup op_eqb (txid, vout) vb); [contradiction|].
        rewrite <- Es, msum_isort, (getd_msum r _ Hm). unfold getd; cbn. lia.
      * apply Hf'. intros k Hk. rewrite (alookup_aupd op_eqb op_eqb_eq), Hk. reflexivity.
Qed.

(* ================================================================== the view of a state *)
Definition mints_of (r : id) (es : etable) : N :=
  match alookup id_eqb r es with Some e => e_mints e | None => 0 end.
Definition etching_of (r : id) (es : etable) : option N :=
  match alookup id_eqb r es with Some e => Some (e_etching e) | None => None end.

(* inside a block: burned totals include the block's pending burned map *)
Record view_rel (v : view) (u : upd) : Prop := mkViewRel {
  vr_ids : forall r, alookup id_eqb r (v_ids v) = etching_of r (s_entries (u_st u));
  vr_mints : forall r, getd r (v_mints v) = mints_of r (s_entries (u_st u));
  vr_burned : forall r, getd r (v_burned v) = eburned r (s_entries (u_st u)) + msum r (u_burned u);
  vr_bal : bal_rel (v_bal v) (s_balances (u_st u)) }.

(* at block boundaries *)
Definition view_ok (v : view) (st : state) : Prop := view_rel v (mkUpd st []).

(* what the artifact phase does to entries, with the events it emits *)
Lemma art_phase_ev_spec height time minimum txi st tx un al st' un' al' evs :
  art_phase_ev height time minimum txi st tx un al = Ok (st', un', al', evs) ->
  exists es1 ev1 ev2, evs = ev1 ++ ev2 /\
    ((ev1 = [] /\ es1 = s_entries st) \/
     (exists r a e, ev1 = [EvMinted r a] /\ alookup id_eqb r (s_entries st) = Some e /\
                    es1 = aupd id_eqb r (set_mints e (e_mints e + 1)) (s_entries st))) /\
    ((ev2 = [] /\ s_entries st' = es1) \/
     (exists art rune, ev2 = [EvEtched (height, txi) (tx_id tx)] /\
        s_entries st' = aupd id_eqb (height, txi) (new_entry art (tx_id tx) (height, txi) rune (s_runes st) time) es1)).
Proof.
  unfold art_phase_ev. destruct (tx_art tx) as [art|].
  2:{ intros Q; ok_inj. exists (s_entries st'), [], []. split; [reflexivity|]. split; left; auto. }
  intros Q. bind_inv Q as [[st1 un1] ev1] Hmint. bind_inv Q as [st2 et] Het. bind_inv Q as [un2 al2] Hed.
  bind_inv Q as st3 Hcr. ok_inj.
  exists (s_entries st1), ev1, (etched_event (tx_id tx) et). split; [reflexivity|].
  pose proof (etched_frame _ _ _ _ _ _ _ _ Het) as [E1 [_ [_ [_ E5]]]].
  split.
  - unfold mint_phase_ev in Hmint. destruct (art_mint art) as [r|]; [|ok_inj; left; auto].
    bind_inv Hmint as [es am] Hm. apply mint_spec in Hm.
    destruct (alookup id_eqb r (s_entries st)) as [e|] eqn:El.
    + destruct (mintable e height) as [err|a0]; destruct Hm as [-> ->].
      * ok_inj. left. auto.
      * bind_inv Hmint as un3 Hadd. ok_inj. right. exists r, a0, e. auto.
    + destruct Hm as [-> ->]. ok_inj. left. auto.
  - unfold create_phase in Hcr. destruct et as [[r rune]|]; cbn [etched_event].
    + assert (r = (height, txi)) as -> by (eapply etched_id; exact Het).
      unfold create_rune_entry in Hcr. destruct (_ <=? _); [|discriminate]. ok_inj. cbn [s_entries].
      right. exists art, rune. rewrite E1, E5. split; [reflexivity|].
      assert (F4 : s_runes st1 = s_runes st).
      { unfold mint_phase_ev in Hmint. destruct (art_mint art) as [r|]; [|ok_inj; reflexivity].
        bind_inv Hmint as [es am] Hm. destruct am; [bind_inv Hmint as un3 Hadd|]; ok_inj; reflexivity. }
      rewrite F4. reflexivity.
    + ok_inj. left. rewrite E1. auto.
Qed.

(* ---------- one transaction ---------- *)
Lemma index_runes_ev_replay height time minimum txi u tx u' evs v :
  index_runes_ev height time minimum txi u tx = Ok (u', evs) ->
  ~ has_entry (height, txi) (s_entries (u_st u)) ->
  (forall o, alookup op_eqb (tx_id tx, o) (s_balances (u_st u)) = None) ->
  view_rel v u -> view_rel (replay_tx v tx evs) u'.
Proof.
  intros Q Hfresh Htx [R1 R2 R3 R4]. unfold index_runes_ev in Q.
  bind_inv Q as [bt un] Hun. bind_inv Q as [[[st1 un1] al1] ev1] Hart. bind_inv Q as [al2 burned] Hdef.
  bind_inv Q as [bt2 burned2] Hst. bind_inv Q as ub Hp. ok_inj.
  unfold replay_tx. rewrite replay_components. cbn [v_ids v_mints v_burned v_bal].
  (* facts about the phases *)
  pose proof Hart as Hart0.
  apply art_phase_ev_spec in Hart. destruct Hart as [es1 [e1 [e2 [-> [Hm Hc]]]]].
  cbn [set_balances s_entries s_runes] in Hm, Hc.
  assert (Hart1 : art_phase height time minimum txi (set_balances (u_st u) bt) tx un (repeat [] (length (tx_outs tx))) = Ok (st1, un1, al1))
    by (rewrite art_phase_ev_fst, Hart0; reflexivity).
  assert (B1 : s_balances st1 = bt).
  { pose proof (art_phase_conserve _ _ _ _ _ _ _ _ _ _ _ (0, 0) Hart1 (repeat_length _ _) Hfresh) as [_ [_ [B _]]]. exact B. }
  assert (N1 : Forall nodupk al1).
  { unfold art_phase in Hart1. destruct (tx_art tx) as [art|].
    - bind_inv Hart1 as [sa ua] Ha. bind_inv Hart1 as [sb et] Hb. bind_inv Hart1 as [uc alc] Hcx. bind_inv Hart1 as sd Hd. ok_inj.
      assert (N0 : Forall nodupk (repeat [] (length (tx_outs tx)))) by (clear; induction (length (tx_outs tx)); cbn; constructor; [exact nodupk_nil|assumption]).
      unfold edict_phase in Hcx. destruct art as [eds etching m p|c m]; [|ok_inj; exact N0].
      bind_inv Hcx as u3 Hpre. eapply apply_edicts_nodupk; eassumption.
    - ok_inj. clear. induction (length (tx_outs tx)); cbn; constructor; [exact nodupk_nil|assumption]. }
  pose proof (default_phase_nodupk _ _ _ _ _ _ Hdef N1) as [N2 N3].
  pose proof (unallocated_drop _ _ _ _ _ Hun) as Hbt.
  rewrite !fold_left_app.
  pose proof (transfer_events_all (tx_id tx) (tx_outs tx) al2 0) as TA.
  pose proof (burned_events_all burned2) as BA.
  assert (Hmb1 : Forall (fun e => ~ is_transfer e /\ ~ is_burned e) e1).
  { destruct Hm as [[-> _]|[rr [aa [ee [-> _]]]]]; repeat constructor; cbn; tauto. }
  assert (Hmb2 : Forall (fun e => ~ is_transfer e /\ ~ is_burned e) e2).
  { destruct Hc as [[-> _]|[art [rune [-> _]]]]; repeat constructor; cbn; tauto. }
  constructor; cbn [v_ids v_mints v_burned v_bal u_st u_burned set_balances s_entries s_balances].
  - (* ids *)
    intros r.
    rewrite (fold_id ids_step is_burned _ BA) by (intros x [] H; cbn in H; try contradiction; reflexivity).
    rewrite (fold_id ids_step is_transfer _ TA) by (intros x [] H; cbn in H; try contradiction; reflexivity).
    assert (E1 : forall x, fold_left ids_step e1 x = x).
    { destruct Hm as [[-> _]|[r0 [aa [ee [-> _]]]]]; reflexivity. }
    rewrite E1.
    assert (Hes1 : forall r, etching_of r es1 = etching_of r (s_entries (u_st u))).
    { intros r'. destruct Hm as [[_ ->]|[r0 [aa [ee [_ [El ->]]]]]]; [reflexivity|].
      unfold etching_of. rewrite (alookup_aupd id_eqb id_eqb_eq). destruct (id_eqb r' r0) eqn:E; [|reflexivity].
      apply id_eqb_eq in E. subst r0. rewrite El. reflexivity. }
    destruct Hc as [[-> ->]|[art [rune [-> ->]]]]; cbn [fold_left ids_step].
    + rewrite R1, Hes1. reflexivity.
    + unfold etching_of at 1. rewrite !(alookup_aupd id_eqb id_eqb_eq). destruct (id_eqb r (height, txi)).
      * destruct art as [eds [etc|] m p|c m]; reflexivity.
      * rewrite R1. fold (etching_of r es1). rewrite Hes1. reflexivity.
  - (* mints *)
    intros r.
    rewrite (fold_id mints_step is_burned _ BA) by (intros x [] H; cbn in H; try contradiction; reflexivity).
    rewrite (fold_id mints_step is_transfer _ TA) by (intros x [] H; cbn in H; try contradiction; reflexivity).
    assert (E2 : forall x, fold_left mints_step e2 x = x).
    { destruct Hc as [[-> _]|[art [rune [-> _]]]]; reflexivity. }
    rewrite E2.
    assert (Hm1 : getd r (fold_left mints_step e1 (v_mints v)) = mints_of r es1).
    { destruct Hm as [[-> ->]|[r0 [aa [ee [-> [El ->]]]]]]; cbn [fold_left mints_step]; [apply R2|].
      rewrite getd_credit, R2. unfold mints_of. rewrite (alookup_aupd id_eqb id_eqb_eq).
      destruct (id_eqb r r0) eqn:E; [|lia]. apply id_eqb_eq in E. subst r0. rewrite El. reflexivity. }
    rewrite Hm1. destruct Hc as [[_ ->]|[art [rune [_ ->]]]]; [reflexivity|].
    unfold mints_of at 2. rewrite (alookup_aupd id_eqb id_eqb_eq). destruct (id_eqb r (height, txi)) eqn:E; [|reflexivity].
    apply id_eqb_eq in E. subst r.
    assert (X : mints_of (height, txi) es1 = 0).
    { unfold mints_of. destruct (alookup id_eqb (height, txi) es1) eqn:X; [|reflexivity]. exfalso. apply Hfresh.
      destruct Hm as [[_ ->]|[r0 [aa [ee [_ [El ->]]]]]]; [unfold has_entry; rewrite X; discriminate|].
      rewrite (alookup_aupd id_eqb id_eqb_eq) in X. destruct (id_eqb (height, txi) r0) eqn:E.
      - apply id_eqb_eq in E. subst r0. unfold has_entry. rewrite El. discriminate.
      - unfold has_entry. rewrite X. discriminate. }
    rewrite X. destruct art as [eds [etc|] m p|c m]; reflexivity.
  - (* burned *)
    intros r. rewrite burned_step_events.
    rewrite (fold_id burned_step is_transfer _ TA) by (intros x [] H; cbn in H; try contradiction; reflexivity).
    rewrite (fold_id burned_step (fun e => ~ is_transfer e /\ ~ is_burned e) _ Hmb2) by (intros x [] [H1 H2]; cbn in *; try tauto; reflexivity).
    rewrite (fold_id burned_step (fun e => ~ is_transfer e /\ ~ is_burned e) _ Hmb1) by (intros x [] [H1 H2]; cbn in *; try tauto; reflexivity).
    rewrite R3, (pour_msum r _ _ _ _ Hp).
    pose proof (art_phase_conserve _ _ _ _ _ _ _ _ _ _ _ r Hart1 (repeat_length _ _) Hfresh) as [_ [_ [_ [EB _]]]].
    cbn [set_balances s_entries] in EB. rewrite EB. lia.
  - (* balances *)
    rewrite (fold_id bal_step is_burned _ BA) by (intros x [] H; cbn in H; try contradiction; reflexivity).
    rewrite (fold_id bal_step (fun e => ~ is_transfer e /\ ~ is_burned e) _ Hmb2) by (intros x [] [H1 H2]; cbn in *; try tauto; reflexivity).
    rewrite (fold_id bal_step (fun e => ~ is_transfer e /\ ~ is_burned e) _ Hmb1) by (intros x [] [H1 H2]; cbn in *; try tauto; reflexivity).
    eapply store_outputs_replay; [exact Hst|exact N2| |].
    + rewrite B1, Hbt. apply bal_rel_drop. exact R4.
    + intros o _. rewrite B1. eapply unallocated_none; [exact Hun|apply Htx].
Qed.

(* ================================================================== blocks and chains *)
Lemma index_txs_ev_fst height time minimum txs : forall txi u,
  index_txs height time minimum txi u txs = rmap fst (index_txs_ev height time minimum txi u txs).
Proof.
  induction txs as [|tx txs IH]; intros txi u; cbn [index_txs index_txs_ev]; [reflexivity|].
  rewrite index_runes_ev_fst. destruct (index_runes_ev height time minimum txi u tx) as [[u1 ev]|e|t]; cbn [bind rmap fst]; try reflexivity.
  rewrite IH. destruct (index_txs_ev height time minimum (txi + 1) u1 txs) as [[u2 evs]|e|t]; reflexivity.
Qed.

Lemma index_block_ev_fst first height st b :
  index_block first height st b = rmap fst (index_block_ev first height st b).
Proof.
  unfold index_block, index_block_ev. destruct (height <? first); [reflexivity|].
  rewrite index_txs_ev_fst. destruct (index_txs_ev _ _ _ _ _ _) as [[u evs]|e|t]; cbn [bind rmap fst]; try reflexivity.
  destruct (update_burned (u_burned u) (s_entries (u_st u))); reflexivity.
Qed.

(* the states of the event-emitting run are the states of the plain run *)
Lemma index_chain_ev_fst first bs : forall height st,
  index_chain first height st bs = rmap (map fst) (index_chain_ev first height st bs).
Proof.
  induction bs as [|b bs IH]; intros height st; cbn [index_chain index_chain_ev]; [reflexivity|].
  rewrite index_block_ev_fst. destruct (index_block_ev first height st b) as [[st1 evs]|e|t]; cbn [bind rmap fst]; try reflexivity.
  rewrite IH. destruct (index_chain_ev first (height + 1) st1 bs); reflexivity.
Qed.

Lemma index_txs_ev_replay height time minimum later txs : forall txi u u' evs v,
  index_txs_ev height time minimum txi u txs = Ok (u', evs) ->
  NoDup (map tx_id txs ++ later) ->
  fresh_txids (map tx_id txs ++ later) (s_balances (u_st u)) ->
  ids_before height txi (s_entries (u_st u)) -> view_rel v u ->
  view_rel (replay_txs v txs evs) u' /\ fresh_txids later (s_balances (u_st u')) /\
  exists txi', ids_before height txi' (s_entries (u_st u')).
Proof.
  induction txs as [|tx txs IH]; intros txi u u' evs v Q Hnd Hfr Hid Hv; cbn [index_txs_ev] in Q.
  - ok_inj. cbn [replay_txs]. split; [exact Hv|]. split; [exact Hfr|]. exists txi. exact Hid.
  - bind_inv Q as [u1 ev] H1. bind_inv Q as [u2 evs2] H2. ok_inj. cbn [map app] in Hnd, Hfr. cbn [replay_txs].
    assert (Hfresh : ~ has_entry (height, txi) (s_entries (u_st u))).
    { intros H. apply Hid in H. cbn in H. lia. }
    assert (Htx : forall o, alookup op_eqb (tx_id tx, o) (s_balances (u_st u)) = None).
    { intros o. apply Hfr. left. reflexivity. }
    pose proof (index_runes_ev_ok _ _ _ _ _ _ _ _ H1) as H1'.
    apply (IH (txi + 1) u1 u' evs2 (replay_tx v tx ev) H2).
    + inversion Hnd; assumption.
    + intros t o Ht.
      destruct (alookup op_eqb (t, o) (s_balances (u_st u1))) eqn:X; [|reflexivity]. exfalso.
      pose proof (index_runes_conserves _ _ _ _ _ _ _ (0, 0) H1' Hfresh Htx) as [_ [_ [_ [_ K]]]].
      destruct (K (t, o)) as [K1|K1]; [rewrite X; discriminate| |].
      * apply K1. apply Hfr. right. exact Ht.
      * cbn in K1. subst t. inversion Hnd. contradiction.
    + intros r Hr.
      pose proof (index_runes_conserves _ _ _ _ _ _ _ r H1' Hfresh Htx) as [_ [_ [K _]]].
      destruct (K Hr) as [K1|K1].
      * apply Hid in K1. lia.
      * subst r. cbn. lia.
    + eapply index_runes_ev_replay; eassumption.
Qed.

Lemma update_burned_fields bl : forall es es' r,
  update_burned bl es = Ok es' -> etching_of r es' = etching_of r es /\ mints_of r es' = mints_of r es.
Proof.
  induction bl as [|[r0 b] bl IH]; intros es es' r Q; cbn [update_burned] in Q; [ok_inj; auto|].
  destruct (alookup id_eqb r0 es) as [e|] eqn:El; [|discriminate].
  destruct (_ <=? _); [|discriminate].
  apply (IH _ _ r) in Q. destruct Q as [Q1 Q2]. rewrite Q1, Q2. unfold etching_of, mints_of.
  rewrite (alookup_aupd id_eqb id_eqb_eq). destruct (id_eqb r r0) eqn:E; [|auto].
  apply id_eqb_eq in E. subst r0. rewrite El. auto.
Qed.

Lemma index_block_ev_replay first height st b st' evs later v :
  index_block_ev first height st b = Ok (st', evs) ->
  NoDup (map tx_id (b_txs b) ++ later) ->
  fresh_txids (map tx_id (b_txs b) ++ later) (s_balances st) ->
  (forall r, has_entry r (s_entries st) -> fst r < height) -> view_ok v st ->
  view_ok (replay_block first height v b evs) st' /\ fresh_txids later (s_balances st') /\
  (forall r, has_entry r (s_entries st') -> fst r < height + 1).
Proof.
  unfold index_block_ev, replay_block. intros Q Hnd Hfr Hid Hv. destruct (height <? first).
  - ok_inj. split; [exact Hv|]. split.
    + intros t o Ht. apply Hfr. apply in_or_app. right. exact Ht.
    + intros r Hr. apply Hid in Hr. lia.
  - bind_inv Q as [u1 evs1] Htx. bind_inv Q as es1 Hup. ok_inj.
    apply (index_txs_ev_replay _ _ _ later _ _ _ _ _ v) in Htx; [|exact Hnd|exact Hfr| |exact Hv].
    2:{ intros r Hr. left. apply Hid. exact Hr. }
    destruct Htx as [[V1 V2 V3 V4] [F [txi' I]]]. split; [|split].
    + constructor; cbn [u_st u_burned set_entries s_entries s_balances msum].
      * intros r. rewrite V1. symmetry. apply (update_burned_fields _ _ _ r Hup).
      * intros r. rewrite V2. symmetry. apply (update_burned_fields _ _ _ r Hup).
      * intros r. rewrite V3. pose proof (update_burned_spec _ _ _ r Hup) as [U1 _]. lia.
      * exact V4.
    + exact F.
    + intros r Hr. cbn [set_entries s_entries] in Hr. pose proof (update_burned_spec _ _ _ r Hup) as [_ [_ U3]].
      apply U3 in Hr. apply I in Hr. lia.
Qed.

(* C37 (rune half): replaying the events block by block reproduces the view of every state *)
Lemma index_chain_ev_replay first bs : forall height st res v,
  index_chain_ev first height st bs = Ok res ->
  NoDup (txids bs) -> fresh_txids (txids bs) (s_balances st) ->
  (forall r, has_entry r (s_entries st) -> fst r < height) -> view_ok v st ->
  Forall2 (fun v' x => view_ok v' (fst x)) (replay_chain first height v bs res) res.
Proof.
  induction bs as [|b bs IH]; intros height st res v Q Hnd Hfr Hid Hv; cbn [index_chain_ev] in Q; [ok_inj; constructor|].
  bind_inv Q as [st1 evs] Hblk. bind_inv Q as rest Hrest. ok_inj. cbn [txids flat_map] in Hnd, Hfr. cbn [replay_chain].
  apply (index_block_ev_replay _ _ _ _ _ _ (txids bs) v) in Hblk; [|exact Hnd|exact Hfr|exact Hid|exact Hv].
  destruct Hblk as [V [F I]]. constructor; [exact V|].
  eapply IH; [exact Hrest| |exact F|exact I|exact V]. apply NoDup_app_r in Hnd. exact Hnd.
Qed.

Lemma view_ok_empty : view_ok empty_view empty_state.
Proof. constructor; cbn; try reflexivity. constructor. Qed.

Lemma chain_events_replay first height bs res :
  index_chain_ev first height empty_state bs = Ok res -> NoDup (txids bs) ->
  Forall2 (fun v x => view_ok v (fst x)) (replay_chain first height empty_view bs res) res.
Proof.
  intros Q Hnd. eapply index_chain_ev_replay; [exact Q|exact Hnd| | |exact view_ok_empty].
  - intros t o _. reflexivity.
  - intros r H. exfalso. apply H. reflexivity.
Qed.

Lemma Forall2_weaken {A B} (P Q : A -> B -> Prop) l l' :
  (forall a b, P a b -> Q a b) -> Forall2 P l l' -> Forall2 Q l l'.
Proof. intros H F. induction F; constructor; auto. Qed.
