(* Invariants of the inscription indexer model (Index/Inscr.v): numbering (C05). *)
From OrdV Require Import Base.Prelude Generated Index.Inscr Proofs.Inscr_tables.
From Coq Require Import Permutation ZifyBool ZifyN.

Ltac inv H := inversion H; subst; clear H.

(* destruct the scrutinee of the outermost bind / match in hypothesis H *)
Ltac dbind H :=
  match type of H with
  | bind ?r _ = Ok _ => let E := fresh "E" in destruct r eqn:E; cbn [bind] in H; try discriminate H
  end.

Notation tgN := (tget N.eqb).
Notation tgZ := (tget Z.eqb).
Notation tgP := (tget pair_eqb).

Lemma tgN_set : forall {V} k k' (v : V) t, tgN k (tset N.eqb k' v t) = if k =? k' then Some v else tgN k t.
Proof. intros. apply tget_tset. exact N.eqb_eq. Qed.
Lemma tgZ_set : forall {V} k k' (v : V) t, tgZ k (tset Z.eqb k' v t) = if (k =? k')%Z then Some v else tgZ k t.
Proof. intros. apply tget_tset. exact Z.eqb_eq. Qed.
Lemma tgP_set : forall {V} k k' (v : V) t, tgP k (tset pair_eqb k' v t) = if pair_eqb k k' then Some v else tgP k t.
Proof. intros. apply tget_tset. exact pair_eqb_eq. Qed.

Lemma pair_eqb_refl : forall a, pair_eqb a a = true.
Proof. intro a. apply pair_eqb_eq. reflexivity. Qed.
Lemma pair_eqb_false : forall a b, a <> b -> pair_eqb a b = false.
Proof. intros a b H. destruct (pair_eqb a b) eqn:E; auto. apply pair_eqb_eq in E. contradiction. Qed.

(* ------------------------------------------------------------------ shape of update_location *)

Definition same_aux (b b' : bst) : Prop :=
  b_flot b' = b_flot b /\ b_reward b' = b_reward b /\ b_lost b' = b_lost b /\
  b_cb_ranges b' = b_cb_ranges b /\ b_lost_ranges b' = b_lost_ranges b /\
  s_h2last (b_st b') = s_h2last (b_st b) /\
  s_blessed (b_st b') = s_blessed (b_st b) /\ s_cursed (b_st b') = s_cursed (b_st b) /\
  s_unbound (b_st b') = s_unbound (b_st b) /\ s_lost (b_st b') = s_lost (b_st b).

Lemma link_parents_core : forall seq ps st acc st' acc',
  link_parents seq ps st acc = Ok (st', acc') ->
  s_entries st' = s_entries st /\ s_id2seq st' = s_id2seq st /\ s_num2seq st' = s_num2seq st /\
  s_utxo st' = s_utxo st /\ s_sat2seq st' = s_sat2seq st /\ s_h2last st' = s_h2last st /\
  s_blessed st' = s_blessed st /\ s_cursed st' = s_cursed st /\ s_unbound st' = s_unbound st /\
  s_lost st' = s_lost st.
Proof.
  intros seq ps. induction ps as [|p r IH]; intros st acc st' acc' H; cbn [link_parents] in H.
  - inv H. repeat split.
  - destruct (tgP p (s_id2seq st)) as [pseq|] eqn:E1.
    + destruct (tgN pseq (s_entries st)) as [pe|] eqn:E2; [|discriminate].
      destruct (i_hidden pe); apply IH in H; cbn in H; exact H.
    + apply IH in H. exact H.
Qed.

Record new_shape (h : N) (f : flotsam) (c : bool) (b b' : bst) (e : ientry) : Prop := {
  ns_id : i_id e = f_id f;
  ns_seq : i_seq e = b_next b;
  ns_height : i_height e = h;
  ns_number : i_number e = (if c then (- Z.of_N (b_cursed b) - 1)%Z else Z.of_N (b_blessed b));
  ns_entries : s_entries (b_st b') = tset N.eqb (b_next b) e (s_entries (b_st b));
  ns_ids : s_id2seq (b_st b') = tset pair_eqb (f_id f) (b_next b) (s_id2seq (b_st b));
  ns_nums : s_num2seq (b_st b') = tset Z.eqb (i_number e) (b_next b) (s_num2seq (b_st b));
  ns_next : b_next b' = b_next b + 1;
  ns_blessed : b_blessed b' = (if c then b_blessed b else b_blessed b + 1);
  ns_cursed : b_cursed b' = (if c then b_cursed b + 1 else b_cursed b);
  ns_limit : (if c then b_cursed b else b_blessed b) < I32_LIMIT;
  ns_aux : same_aux b b'
}.

Lemma update_new_shape : forall h rg f sp o b b' c fee hid ps re ub vi,
  f_origin f = ONew c fee hid ps re ub vi ->
  update_location h rg f sp o b = Ok b' ->
  exists e, new_shape h f c b b' e.
Proof.
  intros h rg f sp o b b' c fee hid ps re ub vi Ho H.
  unfold update_location in H. rewrite Ho in H.
  dbind H. destruct a as [[number bl] cu].
  dbind H. rename a into sat.
  dbind H. destruct a as [st1 pseqs].
  apply link_parents_core in E1. cbn [s_entries s_id2seq s_num2seq s_utxo s_sat2seq s_h2last s_blessed s_cursed s_unbound s_lost] in E1.
  destruct E1 as (L1 & L2 & L3 & L4 & L5 & L6 & L7 & L8 & L9 & L10).
  assert (Hn : number = (if c then (- Z.of_N (b_cursed b) - 1)%Z else Z.of_N (b_blessed b)) /\
               bl = (if c then b_blessed b else b_blessed b + 1) /\
               cu = (if c then b_cursed b + 1 else b_cursed b) /\
               (if c then b_cursed b else b_blessed b) < I32_LIMIT).
  { destruct c.
    - destruct (b_cursed b <? I32_LIMIT) eqn:EL; inv E. repeat split. lia.
    - destruct (b_blessed b <? I32_LIMIT) eqn:EL; inv E. repeat split. lia. }
  destruct Hn as (N1 & N2 & N3 & N4).
  destruct ub; inv H; eexists; (split; cbn; try rewrite L1; try rewrite L2; try rewrite L3; try reflexivity; try assumption;
    try (unfold same_aux; cbn; repeat split; assumption)).
Qed.

Lemma update_old_shape : forall h rg f sp o b b' seq,
  f_origin f = OOld seq ->
  update_location h rg f sp o b = Ok b' ->
  s_id2seq (b_st b') = s_id2seq (b_st b) /\ s_num2seq (b_st b') = s_num2seq (b_st b) /\
  b_next b' = b_next b /\ b_blessed b' = b_blessed b /\ b_cursed b' = b_cursed b /\ b_unb b' = b_unb b /\
  same_aux b b' /\
  (s_entries (b_st b') = s_entries (b_st b) \/
   exists e, tgN seq (s_entries (b_st b)) = Some e /\
     s_entries (b_st b') =
       tset N.eqb seq (mkI (N.lor (i_charms e) (flag CHARM_BURNED)) (i_fee e) (i_height e) (i_hidden e) (i_id e)
                           (i_number e) (i_parents e) (i_sat e) (i_seq e)) (s_entries (b_st b))).
Proof.
  intros h rg f sp o b b' seq Ho H.
  unfold update_location in H. rewrite Ho in H.
  dbind H. inv H. destruct o.
  - destruct (tgN seq (s_entries (b_st b))) as [e|] eqn:E1; [|discriminate]. inv E.
    cbn. repeat split. right. exists e. split; auto.
  - inv E. cbn. repeat split. left. reflexivity.
Qed.

(* ------------------------------------------------------------------ C05: numbering invariant *)

Record Inv5 (jub : N) (E : list (N * ientry)) (I : list (iid * N)) (M : list (Z * N)) (bl cu nx : N) : Prop := {
  i5_dom : forall s, tgN s E <> None <-> s < nx;
  i5_seq : forall s e, tgN s E = Some e -> i_seq e = s;
  i5_cnt : bl + cu = nx;
  i5_range : forall s e, tgN s E = Some e -> (- Z.of_N cu <= i_number e < Z.of_N bl)%Z;
  i5_num_fwd : forall s e, tgN s E = Some e -> tgZ (i_number e) M = Some s;
  i5_num_bwd : forall z s, tgZ z M = Some s -> exists e, tgN s E = Some e /\ i_number e = z;
  i5_dense : forall z, (- Z.of_N cu <= z < Z.of_N bl)%Z -> tgZ z M <> None;
  i5_id_fwd : forall s e, tgN s E = Some e -> tgP (i_id e) I = Some s;
  i5_id_bwd : forall i s, tgP i I = Some s -> exists e, tgN s E = Some e /\ i_id e = i;
  i5_mono : forall s1 s2 e1 e2, tgN s1 E = Some e1 -> tgN s2 E = Some e2 -> s1 < s2 ->
            ((0 <= i_number e1 -> 0 <= i_number e2 -> i_number e1 < i_number e2) /\
             (i_number e1 < 0 -> i_number e2 < 0 -> i_number e2 < i_number e1))%Z;
  i5_jub : forall s e, tgN s E = Some e -> jub <= i_height e -> (0 <= i_number e)%Z
}.

Definition Inv5b (jub : N) (b : bst) : Prop :=
  Inv5 jub (s_entries (b_st b)) (s_id2seq (b_st b)) (s_num2seq (b_st b)) (b_blessed b) (b_cursed b) (b_next b).

Definition f_cursed (f : flotsam) : bool :=
  match f_origin f with ONew c _ _ _ _ _ _ => c | OOld _ => false end.

(* replacing an entry by one with the same identity fields keeps the invariant *)
Lemma Inv5_touch : forall jub E I M bl cu nx s e e',
  Inv5 jub E I M bl cu nx -> tgN s E = Some e ->
  i_id e' = i_id e -> i_number e' = i_number e -> i_seq e' = i_seq e -> i_height e' = i_height e ->
  Inv5 jub (tset N.eqb s e' E) I M bl cu nx.
Proof.
  intros jub E I M bl cu nx s e e' [D S C R NF NB DE IF IB MO J] Hs H1 H2 H3 H4.
  assert (G : forall s0 x, tgN s0 (tset N.eqb s e' E) = Some x ->
              exists y, tgN s0 E = Some y /\ i_id x = i_id y /\ i_number x = i_number y /\
                        i_seq x = i_seq y /\ i_height x = i_height y).
  { intros s0 x. rewrite tgN_set. destruct (N.eqb_spec s0 s).
    - intro Hx. inv Hx. exists e. auto.
    - intro Hx. exists x. auto. }
  split; auto.
  - intro s0. rewrite tgN_set. destruct (N.eqb_spec s0 s).
    + subst. split; [intros _; apply D; congruence | discriminate].
    + apply D.
  - intros s0 x Hx. destruct (G _ _ Hx) as (y & Hy & _ & _ & Q & _). rewrite Q. eauto.
  - intros s0 x Hx. destruct (G _ _ Hx) as (y & Hy & _ & Q & _ & _). rewrite Q. eauto.
  - intros s0 x Hx. destruct (G _ _ Hx) as (y & Hy & _ & Q & _ & _). rewrite Q. eauto.
  - intros z s0 Hz. destruct (NB _ _ Hz) as (y & Hy & Q). rewrite tgN_set. destruct (N.eqb_spec s0 s).
    + subst. exists e'. split; auto. rewrite Hs in Hy. inv Hy. auto.
    + eauto.
  - intros s0 x Hx. destruct (G _ _ Hx) as (y & Hy & Q & _). rewrite Q. eauto.
  - intros i s0 Hi. destruct (IB _ _ Hi) as (y & Hy & Q). rewrite tgN_set. destruct (N.eqb_spec s0 s).
    + subst. exists e'. split; auto. rewrite Hs in Hy. inv Hy. auto.
    + eauto.
  - intros s1 s2 x1 x2 Hx1 Hx2 Hlt.
    destruct (G _ _ Hx1) as (y1 & Hy1 & _ & Q1 & _). destruct (G _ _ Hx2) as (y2 & Hy2 & _ & Q2 & _).
    rewrite Q1, Q2. eauto.
  - intros s0 x Hx. destruct (G _ _ Hx) as (y & Hy & _ & Q & _ & Q'). rewrite Q, Q'. eauto.
Qed.

(* one application of update_inscription_location *)
Lemma step_inv5 : forall jub h rg f sp o b b',
  Inv5b jub b ->
  (is_new f = true -> tgP (f_id f) (s_id2seq (b_st b)) = None) ->
  (f_cursed f = true -> h < jub) ->
  update_location h rg f sp o b = Ok b' ->
  Inv5b jub b' /\ same_aux b b' /\
  (forall i, tgP i (s_id2seq (b_st b')) <> None <->
             (tgP i (s_id2seq (b_st b)) <> None \/ (is_new f = true /\ i = f_id f))).
Proof.
  intros jub h rg f sp o b b' HI Hfresh Hc H.
  destruct (f_origin f) as [c fee hid ps re ub vi|seq] eqn:Ho.
  - (* new *)
    destruct (update_new_shape _ _ _ _ _ _ _ _ _ _ _ _ _ _ Ho H) as (e & [S1 S2 S3 S4 S5 S6 S7 S8 S9 S10 S11 S12]).
    assert (Hnew : is_new f = true) by (unfold is_new; rewrite Ho; reflexivity).
    specialize (Hfresh Hnew).
    assert (Hcur : c = true -> h < jub) by (intro; apply Hc; unfold f_cursed; rewrite Ho; assumption).
    unfold Inv5b in *. rewrite S5, S6, S7, S8, S9, S10.
    destruct HI as [D S C R NF NB DE IF IB MO J].
    set (nx := b_next b) in *. set (bl := b_blessed b) in *. set (cu := b_cursed b) in *.
    assert (Hnone : tgN nx (s_entries (b_st b)) = None).
    { destruct (tgN nx (s_entries (b_st b))) eqn:E0; auto. exfalso.
      assert (nx < nx) by (apply D; congruence). lia. }
    assert (Hnum_none : tgZ (i_number e) (s_num2seq (b_st b)) = None).
    { destruct (tgZ (i_number e) (s_num2seq (b_st b))) as [s0|] eqn:E0; auto. exfalso.
      destruct (NB _ _ E0) as (y & Hy & Q). specialize (R _ _ Hy). rewrite Q, S4 in R. destruct c; lia. }
    split; [|split; [assumption|]].
    + split.
      * intro s. rewrite tgN_set. destruct (N.eqb_spec s nx).
        -- subst. split; [lia | discriminate].
        -- rewrite D. lia.
      * intros s x. rewrite tgN_set. destruct (N.eqb_spec s nx).
        -- intro Hx. inv Hx. assumption.
        -- apply S.
      * destruct c; lia.
      * intros s x. rewrite tgN_set. destruct (N.eqb_spec s nx).
        -- intro Hx. inv Hx. rewrite S4. destruct c; lia.
        -- intro Hx. specialize (R _ _ Hx). destruct c; lia.
      * intros s x. rewrite tgN_set. destruct (N.eqb_spec s nx).
        -- intro Hx. inv Hx. rewrite tgZ_set, Z.eqb_refl. reflexivity.
        -- intro Hx. rewrite tgZ_set. destruct (Z.eqb_spec (i_number x) (i_number e)) as [Q|Q].
           ++ exfalso. specialize (NF _ _ Hx). rewrite Q in NF. congruence.
           ++ eauto.
      * intros z s. rewrite tgZ_set. destruct (Z.eqb_spec z (i_number e)).
        -- intro Hz. inv Hz. exists e. rewrite tgN_set, N.eqb_refl. auto.
        -- intro Hz. destruct (NB _ _ Hz) as (y & Hy & Q). exists y. rewrite tgN_set.
           destruct (N.eqb_spec s nx); [subst; congruence | auto].
      * intros z Hz. rewrite tgZ_set. destruct (Z.eqb_spec z (i_number e)); [discriminate|].
        apply DE. rewrite S4 in n. destruct c; lia.
      * intros s x. rewrite tgN_set. destruct (N.eqb_spec s nx).
        -- intro Hx. inv Hx. rewrite S1, tgP_set, pair_eqb_refl. reflexivity.
        -- intro Hx. rewrite tgP_set. destruct (pair_eqb (i_id x) (f_id f)) eqn:Q.
           ++ apply pair_eqb_eq in Q. exfalso. specialize (IF _ _ Hx). rewrite Q in IF. congruence.
           ++ eauto.
      * intros i s. rewrite tgP_set. destruct (pair_eqb i (f_id f)) eqn:Q.
        -- apply pair_eqb_eq in Q. intro Hi. inv Hi. exists e. rewrite tgN_set, N.eqb_refl. auto.
        -- intro Hi. destruct (IB _ _ Hi) as (y & Hy & Q'). exists y. rewrite tgN_set.
           destruct (N.eqb_spec s nx); [subst; congruence | auto].
      * intros s1 s2 x1 x2. rewrite !tgN_set. destruct (N.eqb_spec s1 nx); destruct (N.eqb_spec s2 nx).
        -- intros; lia.
        -- intros _ Hx2 Hlt. exfalso. assert (s2 < nx) by (apply D; congruence). lia.
        -- intros Hx1 Hx2 _. inv Hx2. specialize (R _ _ Hx1). rewrite S4. destruct c; lia.
        -- eauto.
      * intros s x. rewrite tgN_set. destruct (N.eqb_spec s nx).
        -- intro Hx. injection Hx as Hx. subst x. rewrite S3, S4. intro Hj. destruct c; [specialize (Hcur eq_refl); lia | lia].
        -- eauto.
    + intro i. rewrite tgP_set. destruct (pair_eqb i (f_id f)) eqn:Q.
      * apply pair_eqb_eq in Q. split; [auto | discriminate].
      * split; [auto|]. intros [?|[_ ?]]; auto. subst. rewrite pair_eqb_refl in Q. discriminate.
  - (* old *)
    destruct (update_old_shape _ _ _ _ _ _ _ _ Ho H) as (O1 & O2 & O3 & O4 & O5 & O6 & O7 & O8).
    assert (Hold : is_new f = false) by (unfold is_new; rewrite Ho; reflexivity).
    split; [|split; [assumption|]].
    + unfold Inv5b in *. rewrite O1, O2, O3, O4, O5. destruct O8 as [O8|(e & He & O8)]; rewrite O8; auto.
      eapply Inv5_touch; eauto.
    + intro i. rewrite O1, Hold. split; [auto|]. intros [?|[? _]]; [auto|discriminate].
Qed.

(* ------------------------------------------------------------------ lists of flotsam *)

Definition new_ids (l : list flotsam) : list iid := map f_id (filter is_new l).
Definition dom (I : list (iid * N)) (i : iid) : Prop := tgP i I <> None.
Definition fl_ok (jub h : N) (l : list flotsam) : Prop := forall f, In f l -> f_cursed f = true -> h < jub.
Definition loc_flot (x : outpoint * N * flotsam * bool) : flotsam := snd (fst x).

Lemma new_ids_app : forall a b, new_ids (a ++ b) = new_ids a ++ new_ids b.
Proof. intros. unfold new_ids. rewrite filter_app, map_app. reflexivity. Qed.

Lemma new_ids_cons : forall f l, new_ids (f :: l) = if is_new f then f_id f :: new_ids l else new_ids l.
Proof. intros. unfold new_ids. cbn [filter]. destruct (is_new f); reflexivity. Qed.

Lemma new_ids_perm : forall a b, Permutation a b -> Permutation (new_ids a) (new_ids b).
Proof.
  intros a b H. unfold new_ids. apply Permutation_map.
  induction H; cbn [filter]; auto.
  - destruct (is_new x); auto.
  - destruct (is_new x); destruct (is_new y); auto. apply perm_swap.
  - eapply perm_trans; eauto.
Qed.

Lemma same_aux_refl : forall b, same_aux b b.
Proof. intro b. unfold same_aux. repeat split. Qed.

Lemma same_aux_trans : forall a b c, same_aux a b -> same_aux b c -> same_aux a c.
Proof.
  unfold same_aux. intros a b c (A1 & A2 & A3 & A4 & A5 & A6 & A7 & A8 & A9 & A10) (B1 & B2 & B3 & B4 & B5 & B6 & B7 & B8 & B9 & B10).
  repeat split; congruence.
Qed.

Lemma apply_locs_inv5 : forall jub h rg locs b b',
  Inv5b jub b ->
  NoDup (new_ids (map loc_flot locs)) ->
  (forall i, In i (new_ids (map loc_flot locs)) -> ~ dom (s_id2seq (b_st b)) i) ->
  fl_ok jub h (map loc_flot locs) ->
  apply_locs h rg locs b = Ok b' ->
  Inv5b jub b' /\ same_aux b b' /\
  (forall i, dom (s_id2seq (b_st b')) i <-> dom (s_id2seq (b_st b)) i \/ In i (new_ids (map loc_flot locs))).
Proof.
  intros jub h rg locs. induction locs as [|[[[op off] f] o] r IH]; intros b b' HI ND FR OK H; cbn [apply_locs] in H.
  - inv H. split; auto. split; [apply same_aux_refl|]. intro i. cbn. tauto.
  - dbind H. rename a into b1. cbn [map loc_flot fst snd] in *. rewrite new_ids_cons in *.
    assert (S1 : Inv5b jub b1 /\ same_aux b b1 /\
                 (forall i, dom (s_id2seq (b_st b1)) i <-> dom (s_id2seq (b_st b)) i \/ (is_new f = true /\ i = f_id f))).
    { eapply step_inv5; eauto.
      - intro Hn. rewrite Hn in FR. specialize (FR (f_id f) (or_introl eq_refl)).
        unfold dom in FR. destruct (tgP (f_id f) (s_id2seq (b_st b))); auto. exfalso. apply FR. discriminate.
      - intro Hcu. apply (OK f); auto. left. reflexivity. }
    destruct S1 as (I1 & A1 & D1).
    assert (ND' : NoDup (new_ids (map loc_flot r))) by (destruct (is_new f); [inv ND; auto | auto]).
    assert (FR' : forall i, In i (new_ids (map loc_flot r)) -> ~ dom (s_id2seq (b_st b1)) i).
    { intros i Hi Hd. apply D1 in Hd. destruct Hd as [Hd|[Hn Hd]].
      - apply (FR i); auto. destruct (is_new f); [right|]; auto.
      - subst i. rewrite Hn in ND. inv ND. contradiction. }
    assert (OK' : fl_ok jub h (map loc_flot r)) by (intros g Hg; apply OK; right; auto).
    destruct (IH _ _ I1 ND' FR' OK' H) as (I2 & A2 & D2).
    split; auto. split; [eapply same_aux_trans; eauto|].
    intro i. rewrite D2, D1. destruct (is_new f) eqn:Hn; cbn [In]; intuition congruence.
Qed.

Lemma apply_lost_inv5 : forall jub h rg ov l b b',
  Inv5b jub b ->
  NoDup (new_ids l) ->
  (forall i, In i (new_ids l) -> ~ dom (s_id2seq (b_st b)) i) ->
  fl_ok jub h l ->
  apply_lost h rg ov l b = Ok b' ->
  Inv5b jub b' /\ same_aux b b' /\
  (forall i, dom (s_id2seq (b_st b')) i <-> dom (s_id2seq (b_st b)) i \/ In i (new_ids l)).
Proof.
  intros jub h rg ov l. induction l as [|f r IH]; intros b b' HI ND FR OK H; cbn [apply_lost] in H.
  - inv H. split; auto. split; [apply same_aux_refl|]. intro i. cbn. tauto.
  - dbind H. rename a into off. dbind H. rename a into b1. rewrite new_ids_cons in *.
    assert (A0 : same_aux b b) by apply same_aux_refl.
    assert (S1 : Inv5b jub b1 /\ same_aux b b1 /\
                 (forall i, dom (s_id2seq (b_st b1)) i <-> dom (s_id2seq (b_st b)) i \/ (is_new f = true /\ i = f_id f))).
    { eapply step_inv5; eauto.
      - intro Hn. rewrite Hn in FR. specialize (FR (f_id f) (or_introl eq_refl)).
        unfold dom in FR. destruct (tgP (f_id f) (s_id2seq (b_st b))); auto. exfalso. apply FR. discriminate.
      - intro Hcu. apply (OK f); auto. left. reflexivity. }
    destruct S1 as (I1 & A1 & D1).
    assert (ND' : NoDup (new_ids r)) by (destruct (is_new f); [inv ND; auto | auto]).
    assert (FR' : forall i, In i (new_ids r) -> ~ dom (s_id2seq (b_st b1)) i).
    { intros i Hi Hd. apply D1 in Hd. destruct Hd as [Hd|[Hn Hd]].
      - apply (FR i); auto. destruct (is_new f); [right|]; auto.
      - subst i. rewrite Hn in ND. inv ND. contradiction. }
    assert (OK' : fl_ok jub h r) by (intros g Hg; apply OK; right; auto).
    assert (Hlost : b_lost b1 = b_lost b) by (destruct A1 as (_ & _ & ? & _); auto).
    destruct (IH _ _ I1 ND' FR' OK' H) as (I2 & A2 & D2).
    split; auto. split; [eapply same_aux_trans; eauto|].
    intro i. rewrite D2, D1. destruct (is_new f) eqn:Hn; cbn [In]; intuition congruence.
Qed.

Lemma rebase_ids : forall reward ov l l', rebase reward ov l = Ok l' ->
  new_ids l' = new_ids l /\ (forall jub h, fl_ok jub h l -> fl_ok jub h l') /\
  map f_origin l' = map f_origin l.
Proof.
  intros reward ov l. induction l as [|f r IH]; intros l' H; cbn [rebase] in H.
  - inv H. repeat split; auto.
  - dbind H. dbind H. inv H. destruct (IH _ eq_refl) as (A & B & C).
    split; [|split].
    + rewrite !new_ids_cons. unfold is_new at 1. cbn [f_origin f_id]. fold (is_new f). rewrite A. reflexivity.
    + intros jub h OK g [Hg|Hg].
      * subst g. unfold f_cursed. cbn [f_origin]. intro Hc. apply (OK f); [left; auto|exact Hc].
      * apply B; auto. intros g' Hg'. apply OK. right. auto.
    + cbn [map f_origin]. rewrite C. reflexivity.
Qed.

(* assign splits its (sorted) input into located flotsam ++ leftover *)
Lemma span_lt_app : forall e l a b, span_lt e l = (a, b) -> l = a ++ b.
Proof.
  intros e l. induction l as [|f r IH]; intros a b H; cbn [span_lt] in H.
  - inv H. reflexivity.
  - destruct (f_offset f <? e).
    + destruct (span_lt e r) as [a' b'] eqn:E. inv H. cbn [app]. f_equal. apply IH. reflexivity.
    + inv H. reflexivity.
Qed.

Lemma assign_split : forall txid outs vout base fl locs rest ov,
  assign txid vout base outs fl = (locs, rest, ov) -> fl = map loc_flot locs ++ rest.
Proof.
  intros txid outs. induction outs as [|o r IH]; intros vout base fl locs rest ov H; cbn [assign] in H.
  - inv H. reflexivity.
  - destruct (span_lt (base + o_value o) fl) as [a b] eqn:E.
    destruct (assign txid (vout + 1) (base + o_value o) r b) as [[locs' rest'] ov'] eqn:E2.
    inv H. apply span_lt_app in E. apply IH in E2. subst.
    rewrite map_app, map_map. cbn [loc_flot fst snd]. rewrite map_id, app_assoc. reflexivity.
Qed.

(* ------------------------------------------------------------------ the floating inscriptions of a transaction *)

Definition Aok (txid : N) (jubilant : bool) (a : facc) : Prop :=
  (forall f, In f (a_float a) -> is_new f = true ->
     fst (f_id f) = txid /\ snd (f_id f) < a_idc a /\ (f_cursed f = true -> jubilant = false)) /\
  NoDup (new_ids (a_float a)).

Lemma NoDup_snoc : forall {A} (l : list A) x, NoDup l -> ~ In x l -> NoDup (l ++ [x]).
Proof.
  intros A l x H1 H2. eapply Permutation_NoDup; [apply Permutation_cons_append|]. constructor; auto.
Qed.

Lemma new_ids_old : forall l, Forall (fun f => is_new f = false) l -> new_ids l = [].
Proof.
  intros l H. induction H; auto. rewrite new_ids_cons, H. exact IHForall.
Qed.

Lemma olds_spec : forall ents base l acc io fl io',
  olds ents base l acc io = Ok (fl, io') ->
  exists extra, fl = acc ++ extra /\ Forall (fun f => is_new f = false) extra.
Proof.
  intros ents base l. induction l as [|[seq off] r IH]; intros acc io fl io' H; cbn [olds] in H.
  - inv H. exists []. rewrite app_nil_r. auto.
  - destruct (tgN seq ents) as [e|]; [|discriminate].
    apply IH in H. destruct H as (extra & -> & F). rewrite <- app_assoc. eexists. split; [reflexivity|].
    constructor; auto.
Qed.

Lemma news_aok : forall st txid jubilant tov offset iv l a a',
  Aok txid jubilant a -> news st txid jubilant tov offset iv l a = Ok a' -> Aok txid jubilant a'.
Proof.
  intros st txid jubilant tov offset iv l. induction l as [|v r IH]; intros a a' HA H; cbn [news] in H.
  - inv H. exact HA.
  - dbind H. rename a0 into c. apply IH in H; auto. clear IH.
    destruct HA as [M ND]. split; cbn [a_float a_idc].
    + intros f Hf Hn. apply in_app_or in Hf. destruct Hf as [Hf|[Hf|[]]].
      * destruct (M f Hf Hn) as (A & B & C). repeat split; auto. lia.
      * subst f. cbn [f_id fst snd]. repeat split; [lia|].
        unfold f_cursed. cbn [f_origin]. intro Hc. apply andb_true_iff in Hc. destruct Hc as [_ Hc].
        destruct jubilant; [discriminate|reflexivity].
    + rewrite new_ids_app. cbn. apply NoDup_snoc; auto.
      intro Hin. unfold new_ids in Hin. apply in_map_iff in Hin. destruct Hin as (g & G1 & G2).
      apply filter_In in G2. destruct G2 as [G2 G3]. destruct (M g G2 G3) as (_ & B & _).
      rewrite G1 in B. cbn in B. lia.
Qed.

Lemma inputs_loop_aok : forall cfg st txid height jubilant tov ins idx ents envs a a',
  Aok txid jubilant a ->
  inputs_loop cfg st txid height jubilant tov ins idx ents envs a = Ok a' -> Aok txid jubilant a'.
Proof.
  intros cfg st txid height jubilant tov ins. induction ins as [|prev r IH]; intros idx ents envs a a' HA H; cbn [inputs_loop] in H.
  - inv H. exact HA.
  - destruct (is_null prev).
    + apply IH in H; auto.
    + destruct (nth_error ents (N.to_nat idx)) as [u|]; [|discriminate].
      dbind H. destruct a0 as [fl io]. destruct (span_input idx envs) as [mine rest].
      dbind H. rename a0 into a1. apply IH in H; auto. eapply news_aok; [|exact E0].
      apply olds_spec in E. destruct E as (extra & -> & F). destruct HA as [M ND]. split; cbn [a_float a_idc].
      * intros f Hf Hn. apply in_app_or in Hf. destruct Hf as [Hf|Hf]; auto.
        rewrite Forall_forall in F. rewrite (F f Hf) in Hn. discriminate.
      * rewrite new_ids_app, (new_ids_old _ F), app_nil_r. exact ND.
Qed.

Lemma fix_new_props : forall p fee f,
  f_id (fix_new p fee f) = f_id f /\ is_new (fix_new p fee f) = is_new f /\
  f_cursed (fix_new p fee f) = f_cursed f /\ f_offset (fix_new p fee f) = f_offset f.
Proof.
  intros p fee f. unfold fix_new, is_new, f_cursed. destruct (f_origin f) eqn:E; cbn; rewrite ?E; auto.
Qed.

Lemma new_ids_fix : forall p fee l, new_ids (map (fix_new p fee) l) = new_ids l.
Proof.
  intros p fee l. induction l as [|f r IH]; auto. cbn [map]. rewrite !new_ids_cons.
  destruct (fix_new_props p fee f) as (A & B & _). rewrite A, B, IH. reflexivity.
Qed.

Lemma floating_of_props : forall cfg st h t ents F tiv,
  floating_of cfg st h t ents = Ok (F, tiv) ->
  (forall i, In i (new_ids F) -> fst i = t_id t) /\ NoDup (new_ids F) /\ fl_ok (c_jubilee cfg) h F.
Proof.
  intros cfg st h t ents F tiv H. unfold floating_of in H. dbind H. dbind H. inv H.
  apply inputs_loop_aok with (txid := t_id t) (jubilant := c_jubilee cfg <=? h) in E.
  2:{ split; cbn; [tauto|constructor]. }
  destruct E as [M ND]. rewrite new_ids_fix. split; [|split]; auto.
  - intros i Hi. unfold new_ids in Hi. apply in_map_iff in Hi. destruct Hi as (g & G1 & G2).
    apply filter_In in G2. destruct G2 as [G2 G3]. destruct (M g G2 G3) as (A & _). congruence.
  - intros f Hf Hc. apply in_map_iff in Hf. destruct Hf as (g & G1 & G2). subst f.
    destruct (fix_new_props (map f_id (a_float a)) a0 g) as (_ & B & C & _). rewrite C in Hc.
    assert (Hn : is_new g = true) by (unfold is_new, f_cursed in *; destruct (f_origin g); auto; discriminate).
    destruct (M g G2 Hn) as (_ & _ & J). specialize (J Hc). lia.
Qed.

(* ------------------------------------------------------------------ one transaction *)

Lemma NoDup_app_iff : forall {A} (a b : list A),
  NoDup (a ++ b) <-> NoDup a /\ NoDup b /\ (forall x, In x a -> ~ In x b).
Proof.
  intros A a b. induction a as [|x r IH]; cbn [app].
  - split; [intro H; repeat split; auto; constructor | tauto].
  - split.
    + intro H. inv H. apply IH in H3. destruct H3 as (A1 & A2 & A3). repeat split; auto.
      * constructor; auto. intro Hx. apply H2. apply in_or_app. auto.
      * intros y [Hy|Hy]; [subst; intro Hb; apply H2; apply in_or_app; auto | auto].
    + intros (A1 & A2 & A3). inv A1. constructor.
      * intro Hx. apply in_app_or in Hx. destruct Hx; [contradiction|]. apply (A3 x); [left|]; auto.
      * apply IH. repeat split; auto. intros y Hy. apply A3. right. auto.
Qed.

Record Blk5 (jub h : N) (seen : list N) (b : bst) : Prop := {
  k_inv : Inv5b jub b;
  k_seen : forall i, dom (s_id2seq (b_st b)) i -> In (fst i) seen;
  k_pnd_nodup : NoDup (new_ids (b_flot b));
  k_pnd_fresh : forall i, In i (new_ids (b_flot b)) -> ~ dom (s_id2seq (b_st b)) i /\ In (fst i) seen;
  k_pnd_ok : fl_ok jub h (b_flot b)
}.

Lemma fl_ok_perm : forall jub h a b, Permutation a b -> fl_ok jub h a -> fl_ok jub h b.
Proof. intros jub h a b P H f Hf. apply H. eapply Permutation_in; [apply Permutation_sym|]; eauto. Qed.

Lemma fl_ok_app : forall jub h a b, fl_ok jub h (a ++ b) <-> fl_ok jub h a /\ fl_ok jub h b.
Proof.
  intros. unfold fl_ok. split.
  - intro H. split; intros f Hf; apply H; apply in_or_app; auto.
  - intros [H1 H2] f Hf Hc. apply in_app_or in Hf. destruct Hf as [Hf|Hf]; [eapply H1|eapply H2]; eauto.
Qed.

Lemma index_inscriptions_blk5 : forall cfg h t ents rg seen b b',
  Blk5 (c_jubilee cfg) h seen b -> ~ In (t_id t) seen ->
  index_inscriptions cfg h t ents rg b = Ok b' ->
  Blk5 (c_jubilee cfg) h (t_id t :: seen) b'.
Proof.
  intros cfg h t ents rg seen b b' [KI KS KN KF KO] Hfresh H.
  unfold index_inscriptions in H. dbind H. destruct a as [F tiv].
  destruct (floating_of_props _ _ _ _ _ _ _ E) as (P1 & P2 & P3). clear E.
  set (jub := c_jubilee cfg) in *.
  assert (FreshF : forall i, In i (new_ids F) -> ~ dom (s_id2seq (b_st b)) i).
  { intros i Hi Hd. apply KS in Hd. rewrite (P1 i Hi) in Hd. contradiction. }
  assert (Disj : forall i, In i (new_ids F) -> ~ In i (new_ids (b_flot b))).
  { intros i Hi Hp. destruct (KF i Hp) as [_ Hs]. rewrite (P1 i Hi) in Hs. contradiction. }
  destruct (tx_is_coinbase t) eqn:CB.
  - (* coinbase: everything pending is applied *)
    destruct (assign (t_id t) 0 0 (t_outs t) (sort_by f_offset (F ++ b_flot b))) as [[locs rest] ov] eqn:EA.
    apply assign_split in EA.
    assert (PM : Permutation (map loc_flot locs ++ rest) (F ++ b_flot b)) by (rewrite <- EA; apply sort_by_perm).
    assert (ND : NoDup (new_ids (map loc_flot locs) ++ new_ids rest)).
    { rewrite <- new_ids_app. eapply Permutation_NoDup; [apply Permutation_sym, new_ids_perm, PM|].
      rewrite new_ids_app. apply NoDup_app_iff. auto. }
    apply NoDup_app_iff in ND. destruct ND as (ND1 & ND2 & ND3).
    assert (FR : forall i, In i (new_ids (map loc_flot locs ++ rest)) -> ~ dom (s_id2seq (b_st b)) i).
    { intros i Hi. eapply Permutation_in in Hi; [|apply new_ids_perm, PM]. rewrite new_ids_app in Hi.
      apply in_app_or in Hi. destruct Hi as [Hi|Hi]; [auto | apply KF; auto]. }
    assert (OKall : fl_ok jub h (map loc_flot locs ++ rest)).
    { eapply fl_ok_perm; [apply Permutation_sym, PM|]. apply fl_ok_app. auto. }
    apply fl_ok_app in OKall. destruct OKall as [OK1 OK2].
    dbind H. rename a into b1.
    destruct (apply_locs_inv5 jub h rg locs (set_flot b []) b1) as (I1 & A1 & D1); auto.
    { intros i Hi. cbn. apply FR. rewrite new_ids_app. apply in_or_app. auto. }
    dbind H. rename a into b2.
    destruct (apply_lost_inv5 jub h rg ov rest b1 b2) as (I2 & A2 & D2); auto.
    { intros i Hi Hd. apply D1 in Hd. cbn in Hd. destruct Hd as [Hd|Hd].
      - revert Hd. apply FR. rewrite new_ids_app. apply in_or_app. auto.
      - exact (ND3 i Hd Hi). }
    dbind H. inv H.
    assert (Fl2 : b_flot b2 = []).
    { destruct A2 as (X & _). destruct A1 as (Y & _). rewrite X, Y. reflexivity. }
    split; cbn [b_st b_flot]; unfold Inv5b; cbn [b_st b_blessed b_cursed b_next]; auto.
    + intros i Hd. apply D2 in Hd. rewrite D1 in Hd. cbn in Hd.
      assert (Hall : dom (s_id2seq (b_st b)) i \/ In i (new_ids (F ++ b_flot b))).
      { destruct Hd as [[Hd|Hd]|Hd]; auto; right; eapply Permutation_in; try (apply new_ids_perm, PM);
        rewrite new_ids_app; apply in_or_app; auto. }
      destruct Hall as [Hd'|Hd'].
      * right. auto.
      * rewrite new_ids_app in Hd'. apply in_app_or in Hd'. destruct Hd' as [Hd'|Hd'].
        -- left. symmetry. auto.
        -- right. apply KF. auto.
    + rewrite Fl2. constructor.
    + rewrite Fl2. intros i [].
    + rewrite Fl2. intros f [].
  - (* ordinary transaction: leftovers stay pending *)
    destruct (assign (t_id t) 0 0 (t_outs t) (sort_by f_offset F)) as [[locs rest] ov] eqn:EA.
    apply assign_split in EA.
    assert (PM : Permutation (map loc_flot locs ++ rest) F) by (rewrite <- EA; apply sort_by_perm).
    assert (ND : NoDup (new_ids (map loc_flot locs) ++ new_ids rest)).
    { rewrite <- new_ids_app. eapply Permutation_NoDup; [apply Permutation_sym, new_ids_perm, PM|]. auto. }
    apply NoDup_app_iff in ND. destruct ND as (ND1 & ND2 & ND3).
    assert (InF : forall i, In i (new_ids (map loc_flot locs ++ rest)) -> In i (new_ids F)).
    { intros i Hi. eapply Permutation_in; [apply new_ids_perm, PM|]. auto. }
    assert (OKall : fl_ok jub h (map loc_flot locs ++ rest)).
    { eapply fl_ok_perm; [apply Permutation_sym, PM|]. auto. }
    apply fl_ok_app in OKall. destruct OKall as [OK1 OK2].
    dbind H. rename a into b1.
    destruct (apply_locs_inv5 jub h rg locs b b1) as (I1 & A1 & D1); auto.
    { intros i Hi. apply FreshF, InF. rewrite new_ids_app. apply in_or_app. auto. }
    dbind H. rename a into rest'. dbind H. inv H.
    destruct (rebase_ids _ _ _ _ E0) as (R1 & R2 & _).
    assert (Fl1 : b_flot b1 = b_flot b) by (destruct A1 as (X & _); auto).
    assert (InR : forall i, In i (new_ids rest) -> In i (new_ids F)).
    { intros i Hi. apply InF. rewrite new_ids_app. apply in_or_app. auto. }
    split; cbn [b_st b_flot]; unfold Inv5b; cbn [b_st b_blessed b_cursed b_next]; auto.
    + intros i Hd. apply D1 in Hd. destruct Hd as [Hd|Hd].
      * right. auto.
      * left. symmetry. apply P1, InF. rewrite new_ids_app. apply in_or_app. auto.
    + rewrite Fl1, new_ids_app, R1. apply NoDup_app_iff. repeat split; auto.
      intros i Hi Hr. apply (Disj i); auto.
    + rewrite Fl1, new_ids_app, R1. intros i Hi. apply in_app_or in Hi. destruct Hi as [Hi|Hi].
      * destruct (KF i Hi) as [K1 K2]. split; [|right; auto].
        intro Hd. apply D1 in Hd. destruct Hd as [Hd|Hd]; [contradiction|].
        apply (Disj i); auto. apply InF. rewrite new_ids_app. apply in_or_app. auto.
      * split; [|left; symmetry; auto].
        intro Hd. apply D1 in Hd. destruct Hd as [Hd|Hd].
        -- revert Hd. apply FreshF. auto.
        -- exact (ND3 i Hd Hi).
    + rewrite Fl1. apply fl_ok_app. split; auto.
Qed.

(* ------------------------------------------------------------------ blocks and chains *)

Lemma Blk5_ext : forall jub h seen b b2,
  s_entries (b_st b2) = s_entries (b_st b) -> s_id2seq (b_st b2) = s_id2seq (b_st b) ->
  s_num2seq (b_st b2) = s_num2seq (b_st b) -> b_blessed b2 = b_blessed b -> b_cursed b2 = b_cursed b ->
  b_next b2 = b_next b -> b_flot b2 = b_flot b ->
  Blk5 jub h seen b -> Blk5 jub h seen b2.
Proof.
  intros jub h seen b b2 E1 E2 E3 E4 E5 E6 E7 [KI KS KN KF KO].
  split; unfold Inv5b in *; rewrite ?E1, ?E2, ?E3, ?E4, ?E5, ?E6, ?E7; auto.
Qed.

Lemma Blk5_weaken : forall jub h seen seen' b,
  (forall x, In x seen -> In x seen') -> Blk5 jub h seen b -> Blk5 jub h seen' b.
Proof.
  intros jub h seen seen' b W [KI KS KN KF KO]. split; auto.
  intros i Hi. destruct (KF i Hi). auto.
Qed.

Lemma index_tx_blk5 : forall cfg h insc first t seen b b',
  Blk5 (c_jubilee cfg) h seen b -> ~ In (t_id t) seen ->
  index_tx cfg h insc first t b = Ok b' ->
  Blk5 (c_jubilee cfg) h (t_id t :: seen) b'.
Proof.
  intros cfg h insc first t seen b b' HB Hf H. unfold index_tx in H.
  dbind H. destruct a as [ents utxo1]. dbind H. destruct a as [[per_out in_ranges] b1].
  assert (Hb1 : s_entries (b_st b1) = s_entries (b_st b) /\ s_id2seq (b_st b1) = s_id2seq (b_st b) /\
                s_num2seq (b_st b1) = s_num2seq (b_st b) /\ b_blessed b1 = b_blessed b /\
                b_cursed b1 = b_cursed b /\ b_next b1 = b_next b /\ b_flot b1 = b_flot b).
  { destruct (c_sats cfg).
    - dbind E0. destruct a as [po lft]. destruct first; inv E0; cbn; repeat split.
    - inv E0. repeat split. }
  destruct Hb1 as (Q1 & Q2 & Q3 & Q4 & Q5 & Q6 & Q7).
  match type of H with (if insc then index_inscriptions _ _ _ _ _ ?B else _) = _ => set (b2 := B) in * end.
  assert (HB2 : Blk5 (c_jubilee cfg) h seen b2).
  { eapply Blk5_ext; [ | | | | | | | exact HB]; subst b2; unfold set_st, with_utxo; cbn; auto. }
  destruct insc.
  - eapply index_inscriptions_blk5; eauto.
  - inv H. eapply Blk5_weaken; [|exact HB2]. intros x Hx. right. auto.
Qed.

Lemma index_txs_blk5 : forall cfg h insc l seen b b',
  Blk5 (c_jubilee cfg) h seen b -> NoDup (map t_id l) -> (forall x, In x (map t_id l) -> ~ In x seen) ->
  index_txs cfg h insc l b = Ok b' ->
  exists seen', Blk5 (c_jubilee cfg) h seen' b' /\ (forall x, In x seen' <-> In x (map t_id l) \/ In x seen).
Proof.
  intros cfg h insc l. induction l as [|t r IH]; intros seen b b' HB ND FR H; cbn [index_txs] in H.
  - inv H. exists seen. split; auto. intro x. cbn. tauto.
  - dbind H. rename a into b1. cbn [map] in ND, FR. inv ND.
    assert (HB1 : Blk5 (c_jubilee cfg) h (t_id t :: seen) b1).
    { eapply index_tx_blk5; eauto. apply FR. left. reflexivity. }
    assert (FR1 : forall x, In x (map t_id r) -> ~ In x (t_id t :: seen)).
    { intros x Hx [Hs|Hs]; [subst; contradiction | apply (FR x); [right|]; auto]. }
    destruct (IH _ _ _ HB1 H3 FR1 H) as (seen' & HB' & HS).
    exists seen'. split; auto. intro x. rewrite HS. cbn [map In]. tauto.
Qed.

Lemma maxkey_ge : forall {V} (E : list (N * V)) k, In k (map fst E) ->
  k <= fold_right (fun kv a => N.max (fst kv) a) 0 E.
Proof.
  intros V E. induction E as [|kv r IH]; intros k Hk; cbn [map In fold_right] in *; [tauto|].
  destruct Hk as [Hk|Hk]; [subst; lia | specialize (IH _ Hk); lia].
Qed.

Lemma maxkey_in : forall {V} (E : list (N * V)), E <> [] ->
  In (fold_right (fun kv a => N.max (fst kv) a) 0 E) (map fst E).
Proof.
  intros V E. induction E as [|kv r IH]; intro Hne; [congruence|]. cbn [map In fold_right].
  destruct r as [|kv2 r2].
  - cbn. left. lia.
  - assert (Hr : kv2 :: r2 <> []) by congruence. specialize (IH Hr).
    set (m := fold_right (fun kv a => N.max (fst kv) a) 0 (kv2 :: r2)) in *.
    destruct (N.max_spec (fst kv) m) as [[_ ->]|[_ ->]]; auto.
Qed.

Lemma next_seq_of_dom : forall (E : list (N * ientry)) nx,
  (forall s, tgN s E <> None <-> s < nx) -> next_seq_of E = nx.
Proof.
  intros E nx D. unfold next_seq_of. destruct E as [|kv r] eqn:EE.
  - destruct (N.eq_dec nx 0) as [|Hn]; auto. exfalso. assert (H : 0 < nx) by lia. apply D in H. apply H. reflexivity.
  - rewrite <- EE in *. assert (Hne : E <> []) by (rewrite EE; congruence).
    set (m := fold_right (fun kv a => N.max (fst kv) a) 0 E).
    assert (Hm : In m (map fst E)) by (apply maxkey_in; auto).
    apply (tget_keys N.eqb N.eqb_eq) in Hm. apply D in Hm.
    assert (Hp : nx - 1 < nx) by lia. apply D in Hp. apply (tget_keys N.eqb N.eqb_eq) in Hp.
    apply maxkey_ge in Hp. fold m in Hp. lia.
Qed.

Definition Inv5s (jub : N) (st : state) : Prop :=
  Inv5 jub (s_entries st) (s_id2seq st) (s_num2seq st) (s_blessed st) (s_cursed st) (next_seq_of (s_entries st)).

Definition St5 (jub : N) (seen : list N) (st : state) : Prop :=
  Inv5s jub st /\ (forall i, dom (s_id2seq st) i -> In (fst i) seen).

Lemma index_block_st5 : forall cfg h blk seen st st',
  St5 (c_jubilee cfg) seen st -> NoDup (map t_id blk) -> (forall x, In x (map t_id blk) -> ~ In x seen) ->
  index_block cfg h blk st = Ok st' ->
  exists seen', St5 (c_jubilee cfg) seen' st' /\ (forall x, In x seen' <-> In x (map t_id blk) \/ In x seen).
Proof.
  intros cfg h blk seen st st' [HI HS] ND FR H. unfold index_block in H.
  dbind H. rename a into cb. dbind H. rename a into b1. dbind H. rename a into b2. inv H.
  match type of E0 with index_txs _ _ _ _ ?B = _ => set (b0 := B) in * end.
  assert (HB0 : Blk5 (c_jubilee cfg) h seen b0).
  { split; subst b0; unfold Inv5b; cbn; auto.
    - constructor.
    - intros i [].
    - intros f []. }
  assert (exists seen', Blk5 (c_jubilee cfg) h seen' b2 /\ (forall x, In x seen' <-> In x (map t_id blk) \/ In x seen)) as (seen' & HB2 & HS').
  { destruct blk as [|t0 r].
    - cbn [tl] in E0. cbn in E0. inv E0. inv E1. exists seen. split; auto. intro x. cbn. tauto.
    - cbn [tl] in E0. cbn [map] in ND, FR. inv ND.
      assert (FR1 : forall x, In x (map t_id r) -> ~ In x seen).
      { intros x Hx. apply FR. right. auto. }
      destruct (index_txs_blk5 cfg h _ r seen b0 b1 HB0 H2 FR1 E0) as (s1 & HB1 & HS1).
      exists (t_id t0 :: s1). split.
      + eapply index_tx_blk5; eauto. intro Hx. apply HS1 in Hx. destruct Hx as [Hx|Hx]; [contradiction|].
        apply (FR (t_id t0)); [left|]; auto.
      + intro x. cbn [In map]. rewrite HS1. tauto. }
  exists seen'. split; auto. destruct HB2 as [KI KS _ _ _]. split.
  - unfold Inv5s. cbn [s_entries s_id2seq s_num2seq s_blessed s_cursed].
    rewrite (next_seq_of_dom _ (b_next b2)); [exact KI | apply KI].
  - cbn [s_id2seq]. exact KS.
Qed.

Definition chain_txids (c : list block) : list N := concat (map (map t_id) c).

Lemma index_chain_st5 : forall cfg c h seen st st',
  St5 (c_jubilee cfg) seen st -> NoDup (chain_txids c) -> (forall x, In x (chain_txids c) -> ~ In x seen) ->
  index_chain cfg h c st = Ok st' ->
  exists seen', St5 (c_jubilee cfg) seen' st' /\ (forall x, In x seen' <-> In x (chain_txids c) \/ In x seen).
Proof.
  intros cfg c. induction c as [|blk r IH]; intros h seen st st' HS ND FR H; cbn [index_chain] in H.
  - inv H. exists seen. split; auto. intro x. cbn. tauto.
  - dbind H. rename a into st1. unfold chain_txids in ND, FR. cbn [map concat] in ND, FR.
    apply NoDup_app_iff in ND. destruct ND as (ND1 & ND2 & ND3).
    assert (FR1 : forall x, In x (map t_id blk) -> ~ In x seen).
    { intros x Hx. apply FR. apply in_or_app. auto. }
    destruct (index_block_st5 cfg h blk seen st st1 HS ND1 FR1 E) as (s1 & HS1 & HQ1).
    assert (FR2 : forall x, In x (chain_txids r) -> ~ In x s1).
    { intros x Hx Hs. apply HQ1 in Hs. destruct Hs as [Hs|Hs].
      - exact (ND3 x Hs Hx).
      - apply (FR x); auto. apply in_or_app. auto. }
    destruct (IH (h + 1) s1 st1 st' HS1 ND2 FR2 H) as (s2 & HS2 & HQ2).
    exists s2. split; auto. intro x. rewrite HQ2, HQ1. unfold chain_txids. cbn [map concat]. rewrite in_app_iff. tauto.
Qed.

Lemma St5_empty : forall jub, St5 jub [] empty_state.
Proof.
  intro jub. split.
  - unfold Inv5s. cbn. split; cbn; try discriminate; try (intros; discriminate).
    + intro s. split; [congruence|lia].
    + reflexivity.
    + intros z Hz. lia.
  - intros i Hi. exfalso. apply Hi. reflexivity.
Qed.

(* C05, assembled *)
Theorem numbering_invariant : forall cfg c st,
  NoDup (chain_txids c) ->
  index_chain cfg 0 c empty_state = Ok st ->
  Inv5s (c_jubilee cfg) st /\ (forall i, dom (s_id2seq st) i -> In (fst i) (chain_txids c)).
Proof.
  intros cfg c st ND H.
  assert (FR : forall x, In x (chain_txids c) -> ~ In x (@nil N)) by (intros x _ []).
  destruct (index_chain_st5 cfg c 0 [] empty_state st (St5_empty _) ND FR H) as (seen' & [HI HS] & HQ).
  split; auto. intros i Hi. apply HS in Hi. apply HQ in Hi. destruct Hi as [Hi|[]]. exact Hi.
Qed.
