(* C29: remaining attribute lemmas — full attribute list, common <-> rarity, charms. *)
From OrdV Require Import Base.Prelude Generated Ord.Sat Proofs.Sat_proofs Proofs.Sat_count Proofs.Sat_palindrome.
Require Import ZifyBool ZifyN.
Ltac Zify.zify_post_hook ::= Z.div_mod_to_equations.

Lemma height_starting_sat_epoch : forall e, height_starting_sat (e * 210000) = epoch_starting_sat e.
Proof.
  intros e. unfold height_starting_sat, epoch_of_height. rewrite SHI_val.
  rewrite N.div_mul by lia. rewrite N.sub_diag. lia.
Qed.

Lemma sat_attributes_full : forall n, n < SAT_SUPPLY ->
  exists h o, sat_height n = Ok h /\ sat_third n = Ok o /\
    epoch_of_sat n = h / 210000 /\
    sat_cycle n = h / 1260000 /\
    sat_period n = Ok (h / 2016) /\
    sat_epoch_position n = n - height_starting_sat (h / 210000 * 210000) /\
    sat_decimal n = Ok (h, o) /\
    sat_degree n = Ok (mkDegree (h / 1260000) (h mod 210000) (h mod 2016) o) /\
    sat_rarity n = Ok (rarity_spec h o).
Proof.
  intros n Hn. destruct (sat_decompose n Hn) as (h & o & A & B & _ & _ & _ & E).
  destruct (sat_attributes n h o A B) as (D1 & D2 & D3 & D4).
  exists h, o. repeat split; try assumption.
  - apply sat_cycle_spec. exact E.
  - unfold sat_epoch_position. rewrite height_starting_sat_epoch, E. reflexivity.
Qed.

Lemma sat_common_iff : forall n, n < SAT_SUPPLY ->
  (sat_common n = true <-> sat_rarity n = Ok R_COMMON).
Proof.
  intros n Hn. destruct (sat_decompose n Hn) as (h & o & A & B & _).
  destruct (sat_attributes n h o A B) as (_ & _ & _ & R).
  rewrite (sat_common_spec n h o Hn A B), R, <- (rarity_spec_common h o).
  split; intros H.
  - apply N.eqb_eq in H. rewrite H. reflexivity.
  - inversion H as [H']. rewrite H'. reflexivity.
Qed.

(* ---------- charms ---------- *)

Definition charms_spec (nineball palindrome coin : bool) (r : N) : N :=
  let c1 := if nineball then charm_set CHARM_NINEBALL 0 else 0 in
  let c2 := if palindrome then charm_set CHARM_PALINDROME c1 else c1 in
  let c3 := if coin then charm_set CHARM_COIN c2 else c2 in
  if r =? R_EPIC then charm_set CHARM_EPIC c3
  else if r =? R_LEGENDARY then charm_set CHARM_LEGENDARY c3
  else if r =? R_MYTHIC then charm_set CHARM_MYTHIC c3
  else if r =? R_RARE then charm_set CHARM_RARE c3
  else if r =? R_UNCOMMON then charm_set CHARM_UNCOMMON c3
  else c3.

(* Sat::palindrome does not overflow for numbers of at most 16 digits *)
Lemma reverse_digits_ok : forall fuel m r j, (j <= 16)%nat ->
  r < 10 ^ N.of_nat j -> m < 10 ^ N.of_nat (16 - j) ->
  exists v, reverse_digits fuel m r = Ok v.
Proof.
  induction fuel as [|fuel IH]; intros m r j Hj Hr Hm; cbn [reverse_digits]; [exists r; reflexivity|].
  destruct (N.ltb_spec 0 m) as [Hpos|_]; [|exists r; reflexivity].
  destruct (Nat.eq_dec j 16) as [->|Hne].
  { change (10 ^ N.of_nat (16 - 16)) with 1 in Hm. lia. }
  replace (16 - j)%nat with (S (16 - S j)) in Hm by lia.
  rewrite Nat2N.inj_succ, N.pow_succ_r' in Hm.
  assert (Hr' : r * 10 + m mod 10 < 10 ^ N.of_nat (S j)).
  { rewrite Nat2N.inj_succ, N.pow_succ_r'. pose proof (N.mod_lt m 10 ltac:(lia)). lia. }
  assert (Hb : 10 ^ N.of_nat (S j) <= 10 ^ 16).
  { apply N.pow_le_mono_r; lia. }
  change (10 ^ 16) with 10000000000000000 in Hb. change U64_MAX with 18446744073709551615.
  destruct (N.ltb_spec 18446744073709551615 (r * 10 + m mod 10)) as [X|_]; [lia|].
  apply (IH _ _ (S j)); [lia|exact Hr'|lia].
Qed.

Lemma sat_palindrome_ok : forall n, n < SAT_SUPPLY -> exists p, sat_palindrome n = Ok p.
Proof.
  intros n Hn. unfold sat_palindrome.
  destruct (reverse_digits_ok (S (N.to_nat (N.size n))) n 0 0 ltac:(lia)) as [v Hv].
  - reflexivity.
  - change (10 ^ N.of_nat (16 - 0)) with 10000000000000000.
    change SAT_SUPPLY with 2099999997690000 in Hn. lia.
  - rewrite Hv. cbn [bind]. eexists. reflexivity.
Qed.

Lemma nineball_spec : forall h o, o < height_subsidy h ->
  sat_nineball (sat_of h o) = (h =? 9).
Proof.
  intros h o Ho. unfold sat_nineball, sat_of.
  change (NINEBALL_LO_COINS * COIN_VALUE) with 45000000000.
  change (NINEBALL_HI_COINS * COIN_VALUE) with 50000000000.
  assert (S9 : height_starting_sat 9 = 45000000000) by reflexivity.
  assert (S10 : height_starting_sat 10 = 50000000000) by reflexivity.
  pose proof (height_starting_sat_succ h) as Hs.
  destruct (N.lt_trichotomy h 9) as [L|[L|L]].
  - pose proof (height_starting_sat_mono (h + 1) 9 ltac:(lia)). lia.
  - subst h. assert (height_subsidy 9 = 5000000000) by reflexivity. lia.
  - pose proof (height_starting_sat_mono 10 h ltac:(lia)). lia.
Qed.

Lemma sat_charms_spec : forall n, n < SAT_SUPPLY ->
  exists h o p, sat_height n = Ok h /\ sat_third n = Ok o /\ sat_palindrome n = Ok p /\
    (p = true <-> decimal_digits_le n = rev (decimal_digits_le n)) /\
    sat_nineball n = (h =? 9) /\
    sat_coin n = (n mod 100000000 =? 0) /\
    sat_charms n = Ok (charms_spec (h =? 9) p (n mod 100000000 =? 0) (rarity_spec h o)).
Proof.
  intros n Hn. destruct (sat_decompose n Hn) as (h & o & A & B & _ & Hs & E & _).
  destruct (sat_attributes n h o A B) as (_ & _ & _ & R).
  destruct (sat_palindrome_spec n Hn) as (p & Hp & Hpal).
  assert (NB : sat_nineball n = (h =? 9)) by (rewrite E; apply nineball_spec; exact Hs).
  assert (CO : sat_coin n = (n mod 100000000 =? 0)) by reflexivity.
  exists h, o, p.
  split; [exact A|]. split; [exact B|]. split; [exact Hp|]. split; [exact Hpal|].
  split; [exact NB|]. split; [exact CO|].
  unfold sat_charms. rewrite Hp, R. cbn [bind]. rewrite NB, CO. reflexivity.
Qed.
