(* Proofs about the sat-index model: the per-transaction FIFO lemma, Impl refines the BIP
   transcription (C01), totality on valid chains, values (C02). *)
From OrdV Require Import Base.Prelude Generated Index.SatIndex.
From Coq Require Import ZifyBool ZifyN Permutation.
Ltac Zify.zify_post_hook ::= Z.div_mod_to_equations.

(* ------------------------------------------------------------------ Res monad *)

Lemma bind_ok : forall {A B} (r : Res A) (f : A -> Res B) b,
  bind r f = Ok b -> exists a, r = Ok a /\ f a = Ok b.
Proof. intros A B [a|e|t] f b H; cbn in H; try discriminate. eauto. Qed.

(* ------------------------------------------------------------------ nseq, flatten, total *)

Lemma nseq_length : forall n s, length (nseq s n) = n.
Proof. induction n; intros; cbn; auto. Qed.

Lemma nseq_app : forall a b s, nseq s (a + b) = nseq s a ++ nseq (s + N.of_nat a) b.
Proof.
  induction a; intros b s; cbn [nseq Nat.add app].
  - f_equal. lia.
  - f_equal. rewrite IHa. f_equal. f_equal. lia.
Qed.

Lemma nseq_In : forall n s x, In x (nseq s n) <-> s <= x < s + N.of_nat n.
Proof.
  induction n; intros s x; cbn [nseq In].
  - lia.
  - rewrite IHn. lia.
Qed.

Lemma nseq_NoDup : forall n s, NoDup (nseq s n).
Proof.
  induction n; intros s; cbn [nseq]; constructor; auto.
  rewrite nseq_In. lia.
Qed.

Lemma flatten_app : forall a b, flatten (a ++ b) = flatten a ++ flatten b.
Proof. intros. unfold flatten. apply flat_map_app. Qed.

Lemma flatten_cons : forall r rs, flatten (r :: rs) = flat1 r ++ flatten rs.
Proof. reflexivity. Qed.

Lemma total_cons : forall r rs, total (r :: rs) = (snd r - fst r) + total rs.
Proof. reflexivity. Qed.

Lemma total_app : forall a b, total (a ++ b) = total a + total b.
Proof. induction a; intros; cbn [app]; rewrite ?total_cons; [reflexivity|rewrite IHa; lia]. Qed.

Lemma flat1_length : forall r, length (flat1 r) = N.to_nat (snd r - fst r).
Proof. intros. unfold flat1. apply nseq_length. Qed.

Lemma flatten_length : forall rs, length (flatten rs) = N.to_nat (total rs).
Proof.
  induction rs as [|r rs IH]; [reflexivity|].
  rewrite flatten_cons, app_length, flat1_length, IH, total_cons. lia.
Qed.

(* ------------------------------------------------------------------ the FIFO lemma *)

Lemma take_sats_eq : forall op v rem rs,
  take_sats op v rem rs =
  if rem =? 0 then Ok ([], rs, [])
  else match rs with
  | [] => Panic 1
  | (s, e) :: rs' =>
    let w := if common s then [] else [(s, (op, v - rem))] in
    let count := e - s in
    if rem <? count then Ok ([(s, s + rem)], (s + rem, e) :: rs', w)
    else do '(a, rest, ws) <- take_sats op v (rem - count) rs'; Ok ((s, e) :: a, rest, w ++ ws)
  end.
Proof. intros. destruct rs; reflexivity. Qed.

(* one output: the assigned ranges are the first [rem] sats of the inputs, in order, the rest
   is what follows *)
Lemma take_sats_flat : forall rs op v rem a rest w,
  take_sats op v rem rs = Ok (a, rest, w) ->
  flatten a = firstn (N.to_nat rem) (flatten rs) /\
  flatten rest = skipn (N.to_nat rem) (flatten rs) /\
  total a = rem.
Proof.
  induction rs as [|[s e] rs IH]; intros op v rem a rest w H; rewrite take_sats_eq in H.
  - destruct (N.eqb_spec rem 0) as [E|E]; [|discriminate].
    inversion H; subst. cbn. repeat split.
  - destruct (N.eqb_spec rem 0) as [E|E].
    + inversion H; subst. cbn [N.to_nat firstn skipn]. repeat split.
    + cbv zeta in H. destruct (N.ltb_spec rem (e - s)) as [L|L].
      * inversion H; subst; clear H.
        assert (Fse : flat1 (s, e) = nseq s (N.to_nat rem) ++ nseq (s + rem) (N.to_nat (e - s - rem))).
        { unfold flat1. cbn [fst snd].
          replace (N.to_nat (e - s)) with (N.to_nat rem + N.to_nat (e - s - rem))%nat by lia.
          rewrite nseq_app. do 2 f_equal. lia. }
        assert (Fa : flat1 (s, s + rem) = nseq s (N.to_nat rem)).
        { unfold flat1. cbn [fst snd]. do 2 f_equal. lia. }
        assert (Fb : flat1 (s + rem, e) = nseq (s + rem) (N.to_nat (e - s - rem))).
        { unfold flat1. cbn [fst snd]. do 2 f_equal. lia. }
        rewrite !flatten_cons, Fse, Fa, Fb. cbn [flatten flat_map]. rewrite app_nil_r, <- app_assoc.
        repeat split.
        -- rewrite firstn_app, nseq_length, Nat.sub_diag. cbn [firstn]. rewrite app_nil_r.
           rewrite firstn_all2; [reflexivity|rewrite nseq_length; lia].
        -- rewrite skipn_app, nseq_length, Nat.sub_diag. cbn [skipn].
           rewrite skipn_all2; [reflexivity|rewrite nseq_length; lia].
        -- unfold total. cbn. lia.
      * apply bind_ok in H. destruct H as [[[a' rest'] ws] [H1 H2]].
        inversion H2; subst; clear H2.
        destruct (IH _ _ _ _ _ _ H1) as [F1 [F2 F3]].
        rewrite !flatten_cons. unfold flat1. cbn [fst snd].
        repeat split.
        -- rewrite firstn_app, nseq_length. rewrite firstn_all2 by (rewrite nseq_length; lia).
           rewrite F1. do 2 f_equal. lia.
        -- rewrite skipn_app, nseq_length. rewrite skipn_all2 by (rewrite nseq_length; lia).
           rewrite F2. cbn [app]. f_equal. lia.
        -- rewrite total_cons, F3. cbn [fst snd]. lia.
Qed.

(* enough input sats: the loop does not run out of ranges *)
Lemma take_sats_total : forall rs op v rem,
  rem <= total rs -> exists a rest w, take_sats op v rem rs = Ok (a, rest, w).
Proof.
  induction rs as [|[s e] rs IH]; intros op v rem H; rewrite take_sats_eq.
  - cbn in H. replace rem with 0 by lia. rewrite N.eqb_refl. eauto.
  - destruct (N.eqb_spec rem 0); [eauto|]. cbv zeta.
    destruct (N.ltb_spec rem (e - s)); [eauto|].
    rewrite total_cons in H. cbn [fst snd] in H.
    destruct (IH op v (rem - (e - s))) as [a [rest [w E]]]; [lia|].
    rewrite E. cbn. eauto.
Qed.

Lemma take_sats_short : forall rs op v rem,
  total rs < rem -> take_sats op v rem rs = Panic 1.
Proof.
  induction rs as [|[s e] rs IH]; intros op v rem H; rewrite take_sats_eq.
  - cbn in H. destruct (N.eqb_spec rem 0); [lia|reflexivity].
  - rewrite total_cons in H. cbn [fst snd] in H.
    destruct (N.eqb_spec rem 0); [lia|]. cbv zeta.
    destruct (N.ltb_spec rem (e - s)); [lia|].
    rewrite IH by lia. reflexivity.
Qed.

(* all outputs of a transaction: Impl's assignment is the BIP's slicing of the flat input *)
Lemma assign_outputs_flat : forall os t vout rs ents lft w,
  assign_outputs t vout os rs = Ok (ents, lft, w) ->
  bip_assign os (flatten rs) = (map flatten ents, flatten lft) /\
  map total ents = map fst os.
Proof.
  induction os as [|[v sc] os IH]; intros t vout rs ents lft w H; cbn [assign_outputs] in H.
  - inversion H; subst. cbn. split; reflexivity.
  - apply bind_ok in H. destruct H as [[[a rest] w1] [H1 H]].
    apply bind_ok in H. destruct H as [[[ents' lft'] w2] [H2 H]].
    inversion H; subst; clear H.
    destruct (take_sats_flat _ _ _ _ _ _ _ H1) as [F1 [F2 F3]].
    destruct (IH _ _ _ _ _ _ H2) as [G1 G2].
    cbn [bip_assign map fst]. rewrite <- F2, G1, <- F1, F3, G2. split; reflexivity.
Qed.

(* the per-transaction FIFO statement in one piece: the concatenation of the flattened output
   ranges followed by the leftover is the flattened input, and every output gets its value *)
Lemma split_fifo : forall os t vout rs ents lft w,
  assign_outputs t vout os rs = Ok (ents, lft, w) ->
  flatten (concat ents) ++ flatten lft = flatten rs /\ map total ents = map fst os.
Proof.
  induction os as [|[v sc] os IH]; intros t vout rs ents lft w H; cbn [assign_outputs] in H.
  - inversion H; subst. split; reflexivity.
  - apply bind_ok in H. destruct H as [[[a rest] w1] [H1 H]].
    apply bind_ok in H. destruct H as [[[ents' lft'] w2] [H2 H]].
    inversion H; subst; clear H.
    destruct (take_sats_flat _ _ _ _ _ _ _ H1) as [F1 [F2 F3]].
    destruct (IH _ _ _ _ _ _ H2) as [G1 G2].
    cbn [concat map fst]. rewrite flatten_app, <- app_assoc, G1, F1, F2, firstn_skipn, F3, G2.
    split; reflexivity.
Qed.

Lemma sum_values_cons : forall v s os, sum_values ((v, s) :: os) = v + sum_values os.
Proof. reflexivity. Qed.

Lemma assign_outputs_total : forall os t vout rs,
  sum_values os <= total rs -> exists ents lft w, assign_outputs t vout os rs = Ok (ents, lft, w).
Proof.
  induction os as [|[v sc] os IH]; intros t vout rs H; cbn [assign_outputs].
  - eauto.
  - rewrite sum_values_cons in H.
    destruct (take_sats_total rs (t, vout) v v) as [a [rest [w E]]]; [lia|].
    rewrite E. cbn [bind].
    destruct (take_sats_flat _ _ _ _ _ _ _ E) as [F1 [F2 F3]].
    assert (T : total rest = total rs - v).
    { apply (f_equal (@length N)) in F2. rewrite skipn_length, !flatten_length in F2. lia. }
    destruct (IH t (vout + 1) rest) as [ents [lft [w2 E2]]]; [lia|].
    rewrite E2. cbn. eauto.
Qed.

Lemma assign_outputs_left_total : forall os t vout rs ents lft w,
  assign_outputs t vout os rs = Ok (ents, lft, w) ->
  total lft + sum_values os = total rs.
Proof.
  induction os as [|[v sc] os IH]; intros t vout rs ents lft w H; cbn [assign_outputs] in H.
  - inversion H; subst. cbn. lia.
  - apply bind_ok in H. destruct H as [[[a rest] w1] [H1 H]].
    apply bind_ok in H. destruct H as [[[ents' lft'] w2] [H2 H]].
    inversion H; subst; clear H.
    destruct (take_sats_flat _ _ _ _ _ _ _ H1) as [F1 [F2 F3]].
    assert (L : (N.to_nat v <= length (flatten rs))%nat).
    { apply (f_equal (@length N)) in F1. rewrite firstn_length, !flatten_length in F1.
      rewrite flatten_length. lia. }
    assert (T : total rest = total rs - v).
    { apply (f_equal (@length N)) in F2. rewrite skipn_length, !flatten_length in F2. lia. }
    rewrite flatten_length in L.
    specialize (IH _ _ _ _ _ _ H2). rewrite sum_values_cons. lia.
Qed.

(* ------------------------------------------------------------------ maps *)

Lemma op_eqb_spec : forall a b : outpoint, reflect (a = b) (op_eqb a b).
Proof.
  intros [a1 a2] [b1 b2]. unfold op_eqb. cbn [fst snd].
  destruct (N.eqb_spec a1 b1), (N.eqb_spec a2 b2); cbn; constructor; congruence.
Qed.

Section MapAbs.
  Context {K A B : Type}.
  Variable keq : K -> K -> bool.
  Variable f : A -> B.
  Definition mapv (m : list (K * A)) : list (K * B) := map (fun kv => (fst kv, f (snd kv))) m.

  Lemma aget_mapv : forall k m, aget keq k (mapv m) = option_map f (aget keq k m).
  Proof.
    induction m as [|[k' v] m IH]; [reflexivity|]. cbn [mapv map aget fst snd].
    destruct (keq k k'); [reflexivity|exact IH].
  Qed.

  Lemma adel_mapv : forall k m, adel keq k (mapv m) = mapv (adel keq k m).
  Proof.
    induction m as [|[k' v] m IH]; [reflexivity|]. cbn [mapv map adel fst snd].
    destruct (keq k k'); [exact IH|]. cbn [map fst snd]. f_equal. exact IH.
  Qed.

  Lemma aset_mapv : forall k v m, aset keq k (f v) (mapv m) = mapv (aset keq k v m).
  Proof. intros. unfold aset. rewrite adel_mapv. reflexivity. Qed.
End MapAbs.

Lemma abs_utxo_mapv : forall m, abs_utxo m = mapv flatten m.
Proof. reflexivity. Qed.
Lemma vabs_mapv : forall m, vabs m = mapv total m.
Proof. reflexivity. Qed.

(* ------------------------------------------------------------------ refinement, per step *)

Lemma take_inputs_flat : forall inps m rs m',
  take_inputs inps m = Ok (rs, m') ->
  bip_inputs inps (abs_utxo m) = (flatten rs, abs_utxo m').
Proof.
  induction inps as [|i inps IH]; intros m rs m' H; cbn [take_inputs] in H.
  - inversion H; subst. reflexivity.
  - cbn [bip_inputs]. rewrite abs_utxo_mapv, aget_mapv.
    destruct (aget op_eqb i m) as [r|]; [|discriminate].
    apply bind_ok in H. destruct H as [[rest m1] [H1 H]]. inversion H; subst; clear H.
    cbn [option_map]. rewrite adel_mapv, <- abs_utxo_mapv, (IH _ _ _ H1), flatten_app. reflexivity.
Qed.

Lemma put_outputs_flat : forall ents t vout m d m' d',
  put_outputs t vout ents m d = (m', d') ->
  bip_put t vout (map flatten ents) (abs_utxo m) = abs_utxo m'.
Proof.
  induction ents as [|e ents IH]; intros t vout m d m' d' H; cbn [put_outputs] in H.
  - inversion H; subst. reflexivity.
  - cbn [map bip_put]. rewrite abs_utxo_mapv, aset_mapv, <- abs_utxo_mapv. eapply IH. exact H.
Qed.

Lemma index_txs_flat : forall ts m cbin w d m' cbin' w' d',
  index_txs ts m cbin w d = Ok (m', cbin', w', d') ->
  bip_txs ts (abs_utxo m) (flatten cbin) = (abs_utxo m', flatten cbin').
Proof.
  induction ts as [|t ts IH]; intros m cbin w d m' cbin' w' d' H; cbn [index_txs] in H.
  - inversion H; subst. reflexivity.
  - apply bind_ok in H. destruct H as [[[[m1 lft] w1] d1] [H1 H]].
    unfold index_tx in H1.
    apply bind_ok in H1. destruct H1 as [[irs m0] [I1 H1]].
    apply bind_ok in H1. destruct H1 as [[[ents lft0] w0] [I2 H1]].
    destruct (put_outputs (txid t) 0 ents m0 []) as [m2 d2] eqn:I3.
    inversion H1; subst; clear H1.
    cbn [bip_txs]. rewrite (take_inputs_flat _ _ _ _ I1).
    destruct (assign_outputs_flat _ _ _ _ _ _ _ I2) as [G1 _]. rewrite G1.
    rewrite (put_outputs_flat _ _ _ _ _ _ _ I3), <- flatten_app.
    eapply IH. exact H.
Qed.

(* ------------------------------------------------------------------ subsidy arithmetic *)

Lemma bip_constants :
  SI_BIP_SUBSIDY_COINS * SI_BIP_COIN = SI_INITIAL_SUBSIDY_COINS * SI_COIN_VALUE /\
  SI_BIP_HALVING = SI_HALVING_INTERVAL.
Proof. vm_compute. split; reflexivity. Qed.

(* the BIP shifts without a cut-off: from epoch 33 on the shift already gives 0 *)
Lemma subsidy_bip : forall h, subsidy h = bip_subsidy h.
Proof.
  intros h. unfold subsidy, bip_subsidy, epoch_subsidy.
  destruct bip_constants as [C1 C2]. rewrite C1, C2.
  destruct (N.ltb_spec (h / SI_HALVING_INTERVAL) SI_FIRST_POST_SUBSIDY) as [L|L]; [reflexivity|].
  symmetry. rewrite N.shiftr_div_pow2. apply N.div_small.
  apply N.lt_le_trans with (2 ^ SI_FIRST_POST_SUBSIDY).
  - vm_compute. reflexivity.
  - apply N.pow_le_mono_r; [discriminate|exact L].
Qed.

(* the epoch table is consistent with the subsidies: checked for the 33 epochs with a subsidy *)
Definition table_step_ok (e : N) : bool :=
  epoch_start (e + 1) =? epoch_start e + SI_HALVING_INTERVAL * epoch_subsidy e.

Lemma table_steps : forallb table_step_ok (map N.of_nat (seq 0 34)) = true.
Proof. vm_compute. reflexivity. Qed.

Lemma table_step : forall e, epoch_start (e + 1) = epoch_start e + SI_HALVING_INTERVAL * epoch_subsidy e.
Proof.
  intros e. destruct (N.ltb_spec e 34) as [L|L].
  - pose proof table_steps as T. rewrite forallb_forall in T.
    specialize (T e). apply N.eqb_eq. apply T.
    apply in_map_iff. exists (N.to_nat e). split; [lia|]. apply in_seq. lia.
  - unfold epoch_start, epoch_subsidy.
    replace (e <? SI_FIRST_POST_SUBSIDY) with false by (symmetry; apply N.ltb_ge; unfold SI_FIRST_POST_SUBSIDY; lia).
    assert (Len : length SI_EPOCH_STARTING_SATS = 34%nat) by reflexivity.
    rewrite !nth_overflow by (rewrite Len; lia). lia.
Qed.

Lemma starting_sat_succ : forall h, starting_sat (h + 1) = starting_sat h + subsidy h.
Proof.
  intros h. unfold starting_sat, subsidy.
  assert (HP : 0 < SI_HALVING_INTERVAL) by (vm_compute; reflexivity).
  set (H := SI_HALVING_INTERVAL) in *.
  set (e := h / H).
  assert (D : h = H * e + h mod H) by (apply N.div_mod; lia).
  assert (M : h mod H < H) by (apply N.mod_lt; lia).
  destruct (N.eq_dec (h mod H + 1) H) as [E|E].
  - assert (E1 : (h + 1) / H = e + 1).
    { symmetry. apply (N.div_unique (h + 1) H (e + 1) 0); lia. }
    rewrite E1, table_step. fold H. nia.
  - assert (E1 : (h + 1) / H = e).
    { symmetry. apply (N.div_unique (h + 1) H e (h mod H + 1)); lia. }
    rewrite E1. nia.
Qed.

Lemma starting_sat_0 : starting_sat 0 = 0.
Proof. vm_compute. reflexivity. Qed.

Lemma starting_sat_bip : forall h, starting_sat h = bip_first_ordinal h.
Proof.
  intros h. unfold bip_first_ordinal. rewrite <- (N2Nat.id h) at 1.
  induction (N.to_nat h) as [|n IH].
  - exact starting_sat_0.
  - replace (N.of_nat (S n)) with (N.of_nat n + 1) by lia.
    rewrite starting_sat_succ, IH, subsidy_bip. reflexivity.
Qed.

(* ------------------------------------------------------------------ C01: Impl refines Spec *)

Lemma index_block_height : forall st b st', index_block st b = Ok st' -> height st' = height st + 1.
Proof.
  intros st b st' H. unfold index_block in H. destruct b as [|cb rest].
  - inversion H; subst. reflexivity.
  - apply bind_ok in H. destruct H as [[[[m1 cbin] w1] d1] [H1 H]].
    apply bind_ok in H. destruct H as [[[ents lostr] w2] [H2 H]].
    destruct (put_outputs (txid cb) 0 ents m1 []) as [m2 d2].
    destruct (lost_writes lostr (lost_sats st)) as [w3 ls].
    inversion H; subst. reflexivity.
Qed.

Lemma index_block_refines : forall st b st',
  index_block st b = Ok st' -> abs st' = bip_block (height st) (abs st) b.
Proof.
  intros st b st' H. unfold index_block in H. destruct b as [|cb rest].
  - inversion H; subst. reflexivity.
  - apply bind_ok in H. destruct H as [[[[m1 cbin] w1] d1] [H1 H]].
    apply bind_ok in H. destruct H as [[[ents lostr] w2] [H2 H]].
    destruct (put_outputs (txid cb) 0 ents m1 []) as [m2 d2] eqn:H3.
    destruct (lost_writes lostr (lost_sats st)) as [w3 ls].
    inversion H; subst; clear H.
    unfold bip_block, abs. cbn [utxo lost b_utxo b_lost]. cbv zeta.
    apply index_txs_flat in H1.
    match type of H1 with bip_txs _ _ ?x = _ =>
      assert (C : x = nseq (bip_first_ordinal (height st)) (N.to_nat (bip_subsidy (height st)))) end.
    { rewrite <- starting_sat_bip, <- subsidy_bip.
      destruct (N.ltb_spec 0 (subsidy (height st))) as [L|L].
      - cbn [flatten flat_map]. unfold flat1. cbn [fst snd]. rewrite app_nil_r. do 2 f_equal. lia.
      - replace (subsidy (height st)) with 0 by lia. reflexivity. }
    rewrite <- C, H1.
    destruct (assign_outputs_flat _ _ _ _ _ _ _ H2) as [G1 _]. rewrite G1.
    rewrite (put_outputs_flat _ _ _ _ _ _ _ H3), flatten_app. reflexivity.
Qed.

Lemma run_from_refines : forall c st st',
  run_from st c = Ok st' -> abs st' = bip_run (height st) (abs st) c.
Proof.
  induction c as [|b c IH]; intros st st' H; cbn [run_from] in H.
  - inversion H; subst. reflexivity.
  - apply bind_ok in H. destruct H as [st1 [H1 H]].
    cbn [bip_run]. rewrite <- (index_block_refines _ _ _ H1), <- (index_block_height _ _ _ H1).
    apply IH. exact H.
Qed.

Definition bip_init : bstate := mkB [] [].

Theorem impl_refines_bip : forall c st, run c = Ok st -> abs st = bip_run 0 bip_init c.
Proof. intros c st H. apply (run_from_refines c init st H). Qed.

(* ------------------------------------------------------------------ valid chains are indexed; values *)

Lemma take_inputs_valid : forall inps m s u',
  v_inputs inps (vabs m) = Some (s, u') ->
  exists rs m', take_inputs inps m = Ok (rs, m') /\ total rs = s /\ vabs m' = u'.
Proof.
  induction inps as [|i inps IH]; intros m s u' H; cbn [v_inputs] in H.
  - inversion H; subst. exists [], m. repeat split.
  - rewrite vabs_mapv, aget_mapv in H. cbn [take_inputs].
    destruct (aget op_eqb i m) as [r|]; cbn [option_map] in H; [|discriminate].
    rewrite adel_mapv, <- vabs_mapv in H.
    destruct (v_inputs inps (vabs (adel op_eqb i m))) as [[s1 u1]|] eqn:E; [|discriminate].
    inversion H; subst; clear H.
    destruct (IH _ _ _ E) as [rs [m' [T1 [T2 T3]]]].
    rewrite T1. cbn [bind]. exists (r ++ rs), m'. rewrite total_app, T2. repeat split. exact T3.
Qed.

Lemma put_outputs_values : forall ents os t vout m d,
  map total ents = map fst os ->
  vabs (fst (put_outputs t vout ents m d)) = v_put t vout os (vabs m).
Proof.
  induction ents as [|e ents IH]; intros os t vout m d H; destruct os as [|[v sc] os]; try discriminate.
  - reflexivity.
  - cbn [map fst] in H. inversion H as [[H0 H1]].
    cbn [put_outputs v_put]. rewrite (IH os) by exact H1.
    rewrite !vabs_mapv, <- (aset_mapv op_eqb total (t, vout) e m). reflexivity.
Qed.

Lemma index_txs_valid : forall ts m cbin w d base fees u' fees',
  v_txs ts (vabs m) fees = Some (u', fees') ->
  total cbin = base + fees ->
  exists m' cbin' w' d', index_txs ts m cbin w d = Ok (m', cbin', w', d') /\
    vabs m' = u' /\ total cbin' = base + fees'.
Proof.
  induction ts as [|t ts IH]; intros m cbin w d base fees u' fees' H T; cbn [v_txs] in H.
  - inversion H; subst. cbn [index_txs]. eauto 10.
  - destruct (v_inputs (ins t) (vabs m)) as [[si u1]|] eqn:E; [|discriminate].
    destruct (N.leb_spec (sum_values (outs t)) si) as [L|L]; [|discriminate].
    destruct (take_inputs_valid _ _ _ _ E) as [rs [m0 [T1 [T2 T3]]]].
    destruct (assign_outputs_total (outs t) (txid t) 0 rs) as [ents [lft [w0 A]]]; [lia|].
    cbn [index_txs]. unfold index_tx. rewrite T1. cbn [bind]. rewrite A. cbn [bind].
    destruct (put_outputs (txid t) 0 ents m0 []) as [m2 d2] eqn:P. cbn [bind].
    destruct (split_fifo _ _ _ _ _ _ _ A) as [_ V].
    pose proof (put_outputs_values ents (outs t) (txid t) 0 m0 [] V) as PV. rewrite P in PV. cbn [fst] in PV.
    pose proof (assign_outputs_left_total _ _ _ _ _ _ _ A) as LT.
    eapply IH.
    + rewrite PV, T3. exact H.
    + rewrite total_app. lia.
Qed.

Lemma index_block_valid : forall st b u',
  v_block (height st) (vabs (utxo st)) b = Some u' ->
  exists st', index_block st b = Ok st' /\ vabs (utxo st') = u'.
Proof.
  intros st b u' H. unfold v_block in H. destruct b as [|cb rest]; [discriminate|].
  destruct (v_txs rest (vabs (utxo st)) 0) as [[u1 fees]|] eqn:E; [|discriminate].
  destruct (N.leb_spec (sum_values (outs cb)) (subsidy (height st) + fees)) as [L|L]; [|discriminate].
  inversion H; subst; clear H.
  unfold index_block.
  set (cbin0 := if 0 <? subsidy (height st) then _ else _).
  assert (T0 : total cbin0 = subsidy (height st) + 0).
  { subst cbin0. destruct (N.ltb_spec 0 (subsidy (height st))); cbn; lia. }
  destruct (index_txs_valid rest (utxo st) cbin0 [] [] _ _ _ _ E T0) as [m1 [cbin [w1 [d1 [I [V1 T1]]]]]].
  rewrite I. cbn [bind].
  destruct (assign_outputs_total (outs cb) (txid cb) 0 cbin) as [ents [lostr [w2 A]]]; [lia|].
  rewrite A. cbn [bind].
  destruct (put_outputs (txid cb) 0 ents m1 []) as [m2 d2] eqn:P.
  destruct (lost_writes lostr (lost_sats st)) as [w3 ls].
  eexists. split; [reflexivity|]. cbn [utxo].
  destruct (split_fifo _ _ _ _ _ _ _ A) as [_ V].
  pose proof (put_outputs_values ents (outs cb) (txid cb) 0 m1 [] V) as PV. rewrite P in PV.
  cbn [fst] in PV. rewrite PV, V1. reflexivity.
Qed.

Lemma run_from_valid : forall c st u',
  v_run (height st) (vabs (utxo st)) c = Some u' ->
  exists st', run_from st c = Ok st' /\ vabs (utxo st') = u'.
Proof.
  induction c as [|b c IH]; intros st u' H; cbn [v_run] in H.
  - inversion H; subst. exists st. split; reflexivity.
  - destruct (v_block (height st) (vabs (utxo st)) b) as [u1|] eqn:E; [|discriminate].
    destruct (index_block_valid _ _ _ E) as [st1 [I V]].
    cbn [run_from]. rewrite I. cbn [bind].
    apply IH. rewrite (index_block_height _ _ _ I), V. exact H.
Qed.

(* every valid chain is indexed without panic, and every output's ranges add up to its value *)
Theorem valid_chain_indexed : forall c,
  valid c = true ->
  exists st, run c = Ok st /\ v_run 0 [] c = Some (vabs (utxo st)).
Proof.
  intros c H. unfold valid in H. destruct (v_run 0 [] c) as [u|] eqn:E; [|discriminate].
  destruct (run_from_valid c init u E) as [st [R V]].
  exists st. split; [exact R|]. rewrite V. reflexivity.
Qed.

(* ------------------------------------------------------------------ map lookups after updates *)

Section MapLemmas.
  Context {V : Type}.
  Implicit Types m : list (outpoint * V).

  Lemma aget_adel_same : forall k m, aget op_eqb k (adel op_eqb k m) = None.
  Proof.
    induction m as [|[k' v] m IH]; [reflexivity|]. cbn [adel].
    destruct (op_eqb k k') eqn:E; [exact IH|]. cbn [aget]. rewrite E. exact IH.
  Qed.

  Lemma aget_adel_other : forall k k' m, k <> k' -> aget op_eqb k (adel op_eqb k' m) = aget op_eqb k m.
  Proof.
    intros k k' m N. induction m as [|[k2 v] m IH]; [reflexivity|]. cbn [adel aget].
    destruct (op_eqb_spec k' k2) as [E|E].
    - subst. destruct (op_eqb_spec k k2); [contradiction|exact IH].
    - cbn [aget]. destruct (op_eqb k k2); [reflexivity|exact IH].
  Qed.

  Lemma aget_aset_same : forall k v m, aget op_eqb k (aset op_eqb k v m) = Some v.
  Proof. intros. unfold aset. cbn [aget]. destruct (op_eqb_spec k k); [reflexivity|contradiction]. Qed.

  Lemma aget_aset_other : forall k k' v m, k <> k' -> aget op_eqb k (aset op_eqb k' v m) = aget op_eqb k m.
  Proof.
    intros. unfold aset. cbn [aget]. destruct (op_eqb_spec k k'); [contradiction|].
    apply aget_adel_other. assumption.
  Qed.
End MapLemmas.

Lemma put_outputs_get_other : forall ents t v0 m d o,
  (fst o <> t \/ snd o < v0) ->
  aget op_eqb o (fst (put_outputs t v0 ents m d)) = aget op_eqb o m.
Proof.
  induction ents as [|e ents IH]; intros t v0 m d o H; cbn [put_outputs]; [reflexivity|].
  rewrite IH by lia. apply aget_aset_other. destruct o as [ot ov]. cbn [fst snd] in H.
  intros E. inversion E. subst. lia.
Qed.

(* after a transaction's outputs are inserted, (txid, vout) holds exactly the new output,
   whatever was stored under that outpoint before *)
Lemma put_outputs_get : forall ents t v0 m d k,
  (k < length ents)%nat ->
  aget op_eqb (t, v0 + N.of_nat k) (fst (put_outputs t v0 ents m d)) = Some (nth k ents []).
Proof.
  induction ents as [|e ents IH]; intros t v0 m d k H; cbn [length] in H; [lia|].
  cbn [put_outputs]. destruct k as [|k].
  - rewrite put_outputs_get_other by (cbn [fst snd]; lia).
    replace (v0 + N.of_nat 0) with v0 by lia. apply aget_aset_same.
  - replace (v0 + N.of_nat (S k)) with (v0 + 1 + N.of_nat k) by lia.
    rewrite IH by lia. reflexivity.
Qed.

(* what an insert overwrote is recorded as destroyed *)
Lemma put_outputs_destroyed_first : forall e ents t v0 m d old,
  aget op_eqb (t, v0) m = Some old ->
  exists d', snd (put_outputs t v0 (e :: ents) m d) = (d ++ old) ++ d'.
Proof.
  intros e ents t v0 m d old H. cbn [put_outputs]. rewrite H.
  generalize (aset op_eqb (t, v0) e m) as m1. generalize (d ++ old) as d1. generalize (v0 + 1) as v1.
  induction ents as [|e2 ents IH]; intros v1 d1 m1; cbn [put_outputs snd].
  - exists []. rewrite app_nil_r. reflexivity.
  - destruct (aget op_eqb (t, v1) m1) as [o|].
    + destruct (IH (v1 + 1) (d1 ++ o) (aset op_eqb (t, v1) e2 m1)) as [d' E]. rewrite E.
      exists (o ++ d'). rewrite !app_assoc. reflexivity.
    + apply IH.
Qed.
