(* Lemmas about the batch bookkeeping model (coq/Wallet/Batch.v). *)
From OrdV Require Import Base.Prelude Generated Wallet.Batch.
Require Import ZifyBool ZifyN.

Definition shift (k : N) (r : option (N * N)) : option (N * N) :=
  match r with Some (j, o) => Some (j + k, o) | None => None end.

Lemma locate_app : forall l1 l2 x,
  locate (l1 ++ l2) (sum l1 + x) = shift (N.of_nat (length l1)) (locate l2 x).
Proof.
  induction l1 as [|v r IH]; intros l2 x; cbn [app sum length locate].
  - replace (0 + x) with x by lia. destruct (locate l2 x) as [[j o]|]; cbn [shift]; [|reflexivity].
    f_equal. f_equal. lia.
  - destruct (N.ltb_spec (v + sum r + x) v); [lia|].
    replace (v + sum r + x - v) with (sum r + x) by lia. rewrite IH.
    destruct (locate l2 x) as [[j o]|]; cbn [shift]; [|reflexivity]. f_equal. f_equal. lia.
Qed.

(* the start of the i-th of a run of positive values *)
Lemma locate_prefix : forall ps tl i x,
  (i < length ps)%nat -> x < nth i ps 0 ->
  locate (ps ++ tl) (sum (firstn i ps) + x) = Some (N.of_nat i, x).
Proof.
  induction ps as [|p r IH]; intros tl i x Hi Hx; cbn [length] in Hi; [lia|].
  destruct i as [|i]; cbn [firstn sum nth app locate] in *.
  - replace (0 + x) with x by lia. destruct (N.ltb_spec x p); [reflexivity|lia].
  - destruct (N.ltb_spec (p + sum (firstn i r) + x) p); [lia|].
    replace (p + sum (firstn i r) + x - p) with (sum (firstn i r) + x) by lia.
    rewrite IH by (try exact Hx; lia). f_equal. f_equal. lia.
Qed.

Lemma assign_false : forall ps P first,
  assign false P first ps = (map (fun i => P + sum (firstn i ps)) (seq 0 (length ps)), ps).
Proof.
  induction ps as [|p r IH]; intros P first; cbn [assign length seq map]; [reflexivity|].
  rewrite IH. cbn [andb]. f_equal. cbn [firstn sum]. f_equal; [lia|].
  rewrite <- seq_shift, map_map. apply map_ext. intros i. cbn [firstn sum]. lia.
Qed.

Lemma assign_true : forall ps P first,
  assign true P first ps =
  (map (fun _ => P) (seq 0 (length ps)), match ps with p :: _ => if first then [p] else [] | [] => [] end).
Proof.
  induction ps as [|p r IH]; intros P first; cbn [assign length seq map]; [reflexivity|].
  rewrite IH. f_equal.
  - f_equal. rewrite <- seq_shift, map_map. reflexivity.
  - destruct first; cbn [andb negb]; destruct r; reflexivity.
Qed.

Lemma sum_firstn_lt : forall ps i, (i < length ps)%nat -> Forall (fun v => 0 < v) ps ->
  sum (firstn i ps) + nth i ps 0 <= sum ps /\ 0 < nth i ps 0.
Proof.
  induction ps as [|p r IH]; intros i Hi Hp; cbn [length] in Hi; [lia|].
  inversion Hp as [|? ? Hp0 Hpr]. subst. destruct i as [|i]; cbn [firstn sum nth].
  - lia.
  - destruct (IH i ltac:(lia) Hpr). lia.
Qed.

Lemma entry_postages_length : forall b, BatchOK b -> length (entry_postages b) = b_n b.
Proof.
  intros b [_ H]. unfold entry_postages. destruct (b_mode b); try apply repeat_length.
  destruct H as [Hl _]. apply firstn_length_le. exact Hl.
Qed.

Lemma entry_postages_pos : forall b, BatchOK b -> Forall (fun v => 0 < v) (entry_postages b).
Proof.
  intros b [_ H]. unfold entry_postages.
  destruct (b_mode b); try (apply Forall_forall; intros x Hx; apply repeat_spec in Hx; subst; exact H).
  exact (proj2 H).
Qed.

Lemma sum_app : forall l1 l2, sum (l1 ++ l2) = sum l1 + sum l2.
Proof. induction l1 as [|x r IH]; intros l2; cbn [app sum]; [reflexivity|rewrite IH; lia]. Qed.

Theorem reported_is_located : forall b, BatchOK b ->
  map (locate (reveal_outputs b)) (pointers b) = map Some (reported b).
Proof.
  intros b HOK.
  pose proof (entry_postages_length b HOK) as Hlen.
  pose proof (entry_postages_pos b HOK) as Hpos.
  unfold pointers, reported, reveal_outputs, destination_values, postages, reported_one.
  set (P := sum (map fst (b_parents b))).
  set (tail := (if b_etching b && b_premine b then [TB_TARGET_POSTAGE] else []) ++ (if b_etching b then [0] else [])).
  assert (Hnp : N.of_nat (length (map fst (b_parents b))) = N.of_nat (length (b_parents b))) by (rewrite map_length; reflexivity).
  destruct (b_mode b) eqn:Hm; cbn [is_same_sat].
  - (* same-sat *)
    rewrite assign_true. cbn [fst snd]. rewrite Hlen, !map_map. apply map_ext_in. intros i Hi.
    destruct (entry_postages b) as [|p r] eqn:He; [cbn [length] in Hlen; destruct HOK; lia|].
    inversion Hpos as [|? ? Hp0 _]. subst.
    replace P with (P + 0) by lia. unfold P. rewrite locate_app. cbn [sum app locate].
    destruct (N.ltb_spec 0 (p + 0)); [|lia]. cbn [shift]. rewrite Hnp. f_equal.
  - (* satpoints *)
    rewrite assign_false. cbn [fst snd]. rewrite Hlen, !map_map. apply map_ext_in. intros i Hi.
    apply in_seq in Hi. unfold P. rewrite locate_app.
    destruct (sum_firstn_lt (entry_postages b) i ltac:(lia) Hpos) as [_ Hnz].
    replace (sum (firstn i (entry_postages b))) with (sum (firstn i (entry_postages b)) + 0) by lia.
    rewrite locate_prefix by (try exact Hnz; lia). cbn [shift]. rewrite Hnp. f_equal.
  - (* separate-outputs *)
    rewrite assign_false. cbn [fst snd]. rewrite Hlen, !map_map. apply map_ext_in. intros i Hi.
    apply in_seq in Hi. unfold P. rewrite locate_app.
    destruct (sum_firstn_lt (entry_postages b) i ltac:(lia) Hpos) as [_ Hnz].
    replace (sum (firstn i (entry_postages b))) with (sum (firstn i (entry_postages b)) + 0) by lia.
    rewrite locate_prefix by (try exact Hnz; lia). cbn [shift]. rewrite Hnp. f_equal.
  - (* shared-output *)
    rewrite assign_false. cbn [fst snd]. rewrite Hlen, !map_map. apply map_ext_in. intros i Hi.
    apply in_seq in Hi. unfold P. rewrite locate_app.
    destruct (sum_firstn_lt (entry_postages b) i ltac:(lia) Hpos) as [Hlt Hnz].
    cbn [app locate].
    destruct (N.ltb_spec (sum (firstn i (entry_postages b))) (sum (entry_postages b))); [|lia].
    cbn [shift]. rewrite Hnp. unfold postages. rewrite Hm. cbn [is_same_sat]. rewrite assign_false. cbn [snd].
    f_equal.
Qed.

(* parents: input j carries value v_j and output j returns v_j, so position and offset are kept *)
Theorem parents_return : forall b j v off,
  nth_error (b_parents b) j = Some (v, off) -> off < v ->
  locate (reveal_outputs b) (sum (firstn j (map fst (b_parents b))) + off) = Some (N.of_nat j, off).
Proof.
  intros b j v off Hn Hoff. unfold reveal_outputs.
  assert (Hj : (j < length (map fst (b_parents b)))%nat).
  { rewrite map_length. apply nth_error_Some. rewrite Hn. discriminate. }
  apply locate_prefix; [exact Hj|].
  assert (Hv : nth j (map fst (b_parents b)) 0 = v).
  { change (nth j (map fst (b_parents b)) (fst (0, 0)) = v). rewrite map_nth.
    apply nth_error_nth with (d := (0, 0)) in Hn. rewrite Hn. reflexivity. }
  rewrite Hv. exact Hoff.
Qed.

(* the same, with the position taken in the stream of the reveal inputs: the first inputs are
   the parents' outputs, in order *)
Theorem parents_return_fifo : forall b c j v off,
  nth_error (b_parents b) j = Some (v, off) -> off < v ->
  nth_error (reveal_input_values b c) j = Some v /\
  locate (reveal_outputs b) (sum (firstn j (reveal_input_values b c)) + off) = Some (N.of_nat j, off).
Proof.
  intros b c j v off Hn Hoff.
  assert (Hj : (j < length (map fst (b_parents b)))%nat).
  { rewrite map_length. apply nth_error_Some. rewrite Hn. discriminate. }
  unfold reveal_input_values. split.
  - rewrite nth_error_app1 by exact Hj. rewrite nth_error_map, Hn. reflexivity.
  - rewrite firstn_app. replace (j - length (map fst (b_parents b)))%nat with 0%nat by lia.
    cbn [firstn]. rewrite app_nil_r. apply (parents_return b j v off Hn Hoff).
Qed.

(* the commit output is the input right after them (and after the satpoints) *)
Theorem commit_input_position : forall b c,
  nth_error (reveal_input_values b c) (N.to_nat (commit_input b)) = Some c /\
  (N.to_nat (commit_input b) + 1 = length (reveal_input_values b c))%nat.
Proof.
  intros b c. unfold commit_input, reveal_input_values. rewrite Nat2N.id.
  rewrite app_assoc. split.
  - rewrite nth_error_app2.
    + rewrite app_length, map_length. destruct (b_mode b); rewrite Nat.sub_diag; reflexivity.
    + rewrite app_length, map_length. destruct (b_mode b); cbn [length]; lia.
  - rewrite app_length, app_length, map_length. destruct (b_mode b); cbn [length]; lia.
Qed.

(* rune: the reported output is the one the runestone points to: the rune change output of
   TARGET_POSTAGE, which exists and is followed by the runestone (OP_RETURN) output *)
Theorem rune_output : forall b v, rune_vout b = Some v ->
  runestone_pointer b = Some v /\
  nth_error (reveal_outputs b) (N.to_nat v) = Some TB_TARGET_POSTAGE /\
  (N.to_nat v + 2 = length (reveal_outputs b))%nat.
Proof.
  intros b v H. unfold runestone_pointer. split; [exact H|].
  unfold rune_vout in H. destruct (b_etching b && b_premine b) eqn:He; [|discriminate].
  inversion H. subst v. clear H. apply andb_true_iff in He. destruct He as [He Hp].
  unfold reveal_outputs. rewrite He, Hp. cbn [andb]. rewrite Nat2N.id. split.
  - rewrite app_assoc. rewrite nth_error_app2; rewrite app_length, map_length; [|lia].
    rewrite Nat.sub_diag. reflexivity.
  - rewrite !app_length, map_length. cbn [length]. lia.
Qed.
