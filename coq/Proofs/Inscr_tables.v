(* Lemmas about the association-list tables of Index/Inscr.v. *)
From OrdV Require Import Base.Prelude Index.Inscr.
From Coq Require Import Permutation.

Section TableLemmas.
  Context {K V : Type} (eqb : K -> K -> bool).
  Hypothesis eqb_eq : forall a b, eqb a b = true <-> a = b.

  Lemma eqb_refl' : forall a, eqb a a = true.
  Proof. intros a. apply eqb_eq. reflexivity. Qed.

  Lemma eqb_neq : forall a b, a <> b -> eqb a b = false.
  Proof.
    intros a b H. destruct (eqb a b) eqn:E; auto. apply eqb_eq in E. contradiction.
  Qed.

  Lemma tget_tset_same : forall k (v : V) t, tget eqb k (tset eqb k v t) = Some v.
  Proof.
    intros k v t. induction t as [|[k' v'] r IH]; cbn [tset tget].
    - rewrite eqb_refl'. reflexivity.
    - destruct (eqb k k') eqn:E; cbn [tget].
      + rewrite eqb_refl'. reflexivity.
      + rewrite E. exact IH.
  Qed.

  Lemma tget_tset_other : forall k k' (v : V) t, k <> k' -> tget eqb k (tset eqb k' v t) = tget eqb k t.
  Proof.
    intros k k' v t H. induction t as [|[k2 v2] r IH]; cbn [tset tget].
    - rewrite (eqb_neq _ _ H). reflexivity.
    - destruct (eqb k' k2) eqn:E; cbn [tget].
      + apply eqb_eq in E. subst k2. rewrite (eqb_neq _ _ H). reflexivity.
      + destruct (eqb k k2); auto.
  Qed.

  Lemma tget_tset : forall k k' (v : V) t,
    tget eqb k (tset eqb k' v t) = if eqb k k' then Some v else tget eqb k t.
  Proof.
    intros k k' v t. destruct (eqb k k') eqn:E.
    - apply eqb_eq in E. subst. apply tget_tset_same.
    - apply tget_tset_other. intro H. subst. rewrite eqb_refl' in E. discriminate.
  Qed.

  Lemma tget_tdel_same : forall k (t : list (K * V)), tget eqb k (tdel eqb k t) = None.
  Proof.
    intros k t. unfold tdel. induction t as [|[k' v'] r IH]; cbn [filter tget fst]; auto.
    destruct (eqb k k') eqn:E; cbn [negb tget]; auto. rewrite E. exact IH.
  Qed.

  Lemma tget_tdel_other : forall k k' (t : list (K * V)), k <> k' -> tget eqb k (tdel eqb k' t) = tget eqb k t.
  Proof.
    intros k k' t H. unfold tdel. induction t as [|[k2 v2] r IH]; cbn [filter tget fst]; auto.
    destruct (eqb k' k2) eqn:E; cbn [negb tget].
    - apply eqb_eq in E. subst k2. rewrite (eqb_neq _ _ H). exact IH.
    - destruct (eqb k k2); auto.
  Qed.

  Lemma tget_In : forall k (v : V) t, tget eqb k t = Some v -> In (k, v) t.
  Proof.
    intros k v t. induction t as [|[k' v'] r IH]; cbn [tget]; [discriminate|].
    destruct (eqb k k') eqn:E; intro H.
    - apply eqb_eq in E. inversion H. subst. left. reflexivity.
    - right. auto.
  Qed.

  Lemma In_tget : forall k (v : V) t, In (k, v) t -> exists v', tget eqb k t = Some v'.
  Proof.
    intros k v t. induction t as [|[k' v'] r IH]; cbn [tget In]; [tauto|].
    intros [H|H].
    - inversion H. subst. rewrite eqb_refl'. eauto.
    - destruct (eqb k k'); eauto.
  Qed.

  Lemma tget_keys : forall k (t : list (K * V)), tget eqb k t <> None <-> In k (map fst t).
  Proof.
    intros k t. induction t as [|[k' v'] r IH]; cbn [tget map In fst]; [tauto|].
    destruct (eqb k k') eqn:E.
    - apply eqb_eq in E. subst. split; [auto|discriminate].
    - rewrite IH. split; [auto|]. intros [H|H]; auto. subst. rewrite eqb_refl' in E. discriminate.
  Qed.
End TableLemmas.

Lemma pair_eqb_eq : forall a b, pair_eqb a b = true <-> a = b.
Proof.
  intros [a1 a2] [b1 b2]. unfold pair_eqb. cbn [fst snd].
  rewrite andb_true_iff, !N.eqb_eq. split; [intros [? ?]; subst; auto | intro H; inversion H; auto].
Qed.

Definition Neqb_eq := N.eqb_eq.
Definition Zeqb_eq := Z.eqb_eq.

(* sort_by is a permutation *)
Lemma ins_by_perm : forall {A} (key : A -> N) x l, Permutation (ins_by key x l) (x :: l).
Proof.
  intros A key x l. induction l as [|y r IH]; cbn [ins_by]; auto.
  destruct (key x <=? key y); auto.
  eapply perm_trans; [apply perm_skip, IH | apply perm_swap].
Qed.

Lemma sort_by_perm : forall {A} (key : A -> N) l, Permutation (sort_by key l) l.
Proof.
  intros A key l. induction l as [|x r IH]; cbn [sort_by fold_right]; auto.
  eapply perm_trans; [apply ins_by_perm|]. apply perm_skip. exact IH.
Qed.
