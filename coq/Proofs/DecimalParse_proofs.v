(* Decimal::from_str is total and sound; to_integer of a parsed decimal is exact (C34, C31). *)
From OrdV Require Import Base.Prelude Ord.Decimal Proofs.Decimal_proofs.
Require Import ZifyBool ZifyN.
Ltac Zify.zify_post_hook ::= Z.div_mod_to_equations.

(* ------------------------------------------------------------ denotation *)
(* an unsigned integer literal: optional '+', then at least one ASCII digit *)
Definition uint_lit (s : list N) (v : N) : Prop :=
  exists ds, (s = ds \/ s = C_PLUS :: ds) /\ ds <> [] /\ forallb is_digit ds = true /\ v = dec_val ds.

(* [s] is a decimal number and value / 10^scale is the number it denotes:
   s = I "." F (I an integer literal or empty, F digits or empty, not both empty), denoting
   I + F / 10^|F|;  or s = I.  The equation is cross-multiplied to stay in N. *)
Definition dec_denotes (s : list N) (value scale : N) : Prop :=
  (exists i f I, s = i ++ C_DOT :: f /\ ~ In C_DOT i /\ (i <> [] \/ f <> []) /\
     ((i = [] /\ I = 0) \/ uint_lit i I) /\ forallb is_digit f = true /\
     value * 10 ^ N.of_nat (length f) = (I * 10 ^ N.of_nat (length f) + dec_val f) * 10 ^ scale)
  \/ (~ In C_DOT s /\ uint_lit s value /\ scale = 0).

(* no trailing zero digit in the fraction *)
Definition canonical (value scale : N) : Prop := scale = 0 \/ value mod 10 <> 0.

(* ------------------------------------------------------------ pieces *)
Lemma parse_uint_ok bound s v : parse_uint bound s = Ok v -> uint_lit s v /\ v < bound.
Proof.
  unfold parse_uint, uint_lit. intro H.
  set (body := match s with c :: r => if c =? C_PLUS then r else s | [] => s end) in *.
  assert (Hb : s = body \/ s = C_PLUS :: body).
  { unfold body. destruct s as [|c r]; [left; reflexivity|].
    destruct (N.eqb_spec c C_PLUS) as [->|_]; [right|left]; reflexivity. }
  destruct body as [|b0 br] eqn:E; [discriminate|].
  destruct (forallb is_digit (b0 :: br)) eqn:D; [|discriminate].
  destruct (N.ltb_spec (dec_val (b0 :: br)) bound); [|discriminate].
  injection H as <-. split; [|assumption].
  exists (b0 :: br). repeat split; try assumption. discriminate.
Qed.

Lemma parse_uint_total bound s t : parse_uint bound s <> Panic t.
Proof.
  unfold parse_uint. destruct (match s with c :: r => if c =? C_PLUS then r else s | [] => s end); [discriminate|].
  destruct (forallb _ _); [|discriminate]. destruct (_ <? _); discriminate.
Qed.

Lemma split_once_some c : forall s a b, split_once c s = Some (a, b) -> s = a ++ c :: b /\ ~ In c a.
Proof.
  induction s as [|x r IH]; intros a b H; [discriminate|]. cbn [split_once] in H.
  destruct (N.eqb_spec x c) as [->|NE].
  - injection H as <- <-. split; [reflexivity|intros []].
  - destruct (split_once c r) as [[a' b']|] eqn:E; [|discriminate]. injection H as <- <-.
    destruct (IH _ _ eq_refl) as [-> Hn]. split; [reflexivity|].
    intros [I|I]; [congruence|exact (Hn I)].
Qed.

Lemma split_once_none_inv c : forall s, split_once c s = None -> ~ In c s.
Proof.
  induction s as [|x r IH]; intros H I; [exact I|]. cbn [split_once] in H.
  destruct (N.eqb_spec x c) as [->|NE]; [discriminate|].
  destruct (split_once c r) as [[a' b']|] eqn:E; [discriminate|].
  destruct I as [I|I]; [congruence|exact (IH eq_refl I)].
Qed.

Lemma rev_repeat {A} (x : A) k : rev (repeat x k) = repeat x k.
Proof.
  induction k as [|k IH]; [reflexivity|]. cbn [repeat rev]. rewrite IH.
  clear IH. induction k as [|k IH]; [reflexivity|]. cbn [repeat app]. rewrite IH. reflexivity.
Qed.

Lemma count_leading_spec : forall l,
  exists rest, l = repeat C_ZERO (count_leading_zero_chars l) ++ rest /\
    (rest = [] \/ exists c r, rest = c :: r /\ c <> C_ZERO).
Proof.
  induction l as [|c r IH]; [exists []; split; [reflexivity|left; reflexivity]|].
  cbn [count_leading_zero_chars]. destruct (N.eqb_spec c C_ZERO) as [->|NE].
  - destruct IH as (rest & E & Hr). exists rest. split; [cbn [repeat app]; f_equal; exact E|exact Hr].
  - exists (c :: r). split; [reflexivity|right; exists c, r; auto].
Qed.

Lemma trailing_spec s :
  exists p, s = p ++ repeat C_ZERO (trailing_zero_chars s) /\
    (p = [] \/ exists p0 c, p = p0 ++ [c] /\ c <> C_ZERO).
Proof.
  unfold trailing_zero_chars. destruct (count_leading_spec (rev s)) as (rest & E & Hr).
  exists (rev rest). split.
  - rewrite <- (rev_involutive s) at 1. rewrite E at 1. rewrite rev_app_distr, rev_repeat. reflexivity.
  - destruct Hr as [->|(c & r & -> & NE)]; [left; reflexivity|right].
    exists (rev r), c. split; [reflexivity|exact NE].
Qed.

Lemma dec_val_acc_zeros k a : dec_val_acc a (repeat C_ZERO k) = a * 10 ^ N.of_nat k.
Proof.
  revert a. induction k as [|k IH]; intro a.
  - cbn. lia.
  - cbn [repeat dec_val_acc]. rewrite IH, Nat2N.inj_succ, N.pow_succ_r'. unfold C_ZERO. lia.
Qed.

Lemma dec_val_app_zeros p k : dec_val (p ++ repeat C_ZERO k) = dec_val p * 10 ^ N.of_nat k.
Proof. unfold dec_val. rewrite dec_val_acc_app, dec_val_acc_zeros. reflexivity. Qed.

Lemma dec_val_snoc p c : dec_val (p ++ [c]) = dec_val p * 10 + (c - 48).
Proof. unfold dec_val. rewrite dec_val_acc_app. reflexivity. Qed.

Lemma int_part_ok i I : int_part i = Ok I -> ((i = [] /\ I = 0) \/ uint_lit i I) /\ I < P128.
Proof.
  unfold int_part. destruct i as [|c r]; cbn [is_nil].
  - intro H. injection H as <-. split; [left; auto|reflexivity].
  - intro H. destruct (parse_uint_ok _ _ _ H). split; [right|]; assumption.
Qed.

Lemma frac_part_ok f decimal scale : frac_part f = Ok (decimal, scale) ->
  forallb is_digit f = true /\ scale <= 255 /\ scale <= N.of_nat (length f) /\
  decimal * 10 ^ (N.of_nat (length f) - scale) = dec_val f /\
  ((scale = 0 /\ decimal = 0) \/ (0 < scale /\ decimal mod 10 <> 0)).
Proof.
  unfold frac_part. destruct f as [|f0 fr] eqn:EF; cbn [is_nil].
  - intro H. injection H as <- <-. cbn. repeat split; try lia.
  - rewrite <- EF. destruct (forallb is_digit f) eqn:D; cbn [negb]; [|discriminate]. cbv zeta.
    destruct (parse_uint P128 f) as [dv| |] eqn:P; cbn [bind]; try discriminate.
    destruct (N.leb_spec P128 (10 ^ N.of_nat (trailing_zero_chars f))) as [|Htz]; [discriminate|].
    destruct (N.ltb_spec 255 (N.of_nat (length f) - N.of_nat (trailing_zero_chars f))) as [|Hsig]; [discriminate|].
    intro Heq. injection Heq as <- <-.
    assert (Hdv : dv = dec_val f).
    { rewrite parse_uint_digits in P; [|rewrite EF; discriminate|exact D].
      destruct (_ <? _); [congruence|discriminate]. }
    destruct (trailing_spec f) as (p & Ep & Hp).
    set (k := trailing_zero_chars f) in *.
    assert (Hlen : length f = (length p + k)%nat).
    { rewrite Ep at 1. rewrite app_length, repeat_length. reflexivity. }
    assert (Hval : dec_val f = dec_val p * 10 ^ N.of_nat k) by (rewrite Ep at 1; apply dec_val_app_zeros).
    pose proof (pow10_pos (N.of_nat k)) as Hk.
    assert (Hq : dv / 10 ^ N.of_nat k = dec_val p).
    { rewrite Hdv, Hval. apply N.div_mul. lia. }
    rewrite Hq. split; [reflexivity|]. split; [lia|]. split; [lia|]. split.
    + rewrite Hval. f_equal. f_equal. lia.
    + destruct Hp as [->|(p0 & c & -> & NE)].
      * left. cbn [length] in Hlen. split; [lia|reflexivity].
      * right. rewrite app_length in Hlen. cbn [length] in Hlen. split; [lia|].
        rewrite dec_val_snoc.
        assert (Dc : is_digit c = true).
        { rewrite forallb_forall in D. apply D. rewrite Ep.
          apply in_or_app. left. apply in_or_app. right. left. reflexivity. }
        unfold is_digit, C_ZERO in *. lia.
Qed.

Lemma frac_part_total f t : frac_part f <> Panic t.
Proof.
  unfold frac_part. destruct (is_nil f); [discriminate|]. destruct (negb _); [discriminate|]. cbv zeta.
  destruct (parse_uint P128 f) eqn:P; cbn [bind]; try discriminate.
  - destruct (_ <=? _); [discriminate|]. destruct (_ <? _); discriminate.
  - exfalso. exact (parse_uint_total _ _ _ P).
Qed.

(* ------------------------------------------------------------ totality *)
Lemma dec_from_str_total s t : dec_from_str s <> Panic t.
Proof.
  unfold dec_from_str. destruct (split_once C_DOT s) as [[i f]|].
  - destruct (is_nil i && is_nil f); [discriminate|].
    unfold int_part. destruct (is_nil i).
    + cbn [bind]. destruct (frac_part f) as [[dc sc]| |] eqn:F; cbn [bind]; try discriminate.
      * destruct (_ <=? _); [discriminate|]. destruct (_ <=? _); [discriminate|]. destruct (_ <=? _); discriminate.
      * exfalso. exact (frac_part_total _ _ F).
    + destruct (parse_uint P128 i) eqn:P; cbn [bind]; try discriminate.
      * destruct (frac_part f) as [[dc sc]| |] eqn:F; cbn [bind]; try discriminate.
        -- destruct (_ <=? _); [discriminate|]. destruct (_ <=? _); [discriminate|]. destruct (_ <=? _); discriminate.
        -- exfalso. exact (frac_part_total _ _ F).
      * exfalso. exact (parse_uint_total _ _ _ P).
  - destruct (parse_uint P128 s) eqn:P; cbn [bind]; try discriminate.
    exfalso. exact (parse_uint_total _ _ _ P).
Qed.

(* ------------------------------------------------------------ soundness *)
Lemma dec_from_str_sound s value scale : dec_from_str s = Ok (value, scale) ->
  dec_denotes s value scale /\ canonical value scale /\ value < P128 /\ scale <= 255.
Proof.
  unfold dec_from_str. destruct (split_once C_DOT s) as [[i f]|] eqn:SP.
  - destruct (split_once_some _ _ _ _ SP) as [-> Hni].
    destruct (is_nil i && is_nil f) eqn:NN; [discriminate|].
    destruct (int_part i) as [I| |] eqn:IP; cbn [bind]; try discriminate.
    destruct (frac_part f) as [[dc sc]| |] eqn:FP; cbn [bind]; try discriminate.
    destruct (N.leb_spec P128 (10 ^ sc)) as [|B1]; [discriminate|].
    destruct (N.leb_spec P128 (I * 10 ^ sc)) as [|B2]; [discriminate|].
    destruct (N.leb_spec P128 (I * 10 ^ sc + dc)) as [|B3]; [discriminate|].
    intro Heq. injection Heq as <- <-.
    destruct (int_part_ok _ _ IP) as [HI _].
    destruct (frac_part_ok _ _ _ FP) as (Fd & S255 & Slen & Fv & Fc).
    split; [|split; [|split; assumption]].
    + left. exists i, f, I. repeat split; try assumption.
      * destruct i; [|left; discriminate]. destruct f; [discriminate|right; discriminate].
      * set (n := N.of_nat (length f)) in *. rewrite <- Fv.
        replace (10 ^ n) with (10 ^ sc * 10 ^ (n - sc)) by (rewrite <- N.pow_add_r; f_equal; lia).
        lia.
    + unfold canonical. destruct Fc as [[-> ->]|[Hs Hm]]; [left; reflexivity|right].
      replace sc with (N.succ (sc - 1)) by lia. rewrite N.pow_succ_r'. lia.
  - destruct (parse_uint P128 s) as [v| |] eqn:P; cbn [bind]; try discriminate.
    intro Heq. injection Heq as <- <-. destruct (parse_uint_ok _ _ _ P) as [L B].
    split; [|split; [left; reflexivity|split; [assumption|lia]]].
    right. split; [exact (split_once_none_inv _ _ SP)|split; [exact L|reflexivity]].
Qed.

(* excessive precision on a canonical decimal: the amount really is not a whole number of base units *)
Lemma canonical_not_divisible value scale d : canonical value scale -> d < scale ->
  (value * 10 ^ d) mod 10 ^ scale <> 0.
Proof.
  intros [->|Hm] Hd; [lia|]. intro Z.
  apply N.mod_divide in Z; [|apply N.pow_nonzero; lia]. destruct Z as [k Hk].
  replace (10 ^ scale) with (10 * 10 ^ (scale - d - 1) * 10 ^ d) in Hk.
  2:{ rewrite <- N.pow_succ_r', <- N.pow_add_r. f_equal. lia. }
  rewrite N.mul_assoc in Hk. apply N.mul_cancel_r in Hk; [|apply N.pow_nonzero; lia]. lia.
Qed.

Lemma parsed_to_integer s value scale d : d <= 38 ->
  dec_from_str s = Ok (value, scale) ->
  dec_denotes s value scale /\
  match to_integer value scale d with
  | Ok n => n * 10 ^ scale = value * 10 ^ d
  | Err e => (e = E_PRECISION /\ (value * 10 ^ d) mod 10 ^ scale <> 0) \/
             (e = E_AMOUNT /\ scale <= d /\ P128 <= value * 10 ^ (d - scale))
  | Panic _ => False
  end.
Proof.
  intros Hd H. destruct (dec_from_str_sound _ _ _ H) as (Den & Can & _ & _).
  split; [exact Den|]. rewrite to_integer_spec by exact Hd.
  destruct (N.ltb_spec d scale) as [A|A].
  - left. split; [reflexivity|exact (canonical_not_divisible _ _ _ Can A)].
  - destruct (N.ltb_spec (value * 10 ^ (d - scale)) P128) as [B|B].
    + rewrite <- N.mul_assoc, <- N.pow_add_r. f_equal. f_equal. lia.
    + right. repeat split; assumption.
Qed.
