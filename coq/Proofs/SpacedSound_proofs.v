(* SpacedRune::from_str soundness in its strongest form (C31): an accepted string is the printed
   form of the result, up to writing '.' for the bullet. *)
From OrdV Require Import Base.Prelude Generated Ord.Rune Proofs.Rune_proofs Proofs.Spaced_proofs
  Ord.Decimal Ord.SatParse Ord.TextParse Proofs.TextParse_proofs.
Require Import ZifyBool ZifyN.
Ltac Zify.zify_post_hook ::= Z.div_mod_to_equations.

Definition norm (c : N) : N := if c =? DOT then BULLET else c.

(* display without the "i < len - 1" guard *)
Fixpoint show_simple (i sp : N) (cs : list N) : list N :=
  match cs with
  | [] => []
  | c :: r => c :: (if N.testbit sp i then [BULLET] else []) ++ show_simple (i + 1) sp r
  end.

Lemma show_from_simple L sp : (forall i, N.testbit sp i = true -> i < L - 1) ->
  forall cs i, spaced_show_from i L sp cs = show_simple i sp cs.
Proof.
  intros H. induction cs as [|c r IH]; intro i; [reflexivity|]. cbn [spaced_show_from show_simple].
  rewrite IH. destruct (N.testbit sp i) eqn:B.
  - specialize (H i B). destruct (N.ltb_spec i (L - 1)); [reflexivity|lia].
  - rewrite andb_false_r. reflexivity.
Qed.

Lemma spec_bits_low : forall s len j, j + 1 < len -> N.testbit (spec_bits s len) j = false.
Proof.
  induction s as [|c r IH]; intros len j H; cbn [spec_bits]; [apply N.bits_0|].
  destruct (is_upper c).
  - apply IH. lia.
  - rewrite N.lor_spec, N.pow2_bits_false by lia. rewrite IH by lia. reflexivity.
Qed.

Lemma small_bits_false x k j : x < 2 ^ k -> k <= j -> N.testbit x j = false.
Proof.
  intros H1 H2. rewrite <- (N.mod_small x (2 ^ k)) by exact H1. apply N.mod_pow2_bits_high. exact H2.
Qed.

Lemma lor_lt_pow2 a b k : a < 2 ^ k -> b < 2 ^ k -> N.lor a b < 2 ^ k.
Proof.
  intros Ha Hb. rewrite <- (N.mod_small a (2 ^ k)), <- (N.mod_small b (2 ^ k)) by assumption.
  rewrite <- !N.land_ones, <- N.land_lor_distr_l, N.land_ones. apply N.mod_lt, N.pow_nonzero. lia.
Qed.

Lemma sp_loop_display : forall s rune len acc r l sp',
  sp_loop s rune len acc = Ok (r, l, sp') -> acc < 2 ^ len ->
  map norm s =
    (if negb (len =? 0) && negb (N.testbit acc (len - 1)) && N.testbit sp' (len - 1) then [BULLET] else [])
    ++ show_simple len sp' (letters s).
Proof.
  induction s as [|c t IH]; intros rune len acc r l sp' H Hacc.
  - cbn in H. injection H as <- <- <-. cbn [map letters filter show_simple].
    destruct (negb (len =? 0) && negb (N.testbit acc (len - 1))) eqn:B; [|reflexivity].
    apply andb_prop in B. destruct B as [_ B]. apply negb_true_iff in B. rewrite B. reflexivity.
  - pose proof (sp_loop_sound _ _ _ _ _ _ _ H) as (_ & _ & Hsp & _).
    cbn [sp_loop] in H. cbn [map]. unfold letters. cbn [filter]. fold (letters t).
    destruct (is_upper c) eqn:U.
    + (* a letter *)
      assert (Hn : norm c = c).
      { unfold norm. destruct (N.eqb_spec c DOT) as [->|]; [cbn in U; discriminate|reflexivity]. }
      rewrite Hn. cbn [show_simple].
      assert (Hacc' : acc < 2 ^ (len + 1)) by (rewrite N.add_1_r, N.pow_succ_r'; lia).
      rewrite (IH _ _ _ _ _ _ H Hacc'). replace (len + 1 - 1) with len by lia.
      destruct (N.eqb_spec (len + 1) 0); [lia|]. cbn [negb andb].
      rewrite (small_bits_false acc len len Hacc ltac:(lia)). cbn [negb andb].
      (* no spacer is pending for the previous letter *)
      assert (Hprev : negb (len =? 0) && negb (N.testbit acc (len - 1)) && N.testbit sp' (len - 1) = false).
      { destruct (N.eqb_spec len 0); [reflexivity|]. cbn [negb andb].
        destruct (N.testbit acc (len - 1)) eqn:A; [reflexivity|]. cbn [negb andb].
        rewrite Hsp, N.lor_spec, A. cbn [spec_bits]. rewrite U. cbn [orb].
        apply spec_bits_low. lia. }
      rewrite Hprev. reflexivity.
    + (* a spacer *)
      destruct ((c =? DOT) || (c =? BULLET)) eqn:S; [|discriminate].
      assert (Hn : norm c = BULLET).
      { unfold norm. destruct (N.eqb_spec c DOT); [reflexivity|]. cbn [orb] in S.
        destruct (N.eqb_spec c BULLET); [assumption|discriminate]. }
      rewrite Hn.
      destruct (N.eqb_spec len 0) as [|NZ]; [discriminate|].
      destruct (32 <=? len - 1); [discriminate|].
      destruct (N.testbit acc (len - 1)) eqn:A; [discriminate|]. cbn [negb andb].
      assert (Hacc' : N.lor acc (2 ^ (len - 1)) < 2 ^ len).
      { apply lor_lt_pow2; [exact Hacc|]. apply N.pow_lt_mono_r; lia. }
      pose proof (sp_loop_sound _ _ _ _ _ _ _ H) as (_ & _ & Hsp2 & _).
      assert (Hset : N.testbit sp' (len - 1) = true).
      { rewrite Hsp2, !N.lor_spec, N.pow2_bits_true. rewrite orb_true_r. reflexivity. }
      rewrite Hset. cbn [app]. f_equal.
      rewrite (IH _ _ _ _ _ _ H Hacc').
      destruct (N.eqb_spec len 0); [lia|]. cbn [negb andb].
      rewrite N.lor_spec, N.pow2_bits_true, orb_true_r. cbn [negb andb app]. reflexivity.
Qed.

(* the accepted string, with '.' read as the bullet, is exactly the display of the result *)
Lemma spaced_parse_display s n sp : spaced_parse s = Ok (n, sp) ->
  n < P128 /\ sp < P32 /\ map norm s = spaced_show n sp.
Proof.
  intro H. destruct (spaced_parse_sound _ _ _ H) as [(D1 & D2 & D3 & D4) Hn].
  unfold spaced_parse in H.
  destruct (sp_loop s [] 0 0) as [[[r l] sp']| |] eqn:E; cbn [bind] in H; try discriminate.
  destruct (N.leb_spec l (N.size sp')) as [|HL]; [discriminate|].
  destruct (parse r) as [m| |] eqn:P; cbn [bind] in H; try discriminate.
  injection H as -> ->.
  pose proof (sp_loop_display _ _ _ _ _ _ _ E ltac:(cbn; lia)) as Dsp.
  cbn [N.eqb negb andb app] in Dsp.
  assert (HL28 : N.of_nat (length (letters s)) <= 28).
  { rewrite <- D2. pose proof (show_length_le_28 n Hn). lia. }
  assert (Hbits : forall i, N.testbit sp i = true -> i < N.of_nat (length (show n)) - 1).
  { intros i B. destruct (N.lt_ge_cases i (N.size sp)) as [|G].
    - rewrite D2. lia.
    - rewrite (small_bits_false sp (N.size sp) i (N.size_gt sp) G) in B. discriminate. }
  split; [exact Hn|]. split.
  - pose proof (N.size_gt sp) as G1. assert (G2 : 2 ^ N.size sp <= 2 ^ 32) by (apply N.pow_le_mono_r; lia).
    change (2 ^ 32) with P32 in G2. lia.
  - rewrite Dsp. unfold spaced_show. cbv zeta. rewrite (show_from_simple _ _ Hbits). rewrite D2. reflexivity.
Qed.
