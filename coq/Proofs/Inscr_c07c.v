(* C07 at chain level: every recorded child/parent pair goes back to a transaction of the chain that revealed
   the child and either revealed the parent too or spent an output holding it.  The history is made explicit by
   a ghost log: every transaction paired with the indexer state right before it was indexed. *)
From OrdV Require Import Base.Prelude Generated Index.Inscr Proofs.Inscr_tables Proofs.Inscr_proofs
  Proofs.Inscr_c07 Proofs.Inscr_c06 Proofs.Inscr_c04 Proofs.Inscr_c03 Proofs.Inscr_c07b Proofs.Inscr_satinv.
From Coq Require Import Permutation ZifyBool ZifyN.

(* [pid] is revealed by t, or held (in the state b0 right before t) by an output that t spends *)
Definition RevBy (t : tx) (b0 : bst) (pid : iid) : Prop :=
  fst pid = t_id t \/
  exists p u seq off e, In p (t_ins t) /\ tgP p (s_utxo (b_st b0)) = Some u /\ In (seq, off) (u_insc u) /\
    tgN seq (s_entries (b_st b0)) = Some e /\ i_id e = pid.

Definition log := list (tx * bst).

Record PInv (LG : log) (b : bst) : Prop := {
  p_pairs : forall p c, In (p, c) (s_children (b_st b)) ->
     exists t b0 ec ep, In (t, b0) LG /\ tgN c (s_entries (b_st b)) = Some ec /\ fst (i_id ec) = t_id t /\
       tgN p (s_entries (b_st b)) = Some ep /\ RevBy t b0 (i_id ep);
  p_idb : forall i s, tgP i (s_id2seq (b_st b)) = Some s -> exists e, tgN s (s_entries (b_st b)) = Some e /\ i_id e = i;
  p_dom : forall s e, tgN s (s_entries (b_st b)) = Some e -> s < b_next b
}.

Definition PF (LG : log) (l : list flotsam) : Prop :=
  forall f, In f l -> is_new f = true ->
    exists t b0, In (t, b0) LG /\ fst (f_id f) = t_id t /\ forall pid, In pid (parents_of f) -> RevBy t b0 pid.

Lemma link_parents_children : forall seq ps st acc st' acc',
  link_parents seq ps st acc = Ok (st', acc') ->
  forall x, In x (s_children st') ->
    In x (s_children st) \/ (snd x = seq /\ exists id, In id ps /\ tgP id (s_id2seq st) = Some (fst x)).
Proof.
  intros seq ps. induction ps as [|id r IH]; intros st acc st' acc' H x Hx; cbn [link_parents] in H.
  - inv H. auto.
  - destruct (tgP id (s_id2seq st)) as [pseq|] eqn:E1.
    + destruct (tgN pseq (s_entries st)) as [pe|]; [|discriminate].
      assert (G : In x (mm_insert (pseq, seq) (s_children st)) \/ (snd x = seq /\ exists id0, In id0 r /\ tgP id0 (s_id2seq st) = Some (fst x))).
      { destruct (i_hidden pe).
        - apply (IH _ _ _ _ H) in Hx. cbn [s_children s_id2seq] in Hx. exact Hx.
        - apply (IH _ _ _ _ H) in Hx. cbn [s_children s_id2seq] in Hx. exact Hx. }
      destruct G as [G|G].
      { apply mm_insert_In in G. destruct G as [G|G].
        - subst x. right. cbn [fst snd]. split; [reflexivity|]. exists id. split; [left; reflexivity|exact E1].
        - left. exact G. }
      destruct G as (G1 & i0 & G2 & G3). right. split; [exact G1|]. exists i0. split; [right; exact G2|exact G3].
    + destruct (IH _ _ _ _ H x Hx) as [G|(G1 & i0 & G2 & G3)]; auto. right. split; auto. exists i0. split; [right|]; auto.
Qed.

Lemma step_pinv : forall LG h rg f sp o b b',
  PInv LG b ->
  (is_new f = true -> exists t b0, In (t, b0) LG /\ fst (f_id f) = t_id t /\ forall pid, In pid (parents_of f) -> RevBy t b0 pid) ->
  update_location h rg f sp o b = Ok b' -> PInv LG b'.
Proof.
  intros LG h rg f sp o b b' [PP PI PD] HF H.
  destruct (f_origin f) as [c fee hid ps re ub vi|seq] eqn:Ho.
  - assert (Hn : is_new f = true) by (unfold is_new; rewrite Ho; reflexivity).
    destruct (HF Hn) as (t & b0 & L1 & L2 & L3). unfold parents_of in L3. rewrite Ho in L3.
    destruct (update_new_shape _ _ _ _ _ _ _ _ _ _ _ _ _ _ Ho H) as (e & [S1 S2 S3 S4 S5 S6 _ S8 _ _ _ _]).
    assert (Hch : forall x, In x (s_children (b_st b')) ->
              In x (s_children (b_st b)) \/ (snd x = b_next b /\ exists id, In id ps /\ tgP id (s_id2seq (b_st b)) = Some (fst x))).
    { unfold update_location in H. rewrite Ho in H. dbind H. destruct a as [[number bl] cu]. dbind H. dbind H. destruct a0 as [st1 pseqs].
      intros x Hx. assert (Hx' : In x (s_children st1)) by (destruct ub; inv H; exact Hx).
      apply (link_parents_children _ _ _ _ _ _ E1) in Hx'. cbn [s_children s_id2seq] in Hx'. exact Hx'. }
    assert (Hold : forall s x, tgN s (s_entries (b_st b)) = Some x -> tgN s (s_entries (b_st b')) = Some x).
    { intros s x Hs. rewrite S5, tgN_set. destruct (N.eqb_spec s (b_next b)); auto. subst. specialize (PD _ _ Hs). lia. }
    split.
    + intros p c0 Hc. destruct (Hch _ Hc) as [Hc'|(Hs & id & I1 & I2)].
      * destruct (PP p c0 Hc') as (t' & b0' & ec & ep & A & B & C & D & F). exists t', b0', ec, ep.
        split; [exact A|]. split; [apply Hold; exact B|]. split; [exact C|]. split; [apply Hold; exact D|exact F].
      * cbn [fst snd] in *. subst c0. destruct (PI id p I2) as (ep & P1 & P2).
        exists t, b0, e, ep. split; auto. split; [rewrite S5, tgN_set, N.eqb_refl; reflexivity|].
        split; [rewrite S1; exact L2|]. split; [apply Hold; exact P1|]. rewrite P2. apply L3. exact I1.
    + intros i s. rewrite S6, tgP_set. destruct (pair_eqb i (f_id f)) eqn:Q.
      * apply pair_eqb_eq in Q. intro Hx. inv Hx. exists e. rewrite S5, tgN_set, N.eqb_refl. auto.
      * intro Hx. destruct (PI i s Hx) as (e0 & A & B). exists e0. split; [apply Hold; exact A|exact B].
    + intros s x. rewrite S5, S8, tgN_set. destruct (N.eqb_spec s (b_next b)); [lia|]. intro Hx. specialize (PD _ _ Hx). lia.
  - destruct (update_old_shape _ _ _ _ _ _ _ _ Ho H) as (O1 & _ & O3 & _ & _ & _ & _ & O8).
    assert (Hch : s_children (b_st b') = s_children (b_st b)).
    { unfold update_location in H. rewrite Ho in H. dbind H. inv H. cbn.
      destruct o; [destruct (tgN seq (s_entries (b_st b))); [|discriminate]|]; inv E; reflexivity. }
    assert (Hold : forall s x, tgN s (s_entries (b_st b)) = Some x ->
              exists x', tgN s (s_entries (b_st b')) = Some x' /\ i_id x' = i_id x).
    { intros s x Hs. destruct O8 as [O8|(e0 & He0 & O8)]; rewrite O8; eauto.
      rewrite tgN_set. destruct (N.eqb_spec s seq); eauto. subst. rewrite He0 in Hs. inv Hs. eexists. split; [reflexivity|]. reflexivity. }
    split.
    + rewrite Hch. intros p c0 Hc. destruct (PP p c0 Hc) as (t' & b0' & ec & ep & A & B & C & D & F).
      destruct (Hold _ _ B) as (ec' & B1 & B2). destruct (Hold _ _ D) as (ep' & D1 & D2).
      exists t', b0', ec', ep'. rewrite B2, D2. auto.
    + rewrite O1. intros i s Hx. destruct (PI i s Hx) as (e0 & A & B). destruct (Hold _ _ A) as (e1 & A1 & A2).
      exists e1. split; auto. congruence.
    + rewrite O3. intros s x Hx. destruct O8 as [O8|(e0 & He0 & O8)]; rewrite O8 in Hx; [eapply PD; eauto|].
      rewrite tgN_set in Hx. destruct (N.eqb_spec s seq); [subst; eapply PD; eauto | eapply PD; eauto].
Qed.
