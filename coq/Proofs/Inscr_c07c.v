(* C07 at chain level: every recorded child/parent pair goes back to a transaction of the chain that revealed
   the child and either revealed the parent too or spent an output holding it.  The history is made explicit by
   a ghost log: every transaction paired with the indexer state right before it was indexed. *)
From OrdV Require Import Base.Prelude Generated Index.Inscr Proofs.Inscr_tables Proofs.Inscr_proofs
  Proofs.Inscr_c07 Proofs.Inscr_c06 Proofs.Inscr_c04 Proofs.Inscr_c03 Proofs.Inscr_c07b Proofs.Inscr_satinv.
From Coq Require Import Permutation ZifyBool ZifyN.

(* [pid] is revealed by t, or held (in the state b0 right before t) by an output that t spends *)
Definition RevBy (t : tx) (b0 : bst) (pid : iid) : Prop :=
  fst pid = t_id t \/
  exists p u seq off e, In p (t_ins t) /\ tgP p (s_utxo (b_st b0)) = Some u /\ In (seq, off) (u_insc u) /\
    tgN seq (s_entries (b_st b0)) = Some e /\ i_id e = pid.

Definition log := list (tx * bst).

Record PInv (LG : log) (b : bst) : Prop := {
  p_pairs : forall p c, In (p, c) (s_children (b_st b)) ->
     exists t b0 ec ep, In (t, b0) LG /\ tgN c (s_entries (b_st b)) = Some ec /\ fst (i_id ec) = t_id t /\
       tgN p (s_entries (b_st b)) = Some ep /\ RevBy t b0 (i_id ep);
  p_idb : forall i s, tgP i (s_id2seq (b_st b)) = Some s -> exists e, tgN s (s_entries (b_st b)) = Some e /\ i_id e = i;
  p_dom : forall s e, tgN s (s_entries (b_st b)) = Some e -> s < b_next b
}.

Definition PF (LG : log) (l : list flotsam) : Prop :=
  forall f, In f l -> is_new f = true ->
    exists t b0, In (t, b0) LG /\ fst (f_id f) = t_id t /\ forall pid, In pid (parents_of f) -> RevBy t b0 pid.

Lemma link_parents_children : forall seq ps st acc st' acc',
  link_parents seq ps st acc = Ok (st', acc') ->
  forall x, In x (s_children st') ->
    In x (s_children st) \/ (snd x = seq /\ exists id, In id ps /\ tgP id (s_id2seq st) = Some (fst x)).
Proof.
  intros seq ps. induction ps as [|id r IH]; intros st acc st' acc' H x Hx; cbn [link_parents] in H.
  - inv H. auto.
  - destruct (tgP id (s_id2seq st)) as [pseq|] eqn:E1.
    + destruct (tgN pseq (s_entries st)) as [pe|]; [|discriminate].
      assert (G : In x (mm_insert (pseq, seq) (s_children st)) \/ (snd x = seq /\ exists id0, In id0 r /\ tgP id0 (s_id2seq st) = Some (fst x))).
      { destruct (i_hidden pe).
        - apply (IH _ _ _ _ H) in Hx. cbn [s_children s_id2seq] in Hx. exact Hx.
        - apply (IH _ _ _ _ H) in Hx. cbn [s_children s_id2seq] in Hx. exact Hx. }
      destruct G as [G|G].
      { apply mm_insert_In in G. destruct G as [G|G].
        - subst x. right. cbn [fst snd]. split; [reflexivity|]. exists id. split; [left; reflexivity|exact E1].
        - left. exact G. }
      destruct G as (G1 & i0 & G2 & G3). right. split; [exact G1|]. exists i0. split; [right; exact G2|exact G3].
    + destruct (IH _ _ _ _ H x Hx) as [G|(G1 & i0 & G2 & G3)]; auto. right. split; auto. exists i0. split; [right|]; auto.
Qed.

Lemma step_pinv : forall LG h rg f sp o b b',
  PInv LG b ->
  (is_new f = true -> exists t b0, In (t, b0) LG /\ fst (f_id f) = t_id t /\ forall pid, In pid (parents_of f) -> RevBy t b0 pid) ->
  update_location h rg f sp o b = Ok b' -> PInv LG b'.
Proof.
  intros LG h rg f sp o b b' [PP PI PD] HF H.
  destruct (f_origin f) as [c fee hid ps re ub vi|seq] eqn:Ho.
  - assert (Hn : is_new f = true) by (unfold is_new; rewrite Ho; reflexivity).
    destruct (HF Hn) as (t & b0 & L1 & L2 & L3). unfold parents_of in L3. rewrite Ho in L3.
    destruct (update_new_shape _ _ _ _ _ _ _ _ _ _ _ _ _ _ Ho H) as (e & [S1 S2 S3 S4 S5 S6 _ S8 _ _ _ _]).
    assert (Hch : forall x, In x (s_children (b_st b')) ->
              In x (s_children (b_st b)) \/ (snd x = b_next b /\ exists id, In id ps /\ tgP id (s_id2seq (b_st b)) = Some (fst x))).
    { unfold update_location in H. rewrite Ho in H. dbind H. destruct a as [[number bl] cu]. dbind H. dbind H. destruct a0 as [st1 pseqs].
      intros x Hx. assert (Hx' : In x (s_children st1)) by (destruct ub; inv H; exact Hx).
      apply (link_parents_children _ _ _ _ _ _ E1) in Hx'. cbn [s_children s_id2seq] in Hx'. exact Hx'. }
    assert (Hold : forall s x, tgN s (s_entries (b_st b)) = Some x -> tgN s (s_entries (b_st b')) = Some x).
    { intros s x Hs. rewrite S5, tgN_set. destruct (N.eqb_spec s (b_next b)); auto. subst. specialize (PD _ _ Hs). lia. }
    split.
    + intros p c0 Hc. destruct (Hch _ Hc) as [Hc'|(Hs & id & I1 & I2)].
      * destruct (PP p c0 Hc') as (t' & b0' & ec & ep & A & B & C & D & F). exists t', b0', ec, ep.
        split; [exact A|]. split; [apply Hold; exact B|]. split; [exact C|]. split; [apply Hold; exact D|exact F].
      * cbn [fst snd] in *. subst c0. destruct (PI id p I2) as (ep & P1 & P2).
        exists t, b0, e, ep. split; auto. split; [rewrite S5, tgN_set, N.eqb_refl; reflexivity|].
        split; [rewrite S1; exact L2|]. split; [apply Hold; exact P1|]. rewrite P2. apply L3. exact I1.
    + intros i s. rewrite S6, tgP_set. destruct (pair_eqb i (f_id f)) eqn:Q.
      * apply pair_eqb_eq in Q. intro Hx. inv Hx. exists e. rewrite S5, tgN_set, N.eqb_refl. auto.
      * intro Hx. destruct (PI i s Hx) as (e0 & A & B). exists e0. split; [apply Hold; exact A|exact B].
    + intros s x. rewrite S5, S8, tgN_set. destruct (N.eqb_spec s (b_next b)); [lia|]. intro Hx. specialize (PD _ _ Hx). lia.
  - destruct (update_old_shape _ _ _ _ _ _ _ _ Ho H) as (O1 & _ & O3 & _ & _ & _ & _ & O8).
    assert (Hch : s_children (b_st b') = s_children (b_st b)).
    { unfold update_location in H. rewrite Ho in H. dbind H. inv H. cbn.
      destruct o; [destruct (tgN seq (s_entries (b_st b))); [|discriminate]|]; inv E; reflexivity. }
    assert (Hold : forall s x, tgN s (s_entries (b_st b)) = Some x ->
              exists x', tgN s (s_entries (b_st b')) = Some x' /\ i_id x' = i_id x).
    { intros s x Hs. destruct O8 as [O8|(e0 & He0 & O8)]; rewrite O8; eauto.
      rewrite tgN_set. destruct (N.eqb_spec s seq); eauto. subst. rewrite He0 in Hs. inv Hs. eexists. split; [reflexivity|]. reflexivity. }
    split.
    + rewrite Hch. intros p c0 Hc. destruct (PP p c0 Hc) as (t' & b0' & ec & ep & A & B & C & D & F).
      destruct (Hold _ _ B) as (ec' & B1 & B2). destruct (Hold _ _ D) as (ep' & D1 & D2).
      exists t', b0', ec', ep'. rewrite B2, D2. auto.
    + rewrite O1. intros i s Hx. destruct (PI i s Hx) as (e0 & A & B). destruct (Hold _ _ A) as (e1 & A1 & A2).
      exists e1. split; auto. congruence.
    + rewrite O3. intros s x Hx. destruct O8 as [O8|(e0 & He0 & O8)]; rewrite O8 in Hx; [eapply PD; eauto|].
      rewrite tgN_set in Hx. destruct (N.eqb_spec s seq); [subst; eapply PD; eauto | eapply PD; eauto].
Qed.

Lemma PInv_weaken : forall LG LG' b, (forall x, In x LG -> In x LG') -> PInv LG b -> PInv LG' b.
Proof.
  intros LG LG' b W [PP PI PD]. split; auto.
  intros p c Hc. destruct (PP p c Hc) as (t & b0 & ec & ep & A & B). exists t, b0, ec, ep. split; auto.
Qed.

Lemma PF_weaken : forall LG LG' l, (forall x, In x LG -> In x LG') -> PF LG l -> PF LG' l.
Proof.
  intros LG LG' l W H f Hf Hn. destruct (H f Hf Hn) as (t & b0 & A & B). exists t, b0. split; auto.
Qed.

Lemma apply_locs_pinv : forall LG h rg locs b b',
  PInv LG b -> PF LG (map loc_flot locs) -> apply_locs h rg locs b = Ok b' -> PInv LG b'.
Proof.
  intros LG h rg locs. induction locs as [|[[[op off] f] o] r IH]; intros b b' HP HF H; cbn [apply_locs] in H.
  - inv H. auto.
  - dbind H. eapply IH; [| |exact H].
    + eapply step_pinv; eauto. intro Hn. apply (HF f); auto. left. reflexivity.
    + intros g Hg. apply HF. right. exact Hg.
Qed.

Lemma apply_lost_pinv : forall LG h rg ov l b b',
  PInv LG b -> PF LG l -> apply_lost h rg ov l b = Ok b' -> PInv LG b'.
Proof.
  intros LG h rg ov l. induction l as [|f r IH]; intros b b' HP HF H; cbn [apply_lost] in H.
  - inv H. auto.
  - dbind H. dbind H. eapply IH; [| |exact H].
    + eapply step_pinv; eauto. intro Hn. apply (HF f); auto. left. reflexivity.
    + intros g Hg. apply HF. right. exact Hg.
Qed.

Lemma rebase_pf : forall LG reward ov l l', rebase reward ov l = Ok l' -> PF LG l -> PF LG l'.
Proof.
  intros LG reward ov l. induction l as [|f r IH]; intros l' H HF; cbn [rebase] in H.
  - inv H. exact HF.
  - dbind H. dbind H. inv H. intros g [Hg|Hg] Hn.
    + subst g. unfold is_new, parents_of in *. cbn [f_origin f_id] in *. apply (HF f); [left; reflexivity|exact Hn].
    + eapply IH; eauto. intros x Hx. apply HF. right. exact Hx.
Qed.

Lemma PInv_ext : forall LG b b2,
  s_entries (b_st b2) = s_entries (b_st b) -> s_id2seq (b_st b2) = s_id2seq (b_st b) ->
  s_children (b_st b2) = s_children (b_st b) -> b_next b2 = b_next b -> PInv LG b -> PInv LG b2.
Proof. intros LG b b2 E1 E2 E3 E4 [PP PI PD]. split; rewrite ?E1, ?E2, ?E3, ?E4; auto. Qed.

Lemma index_inscriptions_pinv : forall cfg LG h t ents rg b b',
  PInv LG b -> PF LG (b_flot b) ->
  (forall F tiv, floating_of cfg (b_st b) h t ents = Ok (F, tiv) -> PF LG F) ->
  index_inscriptions cfg h t ents rg b = Ok b' -> PInv LG b' /\ PF LG (b_flot b').
Proof.
  intros cfg LG h t ents rg b b' HP HF HFl H. unfold index_inscriptions in H. dbind H. destruct a as [F tiv].
  specialize (HFl F tiv eq_refl). clear E.
  destruct (tx_is_coinbase t).
  - destruct (assign (t_id t) 0 0 (t_outs t) (sort_by f_offset (F ++ b_flot b))) as [[locs rest] ov] eqn:EA.
    apply assign_split in EA.
    assert (HA : PF LG (map loc_flot locs ++ rest)).
    { rewrite <- EA. intros f Hf. eapply Permutation_in in Hf; [|apply sort_by_perm]. apply in_app_or in Hf. destruct Hf; auto. }
    dbind H. dbind H. dbind H. inv H.
    assert (Q1 : PInv LG a).
    { eapply apply_locs_pinv; [| |exact E]; [eapply PInv_ext; [| | | |exact HP]; reflexivity | intros f Hf; apply HA; apply in_or_app; auto]. }
    assert (Q2 : PInv LG a0).
    { eapply apply_lost_pinv; [| |exact E0]; [exact Q1 | intros f Hf; apply HA; apply in_or_app; auto]. }
    split; [eapply PInv_ext; [| | | |exact Q2]; reflexivity|].
    cbn [b_flot]. rewrite (apply_lost_flot _ _ _ _ _ _ E0), (apply_locs_flot _ _ _ _ _ E). cbn. intros f [].
  - destruct (assign (t_id t) 0 0 (t_outs t) (sort_by f_offset F)) as [[locs rest] ov] eqn:EA.
    apply assign_split in EA.
    assert (HA : PF LG (map loc_flot locs ++ rest)).
    { rewrite <- EA. intros f Hf. eapply Permutation_in in Hf; [|apply sort_by_perm]. auto. }
    dbind H. dbind H. dbind H. inv H.
    assert (Q1 : PInv LG a).
    { eapply apply_locs_pinv; [| |exact E]; [exact HP | intros f Hf; apply HA; apply in_or_app; auto]. }
    split; [eapply PInv_ext; [| | | |exact Q1]; reflexivity|].
    cbn [b_flot]. rewrite (apply_locs_flot _ _ _ _ _ E). intros f Hf. apply in_app_or in Hf. destruct Hf as [Hf|Hf]; auto.
    eapply rebase_pf; eauto. intros g Hg. apply HA. apply in_or_app. auto.
Qed.

Lemma index_tx_pinv : forall cfg LG h insc (first : bool) t b b',
  PInv LG b -> PF LG (b_flot b) ->
  index_tx cfg h insc first t b = Ok b' ->
  PInv ((t, b) :: LG) b' /\ PF ((t, b) :: LG) (b_flot b').
Proof.
  intros cfg LG h insc first t b b' HP HF H.
  assert (W : forall x, In x LG -> In x ((t, b) :: LG)) by (intros x Hx; right; exact Hx).
  unfold index_tx in H.
  dbind H. destruct a as [ents utxo1]. rename E into ET. dbind H. destruct a as [[per_out in_ranges] b1].
  assert (Hb1 : b_st b1 = b_st b /\ b_next b1 = b_next b /\ b_flot b1 = b_flot b).
  { destruct (c_sats cfg).
    - dbind E. destruct a as [po lft]. destruct first; inv E; cbn; auto.
    - inv E. auto. }
  destruct Hb1 as (Q1 & Q2 & Q3).
  match type of H with (if insc then index_inscriptions _ _ _ _ _ ?B else _) = _ => set (b2 := B) in * end.
  assert (HP2 : PInv ((t, b) :: LG) b2).
  { eapply PInv_ext; [| | | |eapply PInv_weaken; [exact W|exact HP]]; subst b2; unfold set_st, with_utxo; cbn; auto. }
  assert (HF2 : PF ((t, b) :: LG) (b_flot b2)).
  { subst b2. unfold set_st. cbn [b_flot]. rewrite Q3. eapply PF_weaken; eauto. }
  destruct insc; [|inv H; auto].
  eapply index_inscriptions_pinv; [exact HP2|exact HF2| |exact H].
  intros F tiv EF f Hf Hn. exists t, b. split; [left; reflexivity|].
  destruct (floating_of_props _ _ _ _ _ _ _ EF) as (P1 & _ & _).
  split.
  - apply P1. unfold new_ids. apply in_map. apply filter_In. auto.
  - intros pid Hp. destruct (parents_spent_or_revealed _ _ _ _ _ _ _ EF f pid Hf Hp) as [Hq|(u & seq & off & e & U1 & U2 & U3 & U4)].
    + left. exact Hq.
    + right. subst b2. unfold set_st, with_utxo in U3. cbn [b_st s_entries] in U3.
      destruct first; [inv ET; destruct U1|].
      destruct (take_inputs_tg _ _ _ _ ET) as (T1 & _ & _).
      destruct (Forall2_In_r _ _ _ _ T1 U1) as (p & P & Q). exists p, u, seq, off, e. auto.
Qed.

(* ---- the ghost log *)

Fixpoint txs_log (cfg : config) (h : N) (insc : bool) (l : list tx) (b : bst) : log :=
  match l with
  | [] => []
  | t :: r => (t, b) :: match index_tx cfg h insc false t b with Ok b' => txs_log cfg h insc r b' | _ => [] end
  end.

Lemma index_txs_pinv : forall cfg h insc l LG b b',
  PInv LG b -> PF LG (b_flot b) -> index_txs cfg h insc l b = Ok b' ->
  exists LG', PInv LG' b' /\ PF LG' (b_flot b') /\ (forall x, In x LG' <-> In x (txs_log cfg h insc l b) \/ In x LG).
Proof.
  intros cfg h insc l. induction l as [|t r IH]; intros LG b b' HP HF H; cbn [index_txs] in H.
  - inv H. exists LG. split; [exact HP|]. split; [exact HF|]. intro x. cbn. tauto.
  - dbind H. destruct (index_tx_pinv _ _ _ _ _ _ _ _ HP HF E) as [A B].
    destruct (IH _ _ _ A B H) as (LG' & A' & B' & C'). exists LG'. split; [exact A'|]. split; [exact B'|].
    intro x. rewrite C'. cbn [txs_log]. rewrite E. cbn [In]. tauto.
Qed.

(* the state with which index_utxo_entries starts a block (copied from index_block) *)
Definition block_start (cfg : config) (h : N) (st : state) : Res bst :=
  do cb <- (if c_sats cfg then
              if 0 <? subsidy h then do s <- starting_sat h; Ok [(s, s + subsidy h)] else Ok []
            else Ok []);
  Ok (mkB st [] (subsidy h) (s_lost st) (s_blessed st) (s_cursed st) (s_unbound st)
          (next_seq_of (s_entries st)) cb []).

Definition block_log (cfg : config) (h : N) (blk : block) (st : state) : log :=
  let insc := c_first cfg <=? h in
  match block_start cfg h st with
  | Ok b0 =>
    txs_log cfg h insc (tl blk) b0 ++
    match blk, index_txs cfg h insc (tl blk) b0 with
    | t0 :: _, Ok b1 => [(t0, b1)]
    | _, _ => []
    end
  | _ => []
  end.

Fixpoint chain_log (cfg : config) (h : N) (c : list block) (st : state) : log :=
  match c with
  | [] => []
  | blk :: r =>
    block_log cfg h blk st ++
    match index_block cfg h blk st with Ok st' => chain_log cfg (h + 1) r st' | _ => [] end
  end.

Record PInvS (LG : log) (st : state) : Prop := {
  ps_pairs : forall p c, In (p, c) (s_children st) ->
     exists t b0 ec ep, In (t, b0) LG /\ tgN c (s_entries st) = Some ec /\ fst (i_id ec) = t_id t /\
       tgN p (s_entries st) = Some ep /\ RevBy t b0 (i_id ep);
  ps_idb : forall i s, tgP i (s_id2seq st) = Some s -> exists e, tgN s (s_entries st) = Some e /\ i_id e = i
}.

Lemma index_block_pinv : forall cfg h blk LG st st',
  PInvS LG st -> index_block cfg h blk st = Ok st' ->
  exists LG', PInvS LG' st' /\ (forall x, In x LG' <-> In x (block_log cfg h blk st) \/ In x LG).
Proof.
  intros cfg h blk LG st st' [PP PI] H. unfold index_block in H. unfold block_log, block_start. cbv zeta.
  dbind H. rename a into cb. cbn [bind]. dbind H. rename a into b1. dbind H. rename a into b2. inv H.
  match type of E0 with index_txs _ _ _ _ ?B = _ => set (b0 := B) in * end.
  assert (HP0 : PInv LG b0).
  { subst b0. split; cbn; auto. intros s e He. unfold next_seq_of. destruct (s_entries st) as [|kv r] eqn:EE; [discriminate|]. rewrite <- EE in *.
    assert (Hk : In s (map fst (s_entries st))) by (apply (tget_keys N.eqb N.eqb_eq); congruence).
    apply maxkey_ge in Hk. lia. }
  assert (HF0 : PF LG (b_flot b0)) by (subst b0; cbn; intros f []).
  destruct (index_txs_pinv _ _ _ _ _ _ _ HP0 HF0 E0) as (L1 & A1 & B1 & C1).
  destruct blk as [|t0 r].
  - inv E1. exists L1. split.
    + destruct A1 as [PP1 PI1 _]. split; cbn [s_children s_entries s_id2seq]; auto.
    + intro x. rewrite C1. rewrite app_nil_r. tauto.
  - cbn [tl] in *. rewrite E0. destruct (index_tx_pinv _ _ _ _ _ _ _ _ A1 B1 E1) as [A2 _].
    exists ((t0, b1) :: L1). split.
    + destruct A2 as [PP2 PI2 _]. split; cbn [s_children s_entries s_id2seq]; auto.
    + intro x. cbn [In]. rewrite C1, in_app_iff. cbn [In]. tauto.
Qed.

Lemma index_chain_pinv : forall cfg c h LG st st',
  PInvS LG st -> index_chain cfg h c st = Ok st' ->
  exists LG', PInvS LG' st' /\ (forall x, In x LG' <-> In x (chain_log cfg h c st) \/ In x LG).
Proof.
  intros cfg c. induction c as [|blk r IH]; intros h LG st st' HP H; cbn [index_chain] in H.
  - inv H. exists LG. split; auto. intro x. cbn. tauto.
  - dbind H. destruct (index_block_pinv _ _ _ _ _ _ HP E) as (L1 & A1 & C1).
    destruct (IH _ _ _ _ A1 H) as (L2 & A2 & C2). exists L2. split; auto.
    intro x. rewrite C2, C1. cbn [chain_log]. rewrite E, in_app_iff. tauto.
Qed.

(* the log only contains transactions of the chain *)
Lemma txs_log_txs : forall cfg h insc l b x, In x (txs_log cfg h insc l b) -> In (fst x) l.
Proof.
  intros cfg h insc l. induction l as [|t r IH]; intros b x H; cbn [txs_log] in H; [destruct H|].
  destruct H as [<-|H]; [left; reflexivity|]. right. destruct (index_tx cfg h insc false t b); [eapply IH; eauto | destruct H | destruct H].
Qed.

Lemma chain_log_txs : forall cfg c h st x, In x (chain_log cfg h c st) -> exists blk, In blk c /\ In (fst x) blk.
Proof.
  intros cfg c. induction c as [|blk r IH]; intros h st x H; cbn [chain_log] in H; [destruct H|].
  apply in_app_or in H. destruct H as [H|H].
  - exists blk. split; [left; reflexivity|]. unfold block_log in H. destruct (block_start cfg h st) as [b0| |]; try destruct H.
    apply in_app_or in H. destruct H as [H|H].
    + apply txs_log_txs in H. destruct blk; [destruct H | right; exact H].
    + destruct blk as [|t0 r0]; [destruct H|]. destruct (index_txs cfg h (c_first cfg <=? h) (tl (t0 :: r0)) b0); try destruct H.
      * subst x. left. reflexivity.
      * destruct H.
  - destruct (index_block cfg h blk st); try destruct H. destruct (IH _ _ _ H) as (b & B1 & B2). exists b. split; [right|]; auto.
Qed.

Theorem provenance_history : forall cfg c st,
  index_chain cfg 0 c empty_state = Ok st ->
  forall p ch, In (p, ch) (s_children st) ->
    exists t b0 ec ep,
      In (t, b0) (chain_log cfg 0 c empty_state) /\ (exists blk, In blk c /\ In t blk) /\
      tget N.eqb ch (s_entries st) = Some ec /\ fst (i_id ec) = t_id t /\
      tget N.eqb p (s_entries st) = Some ep /\ RevBy t b0 (i_id ep).
Proof.
  intros cfg c st H p ch Hc.
  destruct (index_chain_pinv cfg c 0 [] empty_state st) as (LG & [PP _] & C); auto.
  { split; cbn; [intros ? ? []|intros; discriminate]. }
  destruct (PP p ch Hc) as (t & b0 & ec & ep & A & B & D & E & F). apply C in A. destruct A as [A|[]].
  exists t, b0, ec, ep. split; auto. split; [|auto]. apply (chain_log_txs _ _ _ _ _ A).
Qed.
