(* C37, inscription half: the event-emitting run has the same states as the plain model, and replaying its
   events in order reproduces the inscription view of the state. *)
From OrdV Require Import Base.Prelude Generated Index.Inscr Index.InscrEvents Proofs.Inscr_tables Proofs.Inscr_proofs
  Proofs.Inscr_c07 Proofs.Inscr_c06 Proofs.Inscr_c04 Proofs.Inscr_c03 Proofs.Inscr_c04off Proofs.Inscr_satinv
  Proofs.Inscr_c07c Proofs.Inscr_total.
From Coq Require Import Permutation ZifyBool ZifyN.

Definition rfst {A B} (r : Res (A * B)) : Res A :=
  match r with Ok (a, _) => Ok a | Err e => Err e | Panic t => Panic t end.

(* ---- same states, same failures *)

Lemma apply_locs_ev_fst : forall h rg osrc l b, rfst (apply_locs_ev h rg osrc l b) = apply_locs h rg l b.
Proof.
  intros h rg osrc l. induction l as [|[[[op off] f] o] r IH]; intro b; cbn [apply_locs_ev apply_locs]; [reflexivity|].
  destruct (update_location h rg f (op, off) o b) as [b'| |]; cbn [bind]; try reflexivity.
  rewrite <- IH. destruct (apply_locs_ev h rg osrc r b') as [[b'' evs]| |]; reflexivity.
Qed.

Lemma apply_lost_ev_fst : forall h rg osrc ov l b, rfst (apply_lost_ev h rg osrc ov l b) = apply_lost h rg ov l b.
Proof.
  intros h rg osrc ov l. induction l as [|f r IH]; intro b; cbn [apply_lost_ev apply_lost]; [reflexivity|].
  destruct (csub 5 (b_lost b + f_offset f) ov) as [off| |]; cbn [bind]; try reflexivity.
  destruct (update_location h rg f (null_op, off) false b) as [b'| |]; cbn [bind]; try reflexivity.
  rewrite <- IH. destruct (apply_lost_ev h rg osrc ov r b') as [[b'' evs]| |]; reflexivity.
Qed.

Lemma index_inscriptions_ev_fst : forall cfg osrc h t ents rg b,
  rfst (index_inscriptions_ev cfg osrc h t ents rg b) = index_inscriptions cfg h t ents rg b.
Proof.
  intros cfg osrc h t ents rg b. unfold index_inscriptions_ev, index_inscriptions.
  destruct (floating_of cfg (b_st b) h t ents) as [[F tiv]| |]; cbn [bind]; try reflexivity.
  destruct (tx_is_coinbase t).
  - destruct (assign _ _ _ _ _) as [[locs rest] ov].
    rewrite <- (apply_locs_ev_fst h rg osrc locs (set_flot b [])).
    destruct (apply_locs_ev h rg osrc locs (set_flot b [])) as [[b1 e1]| |]; cbn [bind rfst]; try reflexivity.
    rewrite <- (apply_lost_ev_fst h rg osrc ov rest b1).
    destruct (apply_lost_ev h rg osrc ov rest b1) as [[b2 e2]| |]; cbn [bind rfst]; try reflexivity.
    destruct (csub 5 (b_reward b2) ov); reflexivity.
  - destruct (assign _ _ _ _ _) as [[locs rest] ov].
    rewrite <- (apply_locs_ev_fst h rg osrc locs b).
    destruct (apply_locs_ev h rg osrc locs b) as [[b1 e1]| |]; cbn [bind rfst]; try reflexivity.
    destruct (rebase (b_reward b1) ov rest); cbn [bind]; try reflexivity.
    destruct (csub 5 tiv ov); reflexivity.
Qed.

Definition rfst3 {A B C} (r : Res (A * B * C)) : Res A :=
  match r with Ok (a, _, _) => Ok a | Err e => Err e | Panic t => Panic t end.

Lemma index_tx_ev_fst : forall cfg osrc h insc first t b,
  rfst3 (index_tx_ev cfg osrc h insc first t b) = index_tx cfg h insc first t b.
Proof.
  intros cfg osrc h insc first t b. unfold index_tx_ev, index_tx.
  destruct (if first then Ok ([], s_utxo (b_st b)) else take_inputs (t_ins t) (s_utxo (b_st b))) as [[ents utxo1]| |]; cbn [bind]; try reflexivity.
  match goal with |- rfst3 (bind ?X _) = _ => destruct X as [[[per_out in_ranges] b1]| |]; cbn [bind]; try reflexivity end.
  destruct insc; [|reflexivity].
  match goal with |- context [index_inscriptions_ev cfg ?o h t ents in_ranges ?B] =>
    rewrite <- (index_inscriptions_ev_fst cfg o h t ents in_ranges B);
    destruct (index_inscriptions_ev cfg o h t ents in_ranges B) as [[b' evs]| |]; reflexivity end.
Qed.

Lemma index_txs_ev_fst : forall cfg h insc l osrc b,
  rfst3 (index_txs_ev cfg osrc h insc l b) = index_txs cfg h insc l b.
Proof.
  intros cfg h insc l. induction l as [|t r IH]; intros osrc b; cbn [index_txs_ev index_txs]; [reflexivity|].
  rewrite <- (index_tx_ev_fst cfg osrc h insc false t b).
  destruct (index_tx_ev cfg osrc h insc false t b) as [[[b' o'] e1]| |]; cbn [bind rfst3]; try reflexivity.
  rewrite <- (IH o' b'). destruct (index_txs_ev cfg o' h insc r b') as [[[b'' o''] e2]| |]; reflexivity.
Qed.

Lemma index_block_ev_fst : forall cfg h blk st, rfst (index_block_ev cfg h blk st) = index_block cfg h blk st.
Proof.
  intros cfg h blk st. unfold index_block_ev, index_block.
  match goal with |- rfst (bind ?X _) = _ => destruct X as [cb| |]; cbn [bind]; try reflexivity end.
  match goal with |- context [index_txs_ev cfg [] h ?i (tl blk) ?B] =>
    rewrite <- (index_txs_ev_fst cfg h i (tl blk) [] B);
    destruct (index_txs_ev cfg [] h i (tl blk) B) as [[[b1 o1] e1]| |]; cbn [bind rfst3]; try reflexivity end.
  destruct blk as [|t0 r]; cbn [bind]; [reflexivity|].
  rewrite <- (index_tx_ev_fst cfg o1 h (c_first cfg <=? h) true t0 b1).
  destruct (index_tx_ev cfg o1 h (c_first cfg <=? h) true t0 b1) as [[[b2 o2] e2]| |]; reflexivity.
Qed.

Theorem index_chain_ev_fst : forall cfg c h st, rfst (index_chain_ev cfg h c st) = index_chain cfg h c st.
Proof.
  intros cfg c. induction c as [|blk r IH]; intros h st; cbn [index_chain_ev index_chain]; [reflexivity|].
  rewrite <- (index_block_ev_fst cfg h blk st).
  destruct (index_block_ev cfg h blk st) as [[st' e]| |]; cbn [bind rfst]; try reflexivity.
  rewrite <- (IH (h + 1) st'). destruct (index_chain_ev cfg (h + 1) r st') as [[st'' es]| |]; reflexivity.
Qed.

(* ---- replaying the events *)

Definition vrec := (iid * option (outpoint * N) * N * list iid)%type.
Definition view := list (N * vrec).

(* InscriptionCreated: a new record (id, location or None for unbound, charms at creation, parent ids) under the
   sequence number; InscriptionTransferred: the record's location becomes new_location. *)
Definition replay1 (v : view) (e : ievent) : view :=
  match e with
  | EvCreated _ ch id loc ps s => tset N.eqb s (id, loc, ch, ps) v
  | EvTransferred _ _ nl _ s =>
    match tgN s v with
    | Some (i, _, ch, ps) => tset N.eqb s (i, Some nl, ch, ps) v
    | None => v
    end
  end.
Definition replay (v : view) (evs : list ievent) : view := fold_left replay1 evs v.

Lemma replay_app : forall a b v, replay v (a ++ b) = replay (replay v a) b.
Proof. intros. apply fold_left_app. Qed.

Definition vloc (op : outpoint) (off : N) : option (outpoint * N) :=
  if pair_eqb op unbound_op then None else Some (op, off).

Record VR (v : view) (st : state) : Prop := {
  vr_keys : forall s, tgN s v = None <-> tgN s (s_entries st) = None;
  vr_rec : forall s id loc ch ps, tgN s v = Some (id, loc, ch, ps) ->
     exists e, tgN s (s_entries st) = Some e /\ i_id e = id /\
       (i_charms e = ch \/ i_charms e = N.lor ch (flag CHARM_BURNED)) /\
       Forall2 (fun pid p => exists ep, tgN p (s_entries st) = Some ep /\ i_id ep = pid) ps (i_parents e);
  vr_idb : forall i s, tgP i (s_id2seq st) = Some s -> exists e, tgN s (s_entries st) = Some e /\ i_id e = i;
  vr_loc : forall op u s off, tgP op (s_utxo st) = Some u -> In (s, off) (u_insc u) ->
     exists id ch ps, tgN s v = Some (id, vloc op off, ch, ps)
}.

Lemma Forall2_impl : forall {A B} (P Q : A -> B -> Prop), (forall a b, P a b -> Q a b) ->
  forall l1 l2, Forall2 P l1 l2 -> Forall2 Q l1 l2.
Proof. intros A B P Q H l1 l2 F. induction F; constructor; auto. Qed.

Lemma link_parents_ids : forall seq ps st acc st' acc',
  link_parents seq ps st acc = Ok (st', acc') ->
  exists l, acc' = acc ++ l /\
    Forall2 (fun pid p => tgP pid (s_id2seq st) = Some p)
            (filter (fun p => is_some (tgP p (s_id2seq st))) ps) l.
Proof.
  intros seq ps. induction ps as [|p r IH]; intros st acc st' acc' H; cbn [link_parents] in H.
  - inv H. exists []. rewrite app_nil_r. split; auto. constructor.
  - cbn [filter]. destruct (tgP p (s_id2seq st)) as [pseq|] eqn:Ep; cbn [is_some].
    + destruct (tgN pseq (s_entries st)) as [pe|]; [|discriminate].
      destruct (if i_hidden pe then _ else _) as [coll latest].
      apply IH in H. cbn [s_id2seq] in H. destruct H as (l & A & B).
      exists (pseq :: l). rewrite <- app_assoc in A. split; auto.
    + apply IH in H. exact H.
Qed.

Lemma update_new_full : forall h rg f sp o b b' c fee hid ps re ub vi,
  f_origin f = ONew c fee hid ps re ub vi ->
  update_location h rg f sp o b = Ok b' ->
  exists e,
    i_id e = f_id f /\
    Forall2 (fun pid p => tgP pid (s_id2seq (b_st b)) = Some p)
            (filter (fun p => is_some (tgP p (s_id2seq (b_st b)))) ps) (i_parents e) /\
    s_entries (b_st b') = tset N.eqb (b_next b) e (s_entries (b_st b)) /\
    s_id2seq (b_st b') = tset pair_eqb (f_id f) (b_next b) (s_id2seq (b_st b)) /\
    s_utxo (b_st b') = push_insc (if ub then unbound_op else fst sp) (b_next b) (if ub then b_unb b else snd sp)
                                 (s_utxo (b_st b)).
Proof.
  intros h rg f sp o b b' c fee hid ps re ub vi Ho H.
  unfold update_location in H. rewrite Ho in H.
  dbind H. destruct a as [[number bl] cu].
  dbind H. rename a into sat.
  dbind H. destruct a as [st1 pseqs].
  pose proof (link_parents_ids _ _ _ _ _ _ E1) as (l & A & B). cbn [s_id2seq app] in A, B. subst l.
  apply link_parents_core in E1. cbn [s_entries s_id2seq s_num2seq s_utxo s_sat2seq s_h2last s_blessed s_cursed s_unbound s_lost] in E1.
  destruct E1 as (L1 & L2 & L3 & L4 & _).
  destruct ub; inv H; refine (ex_intro _ (mkI _ _ _ _ _ _ _ _ _) _); cbn [b_st s_entries s_id2seq s_utxo i_id i_parents fst snd]; rewrite L1, L2, L4;
    (split; [reflexivity|]); (split; [exact B|]); repeat split.
Qed.

Lemma held_in : forall op u s off U, tgP op U = Some u -> In (s, off) (u_insc u) -> In s (held_u U).
Proof.
  intros op u s off U H Hin. apply (tget_In _ pair_eqb_eq) in H. unfold held_u. apply in_concat. exists (seqs_of u). split.
  - apply in_map_iff. exists (op, u). split; [reflexivity|exact H].
  - unfold seqs_of. apply in_map_iff. exists (s, off). split; [reflexivity|exact Hin].
Qed.

Lemma push_insc_in : forall op0 s0 off0 U op u s off,
  tgP op (push_insc op0 s0 off0 U) = Some u -> In (s, off) (u_insc u) ->
  (op = op0 /\ s = s0 /\ off = off0) \/ exists u0, tgP op U = Some u0 /\ In (s, off) (u_insc u0).
Proof.
  intros op0 s0 off0 U op u s off H Hin. unfold push_insc in H. rewrite tgP_set in H.
  destruct (pair_eqb op op0) eqn:E.
  - apply pair_eqb_eq in E. subst op0. inv H. cbn [u_insc] in Hin. apply in_app_or in Hin. destruct Hin as [Hin|[Hin|[]]].
    + destruct (tgP op U) as [u0|]; [right; exists u0; auto | destruct Hin].
    + inv Hin. left. auto.
  - right. exists u. auto.
Qed.

Lemma lor_burned : forall c ch, (c = ch \/ c = N.lor ch (flag CHARM_BURNED)) ->
  N.lor c (flag CHARM_BURNED) = N.lor ch (flag CHARM_BURNED).
Proof. intros c ch [->| ->]; [reflexivity|]. rewrite <- N.lor_assoc, N.lor_diag. reflexivity. Qed.

Lemma step_vr : forall osrc h rg f sp o b b' v,
  update_location h rg f sp o b = Ok b' ->
  VR v (b_st b) -> DomIff (b_next b) (s_entries (b_st b)) ->
  (forall s, In s (held_u (s_utxo (b_st b))) -> s < b_next b) ->
  (forall seq, f_origin f = OOld seq -> seq < b_next b /\ ~ In seq (held_u (s_utxo (b_st b)))) ->
  fst sp <> unbound_op ->
  VR (replay1 v (event_of osrc h f sp b b')) (b_st b').
Proof.
  intros osrc h rg f sp o b b' v H [K R I L] D HB HO Hsp. unfold event_of.
  destruct (f_origin f) as [c fee hid ps re ub vi|seq] eqn:Ho.
  - destruct (update_new_full _ _ _ _ _ _ _ _ _ _ _ _ _ _ Ho H) as (e & E1 & E2 & E3 & E4 & E5).
    assert (Hfresh : tgN (b_next b) (s_entries (b_st b)) = None).
    { destruct (tgN (b_next b) (s_entries (b_st b))) eqn:Q; auto. exfalso.
      assert (b_next b < b_next b) by (apply D; congruence). lia. }
    rewrite E3, tgN_set, N.eqb_refl. cbn [replay1]. split.
    + intro s. rewrite E3, !tgN_set. destruct (s =? b_next b); [split; discriminate | apply K].
    + intros s id loc ch ps0 Hs. rewrite E3. rewrite tgN_set in Hs. rewrite tgN_set.
      assert (Hpar : forall pid p, (exists ep, tgN p (s_entries (b_st b)) = Some ep /\ i_id ep = pid) ->
                 exists ep, tgN p (tset N.eqb (b_next b) e (s_entries (b_st b))) = Some ep /\ i_id ep = pid).
      { intros pid p (ep & A & B). exists ep. rewrite tgN_set. destruct (N.eqb_spec p (b_next b)); [congruence|auto]. }
      destruct (N.eqb_spec s (b_next b)).
      * inv Hs. exists e. repeat split; auto.
        eapply Forall2_impl; [|exact E2]. intros pid p Hp. apply Hpar, I. exact Hp.
      * destruct (R _ _ _ _ _ Hs) as (e0 & A & B & C & F). exists e0. repeat split; auto.
        eapply Forall2_impl; [|exact F]. intros pid p Hp. apply Hpar. exact Hp.
    + intros i s Hi. rewrite E4 in Hi. rewrite E3. rewrite tgP_set in Hi. rewrite tgN_set.
      destruct (pair_eqb i (f_id f)) eqn:Q.
      * apply pair_eqb_eq in Q. inv Hi. rewrite N.eqb_refl. exists e. auto.
      * destruct (I _ _ Hi) as (e0 & A & B). destruct (N.eqb_spec s (b_next b)); [congruence|]. exists e0. auto.
    + intros op u s off Hu Hin. rewrite E5 in Hu. rewrite tgN_set.
      destruct (push_insc_in _ _ _ _ _ _ _ _ Hu Hin) as [(A1 & A2 & A3)|(u0 & A & B)].
      * subst. rewrite N.eqb_refl. exists (f_id f), (i_charms e), (filter (fun p => is_some (tgP p (s_id2seq (b_st b)))) ps).
        unfold vloc. destruct ub.
        -- rewrite pair_eqb_refl. reflexivity.
        -- destruct (pair_eqb (fst sp) unbound_op) eqn:Q; [apply pair_eqb_eq in Q; contradiction|]. destruct sp; reflexivity.
      * pose proof (HB _ (held_in _ _ _ _ _ A B)) as Hlt. destruct (N.eqb_spec s (b_next b)); [lia|]. eapply L; eauto.
  - destruct (HO seq eq_refl) as [Hlt Hnh].
    destruct (update_old_shape _ _ _ _ _ _ _ _ Ho H) as (O1 & _ & _ & _ & _ & _ & _ & O8).
    destruct (update_utxo_shape _ _ _ _ _ _ _ H) as (op & s' & off & U & [(seq' & A1 & A2 & A3 & A4)|(A1 & _)]);
      [|unfold is_new in A1; rewrite Ho in A1; discriminate].
    rewrite Ho in A1. inv A1. cbn [replay1].
    destruct (tgN seq' v) as [[[[i0 l0] ch0] ps0]|] eqn:Ev.
    2:{ exfalso. apply K in Ev. assert (tgN seq' (s_entries (b_st b)) <> None) by (apply D; exact Hlt). contradiction. }
    assert (HE : forall s, (tgN s (s_entries (b_st b)) = None /\ tgN s (s_entries (b_st b')) = None) \/
               exists e0 e1,
               (tgN s (s_entries (b_st b)) = Some e0 /\ tgN s (s_entries (b_st b')) = Some e1 /\ i_id e1 = i_id e0 /\
                i_parents e1 = i_parents e0 /\
                (i_charms e1 = i_charms e0 \/ (s = seq' /\ i_charms e1 = N.lor (i_charms e0) (flag CHARM_BURNED))))).
    { intro s. destruct O8 as [O8|(e & He & O8)]; rewrite O8.
      - destruct (tgN s (s_entries (b_st b))) as [e0|]; [right; exists e0, e0; auto 10 | left; auto].
      - rewrite tgN_set. destruct (N.eqb_spec s seq').
        + subst s. right. eexists e, _. rewrite He. repeat split; auto.
        + destruct (tgN s (s_entries (b_st b))) as [e0|]; [right; exists e0, e0; auto 10 | left; auto]. }
    assert (Hpar : forall pid p, (exists ep, tgN p (s_entries (b_st b)) = Some ep /\ i_id ep = pid) ->
               exists ep, tgN p (s_entries (b_st b')) = Some ep /\ i_id ep = pid).
    { intros pid p (ep & A & B). destruct (HE p) as [[X _]|(e0 & e1 & X & Y & Z & _)]; [congruence|].
      exists e1. split; auto. congruence. }
    split.
    + intro s. rewrite tgN_set. destruct (HE s) as [[X Y]|(e0 & e1 & X & Y & _)]; rewrite Y.
      * destruct (N.eqb_spec s seq'); [subst; apply K in X; congruence|]. rewrite K. tauto.
      * split; [|discriminate]. destruct (s =? seq'); [discriminate|]. rewrite K. congruence.
    + intros s id loc ch ps Hs. rewrite tgN_set in Hs.
      assert (Hs0 : exists loc0, tgN s v = Some (id, loc0, ch, ps)).
      { destruct (N.eqb_spec s seq'); [subst; inv Hs; eauto | eauto]. }
      destruct Hs0 as (loc0 & Hs0). destruct (R _ _ _ _ _ Hs0) as (e0 & A & B & C & F).
      destruct (HE s) as [[X _]|(e0' & e1 & X & Y & Z1 & Z2 & Z3)]; [congruence|].
      rewrite A in X. inv X. exists e1. split; auto. split; [congruence|]. split.
      * destruct Z3 as [Z3|[_ Z3]]; rewrite Z3; auto. right. apply lor_burned. exact C.
      * rewrite Z2. eapply Forall2_impl; [|exact F]. intros pid p Hp. apply Hpar. exact Hp.
    + intros i s Hi. rewrite O1 in Hi. apply Hpar. apply I. exact Hi.
    + intros op' u s off' Hu Hin. rewrite U in Hu. rewrite tgN_set.
      destruct (push_insc_in _ _ _ _ _ _ _ _ Hu Hin) as [(B1 & B2 & B3)|(u0 & A & B)].
      * subst. rewrite N.eqb_refl. exists i0, ch0, ps0. unfold vloc. cbn [fst] in Hsp.
        destruct (pair_eqb op unbound_op) eqn:Q; [apply pair_eqb_eq in Q; contradiction|]. reflexivity.
      * destruct (N.eqb_spec s seq').
        -- subst. exfalso. apply Hnh. eapply held_in; eauto.
        -- eapply L; eauto.
Qed.

(* ---- lists of flotsam *)

Lemma perm_facts : forall Hd f R n,
  Permutation (Hd ++ old_seq f ++ R) (nlist n) ->
  (forall s, In s Hd -> s < n) /\ (forall seq, f_origin f = OOld seq -> seq < n /\ ~ In seq Hd).
Proof.
  intros Hd f R n P. split.
  - intros s Hs. apply nlist_In. eapply Permutation_in; [exact P|]. apply in_or_app. auto.
  - intros seq Ho. unfold old_seq in P. rewrite Ho in P. split.
    + apply nlist_In. eapply Permutation_in; [exact P|]. apply in_or_app. right. left. reflexivity.
    + pose proof (Permutation_NoDup (Permutation_sym P) (nlist_NoDup n)) as ND.
      apply NoDup_app_iff in ND. destruct ND as (_ & _ & ND). intro Hin. apply (ND seq Hin). left. reflexivity.
Qed.

Lemma apply_locs_vr : forall osrc seen h rg txid locs b b' evs R v,
  Cen seen b -> In txid seen -> txid <> 0 ->
  Forall (fun loc => fst (fst (fst (fst loc))) = txid) locs ->
  Permutation (held_u (s_utxo (b_st b)) ++ old_seqs (map loc_flot locs) ++ R) (nlist (b_next b)) ->
  VR v (b_st b) ->
  apply_locs_ev h rg osrc locs b = Ok (b', evs) ->
  VR (replay v evs) (b_st b').
Proof.
  intros osrc seen h rg txid locs. induction locs as [|[[[op off] f] o] r IH]; intros b b' evs R v HC Hin Hz HK P V H;
    cbn [apply_locs_ev] in H.
  - inv H. exact V.
  - dbind H. rename a into b1. dbind H. destruct a as [b2 evs2]. inv H. apply Forall_cons_iff in HK. destruct HK as [H1 H2]. cbn [fst] in H1.
    cbn [map loc_flot fst snd] in P. rewrite old_seqs_cons, <- app_assoc in P.
    destruct (perm_facts _ _ _ _ P) as [PF1 PF2]. destruct HC as [CD CK CS].
    cbn [replay fold_left]. eapply (IH b1 b' evs2 R).
    + eapply step_cen; [split; eauto| |exact E]. right. cbn [fst]. rewrite H1. exact Hin.
    + exact Hin.
    + exact Hz.
    + exact H2.
    + eapply step_census; eauto.
    + eapply step_vr; eauto. cbn [fst]. intro Q. unfold unbound_op in Q. destruct op as [tx vo]. cbn [fst] in H1. inv Q. contradiction.
    + exact E0.
Qed.

Lemma apply_lost_vr : forall osrc seen h rg ov l b b' evs R v,
  Cen seen b ->
  Permutation (held_u (s_utxo (b_st b)) ++ old_seqs l ++ R) (nlist (b_next b)) ->
  VR v (b_st b) ->
  apply_lost_ev h rg osrc ov l b = Ok (b', evs) ->
  VR (replay v evs) (b_st b').
Proof.
  intros osrc seen h rg ov l. induction l as [|f r IH]; intros b b' evs R v HC P V H; cbn [apply_lost_ev] in H.
  - inv H. exact V.
  - dbind H. rename a into off. dbind H. rename a into b1. dbind H. destruct a as [b2 evs2]. inv H.
    rewrite old_seqs_cons, <- app_assoc in P.
    destruct (perm_facts _ _ _ _ P) as [PF1 PF2]. destruct HC as [CD CK CS].
    cbn [replay fold_left]. eapply (IH b1 b' evs2 R).
    + eapply step_cen; [split; eauto| |exact E0]. left. reflexivity.
    + eapply step_census; eauto.
    + eapply step_vr; eauto. cbn [fst]. discriminate.
    + exact E1.
Qed.

(* ---- one transaction *)

Lemma index_inscriptions_vr : forall cfg osrc h t ents rg seen b b' evs v,
  Cen seen b -> In (t_id t) seen -> t_id t <> 0 ->
  ((tx_plain t /\ length ents = length (t_ins t) /\
    Permutation (held_u (s_utxo (b_st b)) ++ ents_seqs ents ++ old_seqs (b_flot b)) (nlist (b_next b))) \/
   (tx_cb t /\ Permutation (held_u (s_utxo (b_st b)) ++ old_seqs (b_flot b)) (nlist (b_next b)))) ->
  VR v (b_st b) ->
  index_inscriptions_ev cfg osrc h t ents rg b = Ok (b', evs) ->
  VR (replay v evs) (b_st b').
Proof.
  intros cfg osrc h t ents rg seen b b' evs v HC Hin Hz Hcase V H. unfold index_inscriptions_ev in H.
  dbind H. destruct a as [F tiv]. destruct Hcase as [(HP & HL & P)|(HCB & P)].
  - rewrite (plain_not_coinbase t HP) in H.
    apply floating_of_olds_plain in E; auto.
    destruct (assign (t_id t) 0 0 (t_outs t) (sort_by f_offset F)) as [[locs rest] ov] eqn:EA.
    pose proof (assign_ops _ _ _ _ _ _ _ _ EA) as HO. apply assign_split in EA.
    assert (PM : Permutation (old_seqs (map loc_flot locs) ++ old_seqs rest) (ents_seqs ents)).
    { rewrite <- old_seqs_app, <- EA. eapply perm_trans; [apply old_seqs_perm, sort_by_perm|]. exact E. }
    dbind H. destruct a as [b1 ev1]. dbind H. rename a into rest'. dbind H. inv H. cbn [b_st].
    eapply (apply_locs_vr osrc seen h rg (t_id t) locs b b1 evs (old_seqs rest ++ old_seqs (b_flot b))); eauto.
    eapply perm_trans; [|exact P]. apply Permutation_app_head.
    rewrite app_assoc. apply Permutation_app_tail. exact PM.
  - rewrite (cb_is_coinbase t HCB) in H. apply floating_of_olds_cb in E; auto. subst F. cbn [app] in H.
    destruct (assign (t_id t) 0 0 (t_outs t) (sort_by f_offset (b_flot b))) as [[locs rest] ov] eqn:EA.
    pose proof (assign_ops _ _ _ _ _ _ _ _ EA) as HO. apply assign_split in EA.
    assert (PM : Permutation (old_seqs (map loc_flot locs) ++ old_seqs rest) (old_seqs (b_flot b))).
    { rewrite <- old_seqs_app, <- EA. apply old_seqs_perm, sort_by_perm. }
    dbind H. destruct a as [b1 ev1]. dbind H. destruct a as [b2 ev2]. dbind H. inv H. cbn [b_st].
    assert (HC0 : Cen seen (set_flot b [])) by (eapply Cen_ext; [| |exact HC]; reflexivity).
    assert (P0 : Permutation (held_u (s_utxo (b_st (set_flot b []))) ++ old_seqs (map loc_flot locs) ++ old_seqs rest ++ [])
                             (nlist (b_next (set_flot b [])))).
    { cbn [set_flot b_st b_next]. rewrite app_nil_r. eapply perm_trans; [|exact P]. apply Permutation_app_head. exact PM. }
    pose proof (apply_locs_ev_fst h rg osrc locs (set_flot b [])) as Q1. rewrite E in Q1. cbn [rfst] in Q1. symmetry in Q1.
    destruct (apply_locs_census seen h rg locs (set_flot b []) b1 (old_seqs rest ++ [])) as [C1 P1]; auto.
    { eapply Forall_impl; [|exact HO]. intros [[[[tx vo] off] f] o] Hx. cbn in Hx. subst tx. right. exact Hin. }
    rewrite replay_app.
    eapply (apply_lost_vr osrc seen h rg ov rest b1 b2 ev2 []); eauto.
    eapply (apply_locs_vr osrc seen h rg (t_id t) locs (set_flot b []) b1 ev1 (old_seqs rest ++ [])); eauto.
Qed.

Lemma index_tx_vr : forall cfg osrc h (insc first : bool) t seen b b' o' evs v,
  Cen seen b -> ~ In (t_id t) seen -> t_id t <> 0 ->
  (insc = true -> if first then tx_cb t else tx_plain t) ->
  (insc = true -> Permutation (held_u (s_utxo (b_st b)) ++ old_seqs (b_flot b)) (nlist (b_next b))) ->
  VR v (b_st b) ->
  index_tx_ev cfg osrc h insc first t b = Ok (b', o', evs) ->
  VR (replay v evs) (b_st b').
Proof.
  intros cfg osrc h insc first t seen b b' o' evs v [CD CK CS] Hf Hz Hshape P V H. unfold index_tx_ev in H.
  dbind H. destruct a as [ents utxo1]. dbind H. destruct a as [[per_out in_ranges] b1].
  assert (Hb1 : b_st b1 = b_st b /\ b_next b1 = b_next b /\ b_flot b1 = b_flot b).
  { destruct (c_sats cfg).
    - dbind E0. destruct a as [po lft]. destruct first; inv E0; cbn; auto.
    - inv E0. auto. }
  destruct Hb1 as (Q1 & Q2 & Q3).
  assert (HT : Permutation (held_u (s_utxo (b_st b))) (held_u utxo1 ++ ents_seqs ents) /\ NoDup (map fst utxo1) /\
               (forall x, In x (map fst utxo1) -> In x (map fst (s_utxo (b_st b)))) /\
               (first = false -> length ents = length (t_ins t)) /\ (first = true -> ents = []) /\
               (forall op u, tgP op utxo1 = Some u -> tgP op (s_utxo (b_st b)) = Some u)).
  { destruct first.
    - inv E. cbn. rewrite app_nil_r. repeat split; auto. discriminate.
    - destruct (take_inputs_held _ _ _ _ CK E) as (A & B & C & D). destruct (take_inputs_tg _ _ _ _ E) as (_ & T & _).
      repeat split; auto. discriminate. }
  destruct HT as (T1 & T2 & T3 & T4 & T5 & T6).
  assert (HFR : forall v, ~ In (t_id t, v) (map fst utxo1)).
  { intros v0 Hin. apply T3, CS in Hin. destruct Hin as [Hin|Hin]; cbn in Hin; auto. }
  destruct (put_outputs_held cfg (t_id t) (t_outs t) 0 per_out utxo1 HFR T2) as (U1 & U2 & U3).
  set (b2 := set_st b1 (with_utxo (b_st b) (put_outputs cfg (t_id t) 0 (t_outs t) per_out utxo1))) in *.
  assert (V2 : VR v (b_st b2)).
  { subst b2. destruct V as [K R I L]. unfold set_st, with_utxo. split; cbn [b_st s_entries s_id2seq s_utxo]; auto.
    intros op u s off Hu Hin. apply put_outputs_tg in Hu. destruct Hu as [[_ Hu]|Hu]; [rewrite Hu in Hin; destruct Hin|].
    eapply L; eauto. }
  destruct insc; [|inv H; exact V2].
  specialize (P eq_refl). specialize (Hshape eq_refl).
  assert (HC2 : Cen (t_id t :: seen) b2).
  { subst b2. unfold set_st, with_utxo. split; cbn [b_st b_next s_entries s_utxo]; rewrite ?Q2; auto.
    intros op Hop. destruct (U3 op Hop) as [Hx|Hx].
    - destruct (CS op (T3 op Hx)) as [?|?]; [left; auto | right; right; auto].
    - right. left. auto. }
  assert (HP2 : Permutation (held_u (s_utxo (b_st b2)) ++ ents_seqs ents ++ old_seqs (b_flot b2)) (nlist (b_next b2))).
  { subst b2. unfold set_st, with_utxo. cbn [b_st b_next b_flot s_utxo]. rewrite U1, Q2, Q3.
    rewrite app_assoc. eapply perm_trans; [|exact P]. apply Permutation_app_tail. apply Permutation_sym. exact T1. }
  dbind H. destruct a as [b3 evs3]. inv H.
  eapply (index_inscriptions_vr cfg _ h t ents in_ranges (t_id t :: seen) b2 b' evs v HC2); eauto.
  - left. reflexivity.
  - destruct first.
    + right. split; auto. rewrite (T5 eq_refl) in HP2. exact HP2.
    + left. split; auto.
Qed.

(* ---- transactions of a block, blocks, chains *)

Lemma index_tx_plain_of_ev : forall cfg osrc h insc first t b b' o' evs,
  index_tx_ev cfg osrc h insc first t b = Ok (b', o', evs) -> index_tx cfg h insc first t b = Ok b'.
Proof. intros. rewrite <- (index_tx_ev_fst cfg osrc). rewrite H. reflexivity. Qed.

Lemma index_txs_plain_of_ev : forall cfg osrc h insc l b b' o' evs,
  index_txs_ev cfg osrc h insc l b = Ok (b', o', evs) -> index_txs cfg h insc l b = Ok b'.
Proof. intros. rewrite <- (index_txs_ev_fst cfg h insc l osrc). rewrite H. reflexivity. Qed.

Lemma index_txs_vr : forall cfg h l osrc seen b b' o' evs v,
  Cen seen b -> NoDup (map t_id l) -> (forall x, In x (map t_id l) -> ~ In x seen /\ x <> 0) ->
  Forall tx_plain l ->
  Permutation (held_u (s_utxo (b_st b)) ++ old_seqs (b_flot b)) (nlist (b_next b)) ->
  VR v (b_st b) ->
  index_txs_ev cfg osrc h true l b = Ok (b', o', evs) ->
  VR (replay v evs) (b_st b').
Proof.
  intros cfg h l. induction l as [|t r IH]; intros osrc seen b b' o' evs v HC ND FR HP P V H; cbn [index_txs_ev] in H.
  - inv H. exact V.
  - dbind H. destruct a as [[b1 o1] e1]. dbind H. destruct a as [[b2 o2] e2]. inv H.
    cbn [map] in ND, FR. apply NoDup_cons_iff in ND. destruct ND as [ND1 ND2].
    apply Forall_cons_iff in HP. destruct HP as [HP1 HP2].
    assert (F12 : ~ In (t_id t) seen /\ t_id t <> 0) by (apply FR; left; reflexivity). destruct F12 as [F1 F2].
    destruct (index_tx_census cfg h false t seen b b1 HC F1 F2 HP1 P (index_tx_plain_of_ev _ _ _ _ _ _ _ _ _ _ E)) as (C1 & P1 & _).
    assert (FR1 : forall x, In x (map t_id r) -> ~ In x (t_id t :: seen) /\ x <> 0).
    { intros x Hx. assert (AB : ~ In x seen /\ x <> 0) by (apply FR; right; exact Hx). destruct AB as [A B].
      split; auto. intros [Hs|Hs]; [subst; contradiction | auto]. }
    rewrite replay_app. eapply (IH o1 (t_id t :: seen) b1 b' o' e2); eauto.
    eapply (index_tx_vr cfg osrc h true false t seen b b1 o1 e1 v HC F1 F2); auto.
Qed.

Lemma index_txs_vr_noinsc : forall cfg h l osrc seen b b' o' evs v,
  Cen seen b -> held_u (s_utxo (b_st b)) = [] -> NoDup (map t_id l) ->
  (forall x, In x (map t_id l) -> ~ In x seen /\ x <> 0) ->
  VR v (b_st b) ->
  index_txs_ev cfg osrc h false l b = Ok (b', o', evs) ->
  VR (replay v evs) (b_st b').
Proof.
  intros cfg h l. induction l as [|t r IH]; intros osrc seen b b' o' evs v HC HE ND FR V H; cbn [index_txs_ev] in H.
  - inv H. exact V.
  - dbind H. destruct a as [[b1 o1] e1]. dbind H. destruct a as [[b2 o2] e2]. inv H.
    cbn [map] in ND, FR. apply NoDup_cons_iff in ND. destruct ND as [ND1 ND2].
    assert (F12 : ~ In (t_id t) seen /\ t_id t <> 0) by (apply FR; left; reflexivity). destruct F12 as [F1 F2].
    destruct (index_tx_noinsc cfg h false t seen b b1 HC HE F1 F2 (index_tx_plain_of_ev _ _ _ _ _ _ _ _ _ _ E)) as (C1 & E1 & _).
    assert (FR1 : forall x, In x (map t_id r) -> ~ In x (t_id t :: seen) /\ x <> 0).
    { intros x Hx. assert (AB : ~ In x seen /\ x <> 0) by (apply FR; right; exact Hx). destruct AB as [A B].
      split; auto. intros [Hs|Hs]; [subst; contradiction | auto]. }
    rewrite replay_app. eapply (IH o1 (t_id t :: seen) b1 b' o' e2); eauto.
    eapply (index_tx_vr cfg osrc h false false t seen b b1 o1 e1 v HC F1 F2); auto; discriminate.
Qed.

Lemma index_block_vr : forall cfg h blk seen st st' evs v,
  St4 seen st -> NoDup (map t_id blk) -> (forall x, In x (map t_id blk) -> ~ In x seen /\ x <> 0) ->
  block_ok blk -> ((c_first cfg <=? h) = false -> next_seq_of (s_entries st) = 0) ->
  VR v st ->
  index_block_ev cfg h blk st = Ok (st', evs) ->
  VR (replay v evs) st'.
Proof.
  intros cfg h blk seen st st' evs v [SD SK SS SP] ND FR BO HZ V H. unfold index_block_ev in H.
  dbind H. rename a into cb. dbind H. destruct a as [[b1 o1] e1]. dbind H. destruct a as [b2 e2]. inv H.
  match type of E0 with index_txs_ev _ _ _ _ _ ?B = _ => set (b0 := B) in * end.
  assert (HC0 : Cen seen b0) by (subst b0; split; cbn; auto).
  assert (V0 : VR v (b_st b0)) by (subst b0; exact V).
  assert (Hfin : forall w, VR w (b_st b2) ->
     VR w (mkSt
             match b_lost_ranges b2 with
             | [] => s_utxo (b_st b2)
             | p :: l => tset pair_eqb null_op
                 (mkU (u_value match tgP null_op (s_utxo (b_st b2)) with Some e => e | None => empty_entry end)
                      (u_ranges match tgP null_op (s_utxo (b_st b2)) with Some e => e | None => empty_entry end ++ p :: l)
                      (u_insc match tgP null_op (s_utxo (b_st b2)) with Some e => e | None => empty_entry end))
                 (s_utxo (b_st b2))
             end
             (s_entries (b_st b2)) (s_id2seq (b_st b2)) (s_num2seq (b_st b2)) (s_sat2seq (b_st b2))
             (s_children (b_st b2)) (s_coll (b_st b2)) (s_latest (b_st b2))
             (if c_first cfg <=? h then tset N.eqb h (b_next b2) (s_h2last (b_st b2)) else s_h2last (b_st b2))
             (b_blessed b2) (b_cursed b2) (b_unb b2)
             (if c_sats cfg then s_lost st + ranges_size (b_lost_ranges b2) else b_lost b2))).
  { intros w [K R I L]. split; cbn [s_entries s_id2seq s_utxo]; auto.
    intros op u s off Hu Hin. destruct (b_lost_ranges b2); [eapply L; eauto|].
    rewrite tgP_set in Hu. destruct (pair_eqb op null_op) eqn:Q; [|eapply L; eauto].
    apply pair_eqb_eq in Q. subst op. inv Hu. cbn [u_insc] in Hin.
    destruct (tgP null_op (s_utxo (b_st b2))) as [e|] eqn:Q; [eapply L; eauto | destruct Hin]. }
  apply Hfin. rewrite replay_app.
  destruct (c_first cfg <=? h) eqn:INS.
  - assert (P0 : Permutation (held_u (s_utxo (b_st b0)) ++ old_seqs (b_flot b0)) (nlist (b_next b0))).
    { subst b0. cbn. rewrite app_nil_r. exact SP. }
    destruct blk as [|t0 r].
    + cbn [tl] in E0. cbn in E0. inv E0. inv E1. exact V0.
    + cbn [tl] in E0. cbn [map] in ND, FR. apply NoDup_cons_iff in ND. destruct ND as [ND1 ND2]. destruct BO as [BO1 BO2].
      assert (FR1 : forall x, In x (map t_id r) -> ~ In x seen /\ x <> 0) by (intros x Hx; apply FR; right; auto).
      destruct (index_txs_census cfg h r seen b0 b1 HC0 ND2 FR1 BO2 P0 (index_txs_plain_of_ev _ _ _ _ _ _ _ _ _ E0))
        as (s1 & C1 & HS1 & P1).
      assert (F12 : ~ In (t_id t0) seen /\ t_id t0 <> 0) by (apply FR; left; reflexivity). destruct F12 as [F1 F2].
      dbind E1. destruct a as [[b3 o3] e3]. inv E1.
      eapply (index_tx_vr cfg o1 h true true t0 s1 b1 b2 o3 e2 _ C1); auto.
      * intro Hx. apply HS1 in Hx. destruct Hx as [Hx|Hx]; contradiction.
      * exact (index_txs_vr cfg h r [] seen b0 b1 o1 e1 v HC0 ND2 FR1 BO2 P0 V0 E0).
  - specialize (HZ eq_refl).
    assert (HE0 : held_u (s_utxo (b_st b0)) = []).
    { subst b0. cbn. rewrite HZ in SP. apply Permutation_sym, Permutation_nil in SP. exact SP. }
    destruct blk as [|t0 r].
    + cbn [tl] in E0. cbn in E0. inv E0. inv E1. exact V0.
    + cbn [tl] in E0. cbn [map] in ND, FR. apply NoDup_cons_iff in ND. destruct ND as [ND1 ND2].
      assert (FR1 : forall x, In x (map t_id r) -> ~ In x seen /\ x <> 0) by (intros x Hx; apply FR; right; auto).
      destruct (index_txs_noinsc cfg h r seen b0 b1 HC0 HE0 ND2 FR1 (index_txs_plain_of_ev _ _ _ _ _ _ _ _ _ E0))
        as (s1 & C1 & HS1 & E1' & _).
      assert (F12 : ~ In (t_id t0) seen /\ t_id t0 <> 0) by (apply FR; left; reflexivity). destruct F12 as [F1 F2].
      dbind E1. destruct a as [[b3 o3] e3]. inv E1.
      eapply (index_tx_vr cfg o1 h false true t0 s1 b1 b2 o3 e2 _ C1); auto; try discriminate.
      * intro Hx. apply HS1 in Hx. destruct Hx as [Hx|Hx]; contradiction.
      * exact (index_txs_vr_noinsc cfg h r [] seen b0 b1 o1 e1 v HC0 HE0 ND2 FR1 V0 E0).
Qed.

Lemma index_block_plain_of_ev : forall cfg h blk st st' evs,
  index_block_ev cfg h blk st = Ok (st', evs) -> index_block cfg h blk st = Ok st'.
Proof. intros. rewrite <- index_block_ev_fst. rewrite H. reflexivity. Qed.

Lemma index_chain_vr : forall cfg c h seen st st' evs v,
  St4 seen st -> NoDup (chain_txids c) -> (forall x, In x (chain_txids c) -> ~ In x seen /\ x <> 0) ->
  Forall block_ok c -> ((c_first cfg <=? h) = false -> next_seq_of (s_entries st) = 0) ->
  VR v st ->
  index_chain_ev cfg h c st = Ok (st', evs) ->
  VR (replay v (concat evs)) st' /\ exists seen', St4 seen' st'.
Proof.
  intros cfg c. induction c as [|blk r IH]; intros h seen st st' evs v HS ND FR BO HZ V H; cbn [index_chain_ev] in H.
  - inv H. split; [exact V | exists seen; exact HS].
  - dbind H. destruct a as [st1 e1]. dbind H. destruct a as [st2 es]. inv H.
    unfold chain_txids in ND, FR. cbn [map concat] in ND, FR.
    apply NoDup_app_iff in ND. destruct ND as (ND1 & ND2 & ND3).
    apply Forall_cons_iff in BO. destruct BO as [BO1 BO2].
    assert (FR1 : forall x, In x (map t_id blk) -> ~ In x seen /\ x <> 0).
    { intros x Hx. apply FR. apply in_or_app. auto. }
    destruct (index_block_st4 cfg h blk seen st st1 HS ND1 FR1 BO1 HZ (index_block_plain_of_ev _ _ _ _ _ _ E))
      as (s1 & HS1 & HQ1 & HE1).
    assert (FR2 : forall x, In x (chain_txids r) -> ~ In x s1 /\ x <> 0).
    { intros x Hx. assert (AB : ~ In x seen /\ x <> 0) by (apply FR; apply in_or_app; auto). destruct AB as [A B].
      split; auto. intro Hs. apply HQ1 in Hs. destruct Hs as [Hs|Hs]; [exact (ND3 x Hs Hx) | contradiction]. }
    cbn [concat]. rewrite replay_app.
    assert (HZ1 : (c_first cfg <=? h + 1) = false -> next_seq_of (s_entries st1) = 0).
    { intro Hlt. assert (Hlt' : (c_first cfg <=? h) = false) by lia. rewrite (HE1 Hlt'). auto. }
    exact (IH (h + 1) s1 st1 st' es _ HS1 ND2 FR2 BO2 HZ1
              (index_block_vr cfg h blk seen st st1 e1 v HS ND1 FR1 BO1 HZ V E) E0).
Qed.

Lemma VR_empty : VR [] empty_state.
Proof.
  split; cbn.
  - intro s. tauto.
  - intros; discriminate.
  - intros; discriminate.
  - intros; discriminate.
Qed.

Lemma in_held : forall U s, NoDup (map fst U) -> In s (held_u U) ->
  exists op u off, tgP op U = Some u /\ In (s, off) (u_insc u).
Proof.
  intros U s ND H. unfold held_u in H. apply in_concat in H. destruct H as (l & Hl & Hs).
  apply in_map_iff in Hl. destruct Hl as ([op u] & <- & Hin). cbn [snd] in Hs.
  unfold seqs_of in Hs. apply in_map_iff in Hs. destruct Hs as ([s' off] & <- & Hp).
  exists op, u, off. split; auto.
  destruct (In_tget _ pair_eqb_eq _ _ _ Hin) as (u' & Hu'). pose proof (tget_In _ pair_eqb_eq _ _ _ Hu') as Hin'.
  assert (u' = u); [|subst; exact Hu'].
  clear - ND Hin Hin'. induction U as [|[k x] r IH]; [destruct Hin|]. cbn [map fst] in ND. apply NoDup_cons_iff in ND. destruct ND as [N1 N2].
  destruct Hin as [Hin|Hin], Hin' as [Hin'|Hin'].
  - inv Hin. inv Hin'. reflexivity.
  - inv Hin. exfalso. apply N1. apply in_map_iff. exists (op, u'). auto.
  - inv Hin'. exfalso. apply N1. apply in_map_iff. exists (op, u). auto.
  - auto.
Qed.

(* For every chain with pairwise distinct non-zero txids whose blocks are a coinbase followed by non-coinbase
   transactions, indexed from the empty index: replaying InscriptionCreated / InscriptionTransferred in emission order gives,
   per sequence number, a record iff the index has an entry, with the entry's id, the charms at creation (the entry may
   in addition carry Burned, set when the inscription later moves onto an OP_RETURN output: no event carries that), the
   ids of the entry's parents in order; and the record's location is where the index holds the inscription
   (None for the unbound outpoint), for every inscription of the index. *)
Theorem inscription_events_replay : forall cfg c st evs,
  chain_ok c -> index_chain_ev cfg 0 c empty_state = Ok (st, evs) ->
  let v := replay [] (concat evs) in
  (forall s, tgN s v = None <-> tgN s (s_entries st) = None) /\
  (forall s id loc ch ps, tgN s v = Some (id, loc, ch, ps) ->
     exists e, tgN s (s_entries st) = Some e /\ i_id e = id /\
       (i_charms e = ch \/ i_charms e = N.lor ch (flag CHARM_BURNED)) /\
       Forall2 (fun pid p => exists ep, tgN p (s_entries st) = Some ep /\ i_id ep = pid) ps (i_parents e)) /\
  (forall op u s off, tgP op (s_utxo st) = Some u -> In (s, off) (u_insc u) ->
     exists id ch ps, tgN s v = Some (id, vloc op off, ch, ps)) /\
  (forall s e, tgN s (s_entries st) = Some e ->
     exists op u off id ch ps, tgP op (s_utxo st) = Some u /\ In (s, off) (u_insc u) /\
       tgN s v = Some (id, vloc op off, ch, ps)).
Proof.
  intros cfg c st evs (ND & NZ & BO) H v.
  assert (FR : forall x, In x (chain_txids c) -> ~ In x (@nil N) /\ x <> 0).
  { intros x Hx. split; [intros []|]. intro. subst. contradiction. }
  assert (HZ : (c_first cfg <=? 0) = false -> next_seq_of (s_entries empty_state) = 0) by (intros _; reflexivity).
  destruct (index_chain_vr cfg c 0 [] empty_state st evs [] St4_empty ND FR BO HZ VR_empty H) as ([K R I L] & seen' & [A B C D]).
  split; [exact K|]. split; [exact R|]. split; [exact L|].
  intros s e He. assert (Hlt : s < next_seq_of (s_entries st)) by (apply A; congruence).
  apply nlist_In in Hlt. apply (Permutation_in _ (Permutation_sym D)) in Hlt.
  destruct (in_held _ _ B Hlt) as (op & u & off & Hu & Hin).
  destruct (L _ _ _ _ Hu Hin) as (id & ch & ps & Hv). exists op, u, off, id, ch, ps. auto.
Qed.

(* Non-vacuity: block 2 reveals inscription 0 at (4,0); block 3 moves it to (6,0) and reveals there a child naming it
   (and an unrelated id, dropped); block 4 moves both onto an OP_RETURN output: the entries gain Burned (bit 12),
   which no event carries. *)
Definition ev_env (ps : list iid) : envelope := mkEnv 0 0 false false false false false false None false ps.
Definition ev_chain : list block :=
  [ [mkTx 1 [null_op] [mkOut 5000000000 false] []];
    [mkTx 2 [null_op] [mkOut 5000000000 false] []];
    [mkTx 3 [null_op] [mkOut 5000000000 false] []; mkTx 4 [(2, 0)] [mkOut 5000000000 false] [ev_env []]];
    [mkTx 5 [null_op] [mkOut 5000000000 false] [];
     mkTx 6 [(4, 0)] [mkOut 5000000000 false] [ev_env [(4, 0); (77, 0)]]];
    [mkTx 7 [null_op] [mkOut 5000000000 false] [];
     mkTx 8 [(6, 0)] [mkOut 5000000000 true] []] ].

Example events_replay_nonvacuous :
  chain_ok ev_chain /\
  exists st evs, index_chain_ev (cfg_of 0 false) 0 ev_chain empty_state = Ok (st, evs) /\
    evs = [[]; []; [EvCreated 2 0 (4, 0) (Some (4, 0, 0)) [] 0];
           [EvTransferred 3 (4, 0) (6, 0, 0) (4, 0, 0) 0; EvCreated 3 130 (6, 0) (Some (6, 0, 0)) [(4, 0)] 1];
           [EvTransferred 4 (4, 0) (8, 0, 0) (6, 0, 0) 0; EvTransferred 4 (6, 0) (8, 0, 0) (6, 0, 0) 1]] /\
    replay [] (concat evs) = [(0, (4, 0, Some (8, 0, 0), 0, [])); (1, (6, 0, Some (8, 0, 0), 130, [(4, 0)]))] /\
    map (fun x => i_charms (snd x)) (s_entries st) = [4096; 4226].
Proof.
  split.
  - split; [|split].
    + vm_compute. repeat constructor; cbn; intuition discriminate.
    + vm_compute. intuition discriminate.
    + repeat constructor; vm_compute; auto; try discriminate.
  - eexists. eexists. split; [vm_compute; reflexivity|]. repeat split.
Qed.
