(* Lemmas about Codec/EnvScript.v and Codec/Envelope.v (C27), part 1:
   totality of parsing, pointer and inscription-id encodings. *)
From OrdV Require Import Base.Prelude Generated Codec.EnvScript Codec.Envelope.
Require Import ZifyBool ZifyN.
Ltac Zify.zify_post_hook ::= Z.div_mod_to_equations.

(* ------------------------------------------------------------------ bytes_eqb *)

Lemma bytes_eqb_eq a b : bytes_eqb a b = true <-> a = b.
Proof.
  revert b. induction a as [|x a IH]; intros [|y b]; cbn [bytes_eqb]; split; intros H;
    try reflexivity; try discriminate.
  - apply andb_true_iff in H. destruct H as [H1 H2]. apply N.eqb_eq in H1. apply IH in H2. congruence.
  - injection H as -> ->. apply andb_true_iff. split; [apply N.eqb_refl|apply IH; reflexivity].
Qed.

Lemma bytes_eqb_refl a : bytes_eqb a a = true.
Proof. apply bytes_eqb_eq. reflexivity. Qed.

Lemma bytes_eqb_neq a b : bytes_eqb a b = false <-> a <> b.
Proof.
  split; intros H.
  - intros E. apply bytes_eqb_eq in E. congruence.
  - destruct (bytes_eqb a b) eqn:E; [apply bytes_eqb_eq in E; contradiction|reflexivity].
Qed.

(* ------------------------------------------------------------------ sizes: instructions <= bytes, envelopes <= instructions *)

Lemma take_slice_len n s d r : take_slice n s = Some (d, r) -> (length r <= length s)%nat.
Proof.
  unfold take_slice. destruct (n <=? lenN s); [|discriminate].
  intros H. injection H as <- <-. rewrite skipn_length. lia.
Qed.

Lemma read_uint_len k s n r : read_uint k s = Some (n, r) -> (length r <= length s)%nat.
Proof.
  destruct k as [|[|[|[|[|k]]]]]; destruct s as [|a [|b [|c [|d s]]]]; cbn [read_uint]; intros H;
    try discriminate; injection H as <- <-; cbn [length]; lia.
Qed.

Lemma next_instr_len byte rest i r : next_instr byte rest = Some (i, r) -> (length r <= length rest)%nat.
Proof.
  unfold next_instr.
  assert (G : forall k, match read_uint k rest with
      | Some (n, r0) => match take_slice n r0 with Some (d, r') => Some (IPush d, r') | None => None end
      | None => None end = Some (i, r) -> (length r <= length rest)%nat).
  { intros k. destruct (read_uint k rest) as [[n r0]|] eqn:E; [|discriminate].
    destruct (take_slice n r0) as [[d r']|] eqn:E2; [|discriminate].
    intros H; injection H as <- <-. apply read_uint_len in E. apply take_slice_len in E2. lia. }
  destruct (byte <? OP_PUSHDATA1).
  - destruct (take_slice byte rest) as [[d r']|] eqn:E; [|discriminate].
    intros H; injection H as <- <-. eapply take_slice_len; eassumption.
  - destruct (byte =? OP_PUSHDATA1); [apply G|].
    destruct (byte =? OP_PUSHDATA2); [apply G|].
    destruct (byte =? OP_PUSHDATA4); [apply G|].
    intros H; injection H as <- <-. lia.
Qed.

Lemma decode_fuel_len f : forall s l, decode_fuel f s = Some l -> (length l <= length s)%nat.
Proof.
  induction f as [|f IH]; intros [|byte rest] l; cbn [decode_fuel]; intros H;
    try (injection H as <-; cbn [length]; lia); try discriminate.
  destruct (next_instr byte rest) as [[i r]|] eqn:E; [|discriminate].
  destruct (decode_fuel f r) as [l'|] eqn:E2; [|discriminate].
  injection H as <-. apply next_instr_len in E. apply IH in E2. cbn [length]. lia.
Qed.

Lemma run_auto_len l : forall st, (length (run_auto st l) <= length l)%nat.
Proof.
  induction l as [|i r IH]; intros st; cbn [run_auto length]; [lia|].
  destruct (step st i) as [st' [e|]]; cbn [length]; specialize (IH st'); lia.
Qed.

Lemma from_tapscript_len s es : from_tapscript s = Some es -> (length es <= length s)%nat.
Proof.
  unfold from_tapscript, decode_script. destruct (decode_fuel (length s) s) as [l|] eqn:E; [|discriminate].
  intros H; injection H as <-. apply decode_fuel_len in E. pose proof (run_auto_len l (SOut false)). lia.
Qed.

(* ------------------------------------------------------------------ totality *)

Lemma number_envs_ok es : forall input offset,
  input <= U32_MAX -> offset + lenN es <= U32_MAX + 1 ->
  exists l, number_envs input offset es = Ok l /\ length l = length es.
Proof.
  induction es as [|e r IH]; intros input offset Hi Ho; cbn [number_envs].
  - exists []. split; reflexivity.
  - unfold lenN in Ho. cbn [length] in Ho.
    destruct (N.ltb_spec U32_MAX input); [lia|].
    destruct (N.ltb_spec U32_MAX offset); [lia|].
    destruct (IH input (offset + 1) Hi) as [l [E L]]; [unfold lenN; lia|].
    rewrite E. cbn [bind]. eexists. split; [reflexivity|]. cbn [length]. lia.
Qed.

Definition script_small (w : list bytes) : Prop :=
  forall s, tapscript w = Some s -> lenN s <= U32_MAX + 1.

Lemma input_envelopes_ok input w :
  input <= U32_MAX -> script_small w -> exists l, input_envelopes input w = Ok l.
Proof.
  intros Hi Hs. unfold input_envelopes.
  destruct (tapscript w) as [s|] eqn:E; [|eexists; reflexivity].
  destruct (from_tapscript s) as [es|] eqn:E2; [|eexists; reflexivity].
  apply from_tapscript_len in E2. specialize (Hs s E). unfold lenN in Hs.
  destruct (number_envs_ok es input 0 Hi) as [l [E3 _]]; [unfold lenN; lia|].
  exists l. exact E3.
Qed.

Lemma from_transaction_at_ok ws : forall input,
  input + lenN ws <= U32_MAX + 1 -> Forall script_small ws ->
  exists l, from_transaction_at input ws = Ok l.
Proof.
  induction ws as [|w r IH]; intros input Hi Hs; cbn [from_transaction_at].
  - eexists; reflexivity.
  - unfold lenN in Hi. cbn [length] in Hi. inversion Hs as [|? ? Hw Hr]; subst.
    destruct (input_envelopes_ok input w) as [a Ea]; [lia|exact Hw|].
    destruct (IH (input + 1)) as [b Eb]; [unfold lenN; lia|exact Hr|].
    rewrite Ea, Eb. cbn [bind]. eexists; reflexivity.
Qed.

(* parse_total: parsing the witnesses of any transaction with at most 2^32 inputs whose
   leaf scripts are at most 2^32 bytes long returns a list of envelopes: no Panic, no Err. *)
Lemma parse_total ws :
  lenN ws <= U32_MAX + 1 -> Forall script_small ws ->
  exists l, from_transaction ws = Ok l.
Proof. intros H1 H2. apply from_transaction_at_ok; [lia|exact H2]. Qed.

(* The size hypotheses are needed by the model: the two `try_into().unwrap()` do panic
   beyond u32 (the model returns Panic 2 after 2^32 + 1 envelopes in one script). *)
Lemma number_envs_panics : number_envs 0 (U32_MAX + 1) [mk_raw [] false false] = Panic 2.
Proof. reflexivity. Qed.

(* ------------------------------------------------------------------ little-endian trims *)

Lemma le_value_trim f : forall n, n < 256 ^ N.of_nat f -> le_value (le_trim f n) = n.
Proof.
  induction f as [|f IH]; intros n H.
  - cbn in H. assert (n = 0) by lia. subst. reflexivity.
  - cbn [le_trim]. destruct (N.eqb_spec n 0) as [->|Hn]; [reflexivity|].
    cbn [le_value fold_right]. fold (le_value (le_trim f (n / 256))).
    rewrite IH.
    + pose proof (N.div_mod n 256). lia.
    + rewrite Nat2N.inj_succ, N.pow_succ_r' in H. apply N.div_lt_upper_bound; lia.
Qed.

Lemma le_trim_length f : forall n, (length (le_trim f n) <= f)%nat.
Proof.
  induction f as [|f IH]; intros n; cbn [le_trim length]; [lia|].
  destruct (n =? 0); cbn [length]; [lia|]. specialize (IH (n / 256)). lia.
Qed.

Lemma le_trim_bytes f : forall n, Forall (fun b => b < 256) (le_trim f n).
Proof.
  induction f as [|f IH]; intros n; cbn [le_trim]; [constructor|].
  destruct (n =? 0); constructor; [apply N.mod_lt; lia|apply IH].
Qed.

(* the last digit of a trimmed encoding is not zero *)
Lemma le_trim_last f : forall n d, n < 256 ^ N.of_nat f -> le_trim f n <> [] -> last (le_trim f n) d <> 0.
Proof.
  induction f as [|f IH]; intros n d H Hne; [cbn in Hne; congruence|].
  cbn [le_trim] in *. destruct (N.eqb_spec n 0) as [->|Hn]; [congruence|].
  rewrite Nat2N.inj_succ, N.pow_succ_r' in H.
  assert (Hq : n / 256 < 256 ^ N.of_nat f) by (apply N.div_lt_upper_bound; lia).
  destruct (le_trim f (n / 256)) as [|x r] eqn:E.
  - cbn [last].
    assert (n / 256 = 0).
    { pose proof (le_value_trim f (n / 256) Hq) as V. rewrite E in V. cbn in V. lia. }
    pose proof (N.div_mod n 256). lia.
  - change (last (n mod 256 :: x :: r) d) with (last (x :: r) d). rewrite <- E. apply IH; [exact Hq|].
    rewrite E. discriminate.
Qed.

(* a digit string without trailing zero is the trimmed encoding of its value *)
Lemma le_trim_value bs : forall f, (length bs <= f)%nat -> Forall (fun b => b < 256) bs ->
  (bs <> [] -> last bs 1 <> 0) -> le_trim f (le_value bs) = bs.
Proof.
  induction bs as [|b r IH]; intros f Hl Hb Hlast.
  - destruct f; reflexivity.
  - destruct f as [|f]; [cbn [length] in Hl; lia|].
    inversion Hb as [|? ? Hb1 Hb2]; subst.
    cbn [le_value fold_right]. fold (le_value r). cbn [le_trim].
    assert (Hr : r <> [] -> last r 1 <> 0).
    { intros Hne. destruct r as [|x r']; [congruence|]. apply Hlast. discriminate. }
    assert (Hv : r <> [] -> le_value r <> 0).
    { intros Hne E. specialize (IH f). rewrite E in IH.
      assert (le_trim f 0 = []) by (destruct f; reflexivity).
      rewrite H in IH. symmetry in IH. apply Hne. apply IH; [cbn [length] in Hl; lia|exact Hb2|exact Hr]. }
    destruct (N.eqb_spec (b + 256 * le_value r) 0) as [E|E].
    + assert (b = 0) by lia. assert (le_value r = 0) by lia.
      destruct r as [|x r'].
      * exfalso. apply Hlast; [discriminate|]. cbn [last]. exact H.
      * exfalso. apply Hv; [discriminate|exact H0].
    + f_equal.
      * rewrite N.mul_comm, N.mod_add by lia. apply N.mod_small. exact Hb1.
      * rewrite N.mul_comm, N.div_add by lia. rewrite N.div_small by exact Hb1. rewrite N.add_0_l.
        apply IH; [cbn [length] in Hl; lia|exact Hb2|exact Hr].
Qed.

(* ------------------------------------------------------------------ pointer *)

Lemma In_firstn {A} (x : A) n l : In x (firstn n l) -> In x l.
Proof. intros H. rewrite <- (firstn_skipn n l). apply in_or_app. left. exact H. Qed.

Lemma firstn_app_exact {A} (a b : list A) : firstn (length a) (a ++ b) = a.
Proof. rewrite firstn_app, Nat.sub_diag, firstn_all. cbn [firstn]. apply app_nil_r. Qed.

Lemma skipn_app_exact {A} (a b : list A) : skipn (length a) (a ++ b) = b.
Proof. rewrite skipn_app, Nat.sub_diag, skipn_all. reflexivity. Qed.

Lemma firstn_all2' {A} (l : list A) n : (length l <= n)%nat -> firstn n l = l.
Proof. apply firstn_all2. Qed.

Lemma pointer_roundtrip p : p <= U64_MAX -> pointer_of (pointer_value p) = Some p.
Proof.
  intros H. unfold pointer_of, pointer_value.
  pose proof (le_trim_length 8 p) as L.
  rewrite skipn_all2 by exact L. cbn [existsb].
  rewrite firstn_all2 by exact L. f_equal. apply le_value_trim.
  change (256 ^ N.of_nat 8) with 18446744073709551616. unfold U64_MAX in H. lia.
Qed.

Lemma pointer_value_compact p : p <= U64_MAX ->
  (length (pointer_value p) <= 8)%nat /\ Forall (fun b => b < 256) (pointer_value p) /\
  (pointer_value p <> [] -> last (pointer_value p) 1 <> 0).
Proof.
  intros H. split; [apply le_trim_length|]. split; [apply le_trim_bytes|].
  apply le_trim_last. change (256 ^ N.of_nat 8) with 18446744073709551616. unfold U64_MAX in H. lia.
Qed.

Lemma le_value_bound bs : Forall (fun b => b < 256) bs -> le_value bs < 256 ^ N.of_nat (length bs).
Proof.
  induction 1 as [|b r Hb Hr IH]; [cbn; lia|].
  cbn [le_value fold_right length]. fold (le_value r). rewrite Nat2N.inj_succ, N.pow_succ_r'. lia.
Qed.

(* pointer() on arbitrary bytes: None exactly when a byte after the 8th is non-zero; otherwise
   the little-endian value of the first 8 bytes, which fits u64 *)
Lemma pointer_of_spec v : Forall (fun b => b < 256) v ->
  match pointer_of v with
  | None => exists b, In b (skipn 8 v) /\ b <> 0
  | Some p => Forall (fun b => b = 0) (skipn 8 v) /\ p = le_value (firstn 8 v) /\ p <= U64_MAX
  end.
Proof.
  intros Hb. unfold pointer_of.
  destruct (existsb (fun b => negb (b =? 0)) (skipn 8 v)) eqn:E.
  - apply existsb_exists in E. destruct E as [b [Hin Hb0]]. exists b. split; [exact Hin|].
    destruct (N.eqb_spec b 0); [discriminate|assumption].
  - split; [|split; [reflexivity|]].
    + apply Forall_forall. intros b Hin.
      destruct (N.eqb_spec b 0) as [|Hn]; [assumption|].
      assert (existsb (fun b => negb (b =? 0)) (skipn 8 v) = true).
      { apply existsb_exists. exists b. split; [exact Hin|]. destruct (N.eqb_spec b 0); [contradiction|reflexivity]. }
      congruence.
    + assert (Hf : Forall (fun b => b < 256) (firstn 8 v)).
      { apply Forall_forall. intros b Hin. apply In_firstn in Hin. revert b Hin. apply Forall_forall. exact Hb. }
      pose proof (le_value_bound _ Hf) as B.
      assert (256 ^ N.of_nat (length (firstn 8 v)) <= 256 ^ 8).
      { apply N.pow_le_mono_r; [lia|]. pose proof (firstn_le_length 8 v). lia. }
      change (256 ^ 8) with 18446744073709551616 in H. unfold U64_MAX. lia.
Qed.

(* ------------------------------------------------------------------ inscription ids *)

Definition le4 (i : N) : bytes := [i mod 256; (i / 256) mod 256; (i / 65536) mod 256; (i / 16777216) mod 256].

Lemma le_value_le4 i : i <= U32_MAX -> le_value (le4 i) = i.
Proof. intros H. unfold le4, le_value, U32_MAX in *. cbn [fold_right]. lia. Qed.

Lemma id_roundtrip txid index : length txid = TXID_LEN -> index <= U32_MAX ->
  id_from_value (id_value txid index) = Some (txid, index).
Proof.
  intros Ht Hi. unfold id_from_value, id_value.
  pose proof (le_trim_length 4 index) as L.
  rewrite app_length, Ht.
  destruct (Nat.ltb_spec (TXID_LEN + length (le_trim 4 index)) TXID_LEN); [lia|].
  destruct (Nat.ltb_spec (TXID_LEN + 4) (TXID_LEN + length (le_trim 4 index))); [lia|].
  rewrite <- Ht. rewrite firstn_app_exact, skipn_app_exact.
  assert (B : index < 256 ^ N.of_nat 4) by (change (256 ^ N.of_nat 4) with 4294967296; unfold U32_MAX in Hi; lia).
  rewrite (le_value_trim 4 index B).
  destruct (le_trim 4 index) as [|x r] eqn:E; [reflexivity|].
  cbn [is_nil negb andb].
  pose proof (le_trim_last 4 index 1 B) as La. rewrite E in La.
  destruct (N.eqb_spec (last (x :: r) 1) 0) as [Z|_]; [exfalso; apply La; [discriminate|exact Z]|].
  rewrite andb_false_r. reflexivity.
Qed.

(* the fixed 4-byte index form is accepted as well *)
Lemma id_fixed_accepted txid index : length txid = TXID_LEN -> index <= U32_MAX ->
  id_from_value (txid ++ le4 index) = Some (txid, index).
Proof.
  intros Ht Hi. unfold id_from_value.
  rewrite app_length, Ht. cbn [le4 length].
  change (TXID_LEN + 4 <? TXID_LEN)%nat with false. rewrite Nat.ltb_irrefl.
  rewrite <- Ht. rewrite firstn_app_exact, skipn_app_exact.
  rewrite (le_value_le4 index Hi). unfold le4. cbn [is_nil negb length Nat.eqb andb]. reflexivity.
Qed.

(* from_value accepts exactly the canonical form and the 4-byte-index form *)
Lemma id_from_value_forms v txid index : Forall (fun b => b < 256) v ->
  id_from_value v = Some (txid, index) ->
  length txid = TXID_LEN /\ index <= U32_MAX /\
  (v = id_value txid index \/ v = txid ++ le4 index).
Proof.
  intros Hb. unfold id_from_value.
  destruct (Nat.ltb_spec (length v) TXID_LEN) as [|H1]; [discriminate|].
  destruct (Nat.ltb_spec (TXID_LEN + 4) (length v)) as [|H2]; [discriminate|].
  set (ix := skipn TXID_LEN v).
  assert (Hix : (length ix <= 4)%nat) by (unfold ix; rewrite skipn_length; lia).
  assert (Hbx : Forall (fun b => b < 256) ix).
  { apply Forall_forall. intros b Hin. unfold ix in Hin.
    assert (In b v) by (rewrite <- (firstn_skipn TXID_LEN v); apply in_or_app; right; exact Hin).
    rewrite Forall_forall in Hb. apply Hb. exact H. }
  destruct (andb (negb (is_nil ix)) (andb (negb (length ix =? 4)%nat) (last ix 1 =? 0))) eqn:C; [discriminate|].
  intros H. injection H as <- <-.
  assert (Lt : length (firstn TXID_LEN v) = TXID_LEN) by (apply firstn_length_le; exact H1).
  split; [exact Lt|].
  pose proof (le_value_bound ix Hbx) as B.
  assert (256 ^ N.of_nat (length ix) <= 256 ^ 4) by (apply N.pow_le_mono_r; lia).
  change (256 ^ 4) with 4294967296 in H.
  split; [unfold U32_MAX; lia|].
  destruct (Nat.eqb_spec (length ix) 4) as [L4|L4].
  - right. rewrite <- (firstn_skipn TXID_LEN v) at 1. f_equal. fold ix.
    destruct ix as [|a [|b [|c [|d [|e r]]]]]; cbn [length] in L4; try lia.
    inversion Hbx as [|? ? Ha Hbx1]; inversion Hbx1 as [|? ? Hb' Hbx2];
      inversion Hbx2 as [|? ? Hc Hbx3]; inversion Hbx3 as [|? ? Hd _]; subst.
    unfold le4, le_value. cbn [fold_right].
    repeat f_equal; lia.
  - left. unfold id_value. rewrite <- (firstn_skipn TXID_LEN v) at 1. f_equal. fold ix.
    symmetry. apply le_trim_value; [exact Hix|exact Hbx|].
    intros Hne. destruct ix as [|a r]; [congruence|].
    cbn [is_nil negb andb] in C. cbn [andb negb] in C.
    destruct (N.eqb_spec (last (a :: r) 1) 0) as [Z|Z]; [discriminate|exact Z].
Qed.
