(* C02: the rare-sat table (SAT_TO_SATPOINT).  Invariant: every stored range whose first sat is not
   common has an entry pointing at its current outpoint and offset. *)
From OrdV Require Import Base.Prelude Generated Index.SatIndex Proofs.SatIndex_proofs Proofs.SatIndex_partition.
From Coq Require Import ZifyBool ZifyN Permutation.
Ltac Zify.zify_post_hook ::= Z.div_mod_to_equations.

(* ------------------------------------------------------------------ maps keyed by sats *)

Lemma nget_adel_same : forall {V} k (m : list (N * V)), aget N.eqb k (adel N.eqb k m) = None.
Proof.
  intros V k m. induction m as [|[k' v] m IH]; [reflexivity|]. cbn [adel].
  destruct (N.eqb_spec k k') as [E|E]; [exact IH|]. cbn [aget].
  destruct (N.eqb_spec k k'); [contradiction|exact IH].
Qed.

Lemma nget_adel_other : forall {V} k k' (m : list (N * V)), k <> k' -> aget N.eqb k (adel N.eqb k' m) = aget N.eqb k m.
Proof.
  intros V k k' m NE. induction m as [|[k2 v] m IH]; [reflexivity|]. cbn [adel aget].
  destruct (N.eqb_spec k' k2) as [E|E].
  - subst. destruct (N.eqb_spec k k2); [contradiction|exact IH].
  - cbn [aget]. destruct (N.eqb_spec k k2); [reflexivity|exact IH].
Qed.

Lemma nget_aset_same : forall {V} k (v : V) m, aget N.eqb k (aset N.eqb k v m) = Some v.
Proof. intros. unfold aset. cbn [aget]. rewrite N.eqb_refl. reflexivity. Qed.

Lemma nget_aset_other : forall {V} k k' (v : V) m, k <> k' -> aget N.eqb k (aset N.eqb k' v m) = aget N.eqb k m.
Proof.
  intros. unfold aset. cbn [aget]. destruct (N.eqb_spec k k'); [contradiction|].
  apply nget_adel_other. assumption.
Qed.

Lemma apply_writes_app : forall a b S, apply_writes (a ++ b) S = apply_writes b (apply_writes a S).
Proof. intros. unfold apply_writes. apply fold_left_app. Qed.

(* writes with pairwise distinct keys: a written key reads back its value, other keys are untouched *)
Lemma apply_writes_get_out : forall w S s,
  ~ In s (map fst w) -> aget N.eqb s (apply_writes w S) = aget N.eqb s S.
Proof.
  unfold apply_writes. induction w as [|[k v] w IH]; intros S s NI; [reflexivity|]. cbn [fold_left fst snd].
  rewrite IH by (intros C; apply NI; right; exact C).
  apply nget_aset_other. intros E. apply NI. left. cbn. congruence.
Qed.

Lemma apply_writes_get_in : forall w S s v,
  NoDup (map fst w) -> In (s, v) w -> aget N.eqb s (apply_writes w S) = Some v.
Proof.
  induction w as [|[k v0] w IH]; intros S s v ND I; [destruct I|].
  inversion ND as [|x l N1 N2]; subst.
  change (apply_writes ((k, v0) :: w) S) with (apply_writes w (aset N.eqb k v0 S)).
  destruct I as [I|I].
  - inversion I; subst. rewrite apply_writes_get_out by exact N1. apply nget_aset_same.
  - apply (IH _ _ _ N2 I).
Qed.

(* ------------------------------------------------------------------ what one transaction writes *)

Definition starts (rs : list range) : list N := map fst rs.
Definition rare_starts (rs : list range) : list N := filter (fun s => negb (common s)) (starts rs).

Lemma take_sats_keys : forall rs op v rem a rest w,
  take_sats op v rem rs = Ok (a, rest, w) -> map fst w = rare_starts a.
Proof.
  induction rs as [|[s e] rs IH]; intros op v rem a rest w H; rewrite take_sats_eq in H.
  - destruct (N.eqb_spec rem 0); [|discriminate]. inversion H; subst. reflexivity.
  - destruct (N.eqb_spec rem 0) as [E|E].
    + inversion H; subst. reflexivity.
    + cbv zeta in H. destruct (N.ltb_spec rem (e - s)) as [L|L].
      * inversion H; subst; clear H. unfold rare_starts, starts. cbn [map fst filter].
        destruct (common s); reflexivity.
      * apply bind_ok in H. destruct H as [[[a' rest'] ws] [H1 H2]]. inversion H2; subst; clear H2.
        pose proof (IH _ _ _ _ _ _ H1) as G. unfold rare_starts, starts in *. cbn [map fst filter].
        destruct (common s); cbn [negb app map fst]; [exact G|f_equal; exact G].
Qed.

Lemma rare_starts_app : forall a b, rare_starts (a ++ b) = rare_starts a ++ rare_starts b.
Proof. intros. unfold rare_starts, starts. rewrite map_app, filter_app. reflexivity. Qed.

Lemma assign_outputs_keys : forall os t vout rs ents lft w,
  assign_outputs t vout os rs = Ok (ents, lft, w) -> map fst w = rare_starts (concat ents).
Proof.
  induction os as [|[v sc] os IH]; intros t vout rs ents lft w H; cbn [assign_outputs] in H.
  - inversion H; subst. reflexivity.
  - apply bind_ok in H. destruct H as [[[a rest] w1] [H1 H]].
    apply bind_ok in H. destruct H as [[[ents' lft'] w2] [H2 H]].
    inversion H; subst; clear H. cbn [concat].
    rewrite map_app, rare_starts_app. f_equal; [exact (take_sats_keys _ _ _ _ _ _ _ H1)|exact (IH _ _ _ _ _ _ H2)].
Qed.

(* the start of a non-empty range is one of its sats *)
Lemma start_in_flatten : forall rs s, wf_ranges rs -> In s (starts rs) -> In s (flatten rs).
Proof.
  induction rs as [|[a b] rs IH]; intros s W I; [destruct I|].
  inversion W as [|x l W1 W2]; subst. cbn [fst snd] in W1.
  rewrite flatten_cons, in_app_iff. destruct I as [I|I].
  - left. cbn [fst] in I. subst. unfold flat1. cbn [fst snd]. apply nseq_In. lia.
  - right. apply IH; assumption.
Qed.

Lemma NoDup_app_disj : forall {A} (a b : list A) x, NoDup (a ++ b) -> In x a -> In x b -> False.
Proof.
  induction a as [|y a IH]; intros b x ND Ia Ib; [destruct Ia|].
  cbn [app] in ND. inversion ND as [|z l N1 N2]; subst. destruct Ia as [E|Ia].
  - subst. apply N1. apply in_app_iff. right. exact Ib.
  - exact (IH b x N2 Ia Ib).
Qed.

Lemma NoDup_app_r : forall {A} (a b : list A), NoDup (a ++ b) -> NoDup b.
Proof. induction a as [|y a IH]; intros b ND; [exact ND|]. inversion ND; subst. apply IH. assumption. Qed.

Lemma NoDup_app_l : forall {A} (a b : list A), NoDup (a ++ b) -> NoDup a.
Proof.
  induction a as [|y a IH]; intros b ND; [constructor|]. inversion ND as [|z l N1 N2]; subst.
  constructor; [|apply (IH b N2)]. intros C. apply N1. apply in_app_iff. left. exact C.
Qed.

Lemma starts_NoDup : forall rs, wf_ranges rs -> NoDup (flatten rs) -> NoDup (starts rs).
Proof.
  induction rs as [|[a b] rs IH]; intros W ND; [constructor|].
  inversion W as [|x l W1 W2]; subst. cbn [fst snd] in W1.
  rewrite flatten_cons in ND. cbn [starts map fst]. constructor.
  - intros C. apply (start_in_flatten rs a W2) in C.
    apply (NoDup_app_disj _ _ a ND); [|exact C].
    unfold flat1. cbn [fst snd]. apply nseq_In. lia.
  - apply IH; [exact W2|]. exact (NoDup_app_r _ _ ND).
Qed.

Lemma wf_concat : forall ents, Forall wf_ranges ents -> wf_ranges (concat ents).
Proof.
  induction ents as [|e ents IH]; intros F; [constructor|]. inversion F; subst. cbn [concat].
  apply wf_ranges_app; [assumption|apply IH; assumption].
Qed.

Lemma rare_starts_in : forall rs s, In s (rare_starts rs) -> In s (starts rs) /\ common s = false.
Proof.
  intros rs s I. unfold rare_starts in I. apply filter_In in I. destruct I as [I C]. split; [exact I|].
  destruct (common s); [discriminate|reflexivity].
Qed.

(* the keys one transaction writes are pairwise distinct and are sats of its inputs *)
Lemma assign_outputs_keys_ok : forall os t vout rs ents lft w,
  wf_ranges rs -> NoDup (flatten rs) ->
  assign_outputs t vout os rs = Ok (ents, lft, w) ->
  NoDup (map fst w) /\ (forall s, In s (map fst w) -> In s (flatten rs)).
Proof.
  intros os t vout rs ents lft w W ND H.
  rewrite (assign_outputs_keys _ _ _ _ _ _ _ H).
  destruct (assign_outputs_wf _ _ _ _ _ _ _ W H) as [WE _].
  destruct (split_fifo _ _ _ _ _ _ _ H) as [F _].
  assert (NDc : NoDup (flatten (concat ents))) by (rewrite <- F in ND; exact (NoDup_app_l _ _ ND)).
  split.
  - unfold rare_starts. apply NoDup_filter. apply starts_NoDup; [apply wf_concat; exact WE|exact NDc].
  - intros s I. apply rare_starts_in in I. destruct I as [I _].
    rewrite <- F. apply in_app_iff. left. apply start_in_flatten; [apply wf_concat; exact WE|exact I].
Qed.

(* every rare range start of output j is written with (txid, vout + j) and its offset *)
Lemma assign_outputs_writes : forall os t vout rs ents lft w,
  assign_outputs t vout os rs = Ok (ents, lft, w) ->
  forall j a, nth_error ents j = Some a ->
  forall i s e, nth_error a i = Some (s, e) -> common s = false ->
  In (s, ((t, vout + N.of_nat j), total (firstn i a))) w.
Proof.
  induction os as [|[v sc] os IH]; intros t vout rs ents lft w H j a Hj i s e Hi Hc; cbn [assign_outputs] in H.
  - inversion H; subst. destruct j; discriminate.
  - apply bind_ok in H. destruct H as [[[a0 rest] w1] [H1 H]].
    apply bind_ok in H. destruct H as [[[ents' lft'] w2] [H2 H]].
    inversion H; subst; clear H. apply in_app_iff. destruct j as [|j].
    + left. cbn [nth_error] in Hj. inversion Hj; subst.
      pose proof (take_sats_writes _ _ _ _ _ _ _ H1 (N.le_refl v) i s e Hi Hc) as G.
      replace (v - v + total (firstn i a)) with (total (firstn i a)) in G by lia.
      replace (vout + N.of_nat 0) with vout by lia. exact G.
    + right. cbn [nth_error] in Hj.
      pose proof (IH _ _ _ _ _ _ H2 j a Hj i s e Hi Hc) as G.
      replace (vout + N.of_nat (S j)) with (vout + 1 + N.of_nat j) by lia. exact G.
Qed.

(* ------------------------------------------------------------------ the invariant *)

Definition rs_ok (S : list (N * satpoint)) (o : outpoint) (base : N) (rs : list range) : Prop :=
  forall i s e, nth_error rs i = Some (s, e) -> common s = false ->
    aget N.eqb s S = Some (o, base + total (firstn i rs)).

Definition rs_map (S : list (N * satpoint)) (m : umap) : Prop :=
  forall o rs, aget op_eqb o m = Some rs -> rs_ok S o 0 rs.

Lemma aget_In : forall {V} o (m : list (outpoint * V)) v, aget op_eqb o m = Some v -> In (o, v) m.
Proof.
  intros V o m. induction m as [|[k v2] m IH]; intros v H; cbn [aget] in H; [discriminate|].
  destruct (op_eqb_spec o k) as [E|E]; [inversion H; subst; left; reflexivity|right; apply IH; exact H].
Qed.

Lemma entry_sats_in_usats : forall o m rs x, aget op_eqb o m = Some rs -> In x (flatten rs) -> In x (usats m).
Proof.
  intros o m rs x H I. unfold usats. apply in_flat_map. exists (o, rs). split; [apply aget_In; exact H|exact I].
Qed.

Lemma nth_error_start : forall rs i s e, wf_ranges rs -> nth_error rs i = Some (s, e) -> In s (flatten rs).
Proof.
  intros rs i s e W H. apply start_in_flatten; [exact W|]. unfold starts.
  apply in_map_iff. exists (s, e). split; [reflexivity|]. eapply nth_error_In. exact H.
Qed.

Lemma cnt_pos : forall l x, In x l -> (1 <= cnt l x)%nat.
Proof. intros l x I. unfold cnt. apply (count_occ_In N.eq_dec) in I. lia. Qed.

Lemma cnt_le1_NoDup : forall l, (forall x, (cnt l x <= 1)%nat) -> NoDup l.
Proof. intros l H. apply (NoDup_count_occ N.eq_dec). exact H. Qed.

Lemma put_outputs_get_far : forall ents t v0 m d o,
  (fst o <> t \/ snd o < v0 \/ v0 + N.of_nat (length ents) <= snd o) ->
  aget op_eqb o (fst (put_outputs t v0 ents m d)) = aget op_eqb o m.
Proof.
  induction ents as [|e ents IH]; intros t v0 m d o H; cbn [put_outputs]; [reflexivity|].
  cbn [length] in H. rewrite IH by lia. apply aget_aset_other. destruct o as [ot ov]. cbn [fst snd] in H.
  intros E. inversion E. subst. lia.
Qed.

(* placing the outputs of one transaction whose inputs are the ranges [irs] *)
Lemma place_outputs_rare : forall t os irs m0 ents lft w m2 d S,
  wf_ranges irs -> wf_map m0 ->
  (forall x, (cnt (flatten irs) x + cnt (usats m0) x <= 1)%nat) ->
  rs_map S m0 ->
  assign_outputs t 0 os irs = Ok (ents, lft, w) ->
  put_outputs t 0 ents m0 [] = (m2, d) ->
  rs_map (apply_writes w S) m2 /\ (forall s, In s (map fst w) -> In s (flatten irs)).
Proof.
  intros t os irs m0 ents lft w m2 d S W WM B R A P.
  assert (NDi : NoDup (flatten irs)) by (apply cnt_le1_NoDup; intros x; specialize (B x); lia).
  destruct (assign_outputs_keys_ok _ _ _ _ _ _ _ W NDi A) as [NDk Ksub].
  split; [|exact Ksub].
  intros o rs G i s e Hi Hc.
  assert (G2 : aget op_eqb o (fst (put_outputs t 0 ents m0 [])) = Some rs) by (rewrite P; exact G).
  destruct o as [ot ov].
  destruct (N.eq_dec ot t) as [Et|Et]; [destruct (N.ltb_spec ov (N.of_nat (length ents))) as [L|L]|].
  - subst ot. replace ov with (0 + N.of_nat (N.to_nat ov)) in G2 by lia.
    rewrite put_outputs_get in G2 by lia. inversion G2 as [G3].
    assert (NE : nth_error ents (N.to_nat ov) = Some rs).
    { rewrite <- G3. apply nth_error_nth'. lia. }
    pose proof (assign_outputs_writes _ _ _ _ _ _ _ A (N.to_nat ov) rs NE i s e Hi Hc) as I.
    replace (0 + N.of_nat (N.to_nat ov)) with ov in I by lia.
    rewrite (apply_writes_get_in _ _ _ _ NDk I). f_equal. f_equal. rewrite ?G3. lia.
  - subst ot. rewrite put_outputs_get_far in G2 by (cbn [fst snd]; lia).
    rewrite apply_writes_get_out; [exact (R _ _ G2 i s e Hi Hc)|].
    intros C. apply Ksub in C.
    assert (I2 : In s (usats m0)).
    { eapply entry_sats_in_usats; [exact G2|]. eapply nth_error_start; [|exact Hi].
      pose proof (aget_In _ _ _ G2) as X. unfold wf_map in WM. rewrite Forall_forall in WM. apply (WM _ X). }
    pose proof (cnt_pos _ _ C). pose proof (cnt_pos _ _ I2). specialize (B s). lia.
  - rewrite put_outputs_get_far in G2 by (cbn [fst snd]; left; exact Et).
    rewrite apply_writes_get_out; [exact (R _ _ G2 i s e Hi Hc)|].
    intros C. apply Ksub in C.
    assert (I2 : In s (usats m0)).
    { eapply entry_sats_in_usats; [exact G2|]. eapply nth_error_start; [|exact Hi].
      pose proof (aget_In _ _ _ G2) as X. unfold wf_map in WM. rewrite Forall_forall in WM. apply (WM _ X). }
    pose proof (cnt_pos _ _ C). pose proof (cnt_pos _ _ I2). specialize (B s). lia.
Qed.

Lemma cnt_in : forall l x, (1 <= cnt l x)%nat -> In x l.
Proof. intros l x H. unfold cnt in H. apply (count_occ_In N.eq_dec). lia. Qed.

Lemma aget_adel_some : forall {V} o k (m : list (outpoint * V)) v,
  aget op_eqb o (adel op_eqb k m) = Some v -> aget op_eqb o m = Some v.
Proof.
  intros V o k m v H. destruct (op_eqb_spec o k) as [E|E].
  - subst. rewrite aget_adel_same in H. discriminate.
  - rewrite aget_adel_other in H by exact E. exact H.
Qed.

Lemma take_inputs_sub : forall inps m rs m' o v,
  take_inputs inps m = Ok (rs, m') -> aget op_eqb o m' = Some v -> aget op_eqb o m = Some v.
Proof.
  induction inps as [|i inps IH]; intros m rs m' o v H G; cbn [take_inputs] in H.
  - inversion H; subst. exact G.
  - destruct (aget op_eqb i m) as [r|]; [|discriminate].
    apply bind_ok in H. destruct H as [[rest m1] [H1 H]]. inversion H; subst; clear H.
    eapply aget_adel_some. eapply IH; eassumption.
Qed.

Lemma index_tx_parts : forall t m m2 lft w d,
  index_tx t m = Ok (m2, lft, w, d) ->
  exists irs m0 ents,
    take_inputs (ins t) m = Ok (irs, m0) /\
    assign_outputs (txid t) 0 (outs t) irs = Ok (ents, lft, w) /\
    put_outputs (txid t) 0 ents m0 [] = (m2, d).
Proof.
  intros t m m2 lft w d H. unfold index_tx in H.
  apply bind_ok in H. destruct H as [[irs m0] [I1 H]].
  apply bind_ok in H. destruct H as [[[ents lft0] w0] [I2 H]].
  destruct (put_outputs (txid t) 0 ents m0 []) as [m2' d'] eqn:I3.
  inversion H; subst. eauto 10.
Qed.

Lemma index_tx_cnt : forall t m m2 lft w d x,
  nodupkeys m -> index_tx t m = Ok (m2, lft, w, d) ->
  nodupkeys m2 /\
  (cnt (usats m2) x + cnt (flatten lft) x + cnt (flatten d) x)%nat = cnt (usats m) x.
Proof.
  intros t m m2 lft w d x ND H. destruct (index_tx_parts _ _ _ _ _ _ H) as [irs [m0 [ents [I1 [I2 I3]]]]].
  destruct (take_inputs_cnt _ _ _ _ x ND I1) as [ND0 C0].
  destruct (put_outputs_cnt _ _ _ _ _ _ _ x ND0 I3) as [ND1 C1].
  destruct (split_fifo _ _ _ _ _ _ _ I2) as [F _].
  split; [exact ND1|]. rewrite C0, <- F, cnt_app. cbn in C1. lia.
Qed.

Lemma index_tx_wf : forall t m m2 lft w d,
  wf_map m -> index_tx t m = Ok (m2, lft, w, d) -> wf_map m2 /\ wf_ranges lft.
Proof.
  intros t m m2 lft w d W H. destruct (index_tx_parts _ _ _ _ _ _ H) as [irs [m0 [ents [I1 [I2 I3]]]]].
  destruct (take_inputs_wf _ _ _ _ W I1) as [A B].
  destruct (assign_outputs_wf _ _ _ _ _ _ _ A I2) as [E F].
  pose proof (put_outputs_wf ents (txid t) 0 m0 [] B E) as P. rewrite I3 in P. split; [exact P|exact F].
Qed.

Lemma index_tx_rare : forall t m m2 lft w d S,
  nodupkeys m -> wf_map m -> (forall x, (cnt (usats m) x <= 1)%nat) -> rs_map S m ->
  index_tx t m = Ok (m2, lft, w, d) ->
  rs_map (apply_writes w S) m2 /\ (forall s, In s (map fst w) -> In s (usats m)).
Proof.
  intros t m m2 lft w d S ND W B R H.
  destruct (index_tx_parts _ _ _ _ _ _ H) as [irs [m0 [ents [I1 [I2 I3]]]]].
  destruct (take_inputs_wf _ _ _ _ W I1) as [Wi W0].
  assert (B0 : forall x, (cnt (flatten irs) x + cnt (usats m0) x <= 1)%nat).
  { intros x. destruct (take_inputs_cnt _ _ _ _ x ND I1) as [_ C]. specialize (B x). lia. }
  assert (R0 : rs_map S m0).
  { intros o rs G. apply (R o rs). eapply take_inputs_sub; eassumption. }
  destruct (place_outputs_rare _ _ _ _ _ _ _ _ _ S Wi W0 B0 R0 I2 I3) as [A K].
  split; [exact A|]. intros s I. apply K in I. apply cnt_in.
  destruct (take_inputs_cnt _ _ _ _ s ND I1) as [_ C]. pose proof (cnt_pos _ _ I). lia.
Qed.

Lemma index_txs_rare : forall ts m cbin w0 d0 m' cbin' w' d' S L,
  nodupkeys m -> wf_map m -> wf_ranges cbin ->
  (forall x, (cnt (usats m) x + cnt (flatten cbin) x + cnt L x <= 1)%nat) ->
  rs_map (apply_writes w0 S) m ->
  index_txs ts m cbin w0 d0 = Ok (m', cbin', w', d') ->
  nodupkeys m' /\ wf_map m' /\ wf_ranges cbin' /\
  (forall x, (cnt (usats m') x + cnt (flatten cbin') x + cnt L x <= 1)%nat) /\
  rs_map (apply_writes w' S) m' /\
  (forall s, In s L -> aget N.eqb s (apply_writes w' S) = aget N.eqb s (apply_writes w0 S)).
Proof.
  induction ts as [|t ts IH]; intros m cbin w0 d0 m' cbin' w' d' S L ND W Wc B R H; cbn [index_txs] in H.
  - inversion H; subst. repeat split; try assumption; try (intros; reflexivity).
  - apply bind_ok in H. destruct H as [[[[m1 lft] w1] d1] [H1 H]].
    destruct (index_tx_wf _ _ _ _ _ _ W H1) as [W1 Wl].
    assert (Bm : forall x, (cnt (usats m) x <= 1)%nat) by (intros x; specialize (B x); lia).
    destruct (index_tx_rare _ _ _ _ _ _ (apply_writes w0 S) ND W Bm R H1) as [R1 K1].
    rewrite <- apply_writes_app in R1.
    assert (ND1 : nodupkeys m1) by (apply (index_tx_cnt _ _ _ _ _ _ 0 ND H1)).
    assert (B1 : forall x, (cnt (usats m1) x + cnt (flatten (cbin ++ lft)) x + cnt L x <= 1)%nat).
    { intros x. destruct (index_tx_cnt _ _ _ _ _ _ x ND H1) as [_ C]. rewrite flatten_app, cnt_app.
      specialize (B x). lia. }
    destruct (IH _ _ _ _ _ _ _ _ S L ND1 W1 (wf_ranges_app _ _ Wc Wl) B1 R1 H) as [A1 [A2 [A3 [A4 [A5 A6]]]]].
    repeat split; try assumption.
    intros s I. rewrite (A6 s I), apply_writes_app. apply apply_writes_get_out.
    intros C. apply K1 in C. pose proof (cnt_pos _ _ C). pose proof (cnt_pos _ _ I). specialize (B s). lia.
Qed.

Lemma lost_writes_keys : forall ls off, map fst (fst (lost_writes ls off)) = rare_starts ls.
Proof.
  induction ls as [|[s e] ls IH]; intros off; cbn [lost_writes]; [reflexivity|].
  specialize (IH (off + (e - s))). destruct (lost_writes ls (off + (e - s))) as [w o]. cbn [fst] in *.
  unfold rare_starts, starts in *. cbn [map fst filter]. destruct (common s); cbn [negb app map fst]; [exact IH|f_equal; exact IH].
Qed.

(* the whole state *)
Definition rare_inv (st : state) : Prop :=
  rs_map (s2sp st) (utxo st) /\ rs_ok (s2sp st) NULL_OP 0 (lost st) /\ lost_sats st = total (lost st).

Definition full_inv (st : state) : Prop :=
  nodupkeys (utxo st) /\ wf_state st /\
  (forall x, (cnt (all_sats st) x + cnt (flatten (destroyed st)) x)%nat =
             cnt (nseq 0 (N.to_nat (starting_sat (height st)))) x) /\
  rare_inv st.

Lemma nseq_cnt_le1 : forall n s x, (cnt (nseq s n) x <= 1)%nat.
Proof. intros. apply (NoDup_count_occ N.eq_dec). apply nseq_NoDup. Qed.

Lemma firstn_app_le : forall {A} (a b : list A) i, (i <= length a)%nat -> firstn i (a ++ b) = firstn i a.
Proof. intros A a b i H. rewrite firstn_app. replace (i - length a)%nat with 0%nat by lia. cbn. apply app_nil_r. Qed.

Lemma index_block_full : forall st b st',
  b <> [] -> full_inv st -> index_block st b = Ok st' -> full_inv st'.
Proof.
  intros st b st' NE [ND [WS [CN [RM [RL LS]]]]] H.
  destruct (index_block_cnt st b st') with (x := 0) as [ND' _]; try assumption.
  pose proof (index_block_wf _ _ _ WS H) as WS'.
  assert (CN' : forall x, (cnt (all_sats st') x + cnt (flatten (destroyed st')) x)%nat =
             cnt (nseq 0 (N.to_nat (starting_sat (height st')))) x).
  { intros x. destruct (index_block_cnt st b st' x NE ND H) as [_ C].
    rewrite (index_block_height _ _ _ H), starting_sat_succ, nseq_snoc_block, C, CN. reflexivity. }
  split; [exact ND'|]. split; [exact WS'|]. split; [exact CN'|].
  (* the rare-sat part *)
  destruct WS as [WM WL].
  unfold index_block in H. destruct b as [|cb rest]; [congruence|].
  apply bind_ok in H. destruct H as [[[[m1 cbin] w1] d1] [H1 H]].
  apply bind_ok in H. destruct H as [[[ents lostr] w2] [H2 H]].
  destruct (put_outputs (txid cb) 0 ents m1 []) as [m2 d2] eqn:H3.
  destruct (lost_writes lostr (lost_sats st)) as [w3 ls] eqn:H4.
  inversion H; subst; clear H. unfold rare_inv. cbn [utxo lost lost_sats s2sp].
  set (h := height st) in *.
  match type of H1 with index_txs _ _ ?z _ _ = _ => set (cbin0 := z) in * end.
  assert (Wc0 : wf_ranges cbin0).
  { subst cbin0. destruct (N.ltb_spec 0 (subsidy h)); repeat constructor. cbn [fst snd]. lia. }
  assert (C0 : forall x, cnt (flatten cbin0) x = cnt (nseq (starting_sat h) (N.to_nat (subsidy h))) x).
  { intros x. subst cbin0. destruct (N.ltb_spec 0 (subsidy h)) as [L|L].
    - cbn [flatten flat_map]. unfold flat1. cbn [fst snd]. rewrite app_nil_r. do 3 f_equal. lia.
    - replace (subsidy h) with 0 by lia. reflexivity. }
  assert (B0 : forall x, (cnt (usats (utxo st)) x + cnt (flatten cbin0) x + cnt (flatten (lost st)) x <= 1)%nat).
  { intros x. specialize (CN x). unfold all_sats in CN. rewrite cnt_app in CN. rewrite C0.
    pose proof (nseq_cnt_le1 (N.to_nat (starting_sat h + subsidy h)) 0 x) as Q.
    rewrite nseq_snoc_block in Q. lia. }
  assert (R0 : rs_map (apply_writes [] (s2sp st)) (utxo st)) by exact RM.
  destruct (index_txs_rare _ _ _ _ _ _ _ _ _ (s2sp st) (flatten (lost st)) ND WM Wc0 B0 R0 H1)
    as [ND1 [W1 [Wc1 [B1 [R1 K1]]]]].
  cbn [apply_writes fold_left] in K1.
  (* coinbase *)
  assert (Bc : forall x, (cnt (flatten cbin) x + cnt (usats m1) x <= 1)%nat) by (intros x; specialize (B1 x); lia).
  destruct (place_outputs_rare _ _ _ _ _ _ _ _ _ (apply_writes w1 (s2sp st)) Wc1 W1 Bc R1 H2 H3) as [R2 K2].
  rewrite <- apply_writes_app in R2.
  destruct (assign_outputs_wf _ _ _ _ _ _ _ Wc1 H2) as [We Wlr].
  destruct (split_fifo _ _ _ _ _ _ _ H2) as [F _].
  (* lost writes *)
  assert (K3 : map fst w3 = rare_starts lostr).
  { pose proof (lost_writes_keys lostr (lost_sats st)) as Q. rewrite H4 in Q. exact Q. }
  assert (B2 : forall x, (cnt (usats m2) x + cnt (flatten lostr) x + cnt (flatten (lost st)) x <= 1)%nat).
  { intros x. destruct (put_outputs_cnt _ _ _ _ _ _ _ x ND1 H3) as [_ C]. specialize (B1 x).
    rewrite <- F, cnt_app in B1. cbn in C. lia. }
  assert (NDl : NoDup (flatten lostr)) by (apply cnt_le1_NoDup; intros x; specialize (B2 x); lia).
  assert (ND3 : NoDup (map fst w3)).
  { rewrite K3. unfold rare_starts. apply NoDup_filter. apply starts_NoDup; assumption. }
  assert (K3' : forall s, In s (map fst w3) -> In s (flatten lostr)).
  { intros s I. rewrite K3 in I. apply rare_starts_in in I. apply start_in_flatten; [exact Wlr|apply I]. }
  rewrite !app_assoc, apply_writes_app.
  split; [|split].
  - (* real outputs keep their entries: the lost writes only touch lost sats *)
    intros o rs G i s e Hi Hc. rewrite apply_writes_get_out; [exact (R2 o rs G i s e Hi Hc)|].
    intros C. apply K3' in C.
    assert (I2 : In s (usats m2)).
    { eapply entry_sats_in_usats; [exact G|]. eapply nth_error_start; [|exact Hi].
      pose proof (aget_In _ _ _ G) as X. destruct WS' as [WM' _]. cbn [utxo] in WM'.
      unfold wf_map in WM'. rewrite Forall_forall in WM'. apply (WM' _ X). }
    pose proof (cnt_pos _ _ C). pose proof (cnt_pos _ _ I2). specialize (B2 s). lia.
  - (* the null-outpoint entry *)
    intros i s e Hi Hc. destruct (Nat.lt_ge_cases i (length (lost st))) as [Li|Li].
    + rewrite nth_error_app1 in Hi by exact Li.
      rewrite firstn_app_le by lia.
      assert (Is : In s (flatten (lost st))) by (eapply nth_error_start; eassumption).
      rewrite apply_writes_get_out.
      * rewrite apply_writes_app, apply_writes_get_out.
        -- rewrite (K1 s Is). exact (RL i s e Hi Hc).
        -- intros C. apply K2 in C. pose proof (cnt_pos _ _ C). pose proof (cnt_pos _ _ Is). specialize (B1 s). lia.
      * intros C. apply K3' in C. pose proof (cnt_pos _ _ C). pose proof (cnt_pos _ _ Is). specialize (B2 s). lia.
    + rewrite nth_error_app2 in Hi by exact Li.
      pose proof (lost_writes_in lostr (lost_sats st) _ s e Hi Hc) as I. rewrite H4 in I. cbn [fst] in I.
      rewrite (apply_writes_get_in _ _ _ _ ND3 I). f_equal. f_equal.
      rewrite firstn_app. rewrite (firstn_all2 (lost st)) by exact Li. rewrite total_app, LS, N.add_0_l. reflexivity.
  - pose proof (lost_writes_total lostr (lost_sats st)) as Q. rewrite H4 in Q. cbn [snd] in Q.
    rewrite Q, total_app, LS. reflexivity.
Qed.

Theorem rare_table_invariant : forall c st,
  nonempty_blocks c -> run c = Ok st -> rare_inv st.
Proof.
  intros c st NE H.
  assert (G : forall c s0 s1, nonempty_blocks c -> full_inv s0 -> run_from s0 c = Ok s1 -> full_inv s1).
  { clear. induction c as [|b c IH]; intros s0 s1 NE I H; cbn [run_from] in H.
    - inversion H; subst. exact I.
    - apply bind_ok in H. destruct H as [s2 [H1 H]]. inversion NE as [|y l N1 N2]; subst.
      eapply IH; [exact N2| |exact H]. eapply index_block_full; eassumption. }
  apply (G c init st NE) in H; [apply H|].
  split; [constructor|]. split; [split; constructor|]. split.
  - intros x. change (height init) with 0. rewrite starting_sat_0. reflexivity.
  - split; [|split].
    + intros o rs G0. discriminate.
    + intros i s e Hi. destruct i; discriminate.
    + reflexivity.
Qed.

(* ------------------------------------------------------------------ converse: no stale entry for a live sat *)

(* range starts are never lost by a transfer: splitting only adds starts *)
Definition mstarts (m : umap) : list N := flat_map (fun kv => starts (snd kv)) m.

Lemma starts_app : forall a b, starts (a ++ b) = starts a ++ starts b.
Proof. intros. unfold starts. apply map_app. Qed.

Lemma take_sats_starts : forall rs op v rem a rest w s,
  take_sats op v rem rs = Ok (a, rest, w) -> In s (starts rs) -> In s (starts a) \/ In s (starts rest).
Proof.
  induction rs as [|[s0 e0] rs IH]; intros op v rem a rest w s H I; [destruct I|]. rewrite take_sats_eq in H.
  destruct (N.eqb_spec rem 0) as [E|E].
  - inversion H; subst. right. exact I.
  - cbv zeta in H. destruct (N.ltb_spec rem (e0 - s0)) as [L|L].
    + inversion H; subst; clear H. destruct I as [I|I]; [left; left; exact I|right; right; exact I].
    + apply bind_ok in H. destruct H as [[[a' rest'] ws] [H1 H2]]. inversion H2; subst; clear H2.
      destruct I as [I|I]; [left; left; exact I|].
      destruct (IH _ _ _ _ _ _ s H1 I) as [J|J]; [left; right; exact J|right; exact J].
Qed.

Lemma assign_outputs_starts : forall os t vout rs ents lft w s,
  assign_outputs t vout os rs = Ok (ents, lft, w) -> In s (starts rs) ->
  In s (starts (concat ents)) \/ In s (starts lft).
Proof.
  induction os as [|[v sc] os IH]; intros t vout rs ents lft w s H I; cbn [assign_outputs] in H.
  - inversion H; subst. right. exact I.
  - apply bind_ok in H. destruct H as [[[a rest] w1] [H1 H]].
    apply bind_ok in H. destruct H as [[[ents' lft'] w2] [H2 H]].
    inversion H; subst; clear H. cbn [concat]. rewrite starts_app, in_app_iff.
    destruct (take_sats_starts _ _ _ _ _ _ _ s H1 I) as [J|J]; [left; left; exact J|].
    destruct (IH _ _ _ _ _ _ s H2 J) as [K|K]; [left; right; exact K|right; exact K].
Qed.

Lemma mstarts_In : forall m s, In s (mstarts m) <-> exists o rs, In (o, rs) m /\ In s (starts rs).
Proof.
  intros m s. unfold mstarts. rewrite in_flat_map. split.
  - intros [[o rs] [I J]]. exists o, rs. split; assumption.
  - intros [o [rs [I J]]]. exists (o, rs). split; assumption.
Qed.

Lemma In_aget : forall {V} o (v : V) m, nodupkeys m -> In (o, v) m -> aget op_eqb o m = Some v.
Proof.
  intros V o v m. induction m as [|[k v2] m IH]; intros ND I; [destruct I|].
  inversion ND as [|x l N1 N2]; subst. cbn [aget]. destruct I as [I|I].
  - inversion I; subst. destruct (op_eqb_spec o o); [reflexivity|contradiction].
  - destruct (op_eqb_spec o k) as [E|E]; [|apply IH; assumption].
    subst. exfalso. apply N1. apply in_map_iff. exists (k, v). split; [reflexivity|exact I].
Qed.

Lemma In_adel : forall {V} o (v : V) k m, In (o, v) m -> o <> k -> In (o, v) (adel op_eqb k m).
Proof.
  intros V o v k m. induction m as [|[k2 v2] m IH]; intros I NE; [destruct I|]. cbn [adel].
  destruct (op_eqb_spec k k2) as [E|E]; destruct I as [I|I].
  - inversion I; subst. contradiction.
  - apply IH; assumption.
  - left. exact I.
  - right. apply IH; assumption.
Qed.

Lemma take_inputs_starts : forall inps m rs m' s,
  nodupkeys m -> take_inputs inps m = Ok (rs, m') -> In s (mstarts m) -> In s (starts rs) \/ In s (mstarts m').
Proof.
  induction inps as [|i inps IH]; intros m rs m' s ND H I; cbn [take_inputs] in H.
  - inversion H; subst. right. exact I.
  - destruct (aget op_eqb i m) as [r|] eqn:G; [|discriminate].
    apply bind_ok in H. destruct H as [[rest m1] [H1 H]]. inversion H; subst; clear H.
    rewrite starts_app, in_app_iff.
    apply mstarts_In in I. destruct I as [o [rs0 [I J]]].
    destruct (op_eqb_spec o i) as [E|E].
    + subst. rewrite (In_aget _ _ _ ND I) in G. inversion G; subst. left. left. exact J.
    + assert (I2 : In s (mstarts (adel op_eqb i m))).
      { apply mstarts_In. exists o, rs0. split; [apply In_adel; assumption|exact J]. }
      destruct (IH _ _ _ s (adel_nodup i m ND) H1 I2) as [K|K]; [left; right; exact K|right; exact K].
Qed.

Lemma aset_starts : forall k v (m : umap) s,
  nodupkeys m -> In s (mstarts m) ->
  In s (mstarts (aset op_eqb k v m)) \/
  In s (starts (match aget op_eqb k m with Some old => old | None => [] end)).
Proof.
  intros k v m s ND I. apply mstarts_In in I. destruct I as [o [rs [I J]]].
  destruct (op_eqb_spec o k) as [E|E].
  - subst. rewrite (In_aget _ _ _ ND I). right. exact J.
  - left. apply mstarts_In. exists o, rs. split; [|exact J]. unfold aset. right. apply In_adel; assumption.
Qed.

Lemma put_outputs_starts : forall ents t vout m d m' d' s,
  nodupkeys m -> put_outputs t vout ents m d = (m', d') ->
  In s (mstarts m) \/ In s (starts (concat ents)) \/ In s (starts d) ->
  In s (mstarts m') \/ In s (starts d').
Proof.
  induction ents as [|e ents IH]; intros t vout m d m' d' s ND H I; cbn [put_outputs] in H.
  - inversion H; subst. destruct I as [I|[I|I]]; [left; exact I|destruct I|right; exact I].
  - apply (IH _ _ _ _ _ _ s (aset_nodup (t, vout) e m ND) H).
    cbn [concat] in I. rewrite starts_app, in_app_iff in I.
    destruct I as [I|[[I|I]|I]].
    + destruct (aset_starts (t, vout) e m s ND I) as [J|J]; [left; exact J|].
      right. right. destruct (aget op_eqb (t, vout) m); [rewrite starts_app; apply in_app_iff; right; exact J|destruct J].
    + left. apply mstarts_In. exists (t, vout), e. split; [left; reflexivity|exact I].
    + right. left. exact I.
    + right. right. destruct (aget op_eqb (t, vout) m); [rewrite starts_app; apply in_app_iff; left; exact I|exact I].
Qed.

(* one transaction: a start in the map stays a start of the map, of the leftover, or of a displaced range;
   and every key it writes is a start of the new map or of a displaced range *)
Lemma index_tx_starts : forall t m m2 lft w d s,
  nodupkeys m -> index_tx t m = Ok (m2, lft, w, d) ->
  (In s (mstarts m) \/ In s (map fst w)) ->
  In s (mstarts m2) \/ In s (starts lft) \/ In s (starts d).
Proof.
  intros t m m2 lft w d s ND H I.
  destruct (index_tx_parts _ _ _ _ _ _ H) as [irs [m0 [ents [I1 [I2 I3]]]]].
  destruct (take_inputs_cnt _ _ _ _ 0 ND I1) as [ND0 _].
  assert (P : In s (mstarts m0) \/ In s (starts (concat ents)) \/ In s (starts lft)).
  { destruct I as [I|I].
    - destruct (take_inputs_starts _ _ _ _ s ND I1 I) as [J|J]; [|left; exact J].
      destruct (assign_outputs_starts _ _ _ _ _ _ _ s I2 J) as [K|K]; [right; left; exact K|right; right; exact K].
    - rewrite (assign_outputs_keys _ _ _ _ _ _ _ I2) in I. apply rare_starts_in in I. right. left. apply I. }
  destruct P as [P|[P|P]].
  - destruct (put_outputs_starts _ _ _ _ _ _ _ s ND0 I3 (or_introl P)) as [Q|Q]; [left; exact Q|right; right; exact Q].
  - destruct (put_outputs_starts _ _ _ _ _ _ _ s ND0 I3 (or_intror (or_introl P))) as [Q|Q]; [left; exact Q|right; right; exact Q].
  - right. left. exact P.
Qed.

Lemma index_txs_starts : forall ts m cbin w0 d0 m' cbin' w' d' s,
  nodupkeys m -> index_txs ts m cbin w0 d0 = Ok (m', cbin', w', d') ->
  (In s (mstarts m) \/ In s (starts cbin) \/ In s (starts d0)) \/ (In s (map fst w') /\ ~ In s (map fst w0)) ->
  In s (mstarts m') \/ In s (starts cbin') \/ In s (starts d').
Proof.
  induction ts as [|t ts IH]; intros m cbin w0 d0 m' cbin' w' d' s ND H I; cbn [index_txs] in H.
  - inversion H; subst. destruct I as [I|[I N]]; [exact I|contradiction].
  - apply bind_ok in H. destruct H as [[[[m1 lft] w1] d1] [H1 H]].
    assert (ND1 : nodupkeys m1) by (apply (index_tx_cnt _ _ _ _ _ _ 0 ND H1)).
    apply (IH _ _ _ _ _ _ _ _ s ND1 H).
    rewrite !starts_app, !in_app_iff.
    destruct (in_dec N.eq_dec s (map fst w1)) as [Iw|Nw].
    + left. destruct (index_tx_starts _ _ _ _ _ _ s ND H1 (or_intror Iw)) as [Q|[Q|Q]]; tauto.
    + destruct I as [[I|[I|I]]|[I N]].
      * left. destruct (index_tx_starts _ _ _ _ _ _ s ND H1 (or_introl I)) as [Q|[Q|Q]]; tauto.
      * left. tauto.
      * left. tauto.
      * right. split; [exact I|]. rewrite map_app, in_app_iff. tauto.
Qed.

Lemma nadel_keys_subset : forall {V} k k' (m : list (N * V)), In k' (map fst (adel N.eqb k m)) -> In k' (map fst m).
Proof.
  intros V k k' m. induction m as [|[k2 v] m IH]; cbn [adel map fst In]; [tauto|].
  destruct (N.eqb_spec k k2); [intros H; right; apply IH; exact H|].
  cbn [map fst In]. intros [H|H]; [left; exact H|right; apply IH; exact H].
Qed.

Lemma apply_writes_keys : forall w S s,
  In s (map fst (apply_writes w S)) -> In s (map fst w) \/ In s (map fst S).
Proof.
  unfold apply_writes. induction w as [|[k v] w IH]; intros S s I; [right; exact I|]. cbn [fold_left fst snd] in I.
  destruct (IH _ _ I) as [J|J]; [left; right; exact J|].
  unfold aset in J. cbn [map fst In] in J. destruct J as [J|J]; [left; left; exact J|].
  right. eapply nadel_keys_subset. exact J.
Qed.

Lemma nget_in_keys : forall {V} k (m : list (N * V)) v, aget N.eqb k m = Some v -> In k (map fst m).
Proof.
  intros V k m. induction m as [|[k2 v2] m IH]; cbn [aget map fst In]; [discriminate|].
  intros v. destruct (N.eqb_spec k k2); [left; congruence|]. intros H. right. eapply IH. eassumption.
Qed.

Lemma index_txs_keys_rare : forall ts m cbin w0 d0 m' cbin' w' d' s,
  index_txs ts m cbin w0 d0 = Ok (m', cbin', w', d') ->
  In s (map fst w') -> In s (map fst w0) \/ common s = false.
Proof.
  induction ts as [|t ts IH]; intros m cbin w0 d0 m' cbin' w' d' s H I; cbn [index_txs] in H.
  - inversion H; subst. left. exact I.
  - apply bind_ok in H. destruct H as [[[[m1 lft] w1] d1] [H1 H]].
    destruct (IH _ _ _ _ _ _ _ _ s H I) as [J|J]; [|right; exact J].
    rewrite map_app, in_app_iff in J. destruct J as [J|J]; [left; exact J|right].
    destruct (index_tx_parts _ _ _ _ _ _ H1) as [irs [m0 [ents [I1 [I2 I3]]]]].
    rewrite (assign_outputs_keys _ _ _ _ _ _ _ I2) in J. apply rare_starts_in in J. apply J.
Qed.

Definition key_inv (st : state) : Prop :=
  forall s, In s (map fst (s2sp st)) ->
    common s = false /\
    (In s (mstarts (utxo st)) \/ In s (starts (lost st)) \/ In s (starts (destroyed st))).

Lemma index_block_keys : forall st b st',
  nodupkeys (utxo st) -> key_inv st -> index_block st b = Ok st' -> key_inv st'.
Proof.
  intros st b st' ND K H. unfold index_block in H. destruct b as [|cb rest].
  - inversion H; subst. exact K.
  - apply bind_ok in H. destruct H as [[[[m1 cbin] w1] d1] [H1 H]].
    apply bind_ok in H. destruct H as [[[ents lostr] w2] [H2 H]].
    destruct (put_outputs (txid cb) 0 ents m1 []) as [m2 d2] eqn:H3.
    destruct (lost_writes lostr (lost_sats st)) as [w3 ls] eqn:H4.
    inversion H; subst; clear H. intros s I. cbn [s2sp utxo lost destroyed] in *.
    assert (ND1 : nodupkeys m1) by (apply (index_txs_cnt _ _ _ _ _ _ _ _ _ 0 ND H1)).
    (* where a start of (m1, cbin, d1) ends up after the coinbase *)
    assert (Fin : In s (mstarts m1) \/ In s (starts cbin) \/ In s (starts d1) ->
                  In s (mstarts m2) \/ In s (starts (lost st ++ lostr)) \/ In s (starts (destroyed st ++ d1 ++ d2))).
    { rewrite !starts_app, !in_app_iff. intros [P|[P|P]].
      - destruct (put_outputs_starts _ _ _ _ _ _ _ s ND1 H3 (or_introl P)) as [Q|Q]; tauto.
      - destruct (assign_outputs_starts _ _ _ _ _ _ _ s H2 P) as [Q|Q]; [|tauto].
        destruct (put_outputs_starts _ _ _ _ _ _ _ s ND1 H3 (or_intror (or_introl Q))) as [R|R]; tauto.
      - tauto. }
    apply apply_writes_keys in I. rewrite !map_app, !in_app_iff in I.
    destruct I as [[I|[I|I]]|I].
    + (* written by a transaction of the block *)
      split.
      * destruct (index_txs_keys_rare _ _ _ _ _ _ _ _ _ s H1 I) as [J|J]; [destruct J|exact J].
      * apply Fin. apply (index_txs_starts _ _ _ _ _ _ _ _ _ s ND H1). right. split; [exact I|intros []].
    + (* written by the coinbase *)
      rewrite (assign_outputs_keys _ _ _ _ _ _ _ H2) in I. apply rare_starts_in in I. destruct I as [I C].
      split; [exact C|]. rewrite !starts_app, !in_app_iff.
      destruct (put_outputs_starts _ _ _ _ _ _ _ s ND1 H3 (or_intror (or_introl I))) as [R|R]; tauto.
    + (* written for the lost ranges *)
      pose proof (lost_writes_keys lostr (lost_sats st)) as Q. rewrite H4 in Q. cbn [fst] in Q.
      rewrite Q in I. apply rare_starts_in in I. destruct I as [I C].
      split; [exact C|]. rewrite !starts_app, !in_app_iff. tauto.
    + (* an older key *)
      destruct (K s I) as [C [P|[P|P]]]; split; try exact C.
      * apply Fin. apply (index_txs_starts _ _ _ _ _ _ _ _ _ s ND H1). left. left. exact P.
      * rewrite !starts_app, !in_app_iff. tauto.
      * rewrite !starts_app, !in_app_iff. tauto.
Qed.

Theorem rare_keys_invariant : forall c st, nonempty_blocks c -> run c = Ok st -> key_inv st.
Proof.
  intros c st NE H.
  assert (G : forall c s0 s1, nonempty_blocks c -> nodupkeys (utxo s0) -> key_inv s0 -> run_from s0 c = Ok s1 -> key_inv s1).
  { clear. induction c as [|b c IH]; intros s0 s1 NE ND K H; cbn [run_from] in H.
    - inversion H; subst. exact K.
    - apply bind_ok in H. destruct H as [s2 [H1 H]]. inversion NE as [|y l N1 N2]; subst.
      apply (IH s2 s1 N2); [|eapply index_block_keys; eassumption|exact H].
      apply (index_block_cnt s0 b s2 0 N1 ND H1). }
  apply (G c init st NE); [constructor| |exact H]. intros s I. destruct I.
Qed.

(* what the rare-sat table reports is where the sat is, unless the sat was destroyed *)
Theorem rare_table_sound : forall c st s o k,
  nonempty_blocks c -> run c = Ok st -> rare st s = Some (o, k) ->
  common s = false /\
  ((exists rs i e, aget op_eqb o (utxo st) = Some rs /\ nth_error rs i = Some (s, e) /\ k = total (firstn i rs)) \/
   (o = NULL_OP /\ exists i e, nth_error (lost st) i = Some (s, e) /\ k = total (firstn i (lost st))) \/
   In s (starts (destroyed st))).
Proof.
  intros c st s o k NE H R. unfold rare in R.
  destruct (rare_keys_invariant c st NE H s (nget_in_keys _ _ _ R)) as [C P]. split; [exact C|].
  destruct (rare_table_invariant c st NE H) as [RM [RL _]].
  destruct (partition c st NE H) as [_ ND].
  destruct P as [P|[P|P]].
  - left. apply mstarts_In in P. destruct P as [o' [rs [I J]]].
    unfold starts in J. apply in_map_iff in J. destruct J as [[s' e] [E J]]. cbn [fst] in E. subst s'.
    apply In_nth_error in J. destruct J as [i J].
    pose proof (In_aget _ _ _ ND I) as G.
    pose proof (RM o' rs G i s e J C) as Q. rewrite R in Q. inversion Q; subst.
    exists rs, i, e. repeat split; try assumption; try lia.
  - right. left. unfold starts in P. apply in_map_iff in P. destruct P as [[s' e] [E J]]. cbn [fst] in E. subst s'.
    apply In_nth_error in J. destruct J as [i J].
    pose proof (RL i s e J C) as Q. rewrite R in Q. inversion Q; subst.
    split; [reflexivity|]. exists i, e. split; [exact J|try reflexivity; try lia].
  - right. right. exact P.
Qed.
