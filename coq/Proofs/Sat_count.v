(* C29: Sat::common agrees with rarity; counting the sats of each rarity. *)
From OrdV Require Import Base.Prelude Generated Ord.Sat Proofs.Sat_proofs.
Require Import ZifyBool ZifyN.
Ltac Zify.zify_post_hook ::= Z.div_mod_to_equations.

(* ---------- Sat::common ---------- *)

Lemma rarity_spec_common : forall h o, (rarity_spec h o =? R_COMMON) = negb (o =? 0).
Proof.
  intros h o. unfold rarity_spec.
  destruct (o =? 0); cbn [negb]; [|reflexivity].
  destruct (h =? 0); [reflexivity|].
  destruct (h mod 1260000 =? 0); [reflexivity|].
  destruct (h mod 210000 =? 0); [reflexivity|].
  destruct (h mod 2016 =? 0); reflexivity.
Qed.

(* epochs 0..9: the epoch's first sat is a multiple of its subsidy and the subsidy is a
   multiple of the fast-path divisor Epoch(9).subsidy() *)
Definition fast_ok (e : N) : bool :=
  (epoch_starting_sat e mod epoch_subsidy e =? 0) &&
  (epoch_subsidy e mod epoch_subsidy COMMON_FAST_EPOCH_DIV =? 0) &&
  (0 <? epoch_subsidy COMMON_FAST_EPOCH_DIV).

Lemma fast_table : forall e, e < 10 ->
  (epoch_subsidy e | epoch_starting_sat e) /\ (epoch_subsidy 9 | epoch_subsidy e) /\ epoch_subsidy 9 <> 0.
Proof.
  intros e H.
  assert (A : fast_ok e = true) by (apply (all_below_spec 10); [vm_compute; reflexivity|exact H]).
  unfold fast_ok in A. change COMMON_FAST_EPOCH_DIV with 9 in A.
  apply andb_true_iff in A. destruct A as [A C]. apply andb_true_iff in A. destruct A as [A B].
  apply N.eqb_eq in A. apply N.eqb_eq in B. apply N.ltb_lt in C.
  destruct (table_step e ltac:(lia)) as [_ P].
  split; [apply N.mod_divide; [lia|exact A]|].
  split; [apply N.mod_divide; [lia|exact B]|lia].
Qed.

Lemma sat_common_spec : forall n h o, n < SAT_SUPPLY ->
  sat_height n = Ok h -> sat_third n = Ok o -> sat_common n = negb (o =? 0).
Proof.
  intros n h o Hn Hh Ho.
  pose proof (epoch_of_sat_lt33 n Hn) as He.
  destruct (table_step _ He) as [_ Hpos].
  pose proof (epoch_start_le n) as Hle.
  unfold sat_third, sat_epoch_position in Ho.
  unfold sat_common. change COMMON_FAST_EPOCH_BOUND with 10. change COMMON_FAST_EPOCH_DIV with 9.
  set (e := epoch_of_sat n) in *. set (s := epoch_subsidy e) in *. set (S := epoch_starting_sat e) in *.
  destruct (N.eqb_spec s 0) as [X|_]; [lia|]. inversion Ho as [Ho']. clear Ho.
  assert (Fallback : negb (is_multiple_of (n - S) s) = negb ((n - S) mod s =? 0)).
  { unfold is_multiple_of. destruct (N.eqb_spec s 0); [lia|reflexivity]. }
  destruct ((n <? epoch_starting_sat 10) && negb (is_multiple_of n (epoch_subsidy 9))) eqn:Fast;
    [|exact Fallback].
  apply andb_true_iff in Fast. destruct Fast as [F1 F2]. apply N.ltb_lt in F1.
  (* the fast path answered "common": show the offset is not zero *)
  assert (E10 : e < 10).
  { destruct (N.lt_ge_cases e 10) as [L|L]; [exact L|].
    pose proof (table_mono 10 e L). fold S in H. lia. }
  destruct (fast_table e E10) as (D1 & D2 & D3). fold s in D1, D2. fold S in D1.
  unfold is_multiple_of in F2. destruct (N.eqb_spec (epoch_subsidy 9) 0) as [X|_]; [contradiction|].
  destruct (N.eqb_spec ((n - S) mod s) 0) as [Z|Z]; [|reflexivity].
  exfalso.
  apply N.mod_divide in Z; [|lia].
  assert (D : (epoch_subsidy 9 | n)).
  { replace n with (S + (n - S)) by lia. apply N.divide_add_r.
    - apply N.divide_trans with s; assumption.
    - apply N.divide_trans with s; assumption. }
  apply N.mod_divide in D; [|exact D3].
  rewrite D in F2. rewrite N.eqb_refl in F2. discriminate.
Qed.

(* ---------- sums and counts over initial segments of N ---------- *)

(* sums over millions of terms appear as closed terms below: never let a tactic unfold them *)
Opaque sum_below.

Definition ind (b : bool) : N := if b then 1 else 0.
Definition count_below (P : N -> bool) (b : N) : N := sum_below (fun n => ind (P n)) b.

Lemma sum_below_ext : forall f g b, (forall n, n < b -> f n = g n) -> sum_below f b = sum_below g b.
Proof.
  intros f g b. induction b as [|b IH] using N.peano_ind; intros H; [rewrite !sum_below_0; reflexivity|].
  rewrite <- N.add_1_r, !sum_below_succ. rewrite IH by (intros; apply H; lia). rewrite H by lia. reflexivity.
Qed.

Lemma sum_below_add : forall f g b,
  sum_below (fun n => f n + g n) b = sum_below f b + sum_below g b.
Proof.
  intros f g b. induction b as [|b IH] using N.peano_ind; [rewrite !sum_below_0; reflexivity|].
  rewrite <- N.add_1_r, !sum_below_succ, IH. lia.
Qed.

Lemma sum_below_const : forall c b, sum_below (fun _ => c) b = c * b.
Proof.
  intros c b. induction b as [|b IH] using N.peano_ind; [rewrite sum_below_0; lia|].
  rewrite <- N.add_1_r, sum_below_succ, IH. lia.
Qed.

Lemma sum_below_shift : forall f a b,
  sum_below f (a + b) = sum_below f a + sum_below (fun k => f (a + k)) b.
Proof.
  intros f a b. induction b as [|b IH] using N.peano_ind.
  - rewrite N.add_0_r, sum_below_0. lia.
  - rewrite <- N.add_1_r, N.add_assoc, !sum_below_succ, IH. lia.
Qed.

(* a sum over all sats below the first sat of block H, block by block *)
Lemma sum_below_blocks : forall f H,
  sum_below f (height_starting_sat H) =
  sum_below (fun h => sum_below (fun o => f (sat_of h o)) (height_subsidy h)) H.
Proof.
  intros f H. induction H as [|H IH] using N.peano_ind; [rewrite height_starting_sat_0, !sum_below_0; reflexivity|].
  rewrite <- N.add_1_r, height_starting_sat_succ, sum_below_shift, sum_below_succ, IH. reflexivity.
Qed.

(* number of multiples of a constant below b *)
Definition mult (m : N) (h : N) : bool := h mod m =? 0.

Ltac count_mult_tac b :=
  induction b as [|b IH] using N.peano_ind; [unfold count_below; rewrite sum_below_0; reflexivity|];
  unfold count_below in *; rewrite <- N.add_1_r, sum_below_succ, IH;
  unfold ind, mult; match goal with |- context [if ?c then _ else _] => destruct c eqn:E end; lia.

Lemma count_mult_2016 : forall b, count_below (mult 2016) b = (b + 2015) / 2016.
Proof. intros b. count_mult_tac b. Qed.
Lemma count_mult_210000 : forall b, count_below (mult 210000) b = (b + 209999) / 210000.
Proof. intros b. count_mult_tac b. Qed.
Lemma count_mult_1260000 : forall b, count_below (mult 1260000) b = (b + 1259999) / 1260000.
Proof. intros b. count_mult_tac b. Qed.

Lemma count_zero : forall b, count_below (fun h => h =? 0) b = ind (negb (b =? 0)).
Proof.
  intros b. induction b as [|b IH] using N.peano_ind; [unfold count_below; rewrite sum_below_0; reflexivity|].
  unfold count_below in *. rewrite <- N.add_1_r, sum_below_succ, IH. unfold ind.
  destruct (N.eqb_spec b 0); destruct (N.eqb_spec (b + 1) 0); cbn [negb]; lia.
Qed.

(* ---------- rarity counts ---------- *)

Definition rarity_is (r : N) (n : N) : bool :=
  match sat_rarity n with Ok r' => r' =? r | _ => false end.

Definition height_rarity_is (r : N) (h : N) : bool := rarity_spec h 0 =? r.

Lemma rarity_is_sat_of : forall r h o, o < height_subsidy h ->
  rarity_is r (sat_of h o) = (rarity_spec h o =? r).
Proof.
  intros r h o Ho. destruct (sat_of_inverse h o Ho) as (_ & A & B).
  destruct (sat_attributes _ _ _ A B) as (_ & _ & _ & R).
  unfold rarity_is. rewrite R. reflexivity.
Qed.

(* within one block: the first sat carries the block's rarity, all others are common *)
Lemma block_count : forall r h, h < 6930000 ->
  sum_below (fun o => ind (rarity_is r (sat_of h o))) (height_subsidy h) =
  ind (height_rarity_is r h) + ind (r =? R_COMMON) * (height_subsidy h - 1).
Proof.
  intros r h Hh. apply height_subsidy_pos_iff in Hh.
  replace (height_subsidy h) with (1 + (height_subsidy h - 1)) at 1 by lia.
  rewrite sum_below_shift.
  replace 1 with (0 + 1) at 1 by reflexivity. rewrite sum_below_succ, sum_below_0.
  rewrite rarity_is_sat_of by lia. fold (height_rarity_is r h).
  rewrite (sum_below_ext _ (fun _ => ind (r =? R_COMMON))).
  - rewrite sum_below_const. lia.
  - intros k Hk. rewrite rarity_is_sat_of by lia.
    unfold rarity_spec. destruct (N.eqb_spec (1 + k) 0); [lia|]. cbn [negb].
    rewrite N.eqb_sym. reflexivity.
Qed.

Lemma sum_minus_one_add : forall f b, (forall h, h < b -> 0 < f h) ->
  sum_below (fun h => 1 * (f h - 1)) b + b = sum_below f b.
Proof.
  intros f b. induction b as [|b IH] using N.peano_ind; intros H; [rewrite !sum_below_0; reflexivity|].
  rewrite <- N.add_1_r, !sum_below_succ. specialize (IH ltac:(intros; apply H; lia)).
  pose proof (H b ltac:(lia)). lia.
Qed.

Lemma sum_height_subsidy : sum_below height_subsidy 6930000 = SAT_SUPPLY.
Proof.
  rewrite <- height_starting_sat_last, height_starting_sat_sum.
  apply sum_below_ext. intros. apply height_subsidy_spec.
Qed.

Lemma count_rarity_blocks : forall r,
  count_below (rarity_is r) SAT_SUPPLY =
  count_below (height_rarity_is r) 6930000 + ind (r =? R_COMMON) * (SAT_SUPPLY - 6930000).
Proof.
  intros r. unfold count_below. rewrite <- height_starting_sat_last at 1. rewrite sum_below_blocks.
  rewrite (sum_below_ext _ (fun h => ind (height_rarity_is r h) + ind (r =? R_COMMON) * (height_subsidy h - 1)))
    by (intros; apply block_count; assumption).
  rewrite sum_below_add. apply N.add_cancel_l.
  destruct (r =? R_COMMON); unfold ind.
  - pose proof (sum_minus_one_add height_subsidy 6930000
                  ltac:(intros h Hh; apply height_subsidy_pos_iff; exact Hh)) as A.
    rewrite sum_height_subsidy in A. rewrite N.mul_1_l.
    apply (proj1 (N.add_cancel_r _ _ 6930000)). rewrite A. reflexivity.
  - rewrite (sum_below_ext _ (fun _ => 0)) by (intros; lia).
    rewrite sum_below_const. reflexivity.
Qed.

(* counting heights: pointwise identities between indicator functions, then sums *)
Lemma count_add_rule : forall (P Q R T : N -> bool) b,
  (forall h, ind (P h) + ind (Q h) = ind (R h) + ind (T h)) ->
  count_below P b + count_below Q b = count_below R b + count_below T b.
Proof.
  intros P Q R T b H. unfold count_below. rewrite <- !sum_below_add. apply sum_below_ext. intros; apply H.
Qed.

Definition never (h : N) : bool := false.
Lemma count_never : forall b, count_below never b = 0.
Proof. intros b. unfold count_below, never, ind. rewrite sum_below_const. lia. Qed.

Definition always (h : N) : bool := true.

Ltac ind_cases h :=
  cbv beta;
  unfold height_rarity_is, rarity_spec, mult, never, always, ind,
    R_COMMON, R_UNCOMMON, R_RARE, R_EPIC, R_LEGENDARY, R_MYTHIC;
  rewrite N.eqb_refl; cbn [negb];
  destruct (N.eqb_spec h 0); destruct (N.eqb_spec (h mod 1260000) 0);
  destruct (N.eqb_spec (h mod 210000) 0); destruct (N.eqb_spec (h mod 2016) 0);
  try reflexivity; exfalso; lia.

Lemma m1260000 : (6930000 + 1259999) / 1260000 = 6. Proof. reflexivity. Qed.
Lemma m210000 : (6930000 + 209999) / 210000 = 33. Proof. reflexivity. Qed.
Lemma m2016 : (6930000 + 2015) / 2016 = 3438. Proof. reflexivity. Qed.
Lemma nz6930000 : ind (negb (6930000 =? 0)) = 1. Proof. reflexivity. Qed.

Lemma count_mythic : count_below (height_rarity_is R_MYTHIC) 6930000 = 1.
Proof.
  assert (A' : forall h : N, ind (height_rarity_is R_MYTHIC h) + ind (never h) = ind ((fun h => h =? 0) h) + ind (never h))
    by (intros h; ind_cases h).
  pose proof (count_add_rule (height_rarity_is R_MYTHIC) never (fun h => h =? 0) never 6930000 A') as A.
  clear A'. rewrite count_never, count_zero, nz6930000 in A. rewrite !N.add_0_r in A. exact A.
Qed.

Lemma count_legendary : count_below (height_rarity_is R_LEGENDARY) 6930000 = 5.
Proof.
  assert (A' : forall h : N, ind (height_rarity_is R_LEGENDARY h) + ind ((fun h => h =? 0) h) = ind (mult 1260000 h) + ind (never h))
    by (intros h; ind_cases h).
  pose proof (count_add_rule (height_rarity_is R_LEGENDARY) (fun h => h =? 0) (mult 1260000) never 6930000 A') as A.
  clear A'. rewrite count_never, count_zero, count_mult_1260000, m1260000, nz6930000 in A.
  apply (proj1 (N.add_cancel_r _ _ 1)). rewrite A. reflexivity.
Qed.

Lemma count_epic : count_below (height_rarity_is R_EPIC) 6930000 = 27.
Proof.
  assert (A' : forall h : N, ind (height_rarity_is R_EPIC h) + ind (mult 1260000 h) = ind (mult 210000 h) + ind (never h))
    by (intros h; ind_cases h).
  pose proof (count_add_rule (height_rarity_is R_EPIC) (mult 1260000) (mult 210000) never 6930000 A') as A.
  clear A'. rewrite count_never, count_mult_210000, count_mult_1260000, m1260000, m210000 in A.
  apply (proj1 (N.add_cancel_r _ _ 6)). rewrite A. reflexivity.
Qed.

Lemma count_rare : count_below (height_rarity_is R_RARE) 6930000 = 3432.
Proof.
  assert (A' : forall h : N, ind (height_rarity_is R_RARE h) + ind (mult 1260000 h) = ind (mult 2016 h) + ind (never h))
    by (intros h; ind_cases h).
  pose proof (count_add_rule (height_rarity_is R_RARE) (mult 1260000) (mult 2016) never 6930000 A') as A.
  clear A'. rewrite count_never, count_mult_2016, count_mult_1260000, m1260000, m2016 in A.
  apply (proj1 (N.add_cancel_r _ _ 6)). rewrite A. reflexivity.
Qed.

Lemma count_always : forall b, count_below always b = b.
Proof. intros b. unfold count_below, always, ind. rewrite sum_below_const. lia. Qed.

(* uncommon + epic + multiples of 2016 = all heights *)
Lemma count_uncommon : count_below (height_rarity_is R_UNCOMMON) 6930000 = 6926535.
Proof.
  assert (A' : forall h : N, ind (height_rarity_is R_UNCOMMON h) + ind (height_rarity_is R_EPIC h) + ind (mult 2016 h) = ind (always h))
    by (intros h; ind_cases h).
  assert (A : count_below (height_rarity_is R_UNCOMMON) 6930000 + count_below (height_rarity_is R_EPIC) 6930000
              + count_below (mult 2016) 6930000 = count_below always 6930000).
  { unfold count_below. rewrite <- !sum_below_add. apply sum_below_ext. intros h _. apply A'. }
  clear A'. rewrite count_epic, count_mult_2016, m2016, count_always in A.
  apply (proj1 (N.add_cancel_r _ _ (27 + 3438))). rewrite N.add_assoc. rewrite A. reflexivity.
Qed.

Lemma count_common_heights : count_below (height_rarity_is R_COMMON) 6930000 = 0.
Proof.
  transitivity (count_below never 6930000); [|apply count_never].
  unfold count_below. apply sum_below_ext. intros h _.
  unfold height_rarity_is, never. rewrite rarity_spec_common. reflexivity.
Qed.

(* the Rarity::supply table equals the counts *)
Lemma rarity_supply_counts : forall r, r < 6 ->
  count_below (rarity_is r) SAT_SUPPLY = nth (N.to_nat r) RARITY_SUPPLY 0.
Proof.
  intros r Hr. rewrite count_rarity_blocks.
  assert (C : r = 0 \/ r = 1 \/ r = 2 \/ r = 3 \/ r = 4 \/ r = 5) by lia.
  destruct C as [->|[->|[->|[->|[->| ->]]]]].
  - change 0 with R_COMMON at 1. rewrite count_common_heights. reflexivity.
  - change 1 with R_UNCOMMON at 1. rewrite count_uncommon. reflexivity.
  - change 2 with R_RARE at 1. rewrite count_rare. reflexivity.
  - change 3 with R_EPIC at 1. rewrite count_epic. reflexivity.
  - change 4 with R_LEGENDARY at 1. rewrite count_legendary. reflexivity.
  - change 5 with R_MYTHIC at 1. rewrite count_mythic. reflexivity.
Qed.
