(* Lemmas about the spaced-rune model (C32): print then parse keeps the rune and the
   spacers below the last letter. *)
From OrdV Require Import Base.Prelude Generated Ord.Rune Proofs.Rune_proofs.
Require Import ZifyBool ZifyN.
Ltac Zify.zify_post_hook ::= Z.div_mod_to_equations.

Lemma land_ones_step_set sp i : N.testbit sp i = true ->
  N.lor (N.land sp (N.ones i)) (2 ^ i) = N.land sp (N.ones (i + 1)).
Proof.
  intro H. apply N.bits_inj. intro j.
  rewrite N.lor_spec, !N.land_spec, N.pow2_bits_eqb.
  destruct (N.ltb_spec j i) as [A|A].
  - rewrite !N.ones_spec_low by lia. destruct (N.eqb_spec i j); [lia|]. rewrite orb_false_r. reflexivity.
  - rewrite (N.ones_spec_high i j) by lia. rewrite andb_false_r. cbn [orb].
    destruct (N.eqb_spec i j) as [->|NE].
    + rewrite N.ones_spec_low by lia. rewrite H. reflexivity.
    + rewrite N.ones_spec_high by lia. rewrite andb_false_r. reflexivity.
Qed.

Lemma land_ones_step_clear sp i : N.testbit sp i = false ->
  N.land sp (N.ones i) = N.land sp (N.ones (i + 1)).
Proof.
  intro H. apply N.bits_inj. intro j. rewrite !N.land_spec.
  destruct (N.ltb_spec j i) as [A|A].
  - rewrite !N.ones_spec_low by lia. reflexivity.
  - rewrite (N.ones_spec_high i j) by lia. destruct (N.eqb_spec i j) as [->|NE].
    + rewrite H. reflexivity.
    + rewrite N.ones_spec_high by lia. reflexivity.
Qed.

Lemma land_ones_bit_high sp i k : k <= i -> N.testbit (N.land sp (N.ones k)) i = false.
Proof. intro H. rewrite N.land_spec, N.ones_spec_high by lia. apply andb_false_r. Qed.

Lemma sp_loop_show sp L : L <= 32 -> forall cs i rune,
  Forall (fun c => is_upper c = true) cs -> i + N.of_nat (length cs) = L ->
  sp_loop (spaced_show_from i L sp cs) rune i (N.land sp (N.ones (N.min i (L - 1)))) =
    Ok (rev rune ++ cs, L, N.land sp (N.ones (L - 1))).
Proof.
  intros HL. induction cs as [|c r IH]; intros i rune Hu Hi.
  - cbn [length] in Hi. cbn [spaced_show_from sp_loop]. rewrite app_nil_r.
    replace (N.min i (L - 1)) with (L - 1) by lia. replace i with L by lia. reflexivity.
  - pose proof (Forall_inv Hu) as Hc. pose proof (Forall_inv_tail Hu) as Hr. cbn beta in Hc.
    cbn [length] in Hi. rewrite Nat2N.inj_succ in Hi.
    cbn [spaced_show_from]. cbn [sp_loop]. rewrite Hc.
    assert (Hrev : rev (c :: rune) ++ r = rev rune ++ c :: r) by (cbn [rev]; rewrite <- app_assoc; reflexivity).
    destruct (N.ltb_spec i (L - 1)) as [Hlt|Hge]; cbn [andb].
    + destruct (N.testbit sp i) eqn:Hb.
      * cbn [app sp_loop]. change (is_upper BULLET) with false. cbv iota.
        change ((BULLET =? DOT) || (BULLET =? BULLET)) with true. cbv iota.
        destruct (N.eqb_spec (i + 1) 0) as [E|_]; [lia|].
        replace (i + 1 - 1) with i by lia.
        destruct (N.leb_spec 32 i) as [E|_]; [lia|].
        replace (N.min i (L - 1)) with i by lia.
        rewrite land_ones_bit_high by lia.
        rewrite land_ones_step_set by exact Hb.
        rewrite <- Hrev. specialize (IH (i + 1) (c :: rune) Hr ltac:(lia)).
        replace (N.min (i + 1) (L - 1)) with (i + 1) in IH by lia. exact IH.
      * cbn [app]. replace (N.min i (L - 1)) with i by lia.
        rewrite land_ones_step_clear by exact Hb.
        rewrite <- Hrev. specialize (IH (i + 1) (c :: rune) Hr ltac:(lia)).
        replace (N.min (i + 1) (L - 1)) with (i + 1) in IH by lia. exact IH.
    + cbn [app]. replace (N.min i (L - 1)) with (N.min (i + 1) (L - 1)) by lia.
      rewrite <- Hrev. apply IH; [exact Hr|lia].
Qed.

Lemma size_lt_of_lt_pow x k : x < 2 ^ k -> N.size x <= k.
Proof.
  intro H. destruct (N.le_gt_cases (N.size x) k) as [|G]; [assumption|exfalso].
  pose proof (N.size_le x) as A. rewrite N.succ_double_spec in A.
  assert (B : 2 ^ (k + 1) <= 2 ^ N.size x) by (apply N.pow_le_mono_r; lia).
  rewrite N.add_1_r, N.pow_succ_r' in B. lia.
Qed.

Lemma spaced_roundtrip n sp : n < P128 ->
  let L := N.of_nat (length (show n)) in
  spaced_parse (spaced_show n sp) = Ok (n, N.land sp (N.ones (L - 1))).
Proof.
  intros H L. unfold spaced_parse, spaced_show. fold L.
  pose proof (show_length_le_28 n H) as H28.
  assert (HL : L <= 32) by (unfold L; lia).
  pose proof (sp_loop_show sp L HL (show n) 0 [] (show_upper n H)) as A.
  replace (N.min 0 (L - 1)) with 0 in A by lia. change (N.ones 0) with 0 in A.
  rewrite N.land_0_r in A. rewrite A by (unfold L; lia).
  cbn [bind rev app].
  assert (Hpos : 1 <= L).
  { unfold L. pose proof (show_nonempty n H). destruct (show n); [congruence|cbn [length]; lia]. }
  assert (Hs : N.land sp (N.ones (L - 1)) < 2 ^ (L - 1)).
  { rewrite N.land_ones. apply N.mod_lt. apply N.pow_nonzero. lia. }
  apply size_lt_of_lt_pow in Hs.
  destruct (N.leb_spec L (N.size (N.land sp (N.ones (L - 1))))) as [E|_]; [lia|].
  rewrite parse_show by exact H. reflexivity.
Qed.

(* spacers above the last letter are dropped, the others are kept bit for bit *)
Lemma kept_spacers_bits sp L j :
  N.testbit (N.land sp (N.ones (L - 1))) j = N.testbit sp j && (j <? L - 1).
Proof.
  rewrite N.land_spec. destruct (N.ltb_spec j (L - 1)).
  - rewrite N.ones_spec_low by lia. reflexivity.
  - rewrite N.ones_spec_high by lia. reflexivity.
Qed.

(* spaced_parse is total *)
Lemma sp_loop_total : forall s rune len sp t, sp_loop s rune len sp <> Panic t.
Proof.
  induction s as [|c r IH]; intros rune len sp t; cbn [sp_loop]; [discriminate|].
  destruct (is_upper c); [apply IH|].
  destruct ((c =? DOT) || (c =? BULLET)); [|discriminate].
  destruct (len =? 0); [discriminate|]. destruct (32 <=? len - 1); [discriminate|].
  destruct (N.testbit sp (len - 1)); [discriminate|apply IH].
Qed.

Lemma spaced_parse_total s t : spaced_parse s <> Panic t.
Proof.
  unfold spaced_parse. destruct (sp_loop s [] 0 0) as [[[rune len] sp]|e|t'] eqn:E; cbn [bind].
  - destruct (len <=? N.size sp); [discriminate|].
    destruct (parse rune) as [n|e|t'] eqn:P; cbn [bind]; try discriminate.
    exfalso. exact (parse_total _ _ P).
  - discriminate.
  - exfalso. exact (sp_loop_total _ _ _ _ _ E).
Qed.
