(* The indexer facts (I1)-(I3) that Properties/C21.v assumes about reveal transactions, as corollaries of the
   inscription indexer model (C03 / C05), at the level of one non-coinbase transaction:
   floating_of = the flotsam the transaction produces (old inscriptions of its inputs + new ones of its envelopes),
   assign = their distribution over the outputs.  What update_inscription_location then does with a location
   is C03_new_inscription / C04 (the (sequence number, offset) pair is pushed under that outpoint). *)
From OrdV Require Import Base.Prelude Generated Index.Inscr Proofs.Inscr_tables Proofs.Inscr_proofs
  Proofs.Inscr_c04 Proofs.Inscr_c03 Proofs.Inscr_ids Proofs.Inscr_satinv.
From OrdV Require Wallet.Batch Proofs.Batch_proofs.
From Coq Require Import Permutation.

(* [locate] of C21 on the output values = the output interval of C03's [located] *)
Lemma locate_spec : forall outs k o p,
  nth_error outs k = Some o ->
  sum_values (firstn k outs) <= p < sum_values (firstn k outs) + o_value o ->
  Batch.locate (map o_value outs) p = Some (N.of_nat k, p - sum_values (firstn k outs)).
Proof.
  intros outs. induction outs as [|o0 r IH]; intros k o p Hk Hp; [destruct k; discriminate|].
  destruct k as [|k'].
  - cbn in Hk. inv Hk. cbn in Hp. cbn [map Batch.locate]. destruct (N.ltb_spec p (o_value o)); [|lia].
    cbn. f_equal. f_equal. lia.
  - cbn [nth_error] in Hk. cbn [firstn sum_values fold_right] in Hp. fold (sum_values (firstn k' r)) in Hp.
    cbn [map Batch.locate]. destruct (N.ltb_spec p (o_value o0)); [lia|].
    rewrite (IH k' o (p - o_value o0) Hk) by lia.
    cbn [firstn sum_values fold_right]. fold (sum_values (firstn k' r)). f_equal. f_equal; lia.
Qed.

Lemma span_input_incl : forall idx l mine rest, span_input idx l = (mine, rest) -> incl mine l /\ incl rest l.
Proof.
  intros idx l. induction l as [|v r IH]; intros mine rest H; cbn [span_input] in H.
  - inv H. split; intros x [].
  - destruct (v_input v =? idx).
    + destruct (span_input idx r) as [a b] eqn:E. inv H. destruct (IH _ _ eq_refl) as [A B]. split.
      * intros x [Hx|Hx]; [left; auto | right; auto].
      * intros x Hx. right. auto.
    + inv H. split; [intros x []|apply incl_refl].
Qed.

(* where a new inscription floats: on its pointer when that is below the total output value, else on the first
   offset of the input its envelope is in *)
Lemma inputs_loop_new_src : forall cfg st txid height jubilant tov ins idx pre cur envs a a',
  length pre = N.to_nat idx -> length cur = length ins ->
  forallb (fun p => negb (is_null p)) ins = true ->
  inputs_loop cfg st txid height jubilant tov ins idx (pre ++ cur) envs a = Ok a' ->
  forall f, In f (a_float a') -> is_new f = true ->
    In f (a_float a) \/
    exists i v, (i < length cur)%nat /\ In v envs /\
      match v_ptr v with
      | Some p => f_offset f = if p <? tov then p else in_start cfg (a_tiv a) cur i
      | None => f_offset f = in_start cfg (a_tiv a) cur i
      end.
Proof.
  intros cfg st txid height jubilant tov ins. induction ins as [|prev r IH]; intros idx pre cur envs a a' L1 L2 NN H; cbn [inputs_loop] in H.
  - inv H. auto.
  - cbn [forallb] in NN. apply andb_true_iff in NN. destruct NN as [N1 N2].
    destruct (is_null prev); [discriminate|]. destruct cur as [|u cur']; [discriminate|].
    assert (Hn : nth_error (pre ++ u :: cur') (N.to_nat idx) = Some u).
    { rewrite nth_error_app2 by lia. rewrite <- L1, Nat.sub_diag. reflexivity. }
    rewrite Hn in H. dbind H. destruct a0 as [fl io]. destruct (span_input idx envs) as [mine rest] eqn:ES.
    destruct (span_input_incl _ _ _ _ ES) as [IM IR].
    dbind H. rename a0 into a1.
    replace (pre ++ u :: cur') with ((pre ++ [u]) ++ cur') in H by (rewrite <- app_assoc; reflexivity).
    assert (Q := IH (idx + 1) (pre ++ [u]) cur' rest a1 a').
    assert (Q1 : length (pre ++ [u]) = N.to_nat (idx + 1)) by (rewrite app_length; cbn; lia).
    assert (Q2 : length cur' = length r) by (cbn in L2; lia).
    specialize (Q Q1 Q2 N2 H).
    destruct (news_offsets _ _ _ _ _ _ _ _ _ E0) as [T1 Hnews]. cbn [a_tiv a_float] in *.
    intros f Hf Hnew. destruct (Q f Hf Hnew) as [Hin|(i & v & A & B & C)].
    + destruct (Hnews f Hin) as [Hin2|(_ & _ & v & V1 & V2 & _)].
      * destruct (olds_offsets _ _ _ _ _ _ _ E f Hin2) as [Hin3|(s & off & _ & B & _)]; auto.
        unfold is_new in Hnew. rewrite B in Hnew. discriminate.
      * right. exists 0%nat, v. split; [cbn; lia|]. split; [apply IM; exact V1|].
        unfold in_start. cbn [firstn fold_right]. rewrite N.add_0_r. exact V2.
    + right. exists (S i), v. split; [cbn; lia|]. split; [apply IR; exact B|].
      rewrite T1 in C. unfold in_start in *. cbn [firstn fold_right].
      replace (a_tiv a + (total_value cfg u + fold_right (fun u0 a0 => total_value cfg u0 + a0) 0 (firstn i cur')))
        with (a_tiv a + total_value cfg u + fold_right (fun u0 a0 => total_value cfg u0 + a0) 0 (firstn i cur')) by lia.
      exact C.
Qed.

Section C21.
Variable cfg : config.

(* (I1) the inscriptions a transaction reveals get the ids (txid, 0), (txid, 1), ... in envelope order, one per
   envelope *)
Definition I1_statement : Prop := forall st h t ents F tiv,
  tx_plain t -> length ents = length (t_ins t) -> envs_ok t ->
  floating_of cfg st h t ents = Ok (F, tiv) ->
  new_ids F = ids_from (t_id t) (length (t_envs t)).

Theorem indexer_I1 : I1_statement.
Proof.
  intros st h t ents F tiv HP HL HE H. rewrite (ids_in_order _ _ _ _ _ _ _ H).
  rewrite (ids_count _ _ _ _ _ _ _ HP HL HE H). reflexivity.
Qed.

(* the common part of (I2) and (I3): a floating inscription whose offset q in the transaction is below the total
   output value is handed to update_inscription_location with the satpoint (txid, k):off where
   (k, off) = locate (output values) q *)
Definition located_statement : Prop := forall txid outs fl locs rest ov f,
  assign txid 0 0 outs (sort_by f_offset fl) = (locs, rest, ov) ->
  In f fl -> f_offset f < sum_values outs ->
  exists loc k off, In loc locs /\ loc_flot loc = f /\
    Batch.locate (map o_value outs) (f_offset f) = Some (k, off) /\
    fst (fst (fst loc)) = (txid, k) /\ snd (fst (fst loc)) = off.

Theorem indexer_located : located_statement.
Proof.
  intros txid outs fl locs rest ov f H Hf Hlt.
  destruct (assign_spec txid outs 0 0 (sort_by f_offset fl) locs rest ov) as (A & B & C); auto.
  { apply sort_by_sorted. }
  { apply Forall_forall. intros. lia. }
  pose proof (assign_split _ _ _ _ _ _ _ _ H) as SP.
  assert (Hin : In f (map loc_flot locs ++ rest)).
  { rewrite <- SP. eapply Permutation_in; [apply Permutation_sym, sort_by_perm|]. exact Hf. }
  apply in_app_or in Hin. destruct Hin as [Hin|Hin].
  2:{ rewrite Forall_forall in B. specialize (B f Hin). lia. }
  apply in_map_iff in Hin. destruct Hin as (loc & L1 & L2).
  rewrite Forall_forall in C. destruct (C loc L2) as (k & o & K1 & K2 & K3 & K4 & _).
  unfold out_start in *. rewrite N.add_0_l in *. rewrite L1 in *.
  exists loc, (N.of_nat k), (f_offset f - sum_values (firstn k outs)). split; auto. split; auto. split.
  - apply (locate_spec outs k o); auto.
  - split; auto.
Qed.

(* (I2) a new inscription floats on its pointer p when p is below the total output value (and otherwise on the first
   offset of its envelope's input) *)
Definition I2_statement : Prop := forall st h t ents F tiv,
  tx_plain t -> length ents = length (t_ins t) ->
  floating_of cfg st h t ents = Ok (F, tiv) ->
  forall f, In f F -> is_new f = true ->
    exists i v, (i < length ents)%nat /\ In v (t_envs t) /\
      match v_ptr v with
      | Some p => f_offset f = if p <? sum_values (t_outs t) then p else in_start cfg 0 ents i
      | None => f_offset f = in_start cfg 0 ents i
      end.

Theorem indexer_I2 : I2_statement.
Proof.
  intros st h t ents F tiv HP HL H f Hf Hn. unfold floating_of in H. dbind H. dbind H. inv H.
  apply in_map_iff in Hf. destruct Hf as (g & G1 & G2). subst f.
  assert (Hg : is_new g = true /\ f_offset g = f_offset (fix_new (map f_id (a_float a)) a0 g)).
  { revert Hn. unfold fix_new, is_new. destruct (f_origin g) eqn:Q; cbn [f_origin f_offset]; [auto|].
    rewrite ?Q. intro; discriminate. }
  destruct Hg as [Hg1 Hg2].
  destruct (inputs_loop_new_src _ _ _ _ _ _ _ 0 [] ents _ _ _ eq_refl HL HP E g G2 Hg1) as [[]|(i & v & A & B & C)].
  exists i, v. split; auto. split; auto. rewrite <- Hg2. exact C.
Qed.

(* (I3) an inscription sitting at offset off of input i floats at (value of the earlier inputs) + off *)
Definition I3_statement : Prop := forall st h t ents F tiv,
  tx_plain t -> length ents = length (t_ins t) ->
  floating_of cfg st h t ents = Ok (F, tiv) ->
  forall f seq, In f F -> f_origin f = OOld seq ->
    exists i u off, nth_error ents i = Some u /\ In (seq, off) (u_insc u) /\ f_offset f = in_start cfg 0 ents i + off.

Theorem indexer_I3 : I3_statement.
Proof. intros st h t ents F tiv HP HL H. exact (proj2 (floating_of_old_src _ _ _ _ _ _ _ HP HL H)). Qed.
End C21.

(* ---- the planner's half (C21_reported_is_located) composed with the indexer's: in a transaction whose output
   values are those of the reveal transaction of an accepted batch, a floating inscription whose offset is the
   pointer the planner wrote for inscription i is handed to update_inscription_location with exactly the
   (vout, offset) that Plan::output reports for inscription i. *)
Lemma locate_lt : forall outs p r, Batch.locate outs p = Some r -> p < Batch.sum outs.
Proof.
  intros outs. induction outs as [|v l IH]; intros p r H; cbn [Batch.locate] in H; [discriminate|].
  cbn [Batch.sum]. destruct (N.ltb_spec p v); [lia|].
  destruct (Batch.locate l (p - v)) as [[k o]|] eqn:E; [|discriminate]. apply IH in E. lia.
Qed.

Lemma sum_values_sum : forall outs, sum_values outs = Batch.sum (map o_value outs).
Proof. intro outs. induction outs as [|o r IH]; cbn; [reflexivity|]. unfold sum_values in IH. rewrite IH. reflexivity. Qed.

Definition reveal_statement : Prop := forall (b : Batch.Batch) txid outs fl locs rest ov f i,
  Batch.BatchOK b -> map o_value outs = Batch.reveal_outputs b ->
  nth_error (Batch.pointers b) i = Some (f_offset f) -> In f fl ->
  assign txid 0 0 outs (sort_by f_offset fl) = (locs, rest, ov) ->
  exists loc vo off, nth_error (Batch.reported b) i = Some (vo, off) /\ In loc locs /\ loc_flot loc = f /\
    fst (fst (fst loc)) = (txid, vo) /\ snd (fst (fst loc)) = off.

Theorem reveal_located : reveal_statement.
Proof.
  intros b txid outs fl locs rest ov f i HOK HO HP Hf HA.
  pose proof (Batch_proofs.reported_is_located b HOK) as R.
  pose proof (map_nth_error (Batch.locate (Batch.reveal_outputs b)) i (Batch.pointers b) HP) as Q. rewrite R in Q.
  destruct (nth_error (Batch.reported b) i) as [[vo off]|] eqn:ER.
  2:{ apply nth_error_None in ER. assert (nth_error (map Some (Batch.reported b)) i = None) by (apply nth_error_None; rewrite map_length; exact ER). congruence. }
  rewrite (map_nth_error Some i (Batch.reported b) ER) in Q. inv Q. rename H0 into Q. symmetry in Q.
  assert (Hlt : f_offset f < sum_values outs).
  { rewrite sum_values_sum, HO. eapply locate_lt; eauto. }
  destruct (indexer_located txid outs fl locs rest ov f HA Hf Hlt) as (loc & k & o & A & B & C & D & E).
  rewrite HO, Q in C. injection C as C1 C2. subst k o. exists loc, vo, off. auto.
Qed.
