From OrdV Require Import Base.Prelude Codec.Varint Proofs.Bits.
Require Import ZifyBool ZifyN.
Ltac Zify.zify_post_hook ::= Z.div_mod_to_equations.

(* ---------- arithmetic reading of encode ---------- *)

Lemma encode_fuel_small f n : n < 128 -> encode_fuel f n = [n].
Proof.
  intros H. destruct f; cbn [encode_fuel]; rewrite ?shiftr_7, land_255.
  - f_equal. rewrite N.mod_small; lia.
  - replace (n / 128) with 0 by (symmetry; apply N.div_small; lia).
    rewrite N.ltb_irrefl. f_equal. rewrite N.mod_small; lia.
Qed.

Lemma encode_fuel_big f n : 128 <= n ->
  encode_fuel (S f) n = (n mod 128 + 128) :: encode_fuel f (n / 128).
Proof.
  intros H. cbn [encode_fuel]. rewrite shiftr_7, land_255.
  assert (0 < n / 128) by (apply N.div_str_pos; lia).
  destruct (N.ltb_spec 0 (n / 128)); [|lia].
  f_equal. rewrite lor_128_low by (apply N.mod_lt; lia).
  f_equal. change 256 with (128 * 2). rewrite N.mod_mul_r by lia. 
  rewrite N.mul_comm, N.mod_add by lia. apply N.mod_mod; lia.
Qed.

(* group value: little-endian base-128 digits (low 7 bits of each byte) *)
Fixpoint group_value (l : list N) : N :=
  match l with
  | [] => 0
  | b :: r => b mod 128 + 128 * group_value r
  end.

Definition cont (b : N) : Prop := N.land b 128 <> 0.
Definition term (b : N) : Prop := N.land b 128 = 0.

Lemma size_div n : 128 <= n -> (N.to_nat (N.size (n / 128)) < N.to_nat (N.size n))%nat.
Proof.
  intros H.
  assert (0 < n / 128) by (apply N.div_str_pos; lia).
  rewrite !N.size_log2 by lia.
  assert (N.log2 (n / 128) < N.log2 n); [|lia].
  change 128 with (2 ^ 7). rewrite <- N.shiftr_div_pow2, N.log2_shiftr.
  assert (7 <= N.log2 n); [|lia].
  change 7 with (N.log2 128). apply N.log2_le_mono. exact H.
Qed.

(* encode with any sufficient fuel *)
Lemma encode_fuel_indep f1 : forall f2 n,
  (N.to_nat (N.size n) <= f1)%nat -> (N.to_nat (N.size n) <= f2)%nat ->
  encode_fuel f1 n = encode_fuel f2 n.
Proof.
  induction f1 as [|f1 IH]; intros f2 n H1 H2.
  - assert (n = 0) as ->. { destruct n; [reflexivity|]. cbn in H1. lia. }
    rewrite !encode_fuel_small by lia. reflexivity.
  - destruct (N.ltb_spec n 128) as [Hs|Hb].
    + rewrite !encode_fuel_small by assumption. reflexivity.
    + pose proof (size_div n Hb) as Hd.
      destruct f2 as [|f2]; [lia|].
      rewrite !encode_fuel_big by assumption. f_equal.
      apply IH; lia.
Qed.

Lemma encode_fuel_enough f n : (N.to_nat (N.size n) <= f)%nat ->
  encode_fuel f n = encode n.
Proof. intros H. unfold encode. apply encode_fuel_indep; lia. Qed.

Lemma encode_small n : n < 128 -> encode n = [n].
Proof. intros. unfold encode. apply encode_fuel_small; assumption. Qed.

Lemma encode_big n : 128 <= n -> encode n = (n mod 128 + 128) :: encode (n / 128).
Proof.
  intros H. unfold encode at 1.
  pose proof (size_div n H).
  destruct (N.to_nat (N.size n)) as [|m] eqn:Em; [lia|].
  rewrite encode_fuel_big by assumption. f_equal. apply encode_fuel_enough. lia.
Qed.

(* strong induction principle on n by division by 128 *)
Lemma div128_ind (P : N -> Prop) :
  (forall n, n < 128 -> P n) ->
  (forall n, 128 <= n -> P (n / 128) -> P n) ->
  forall n, P n.
Proof.
  intros Hs Hb n.
  induction n as [n IH] using (well_founded_induction N.lt_wf_0).
  destruct (N.ltb_spec n 128); [apply Hs; assumption|].
  apply Hb; [assumption|]. apply IH. apply N.div_lt; lia.
Qed.

Lemma encode_value n : group_value (encode n) = n.
Proof.
  induction n as [n Hs|n Hb IH] using div128_ind.
  - rewrite encode_small by assumption. cbn [group_value]. rewrite N.mod_small; lia.
  - rewrite encode_big by assumption. cbn [group_value]. rewrite IH.
    assert ((n mod 128 + 128) mod 128 = n mod 128) as ->.
    { rewrite <- N.add_mod_idemp_r by lia. rewrite N.mod_same by lia.
      rewrite N.add_0_r. apply N.mod_mod. lia. }
    pose proof (N.div_mod n 128). lia.
Qed.

Lemma encode_length_bound n k : n < 2 ^ (7 * N.of_nat k) -> (0 < k)%nat -> (length (encode n) <= k)%nat.
Proof.
  revert k.
  induction n as [n Hs|n Hb IH] using div128_ind; intros k Hn Hk.
  - rewrite encode_small by assumption. cbn. lia.
  - rewrite encode_big by assumption. cbn [length].
    destruct k as [|[|k]]; [lia| |].
    + change (2 ^ (7 * N.of_nat 1)) with 128 in Hn. lia.
    + assert (length (encode (n / 128)) <= S k)%nat; [|lia].
      apply IH; [|lia].
      replace (7 * N.of_nat (S (S k))) with (7 + 7 * N.of_nat (S k)) in Hn by lia.
      rewrite N.pow_add_r in Hn. change (2 ^ 7) with 128 in Hn.
      apply N.div_lt_upper_bound; lia.
Qed.

Lemma encode_length_19 n : n < P128 -> (length (encode n) <= 19)%nat.
Proof.
  intros H. apply encode_length_bound; [|lia].
  eapply N.lt_le_trans; [exact H|]. vm_compute. discriminate.
Qed.

Lemma encode_nonempty n : (1 <= length (encode n))%nat.
Proof.
  destruct (N.ltb_spec n 128).
  - rewrite encode_small by assumption. cbn. lia.
  - rewrite encode_big by assumption. cbn. lia.
Qed.

(* ---------- decode ---------- *)

Lemma decode_from_step i n byte rest :
  decode_from i n (byte :: rest) =
    if N.ltb 18 i then inl Overlong else
    let value := N.land byte 127 in
    if andb (N.eqb i 18) (negb (N.eqb (N.land value 124) 0)) then inl Overflow else
    let n' := N.lor n (N.shiftl value (7 * i)) in
    if N.eqb (N.land byte 128) 0 then inr (n', i + 1)
    else decode_from (i + 1) n' rest.
Proof. reflexivity. Qed.

Lemma land_124_small v : v < 4 -> N.land v 124 = 0.
Proof.
  intros H. apply N.eqb_eq.
  assert (H' : implb (v <? 4) (N.land v 124 =? 0) = true).
  { apply (byte_sweep (fun v => implb (v <? 4) (N.land v 124 =? 0))); [vm_compute; reflexivity|lia]. }
  destruct (N.ltb_spec v 4); [exact H'|lia].
Qed.

Lemma land_124_zero v : v < 128 -> N.land v 124 = 0 -> v < 4.
Proof.
  intros H H0.
  assert (Hs: implb (v <? 128) (implb (N.land v 124 =? 0) (v <? 4)) = true).
  { apply (byte_sweep (fun v => implb (v <? 128) (implb (N.land v 124 =? 0) (v <? 4)))); [vm_compute; reflexivity|lia]. }
  destruct (N.ltb_spec v 128); [|lia]. cbn [implb] in Hs.
  rewrite H0 in Hs. rewrite N.eqb_refl in Hs. cbn [implb] in Hs.
  destruct (N.ltb_spec v 4); [assumption|discriminate].
Qed.

Lemma pow7_split i : 2 ^ (7 * (i + 1)) = 128 * 2 ^ (7 * i).
Proof. replace (7 * (i + 1)) with (7 + 7 * i) by lia. rewrite N.pow_add_r. reflexivity. Qed.

(* Round trip, generalised over position and accumulator. *)
Lemma decode_from_encode : forall n i acc rest,
  acc < 2 ^ (7 * i) -> n * 2 ^ (7 * i) < P128 -> i <= 18 ->
  decode_from i acc (encode n ++ rest) =
    inr (acc + n * 2 ^ (7 * i), i + N.of_nat (length (encode n))).
Proof.
  induction n as [n Hs|n Hb IH] using div128_ind; intros i acc rest Hacc Hn Hi.
  - rewrite encode_small by assumption. cbn [app length].
    rewrite decode_from_step.
    destruct (N.ltb_spec 18 i); [lia|].
    cbv zeta. rewrite land_127, (N.mod_small n 128) by lia.
    assert (Hov: andb (N.eqb i 18) (negb (N.eqb (N.land n 124) 0)) = false).
    { destruct (N.eqb_spec i 18) as [->|]; [|reflexivity]. cbn [andb].
      assert (n < 4).
      { change P128 with (4 * 2 ^ (7 * 18)) in Hn.
        assert (0 < 2 ^ (7 * 18)) by (vm_compute; reflexivity). nia. }
      rewrite land_124_small by assumption. reflexivity. }
    rewrite Hov.
    rewrite land_128_spec by lia.
    destruct (N.ltb_spec n 128); [|lia].
    rewrite lor_shiftl_add by assumption. repeat f_equal; try lia.
  - rewrite encode_big by assumption. cbn [app length].
    rewrite decode_from_step.
    assert (Hpos: 0 < 2 ^ (7 * i)) by (apply N.neq_0_lt_0, N.pow_nonzero; lia).
    assert (Hi17: i <= 17).
    { destruct (N.leb_spec i 17); [assumption|]. assert (i = 18) as -> by lia.
      change P128 with (4 * 2 ^ (7 * 18)) in Hn. nia. }
    destruct (N.ltb_spec 18 i); [lia|].
    cbv zeta.
    assert (Hm: n mod 128 < 128) by (apply N.mod_lt; lia).
    rewrite land_127.
    assert (Hmm: (n mod 128 + 128) mod 128 = n mod 128).
    { rewrite <- N.add_mod_idemp_r by lia. rewrite N.mod_same by lia.
      rewrite N.add_0_r. apply N.mod_mod. lia. }
    rewrite Hmm.
    destruct (N.eqb_spec i 18); [lia|]. cbn [andb].
    rewrite land_128_spec by lia.
    destruct (N.ltb_spec (n mod 128 + 128) 128); [lia|].
    rewrite lor_shiftl_add by assumption.
    rewrite IH.
    + f_equal. f_equal; [|lia]. rewrite pow7_split.
      pose proof (N.div_mod n 128). nia.
    + rewrite pow7_split. nia.
    + rewrite pow7_split. pose proof (N.div_mod n 128).
      assert (n / 128 * (128 * 2 ^ (7 * i)) <= n * 2 ^ (7 * i)); [nia|lia].
    + lia.
Qed.

Theorem decode_encode n rest : n < P128 ->
  decode (encode n ++ rest) = inr (n, N.of_nat (length (encode n))).
Proof.
  intros H. unfold decode. rewrite decode_from_encode.
  - f_equal. f_equal. change (2 ^ (7 * 0)) with 1. lia.
  - change (2 ^ (7 * 0)) with 1. lia.
  - change (2 ^ (7 * 0)) with 1. lia.
  - lia.
Qed.

(* Exactness: an Ok result is the value of the first terminated group. *)
Lemma decode_from_exact : forall bs i acc n k,
  acc < 2 ^ (7 * i) ->
  decode_from i acc bs = inr (n, k) ->
  exists j, k = i + N.of_nat j /\ (1 <= j)%nat /\ k <= 19 /\ (j <= length bs)%nat /\
    Forall cont (firstn (j - 1) bs) /\ term (nth (j - 1) bs 0) /\
    n = acc + group_value (firstn j bs) * 2 ^ (7 * i) /\
    n < 2 ^ (7 * k) /\ n < P128.
Proof.
  induction bs as [|byte rest IH]; intros i acc n k Hacc H; [discriminate|].
  rewrite decode_from_step in H.
  destruct (N.ltb_spec 18 i) as [|Hi]; [discriminate|].
  cbv zeta in H. rewrite land_127 in H.
  assert (Hm: byte mod 128 < 128) by (apply N.mod_lt; lia).
  assert (Hpos: 0 < 2 ^ (7 * i)) by (apply N.neq_0_lt_0, N.pow_nonzero; lia).
  destruct (andb (N.eqb i 18) (negb (N.eqb (N.land (byte mod 128) 124) 0))) eqn:Hov; [discriminate|].
  rewrite lor_shiftl_add in H by assumption.
  assert (Hbound: acc + byte mod 128 * 2 ^ (7 * i) < 2 ^ (7 * (i + 1))).
  { rewrite pow7_split. nia. }
  assert (H128: i = 18 -> acc + byte mod 128 * 2 ^ (7 * i) < P128).
  { intros ->. destruct (N.eqb_spec (N.land (byte mod 128) 124) 0) as [Hz|]; [|discriminate].
    apply land_124_zero in Hz; [|assumption].
    change P128 with (4 * 2 ^ (7 * 18)). nia. }
  destruct (N.eqb_spec (N.land byte 128) 0) as [Ht|Hc].
  - inversion H; subst n k. exists 1%nat. cbn [firstn nth Nat.sub length group_value].
    repeat split; try lia; try constructor; try assumption.
    destruct (N.eqb_spec i 18) as [->|]; [apply H128; reflexivity|].
    eapply N.lt_le_trans; [exact Hbound|].
    change P128 with (2 ^ 128). apply N.pow_le_mono_r; lia.
  - apply IH in H; [|assumption].
    destruct H as (j & Hk & Hj & Hk19 & Hlen & Hall & Hterm & Hn & Hnk & Hn128).
    exists (S j). 
    replace (S j - 1)%nat with (S (j - 1)) by lia.
    cbn [firstn nth length group_value].
    repeat split; try lia; try assumption.
    + constructor; assumption.
    + rewrite Hn, pow7_split. lia.
Qed.

Theorem decode_exact bs n k :
  decode bs = inr (n, k) ->
  exists j, k = N.of_nat j /\ (1 <= j <= 19)%nat /\ (j <= length bs)%nat /\
    Forall cont (firstn (j - 1) bs) /\ term (nth (j - 1) bs 0) /\
    n = group_value (firstn j bs) /\ n < P128.
Proof.
  unfold decode. intros H. apply decode_from_exact in H; [|vm_compute; reflexivity].
  destruct H as (j & Hk & Hj & Hk19 & Hlen & Hall & Hterm & Hn & _ & Hn128).
  exists j. change (2 ^ (7 * 0)) with 1 in Hn.
  repeat split; try lia; assumption.
Qed.

(* Error characterisation. *)
Lemma decode_from_errors : forall bs i acc e,
  i <= 19 ->
  decode_from i acc bs = inl e ->
  match e with
  | Unterminated => Forall cont bs /\ i + N.of_nat (length bs) <= 19
  | Overflow => exists j, i + N.of_nat j = 18 /\ (j < length bs)%nat /\
                  Forall cont (firstn j bs) /\ N.land (nth j bs 0 mod 128) 124 <> 0
  | Overlong => exists j, i + N.of_nat j = 19 /\ (j < length bs)%nat /\ Forall cont (firstn j bs)
  end.
Proof.
  induction bs as [|byte rest IH]; intros i acc e Hi H.
  - inversion H; subst e. split; [constructor|cbn; lia].
  - rewrite decode_from_step in H.
    destruct (N.ltb_spec 18 i) as [Hgt|Hle].
    { inversion H; subst e. exists 0%nat. cbn [firstn length]. repeat split; try lia. constructor. }
    cbv zeta in H. rewrite land_127 in H.
    destruct (N.eqb_spec i 18) as [->|Hne]; cbn [andb] in H.
    + destruct (N.eqb_spec (N.land (byte mod 128) 124) 0) as [Hz|Hnz]; cbn [negb] in H.
      * destruct (N.eqb_spec (N.land byte 128) 0) as [|Hc]; [discriminate|].
        apply IH in H; [|lia].
        destruct e.
        -- destruct H as (j & Hj & Hlen & Hall). exists (S j). cbn [length firstn].
           repeat split; try lia. constructor; assumption.
        -- destruct H as (j & Hj & _). lia.
        -- destruct H as [Hall Hlen]. split; [constructor; assumption|cbn [length]; lia].
      * inversion H; subst e. exists 0%nat. cbn [firstn nth length]. repeat split; try lia; try constructor; try assumption.
    + destruct (N.eqb_spec (N.land byte 128) 0) as [|Hc]; [discriminate|].
      apply IH in H; [|lia].
      destruct e.
      * destruct H as (j & Hj & Hlen & Hall). exists (S j). cbn [length firstn].
        repeat split; try lia. constructor; assumption.
      * destruct H as (j & Hj & Hlen & Hall & Hbad). exists (S j). cbn [length firstn nth].
        repeat split; try lia; try (constructor; assumption); try assumption.
      * destruct H as [Hall Hlen]. split; [constructor; assumption|cbn [length]; lia].
Qed.

Theorem decode_errors bs e :
  decode bs = inl e ->
  match e with
  | Unterminated => Forall cont bs /\ (length bs <= 19)%nat
  | Overflow => (18 < length bs)%nat /\ Forall cont (firstn 18 bs) /\
                N.land (nth 18 bs 0 mod 128) 124 <> 0
  | Overlong => (19 < length bs)%nat /\ Forall cont (firstn 19 bs)
  end.
Proof.
  unfold decode. intros H. apply decode_from_errors in H; [|lia].
  destruct e.
  - destruct H as (j & Hj & Hlen & Hall). assert (j = 19%nat) as -> by lia. split; assumption.
  - destruct H as (j & Hj & Hlen & Hall & Hbad). assert (j = 18%nat) as -> by lia.
    repeat split; assumption.
  - destruct H as [Hall Hlen]. split; [assumption|lia].
Qed.

(* Encoding output bytes are bytes, all but the last carry the continuation bit. *)
Lemma encode_bytes n : Forall (fun b => b < 256) (encode n).
Proof.
  induction n as [n Hs|n Hb IH] using div128_ind.
  - rewrite encode_small by assumption. constructor; [lia|constructor].
  - rewrite encode_big by assumption. constructor; [|assumption].
    assert (n mod 128 < 128) by (apply N.mod_lt; lia). lia.
Qed.
