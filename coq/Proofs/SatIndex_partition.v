(* C02: the partition invariant of the sat index and the lookups.
   Multisets of sats are compared through occurrence counts ([cnt]); the final statements are
   Permutations. *)
From OrdV Require Import Base.Prelude Generated Index.SatIndex Proofs.SatIndex_proofs.
From Coq Require Import ZifyBool ZifyN Permutation.
Ltac Zify.zify_post_hook ::= Z.div_mod_to_equations.

Definition cnt (l : list N) (x : N) : nat := count_occ N.eq_dec l x.

Lemma cnt_app : forall a b x, cnt (a ++ b) x = (cnt a x + cnt b x)%nat.
Proof. intros. unfold cnt. apply count_occ_app. Qed.

Lemma cnt_nil : forall x, cnt [] x = 0%nat.
Proof. reflexivity. Qed.

(* all sats held by real outputs *)
Definition usats (m : umap) : list N := flat_map (fun kv => flatten (snd kv)) m.
Definition all_sats (st : state) : list N := usats (utxo st) ++ flatten (lost st).

Definition nodupkeys {V} (m : list (outpoint * V)) : Prop := NoDup (map fst m).

Lemma usats_cons : forall k rs m, usats ((k, rs) :: m) = flatten rs ++ usats m.
Proof. reflexivity. Qed.

Lemma adel_keys_subset : forall {V} k k' (m : list (outpoint * V)),
  In k' (map fst (adel op_eqb k m)) -> In k' (map fst m) /\ k' <> k.
Proof.
  intros V k k' m. induction m as [|[k2 v] m IH]; cbn [adel map fst In]; [tauto|].
  destruct (op_eqb_spec k k2) as [E|E].
  - intros H. destruct (IH H). split; [right; assumption|assumption].
  - cbn [map fst In]. intros [H|H].
    + subst. split; [left; reflexivity|congruence].
    + destruct (IH H). split; [right; assumption|assumption].
Qed.

Lemma adel_nodup : forall {V} k (m : list (outpoint * V)), nodupkeys m -> nodupkeys (adel op_eqb k m).
Proof.
  intros V k m. unfold nodupkeys. induction m as [|[k2 v] m IH]; cbn [adel map fst]; intros H.
  - constructor.
  - inversion H as [|x l N1 N2]; subst. destruct (op_eqb k k2); [apply IH; assumption|].
    cbn [map fst]. constructor; [|apply IH; assumption].
    intros C. apply adel_keys_subset in C. tauto.
Qed.

Lemma aset_nodup : forall {V} k v (m : list (outpoint * V)), nodupkeys m -> nodupkeys (aset op_eqb k v m).
Proof.
  intros V k v m H. unfold aset, nodupkeys. cbn [map fst]. constructor.
  - intros C. apply adel_keys_subset in C. tauto.
  - apply adel_nodup. assumption.
Qed.

Lemma adel_absent : forall {V} k (m : list (outpoint * V)), aget op_eqb k m = None -> adel op_eqb k m = m.
Proof.
  intros V k m. induction m as [|[k2 v] m IH]; cbn [aget adel]; [reflexivity|].
  destruct (op_eqb k k2); [discriminate|]. intros H. rewrite IH by assumption. reflexivity.
Qed.

Lemma aget_in_keys : forall {V} k (m : list (outpoint * V)) v, aget op_eqb k m = Some v -> In k (map fst m).
Proof.
  intros V k m. induction m as [|[k2 v2] m IH]; cbn [aget map fst In]; [discriminate|].
  intros v. destruct (op_eqb_spec k k2); [left; congruence|]. intros H. right. eapply IH. eassumption.
Qed.

(* removing a key removes exactly the sats stored under it *)
Lemma usats_adel : forall k m rs x,
  nodupkeys m -> aget op_eqb k m = Some rs ->
  cnt (usats m) x = (cnt (flatten rs) x + cnt (usats (adel op_eqb k m)) x)%nat.
Proof.
  intros k m. induction m as [|[k2 v] m IH]; intros rs x ND H; cbn [aget adel] in *; [discriminate|].
  inversion ND as [|y l N1 N2]; subst.
  destruct (op_eqb_spec k k2) as [E|E].
  - inversion H; subst. rewrite usats_cons, cnt_app. f_equal.
    rewrite adel_absent; [reflexivity|].
    destruct (aget op_eqb k2 m) eqn:G; [|reflexivity].
    exfalso. apply N1. eapply aget_in_keys. eassumption.
  - rewrite !usats_cons, !cnt_app. rewrite (IH rs x N2 H). lia.
Qed.

Lemma usats_aset : forall k v m x,
  nodupkeys m ->
  (cnt (usats (aset op_eqb k v m)) x +
   cnt (flatten (match aget op_eqb k m with Some old => old | None => [] end)) x)%nat =
  (cnt (flatten v) x + cnt (usats m) x)%nat.
Proof.
  intros k v m x ND. unfold aset. rewrite usats_cons, cnt_app.
  destruct (aget op_eqb k m) as [old|] eqn:G.
  - rewrite (usats_adel k m old x ND G). lia.
  - rewrite adel_absent by assumption. cbn. lia.
Qed.

Lemma take_inputs_cnt : forall inps m rs m' x,
  nodupkeys m -> take_inputs inps m = Ok (rs, m') ->
  nodupkeys m' /\ cnt (usats m) x = (cnt (flatten rs) x + cnt (usats m') x)%nat.
Proof.
  induction inps as [|i inps IH]; intros m rs m' x ND H; cbn [take_inputs] in H.
  - inversion H; subst. split; [assumption|reflexivity].
  - destruct (aget op_eqb i m) as [r|] eqn:G; [|discriminate].
    apply bind_ok in H. destruct H as [[rest m1] [H1 H]]. inversion H; subst; clear H.
    destruct (IH _ _ _ x (adel_nodup i m ND) H1) as [ND' C]. split; [assumption|].
    rewrite (usats_adel i m r x ND G), C, flatten_app, cnt_app. lia.
Qed.

Lemma put_outputs_cnt : forall ents t vout m d m' d' x,
  nodupkeys m -> put_outputs t vout ents m d = (m', d') ->
  nodupkeys m' /\
  (cnt (usats m') x + cnt (flatten d') x)%nat =
  (cnt (flatten (concat ents)) x + cnt (usats m) x + cnt (flatten d) x)%nat.
Proof.
  induction ents as [|e ents IH]; intros t vout m d m' d' x ND H; cbn [put_outputs] in H.
  - inversion H; subst. split; [assumption|]. cbn. lia.
  - destruct (IH _ _ _ _ _ _ x (aset_nodup (t, vout) e m ND) H) as [ND' C]. split; [assumption|].
    rewrite C. cbn [concat]. rewrite flatten_app, cnt_app.
    pose proof (usats_aset (t, vout) e m x ND) as A.
    destruct (aget op_eqb (t, vout) m) as [old|].
    + rewrite flatten_app, cnt_app. lia.
    + cbn [flatten flat_map] in A. rewrite cnt_nil in A. lia.
Qed.

Lemma index_txs_cnt : forall ts m cbin w d m' cbin' w' d' x,
  nodupkeys m -> index_txs ts m cbin w d = Ok (m', cbin', w', d') ->
  nodupkeys m' /\
  (cnt (usats m') x + cnt (flatten cbin') x + cnt (flatten d') x)%nat =
  (cnt (usats m) x + cnt (flatten cbin) x + cnt (flatten d) x)%nat.
Proof.
  induction ts as [|t ts IH]; intros m cbin w d m' cbin' w' d' x ND H; cbn [index_txs] in H.
  - inversion H; subst. split; [assumption|reflexivity].
  - apply bind_ok in H. destruct H as [[[[m1 lft] w1] d1] [H1 H]].
    unfold index_tx in H1.
    apply bind_ok in H1. destruct H1 as [[irs m0] [I1 H1]].
    apply bind_ok in H1. destruct H1 as [[[ents lft0] w0] [I2 H1]].
    destruct (put_outputs (txid t) 0 ents m0 []) as [m2 d2] eqn:I3.
    inversion H1; subst; clear H1.
    destruct (take_inputs_cnt _ _ _ _ x ND I1) as [ND0 C0].
    destruct (put_outputs_cnt _ _ _ _ _ _ _ x ND0 I3) as [ND1 C1].
    destruct (split_fifo _ _ _ _ _ _ _ I2) as [F _].
    destruct (IH _ _ _ _ _ _ _ _ x ND1 H) as [ND' C]. split; [assumption|].
    rewrite C, !flatten_app, !cnt_app, C0, <- F, cnt_app. cbn in C1. lia.
Qed.

(* one block adds exactly the sats of its subsidy to (outputs + lost + destroyed) *)
Lemma index_block_cnt : forall st b st' x,
  b <> [] -> nodupkeys (utxo st) -> index_block st b = Ok st' ->
  nodupkeys (utxo st') /\
  (cnt (all_sats st') x + cnt (flatten (destroyed st')) x)%nat =
  (cnt (all_sats st) x + cnt (flatten (destroyed st)) x +
   cnt (nseq (starting_sat (height st)) (N.to_nat (subsidy (height st)))) x)%nat.
Proof.
  intros st b st' x NE ND H. unfold index_block in H. destruct b as [|cb rest]; [congruence|].
  apply bind_ok in H. destruct H as [[[[m1 cbin] w1] d1] [H1 H]].
  apply bind_ok in H. destruct H as [[[ents lostr] w2] [H2 H]].
  destruct (put_outputs (txid cb) 0 ents m1 []) as [m2 d2] eqn:H3.
  destruct (lost_writes lostr (lost_sats st)) as [w3 ls].
  inversion H; subst; clear H. unfold all_sats. cbn [utxo lost destroyed].
  destruct (index_txs_cnt _ _ _ _ _ _ _ _ _ x ND H1) as [ND1 C1].
  destruct (put_outputs_cnt _ _ _ _ _ _ _ x ND1 H3) as [ND2 C2].
  destruct (split_fifo _ _ _ _ _ _ _ H2) as [F _].
  split; [assumption|].
  rewrite !flatten_app, !cnt_app.
  match type of H1 with index_txs _ _ ?z _ _ = _ =>
    assert (S' : cnt (flatten z) x =
                 cnt (nseq (starting_sat (height st)) (N.to_nat (subsidy (height st)))) x) end.
  { destruct (N.ltb_spec 0 (subsidy (height st))) as [L|L].
    - cbn [flatten flat_map]. unfold flat1. cbn [fst snd]. rewrite app_nil_r. do 3 f_equal. lia.
    - replace (subsidy (height st)) with 0 by lia. reflexivity. }
  rewrite S' in C1. rewrite <- F, cnt_app in C1. cbn in C1, C2. lia.
Qed.

Lemma nseq_snoc_block : forall a b x,
  cnt (nseq 0 (N.to_nat (a + b))) x = (cnt (nseq 0 (N.to_nat a)) x + cnt (nseq a (N.to_nat b)) x)%nat.
Proof.
  intros. replace (N.to_nat (a + b)) with (N.to_nat a + N.to_nat b)%nat by lia.
  rewrite nseq_app, cnt_app. do 3 f_equal. lia.
Qed.

Definition nonempty_blocks (c : list (list tx)) : Prop := Forall (fun b => b <> []) c.

Lemma run_from_cnt : forall c st st' x,
  nonempty_blocks c -> nodupkeys (utxo st) -> run_from st c = Ok st' ->
  (cnt (all_sats st) x + cnt (flatten (destroyed st)) x)%nat = cnt (nseq 0 (N.to_nat (starting_sat (height st)))) x ->
  nodupkeys (utxo st') /\
  (cnt (all_sats st') x + cnt (flatten (destroyed st')) x)%nat = cnt (nseq 0 (N.to_nat (starting_sat (height st')))) x.
Proof.
  induction c as [|b c IH]; intros st st' x NE ND H I; cbn [run_from] in H.
  - inversion H; subst. split; assumption.
  - apply bind_ok in H. destruct H as [st1 [H1 H]].
    inversion NE as [|y l NE1 NE2]; subst.
    destruct (index_block_cnt _ _ _ x NE1 ND H1) as [ND1 C1].
    apply (IH st1 st' x NE2 ND1 H).
    rewrite (index_block_height _ _ _ H1), starting_sat_succ, nseq_snoc_block, C1, I. reflexivity.
Qed.

(* the partition: at every indexed height, the sats in unspent outputs, the lost sats and the sats
   destroyed by duplicate txids are, together, exactly the sats mined so far, each once *)
Theorem partition : forall c st,
  nonempty_blocks c -> run c = Ok st ->
  Permutation (all_sats st ++ flatten (destroyed st)) (nseq 0 (N.to_nat (starting_sat (height st)))) /\
  nodupkeys (utxo st).
Proof.
  intros c st NE H.
  assert (A : forall x, nodupkeys (utxo st) /\
     (cnt (all_sats st) x + cnt (flatten (destroyed st)) x)%nat = cnt (nseq 0 (N.to_nat (starting_sat (height st)))) x).
  { intros x. apply (run_from_cnt c init st x NE); [constructor|exact H|].
    cbn. rewrite starting_sat_0. reflexivity. }
  split; [|apply (A 0)].
  apply (Permutation_count_occ N.eq_dec). intros x. fold (cnt (all_sats st ++ flatten (destroyed st)) x).
  rewrite cnt_app. apply A.
Qed.

Corollary no_sat_twice : forall c st,
  nonempty_blocks c -> run c = Ok st -> NoDup (all_sats st ++ flatten (destroyed st)).
Proof.
  intros c st NE H. destruct (partition c st NE H) as [P _].
  apply Permutation_sym in P. eapply Permutation_NoDup; [exact P|apply nseq_NoDup].
Qed.

Corollary every_mined_sat_somewhere : forall c st s,
  nonempty_blocks c -> run c = Ok st ->
  (In s (all_sats st) \/ In s (flatten (destroyed st))) <-> s < starting_sat (height st).
Proof.
  intros c st s NE H. destruct (partition c st NE H) as [P _].
  rewrite <- in_app_iff. split; intros I.
  - eapply Permutation_in in I; [|exact P]. apply nseq_In in I. lia.
  - eapply Permutation_in; [apply Permutation_sym; exact P|]. apply nseq_In. lia.
Qed.

(* ------------------------------------------------------------------ lookups *)

(* location of a sat: entry [o] holds [s] at offset [k] *)
Definition sat_at (m : umap) (o : outpoint) (k s : N) : Prop :=
  exists rs, In (o, rs) m /\ nth_error (flatten rs) (N.to_nat k) = Some s.

Lemma nth_error_nseq : forall n s j, (j < n)%nat -> nth_error (nseq s n) j = Some (s + N.of_nat j).
Proof.
  induction n; intros s j H; [lia|]. destruct j as [|j]; cbn [nseq nth_error].
  - f_equal. lia.
  - rewrite IHn by lia. f_equal. lia.
Qed.

Lemma find_in_sound : forall rs s off k,
  find_in s rs off = Some k ->
  off <= k /\ nth_error (flatten rs) (N.to_nat (k - off)) = Some s.
Proof.
  induction rs as [|[a b] rs IH]; intros s off k H; cbn [find_in] in H; [discriminate|].
  destruct (N.leb_spec a s) as [L1|L1]; destruct (N.ltb_spec s b) as [L2|L2]; cbn [andb] in H.
  - inversion H; subst. split; [lia|].
    rewrite flatten_cons, nth_error_app1 by (rewrite flat1_length; cbn [fst snd]; lia).
    unfold flat1. cbn [fst snd]. rewrite nth_error_nseq by lia. f_equal. lia.
  - destruct (IH _ _ _ H) as [G1 G2]. split; [lia|].
    rewrite flatten_cons, nth_error_app2 by (rewrite flat1_length; cbn [fst snd]; lia).
    rewrite flat1_length. cbn [fst snd]. rewrite <- G2. f_equal. lia.
  - destruct (IH _ _ _ H) as [G1 G2]. split; [lia|].
    rewrite flatten_cons, nth_error_app2 by (rewrite flat1_length; cbn [fst snd]; lia).
    rewrite flat1_length. cbn [fst snd]. rewrite <- G2. f_equal. lia.
  - destruct (IH _ _ _ H) as [G1 G2]. split; [lia|].
    rewrite flatten_cons, nth_error_app2 by (rewrite flat1_length; cbn [fst snd]; lia).
    rewrite flat1_length. cbn [fst snd]. rewrite <- G2. f_equal. lia.
Qed.

Lemma find_in_none : forall rs s off, find_in s rs off = None -> ~ In s (flatten rs).
Proof.
  induction rs as [|[a b] rs IH]; intros s off H; cbn [find_in] in H; [intros []|].
  destruct (N.leb_spec a s) as [L1|L1]; destruct (N.ltb_spec s b) as [L2|L2]; cbn [andb] in H;
    try discriminate; rewrite flatten_cons, in_app_iff; intros [I|I];
    try (apply (IH _ _ H); exact I); unfold flat1 in I; cbn [fst snd] in I; apply nseq_In in I; lia.
Qed.

Lemma find_scan_sound : forall m s o k, find_scan s m = Some (o, k) -> sat_at m o k s.
Proof.
  induction m as [|[o' rs] m IH]; intros s o k H; cbn [find_scan] in H; [discriminate|].
  destruct (find_in s rs 0) as [j|] eqn:F.
  - inversion H; subst. destruct (find_in_sound _ _ _ _ F) as [_ G].
    exists rs. split; [left; reflexivity|]. rewrite <- G. f_equal. lia.
  - destruct (IH _ _ _ H) as [rs' [I G]]. exists rs'. split; [right; exact I|exact G].
Qed.

Lemma find_scan_none : forall m s, find_scan s m = None -> ~ In s (usats m).
Proof.
  induction m as [|[o' rs] m IH]; intros s H; cbn [find_scan] in H; [intros []|].
  destruct (find_in s rs 0) as [j|] eqn:F; [discriminate|].
  rewrite usats_cons, in_app_iff. intros [I|I]; [exact (find_in_none _ _ _ F I)|exact (IH _ H I)].
Qed.

Lemma usats_entries : forall st x, In x (usats (entries st)) <-> In x (all_sats st).
Proof.
  intros st x. unfold entries, all_sats. destruct (lost st) as [|r l] eqn:E.
  - cbn. rewrite app_nil_r. tauto.
  - rewrite usats_cons, !in_app_iff. cbn [snd]. tauto.
Qed.

(* Index::find after its height guard: a reported location really holds the sat, and None means
   the sat is in no output and not lost *)
Theorem find_scan_correct : forall st s,
  (forall o k, find_scan s (entries st) = Some (o, k) -> sat_at (entries st) o k s) /\
  (find_scan s (entries st) = None -> ~ In s (all_sats st)).
Proof.
  intros st s. split.
  - intros o k H. apply find_scan_sound. exact H.
  - intros H I. apply (find_scan_none _ _ H). apply usats_entries. exact I.
Qed.

(* locations are unique: with the partition, a sat cannot be at two places *)
Lemma sat_at_in : forall m o k s, sat_at m o k s -> In s (usats m).
Proof.
  intros m o k s [rs [I G]]. unfold usats. apply in_flat_map. exists (o, rs). split; [exact I|].
  cbn [snd]. eapply nth_error_In. exact G.
Qed.

(* Index::list is the table entry *)
Theorem list_is_entry : forall st o, list_ranges st o = aget op_eqb o (entries st).
Proof. reflexivity. Qed.

(* ------------------------------------------------------------------ sats of unindexed blocks *)

Lemma find_guard : forall st s h, sat_height s = Ok h -> height st <= h -> find st s = Ok None.
Proof.
  intros st s h H L. unfold find. rewrite H. cbn [bind].
  destruct (N.leb_spec (height st) h); [reflexivity|lia].
Qed.

(* Sat::height against Height::starting_sat *)

Lemma count_le_spec : forall l s d,
  (N.to_nat (count_le s l) <= length l)%nat /\
  (forall i, (i < N.to_nat (count_le s l))%nat -> nth i l d <= s) /\
  ((N.to_nat (count_le s l) < length l)%nat -> s < nth (N.to_nat (count_le s l)) l d).
Proof.
  induction l as [|x l IH]; intros s d; cbn [count_le length].
  - repeat split; [lia|intros; lia|lia].
  - destruct (N.leb_spec x s) as [L|L].
    + destruct (IH s d) as [A [B C]].
      replace (N.to_nat (1 + count_le s l)) with (S (N.to_nat (count_le s l))) by lia.
      repeat split; [lia| |].
      * intros [|i] Hi; cbn [nth]; [exact L|apply B; lia].
      * intros Hk. cbn [nth]. apply C. lia.
    + repeat split; [cbn; lia|intros; cbn in *; lia|]. intros _. cbn. exact L.
Qed.

Lemma table_shape : length SI_EPOCH_STARTING_SATS = 34%nat /\ nth 0 SI_EPOCH_STARTING_SATS SI_SUPPLY = 0 /\
  nth 33 SI_EPOCH_STARTING_SATS SI_SUPPLY = SI_SUPPLY.
Proof. vm_compute. repeat split. Qed.

Lemma nth_tl : forall {A} (l : list A) i d, nth i (tl l) d = nth (S i) l d.
Proof. intros A [|x l] i d; [destruct i; reflexivity|reflexivity]. Qed.

Lemma epoch_of_sat_spec : forall s, s < SI_SUPPLY ->
  epoch_of_sat s < 33 /\ epoch_start (epoch_of_sat s) <= s < epoch_start (epoch_of_sat s + 1).
Proof.
  intros s H. unfold epoch_of_sat.
  destruct table_shape as [Len [T0 T33]].
  destruct (count_le_spec (tl SI_EPOCH_STARTING_SATS) s SI_SUPPLY) as [A [B C]].
  set (e := count_le s (tl SI_EPOCH_STARTING_SATS)) in *.
  assert (LenT : length (tl SI_EPOCH_STARTING_SATS) = 33%nat) by reflexivity.
  rewrite LenT in A, C.
  assert (E33 : e < 33).
  { destruct (N.ltb_spec e 33) as [L|L]; [exact L|]. exfalso.
    assert (E : N.to_nat e = 33%nat) by lia.
    specialize (B 32%nat). rewrite nth_tl, T33 in B. lia. }
  split; [exact E33|]. unfold epoch_start. split.
  - destruct (N.to_nat e) as [|k] eqn:K.
    + rewrite T0. lia.
    + specialize (B k). rewrite nth_tl in B. apply B. lia.
  - replace (N.to_nat (e + 1)) with (S (N.to_nat e)) by lia. rewrite <- nth_tl. apply C. lia.
Qed.

Definition subsidy_pos_ok (e : N) : bool := 0 <? epoch_subsidy e.
Lemma subsidy_pos_table : forallb subsidy_pos_ok (map N.of_nat (seq 0 33)) = true.
Proof. vm_compute. reflexivity. Qed.

Lemma epoch_subsidy_pos : forall e, e < 33 -> 0 < epoch_subsidy e.
Proof.
  intros e L. pose proof subsidy_pos_table as T. rewrite forallb_forall in T.
  specialize (T e). apply N.ltb_lt. apply T.
  apply in_map_iff. exists (N.to_nat e). split; [lia|]. apply in_seq. lia.
Qed.

Lemma sat_height_spec : forall s, s < SI_SUPPLY ->
  exists h, sat_height s = Ok h /\ starting_sat h <= s < starting_sat (h + 1).
Proof.
  intros s H. destruct (epoch_of_sat_spec s H) as [E33 [L1 L2]].
  unfold sat_height. set (e := epoch_of_sat s) in *.
  pose proof (epoch_subsidy_pos e E33) as SP.
  destruct (N.eqb_spec (epoch_subsidy e) 0) as [Z|Z]; [lia|].
  eexists. split; [reflexivity|].
  rewrite table_step in L2.
  assert (HP : 0 < SI_HALVING_INTERVAL) by (vm_compute; reflexivity).
  set (Hh := SI_HALVING_INTERVAL) in *. set (sub := epoch_subsidy e) in *.
  set (q := (s - epoch_start e) / sub).
  assert (Q1 : q * sub <= s - epoch_start e) by (subst q; rewrite N.mul_comm; apply N.mul_div_le; lia).
  assert (Q2 : s - epoch_start e < (q + 1) * sub).
  { subst q. pose proof (N.mul_succ_div_gt (s - epoch_start e) sub). lia. }
  assert (QH : q < Hh) by nia.
  assert (D : (e * Hh + q) / Hh = e).
  { symmetry. apply (N.div_unique (e * Hh + q) Hh e q); lia. }
  rewrite starting_sat_succ. unfold starting_sat, subsidy. fold Hh. rewrite D. fold sub.
  replace (e * Hh + q - e * Hh) with q by lia. nia.
Qed.

Lemma starting_sat_mono : forall a b, a <= b -> starting_sat a <= starting_sat b.
Proof.
  intros a b L. replace b with (a + N.of_nat (N.to_nat (b - a))) by lia.
  induction (N.to_nat (b - a)) as [|n IH].
  - replace (a + N.of_nat 0) with a by lia. lia.
  - replace (a + N.of_nat (S n)) with (a + N.of_nat n + 1) by lia. rewrite starting_sat_succ. lia.
Qed.

(* a sat of a block that is not indexed yet is reported as not found *)
Theorem find_unindexed : forall st s,
  starting_sat (height st) <= s -> s < SI_SUPPLY -> find st s = Ok None.
Proof.
  intros st s L H. destruct (sat_height_spec s H) as [h [E [A B]]].
  apply (find_guard st s h E).
  destruct (N.leb_spec (height st) h) as [G|G]; [exact G|]. exfalso.
  pose proof (starting_sat_mono (h + 1) (height st)). lia.
Qed.

(* a sat of an indexed block passes the guard: find is the table scan *)
Theorem find_indexed : forall st s,
  s < starting_sat (height st) -> s < SI_SUPPLY -> find st s = Ok (find_scan s (entries st)).
Proof.
  intros st s L H. destruct (sat_height_spec s H) as [h [E [A B]]].
  unfold find. rewrite E. cbn [bind].
  destruct (N.leb_spec (height st) h) as [G|G]; [|reflexivity]. exfalso.
  pose proof (starting_sat_mono (height st) h). lia.
Qed.

Lemma table_sorted_le_supply : Forall (fun x => x <= SI_SUPPLY) SI_EPOCH_STARTING_SATS.
Proof. repeat constructor; vm_compute; discriminate. Qed.

Lemma starting_sat_le_supply : forall h, starting_sat h <= SI_SUPPLY.
Proof.
  intros h. unfold starting_sat.
  assert (HP : 0 < SI_HALVING_INTERVAL) by (vm_compute; reflexivity).
  set (Hh := SI_HALVING_INTERVAL) in *. set (e := h / Hh).
  assert (M : h - e * Hh < Hh).
  { subst e. pose proof (N.mod_lt h Hh). pose proof (N.div_mod h Hh). lia. }
  destruct (N.ltb_spec e 33) as [L|L].
  - assert (S : epoch_start (e + 1) <= SI_SUPPLY).
    { unfold epoch_start. destruct table_shape as [Len _].
      pose proof table_sorted_le_supply as T. rewrite Forall_forall in T. apply T. apply nth_In. rewrite Len. lia. }
    rewrite table_step in S. fold Hh in S. nia.
  - unfold epoch_subsidy. replace (e <? SI_FIRST_POST_SUBSIDY) with false
      by (symmetry; apply N.ltb_ge; unfold SI_FIRST_POST_SUBSIDY; lia).
    unfold epoch_start. destruct table_shape as [Len [_ T33]].
    destruct (N.eq_dec e 33) as [E|E].
    + rewrite E. change (N.to_nat 33) with 33%nat. rewrite T33. lia.
    + rewrite nth_overflow by (rewrite Len; lia). lia.
Qed.

(* ------------------------------------------------------------------ stored ranges are non-empty *)

Definition wf_ranges (rs : list range) : Prop := Forall (fun r => fst r < snd r) rs.
Definition wf_map (m : umap) : Prop := Forall (fun kv => wf_ranges (snd kv)) m.

Lemma take_sats_wf : forall rs op v rem a rest w,
  wf_ranges rs -> take_sats op v rem rs = Ok (a, rest, w) -> wf_ranges a /\ wf_ranges rest.
Proof.
  induction rs as [|[s e] rs IH]; intros op v rem a rest w W H; rewrite take_sats_eq in H.
  - destruct (N.eqb_spec rem 0); [|discriminate]. inversion H; subst. split; constructor.
  - inversion W as [|x l W1 W2]; subst. cbn [fst snd] in W1.
    destruct (N.eqb_spec rem 0) as [E|E].
    + inversion H; subst. split; [constructor|exact W].
    + cbv zeta in H. destruct (N.ltb_spec rem (e - s)) as [L|L].
      * inversion H; subst; clear H. split; repeat constructor; cbn [fst snd]; try lia. exact W2.
      * apply bind_ok in H. destruct H as [[[a' rest'] ws] [H1 H2]]. inversion H2; subst; clear H2.
        destruct (IH _ _ _ _ _ _ W2 H1) as [A B]. split; [constructor; assumption|exact B].
Qed.

Lemma assign_outputs_wf : forall os t vout rs ents lft w,
  wf_ranges rs -> assign_outputs t vout os rs = Ok (ents, lft, w) -> Forall wf_ranges ents /\ wf_ranges lft.
Proof.
  induction os as [|[v sc] os IH]; intros t vout rs ents lft w W H; cbn [assign_outputs] in H.
  - inversion H; subst. split; [constructor|exact W].
  - apply bind_ok in H. destruct H as [[[a rest] w1] [H1 H]].
    apply bind_ok in H. destruct H as [[[ents' lft'] w2] [H2 H]].
    inversion H; subst; clear H.
    destruct (take_sats_wf _ _ _ _ _ _ _ W H1) as [A B].
    destruct (IH _ _ _ _ _ _ B H2) as [C D]. split; [constructor; assumption|exact D].
Qed.

Lemma wf_ranges_app : forall a b, wf_ranges a -> wf_ranges b -> wf_ranges (a ++ b).
Proof. intros. apply Forall_app. split; assumption. Qed.

Lemma adel_wf : forall k m, wf_map m -> wf_map (adel op_eqb k m).
Proof.
  intros k m W. induction W as [|[k2 v] m W1 W2 IH]; cbn [adel]; [constructor|].
  destruct (op_eqb k k2); [exact IH|constructor; assumption].
Qed.

Lemma aget_wf : forall k m rs, wf_map m -> aget op_eqb k m = Some rs -> wf_ranges rs.
Proof.
  intros k m rs W. induction W as [|[k2 v] m W1 W2 IH]; cbn [aget]; [discriminate|].
  destruct (op_eqb k k2); [intros H; inversion H; subst; exact W1|exact IH].
Qed.

Lemma take_inputs_wf : forall inps m rs m',
  wf_map m -> take_inputs inps m = Ok (rs, m') -> wf_ranges rs /\ wf_map m'.
Proof.
  induction inps as [|i inps IH]; intros m rs m' W H; cbn [take_inputs] in H.
  - inversion H; subst. split; [constructor|exact W].
  - destruct (aget op_eqb i m) as [r|] eqn:G; [|discriminate].
    apply bind_ok in H. destruct H as [[rest m1] [H1 H]]. inversion H; subst; clear H.
    destruct (IH _ _ _ (adel_wf i m W) H1) as [A B].
    split; [apply wf_ranges_app; [exact (aget_wf _ _ _ W G)|exact A]|exact B].
Qed.

Lemma put_outputs_wf : forall ents t vout m d,
  wf_map m -> Forall wf_ranges ents -> wf_map (fst (put_outputs t vout ents m d)).
Proof.
  induction ents as [|e ents IH]; intros t vout m d W F; cbn [put_outputs]; [exact W|].
  inversion F as [|x l F1 F2]; subst. apply IH; [|exact F2].
  unfold aset. constructor; [exact F1|apply adel_wf; exact W].
Qed.

Lemma index_txs_wf : forall ts m cbin w d m' cbin' w' d',
  wf_map m -> wf_ranges cbin -> index_txs ts m cbin w d = Ok (m', cbin', w', d') ->
  wf_map m' /\ wf_ranges cbin'.
Proof.
  induction ts as [|t ts IH]; intros m cbin w d m' cbin' w' d' W C H; cbn [index_txs] in H.
  - inversion H; subst. split; assumption.
  - apply bind_ok in H. destruct H as [[[[m1 lft] w1] d1] [H1 H]].
    unfold index_tx in H1.
    apply bind_ok in H1. destruct H1 as [[irs m0] [I1 H1]].
    apply bind_ok in H1. destruct H1 as [[[ents lft0] w0] [I2 H1]].
    destruct (put_outputs (txid t) 0 ents m0 []) as [m2 d2] eqn:I3.
    inversion H1; subst; clear H1.
    destruct (take_inputs_wf _ _ _ _ W I1) as [A B].
    destruct (assign_outputs_wf _ _ _ _ _ _ _ A I2) as [E F].
    pose proof (put_outputs_wf ents (txid t) 0 m0 [] B E) as P. rewrite I3 in P. cbn [fst] in P.
    apply (IH _ _ _ _ _ _ _ _ P (wf_ranges_app _ _ C F) H).
Qed.

Definition wf_state (st : state) : Prop := wf_map (utxo st) /\ wf_ranges (lost st).

Lemma index_block_wf : forall st b st', wf_state st -> index_block st b = Ok st' -> wf_state st'.
Proof.
  intros st b st' [W L] H. unfold index_block in H. destruct b as [|cb rest].
  - inversion H; subst. split; assumption.
  - apply bind_ok in H. destruct H as [[[[m1 cbin] w1] d1] [H1 H]].
    apply bind_ok in H. destruct H as [[[ents lostr] w2] [H2 H]].
    destruct (put_outputs (txid cb) 0 ents m1 []) as [m2 d2] eqn:H3.
    destruct (lost_writes lostr (lost_sats st)) as [w3 ls].
    inversion H; subst; clear H.
    assert (C0 : wf_ranges (if 0 <? subsidy (height st)
                 then [(starting_sat (height st), starting_sat (height st) + subsidy (height st))] else [])).
    { destruct (N.ltb_spec 0 (subsidy (height st))); repeat constructor. cbn [fst snd]. lia. }
    destruct (index_txs_wf _ _ _ _ _ _ _ _ _ W C0 H1) as [A B].
    destruct (assign_outputs_wf _ _ _ _ _ _ _ B H2) as [E F].
    pose proof (put_outputs_wf ents (txid cb) 0 m1 [] A E) as P. rewrite H3 in P. cbn [fst] in P.
    split; cbn [utxo lost]; [exact P|apply wf_ranges_app; assumption].
Qed.

Theorem ranges_nonempty : forall c st, run c = Ok st -> wf_state st.
Proof.
  intros c st. unfold run.
  assert (G : forall c s0 s1, wf_state s0 -> run_from s0 c = Ok s1 -> wf_state s1).
  { induction c0 as [|b c0 IH]; intros s0 s1 W H; cbn [run_from] in H.
    - inversion H; subst. exact W.
    - apply bind_ok in H. destruct H as [s2 [H1 H]]. eapply IH; [|exact H].
      eapply index_block_wf; eassumption. }
  apply G. split; constructor.
Qed.

Lemma wf_entries : forall st, wf_state st -> wf_map (entries st).
Proof.
  intros st [W L]. unfold entries. destruct (lost st) eqn:E; [exact W|].
  constructor; [cbn [snd]; exact L|exact W].
Qed.

(* ------------------------------------------------------------------ find_range *)

(* every piece reported for one entry lies inside the query window and inside one stored range,
   at the right offset *)
Lemma overlaps_in_sound : forall rs a b off os sz k,
  a < b -> wf_ranges rs ->
  In (os, sz, k) (overlaps_in a b rs off) ->
  0 < sz /\ a <= os /\ os + sz <= b /\ off <= k /\
  forall j, j < sz -> nth_error (flatten rs) (N.to_nat (k - off + j)) = Some (os + j).
Proof.
  induction rs as [|[s e] rs IH]; intros a b off os sz k AB W H; cbn [overlaps_in] in H; [destruct H|].
  inversion W as [|x0 l0 W1 W2]; subst. cbn [fst snd] in W1.
  assert (Tail : In (os, sz, k) (overlaps_in a b rs (off + (e - s))) ->
    0 < sz /\ a <= os /\ os + sz <= b /\ off <= k /\
    forall j, j < sz -> nth_error (flatten ((s, e) :: rs)) (N.to_nat (k - off + j)) = Some (os + j)).
  { intros I. destruct (IH _ _ _ _ _ _ AB W2 I) as [A [B [C [D E]]]]. repeat split; try lia.
    intros j Hj. rewrite flatten_cons, nth_error_app2 by (rewrite flat1_length; cbn [fst snd]; lia).
    rewrite flat1_length. cbn [fst snd]. rewrite <- (E j Hj). f_equal. lia. }
  destruct (N.ltb_spec a e) as [L1|L1]; destruct (N.ltb_spec s b) as [L2|L2]; cbn [andb] in H;
    try (apply Tail; exact H).
  destruct H as [H|H]; [|apply Tail; exact H].
  inversion H; subst; clear H.
  pose proof (N.max_spec s a) as MX. pose proof (N.min_spec e b) as MN.
  repeat split; try lia.
  intros j Hj. rewrite flatten_cons, nth_error_app1 by (rewrite flat1_length; cbn [fst snd]; lia).
  unfold flat1. cbn [fst snd]. rewrite nth_error_nseq by lia. f_equal. lia.
Qed.

(* every stored sat inside the window is covered by a piece *)
Lemma overlaps_in_complete : forall rs a b off x,
  a <= x < b -> In x (flatten rs) ->
  exists os sz k, In (os, sz, k) (overlaps_in a b rs off) /\ os <= x < os + sz.
Proof.
  induction rs as [|[s e] rs IH]; intros a b off x W I; [destruct I|].
  rewrite flatten_cons, in_app_iff in I. cbn [overlaps_in].
  destruct I as [I|I].
  - unfold flat1 in I. cbn [fst snd] in I. apply nseq_In in I.
    destruct (N.ltb_spec a e) as [L1|L1]; [|lia]. destruct (N.ltb_spec s b) as [L2|L2]; [|lia].
    cbn [andb]. eexists _, _, _. split; [left; reflexivity|].
    pose proof (N.max_spec s a) as MX. pose proof (N.min_spec e b) as MN. lia.
  - destruct (IH a b (off + (e - s)) x W I) as [os [sz [k [J R]]]].
    exists os, sz, k. split; [|exact R].
    destruct (andb (a <? e) (s <? b)); [right; exact J|exact J].
Qed.

Theorem find_range_scan_sound : forall m a b os sz o k,
  a < b -> wf_map m ->
  In (os, sz, (o, k)) (find_range_scan a b m) ->
  0 < sz /\ a <= os /\ os + sz <= b /\ forall j, j < sz -> sat_at m o (k + j) (os + j).
Proof.
  induction m as [|[o' rs] m IH]; intros a b os sz o k AB W H; cbn [find_range_scan] in H; [destruct H|].
  inversion W as [|x0 l0 W1 W2]; subst. cbn [snd] in W1.
  apply in_app_iff in H. destruct H as [H|H].
  - apply in_map_iff in H. destruct H as [[[os' sz'] k'] [E I]]. cbn [fst snd] in E.
    inversion E; subst; clear E.
    destruct (overlaps_in_sound _ _ _ _ _ _ _ AB W1 I) as [A [B [C [_ D]]]]. repeat split; try assumption.
    intros j Hj. exists rs. split; [left; reflexivity|]. rewrite <- (D j Hj). f_equal. lia.
  - destruct (IH _ _ _ _ _ _ AB W2 H) as [A [B [C D]]]. repeat split; try assumption.
    intros j Hj. destruct (D j Hj) as [rs' [I G]]. exists rs'. split; [right; exact I|exact G].
Qed.

Theorem find_range_scan_complete : forall m a b x,
  a <= x < b -> In x (usats m) ->
  exists os sz sp, In (os, sz, sp) (find_range_scan a b m) /\ os <= x < os + sz.
Proof.
  induction m as [|[o rs] m IH]; intros a b x W I; [destruct I|].
  rewrite usats_cons, in_app_iff in I. cbn [find_range_scan]. destruct I as [I|I].
  - destruct (overlaps_in_complete rs a b 0 x W I) as [os [sz [k [J R]]]].
    exists os, sz, (o, k). split; [|exact R]. apply in_app_iff. left.
    apply in_map_iff. exists (os, sz, k). split; [reflexivity|exact J].
  - destruct (IH a b x W I) as [os [sz [sp [J R]]]]. exists os, sz, sp. split; [|exact R].
    apply in_app_iff. right. exact J.
Qed.

(* ------------------------------------------------------------------ rare-sat table: what is written *)

(* every range placed in an output whose first sat is not common is written to SAT_TO_SATPOINT
   with the output and the offset of the range inside it *)
Lemma take_sats_writes : forall rs op v rem a rest w,
  take_sats op v rem rs = Ok (a, rest, w) -> rem <= v ->
  forall i s e, nth_error a i = Some (s, e) -> common s = false ->
  In (s, (op, (v - rem) + total (firstn i a))) w.
Proof.
  induction rs as [|[s0 e0] rs IH]; intros op v rem a rest w H Lv i s e Hn Hc; rewrite take_sats_eq in H.
  - destruct (N.eqb_spec rem 0); [|discriminate]. inversion H; subst. destruct i; discriminate.
  - destruct (N.eqb_spec rem 0) as [E|E].
    + inversion H; subst. destruct i; discriminate.
    + cbv zeta in H. destruct (N.ltb_spec rem (e0 - s0)) as [L|L].
      * inversion H; subst; clear H. destruct i as [|i]; [|destruct i; discriminate].
        cbn [nth_error] in Hn. inversion Hn; subst. rewrite Hc. cbn [firstn]. left.
        do 2 f_equal. cbn. lia.
      * apply bind_ok in H. destruct H as [[[a' rest'] ws] [H1 H2]]. inversion H2; subst; clear H2.
        apply in_app_iff. destruct i as [|i].
        -- cbn [nth_error] in Hn. inversion Hn; subst. rewrite Hc. left. left. do 2 f_equal. cbn. lia.
        -- right. cbn [nth_error] in Hn.
           pose proof (IH _ _ _ _ _ _ H1 ltac:(lia) i s e Hn Hc) as G.
           cbn [firstn]. rewrite total_cons. cbn [fst snd].
           replace (v - rem + (e0 - s0 + total (firstn i a'))) with (v - (rem - (e0 - s0)) + total (firstn i a')) by lia.
           exact G.
Qed.

Lemma lost_writes_in : forall ls off i s e,
  nth_error ls i = Some (s, e) -> common s = false ->
  In (s, (NULL_OP, off + total (firstn i ls))) (fst (lost_writes ls off)).
Proof.
  induction ls as [|[s0 e0] ls IH]; intros off i s e Hn Hc; [destruct i; discriminate|].
  cbn [lost_writes]. destruct (lost_writes ls (off + (e0 - s0))) as [w o] eqn:E. cbn [fst].
  apply in_app_iff. destruct i as [|i].
  - cbn [nth_error] in Hn. inversion Hn; subst. rewrite Hc. left. left. do 2 f_equal. cbn. lia.
  - right. cbn [nth_error] in Hn. pose proof (IH (off + (e0 - s0)) i s e Hn Hc) as G.
    rewrite E in G. cbn [fst] in G. cbn [firstn]. rewrite total_cons. cbn [fst snd].
    replace (off + (e0 - s0 + total (firstn i ls))) with (off + (e0 - s0) + total (firstn i ls)) by lia.
    exact G.
Qed.

Lemma lost_writes_total : forall ls off, snd (lost_writes ls off) = off + total ls.
Proof.
  induction ls as [|[s e] ls IH]; intros off; cbn [lost_writes].
  - cbn. lia.
  - specialize (IH (off + (e - s))). destruct (lost_writes ls (off + (e - s))) as [w o].
    cbn [snd] in *. rewrite IH, total_cons. cbn [fst snd]. lia.
Qed.

(* ------------------------------------------------------------------ valid chains have a coinbase in every block *)

Lemma v_run_nonempty : forall c h u u', v_run h u c = Some u' -> nonempty_blocks c.
Proof.
  induction c as [|b c IH]; intros h u u' H; [constructor|]. cbn [v_run] in H.
  destruct (v_block h u b) as [u1|] eqn:E; [|discriminate].
  constructor; [|eapply IH; exact H]. intros B. subst. discriminate.
Qed.

Lemma valid_nonempty : forall c, valid c = true -> nonempty_blocks c.
Proof.
  intros c H. unfold valid in H. destruct (v_run 0 [] c) as [u|] eqn:E; [|discriminate].
  eapply v_run_nonempty. exact E.
Qed.

Lemma stored_sats_below_supply : forall c st s,
  nonempty_blocks c -> run c = Ok st -> In s (all_sats st) -> s < starting_sat (height st) /\ s < SI_SUPPLY.
Proof.
  intros c st s NE H I.
  assert (L : s < starting_sat (height st)).
  { apply (every_mined_sat_somewhere c st s NE H). left. exact I. }
  split; [exact L|]. pose proof (starting_sat_le_supply (height st)). lia.
Qed.
