(* Lemmas about Index/Config.v: for every valid chain the model under any
   configuration agrees with the configuration-free reference. *)
From OrdV Require Import Base.Prelude Index.Config.
Require Import ZifyBool ZifyN.

Lemma op_eqb_eq a b : op_eqb a b = true <-> a = b.
Proof.
  destruct a as [a1 a2], b as [b1 b2]. unfold op_eqb. cbn [fst snd]. split.
  - intros H. apply andb_prop in H. destruct H as [H1 H2].
    apply N.eqb_eq in H1. apply N.eqb_eq in H2. subst. reflexivity.
  - intros H. inversion H; subst. rewrite !N.eqb_refl. reflexivity.
Qed.

Lemma op_eqb_refl a : op_eqb a a = true.
Proof. apply op_eqb_eq. reflexivity. Qed.

Lemma op_eqb_neq a b : a <> b -> op_eqb a b = false.
Proof. intros H. destruct (op_eqb a b) eqn:E; [apply op_eqb_eq in E; contradiction|reflexivity]. Qed.

Section Proofs.
  Variable P : Type.
  Variable p_empty : P.
  Variable node : outpoint -> N.
  Variable ranges_of : outpoint -> list (N * N).
  Variable S : Type.
  Variable d_step : S -> N -> tx -> list (N * P) -> S * list P.
  Variable c : cfg.
  Variable fih : N.

  Notation fidx := (first_index_height c fih).
  Notation state := (state P).
  Notation umap := (umap P).
  Notation known st o := (match cache P st o with Some e => Some e | None => table P st o end).

  Lemma fidx_le_fih : fidx <= fih.
  Proof. unfold first_index_height. destruct (orb (c_sats c) (c_addresses c)); lia. Qed.

  Lemma full_iff : full c fih = true <-> fidx = 0.
  Proof. unfold full. apply N.eqb_eq. Qed.

  (* facts about the outputs a transaction creates: the node reports their values
     (fetch_faithful) and, with the sat index, their ranges sum to their values
     (this is property C02's theorem, a hypothesis here) *)
  Definition output_facts (t : tx) : Prop :=
    forall o v, fst o = txid t -> nth_error (outs t) (N.to_nat (snd o)) = Some v ->
      node o = v /\ (c_sats c = true -> total_value (RRanges (ranges_of o)) = v).

  Definition old (u : umap) (o : outpoint) : bool :=
    match u o with Some (_, _, hc) => N.ltb hc fidx | None => false end.

  Definition Inv (st : state) (u : umap) : Prop :=
    (forall o,
       match u o with
       | Some (v, p, hc) =>
         (if N.leb fidx hc then exists r, known st o = Some (r, p) /\ total_value r = v
          else known st o = None) /\ node o = v /\ (hc < fih -> p = p_empty)
       | None => known st o = None
       end) /\
    (forall o, cache P st o <> None -> table P st o = None).

  Fixpoint avail (u : umap) (os : list outpoint) : Prop :=
    match os with
    | [] => True
    | o :: r => u o <> None /\ is_null o = false /\ avail (uupd P u o None) r
    end.

  Fixpoint olds (u : umap) (os : list outpoint) : list outpoint :=
    match os with
    | [] => []
    | o :: r => (if old u o then [o] else []) ++ olds (uupd P u o None) r
    end.

  Definition nq (o : outpoint) : outpoint * N := (o, node o).

  Lemma uupd_same (u : umap) o e : uupd P u o e o = e.
  Proof. unfold uupd. rewrite op_eqb_refl. reflexivity. Qed.

  Lemma uupd_other (u : umap) o e x : x <> o -> uupd P u o e x = u x.
  Proof. intros H. unfold uupd. rewrite op_eqb_neq by assumption. reflexivity. Qed.

  Lemma upd_same (m : emap P) o e : upd P m o e o = e.
  Proof. unfold upd. rewrite op_eqb_refl. reflexivity. Qed.

  Lemma upd_other (m : emap P) o e x : x <> o -> upd P m o e x = m x.
  Proof. intros H. unfold upd. rewrite op_eqb_neq by assumption. reflexivity. Qed.

  Lemma Inv_remove_cache st u o e : Inv st u -> cache P st o = Some e ->
    Inv (mkState P (upd P (cache P st) o None) (table P st)) (uupd P u o None).
  Proof.
    intros [H1 H2] Hc. split.
    - intros x. cbn [cache table]. destruct (op_eqb x o) eqn:E.
      + apply op_eqb_eq in E. subst x. rewrite uupd_same, upd_same.
        apply H2. rewrite Hc. discriminate.
      + assert (x <> o) by (intros ->; rewrite op_eqb_refl in E; discriminate).
        rewrite uupd_other, upd_other by assumption. apply H1.
    - intros x. cbn [cache table]. destruct (op_eqb x o) eqn:E.
      + apply op_eqb_eq in E. subst x. rewrite upd_same. congruence.
      + assert (x <> o) by (intros ->; rewrite op_eqb_refl in E; discriminate).
        rewrite upd_other by assumption. apply H2.
  Qed.

  Lemma Inv_remove_table st u o e : Inv st u -> cache P st o = None -> table P st o = Some e ->
    Inv (mkState P (cache P st) (upd P (table P st) o None)) (uupd P u o None).
  Proof.
    intros [H1 H2] Hc Ht. split.
    - intros x. cbn [cache table]. destruct (op_eqb x o) eqn:E.
      + apply op_eqb_eq in E. subst x. rewrite uupd_same, upd_same, Hc. reflexivity.
      + assert (x <> o) by (intros ->; rewrite op_eqb_refl in E; discriminate).
        rewrite uupd_other, upd_other by assumption. apply H1.
    - intros x. cbn [cache table]. intros Hx. destruct (op_eqb x o) eqn:E.
      + apply op_eqb_eq in E. subst x. rewrite upd_same. reflexivity.
      + assert (x <> o) by (intros ->; rewrite op_eqb_refl in E; discriminate).
        rewrite upd_other by assumption. apply H2. assumption.
  Qed.

  Lemma Inv_remove_unknown st u o : Inv st u -> cache P st o = None -> table P st o = None ->
    Inv st (uupd P u o None).
  Proof.
    intros [H1 H2] Hc Ht. split; [|exact H2].
    intros x. destruct (op_eqb x o) eqn:E.
    - apply op_eqb_eq in E. subst x. rewrite uupd_same, Hc. exact Ht.
    - assert (x <> o) by (intros ->; rewrite op_eqb_refl in E; discriminate).
      rewrite uupd_other by assumption. apply H1.
  Qed.

  (* one input *)
  Lemma lookup_ok st u o v p hc q' :
    Inv st u -> u o = Some (v, p, hc) ->
    exists st' e,
      lookup P p_empty (full c fih) st ((if N.ltb hc fidx then [nq o] else []) ++ q') o =
        inr (st', q', e, if N.ltb hc fidx then Some o else None) /\
      total_value (fst e) = v /\ snd e = p /\ Inv st' (uupd P u o None).
  Proof.
    intros HI Hu. pose proof HI as [H1 H2]. specialize (H1 o). rewrite Hu in H1.
    destruct H1 as (Hk & Hn & Hp). unfold lookup.
    destruct (N.ltb_spec hc fidx) as [Hold|Hnew].
    - destruct (N.leb_spec fidx hc); [lia|].
      destruct (cache P st o) as [e|] eqn:Ec; [discriminate|].
      rewrite Hk. destruct (full c fih) eqn:Ef; [apply full_iff in Ef; lia|].
      cbn [app nq]. eexists _, _. split; [reflexivity|]. cbn [fst snd total_value].
      split; [exact Hn|]. split; [symmetry; apply Hp; pose proof fidx_le_fih; lia|].
      apply Inv_remove_unknown; assumption.
    - destruct (N.leb_spec fidx hc); [|lia]. destruct Hk as (r & Hk & Hv). cbn [app].
      destruct (cache P st o) as [e|] eqn:Ec.
      + inversion Hk; subst e. eexists _, _. split; [reflexivity|]. cbn [fst snd].
        split; [exact Hv|]. split; [reflexivity|]. eapply Inv_remove_cache; eassumption.
      + rewrite Hk. eexists _, _. split; [reflexivity|]. cbn [fst snd].
        split; [exact Hv|]. split; [reflexivity|]. eapply Inv_remove_table; eassumption.
  Qed.

  Lemma lookups_ok : forall os st u q',
    Inv st u -> avail u os ->
    exists st' es,
      lookups P p_empty (full c fih) st (map nq (olds u os) ++ q') os =
        inr (st', q', es, map (fun o => (o, o)) (olds u os)) /\
      entry_vals P es = snd (spend P p_empty u os) /\
      Inv st' (fst (spend P p_empty u os)).
  Proof.
    induction os as [|o r IH]; intros st u q' HI Ha.
    - exists st, []. cbn. auto.
    - cbn [avail] in Ha. destruct Ha as (Hu & _ & Hr).
      destruct (u o) as [[[v p] hc]|] eqn:Eu; [|congruence].
      cbn [olds]. unfold old. rewrite Eu. rewrite map_app, <- app_assoc.
      destruct (lookup_ok st u o v p hc (map nq (olds (uupd P u o None) r) ++ q') HI Eu)
        as (st1 & e & Hl & Hv & Hp & HI1).
      destruct (IH st1 (uupd P u o None) q' HI1 Hr) as (st2 & es & Hls & Hvs & HI2).
      cbn [lookups].
      replace (map nq (if N.ltb hc fidx then [o] else [])) with (if N.ltb hc fidx then [nq o] else [])
        by (destruct (N.ltb hc fidx); reflexivity).
      rewrite Hl, Hls. exists st2, (e :: es). cbn [spend]. rewrite Eu.
      destruct (spend P p_empty (uupd P u o None) r) as [u' vps] eqn:Es. cbn [fst snd] in *.
      split; [|split].
      + destruct (N.ltb hc fidx); reflexivity.
      + cbn [entry_vals map]. rewrite Hv, Hp. f_equal. exact Hvs.
      + exact HI2.
  Qed.

  (* ---- outputs ---- *)
  Definition fresh (u : umap) (t : tx) : Prop := forall o, fst o = txid t -> u o = None.

  Lemma spend_sub : forall os (u : umap) o x, fst (spend P p_empty u os) o = Some x -> u o = Some x.
  Proof.
    induction os as [|i r IH]; intros u o x H; [exact H|]. cbn [spend] in H.
    destruct (spend P p_empty (uupd P u i None) r) as [u' vps] eqn:E. cbn [fst] in H.
    assert (H' : fst (spend P p_empty (uupd P u i None) r) o = Some x) by (rewrite E; exact H).
    apply IH in H'. unfold uupd in H'. destruct (op_eqb o i); [discriminate|exact H'].
  Qed.

  Lemma spend_fresh os (u : umap) t : fresh u t -> fresh (fst (spend P p_empty u os)) t.
  Proof.
    intros H o Ho. destruct (fst (spend P p_empty u os) o) as [x|] eqn:E; [|reflexivity].
    apply spend_sub in E. rewrite (H o Ho) in E. discriminate.
  Qed.

  Lemma Inv_create st u h t ps :
    Inv st u -> fresh u t -> output_facts t -> fidx <= h -> (h < fih -> ps = []) ->
    Inv (mkState P (add_outputs P p_empty ranges_of c (cache P st) t ps) (table P st)) (create P p_empty u h t ps).
  Proof.
    intros [H1 H2] Hf Ho Hh Hps. split.
    - intros o. cbn [cache table]. unfold add_outputs, create.
      destruct (N.eqb_spec (fst o) (txid t)) as [E|E]; [|apply H1].
      destruct (nth_error (outs t) (N.to_nat (snd o))) as [v|] eqn:En; [|apply H1].
      destruct (Ho o v E En) as [Hn Hr].
      destruct (N.leb_spec fidx h); [|lia]. split; [|split].
      + eexists. split; [reflexivity|]. unfold out_repr. destruct (c_sats c) eqn:Es; [apply Hr; reflexivity|reflexivity].
      + exact Hn.
      + intros Hlt. rewrite (Hps Hlt). destruct (N.to_nat (snd o)); reflexivity.
    - intros o. cbn [cache table]. unfold add_outputs.
      destruct (N.eqb_spec (fst o) (txid t)) as [E|E]; [|apply H2].
      destruct (nth_error (outs t) (N.to_nat (snd o))) as [v|] eqn:En; [|apply H2].
      intros _. specialize (H1 o). rewrite (Hf o E) in H1.
      destruct (cache P st o); [discriminate|exact H1].
  Qed.

  Lemma downstream_ps insc s h t vals : insc = false ->
    downstream P S d_step insc s h t vals = (s, []).
  Proof. intros ->. reflexivity. Qed.

  Lemma process_tx_ok (st : state) (u : umap) (s : S) (h : N) (t : tx) (q' : queue) :
    Inv st u -> avail u (ins t) -> fresh u t -> output_facts t -> fidx <= h ->
    exists st' : state,
      process_tx P p_empty ranges_of S d_step c (full c fih) (N.leb fih h) h st s
                 (map nq (olds u (ins t)) ++ q') t =
        inr (st', snd (fst (ideal_tx P p_empty S d_step fih h u s t)), q',
             mkTT P (snd (ideal_tx P p_empty S d_step fih h u s t)) (map (fun o => (o, o)) (olds u (ins t)))) /\
      Inv st' (fst (fst (ideal_tx P p_empty S d_step fih h u s t))).
  Proof.
    intros HI Ha Hf Ho Hh. unfold process_tx, ideal_tx.
    destruct (lookups_ok (ins t) st u q' HI Ha) as (st1 & es & Hl & Hv & HI1). rewrite Hl.
    destruct (spend P p_empty u (ins t)) as [u1 vals] eqn:Es. cbn [fst snd] in Hv, HI1. rewrite Hv.
    destruct (downstream P S d_step (N.leb fih h) s h t vals) as [s1 ps] eqn:Ed. cbn [fst snd].
    eexists. split; [reflexivity|].
    apply Inv_create; try assumption.
    - replace u1 with (fst (spend P p_empty u (ins t))) by (rewrite Es; reflexivity). apply spend_fresh. exact Hf.
    - intros Hlt. unfold downstream in Ed. destruct (N.leb_spec fih h); [lia|]. inversion Ed. reflexivity.
  Qed.

  Fixpoint valid_txs (h : N) (u : umap) (s : S) (ts : list tx) : Prop :=
    match ts with
    | [] => True
    | t :: r =>
      avail u (ins t) /\ fresh u t /\ output_facts t /\
      valid_txs h (fst (fst (ideal_tx P p_empty S d_step fih h u s t)))
                  (snd (fst (ideal_tx P p_empty S d_step fih h u s t))) r
    end.

  Fixpoint olds_txs (h : N) (u : umap) (s : S) (ts : list tx) : list outpoint :=
    match ts with
    | [] => []
    | t :: r =>
      olds u (ins t) ++
      olds_txs h (fst (fst (ideal_tx P p_empty S d_step fih h u s t)))
                 (snd (fst (ideal_tx P p_empty S d_step fih h u s t))) r
    end.

  Lemma process_txs_ok : forall (ts : list tx) (st : state) (u : umap) (s : S) (h : N) (q' : queue),
    Inv st u -> valid_txs h u s ts -> fidx <= h ->
    exists (st' : state) (trs : list (ttrace P)),
      process_txs P p_empty ranges_of S d_step c (full c fih) (N.leb fih h) h st s
                  (map nq (olds_txs h u s ts) ++ q') ts =
        inr (st', snd (fst (ideal_txs P p_empty S d_step fih h u s ts)), q', trs) /\
      map (t_vals P) trs = snd (ideal_txs P p_empty S d_step fih h u s ts) /\
      concat (map (t_recv P) trs) = map (fun o => (o, o)) (olds_txs h u s ts) /\
      Inv st' (fst (fst (ideal_txs P p_empty S d_step fih h u s ts))).
  Proof.
    induction ts as [|t r IH]; intros st u s h q' HI Hv Hh.
    - exists st, []. cbn. auto.
    - cbn [valid_txs] in Hv. destruct Hv as (Ha & Hf & Ho & Hr). cbn [olds_txs].
      rewrite map_app, <- app_assoc.
      destruct (process_tx_ok st u s h t (map nq (olds_txs h (fst (fst (ideal_tx P p_empty S d_step fih h u s t))) (snd (fst (ideal_tx P p_empty S d_step fih h u s t))) r) ++ q') HI Ha Hf Ho Hh) as (st1 & Hp & HI1).
      cbn [process_txs]. rewrite Hp.
      destruct (ideal_tx P p_empty S d_step fih h u s t) as [[u1 s1] vals] eqn:Et. cbn [fst snd] in *.
      destruct (IH st1 u1 s1 h q' HI1 Hr Hh) as (st2 & trs & Hps & Hvs & Hrc & HI2).
      rewrite Hps. cbn [ideal_txs]. rewrite Et.
      destruct (ideal_txs P p_empty S d_step fih h u1 s1 r) as [[u2 s2] vss] eqn:Ets. cbn [fst snd] in *.
      eexists _, _. split; [reflexivity|]. cbn [map concat t_vals t_recv]. rewrite Hvs, Hrc, map_app.
      split; [reflexivity|]. split; [reflexivity|]. exact HI2.
  Qed.

  (* ---- the pre-pass asks for exactly what the processing loop will miss ---- *)
  Lemma existsb_In (T : list N) x : existsb (N.eqb x) T = true <-> In x T.
  Proof.
    rewrite existsb_exists. split.
    - intros (y & Hy & E). apply N.eqb_eq in E. subst. exact Hy.
    - intros H. exists x. split; [exact H|apply N.eqb_refl].
  Qed.

  Definition B (T : list N) (h : N) (u0 u : umap) : Prop :=
    forall o v p hc, u o = Some (v, p, hc) ->
      (In (fst o) T /\ hc = h) \/ (~ In (fst o) T /\ u0 o = Some (v, p, hc)).

  Lemma requested_old (st0 : state) (u0 : umap) T h (u : umap) o v p hc :
    Inv st0 u0 -> B T h u0 u -> u o = Some (v, p, hc) -> is_null o = false -> fidx <= h ->
    requested P st0 T o = N.ltb hc fidx.
  Proof.
    intros [H1 _] HB Hu Hn Hh. unfold requested. rewrite Hn. cbn [negb andb].
    destruct (HB o v p hc Hu) as [[Hin ->]|[Hnin Hu0]].
    - apply existsb_In in Hin. rewrite Hin. cbn [negb andb]. symmetry. apply N.ltb_ge. exact Hh.
    - destruct (existsb (N.eqb (fst o)) T) eqn:E; [apply existsb_In in E; contradiction|].
      cbn [negb andb]. specialize (H1 o). rewrite Hu0 in H1. destruct H1 as (Hk & _ & _).
      destruct (N.leb_spec fidx hc) as [Hle|Hlt].
      + destruct Hk as (r & Hk & _). replace (N.ltb hc fidx) with false by (symmetry; apply N.ltb_ge; exact Hle).
        destruct (cache P st0 o); [reflexivity|]. rewrite Hk. reflexivity.
      + replace (N.ltb hc fidx) with true by (symmetry; apply N.ltb_lt; exact Hlt).
        destruct (cache P st0 o); [discriminate|]. rewrite Hk. reflexivity.
  Qed.

  Lemma B_remove T h (u0 u : umap) o : B T h u0 u -> B T h u0 (uupd P u o None).
  Proof.
    intros HB x v p hc Hx. unfold uupd in Hx. destruct (op_eqb x o); [discriminate|]. eapply HB. exact Hx.
  Qed.

  Lemma filter_olds : forall os (st0 : state) (u0 : umap) T h (u : umap),
    Inv st0 u0 -> B T h u0 u -> avail u os -> fidx <= h ->
    filter (requested P st0 T) os = olds u os /\ B T h u0 (fst (spend P p_empty u os)).
  Proof.
    induction os as [|o r IH]; intros st0 u0 T h u HI HB Ha Hh; [split; [reflexivity|exact HB]|].
    cbn [avail] in Ha. destruct Ha as (Hu & Hn & Hr).
    destruct (u o) as [[[v p] hc]|] eqn:Eu; [|congruence].
    destruct (IH st0 u0 T h (uupd P u o None) HI (B_remove T h u0 u o HB) Hr Hh) as [IH1 IH2].
    cbn [filter olds spend]. rewrite (requested_old st0 u0 T h u o v p hc HI HB Eu Hn Hh).
    unfold old. rewrite Eu. rewrite IH1.
    destruct (spend P p_empty (uupd P u o None) r) as [u' vps] eqn:Es. cbn [fst] in *.
    split; [destruct (N.ltb hc fidx); reflexivity|exact IH2].
  Qed.

  Lemma B_create T h (u0 u : umap) t ps : B T h u0 u -> In (txid t) T -> B T h u0 (create P p_empty u h t ps).
  Proof.
    intros HB Hin o v p hc Ho. unfold create in Ho.
    destruct (N.eqb_spec (fst o) (txid t)) as [E|E]; [|eapply HB; exact Ho].
    destruct (nth_error (outs t) (N.to_nat (snd o))); [|eapply HB; exact Ho].
    inversion Ho; subst. left. rewrite E. auto.
  Qed.

  Lemma ideal_tx_u h (u : umap) s t : exists ps,
    fst (fst (ideal_tx P p_empty S d_step fih h u s t)) = create P p_empty (fst (spend P p_empty u (ins t))) h t ps /\
    (h < fih -> ps = []).
  Proof.
    unfold ideal_tx. destruct (spend P p_empty u (ins t)) as [u1 vals].
    destruct (downstream P S d_step (N.leb fih h) s h t vals) as [s1 ps] eqn:Ed. exists ps. split; [reflexivity|].
    intros Hlt. unfold downstream in Ed. destruct (N.leb_spec fih h); [lia|]. inversion Ed. reflexivity.
  Qed.

  Lemma prepass_txs : forall ts (st0 : state) (u0 : umap) T h (u : umap) s,
    Inv st0 u0 -> B T h u0 u -> valid_txs h u s ts -> (forall t, In t ts -> In (txid t) T) -> fidx <= h ->
    flat_map (fun t => filter (requested P st0 T) (ins t)) ts = olds_txs h u s ts.
  Proof.
    induction ts as [|t r IH]; intros st0 u0 T h u s HI HB Hv HT Hh; [reflexivity|].
    cbn [valid_txs] in Hv. destruct Hv as (Ha & Hf & Ho & Hr). cbn [flat_map olds_txs].
    destruct (filter_olds (ins t) st0 u0 T h u HI HB Ha Hh) as [F1 F2]. rewrite F1. f_equal.
    destruct (ideal_tx_u h u s t) as (ps & Eu & _).
    apply (IH st0 u0 T h); try assumption.
    - rewrite Eu. apply B_create; [exact F2|apply HT; left; reflexivity].
    - intros t' Ht'. apply HT. right. exact Ht'.
  Qed.

  Lemma olds_full : full c fih = true -> forall os (u : umap), olds u os = [].
  Proof.
    intros Hf. apply full_iff in Hf. induction os as [|o r IH]; intros u; [reflexivity|].
    cbn [olds]. rewrite IH. unfold old. destruct (u o) as [[[v p] hc]|]; [|reflexivity].
    destruct (N.ltb_spec hc fidx); [lia|reflexivity].
  Qed.

  Lemma olds_txs_full : full c fih = true -> forall ts h (u : umap) s, olds_txs h u s ts = [].
  Proof.
    intros Hf. induction ts as [|t r IH]; intros h u s; [reflexivity|].
    cbn [olds_txs]. rewrite olds_full by assumption. apply IH.
  Qed.

  (* ---- one block ---- *)
  Definition valid_block (h : N) (u : umap) (s : S) (b : block) : Prop :=
    match b with
    | [] => False
    | cb :: ts =>
      (forall o, In o (ins cb) -> is_null o = true) /\
      (forall o, u o <> None -> ~ In (fst o) (map txid b)) /\
      valid_txs h u s ts /\
      fresh (fst (fst (ideal_txs P p_empty S d_step fih h u s ts))) cb /\ output_facts cb
    end.

  Lemma filter_null (st : state) T os : (forall o, In o os -> is_null o = true) ->
    filter (requested P st T) os = [].
  Proof.
    induction os as [|o r IH]; intros H; [reflexivity|]. cbn [filter]. unfold requested at 1.
    rewrite (H o (or_introl eq_refl)). cbn [negb andb]. apply IH. intros x Hx. apply H. right. exact Hx.
  Qed.

  Lemma Inv_flush (st : state) (u : umap) : Inv st u -> Inv (flush P st) u.
  Proof.
    intros [H1 H2]. split.
    - intros o. specialize (H1 o). cbn [flush cache table]. exact H1.
    - intros o. cbn [flush cache table]. congruence.
  Qed.

  Lemma process_block_ok (st : state) (u : umap) (s : S) (h : N) (b : block) (commit : bool) :
    Inv st u -> valid_block h u s b -> fidx <= h ->
    exists (st' : state) (bt : btrace P),
      process_block P p_empty node ranges_of S d_step c fih commit h st s [] b =
        inr (st', snd (fst (ideal_block P p_empty S d_step fih h u s b)), [], bt) /\
      Inv st' (fst (fst (ideal_block P p_empty S d_step fih h u s b))) /\
      map (t_vals P) (b_txs P bt) = snd (ideal_block P p_empty S d_step fih h u s b) /\
      concat (map (t_recv P) (b_txs P bt)) = map (fun o => (o, o)) (b_requests P bt) /\
      (full c fih = true -> b_requests P bt = []).
  Proof.
    intros HI Hv Hh. destruct b as [|cb ts]; [contradiction|].
    destruct Hv as (Hcb & HF1 & Hts & Hfr & Hfa).
    unfold process_block. destruct (N.ltb_spec h fidx); [lia|].
    replace (andb (N.leb fih h) (negb true)) with false by (destruct (N.leb fih h); reflexivity).
    assert (Hreq : (if full c fih then [] else prepass P st (cb :: ts)) = olds_txs h u s ts).
    { destruct (full c fih) eqn:Ef; [symmetry; apply olds_txs_full; exact Ef|].
      unfold prepass. cbn [flat_map]. rewrite filter_null by exact Hcb. cbn [app].
      apply (prepass_txs ts st u (map txid (cb :: ts)) h u s); try assumption.
      - intros o v p hc Ho. right. split; [apply HF1; congruence|exact Ho].
      - intros t Ht. cbn [map]. right. apply in_map. exact Ht. }
    rewrite Hreq. cbn [app].
    destruct (process_txs_ok ts st u s h [] HI Hts Hh) as (st1 & trs & Hp & Hvs & Hrc & HI1).
    rewrite app_nil_r in Hp. unfold nq in Hp. rewrite Hp. cbn [ideal_block].
    destruct (ideal_txs P p_empty S d_step fih h u s ts) as [[u1 s1] vss] eqn:Ets. cbn [fst snd] in *.
    destruct (downstream P S d_step (N.leb fih h) s1 h cb []) as [s2 ps] eqn:Ed. cbn [fst snd].
    assert (Hps : h < fih -> ps = []).
    { intros Hlt. unfold downstream in Ed. destruct (N.leb_spec fih h); [lia|]. inversion Ed. reflexivity. }
    pose proof (Inv_create st1 u1 h cb ps HI1 Hfr Hfa Hh Hps) as HI2.
    eexists _, _. split; [reflexivity|]. cbn [b_txs b_requests].
    split; [destruct commit; [apply Inv_flush|]; exact HI2|].
    split; [exact Hvs|]. split; [exact Hrc|].
    intros Hf. apply olds_txs_full. exact Hf.
  Qed.

  (* ---- blocks below first_index_height: fetched without transactions, nothing tracked ---- *)
  Definition Pre (u : umap) : Prop :=
    forall o v p hc, u o = Some (v, p, hc) -> hc < fidx /\ node o = v /\ p = p_empty.
  Definition empty_st (st : state) : Prop := forall o, cache P st o = None /\ table P st o = None.

  Lemma Pre_Inv (st : state) (u : umap) : empty_st st -> Pre u -> Inv st u.
  Proof.
    intros He Hp. split.
    - intros o. destruct (He o) as [Hc Ht]. rewrite Hc, Ht.
      destruct (u o) as [[[v p] hc]|] eqn:E; [|reflexivity].
      destruct (Hp o v p hc E) as (H1 & H2 & H3).
      destruct (N.leb_spec fidx hc); [lia|]. auto.
    - intros o. destruct (He o) as [Hc Ht]. intros _. exact Ht.
  Qed.

  Lemma Pre_spend os (u : umap) : Pre u -> Pre (fst (spend P p_empty u os)).
  Proof. intros H o v p hc Ho. apply spend_sub in Ho. eapply H. exact Ho. Qed.

  Lemma Pre_create (u : umap) h t : Pre u -> h < fidx -> output_facts t -> Pre (create P p_empty u h t []).
  Proof.
    intros H Hh Hf o v p hc Ho. unfold create in Ho.
    destruct (N.eqb_spec (fst o) (txid t)) as [E|E]; [|eapply H; exact Ho].
    destruct (nth_error (outs t) (N.to_nat (snd o))) as [v'|] eqn:En; [|eapply H; exact Ho].
    inversion Ho; subst. destruct (Hf o v E En) as [Hn _].
    split; [exact Hh|]. split; [exact Hn|]. destruct (N.to_nat (snd o)); reflexivity.
  Qed.

  Lemma ideal_tx_pre h (u : umap) s t : h < fih ->
    ideal_tx P p_empty S d_step fih h u s t =
    (create P p_empty (fst (spend P p_empty u (ins t))) h t [], s, snd (spend P p_empty u (ins t))).
  Proof.
    intros Hh. unfold ideal_tx. destruct (spend P p_empty u (ins t)) as [u1 vals]. unfold downstream.
    destruct (N.leb_spec fih h); [lia|]. reflexivity.
  Qed.

  Lemma Pre_txs : forall ts h (u : umap) s, h < fidx -> Pre u -> valid_txs h u s ts ->
    Pre (fst (fst (ideal_txs P p_empty S d_step fih h u s ts))) /\
    snd (fst (ideal_txs P p_empty S d_step fih h u s ts)) = s.
  Proof.
    induction ts as [|t r IH]; intros h u s Hh Hp Hv; [split; [exact Hp|reflexivity]|].
    cbn [valid_txs] in Hv. destruct Hv as (_ & _ & Hf & Hr).
    assert (Hh' : h < fih) by (pose proof fidx_le_fih; lia).
    rewrite (ideal_tx_pre h u s t Hh') in Hr. cbn [fst snd] in Hr.
    cbn [ideal_txs]. rewrite (ideal_tx_pre h u s t Hh').
    destruct (IH h _ s Hh (Pre_create _ h t (Pre_spend (ins t) u Hp) Hh Hf) Hr) as [I1 I2].
    destruct (ideal_txs P p_empty S d_step fih h (create P p_empty (fst (spend P p_empty u (ins t))) h t []) s r)
      as [[u2 s2] vss]. cbn [fst snd] in *. auto.
  Qed.

  Lemma Pre_block h (u : umap) s b : h < fidx -> Pre u -> valid_block h u s b ->
    Pre (fst (fst (ideal_block P p_empty S d_step fih h u s b))) /\
    snd (fst (ideal_block P p_empty S d_step fih h u s b)) = s.
  Proof.
    intros Hh Hp Hv. destruct b as [|cb ts]; [contradiction|].
    destruct Hv as (_ & _ & Hts & _ & Hfa). destruct (Pre_txs ts h u s Hh Hp Hts) as [I1 I2].
    cbn [ideal_block]. destruct (ideal_txs P p_empty S d_step fih h u s ts) as [[u1 s1] vss]. cbn [fst snd] in *.
    unfold downstream. destruct (N.leb_spec fih h); [pose proof fidx_le_fih; lia|]. cbn [fst snd].
    split; [apply Pre_create; assumption|exact I2].
  Qed.

  (* ---- the chain ---- *)
  Fixpoint valid_chain (h : N) (u : umap) (s : S) (bs : list block) : Prop :=
    match bs with
    | [] => True
    | b :: r =>
      valid_block h u s b /\
      valid_chain (h + 1) (fst (fst (ideal_block P p_empty S d_step fih h u s b)))
                  (snd (fst (ideal_block P p_empty S d_step fih h u s b))) r
    end.

  Definition J (h : N) (st : state) (u : umap) : Prop :=
    (h <= fidx /\ empty_st st /\ Pre u) \/ (fidx <= h /\ Inv st u).

  (* what is claimed of the trace of every block that is indexed at all: the values used
     for the inputs are the reference values, the queue is consumed in the order it was
     filled with every received value belonging to the outpoint looked up, and nothing is
     requested under a full UTXO index *)
  Fixpoint agree (h : N) (bts : list (btrace P)) (vsss : list (list (list (N * P)))) : Prop :=
    match bts, vsss with
    | [], [] => True
    | bt :: r, vss :: r' =>
      (fidx <= h ->
         map (t_vals P) (b_txs P bt) = vss /\
         concat (map (t_recv P) (b_txs P bt)) = map (fun o => (o, o)) (b_requests P bt) /\
         (full c fih = true -> b_requests P bt = [])) /\
      agree (h + 1) r r'
    | _, _ => False
    end.

  Theorem chain_ok : forall (bs : list block) (h : N) (st : state) (u : umap) (s : S) (commits : N -> bool),
    J h st u -> valid_chain h u s bs ->
    exists (st' : state) (bts : list (btrace P)),
      process_chain P p_empty node ranges_of S d_step c fih commits h st s [] bs =
        inr (st', snd (fst (ideal_chain P p_empty S d_step fih h u s bs)), [], bts) /\
      agree h bts (snd (ideal_chain P p_empty S d_step fih h u s bs)).
  Proof.
    induction bs as [|b r IH]; intros h st u s commits HJ Hv.
    - exists st, []. cbn. auto.
    - cbn [valid_chain] in Hv. destruct Hv as [Hb Hr]. cbn [process_chain ideal_chain].
      destruct (N.lt_ge_cases h fidx) as [Hlt|Hge].
      + (* not indexed *)
        destruct HJ as [(_ & He & Hp)|[Hge _]]; [|lia].
        destruct (Pre_block h u s b Hlt Hp Hb) as [Hp' Hs'].
        unfold process_block. destruct (N.ltb_spec h fidx); [|lia].
        destruct (ideal_block P p_empty S d_step fih h u s b) as [[u1 s1] vss] eqn:Eb. cbn [fst snd] in *. subst s1.
        destruct (IH (h + 1) st u1 s commits) as (st' & bts & Hpc & Hag); [left; split; [lia|auto]|exact Hr|].
        rewrite Hpc.
        destruct (ideal_chain P p_empty S d_step fih (h + 1) u1 s r) as [[u2 s2] vsss]. cbn [fst snd] in *.
        eexists _, _. split; [reflexivity|]. cbn [agree]. split; [intros; lia|exact Hag].
      + assert (HI : Inv st u).
        { destruct HJ as [(_ & He & Hp)|[_ HI]]; [apply Pre_Inv; assumption|exact HI]. }
        destruct (process_block_ok st u s h b (commits h) HI Hb Hge) as (st1 & bt & Hpb & HI1 & Hvals & Hrecv & Hfull).
        rewrite Hpb.
        destruct (ideal_block P p_empty S d_step fih h u s b) as [[u1 s1] vss] eqn:Eb. cbn [fst snd] in *.
        destruct (IH (h + 1) st1 u1 s1 commits) as (st' & bts & Hpc & Hag); [right; split; [lia|exact HI1]|exact Hr|].
        rewrite Hpc.
        destruct (ideal_chain P p_empty S d_step fih (h + 1) u1 s1 r) as [[u2 s2] vsss]. cbn [fst snd] in *.
        eexists _, _. split; [reflexivity|]. cbn [agree]. split; [intros _; auto|exact Hag].
  Qed.

  Lemma J_start (st : state) : empty_st st -> J 0 st (fun _ => None).
  Proof. intros He. left. split; [lia|]. split; [exact He|]. intros o v p hc H. discriminate. Qed.
End Proofs.

(* Every configuration agrees with the configuration-free reference, hence any two
   configurations agree with each other: same downstream state (for ANY downstream
   state machine), and per-input values equal to the reference values in every block
   either of them indexes. *)
Theorem config_independent (P : Type) (p_empty : P) (node : outpoint -> N)
        (ranges_of : outpoint -> list (N * N)) (S : Type)
        (d_step : S -> N -> tx -> list (N * P) -> S * list P)
        (fih : N) (c1 c2 : cfg) (commits1 commits2 : N -> bool) (s0 : S) (bs : list block) :
  let u0 : umap P := fun _ => None in
  let st0 := mkState P (fun _ => None) (fun _ => None) in
  valid_chain P p_empty node ranges_of S d_step c1 fih 0 u0 s0 bs ->
  valid_chain P p_empty node ranges_of S d_step c2 fih 0 u0 s0 bs ->
  exists st1 st2 bts1 bts2,
    process_chain P p_empty node ranges_of S d_step c1 fih commits1 0 st0 s0 [] bs =
      inr (st1, snd (fst (ideal_chain P p_empty S d_step fih 0 u0 s0 bs)), [], bts1) /\
    process_chain P p_empty node ranges_of S d_step c2 fih commits2 0 st0 s0 [] bs =
      inr (st2, snd (fst (ideal_chain P p_empty S d_step fih 0 u0 s0 bs)), [], bts2) /\
    agree P c1 fih 0 bts1 (snd (ideal_chain P p_empty S d_step fih 0 u0 s0 bs)) /\
    agree P c2 fih 0 bts2 (snd (ideal_chain P p_empty S d_step fih 0 u0 s0 bs)).
Proof.
  intros u0 st0 H1 H2.
  assert (He : empty_st P st0) by (intros o; split; reflexivity).
  destruct (chain_ok P p_empty node ranges_of S d_step c1 fih bs 0 st0 u0 s0 commits1 (J_start P p_empty node S d_step c1 fih st0 He) H1)
    as (st1 & bts1 & E1 & A1).
  destruct (chain_ok P p_empty node ranges_of S d_step c2 fih bs 0 st0 u0 s0 commits2 (J_start P p_empty node S d_step c2 fih st0 He) H2)
    as (st2 & bts2 & E2 & A2).
  exists st1, st2, bts1, bts2. auto.
Qed.
