(* Sat ranges: index_transaction_sats hands out the input sats first-in-first-out, and calculate_sat reads
   the sat at an offset of the input ranges; the two agree. *)
From OrdV Require Import Base.Prelude Generated Index.Inscr Proofs.Inscr_tables Proofs.Inscr_proofs.
From Coq Require Import ZifyBool ZifyN.

(* calculate_sat with an arbitrary starting offset is a shift *)
Lemma calc_shift : forall rs off g d, calc_sat_in rs (off + d) (g + d) = calc_sat_in rs off g.
Proof.
  intros rs. induction rs as [|[s e] r IH]; intros off g d; cbn [calc_sat_in]; auto.
  destruct (N.ltb_spec (g + d) (off + d + (e - s))); destruct (N.ltb_spec g (off + (e - s))); try lia.
  - f_equal. lia.
  - replace (off + d + (e - s)) with (off + (e - s) + d) by lia. apply IH.
Qed.

Lemma calc_app_lt : forall a b off g, off <= g -> g < off + ranges_size a ->
  calc_sat_in (a ++ b) off g = calc_sat_in a off g.
Proof.
  intros a. induction a as [|[s e] r IH]; intros b off g H0 H; cbn [app calc_sat_in ranges_size fold_right fst snd] in *.
  - lia.
  - destruct (N.ltb_spec g (off + (e - s))); auto. apply IH; [lia|]. fold (ranges_size r) in H. lia.
Qed.

Lemma calc_app_ge : forall a b off g, off + ranges_size a <= g ->
  calc_sat_in (a ++ b) off g = calc_sat_in b (off + ranges_size a) g.
Proof.
  intros a. induction a as [|[s e] r IH]; intros b off g H; cbn [app calc_sat_in ranges_size fold_right fst snd] in *.
  - rewrite N.add_0_r. reflexivity.
  - fold (ranges_size r) in *. destruct (N.ltb_spec g (off + (e - s))); [lia|].
    rewrite IH by lia. f_equal. lia.
Qed.

Lemma ranges_size_app : forall a b, ranges_size (a ++ b) = ranges_size a + ranges_size b.
Proof.
  intros a b. induction a as [|p r IH]; cbn [app ranges_size fold_right]; [reflexivity|].
  fold (ranges_size (r ++ b)). fold (ranges_size r). rewrite IH. lia.
Qed.

(* one output: it receives exactly [remaining] sats, the first ones of the input ranges, in order *)
Lemma take_sats_spec : forall fuel remaining rs acc mine rest,
  take_sats fuel remaining rs acc = Ok (mine, rest) ->
  exists mine', mine = acc ++ mine' /\ ranges_size mine' = remaining /\
    (forall g, g < remaining -> calc_sat_in rs 0 g = calc_sat_in mine' 0 g) /\
    (forall g, remaining <= g -> calc_sat_in rs 0 g = calc_sat_in rest 0 (g - remaining)).
Proof.
  intros fuel. induction fuel as [|fu IH]; intros remaining rs acc mine rest H; cbn [take_sats] in H.
  - destruct (N.eqb_spec remaining 0); [|discriminate]. inv H. exists []. rewrite app_nil_r.
    repeat split; auto; intros g Hg; [lia | rewrite N.sub_0_r; reflexivity].
  - destruct (N.eqb_spec remaining 0).
    + inv H. exists []. rewrite app_nil_r. repeat split; auto; intros g Hg; [lia | rewrite N.sub_0_r; reflexivity].
    + destruct rs as [|[s e] r]; [discriminate|]. destruct (N.ltb_spec remaining (e - s)).
      * inv H. exists [(s, s + remaining)]. repeat split.
        -- cbn. lia.
        -- intros g Hg. cbn [calc_sat_in]. rewrite !N.add_0_l.
           destruct (N.ltb_spec g (e - s)); [|lia]. destruct (N.ltb_spec g (s + remaining - s)); [|lia]. reflexivity.
        -- intros g Hg. cbn [calc_sat_in]. rewrite !N.add_0_l.
           destruct (N.ltb_spec g (e - s)); destruct (N.ltb_spec (g - remaining) (e - (s + remaining))); try lia.
           ++ f_equal. lia.
           ++ rewrite <- (calc_shift r (e - (s + remaining)) (g - remaining) remaining). f_equal; lia.
      * apply IH in H. destruct H as (m' & A & B & C & D). exists ((s, e) :: m'). repeat split.
        -- rewrite A, <- app_assoc. reflexivity.
        -- cbn [ranges_size fold_right fst snd]. fold (ranges_size m'). lia.
        -- intros g Hg. cbn [calc_sat_in]. rewrite !N.add_0_l. destruct (N.ltb_spec g (e - s)); auto.
           assert (X : forall l, calc_sat_in l (e - s) g = calc_sat_in l 0 (g - (e - s))).
           { intro l. rewrite <- (calc_shift l 0 (g - (e - s)) (e - s)). f_equal; lia. }
           rewrite !X. apply C. lia.
        -- intros g Hg. cbn [calc_sat_in]. rewrite !N.add_0_l. destruct (N.ltb_spec g (e - s)); [lia|].
           assert (X : forall l, calc_sat_in l (e - s) g = calc_sat_in l 0 (g - (e - s))).
           { intro l. rewrite <- (calc_shift l 0 (g - (e - s)) (e - s)). f_equal; lia. }
           rewrite X, D by lia. f_equal. lia.
Qed.

(* all outputs of a transaction: output k receives exactly its value, and the sat at offset g of the inputs
   (start_k <= g < start_k + value_k) is the sat at offset g - start_k of output k; what is left over is the
   input from offset sum_values outs on *)
Lemma split_sats_spec : forall outs rs per_out lft,
  split_sats outs rs = Ok (per_out, lft) ->
  (forall k o, nth_error outs k = Some o ->
     exists m, nth_error per_out k = Some m /\ ranges_size m = o_value o /\
       forall g, sum_values (firstn k outs) <= g < sum_values (firstn k outs) + o_value o ->
         calc_sat_in m 0 (g - sum_values (firstn k outs)) = calc_sat_in rs 0 g) /\
  (forall g, sum_values outs <= g -> calc_sat_in lft 0 (g - sum_values outs) = calc_sat_in rs 0 g).
Proof.
  intros outs. induction outs as [|o r IH]; intros rs per_out lft H; cbn [split_sats] in H.
  - inv H. split.
    + intros k o Hk. destruct k; discriminate.
    + intros g _. cbn. rewrite N.sub_0_r. reflexivity.
  - dbind H. destruct a as [mine rest]. dbind H. destruct a as [others l2]. inv H.
    apply take_sats_spec in E. destruct E as (m' & A & B & C & D). cbn [app] in A. subst m'.
    destruct (IH _ _ _ E0) as [I1 I2]. split.
    + intros k o' Hk. destruct k as [|k'].
      * cbn in Hk. inv Hk. exists mine. cbn [nth_error firstn sum_values fold_right]. repeat split; auto.
        intros g Hg. rewrite N.sub_0_r. symmetry. apply C. lia.
      * cbn [nth_error] in Hk. destruct (I1 _ _ Hk) as (m & M1 & M2 & M3). exists m. cbn [nth_error]. repeat split; auto.
        cbn [firstn sum_values fold_right]. fold (sum_values (firstn k' r)). intros g Hg.
        rewrite (D g) by lia. rewrite <- (M3 (g - o_value o)) by lia. f_equal. lia.
    + cbn [sum_values fold_right]. fold (sum_values r). intros g Hg.
      rewrite (D g) by lia. rewrite <- (I2 (g - o_value o)) by lia. f_equal. lia.
Qed.
