(* Model of the rune indexer:
     src/index/entry.rs        RuneEntry::{mintable,start,end}
     src/index/lot.rs          Lot (checked u128: overflow / underflow panic)
     src/index/updater/rune_updater.rs
                               RuneUpdater::{index_runes, unallocated, mint, etched,
                               tx_commits_to_rune, create_rune_entry, update}
     src/index/updater.rs      the per-block driver around RuneUpdater (height gate, minimum)
     crates/ordinals/src/rune.rs  Rune::{minimum_at_height, reserved, is_reserved, commitment}
   Executable Gallina, no proofs.  The input of the model is the *deciphered* artifact of every
   transaction (the harness calls the real Runestone::decipher; the codec is property C25's),
   the spent outpoints, which outputs are OP_RETURN, and for every input what the node answers
   about the spent output (is it p2tr, height of the block that contains it) together with the
   data pushes of the input's tapscript.

   Rust HashMap<RuneId, Lot> values are association lists; their iteration order is not
   observable (every loop over such a map adds into per-id cells), the model iterates in list
   order and sorts on emission only.  The code's `balances.sort()` before storing is therefore
   modelled at emission. *)
From OrdV Require Import Base.Prelude Base.Wire Generated.

(* ------------------------------------------------------------------ panic tags *)
Definition P_LOT_OVERFLOW : N := 1.     (* lot.rs  expect("lot overflow") *)
Definition P_LOT_UNDERFLOW : N := 2.    (* lot.rs  expect("lot underflow") *)
Definition P_MINTS_OVERFLOW : N := 3.   (* rune_updater.rs  rune_entry.mints += 1 *)
Definition P_EDICT_OUTPUT : N := 4.     (* assert!(output <= tx.output.len()) *)
Definition P_CONFIRMATIONS : N := 5.    (* self.height.checked_sub(commit_tx_height).unwrap() *)
Definition P_POINTER : N := 6.          (* assert!(pointer < allocated.len()) *)
Definition P_BURNED_NO_ENTRY : N := 7.  (* update: id_to_entry.get(..).unwrap() *)
Definition P_BURNED_OVERFLOW : N := 8.  (* update: entry.burned.checked_add(..).unwrap() *)
Definition P_RESERVED_OVERFLOW : N := 9. (* Rune::reserved checked_add(..).unwrap() *)
Definition P_COUNTER_OVERFLOW : N := 10. (* self.runes += 1 / reserved_runes + 1 (u64, dev profile) *)

(* ------------------------------------------------------------------ association lists *)
Section Assoc.
  Context {K V : Type} (eqb : K -> K -> bool).
  Fixpoint alookup (k : K) (l : list (K * V)) : option V :=
    match l with
    | [] => None
    | (k', v) :: r => if eqb k k' then Some v else alookup k r
    end.
  (* insert: replace the first binding of k, else append *)
  Fixpoint aupd (k : K) (v : V) (l : list (K * V)) : list (K * V) :=
    match l with
    | [] => [(k, v)]
    | (k', v') :: r => if eqb k k' then (k, v) :: r else (k', v') :: aupd k v r
    end.
  (* remove the first binding of k *)
  Fixpoint aremove (k : K) (l : list (K * V)) : list (K * V) :=
    match l with
    | [] => []
    | (k', v') :: r => if eqb k k' then r else (k', v') :: aremove k r
    end.
End Assoc.

Definition id := (N * N)%type.            (* RuneId { block, tx } *)
Definition id_eqb (a b : id) : bool := (fst a =? fst b) && (snd a =? snd b).
Definition id_ltb (a b : id) : bool :=
  (fst a <? fst b) || ((fst a =? fst b) && (snd a <? snd b)).

Definition bmap := list (id * N).          (* HashMap<RuneId, Lot> *)
Definition getd (r : id) (m : bmap) : N :=
  match alookup id_eqb r m with Some v => v | None => 0 end.

(* ------------------------------------------------------------------ Lot *)
Definition lot_add (a b : N) : Res N :=
  if a + b <=? U128_MAX then Ok (a + b) else Panic P_LOT_OVERFLOW.
Definition lot_sub (a b : N) : Res N :=
  if b <=? a then Ok (a - b) else Panic P_LOT_UNDERFLOW.

(* *m.entry(r).or_default() += v *)
Definition add_to (r : id) (v : N) (m : bmap) : Res bmap :=
  do s <- lot_add (getd r m) v; Ok (aupd id_eqb r s m).

(* ------------------------------------------------------------------ entries and terms *)
Record terms := mkTerms {
  t_amount : option N; t_cap : option N;
  t_h0 : option N; t_h1 : option N;     (* height: (start, end) *)
  t_o0 : option N; t_o1 : option N }.   (* offset: (start, end) *)

Record entry := mkEntry {
  e_block : N; e_burned : N; e_div : N; e_etching : N; e_mints : N; e_number : N;
  e_premine : N; e_rune : N; e_spacers : N; e_symbol : option N; e_terms : option terms;
  e_timestamp : N; e_turbo : bool }.

Definition set_mints (e : entry) (m : N) : entry :=
  mkEntry (e_block e) (e_burned e) (e_div e) (e_etching e) m (e_number e) (e_premine e)
          (e_rune e) (e_spacers e) (e_symbol e) (e_terms e) (e_timestamp e) (e_turbo e).
Definition set_burned (e : entry) (b : N) : entry :=
  mkEntry (e_block e) b (e_div e) (e_etching e) (e_mints e) (e_number e) (e_premine e)
          (e_rune e) (e_spacers e) (e_symbol e) (e_terms e) (e_timestamp e) (e_turbo e).

(* u64::saturating_add *)
Definition sat_add64 (a b : N) : N := N.min (a + b) U64_MAX.

(* relative.zip(absolute).map(f).or(relative).or(absolute) *)
Definition opt_combine (f : N -> N -> N) (rel abs : option N) : option N :=
  match rel, abs with
  | Some r, Some a => Some (f r a)
  | Some r, None => Some r
  | None, a => a
  end.

Definition rel_of (e : entry) (o : option N) : option N :=
  match o with Some off => Some (sat_add64 (e_block e) off) | None => None end.

Definition e_start (e : entry) : option N :=
  match e_terms e with
  | None => None
  | Some t => opt_combine N.max (rel_of e (t_o0 t)) (t_h0 t)
  end.
Definition e_end (e : entry) : option N :=
  match e_terms e with
  | None => None
  | Some t => opt_combine N.min (rel_of e (t_o1 t)) (t_h1 t)
  end.

Inductive mint_err := Unmintable | MStart (s : N) | MEnd (x : N) | MCap (c : N).

Definition odef (o : option N) : N := match o with Some v => v | None => 0 end.

Definition start_err (e : entry) (height : N) : option mint_err :=
  match e_start e with
  | Some s => if height <? s then Some (MStart s) else None
  | None => None
  end.
Definition end_err (e : entry) (height : N) : option mint_err :=
  match e_end e with
  | Some x => if x <=? height then Some (MEnd x) else None
  | None => None
  end.

Definition mintable (e : entry) (height : N) : mint_err + N :=
  match e_terms e with
  | None => inl Unmintable
  | Some t =>
    match start_err e height with
    | Some err => inl err
    | None =>
      match end_err e height with
      | Some err => inl err
      | None =>
        let cap := odef (t_cap t) in
        if cap <=? e_mints e then inl (MCap cap) else inr (odef (t_amount t))
      end
    end
  end.

Definition amount_of (e : entry) : N :=
  match e_terms e with Some t => odef (t_amount t) | None => 0 end.
Definition cap_of (e : entry) : N :=
  match e_terms e with Some t => odef (t_cap t) | None => 0 end.

(* ------------------------------------------------------------------ artifacts and transactions *)
Record edict := mkEdict { ed_id : id; ed_amount : N; ed_output : N }.
Record etching := mkEtching {
  et_div : option N; et_premine : option N; et_rune : option N; et_spacers : option N;
  et_symbol : option N; et_terms : option terms; et_turbo : bool }.
Inductive artifact :=
| Runestone (edicts : list edict) (et : option etching) (mint : option id) (pointer : option N)
| Cenotaph (et : option N) (mint : option id).

Definition art_mint (a : artifact) : option id :=
  match a with Runestone _ _ m _ => m | Cenotaph _ m => m end.

Record txin := mkIn {
  in_txid : N; in_vout : N;
  in_p2tr : bool;               (* node: spent output's script is p2tr *)
  in_height : N;                (* node: height of the block holding the spent output's tx *)
  in_pushes : list (list N) }.  (* data pushes of the input's tapscript up to the first parse error *)

Record txm := mkTx {
  tx_id : N; tx_ins : list txin;
  tx_outs : list bool;          (* script_pubkey.is_op_return() per output *)
  tx_art : option artifact }.

Definition outpoint := (N * N)%type.
Definition op_eqb (a b : outpoint) : bool := (fst a =? fst b) && (snd a =? snd b).
Definition btable := list (outpoint * bmap).      (* OUTPOINT_TO_RUNE_BALANCES *)
Definition etable := list (id * entry).           (* RUNE_ID_TO_RUNE_ENTRY *)

Record state := mkState {
  s_entries : etable;
  s_balances : btable;
  s_rune_to_id : list (N * id);                    (* RUNE_TO_RUNE_ID *)
  s_tx_to_rune : list (N * N);                     (* TRANSACTION_ID_TO_RUNE *)
  s_runes : N;                                     (* Statistic::Runes *)
  s_reserved : N }.                                (* Statistic::ReservedRunes *)

Definition empty_state : state := mkState [] [] [] [] 0 0.

(* RuneUpdater during one block: the tables plus the per-block `burned` map *)
Record upd := mkUpd { u_st : state; u_burned : bmap }.

(* ------------------------------------------------------------------ unallocated *)
Fixpoint add_all (l : bmap) (un : bmap) : Res bmap :=
  match l with
  | [] => Ok un
  | (r, b) :: l' => do un' <- add_to r b un; add_all l' un'
  end.

Fixpoint unallocated (ins : list txin) (bt : btable) (un : bmap) : Res (btable * bmap) :=
  match ins with
  | [] => Ok (bt, un)
  | i :: ins' =>
    let k := (in_txid i, in_vout i) in
    match alookup op_eqb k bt with
    | None => unallocated ins' bt un
    | Some l => do un' <- add_all l un; unallocated ins' (aremove op_eqb k bt) un'
    end
  end.

(* ------------------------------------------------------------------ mint *)
Definition mint (height : N) (es : etable) (r : id) : Res (etable * option N) :=
  match alookup id_eqb r es with
  | None => Ok (es, None)
  | Some e =>
    match mintable e height with
    | inl _ => Ok (es, None)
    | inr a =>
      if e_mints e + 1 <=? U128_MAX
      then Ok (aupd id_eqb r (set_mints e (e_mints e + 1)) es, Some a)
      else Panic P_MINTS_OVERFLOW
    end
  end.

(* ------------------------------------------------------------------ etched *)
(* Rune::commitment: little-endian bytes without trailing zero bytes *)
Fixpoint le_bytes (fuel : nat) (n : N) : list N :=
  match fuel with
  | O => []
  | S f => if n =? 0 then [] else (n mod 256) :: le_bytes f (n / 256)
  end.
Definition commitment (rune : N) : list N := le_bytes 16 rune.

Fixpoint list_N_eqb (a b : list N) : bool :=
  match a, b with
  | [], [] => true
  | x :: a', y :: b' => (x =? y) && list_N_eqb a' b'
  | _, _ => false
  end.

(* tx_commits_to_rune: per input, p2tr-ness and commit height are the same for every matching
   push, so the inner loop over instructions collapses to one test per input *)
Fixpoint tx_commits (height : N) (c : list N) (ins : list txin) : Res bool :=
  match ins with
  | [] => Ok false
  | i :: r =>
    if existsb (list_N_eqb c) (in_pushes i) && in_p2tr i then
      if height <? in_height i then Panic P_CONFIRMATIONS
      else if RU_COMMIT_CONFIRMATIONS <=? height - in_height i + 1 then Ok true
      else tx_commits height c r
    else tx_commits height c r
  end.

(* Rune::reserved(block, tx) = RESERVED + ((block << 32) | tx), tx : u32 *)
Definition reserved_name (block tx : N) : Res N :=
  let n := RU_RESERVED + (block * 4294967296 + tx) in
  if n <=? U128_MAX then Ok n else Panic P_RESERVED_OVERFLOW.

Definition is_some {A} (o : option A) : bool := match o with Some _ => true | None => false end.

Definition set_reserved (st : state) (n : N) : state :=
  mkState (s_entries st) (s_balances st) (s_rune_to_id st) (s_tx_to_rune st) (s_runes st) n.
Definition set_entries (st : state) (es : etable) : state :=
  mkState es (s_balances st) (s_rune_to_id st) (s_tx_to_rune st) (s_runes st) (s_reserved st).
Definition set_balances (st : state) (bt : btable) : state :=
  mkState (s_entries st) bt (s_rune_to_id st) (s_tx_to_rune st) (s_runes st) (s_reserved st).

(* the rune name asked for by the artifact: None = no etching, Some None = unnamed *)
Definition art_etching_rune (art : artifact) : option (option N) :=
  match art with
  | Runestone _ (Some et) _ _ => Some (et_rune et)
  | Runestone _ None _ _ => None
  | Cenotaph (Some rune) _ => Some (Some rune)
  | Cenotaph None _ => None
  end.

Definition etched (height txi minimum : N) (st : state) (tx : txm) (art : artifact)
  : Res (state * option (id * N)) :=
  match art_etching_rune art with
  | None => Ok (st, None)
  | Some (Some rune) =>
    if (rune <? minimum) || (RU_RESERVED <=? rune)
       || is_some (alookup N.eqb rune (s_rune_to_id st))
    then Ok (st, None)
    else
      do c <- tx_commits height (commitment rune) (tx_ins tx);
      if c then Ok (st, Some ((height, txi), rune)) else Ok (st, None)
  | Some None =>
    if s_reserved st + 1 <=? U64_MAX then
      do res <- reserved_name height txi;
      Ok (set_reserved st (s_reserved st + 1), Some ((height, txi), res))
    else Panic P_COUNTER_OVERFLOW
  end.

(* ------------------------------------------------------------------ create_rune_entry *)
Definition new_entry (art : artifact) (txid : N) (r : id) (rune number time : N) : entry :=
  match art with
  | Runestone _ (Some et) _ _ =>
    mkEntry (fst r) 0 (odef (et_div et)) txid 0 number (odef (et_premine et)) rune
            (odef (et_spacers et)) (et_symbol et) (et_terms et) time (et_turbo et)
  | _ => mkEntry (fst r) 0 0 txid 0 number 0 rune 0 None None time false
  end.

Definition create_rune_entry (time : N) (st : state) (txid : N) (art : artifact) (r : id) (rune : N)
  : Res state :=
  if s_runes st + 1 <=? U64_MAX then
    Ok (mkState (aupd id_eqb r (new_entry art txid r rune (s_runes st) time) (s_entries st))
                (s_balances st)
                (aupd N.eqb rune r (s_rune_to_id st))
                (aupd N.eqb txid rune (s_tx_to_rune st))
                (s_runes st + 1)
                (s_reserved st))
  else Panic P_COUNTER_OVERFLOW.

(* ------------------------------------------------------------------ edicts *)
Definition alloc := list bmap.                 (* Vec<HashMap<RuneId, Lot>>, one per output *)

Fixpoint set_nth {A} (n : nat) (x : A) (l : list A) : list A :=
  match l, n with
  | [], _ => []
  | _ :: r, O => x :: r
  | y :: r, S n' => y :: set_nth n' x r
  end.

(* the `allocate` closure; `balance` is unallocated[id] *)
Definition allocate (r : id) (un : bmap) (al : alloc) (amount : N) (output : N)
  : Res (bmap * alloc) :=
  if 0 <? amount then
    do b <- lot_sub (getd r un) amount;
    do m <- add_to r amount (nth (N.to_nat output) al []);
    Ok (aupd id_eqb r b un, set_nth (N.to_nat output) m al)
  else Ok (un, al).

(* indices of the non-OP_RETURN outputs, in order *)
Fixpoint destinations (outs : list bool) (i : N) : list N :=
  match outs with
  | [] => []
  | opret :: r => if opret then destinations r (i + 1) else i :: destinations r (i + 1)
  end.

(* amount == 0: balance / n each, +1 for the first `remainder` *)
Fixpoint split_even (r : id) (un : bmap) (al : alloc) (amount remainder : N) (i : N) (dests : list N)
  : Res (bmap * alloc) :=
  match dests with
  | [] => Ok (un, al)
  | o :: ds =>
    do a <- (if i <? remainder then lot_add amount 1 else Ok amount);
    do '(un', al') <- allocate r un al a o;
    split_even r un' al' amount remainder (i + 1) ds
  end.

(* amount != 0: min(amount, balance) to each in turn *)
Fixpoint split_fixed (r : id) (un : bmap) (al : alloc) (amount : N) (dests : list N)
  : Res (bmap * alloc) :=
  match dests with
  | [] => Ok (un, al)
  | o :: ds =>
    do '(un', al') <- allocate r un al (N.min amount (getd r un)) o;
    split_fixed r un' al' amount ds
  end.

Definition apply_edict (outs : list bool) (etched_id : option id) (un : bmap) (al : alloc) (e : edict)
  : Res (bmap * alloc) :=
  let n := N.of_nat (length outs) in
  if n <? ed_output e then Panic P_EDICT_OUTPUT else
  match (if id_eqb (ed_id e) (0, 0) then etched_id else Some (ed_id e)) with
  | None => Ok (un, al)
  | Some r =>
    match alookup id_eqb r un with
    | None => Ok (un, al)
    | Some balance =>
      if ed_output e =? n then
        let dests := destinations outs 0 in
        match dests with
        | [] => Ok (un, al)
        | _ :: _ =>
          let len := N.of_nat (length dests) in
          if ed_amount e =? 0
          then split_even r un al (balance / len) (balance mod len) 0 dests
          else split_fixed r un al (ed_amount e) dests
        end
      else
        allocate r un al (if ed_amount e =? 0 then balance else N.min (ed_amount e) balance)
                 (ed_output e)
    end
  end.

Fixpoint apply_edicts (outs : list bool) (etched_id : option id) (un : bmap) (al : alloc)
         (es : list edict) : Res (bmap * alloc) :=
  match es with
  | [] => Ok (un, al)
  | e :: r => do '(un', al') <- apply_edict outs etched_id un al e; apply_edicts outs etched_id un' al' r
  end.

(* ------------------------------------------------------------------ finalisation *)
(* for (id, balance) in m { if balance > 0 (or always) { *acc.entry(id).or_default() += balance } } *)
Fixpoint pour (nonzero_only : bool) (m : bmap) (acc : bmap) : Res bmap :=
  match m with
  | [] => Ok acc
  | (r, b) :: m' =>
    if nonzero_only && (b =? 0) then pour nonzero_only m' acc
    else do acc' <- add_to r b acc; pour nonzero_only m' acc'
  end.

Fixpoint first_non_opreturn (outs : list bool) (i : N) : option N :=
  match outs with
  | [] => None
  | opret :: r => if opret then first_non_opreturn r (i + 1) else Some i
  end.

(* "update outpoint balances": per output, in order *)
Fixpoint store_outputs (txid : N) (outs : list bool) (al : alloc) (vout : N)
         (bt : btable) (burned : bmap) : Res (btable * bmap) :=
  match outs, al with
  | opret :: outs', m :: al' =>
    match m with
    | [] => store_outputs txid outs' al' (vout + 1) bt burned
    | _ :: _ =>
      if opret then
        do burned' <- pour false m burned;
        store_outputs txid outs' al' (vout + 1) bt burned'
      else store_outputs txid outs' al' (vout + 1) (aupd op_eqb (txid, vout) m bt) burned
    end
  | _, _ => Ok (bt, burned)
  end.

(* ------------------------------------------------------------------ index_runes *)
(* if let Some(id) = artifact.mint() && let Some(amount) = self.mint(id)? { unallocated[id] += amount } *)
Definition mint_phase (height : N) (st : state) (un : bmap) (art : artifact) : Res (state * bmap) :=
  match art_mint art with
  | None => Ok (st, un)
  | Some r =>
    do '(es, am) <- mint height (s_entries st) r;
    match am with
    | None => Ok (set_entries st es, un)
    | Some a => do un' <- add_to r a un; Ok (set_entries st es, un')
    end
  end.

Definition premine_of (etching : option etching) : N :=
  match etching with Some e => odef (et_premine e) | None => 0 end.

(* if let Artifact::Runestone(runestone) = artifact { premine; edicts } *)
Definition edict_phase (outs : list bool) (art : artifact) (et : option (id * N)) (un : bmap) (al : alloc)
  : Res (bmap * alloc) :=
  match art with
  | Runestone edicts etching _ _ =>
    do un <-
      match et with
      | Some (r, _) => add_to r (premine_of etching) un
      | None => Ok un
      end;
    apply_edicts outs (option_map fst et) un al edicts
  | Cenotaph _ _ => Ok (un, al)
  end.

Definition create_phase (time : N) (st : state) (txid : N) (art : artifact) (et : option (id * N))
  : Res state :=
  match et with
  | Some (r, rune) => create_rune_entry time st txid art r rune
  | None => Ok st
  end.

(* if let Some(artifact) = &artifact { mint; etched; premine + edicts; create_rune_entry } *)
Definition art_phase (height time minimum txi : N) (st : state) (tx : txm) (un : bmap) (al : alloc)
  : Res (state * bmap * alloc) :=
  match tx_art tx with
  | None => Ok (st, un, al)
  | Some art =>
    do '(st, un) <- mint_phase height st un art;
    do '(st, et) <- etched height txi minimum st tx art;
    do '(un, al) <- edict_phase (tx_outs tx) art et un al;
    do st <- create_phase time st (tx_id tx) art et;
    Ok (st, un, al)
  end.

(* cenotaph: everything unallocated is burned; else: to the pointer / first non-OP_RETURN output /
   burned when there is none.  Returns the allocation and the transaction's `burned` map. *)
Definition default_phase (outs : list bool) (art : option artifact) (un : bmap) (al : alloc)
  : Res (alloc * bmap) :=
  match art with
  | Some (Cenotaph _ _) => do b <- pour false un []; Ok (al, b)
  | _ =>
    let pointer := match art with Some (Runestone _ _ _ p) => p | _ => None end in
    do vout <-
      match pointer with
      | Some p => if p <? N.of_nat (length outs) then Ok (Some p) else Panic P_POINTER
      | None => Ok (first_non_opreturn outs 0)
      end;
    match vout with
    | Some v =>
      do m <- pour true un (nth (N.to_nat v) al []);
      Ok (set_nth (N.to_nat v) m al, [])
    | None => do b <- pour true un []; Ok (al, b)
    end
  end.

Definition index_runes (height time minimum : N) (txi : N) (u : upd) (tx : txm) : Res upd :=
  let st := u_st u in
  let outs := tx_outs tx in
  (* let mut unallocated = self.unallocated(tx)?; *)
  do '(bt, un) <- unallocated (tx_ins tx) (s_balances st) [];
  do '(st, un, al) <- art_phase height time minimum txi (set_balances st bt) tx un (repeat [] (length outs));
  do '(al, burned) <- default_phase outs (tx_art tx) un al;
  (* update outpoint balances *)
  do '(bt, burned) <- store_outputs (tx_id tx) outs al 0 (s_balances st) burned;
  (* increment entries with burned runes *)
  do ub <- pour false burned (u_burned u);
  Ok (mkUpd (set_balances st bt) ub).

(* ------------------------------------------------------------------ update (end of block) *)
Fixpoint update_burned (bl : bmap) (es : etable) : Res etable :=
  match bl with
  | [] => Ok es
  | (r, b) :: bl' =>
    match alookup id_eqb r es with
    | None => Panic P_BURNED_NO_ENTRY
    | Some e =>
      if e_burned e + b <=? U128_MAX
      then update_burned bl' (aupd id_eqb r (set_burned e (e_burned e + b)) es)
      else Panic P_BURNED_OVERFLOW
    end
  end.

(* ------------------------------------------------------------------ block driver *)
(* Rune::minimum_at_height(network, height), network given by its first rune height *)
Definition minimum_at_height (first : N) (height : N) : N :=
  let offset := N.min (height + 1) U32_MAX in
  let start := first in
  let end_ := start + RU_SUBSIDY_HALVING_INTERVAL in
  if offset <? start then nth (N.to_nat RU_UNLOCKED) RU_STEPS 0
  else if end_ <=? offset then 0
  else
    let progress := offset - start in
    let length := RU_UNLOCKED - progress / RU_UNLOCK_INTERVAL in
    let e := nth (N.to_nat (length - 1)) RU_STEPS 0 in
    let s := nth (N.to_nat length) RU_STEPS 0 in
    let remainder := progress mod RU_UNLOCK_INTERVAL in
    s - ((s - e) * remainder / RU_UNLOCK_INTERVAL).

Record block := mkBlock { b_time : N; b_txs : list txm }.

Fixpoint index_txs (height time minimum : N) (txi : N) (u : upd) (txs : list txm) : Res upd :=
  match txs with
  | [] => Ok u
  | tx :: r => do u' <- index_runes height time minimum txi u tx; index_txs height time minimum (txi + 1) u' r
  end.

(* the `if self.index.index_runes && self.height >= first_rune_height` part of index_block *)
Definition index_block (first : N) (height : N) (st : state) (b : block) : Res state :=
  if height <? first then Ok st else
  do u <- index_txs height (b_time b) (minimum_at_height first height) 0 (mkUpd st []) (b_txs b);
  do es <- update_burned (u_burned u) (s_entries (u_st u));
  Ok (set_entries (u_st u) es).

(* blocks at consecutive heights from [height]; returns the state after every block *)
Fixpoint index_chain (first : N) (height : N) (st : state) (bs : list block) : Res (list state) :=
  match bs with
  | [] => Ok []
  | b :: r =>
    do st' <- index_block first height st b;
    do rest <- index_chain first (height + 1) st' r;
    Ok (st' :: rest)
  end.

(* ================================================================== wire *)
(* readers: list Z -> option (A * list Z) *)
Definition rd (A : Type) := list Z -> option (A * list Z).
Definition rN : rd N := fun l => match l with x :: r => Some (nZ x, r) | [] => None end.
Definition rB : rd bool := fun l => match l with x :: r => Some (negb (Z.eqb x 0), r) | [] => None end.
Definition rOpt {A} (p : rd A) : rd (option A) := fun l =>
  match l with
  | 0%Z :: r => Some (None, r)
  | _ :: r => match p r with Some (v, r') => Some (Some v, r') | None => None end
  | [] => None
  end.
Fixpoint rRep {A} (p : rd A) (n : nat) : rd (list A) := fun l =>
  match n with
  | O => Some ([], l)
  | S n' =>
    match p l with
    | Some (x, r) => match rRep p n' r with Some (xs, r') => Some (x :: xs, r') | None => None end
    | None => None
    end
  end.
(* a count that cannot exceed what is left on the line *)
Definition rList {A} (p : rd A) : rd (list A) := fun l =>
  match l with
  | n :: r => if (Z.of_nat (length r) <? n)%Z then None else rRep p (Z.to_nat n) r
  | [] => None
  end.
Definition rBytes : rd (list N) := rList rN.
Notation "'rdo' x <- p ; k" := (fun l => match p l with Some (x, r) => k r | None => None end)
  (at level 200, x name, p at level 100, k at level 200, right associativity).
Definition rRet {A} (a : A) : rd A := fun l => Some (a, l).

Definition rId : rd id := rdo b <- rN; rdo t <- rN; rRet (b, t).
Definition rTerms : rd terms :=
  rdo a <- rOpt rN; rdo c <- rOpt rN; rdo h0 <- rOpt rN; rdo h1 <- rOpt rN;
  rdo o0 <- rOpt rN; rdo o1 <- rOpt rN; rRet (mkTerms a c h0 h1 o0 o1).
Definition rEdict : rd edict :=
  rdo i <- rId; rdo a <- rN; rdo o <- rN; rRet (mkEdict i a o).
Definition rEtching : rd etching :=
  rdo d <- rOpt rN; rdo p <- rOpt rN; rdo r <- rOpt rN; rdo s <- rOpt rN; rdo y <- rOpt rN;
  rdo t <- rOpt rTerms; rdo tb <- rB; rRet (mkEtching d p r s y t tb).
(* artifact: 0 | 1 edicts etching mint pointer | 2 etching-rune mint *)
Definition rArtifact : rd (option artifact) := fun l =>
  match l with
  | 0%Z :: r => Some (None, r)
  | 1%Z :: r =>
    (rdo es <- rList rEdict; rdo et <- rOpt rEtching; rdo m <- rOpt rId; rdo p <- rOpt rN;
     rRet (Some (Runestone es et m p))) r
  | 2%Z :: r =>
    (rdo et <- rOpt rN; rdo m <- rOpt rId; rRet (Some (Cenotaph et m))) r
  | _ => None
  end.
(* input: txnum vout | witness items (harness only) | p2tr height pushes *)
Definition rIn : rd txin :=
  rdo t <- rN; rdo v <- rN; rdo _w <- rList rBytes; rdo p <- rB; rdo h <- rN;
  rdo ps <- rList rBytes; rRet (mkIn t v p h ps).
(* output: kind 0 (p2wpkh) | 1 (p2tr) | 2 script-bytes ; OP_RETURN iff first script byte = 0x6a *)
Definition rOut : rd bool := fun l =>
  match l with
  | 2%Z :: r =>
    match rBytes r with
    | Some (bs, r') => Some (match bs with b :: _ => b =? 106 | [] => false end, r')
    | None => None
    end
  | _ :: r => Some (false, r)
  | [] => None
  end.
Definition rTx : rd txm :=
  rdo t <- rN; rdo ins <- rList rIn; rdo outs <- rList rOut; rdo a <- rArtifact;
  rRet (mkTx t ins outs a).
Definition rBlock : rd block := rdo t <- rN; rdo txs <- rList rTx; rRet (mkBlock t txs).

(* ---------- emission ---------- *)
Section Sort.
  Context {A : Type} (ltb : A -> A -> bool).
  Fixpoint sinsert (x : A) (l : list A) : list A :=
    match l with
    | [] => [x]
    | y :: r => if ltb y x then y :: sinsert x r else x :: l
    end.
  Definition isort (l : list A) : list A := fold_right sinsert [] l.
End Sort.

Definition wOpt (o : option N) : list Z := write_opt o.
Definition wTerms (t : terms) : list Z :=
  wOpt (t_amount t) ++ wOpt (t_cap t) ++ wOpt (t_h0 t) ++ wOpt (t_h1 t) ++ wOpt (t_o0 t) ++ wOpt (t_o1 t).
Definition wEntry (e : entry) : list Z :=
  [zN (e_block e); zN (e_burned e); zN (e_div e); zN (e_etching e); zN (e_mints e); zN (e_number e);
   zN (e_premine e); zN (e_rune e); zN (e_spacers e)] ++ wOpt (e_symbol e) ++
  (match e_terms e with None => [0%Z] | Some t => 1%Z :: wTerms t end) ++
  [zN (e_timestamp e); zb (e_turbo e)].
Definition wBal (m : bmap) : list Z :=
  zN (N.of_nat (length m)) ::
  flat_map (fun x => [zN (fst (fst x)); zN (snd (fst x)); zN (snd x)])
           (isort (fun a b => id_ltb (fst a) (fst b)) m).
Definition wState (st : state) : list Z :=
  [zN (s_runes st); zN (s_reserved st)] ++
  zN (N.of_nat (length (s_entries st))) ::
  flat_map (fun x => [zN (fst (fst x)); zN (snd (fst x))] ++ wEntry (snd x))
           (isort (fun a b => id_ltb (fst a) (fst b)) (s_entries st)) ++
  zN (N.of_nat (length (s_balances st))) ::
  flat_map (fun x => [zN (fst (fst x)); zN (snd (fst x))] ++ wBal (snd x))
           (isort (fun a b => id_ltb (fst a) (fst b)) (s_balances st)) ++
  zN (N.of_nat (length (s_rune_to_id st))) ::
  flat_map (fun x => [zN (fst x); zN (fst (snd x)); zN (snd (snd x))])
           (isort (fun a b => fst a <? fst b) (s_rune_to_id st)) ++
  zN (N.of_nat (length (s_tx_to_rune st))) ::
  flat_map (fun x => [zN (fst x); zN (snd x)])
           (isort (fun a b => fst a <? fst b) (s_tx_to_rune st)).

(* ---------- entry points ---------- *)
(* op 0: RuneEntry::mintable.  0 block mints terms(opt) height
         -> [0; amount] | [1] Unmintable | [2; s] Start | [3; e] End | [4; cap] Cap *)
Definition run_mintable (l : list Z) : list Z :=
  match (rdo b <- rN; rdo m <- rN; rdo t <- rOpt rTerms; rdo h <- rN;
         rRet (mintable (mkEntry b 0 0 0 m 0 0 0 0 None t 0 false) h)) l with
  | Some (inr a, []) => [0%Z; zN a]
  | Some (inl Unmintable, []) => [1%Z]
  | Some (inl (MStart s), []) => [2%Z; zN s]
  | Some (inl (MEnd x), []) => [3%Z; zN x]
  | Some (inl (MCap c), []) => [4%Z; zN c]
  | _ => [(-1)%Z]
  end.

(* op 1: chain.  1 first_rune_height start_height blocks
         -> the state after every block, concatenated; [-2] on Panic *)
Definition run_chain (l : list Z) : list Z :=
  match (rdo f <- rN; rdo h <- rN; rdo bs <- rList rBlock; rRet (f, h, bs)) l with
  | Some ((f, h, bs), []) =>
    match index_chain f h empty_state bs with
    | Ok sts => flat_map wState sts
    | Err _ => [(-3)%Z]
    | Panic _ => [(-2)%Z]
    end
  | _ => [(-1)%Z]
  end.

Definition run_runes (inp : list Z) : list Z :=
  match inp with
  | 0%Z :: r => run_mintable r
  | 1%Z :: r => run_chain r
  | _ => [(-1)%Z]
  end.

Definition run_C08 := run_runes.
Definition run_C09 := run_runes.
Definition run_C10 := run_runes.
Definition run_C11 := run_runes.
