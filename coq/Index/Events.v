(* C37, rune half: the events RuneUpdater emits (src/index/event.rs RuneMinted / RuneEtched /
   RuneTransferred / RuneBurned), added to the model of Index/Runes.v, and the replay of an event
   stream into a view of the rune state.

   Emission points mirrored (rune_updater.rs):
     index_runes        RuneMinted right after a successful self.mint(id)
     create_rune_entry  RuneEtched (after the edicts, before the balances are written)
     index_runes        RuneTransferred for every (id, balance) of every stored output, outputs in
                        vout order, ids sorted (the code sorts before storing)
     index_runes        RuneBurned for every entry of the transaction's `burned` HashMap (iteration
                        order unobservable: emitted here sorted by id, the harness sorts too)
   [index_runes_ev] is [index_runes] with the event list as second result; the first result is
   the same function (Events_proofs.index_runes_ev_fst). *)
From OrdV Require Import Base.Prelude Base.Wire Generated Index.Runes.

Inductive event :=
| EvMinted (r : id) (a : N)
| EvEtched (r : id) (txid : N)
| EvTransferred (txid vout : N) (r : id) (a : N)
| EvBurned (r : id) (a : N).

Definition mint_phase_ev (height : N) (st : state) (un : bmap) (art : artifact)
  : Res (state * bmap * list event) :=
  match art_mint art with
  | None => Ok (st, un, [])
  | Some r =>
    do '(es, am) <- mint height (s_entries st) r;
    match am with
    | None => Ok (set_entries st es, un, [])
    | Some a => do un' <- add_to r a un; Ok (set_entries st es, un', [EvMinted r a])
    end
  end.

Definition etched_event (txid : N) (et : option (id * N)) : list event :=
  match et with Some (r, _) => [EvEtched r txid] | None => [] end.

Definition art_phase_ev (height time minimum txi : N) (st : state) (tx : txm) (un : bmap) (al : alloc)
  : Res (state * bmap * alloc * list event) :=
  match tx_art tx with
  | None => Ok (st, un, al, [])
  | Some art =>
    do '(st, un, ev1) <- mint_phase_ev height st un art;
    do '(st, et) <- etched height txi minimum st tx art;
    do '(un, al) <- edict_phase (tx_outs tx) art et un al;
    do st <- create_phase time st (tx_id tx) art et;
    Ok (st, un, al, ev1 ++ etched_event (tx_id tx) et)
  end.

Definition by_id (a b : id * N) : bool := id_ltb (fst a) (fst b).

(* one RuneTransferred per (id, balance) of every stored (non-OP_RETURN, non-empty) output *)
Fixpoint transfer_events (txid : N) (outs : list bool) (al : alloc) (vout : N) : list event :=
  match outs, al with
  | opret :: outs', m :: al' =>
    (if opret then [] else map (fun x => EvTransferred txid vout (fst x) (snd x)) (isort by_id m))
    ++ transfer_events txid outs' al' (vout + 1)
  | _, _ => []
  end.

Definition burned_events (burned : bmap) : list event :=
  map (fun x => EvBurned (fst x) (snd x)) (isort by_id burned).

Definition index_runes_ev (height time minimum : N) (txi : N) (u : upd) (tx : txm)
  : Res (upd * list event) :=
  let st := u_st u in
  let outs := tx_outs tx in
  do '(bt, un) <- unallocated (tx_ins tx) (s_balances st) [];
  do '(st, un, al, ev1) <-
    art_phase_ev height time minimum txi (set_balances st bt) tx un (repeat [] (length outs));
  do '(al, burned) <- default_phase outs (tx_art tx) un al;
  do '(bt, burned) <- store_outputs (tx_id tx) outs al 0 (s_balances st) burned;
  do ub <- pour false burned (u_burned u);
  Ok (mkUpd (set_balances st bt) ub,
      ev1 ++ transfer_events (tx_id tx) outs al 0 ++ burned_events burned).

(* events of the transactions of a block, one list per transaction *)
Fixpoint index_txs_ev (height time minimum : N) (txi : N) (u : upd) (txs : list txm)
  : Res (upd * list (list event)) :=
  match txs with
  | [] => Ok (u, [])
  | tx :: r =>
    do '(u', ev) <- index_runes_ev height time minimum txi u tx;
    do '(u'', evs) <- index_txs_ev height time minimum (txi + 1) u' r;
    Ok (u'', ev :: evs)
  end.

Definition index_block_ev (first : N) (height : N) (st : state) (b : block)
  : Res (state * list (list event)) :=
  if height <? first then Ok (st, map (fun _ => []) (b_txs b)) else
  do '(u, evs) <- index_txs_ev height (b_time b) (minimum_at_height first height) 0 (mkUpd st []) (b_txs b);
  do es <- update_burned (u_burned u) (s_entries (u_st u));
  Ok (set_entries (u_st u) es, evs).

Fixpoint index_chain_ev (first : N) (height : N) (st : state) (bs : list block)
  : Res (list (state * list (list event))) :=
  match bs with
  | [] => Ok []
  | b :: r =>
    do '(st', evs) <- index_block_ev first height st b;
    do rest <- index_chain_ev first (height + 1) st' r;
    Ok ((st', evs) :: rest)
  end.

(* ================================================================== replay *)
(* what a consumer of the event stream can reconstruct: the set of rune ids (with the etching
   transaction), mint counts, burned totals, balances per output *)
Record view := mkView {
  v_ids : list (id * N);
  v_mints : bmap;
  v_burned : bmap;
  v_bal : btable }.

Definition empty_view : view := mkView [] [] [] [].

Definition credit (r : id) (a : N) (m : bmap) : bmap := aupd id_eqb r (getd r m + a) m.
Definition lookupd (k : outpoint) (bt : btable) : bmap :=
  match alookup op_eqb k bt with Some m => m | None => [] end.

Definition replay_event (v : view) (e : event) : view :=
  match e with
  | EvMinted r _ => mkView (v_ids v) (credit r 1 (v_mints v)) (v_burned v) (v_bal v)
  | EvEtched r t => mkView (aupd id_eqb r t (v_ids v)) (v_mints v) (v_burned v) (v_bal v)
  | EvTransferred t o r a =>
    mkView (v_ids v) (v_mints v) (v_burned v)
           (aupd op_eqb (t, o) (credit r a (lookupd (t, o) (v_bal v))) (v_bal v))
  | EvBurned r a => mkView (v_ids v) (v_mints v) (credit r a (v_burned v)) (v_bal v)
  end.

(* the chain tells which outputs a transaction spends: their balances are dropped *)
Definition drop_inputs (ins : list txin) (bt : btable) : btable :=
  fold_left (fun bt i => aremove op_eqb (in_txid i, in_vout i) bt) ins bt.

Definition replay_tx (v : view) (tx : txm) (evs : list event) : view :=
  fold_left replay_event evs
            (mkView (v_ids v) (v_mints v) (v_burned v) (drop_inputs (tx_ins tx) (v_bal v))).

Fixpoint replay_txs (v : view) (txs : list txm) (evs : list (list event)) : view :=
  match txs, evs with
  | tx :: txs', ev :: evs' => replay_txs (replay_tx v tx ev) txs' evs'
  | _, _ => v
  end.

(* nothing is indexed (and no balance can be spent) below the first rune height *)
Definition replay_block (first height : N) (v : view) (b : block) (evs : list (list event)) : view :=
  if height <? first then v else replay_txs v (b_txs b) evs.

(* the views after every block *)
Fixpoint replay_chain (first height : N) (v : view) (bs : list block)
         (res : list (state * list (list event))) : list view :=
  match bs, res with
  | b :: bs', (_, evs) :: res' =>
    let v' := replay_block first height v b evs in
    v' :: replay_chain first (height + 1) v' bs' res'
  | _, _ => []
  end.

(* ================================================================== wire *)
(* op 2: chain (same encoding as op 1) -> for every block, for every transaction:
     n  { 0 idb idt amount | 1 idb idt | 2 vout idb idt amount | 3 idb idt amount }*n *)
Definition wEvent (e : event) : list Z :=
  match e with
  | EvMinted r a => [0%Z; zN (fst r); zN (snd r); zN a]
  | EvEtched r _ => [1%Z; zN (fst r); zN (snd r)]
  | EvTransferred _ o r a => [2%Z; zN o; zN (fst r); zN (snd r); zN a]
  | EvBurned r a => [3%Z; zN (fst r); zN (snd r); zN a]
  end.
Definition wTxEvents (evs : list event) : list Z :=
  zN (N.of_nat (length evs)) :: flat_map wEvent evs.

Definition run_events (l : list Z) : list Z :=
  match (rdo f <- rN; rdo h <- rN; rdo bs <- rList rBlock; rRet (f, h, bs)) l with
  | Some ((f, h, bs), []) =>
    match index_chain_ev f h empty_state bs with
    | Ok r => flat_map (fun x => flat_map wTxEvents (snd x)) r
    | Err _ => [(-3)%Z]
    | Panic _ => [(-2)%Z]
    end
  | _ => [(-1)%Z]
  end.

Definition run_C37 (inp : list Z) : list Z :=
  match inp with
  | 2%Z :: r => run_events r
  | 3%Z :: r => run_events r   (* same chain, indexed through a capacity-1 event channel *)
  | _ => [(-1)%Z]
  end.
