(* C37, inscription half: the inscription indexer model of Index/Inscr.v returning, next to the state, the
   InscriptionCreated / InscriptionTransferred events (src/index/event.rs) in emission order
   (the two `sender.blocking_send` sites of update_inscription_location).

   The flotsam of Index/Inscr.v does not carry Origin::Old's old_satpoint (no index table depends on it); the
   event run keeps it in a ghost table [osrc]: sequence number -> satpoint it was taken from, written when a
   transaction takes its input entries. *)
From OrdV Require Import Base.Prelude Base.Wire Generated Index.Inscr.

Inductive ievent :=
| EvCreated (height charms : N) (id : iid) (loc : option (outpoint * N)) (parents : list iid) (seq : N)
| EvTransferred (height : N) (id : iid) (new_loc old_loc : outpoint * N) (seq : N).

Definition osrc_t := list (N * (outpoint * N)).

Definition event_of (osrc : osrc_t) (h : N) (f : flotsam) (sp : outpoint * N) (b b' : bst) : ievent :=
  match f_origin f with
  | OOld seq =>
    EvTransferred h (f_id f) sp (match tget N.eqb seq osrc with Some x => x | None => (null_op, 0) end) seq
  | ONew _ _ _ ps _ ub _ =>
    EvCreated h (match tget N.eqb (b_next b) (s_entries (b_st b')) with Some e => i_charms e | None => 0 end)
              (f_id f) (if ub then None else Some sp)
              (filter (fun p => is_some (tget pair_eqb p (s_id2seq (b_st b)))) ps) (b_next b)
  end.

Fixpoint apply_locs_ev (h : N) (rg : option (list (N * N))) (osrc : osrc_t)
         (l : list (outpoint * N * flotsam * bool)) (b : bst) : Res (bst * list ievent) :=
  match l with
  | [] => Ok (b, [])
  | (op, off, f, opret) :: r =>
    do b' <- update_location h rg f (op, off) opret b;
    do '(b'', evs) <- apply_locs_ev h rg osrc r b';
    Ok (b'', event_of osrc h f (op, off) b b' :: evs)
  end.

Fixpoint apply_lost_ev (h : N) (rg : option (list (N * N))) (osrc : osrc_t) (ov : N)
         (l : list flotsam) (b : bst) : Res (bst * list ievent) :=
  match l with
  | [] => Ok (b, [])
  | f :: r =>
    do off <- csub 5 (b_lost b + f_offset f) ov;
    do b' <- update_location h rg f (null_op, off) false b;
    do '(b'', evs) <- apply_lost_ev h rg osrc ov r b';
    Ok (b'', event_of osrc h f (null_op, off) b b' :: evs)
  end.

Section Ev.
Variable cfg : config.

Definition index_inscriptions_ev (osrc : osrc_t) (height : N) (t : tx) (ents : list uentry)
           (ranges : option (list (N * N))) (b : bst) : Res (bst * list ievent) :=
  do '(floating, tiv) <- floating_of cfg (b_st b) height t ents;
  let cb := tx_is_coinbase t in
  let all := if cb then floating ++ b_flot b else floating in
  let b0 := if cb then set_flot b [] else b in
  let sorted := sort_by f_offset all in
  let '(locs, rest, ov) := assign (t_id t) 0 0 (t_outs t) sorted in
  do '(b1, ev1) <- apply_locs_ev height ranges osrc locs b0;
  if cb then
    do '(b2, ev2) <- apply_lost_ev height ranges osrc ov rest b1;
    do d <- csub 5 (b_reward b2) ov;
    Ok (mkB (b_st b2) (b_flot b2) (b_reward b2) (b_lost b2 + d) (b_blessed b2) (b_cursed b2) (b_unb b2) (b_next b2)
            (b_cb_ranges b2) (b_lost_ranges b2), ev1 ++ ev2)
  else
    do rest' <- rebase (b_reward b1) ov rest;
    do d <- csub 5 tiv ov;
    Ok (mkB (b_st b1) (b_flot b1 ++ rest') (b_reward b1 + d) (b_lost b1) (b_blessed b1) (b_cursed b1) (b_unb b1)
            (b_next b1) (b_cb_ranges b1) (b_lost_ranges b1), ev1).

(* old satpoints of the inscriptions held by the inputs *)
Fixpoint osrc_add (ins : list outpoint) (ents : list uentry) (osrc : osrc_t) : osrc_t :=
  match ins, ents with
  | p :: ir, u :: ur =>
    osrc_add ir ur (fold_left (fun o so => tset N.eqb (fst so) (p, snd so) o) (u_insc u) osrc)
  | _, _ => osrc
  end.

Definition index_tx_ev (osrc : osrc_t) (height : N) (insc first : bool) (t : tx) (b : bst)
  : Res (bst * osrc_t * list ievent) :=
  let st := b_st b in
  do '(ents, utxo1) <- (if first then Ok ([], s_utxo st) else take_inputs (t_ins t) (s_utxo st));
  do '(per_out, in_ranges, b1) <-
     (if c_sats cfg then
        let input := if first then b_cb_ranges b else concat (map u_ranges ents) in
        do '(per_out, lft) <- split_sats (t_outs t) input;
        Ok (per_out, Some input,
            if first
            then mkB st (b_flot b) (b_reward b) (b_lost b) (b_blessed b) (b_cursed b) (b_unb b) (b_next b)
                     (b_cb_ranges b) (b_lost_ranges b ++ lft)
            else mkB st (b_flot b) (b_reward b) (b_lost b) (b_blessed b) (b_cursed b) (b_unb b) (b_next b)
                     (b_cb_ranges b ++ lft) (b_lost_ranges b))
      else Ok ([], None, b));
  let utxo2 := put_outputs cfg (t_id t) 0 (t_outs t) per_out utxo1 in
  let b2 := set_st b1 (with_utxo st utxo2) in
  let osrc' := osrc_add (t_ins t) ents osrc in
  if insc then
    do '(b', evs) <- index_inscriptions_ev osrc' height t ents in_ranges b2; Ok (b', osrc', evs)
  else Ok (b2, osrc', []).

Fixpoint index_txs_ev (osrc : osrc_t) (height : N) (insc : bool) (l : list tx) (b : bst)
  : Res (bst * osrc_t * list ievent) :=
  match l with
  | [] => Ok (b, osrc, [])
  | t :: r =>
    do '(b', o', e1) <- index_tx_ev osrc height insc false t b;
    do '(b'', o'', e2) <- index_txs_ev o' height insc r b';
    Ok (b'', o'', e1 ++ e2)
  end.

(* the block: the same as Inscr.index_block, collecting the events of the block *)
Definition index_block_ev (height : N) (blk : block) (st : state) : Res (state * list ievent) :=
  let insc := c_first cfg <=? height in
  do cb <- (if c_sats cfg then
              if 0 <? subsidy height then
                do s <- starting_sat height; Ok [(s, s + subsidy height)]
              else Ok []
            else Ok []);
  let b0 := mkB st [] (subsidy height) (s_lost st) (s_blessed st) (s_cursed st) (s_unbound st)
                (next_seq_of (s_entries st)) cb [] in
  do '(b1, o1, e1) <- index_txs_ev [] height insc (tl blk) b0;
  do '(b2, e2) <- (match blk with
                   | [] => Ok (b1, [])
                   | t0 :: _ => do '(b2, _, e2) <- index_tx_ev o1 height insc true t0 b1; Ok (b2, e2)
                   end);
  let st2 := b_st b2 in
  let h2last := if insc then tset N.eqb height (b_next b2) (s_h2last st2) else s_h2last st2 in
  let utxo := match b_lost_ranges b2 with
              | [] => s_utxo st2
              | lr =>
                let e := match tget pair_eqb null_op (s_utxo st2) with Some e => e | None => empty_entry end in
                tset pair_eqb null_op (mkU (u_value e) (u_ranges e ++ lr) (u_insc e)) (s_utxo st2)
              end in
  let lost := if c_sats cfg then s_lost st + ranges_size (b_lost_ranges b2) else b_lost b2 in
  Ok (mkSt utxo (s_entries st2) (s_id2seq st2) (s_num2seq st2) (s_sat2seq st2) (s_children st2) (s_coll st2)
           (s_latest st2) h2last (b_blessed b2) (b_cursed b2) (b_unb b2) lost, e1 ++ e2).

(* per block: the events of that block *)
Fixpoint index_chain_ev (height : N) (c : list block) (st : state) : Res (state * list (list ievent)) :=
  match c with
  | [] => Ok (st, [])
  | blk :: r =>
    do '(st', e) <- index_block_ev height blk st;
    do '(st'', es) <- index_chain_ev (height + 1) r st';
    Ok (st'', e :: es)
  end.
End Ev.

(* ---- wire: the state dump of Inscr.emit_state followed by the events, block by block *)
Definition emit_loc (l : outpoint * N) : list Z := [zN (fst (fst l)); zN (snd (fst l)); zN (snd l)].

Definition emit_event (e : ievent) : list Z :=
  match e with
  | EvCreated h ch id loc ps seq =>
    [0%Z; zN h; zN ch; zN (fst id); zN (snd id)]
      ++ (match loc with None => [0%Z] | Some l => 1%Z :: emit_loc l end)
      ++ emit_list emit_pair ps ++ [zN seq]
  | EvTransferred h id nl ol seq =>
    [1%Z; zN h; zN (fst id); zN (snd id)] ++ emit_loc nl ++ emit_loc ol ++ [zN seq]
  end.

Definition run_inscr_ev (inp : list Z) : list Z :=
  let (cfg, c) := parse_case inp in
  match index_chain_ev cfg 0 c empty_state with
  | Ok (st, evs) => emit_state cfg st ++ emit_list (emit_list emit_event) evs
  | Err e => [(-1)%Z; zN e]
  | Panic t => [(-2)%Z]
  end.
