(* C16 — wire entry point of the chain-level "malformed stream" correspondence.

   The harness (harness/hx-total) installs a generated regtest chain in a mock node, lets the
   real ord::Index index it under six configurations and reports, per configuration,
   0 = update() returned Ok, 1 = it returned an error, -2 = it panicked.

   There is no executable chain-level model behind this entry point: it is the constant
   prediction "every valid chain indexes successfully under every configuration", which is
   exactly what property C16 claims.  What is PROVED about totality lives in the component
   developments and is collected in Properties/C16.v (envelope parsing, runestone
   deciphering, varint decoding, bounded properties decompression, storage builders); the
   remaining panic sites of the indexing path are covered by this correspondence only
   (see props/C16.json).  The case line (a whole chain) is ignored. *)
From OrdV Require Import Base.Prelude.

Definition N_CONFIGURATIONS : nat := 6.

Definition run_C16 (inp : list Z) : list Z := repeat 0%Z N_CONFIGURATIONS.
