(* Model of the sat index (ord --index-sats) — properties C01 and C02.

   Impl (what the code does):
     src/index/updater.rs
       Updater::index_utxo_entries     coinbase_inputs starts with the subsidy range, transactions
                                       1.. are processed in order and then transaction 0
                                       (skip(1).chain(take(1))), spent inputs are removed from the
                                       UTXO map, outputs are inserted (insert overwrites on a
                                       duplicate txid), lost ranges are appended to the null-outpoint
                                       entry, Statistic::LostSats, SAT_TO_SATPOINT writes
       Updater::index_transaction_sats per-output first-in-first-out assignment with the pending
                                       split range, leftovers appended to coinbase_inputs /
                                       lost_sat_ranges
     crates/ordinals/src/{height,epoch,sat}.rs   subsidy, starting_sat, Sat::common, Sat::height
     src/index.rs  Index::find, find_range, list, rare_sat_satpoint
   Spec: a transcription of the Python of bip.mediawiki over flat lists of sats.

   Simplifications (each is exercised by the correspondence check, which runs the real index under
   random commit schedules):
   - utxo_cache and OUTPOINT_TO_UTXO_ENTRY are one map; Index/SatCache.v models the split with an
     arbitrary commit schedule and Proofs/SatCache_proofs.v shows it is unobservable unless a spent
     input is shadowed (duplicate txid; known finding dup-spent-before-commit);
   - the null-outpoint entry is a separate field [lost] (no transaction of a valid chain spends
     the null outpoint);
   - u64 arithmetic is unbounded N: every quantity is bounded by Sat::SUPPLY < 2^51 on a valid
     chain (ranges are sub-ranges of the mined sats);
   - txids and scripts are opaque numbers chosen by the harness (txid 0 is reserved for the null
     txid); the pending split range of index_transaction_sats is the head of the range list.
   Panic tags: 1 "insufficient inputs for transaction outputs", 2 input not in the UTXO set
   (assert!(!have_full_utxo_index())), 3 Sat::height division by a zero subsidy, 4 u64 underflow
   of range_end - 1 in find_range. *)
From OrdV Require Import Base.Prelude Generated.

(* ------------------------------------------------------------------ data *)

Definition outpoint := (N * N)%type.      (* txid, vout *)
Definition range := (N * N)%type.         (* [start, end) *)
Definition satpoint := (outpoint * N)%type.

Record tx := mkTx {
  txid : N;
  ins : list outpoint;          (* ignored for the first transaction of a block *)
  outs : list (N * N)           (* value, script id *)
}.

Definition NULL_OP : outpoint := (0, 4294967295).

Definition op_eqb (a b : outpoint) : bool := andb (fst a =? fst b) (snd a =? snd b).

(* finite maps: association lists, [aset] removes older bindings of the key *)
Section AMap.
  Context {K V : Type}.
  Variable keq : K -> K -> bool.
  Fixpoint aget (k : K) (m : list (K * V)) : option V :=
    match m with
    | [] => None
    | (k', v) :: r => if keq k k' then Some v else aget k r
    end.
  Fixpoint adel (k : K) (m : list (K * V)) : list (K * V) :=
    match m with
    | [] => []
    | (k', v) :: r => if keq k k' then adel k r else (k', v) :: adel k r
    end.
  Definition aset (k : K) (v : V) (m : list (K * V)) : list (K * V) := (k, v) :: adel k m.
End AMap.

Definition umap := list (outpoint * list range).
Definition writes := list (N * satpoint).

(* ------------------------------------------------------------------ heights, subsidy, rarity *)

(* Epoch::subsidy *)
Definition epoch_subsidy (e : N) : N :=
  if e <? SI_FIRST_POST_SUBSIDY then N.shiftr (SI_INITIAL_SUBSIDY_COINS * SI_COIN_VALUE) e else 0.
(* Epoch::starting_sat: STARTING_SATS.get(e) or the last entry *)
Definition epoch_start (e : N) : N := nth (N.to_nat e) SI_EPOCH_STARTING_SATS SI_SUPPLY.
(* Height::subsidy, Height::starting_sat *)
Definition subsidy (h : N) : N := epoch_subsidy (h / SI_HALVING_INTERVAL).
Definition starting_sat (h : N) : N :=
  let e := h / SI_HALVING_INTERVAL in
  epoch_start e + (h - e * SI_HALVING_INTERVAL) * epoch_subsidy e.

(* Epoch::from(Sat): number of epoch boundaries (after the first) that are <= sat *)
Fixpoint count_le (s : N) (l : list N) : N :=
  match l with
  | [] => 0
  | x :: r => if x <=? s then 1 + count_le s r else 0
  end.
Definition epoch_of_sat (s : N) : N := count_le s (tl SI_EPOCH_STARTING_SATS).

(* Sat::common *)
Definition is_multiple_of (x d : N) : bool := if d =? 0 then x =? 0 else x mod d =? 0.
Definition common (s : N) : bool :=
  if andb (s <? epoch_start SI_COMMON_FAST_EPOCH)
          (negb (is_multiple_of s (epoch_subsidy SI_COMMON_FAST_DIV_EPOCH)))
  then true
  else let e := epoch_of_sat s in negb (is_multiple_of (s - epoch_start e) (epoch_subsidy e)).

(* Sat::height *)
Definition sat_height (s : N) : Res N :=
  let e := epoch_of_sat s in
  if epoch_subsidy e =? 0 then Panic 3
  else Ok (e * SI_HALVING_INTERVAL + (s - epoch_start e) / epoch_subsidy e).

(* ------------------------------------------------------------------ Impl: index_transaction_sats *)

(* the [while remaining > 0] loop of one output; [rs] = pending split range :: unread input ranges *)
Fixpoint take_sats (op : outpoint) (value remaining : N) (rs : list range)
  : Res (list range * list range * writes) :=
  if remaining =? 0 then Ok ([], rs, [])
  else match rs with
  | [] => Panic 1
  | (s, e) :: rs' =>
    let w := if common s then [] else [(s, (op, value - remaining))] in
    let count := e - s in
    if remaining <? count then
      Ok ([(s, s + remaining)], (s + remaining, e) :: rs', w)
    else
      do '(a, rest, ws) <- take_sats op value (remaining - count) rs';
      Ok ((s, e) :: a, rest, w ++ ws)
  end.

(* [for (vout, output) in tx.output.iter().enumerate()] *)
Fixpoint assign_outputs (t vout : N) (os : list (N * N)) (rs : list range)
  : Res (list (list range) * list range * writes) :=
  match os with
  | [] => Ok ([], rs, [])
  | (v, _) :: os' =>
    do '(a, rest, w) <- take_sats (t, vout) v v rs;
    do '(ents, lft, ws) <- assign_outputs t (vout + 1) os' rest;
    Ok (a :: ents, lft, w ++ ws)
  end.

(* input_utxo_entries: every input is removed from the map; a missing one is fatal *)
Fixpoint take_inputs (inps : list outpoint) (m : umap) : Res (list range * umap) :=
  match inps with
  | [] => Ok ([], m)
  | i :: is' =>
    match aget op_eqb i m with
    | None => Panic 2
    | Some rs =>
      do '(rest, m') <- take_inputs is' (adel op_eqb i m);
      Ok (rs ++ rest, m')
    end
  end.

(* utxo_cache.insert for every output; the second component collects what an insert
   overwrote (ghost: the code drops it silently) *)
Fixpoint put_outputs (t vout : N) (ents : list (list range)) (m : umap) (d : list range)
  : umap * list range :=
  match ents with
  | [] => (m, d)
  | e :: es =>
    let d' := match aget op_eqb (t, vout) m with Some old => d ++ old | None => d end in
    put_outputs t (vout + 1) es (aset op_eqb (t, vout) e m) d'
  end.

(* one non-coinbase transaction: new map, leftover (fee) ranges, writes, displaced ranges *)
Definition index_tx (t : tx) (m : umap) : Res (umap * list range * writes * list range) :=
  do '(irs, m1) <- take_inputs (ins t) m;
  do '(ents, lft, w) <- assign_outputs (txid t) 0 (outs t) irs;
  let '(m2, d) := put_outputs (txid t) 0 ents m1 [] in
  Ok (m2, lft, w, d).

Fixpoint index_txs (ts : list tx) (m : umap) (cbin : list range) (w : writes) (d : list range)
  : Res (umap * list range * writes * list range) :=
  match ts with
  | [] => Ok (m, cbin, w, d)
  | t :: ts' =>
    do '(m', lft, w', d') <- index_tx t m;
    index_txs ts' m' (cbin ++ lft) (w ++ w') (d ++ d')
  end.

(* the loop over lost_sat_ranges: SAT_TO_SATPOINT at the null outpoint, lost_sats += end - start *)
Fixpoint lost_writes (ls : list range) (off : N) : writes * N :=
  match ls with
  | [] => ([], off)
  | (s, e) :: r =>
    let '(w, o) := lost_writes r (off + (e - s)) in
    ((if common s then [] else [(s, (NULL_OP, off))]) ++ w, o)
  end.

Definition apply_writes (w : writes) (m : list (N * satpoint)) : list (N * satpoint) :=
  fold_left (fun m kv => aset N.eqb (fst kv) (snd kv) m) w m.

Record state := mkSt {
  utxo : umap;                        (* OUTPOINT_TO_UTXO_ENTRY + utxo_cache, real outpoints *)
  lost : list range;                  (* sat ranges of the null-outpoint entry *)
  lost_sats : N;                      (* Statistic::LostSats *)
  s2sp : list (N * satpoint);         (* SAT_TO_SATPOINT *)
  destroyed : list range;             (* ghost: ranges dropped by overwriting inserts *)
  height : N                          (* number of indexed blocks *)
}.

Definition init : state := mkSt [] [] 0 [] [] 0.

(* Updater::index_block with --index-sats *)
Definition index_block (st : state) (b : list tx) : Res state :=
  let h := height st in
  let cbin0 := if 0 <? subsidy h then [(starting_sat h, starting_sat h + subsidy h)] else [] in
  match b with
  | [] => Ok (mkSt (utxo st) (lost st) (lost_sats st) (s2sp st) (destroyed st) (h + 1))
  | cb :: rest =>
    do '(m1, cbin, w1, d1) <- index_txs rest (utxo st) cbin0 [] [];
    do '(ents, lostr, w2) <- assign_outputs (txid cb) 0 (outs cb) cbin;
    let '(m2, d2) := put_outputs (txid cb) 0 ents m1 [] in
    let '(w3, ls) := lost_writes lostr (lost_sats st) in
    Ok (mkSt m2 (lost st ++ lostr) ls (apply_writes (w1 ++ w2 ++ w3) (s2sp st))
             (destroyed st ++ d1 ++ d2) (h + 1))
  end.

Fixpoint run_from (st : state) (c : list (list tx)) : Res state :=
  match c with
  | [] => Ok st
  | b :: r => do st' <- index_block st b; run_from st' r
  end.

Definition run (c : list (list tx)) : Res state := run_from init c.

(* ------------------------------------------------------------------ Impl: lookups (src/index.rs) *)

(* the inner loop of Index::find over one entry *)
Fixpoint find_in (s : N) (rs : list range) (off : N) : option N :=
  match rs with
  | [] => None
  | (a, b) :: r => if andb (a <=? s) (s <? b) then Some (off + s - a) else find_in s r (off + (b - a))
  end.

Fixpoint find_scan (s : N) (m : umap) : option satpoint :=
  match m with
  | [] => None
  | (o, rs) :: r =>
    match find_in s rs 0 with
    | Some k => Some (o, k)
    | None => find_scan s r
    end
  end.

(* all table entries, the null outpoint first (its key is the smallest) *)
Definition entries (st : state) : umap :=
  match lost st with [] => utxo st | l => (NULL_OP, l) :: utxo st end.

(* Index::find *)
Definition find (st : state) (s : N) : Res (option satpoint) :=
  do h <- sat_height s;
  if height st <=? h then Ok None else Ok (find_scan s (entries st)).

(* Index::list *)
Definition list_ranges (st : state) (o : outpoint) : option (list range) :=
  aget op_eqb o (entries st).

(* Index::rare_sat_satpoint *)
Definition rare (st : state) (s : N) : option satpoint := aget N.eqb s (s2sp st).

(* the inner loop of Index::find_range over one entry: overlaps as (start, size, offset) *)
Fixpoint overlaps_in (a b : N) (rs : list range) (off : N) : list (N * N * N) :=
  match rs with
  | [] => []
  | (s, e) :: r =>
    let rest := overlaps_in a b r (off + (e - s)) in
    if andb (a <? e) (s <? b) then
      let os := N.max s a in
      let oe := N.min e b in
      (os, oe - os, off + os - s) :: rest
    else rest
  end.

Fixpoint find_range_scan (a b : N) (m : umap) : list (N * N * satpoint) :=
  match m with
  | [] => []
  | (o, rs) :: r =>
    map (fun x => (fst (fst x), snd (fst x), (o, snd x))) (overlaps_in a b rs 0) ++ find_range_scan a b r
  end.

(* Index::find_range; 0 = None, 1 = Some, 2 = Err("range end is before range start").
   [remaining_sats] only serves an early break of the inner loop; it cannot underflow when no
   sat is in two places (C02). *)
Definition find_range (st : state) (a b : N) : Res (N * list (N * N * satpoint)) :=
  if b =? 0 then Panic 4 else
  do h <- sat_height (b - 1);
  if height st <? h + 1 then Ok (0, [])
  else if b <? a then Ok (2, [])
  else Ok (1, find_range_scan a b (entries st)).

(* ------------------------------------------------------------------ Spec: bip.mediawiki *)

Fixpoint nseq (start : N) (len : nat) : list N :=
  match len with O => [] | S l => start :: nseq (start + 1) l end.

Definition flat1 (r : range) : list N := nseq (fst r) (N.to_nat (snd r - fst r)).
Definition flatten (rs : list range) : list N := flat_map flat1 rs.

(* def subsidy(height): return 50 * 100_000_000 >> height // 210_000 *)
Definition bip_subsidy (h : N) : N :=
  N.shiftr (SI_BIP_SUBSIDY_COINS * SI_BIP_COIN) (h / SI_BIP_HALVING).

(* def first_ordinal(height): start = 0; for height in range(height): start += subsidy(height) *)
Fixpoint bip_first_ordinal_nat (h : nat) : N :=
  match h with O => 0 | S k => bip_first_ordinal_nat k + bip_subsidy (N.of_nat k) end.
Definition bip_first_ordinal (h : N) : N := bip_first_ordinal_nat (N.to_nat h).

Definition smap := list (outpoint * list N).

(* for output in outputs: output.ordinals = ordinals[:output.value]; del ordinals[:output.value] *)
Fixpoint bip_assign (os : list (N * N)) (ordinals : list N) : list (list N) * list N :=
  match os with
  | [] => ([], ordinals)
  | (v, _) :: r =>
    let '(oo, lft) := bip_assign r (skipn (N.to_nat v) ordinals) in
    (firstn (N.to_nat v) ordinals :: oo, lft)
  end.

(* ordinals = []; for input in inputs: ordinals.extend(input.ordinals)
   (and the input stops being unspent, which the BIP leaves implicit) *)
Fixpoint bip_inputs (inps : list outpoint) (u : smap) : list N * smap :=
  match inps with
  | [] => ([], u)
  | i :: r =>
    let o := match aget op_eqb i u with Some l => l | None => [] end in
    let '(rest, u') := bip_inputs r (adel op_eqb i u) in
    (o ++ rest, u')
  end.

(* the outputs become unspent outputs; an equal outpoint is displaced *)
Fixpoint bip_put (t vout : N) (outs : list (list N)) (u : smap) : smap :=
  match outs with
  | [] => u
  | o :: r => bip_put t (vout + 1) r (aset op_eqb (t, vout) o u)
  end.

(* for transaction in block.transactions[1:] *)
Fixpoint bip_txs (ts : list tx) (u : smap) (coinbase_ordinals : list N) : smap * list N :=
  match ts with
  | [] => (u, coinbase_ordinals)
  | t :: r =>
    let '(ordinals, u1) := bip_inputs (ins t) u in
    let '(oo, lft) := bip_assign (outs t) ordinals in
    bip_txs r (bip_put (txid t) 0 oo u1) (coinbase_ordinals ++ lft)
  end.

Record bstate := mkB { b_utxo : smap; b_lost : list N }.

(* def assign_ordinals(block); what the coinbase does not claim is lost *)
Definition bip_block (h : N) (s : bstate) (b : list tx) : bstate :=
  match b with
  | [] => s
  | cb :: rest =>
    let first := bip_first_ordinal h in
    let coinbase_ordinals := nseq first (N.to_nat (bip_subsidy h)) in
    let '(u1, co) := bip_txs rest (b_utxo s) coinbase_ordinals in
    let '(oo, lft) := bip_assign (outs cb) co in
    mkB (bip_put (txid cb) 0 oo u1) (b_lost s ++ lft)
  end.

Fixpoint bip_run (h : N) (s : bstate) (c : list (list tx)) : bstate :=
  match c with
  | [] => s
  | b :: r => bip_run (h + 1) (bip_block h s b) r
  end.

(* abstraction of an Impl state: every range list flattened *)
Definition abs_utxo (m : umap) : smap := map (fun kv => (fst kv, flatten (snd kv))) m.
Definition abs (st : state) : bstate := mkB (abs_utxo (utxo st)) (flatten (lost st)).

(* ------------------------------------------------------------------ Valid chains (values only) *)

Definition vmap := list (outpoint * N).
Definition sum_values (os : list (N * N)) : N := fold_right (fun o a => fst o + a) 0 os.

(* every input is an unspent output (and is spent by being used) *)
Fixpoint v_inputs (inps : list outpoint) (u : vmap) : option (N * vmap) :=
  match inps with
  | [] => Some (0, u)
  | i :: r =>
    match aget op_eqb i u with
    | None => None
    | Some v =>
      match v_inputs r (adel op_eqb i u) with
      | None => None
      | Some (s, u') => Some (v + s, u')
      end
    end
  end.

Fixpoint v_put (t vout : N) (os : list (N * N)) (u : vmap) : vmap :=
  match os with
  | [] => u
  | (v, _) :: r => v_put t (vout + 1) r (aset op_eqb (t, vout) v u)
  end.

(* transactions 1..: inputs unspent, sum of inputs >= sum of outputs; fees accumulate *)
Fixpoint v_txs (ts : list tx) (u : vmap) (fees : N) : option (vmap * N) :=
  match ts with
  | [] => Some (u, fees)
  | t :: r =>
    match v_inputs (ins t) u with
    | None => None
    | Some (si, u1) =>
      if sum_values (outs t) <=? si
      then v_txs r (v_put (txid t) 0 (outs t) u1) (fees + (si - sum_values (outs t)))
      else None
    end
  end.

(* a block has a coinbase, which claims at most subsidy + fees *)
Definition v_block (h : N) (u : vmap) (b : list tx) : option vmap :=
  match b with
  | [] => None
  | cb :: rest =>
    match v_txs rest u 0 with
    | None => None
    | Some (u1, fees) =>
      if sum_values (outs cb) <=? subsidy h + fees then Some (v_put (txid cb) 0 (outs cb) u1) else None
    end
  end.

Fixpoint v_run (h : N) (u : vmap) (c : list (list tx)) : option vmap :=
  match c with
  | [] => Some u
  | b :: r => match v_block h u b with None => None | Some u' => v_run (h + 1) u' r end
  end.

Definition valid (c : list (list tx)) : bool :=
  match v_run 0 [] c with Some _ => true | None => false end.

Definition total (rs : list range) : N := fold_right (fun r a => (snd r - fst r) + a) 0 rs.
Definition vabs (m : umap) : vmap := map (fun kv => (fst kv, total (snd kv))) m.

(* ------------------------------------------------------------------ wire entry points *)

(* insertion sort on a key, for canonical output only *)
Section Sort.
  Context {A : Type}.
  Variable le : A -> A -> bool.
  Fixpoint insert_sorted (x : A) (l : list A) : list A :=
    match l with
    | [] => [x]
    | y :: r => if le x y then x :: l else y :: insert_sorted x r
    end.
  Definition isort (l : list A) : list A := fold_right insert_sorted [] l.
End Sort.

Definition op_le (a b : outpoint) : bool :=
  orb (fst a <? fst b) (andb (fst a =? fst b) (snd a <=? snd b)).

(* parsing: n items *)
Fixpoint read_n {A} (rd : list Z -> A * list Z) (n : nat) (l : list Z) : list A * list Z :=
  match n with
  | O => ([], l)
  | S k => let '(x, l1) := rd l in let '(xs, l2) := read_n rd k l1 in (x :: xs, l2)
  end.

Definition read_pair (l : list Z) : (N * N) * list Z :=
  match l with
  | a :: b :: r => ((nZ a, nZ b), r)
  | _ => ((0, 0), [])
  end.

Definition read_counted {A} (rd : list Z -> A * list Z) (l : list Z) : list A * list Z :=
  match l with
  | [] => ([], [])
  | n :: r => read_n rd (N.to_nat (nZ n)) r
  end.

Definition read_tx (l : list Z) : tx * list Z :=
  match l with
  | [] => (mkTx 0 [] [], [])
  | t :: r =>
    let '(is, r1) := read_counted read_pair r in
    let '(os, r2) := read_counted read_pair r1 in
    (mkTx (nZ t) is os, r2)
  end.

Definition read_block (l : list Z) : list tx * list Z := read_counted read_tx l.

(* a case: nsched sched... nblocks blocks... rest; the update schedule is not modelled *)
Definition read_chain (l : list Z) : list (list tx) * list Z :=
  match l with
  | [] => ([], [])
  | n :: r => read_counted read_block (skipn (N.to_nat (nZ n)) r)
  end.

(* Commit points of the real index for a case's driving parameters (see harness/hx-satsidx):
   sched = commit_interval headers_far flags update_height...  With far-ahead headers there are no
   savepoint commits, so Updater::update_index commits after every commit_interval-th block of an
   update() call and at the end of the call; the calls index the blocks up to each update height
   (heights <= 1 are skipped: the genesis block is already in the node) and finally all blocks.
   Without far-ahead headers savepoint commits interleave; the entry point then uses the
   commit-every-block schedule (equal outside the known class, C12). *)
Fixpoint call_flags (ci : N) (k : nat) (unc : N) : list bool :=
  match k with
  | O => []
  | S k' =>
    let u := unc + 1 in
    if orb (u =? ci) (Nat.eqb k' 0) then true :: call_flags ci k' 0 else false :: call_flags ci k' u
  end.

Fixpoint sched_flags (ci : N) (stops : list N) (idx inst len : N) : list bool :=
  match stops with
  | [] => []
  | s :: r =>
    let s' := N.min s len in
    if andb (s' <=? inst) (negb (s' =? len)) then sched_flags ci r idx inst len
    else
      let inst' := N.max inst s' in
      call_flags ci (N.to_nat (inst' - idx)) 0 ++ sched_flags ci r inst' inst' len
  end.

Definition case_flags (inp : list Z) (len : N) : list bool :=
  match inp with
  | [] => []
  | n :: r =>
    let sc := ns (firstn (N.to_nat (nZ n)) r) in
    match sc with
    | ci :: far :: _ :: updates =>
      if far =? 0 then [] else sched_flags (N.max ci 1) (updates ++ [len]) 0 1 len
    | _ => []
    end
  end.

Definition w_ranges (rs : list range) : list Z :=
  zN (N.of_nat (length rs)) :: flat_map (fun r => [zN (fst r); zN (snd r)]) rs.

Definition w_state (st : state) : list Z :=
  let es := isort (fun a b => op_le (fst a) (fst b)) (utxo st) in
  let sp := isort (fun a b => fst a <=? fst b) (s2sp st) in
  [0%Z; zN (N.of_nat (length es))]
  ++ flat_map (fun kv => zN (fst (fst kv)) :: zN (snd (fst kv)) :: w_ranges (snd kv)) es
  ++ w_ranges (lost st) ++ [zN (lost_sats st)]
  ++ zN (N.of_nat (length sp))
  :: flat_map (fun kv => [zN (fst kv); zN (fst (fst (snd kv))); zN (snd (fst (snd kv))); zN (snd (snd kv))]) sp.

(* C02: lookups.  Queries: 1 s = find, 2 a b = find_range, 3 txid vout = list, 4 s = rare_sat_satpoint,
   5 s = Sat::common + Epoch::from(Sat), 6 h = Height::subsidy + Height::starting_sat, 7 s = Sat::height.
   Before the explicit queries, find is evaluated on the first and last sat of every stored range. *)
Definition w_find (r : Res (option satpoint)) : list Z :=
  match r with
  | Ok None => [0%Z]
  | Ok (Some (o, k)) => [1%Z; zN (fst o); zN (snd o); zN k]
  | Err e => [(-1)%Z]
  | Panic t => [(-2)%Z]
  end.

Definition w_opt_sp (r : option satpoint) : list Z :=
  match r with
  | None => [0%Z]
  | Some (o, k) => [1%Z; zN (fst o); zN (snd o); zN k]
  end.

Definition w_find_range (r : Res (N * list (N * N * satpoint))) : list Z :=
  match r with
  | Ok (code, l) =>
    let l' := isort (fun x y => fst (fst x) <=? fst (fst y)) l in
    zN code :: zN (N.of_nat (length l'))
    :: flat_map (fun x => [zN (fst (fst x)); zN (snd (fst x)); zN (fst (fst (snd x)));
                           zN (snd (fst (snd x))); zN (snd (snd x))]) l'
  | Err e => [(-1)%Z]
  | Panic t => [(-2)%Z]
  end.

Fixpoint answer (fuel : nat) (st : state) (q : list Z) : list Z :=
  match fuel with
  | O => []
  | S f =>
    match q with
    | 1%Z :: s :: r => w_find (find st (nZ s)) ++ answer f st r
    | 2%Z :: a :: b :: r => w_find_range (find_range st (nZ a) (nZ b)) ++ answer f st r
    | 3%Z :: t :: v :: r =>
      match list_ranges st (nZ t, nZ v) with
      | None => [0%Z]
      | Some rs => 1%Z :: w_ranges rs
      end ++ answer f st r
    | 4%Z :: s :: r => w_opt_sp (rare st (nZ s)) ++ answer f st r
    (* pure arithmetic of crates/ordinals, compared with the real functions over all epochs *)
    | 5%Z :: s :: r => [zb (common (nZ s)); zN (epoch_of_sat (nZ s))] ++ answer f st r
    | 6%Z :: h :: r => [zN (subsidy (nZ h)); zN (starting_sat (nZ h))] ++ answer f st r
    | 7%Z :: s :: r =>
      match sat_height (nZ s) with Ok h => [zN h] | Err e => [(-1)%Z] | Panic t => [(-2)%Z] end
      ++ answer f st r
    | _ => []
    end
  end.

Definition boundary_finds (st : state) : list Z :=
  let es := isort (fun a b => op_le (fst a) (fst b)) (entries st) in
  flat_map (fun kv => flat_map (fun r => w_find (find st (fst r)) ++ w_find (find st (snd r - 1))) (snd kv)) es.

