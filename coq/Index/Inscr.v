(* Model of the inscription indexer (properties C03-C07):
     src/index/updater/inscription_updater.rs   InscriptionUpdater::{index_inscriptions,
                                                calculate_sat, update_inscription_location}
     src/index/updater.rs                       Updater::index_utxo_entries (counters read from
                                                statistics at block start and written back at block
                                                end, transaction order skip(1).chain(take(1)),
                                                input entries taken from the UTXO map, output entries
                                                inserted), index_transaction_sats (sat ranges, only
                                                when the sat index is on), lost sat ranges
     src/index/updater.rs Updater::commit       SEQUENCE_NUMBER_TO_SATPOINT derived from the entries

   Input: an abstract chain.  Transaction ids are opaque numbers (0 = the all-zero
   txid of the null / unbound outpoints), scripts are reduced to "is OP_RETURN",
   envelopes arrive ALREADY PARSED, exactly as ParsedEnvelope::from_transaction reports
   them (byte-level envelope parsing is property C27).  One map holds the UTXO
   entries (the cache/table split is property C12).

   Panic sites mirrored (tag):
     1  input_utxo_entries[input_index]            (index out of bounds)
     2  sequence_number_to_entry.get(..).unwrap()  (old inscription without entry)
     3  id_to_sequence_number.get(..).unwrap()     (reinscription check)
     4  total_input_value - total_output_value     (u64 underflow, dev profile)
     5  reward + offset - output_value / lost_sats + offset - output_value / reward - output_value
     6  i32::try_from(count).unwrap()
     7  calculate_sat unreachable!()
     8  input not found in the UTXO map (assert!(!have_full_utxo_index))
     9  "insufficient inputs for transaction outputs"
   u64 additions are not range-checked: on a valid chain every sum is bounded by the
   total supply (< 2^51); "indexing never fails" is property C16. *)
From OrdV Require Import Base.Prelude Base.Wire Generated.

(* ------------------------------------------------------------------ tables *)

Section Tables.
  Context {K V : Type} (eqb : K -> K -> bool).

  Fixpoint tget (k : K) (t : list (K * V)) : option V :=
    match t with
    | [] => None
    | (k', v) :: r => if eqb k k' then Some v else tget k r
    end.

  (* redb insert: overwrite or add *)
  Fixpoint tset (k : K) (v : V) (t : list (K * V)) : list (K * V) :=
    match t with
    | [] => [(k, v)]
    | (k', v') :: r => if eqb k k' then (k, v) :: r else (k', v') :: tset k v r
    end.

  Definition tdel (k : K) (t : list (K * V)) : list (K * V) :=
    filter (fun kv => negb (eqb k (fst kv))) t.
End Tables.

Definition outpoint := (N * N)%type.
Definition iid := (N * N)%type.            (* inscription id: (reveal txid, index) *)

Definition pair_eqb (a b : N * N) : bool := (fst a =? fst b) && (snd a =? snd b).

(* multimap insert / remove with set semantics (redb MultimapTable) *)
Definition mm_mem (p : N * N) (l : list (N * N)) : bool := existsb (pair_eqb p) l.
Definition mm_insert (p : N * N) (l : list (N * N)) : list (N * N) :=
  if mm_mem p l then l else l ++ [p].
Definition mm_remove (p : N * N) (l : list (N * N)) : list (N * N) :=
  filter (fun q => negb (pair_eqb p q)) l.

Definition NULL_VOUT : N := 4294967295.
Definition null_op : outpoint := (0, NULL_VOUT).      (* OutPoint::null(): lost sats *)
Definition unbound_op : outpoint := (0, 0).           (* unbound_outpoint() *)
Definition is_null (o : outpoint) : bool := pair_eqb o null_op.

(* ------------------------------------------------------------------ chain *)

Record envelope := mkEnv {
  v_input : N;            (* Envelope::input *)
  v_offset : N;           (* Envelope::offset: index among the envelopes of its input *)
  v_pushnum : bool;
  v_stutter : bool;
  v_dup : bool;           (* payload.duplicate_field *)
  v_incomplete : bool;    (* payload.incomplete_field *)
  v_uneven : bool;        (* payload.unrecognized_even_field *)
  v_ptr_field : bool;     (* payload.pointer.is_some() *)
  v_ptr : option N;       (* payload.pointer() *)
  v_hidden : bool;        (* payload.hidden() *)
  v_parents : list iid    (* payload.parents() *)
}.

Record txout := mkOut { o_value : N; o_opret : bool }.

Record tx := mkTx {
  t_id : N;
  t_ins : list outpoint;
  t_outs : list txout;
  t_envs : list envelope   (* ParsedEnvelope::from_transaction, in its order *)
}.

Definition block := list tx.    (* coinbase first, as in the block *)

Record config := mkCfg {
  c_jubilee : N;       (* Chain::jubilee_height *)
  c_first : N;         (* Settings::first_inscription_height *)
  c_sats : bool        (* --index-sats *)
}.

(* Height::subsidy (crates/ordinals/src/{height,epoch}.rs) *)
Definition subsidy (h : N) : N :=
  let e := h / SUBSIDY_HALVING_INTERVAL in
  if e <? 33 then N.shiftr (50 * COIN_VALUE) e else 0.

(* Height::starting_sat, first epoch only (the chains of the correspondence never
   reach the first halving); later epochs: not modelled, reported as Panic 10 *)
Definition starting_sat (h : N) : Res N :=
  if h <? SUBSIDY_HALVING_INTERVAL then Ok (h * (50 * COIN_VALUE)) else Panic 10.

(* ------------------------------------------------------------------ state *)

Record uentry := mkU {
  u_value : N;                   (* Sats::Value (sat index off) *)
  u_ranges : list (N * N);       (* Sats::Ranges (sat index on) *)
  u_insc : list (N * N)          (* (sequence number, offset) in push order *)
}.

Record ientry := mkI {
  i_charms : N;
  i_fee : N;
  i_height : N;
  i_hidden : bool;
  i_id : iid;
  i_number : Z;
  i_parents : list N;
  i_sat : option N;
  i_seq : N
}.

Record state := mkSt {
  s_utxo : list (outpoint * uentry);      (* OUTPOINT_TO_UTXO_ENTRY + utxo_cache *)
  s_entries : list (N * ientry);          (* SEQUENCE_NUMBER_TO_INSCRIPTION_ENTRY *)
  s_id2seq : list (iid * N);              (* INSCRIPTION_ID_TO_SEQUENCE_NUMBER *)
  s_num2seq : list (Z * N);               (* INSCRIPTION_NUMBER_TO_SEQUENCE_NUMBER *)
  s_sat2seq : list (N * N);               (* SAT_TO_SEQUENCE_NUMBER (multimap) *)
  s_children : list (N * N);              (* SEQUENCE_NUMBER_TO_CHILDREN (multimap parent -> child) *)
  s_coll : list (N * N);                  (* COLLECTION_SEQUENCE_NUMBER_TO_LATEST_CHILD_SEQUENCE_NUMBER *)
  s_latest : list (N * N);                (* LATEST_CHILD_SEQUENCE_NUMBER_TO_COLLECTION_SEQUENCE_NUMBER (multimap) *)
  s_h2last : list (N * N);                (* HEIGHT_TO_LAST_SEQUENCE_NUMBER *)
  s_blessed : N; s_cursed : N; s_unbound : N; s_lost : N   (* statistics *)
}.

Definition empty_state : state := mkSt [] [] [] [] [] [] [] [] [] 0 0 0 0.

Inductive origin :=
| ONew (cursed : bool) (fee : N) (hidden : bool) (parents : list iid)
       (reinscription unbound vindicated : bool)
| OOld (seq : N).

Record flotsam := mkF { f_id : iid; f_offset : N; f_origin : origin }.

(* the fields of InscriptionUpdater (+ the block-local variables of index_utxo_entries) *)
Record bst := mkB {
  b_st : state;
  b_flot : list flotsam;          (* self.flotsam *)
  b_reward : N;
  b_lost : N;                     (* self.lost_sats *)
  b_blessed : N;
  b_cursed : N;
  b_unb : N;
  b_next : N;                     (* next_sequence_number *)
  b_cb_ranges : list (N * N);     (* coinbase_inputs *)
  b_lost_ranges : list (N * N)    (* lost_sat_ranges *)
}.

Definition set_st (b : bst) (s : state) : bst :=
  mkB s (b_flot b) (b_reward b) (b_lost b) (b_blessed b) (b_cursed b) (b_unb b) (b_next b)
      (b_cb_ranges b) (b_lost_ranges b).

(* charm bits (crates/ordinals/src/charm.rs via Generated.v) *)
Definition flag (bit : N) : N := N.shiftl 1 bit.
Definition set_if (c : bool) (bit : N) (charms : N) : N := if c then N.lor charms (flag bit) else charms.
Definition has (bit : N) (charms : N) : bool := N.testbit charms bit.

Definition csub (tag a b : N) : Res N := if b <=? a then Ok (a - b) else Panic tag.

Definition sum_values (outs : list txout) : N := fold_right (fun o a => o_value o + a) 0 outs.
Definition ranges_size (r : list (N * N)) : N := fold_right (fun p a => (snd p - fst p) + a) 0 r.

Section Model.
Variable cfg : config.

(* ParsedUtxoEntry::total_value *)
Definition total_value (u : uentry) : N := if c_sats cfg then ranges_size (u_ranges u) else u_value u.

(* UtxoEntryBuf::empty *)
Definition empty_entry : uentry := mkU 0 [] [].

(* stable sort by key (Vec::sort_by_key) *)
Fixpoint ins_by {A} (key : A -> N) (x : A) (l : list A) : list A :=
  match l with
  | [] => [x]
  | y :: r => if key x <=? key y then x :: y :: r else y :: ins_by key x r
  end.
Definition sort_by {A} (key : A -> N) (l : list A) : list A := fold_right (ins_by key) [] l.

(* ---------------------------------------------- index_inscriptions, part 1: floating inscriptions *)

(* inscribed_offsets: BTreeMap<u64, (InscriptionId, u8)>; entry(offset).or_insert((id, 0)).1 += 1 *)
Definition io_bump (off : N) (id : iid) (m : list (N * (iid * N))) : list (N * (iid * N)) :=
  match tget N.eqb off m with
  | Some (id0, c) => tset N.eqb off (id0, c + 1) m
  | None => tset N.eqb off (id, 1) m
  end.

(* the old inscriptions of one input, sorted by sequence number *)
Fixpoint olds (ents : list (N * ientry)) (base : N) (l : list (N * N))
         (acc : list flotsam) (io : list (N * (iid * N))) : Res (list flotsam * list (N * (iid * N))) :=
  match l with
  | [] => Ok (acc, io)
  | (seq, off) :: r =>
    match tget N.eqb seq ents with
    | None => Panic 2
    | Some e =>
      let o := base + off in
      olds ents base r (acc ++ [mkF (i_id e) o (OOld seq)]) (io_bump o (i_id e) io)
    end
  end.

Inductive curse := CDup | CIncomplete | CNotZero | CNotFirst | CPointer | CPushnum | CReinscription
                 | CStutter | CUneven.

Definition curse_of (st : state) (v : envelope) (offset : N) (io : list (N * (iid * N))) : Res (option curse) :=
  if v_uneven v then Ok (Some CUneven)
  else if v_dup v then Ok (Some CDup)
  else if v_incomplete v then Ok (Some CIncomplete)
  else if negb (v_input v =? 0) then Ok (Some CNotFirst)
  else if negb (v_offset v =? 0) then Ok (Some CNotZero)
  else if v_ptr_field v then Ok (Some CPointer)
  else if v_pushnum v then Ok (Some CPushnum)
  else if v_stutter v then Ok (Some CStutter)
  else match tget N.eqb offset io with
       | Some (id, count) =>
         if 1 <? count then Ok (Some CReinscription)
         else match tget pair_eqb id (s_id2seq st) with
              | None => Panic 3
              | Some s0 =>
                match tget N.eqb s0 (s_entries st) with
                | None => Panic 2
                | Some e =>
                  if (i_number e <? 0)%Z || has CHARM_VINDICATED (i_charms e) then Ok None
                  else Ok (Some CReinscription)
                end
              end
       | None => Ok None
       end.

Definition is_uneven_curse (c : option curse) : bool := match c with Some CUneven => true | _ => false end.
Definition is_some {A} (o : option A) : bool := match o with Some _ => true | None => false end.

(* envelopes of one input: while let Some(inscription) = envelopes.peek() { if input != index break } *)
Fixpoint span_input (idx : N) (l : list envelope) : list envelope * list envelope :=
  match l with
  | [] => ([], [])
  | v :: r => if v_input v =? idx then let (a, b) := span_input idx r in (v :: a, b) else ([], l)
  end.

Record facc := mkA {
  a_float : list flotsam;
  a_io : list (N * (iid * N));
  a_idc : N;                       (* id_counter *)
  a_tiv : N                        (* total_input_value *)
}.

Fixpoint news (st : state) (txid : N) (jubilant : bool) (tov : N) (offset input_value : N)
         (l : list envelope) (a : facc) : Res facc :=
  match l with
  | [] => Ok a
  | v :: r =>
    let id := (txid, a_idc a) in
    do c <- curse_of st v offset (a_io a);
    let off' := match v_ptr v with
                | Some p => if p <? tov then p else offset
                | None => offset
                end in
    let f := mkF id off'
                 (ONew (is_some c && negb jubilant) 0 (v_hidden v) (v_parents v)
                       (is_some (tget N.eqb off' (a_io a)))
                       ((input_value =? 0) || is_uneven_curse c || v_uneven v)
                       (is_some c && jubilant)) in
    news st txid jubilant tov offset input_value r
         (mkA (a_float a ++ [f]) (io_bump off' id (a_io a)) (a_idc a + 1) (a_tiv a))
  end.

(* the loop over tx.input; [ents] = input_utxo_entries (empty for the first transaction of the block) *)
Fixpoint inputs_loop (st : state) (txid height : N) (jubilant : bool) (tov : N)
         (ins : list outpoint) (idx : N) (ents : list uentry) (envs : list envelope) (a : facc)
  : Res facc :=
  match ins with
  | [] => Ok a
  | prev :: r =>
    if is_null prev then
      inputs_loop st txid height jubilant tov r (idx + 1) ents envs
                  (mkA (a_float a) (a_io a) (a_idc a) (a_tiv a + subsidy height))
    else
      match nth_error ents (N.to_nat idx) with
      | None => Panic 1
      | Some u =>
        do '(fl, io) <- olds (s_entries st) (a_tiv a) (sort_by fst (u_insc u)) (a_float a) (a_io a);
        let offset := a_tiv a in
        let input_value := total_value u in
        let (mine, rest) := span_input idx envs in
        do a' <- news st txid jubilant tov offset input_value mine
                      (mkA fl io (a_idc a) (a_tiv a + input_value));
        inputs_loop st txid height jubilant tov r (idx + 1) ents rest a'
      end
  end.

(* purported_parents.retain(|parent| seen.insert(parent) && potential_parents.contains(parent)) *)
Fixpoint retain_parents (potential : list iid) (seen : list iid) (l : list iid) : list iid :=
  match l with
  | [] => []
  | p :: r =>
    if existsb (pair_eqb p) seen then retain_parents potential seen r
    else if existsb (pair_eqb p) potential then p :: retain_parents potential (p :: seen) r
    else retain_parents potential (p :: seen) r
  end.

Definition fix_new (potential : list iid) (fee : N) (f : flotsam) : flotsam :=
  match f_origin f with
  | ONew c _ h ps re ub vi => mkF (f_id f) (f_offset f) (ONew c fee h (retain_parents potential [] ps) re ub vi)
  | OOld _ => f
  end.

(* ---------------------------------------------- part 2: assignment to outputs *)

Fixpoint span_lt (e : N) (l : list flotsam) : list flotsam * list flotsam :=
  match l with
  | [] => ([], [])
  | f :: r => if f_offset f <? e then let (a, b) := span_lt e r in (f :: a, b) else ([], l)
  end.

(* new_locations: (outpoint, offset in output, flotsam, op_return); leftover; final output_value.
   [f_offset f - base] is exact on a sorted list (Proofs: assign_offsets_exact) *)
Fixpoint assign (txid vout base : N) (outs : list txout) (fl : list flotsam)
  : list (outpoint * N * flotsam * bool) * list flotsam * N :=
  match outs with
  | [] => ([], fl, base)
  | o :: r =>
    let e := base + o_value o in
    let (a, b) := span_lt e fl in
    let '(locs, rest, ov) := assign txid (vout + 1) e r b in
    (map (fun f => ((txid, vout), f_offset f - base, f, o_opret o)) a ++ locs, rest, ov)
  end.

(* ---------------------------------------------- update_inscription_location *)

(* calculate_sat *)
Fixpoint calc_sat_in (rs : list (N * N)) (offset input_offset : N) : Res N :=
  match rs with
  | [] => Panic 7
  | (s, e) :: r =>
    let size := e - s in
    if input_offset <? offset + size then Ok (s + input_offset - offset)
    else calc_sat_in r (offset + size) input_offset
  end.

Definition calc_sat (rs : option (list (N * N))) (input_offset : N) : Res (option N) :=
  match rs with
  | None => Ok None
  | Some l => do n <- calc_sat_in l 0 input_offset; Ok (Some n)
  end.

Definition push_insc (op : outpoint) (seq off : N) (utxo : list (outpoint * uentry)) :=
  let e := match tget pair_eqb op utxo with Some e => e | None => empty_entry end in
  tset pair_eqb op (mkU (u_value e) (u_ranges e) (u_insc e ++ [(seq, off)])) utxo.

(* the loop over the (already filtered) parents of a new inscription *)
Fixpoint link_parents (seq : N) (ps : list iid) (st : state) (acc : list N) : Res (state * list N) :=
  match ps with
  | [] => Ok (st, acc)
  | p :: r =>
    match tget pair_eqb p (s_id2seq st) with
    | None => link_parents seq r st acc
    | Some pseq =>
      let children := mm_insert (pseq, seq) (s_children st) in
      match tget N.eqb pseq (s_entries st) with
      | None => Panic 2
      | Some pe =>
        let '(coll, latest) :=
          if i_hidden pe then (s_coll st, s_latest st)
          else
            let latest0 := match tget N.eqb pseq (s_coll st) with
                           | Some old => mm_remove (old, pseq) (s_latest st)
                           | None => s_latest st
                           end in
            (tset N.eqb pseq seq (s_coll st), mm_insert (seq, pseq) latest0) in
        link_parents seq r
          (mkSt (s_utxo st) (s_entries st) (s_id2seq st) (s_num2seq st) (s_sat2seq st) children coll latest
                (s_h2last st) (s_blessed st) (s_cursed st) (s_unbound st) (s_lost st))
          (acc ++ [pseq])
      end
    end
  end.

Definition I32_LIMIT : N := 2147483648.

Definition update_location (height : N) (ranges : option (list (N * N)))
           (f : flotsam) (sp : outpoint * N) (opret : bool) (b : bst) : Res bst :=
  let st := b_st b in
  match f_origin f with
  | OOld seq =>
    do st1 <- (if opret then
                 match tget N.eqb seq (s_entries st) with
                 | None => Panic 2
                 | Some e =>
                   Ok (mkSt (s_utxo st)
                            (tset N.eqb seq (mkI (N.lor (i_charms e) (flag CHARM_BURNED)) (i_fee e) (i_height e)
                                                 (i_hidden e) (i_id e) (i_number e) (i_parents e) (i_sat e) (i_seq e))
                                  (s_entries st))
                            (s_id2seq st) (s_num2seq st) (s_sat2seq st) (s_children st) (s_coll st) (s_latest st)
                            (s_h2last st) (s_blessed st) (s_cursed st) (s_unbound st) (s_lost st))
                 end
               else Ok st);
    Ok (set_st b (mkSt (push_insc (fst sp) seq (snd sp) (s_utxo st1)) (s_entries st1) (s_id2seq st1) (s_num2seq st1)
                       (s_sat2seq st1) (s_children st1) (s_coll st1) (s_latest st1) (s_h2last st1)
                       (s_blessed st1) (s_cursed st1) (s_unbound st1) (s_lost st1)))
  | ONew cursed fee hidden parents reinscription unbound vindicated =>
    do '(number, bl, cu) <-
       (if cursed then
          if b_cursed b <? I32_LIMIT then Ok ((- (Z.of_N (b_cursed b)) - 1)%Z, b_blessed b, b_cursed b + 1)
          else Panic 6
        else
          if b_blessed b <? I32_LIMIT then Ok (Z.of_N (b_blessed b), b_blessed b + 1, b_cursed b)
          else Panic 6);
    let seq := b_next b in
    let num2seq := tset Z.eqb number seq (s_num2seq st) in
    do sat <- (if unbound then Ok None else calc_sat ranges (f_offset f));
    let charms := 0 in
    let charms := set_if cursed CHARM_CURSED charms in
    let charms := set_if reinscription CHARM_REINSCRIPTION charms in
    (* sat.charms(): rarity / coin / nineball / palindrome bits are not modelled (masked in the observation) *)
    let charms := set_if opret CHARM_BURNED charms in
    let charms := set_if (is_null (fst sp)) CHARM_LOST charms in
    let charms := set_if unbound CHARM_UNBOUND charms in
    let charms := set_if vindicated CHARM_VINDICATED charms in
    let sat2seq := match sat with Some n => mm_insert (n, seq) (s_sat2seq st) | None => s_sat2seq st end in
    do '(st1, pseqs) <- link_parents seq parents
         (mkSt (s_utxo st) (s_entries st) (s_id2seq st) num2seq sat2seq (s_children st) (s_coll st) (s_latest st)
               (s_h2last st) (s_blessed st) (s_cursed st) (s_unbound st) (s_lost st)) [];
    let e := mkI charms fee height hidden (f_id f) number pseqs sat seq in
    let '(target, unb') := if unbound then ((unbound_op, b_unb b), b_unb b + 1) else (sp, b_unb b) in
    Ok (mkB (mkSt (push_insc (fst target) seq (snd target) (s_utxo st1))
                  (tset N.eqb seq e (s_entries st1))
                  (tset pair_eqb (f_id f) seq (s_id2seq st1))
                  (s_num2seq st1) (s_sat2seq st1) (s_children st1) (s_coll st1) (s_latest st1)
                  (s_h2last st1) (s_blessed st1) (s_cursed st1) (s_unbound st1) (s_lost st1))
            (b_flot b) (b_reward b) (b_lost b) bl cu unb' (seq + 1) (b_cb_ranges b) (b_lost_ranges b))
  end.

Fixpoint apply_locs (height : N) (ranges : option (list (N * N)))
         (l : list (outpoint * N * flotsam * bool)) (b : bst) : Res bst :=
  match l with
  | [] => Ok b
  | (op, off, f, opret) :: r =>
    do b' <- update_location height ranges f (op, off) opret b;
    apply_locs height ranges r b'
  end.

(* the leftovers of the coinbase: lost *)
Fixpoint apply_lost (height : N) (ranges : option (list (N * N))) (ov : N)
         (l : list flotsam) (b : bst) : Res bst :=
  match l with
  | [] => Ok b
  | f :: r =>
    do off <- csub 5 (b_lost b + f_offset f) ov;
    do b' <- update_location height ranges f (null_op, off) false b;
    apply_lost height ranges ov r b'
  end.

Fixpoint rebase (reward ov : N) (l : list flotsam) : Res (list flotsam) :=
  match l with
  | [] => Ok []
  | f :: r =>
    do off <- csub 5 (reward + f_offset f) ov;
    do r' <- rebase reward ov r;
    Ok (mkF (f_id f) off (f_origin f) :: r')
  end.

Definition is_new (f : flotsam) : bool := match f_origin f with ONew _ _ _ _ _ _ _ => true | OOld _ => false end.

(* first half of index_inscriptions: the floating inscriptions of the transaction (parents filtered,
   fee set) and total_input_value *)
Definition floating_of (st : state) (height : N) (t : tx) (ents : list uentry) : Res (list flotsam * N) :=
  let jubilant := c_jubilee cfg <=? height in
  let tov := sum_values (t_outs t) in
  do a <- inputs_loop st (t_id t) height jubilant tov (t_ins t) 0 ents (t_envs t) (mkA [] [] 0 0);
  let potential := map f_id (a_float a) in
  do fee <- (if existsb is_new (a_float a) then
               do d <- csub 4 (a_tiv a) tov; Ok (d / a_idc a)
             else Ok 0);
  Ok (map (fix_new potential fee) (a_float a), a_tiv a).

Definition tx_is_coinbase (t : tx) : bool :=
  match t_ins t with prev :: _ => is_null prev | [] => false end.

Definition set_flot (b : bst) (l : list flotsam) : bst :=
  mkB (b_st b) l (b_reward b) (b_lost b) (b_blessed b) (b_cursed b) (b_unb b) (b_next b)
      (b_cb_ranges b) (b_lost_ranges b).

(* InscriptionUpdater::index_inscriptions *)
Definition index_inscriptions (height : N) (t : tx) (ents : list uentry)
           (ranges : option (list (N * N))) (b : bst) : Res bst :=
  do '(floating, tiv) <- floating_of (b_st b) height t ents;
  let cb := tx_is_coinbase t in
  let all := if cb then floating ++ b_flot b else floating in
  let b0 := if cb then set_flot b [] else b in
  let sorted := sort_by f_offset all in
  let '(locs, rest, ov) := assign (t_id t) 0 0 (t_outs t) sorted in
  do b1 <- apply_locs height ranges locs b0;
  if cb then
    do b2 <- apply_lost height ranges ov rest b1;
    do d <- csub 5 (b_reward b2) ov;
    Ok (mkB (b_st b2) (b_flot b2) (b_reward b2) (b_lost b2 + d) (b_blessed b2) (b_cursed b2) (b_unb b2) (b_next b2)
            (b_cb_ranges b2) (b_lost_ranges b2))
  else
    do rest' <- rebase (b_reward b1) ov rest;
    do d <- csub 5 tiv ov;
    Ok (mkB (b_st b1) (b_flot b1 ++ rest') (b_reward b1 + d) (b_lost b1) (b_blessed b1) (b_cursed b1) (b_unb b1)
            (b_next b1) (b_cb_ranges b1) (b_lost_ranges b1)).

(* ---------------------------------------------- index_transaction_sats *)

(* one output: take [remaining] sats from the front of the input ranges *)
Fixpoint take_sats (fuel : nat) (remaining : N) (rs : list (N * N)) (acc : list (N * N))
  : Res (list (N * N) * list (N * N)) :=
  if remaining =? 0 then Ok (acc, rs) else
  match fuel with
  | O => Panic 9
  | S fu =>
    match rs with
    | [] => Panic 9
    | (s, e) :: r =>
      let count := e - s in
      if remaining <? count then Ok (acc ++ [(s, s + remaining)], (s + remaining, e) :: r)
      else take_sats fu (remaining - count) r (acc ++ [(s, e)])
    end
  end.

Fixpoint split_sats (outs : list txout) (rs : list (N * N)) : Res (list (list (N * N)) * list (N * N)) :=
  match outs with
  | [] => Ok ([], rs)
  | o :: r =>
    do '(mine, rest) <- take_sats (S (length rs)) (o_value o) rs [];
    do '(others, lft) <- split_sats r rest;
    Ok (mine :: others, lft)
  end.

(* ---------------------------------------------- index_utxo_entries: one transaction *)

Fixpoint take_inputs (ins : list outpoint) (utxo : list (outpoint * uentry))
  : Res (list uentry * list (outpoint * uentry)) :=
  match ins with
  | [] => Ok ([], utxo)
  | p :: r =>
    match tget pair_eqb p utxo with
    | None => Panic 8
    | Some u =>
      do '(us, utxo') <- take_inputs r (tdel pair_eqb p utxo);
      Ok (u :: us, utxo')
    end
  end.

Fixpoint put_outputs (txid vout : N) (outs : list txout) (rs : list (list (N * N)))
         (utxo : list (outpoint * uentry)) : list (outpoint * uentry) :=
  match outs with
  | [] => utxo
  | o :: r =>
    let u := if c_sats cfg then mkU 0 (hd [] rs) [] else mkU (o_value o) [] [] in
    put_outputs txid (vout + 1) r (tl rs) (tset pair_eqb (txid, vout) u utxo)
  end.

Definition with_utxo (st : state) (u : list (outpoint * uentry)) : state :=
  mkSt u (s_entries st) (s_id2seq st) (s_num2seq st) (s_sat2seq st) (s_children st) (s_coll st) (s_latest st)
       (s_h2last st) (s_blessed st) (s_cursed st) (s_unbound st) (s_lost st).

(* [first] = tx_offset == 0; [insc] = index_inscriptions enabled at this height *)
Definition index_tx (height : N) (insc first : bool) (t : tx) (b : bst) : Res bst :=
  let st := b_st b in
  do '(ents, utxo1) <- (if first then Ok ([], s_utxo st) else take_inputs (t_ins t) (s_utxo st));
  do '(per_out, in_ranges, b1) <-
     (if c_sats cfg then
        let input := if first then b_cb_ranges b else concat (map u_ranges ents) in
        do '(per_out, lft) <- split_sats (t_outs t) input;
        Ok (per_out, Some input,
            if first
            then mkB st (b_flot b) (b_reward b) (b_lost b) (b_blessed b) (b_cursed b) (b_unb b) (b_next b)
                     (b_cb_ranges b) (b_lost_ranges b ++ lft)
            else mkB st (b_flot b) (b_reward b) (b_lost b) (b_blessed b) (b_cursed b) (b_unb b) (b_next b)
                     (b_cb_ranges b ++ lft) (b_lost_ranges b))
      else Ok ([], None, b));
  (* the output entries live in output_utxo_entries during index_inscriptions and are inserted into the
     cache afterwards; with one map and fresh txids inserting them first is the same *)
  let utxo2 := put_outputs (t_id t) 0 (t_outs t) per_out utxo1 in
  let b2 := set_st b1 (with_utxo st utxo2) in
  if insc then index_inscriptions height t ents in_ranges b2 else Ok b2.

Fixpoint index_txs (height : N) (insc : bool) (l : list tx) (b : bst) : Res bst :=
  match l with
  | [] => Ok b
  | t :: r => do b' <- index_tx height insc false t b; index_txs height insc r b'
  end.

(* next_sequence_number: last key of SEQUENCE_NUMBER_TO_INSCRIPTION_ENTRY + 1, or 0 *)
Definition next_seq_of (ents : list (N * ientry)) : N :=
  match ents with
  | [] => 0
  | _ => fold_right (fun kv a => N.max (fst kv) a) 0 ents + 1
  end.

(* Updater::index_utxo_entries for one block *)
Definition index_block (height : N) (blk : block) (st : state) : Res state :=
  let insc := c_first cfg <=? height in
  do cb <- (if c_sats cfg then
              if 0 <? subsidy height then
                do s <- starting_sat height; Ok [(s, s + subsidy height)]
              else Ok []
            else Ok []);
  let b0 := mkB st [] (subsidy height) (s_lost st) (s_blessed st) (s_cursed st) (s_unbound st)
                (next_seq_of (s_entries st)) cb [] in
  do b1 <- index_txs height insc (tl blk) b0;
  do b2 <- (match blk with
            | [] => Ok b1
            | t0 :: _ => index_tx height insc true t0 b1
            end);
  let st2 := b_st b2 in
  let h2last := if insc then tset N.eqb height (b_next b2) (s_h2last st2) else s_h2last st2 in
  (* lost sat ranges merged into the null outpoint entry; lost_sats (sat index) += sizes *)
  let utxo := match b_lost_ranges b2 with
              | [] => s_utxo st2
              | lr =>
                let e := match tget pair_eqb null_op (s_utxo st2) with Some e => e | None => empty_entry end in
                tset pair_eqb null_op (mkU (u_value e) (u_ranges e ++ lr) (u_insc e)) (s_utxo st2)
              end in
  let lost := if c_sats cfg then s_lost st + ranges_size (b_lost_ranges b2) else b_lost b2 in
  Ok (mkSt utxo (s_entries st2) (s_id2seq st2) (s_num2seq st2) (s_sat2seq st2) (s_children st2) (s_coll st2)
           (s_latest st2) h2last (b_blessed b2) (b_cursed b2) (b_unb b2) lost).

Fixpoint index_chain (height : N) (c : list block) (st : state) : Res state :=
  match c with
  | [] => Ok st
  | blk :: r => do st' <- index_block height blk st; index_chain (height + 1) r st'
  end.

End Model.

(* ------------------------------------------------------------------ wire *)

Definition rd (l : list Z) : N * list Z := match l with [] => (0, []) | x :: r => (nZ x, r) end.
Definition rdb (l : list Z) : bool * list Z := let (n, r) := rd l in (negb (n =? 0), r).

Fixpoint rd_list {A} (n : nat) (f : list Z -> A * list Z) (l : list Z) : list A * list Z :=
  match n with
  | O => ([], l)
  | S k => let (a, r) := f l in let (as_, r') := rd_list k f r in (a :: as_, r')
  end.

Definition rd_counted {A} (f : list Z -> A * list Z) (l : list Z) : list A * list Z :=
  let (n, r) := rd l in
  (* never trust a count beyond what the line can hold *)
  rd_list (Nat.min (N.to_nat n) (length r)) f r.

Definition rd_pair (l : list Z) : (N * N) * list Z :=
  let (a, r) := rd l in let (b, r') := rd r in ((a, b), r').

Definition rd_env (l : list Z) : envelope * list Z :=
  let (nrecipe, l) := rd l in
  let l := skipn (N.to_nat nrecipe) l in
  let (input, l) := rd l in
  let (offset, l) := rd l in
  let (pushnum, l) := rdb l in
  let (stutter, l) := rdb l in
  let (dup, l) := rdb l in
  let (incomplete, l) := rdb l in
  let (uneven, l) := rdb l in
  let (ptr_field, l) := rdb l in
  let (ptr, l) := read_opt l in
  let (hidden, l) := rdb l in
  let (parents, l) := rd_counted rd_pair l in
  (mkEnv input offset pushnum stutter dup incomplete uneven ptr_field ptr hidden parents, l).

(* output: value, script field = 2*kind + f.  f = 1 iff the first byte of the output script is OP_RETURN (0x6a),
   computed by the harness from the bytes of the script it builds; kind (which script the harness builds) is
   not read by the model. *)
Definition rd_out (l : list Z) : txout * list Z :=
  let (v, l) := rd l in let (o, l) := rd l in (mkOut v (N.odd o), l).

Definition rd_tx (l : list Z) : tx * list Z :=
  let (id, l) := rd l in
  let (ins, l) := rd_counted rd_pair l in
  let (outs, l) := rd_counted rd_out l in
  let (envs, l) := rd_counted rd_env l in
  (mkTx id ins outs envs, l).

Fixpoint empty_blocks (n : nat) (height first_id : N) : list block :=
  match n with
  | O => []
  | S k => [mkTx first_id [null_op] [mkOut (subsidy height) false] []]
             :: empty_blocks k (height + 1) (first_id + 1)
  end.

(* items: 0 count first_id  (count empty blocks: coinbase with one output claiming the subsidy)
          1 ntx tx*          *)
Fixpoint rd_items (fuel : nat) (height : N) (l : list Z) : list block :=
  match fuel with
  | O => []
  | S fu =>
    match l with
    | [] => []
    | 0%Z :: r =>
      let (cnt, r) := rd r in
      let (fid, r) := rd r in
      let k := Nat.min (N.to_nat cnt) 100000 in
      empty_blocks k height fid ++ rd_items fu (height + N.of_nat k) r
    | _ :: r =>
      let (txs, r') := rd_counted rd_tx r in
      txs :: rd_items fu (height + 1) r'
    end
  end.

Definition cfg_of (chain : N) (sats : bool) : config :=
  if chain =? 0 then mkCfg JUBILEE_REGTEST FIRST_INSCRIPTION_REGTEST sats
  else mkCfg JUBILEE_TESTNET4 FIRST_INSCRIPTION_TESTNET4 sats.

(* ---- output *)

Fixpoint ins_le {A} (le : A -> A -> bool) (x : A) (l : list A) : list A :=
  match l with
  | [] => [x]
  | y :: r => if le x y then x :: y :: r else y :: ins_le le x r
  end.
Definition sort_le {A} (le : A -> A -> bool) (l : list A) : list A := fold_right (ins_le le) [] l.

Definition pair_le (a b : N * N) : bool := (fst a <? fst b) || ((fst a =? fst b) && (snd a <=? snd b)).

Definition emit_list {A} (f : A -> list Z) (l : list A) : list Z :=
  zN (N.of_nat (length l)) :: concat (map f l).

Definition emit_pair (p : N * N) : list Z := [zN (fst p); zN (snd p)].

Definition emit_entry (kv : N * ientry) : list Z :=
  let e := snd kv in
  [zN (fst kv); zN (i_charms e); zN (i_fee e); zN (i_height e); zb (i_hidden e);
   zN (fst (i_id e)); zN (snd (i_id e)); i_number e] ++ write_lp (i_parents e) ++ write_opt (i_sat e) ++ [zN (i_seq e)].

Definition emit_utxo (cfg : config) (kv : outpoint * uentry) : list Z :=
  let u := snd kv in
  [zN (fst (fst kv)); zN (snd (fst kv)); zN (total_value cfg u)]
    ++ emit_list emit_pair (u_ranges u) ++ emit_list emit_pair (u_insc u).

(* Updater::commit: SEQUENCE_NUMBER_TO_SATPOINT from the entries *)
Definition satpoints (utxo : list (outpoint * uentry)) : list (N * (outpoint * N)) :=
  concat (map (fun kv => map (fun so => (fst so, (fst kv, snd so))) (u_insc (snd kv))) utxo).

Definition emit_state (cfg : config) (st : state) : list Z :=
  [0%Z; zN (s_blessed st); zN (s_cursed st); zN (s_unbound st); zN (s_lost st)]
    ++ emit_list emit_entry (sort_le (fun a b => fst a <=? fst b) (s_entries st))
    ++ emit_list (emit_utxo cfg) (sort_le (fun a b => pair_le (fst a) (fst b)) (s_utxo st))
    ++ emit_list (fun x => [zN (fst x); zN (fst (fst (snd x))); zN (snd (fst (snd x))); zN (snd (snd x))])
                 (sort_le (fun a b => fst a <=? fst b) (satpoints (s_utxo st)))
    ++ emit_list (fun x => [zN (fst (fst x)); zN (snd (fst x)); zN (snd x)])
                 (sort_le (fun a b => pair_le (fst a) (fst b)) (s_id2seq st))
    ++ emit_list (fun x => [fst x; zN (snd x)]) (sort_le (fun a b => (fst a <=? fst b)%Z) (s_num2seq st))
    ++ emit_list emit_pair (sort_le pair_le (s_sat2seq st))
    ++ emit_list emit_pair (sort_le pair_le (s_children st))
    ++ emit_list emit_pair (sort_le pair_le (s_coll st))
    ++ emit_list emit_pair (sort_le pair_le (s_latest st))
    ++ emit_list emit_pair (sort_le pair_le (s_h2last st)).

Definition parse_case (inp : list Z) : config * list block :=
  match inp with
  | chain :: sats :: items => (cfg_of (nZ chain) (negb (Z.eqb sats 0)), rd_items (S (length items)) 0 items)
  | _ => (cfg_of 0 false, [])
  end.

Definition run_inscr (inp : list Z) : list Z :=
  let (cfg, c) := parse_case inp in
  match index_chain cfg 0 c empty_state with
  | Ok st => emit_state cfg st
  | Err e => [(-1)%Z; zN e]
  | Panic t => [(-2)%Z]
  end.

Definition run_C03 := run_inscr.
Definition run_C04 := run_inscr.
Definition run_C05 := run_inscr.
Definition run_C06 := run_inscr.
Definition run_C07 := run_inscr.
